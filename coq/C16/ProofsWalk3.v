(* C16 — the push-result clause of the executable threaded check on the model's own runs: one
   window entry per (thread, operation), its rank in the window tied to the idx its fetch_add
   returned; then the full statement "spec_ok accepts every run of the model outside the
   late-push class". *)
From Coq Require Import List NArith ZArith Bool Arith Lia Permutation.
Import ListNotations.
Require Import MV.Common.Interleave MV.C16.Model MV.C16.Conc MV.C16.Spec MV.C16.Proofs MV.C16.ExecGen
               MV.C16.ProofsConc MV.C16.ProofsConc2 MV.C16.ProofsConc3 MV.C16.ProofsWalk.
Open Scope N_scope.

(* ---- step facts *)
Lemma step_to_P3 s l s' l' sd idx v c :
  step s l = Some (s', l') -> pcl l' = P3 sd idx v c ->
  pcl l = P2 sd v c /\ idx = count (res (side s sd)).
Proof.
  intros E Q. unfold step in E. destruct (pcl l) eqn:P;
    try (inversion E; subst s' l'; cbn in Q; discriminate).
  - inversion E; subst s' l'. destruct (todo l) as [|[? ?|?|] ?]; cbn in Q; discriminate.
  - inversion E; subst s' l'. cbn in Q. inversion Q; subst. auto.
  - destruct (store_step (res (side s sd0)) idx0 v0 c0). inversion E; subst s' l'. unfold finish in Q.
    destruct (todo l) as [|[? ?|?|] ?]; cbn in Q; discriminate.
  - destruct (lock s); inversion E; subst s' l'; [rewrite P in Q|cbn in Q]; discriminate.
  - inversion E; subst s' l'. cbn in Q. match type of Q with context [if ?b then _ else _] => destruct b end; discriminate.
  - inversion E; subst s' l'. cbn in Q. match type of Q with context [if ?b then _ else _] => destruct b end; discriminate.
  - inversion E; subst s' l'. unfold finish in Q. destruct (todo l) as [|[? ?|?|] ?]; cbn in Q; discriminate.
  - inversion E; subst s' l'. unfold finish in Q. destruct (todo l) as [|[? ?|?|] ?]; cbn in Q; discriminate.
Qed.

Definition expected (capN idx : N) : pres := if idx <? capN then PFill else PDraw (idx + 1).

Lemma step_P3_res s l s' l' sd idx v c :
  pcl l = P3 sd idx v c -> step s l = Some (s', l') ->
  results l' = MPush (expected (capacity (res (side s sd))) idx) :: results l.
Proof.
  intros P E. unfold step in E. rewrite P in E. unfold store_step, expected in *.
  destruct (idx <? capacity (res (side s sd))); inversion E; subst s' l'; unfold finish; rewrite enter_results; reflexivity.
Qed.

Lemma nth_error_snoc_cases {A} (l : list A) (tl : list A) i y :
  (length tl <= 1)%nat -> nth_error (l ++ tl) i = Some y ->
  nth_error l i = Some y \/ (i = length l /\ tl = [y]).
Proof.
  intros Hl H. destruct (Nat.lt_ge_cases i (length l)) as [Q|Q].
  - left. rewrite nth_error_app1 in H by exact Q. exact H.
  - right. rewrite nth_error_app2 in H by exact Q. destruct tl as [|z [|z' tl]]; cbn in Hl; try lia.
    + destruct (i - length l)%nat; discriminate.
    + destruct (i - length l)%nat as [|k] eqn:K; cbn in H; [|destruct k; discriminate].
      inversion H; subst. split; [lia|reflexivity].
Qed.

Lemma window_In l g e : In e (window l g) -> In e l.
Proof. unfold window. intros H. apply filter_In in H. apply H. Qed.

Section Walk3.
Variable cap : nat.
Variable progs : list (list op).

(* every window entry of a thread belongs to a finished operation, or to the push it is in the
   middle of (between its fetch_add and its store) *)
Definition WCu (c : @config shared local) (w : wstate) : Prop :=
  forall u x j g, nth_error (snd c) u = Some x -> In (me x, j, g) (w_pushes w) ->
    j < jx x \/ (j = jx x /\ exists sd idx v c0, pcl x = P3 sd idx v c0).

(* the rank of a push in its window is the idx its fetch_add returned; finished pushes reported
   what that rank prescribes *)
Definition WCc (c : @config shared local) (w : wstate) : Prop :=
  (forall u x sd idx v c0, nth_error (snd c) u = Some x -> pcl x = P3 sd idx v c0 ->
     forall g i g', nth_error (win w g) i = Some (me x, jx x, g') -> N.of_nat i = idx) /\
  (forall g i t j g', nth_error (win w g) i = Some (t, j, g') ->
     forall u x m, nth_error (snd c) u = Some x -> me x = t ->
       nth_error (rev (results x)) (N.to_nat j) = Some m ->
       m = MPush (expected (N.of_nat cap) (N.of_nat i))).

Definition RW3 (c : @config shared local) (w : wstate) : Prop :=
  RW cap progs c w /\ WCu c w /\ (late (fst c) = false -> WCc c w).

Lemma RW3_step : forall s ls t l s' l' a,
  RW3 (s, ls) a -> nth_error ls t = Some l -> step s l = Some (s', l') ->
  RW3 (s', upd ls t l') (wstep a (N.of_nat t, site l)).
Proof.
  intros s ls t l s' l' w (HR & C3 & HC) Ht E.
  split; [apply (RW_step cap progs s ls t l s' l' w HR Ht E)|].
  destruct HR as (I3 & (A1 & A2 & _) & HB). cbn [fst snd] in *.
  pose proof I3 as (I2 & HCap & HCnt & _). pose proof I2 as (HM & _). cbn [fst snd] in *.
  rewrite <- (HM t l Ht).
  destruct (wproj l w) as (_ & _ & Wpu & _ & _). rewrite (A1 t l Ht) in Wpu.
  set (w' := wstep w (me l, site l)) in *.
  pose proof (step_me _ _ _ _ E) as Hme.
  assert (Hmt : me l = N.of_nat t) by (apply (HM t l Ht)).
  assert (Hother : forall u x, u <> t -> nth_error ls u = Some x -> me x <> me l).
  { intros u x Hne Hx. rewrite (HM u x Hx), Hmt. lia. }
  pose proof (step_pf _ _ _ _ E) as PFc.
  assert (Hjx : jx l' = if is_fin (pcl l) then jx l + 1 else jx l).
  { unfold jx. destruct PFc as [(F & R & _)|(F & o & r & _ & _ & R & _)]; rewrite F, R; cbn [length]; lia. }
  set (e := (me l, jx l, lookup (me l) (w_win w))) in *.
  assert (Hnewp : forall y, In y (w_pushes w') -> In y (w_pushes w) \/
                 ((exists sd v c, pcl l = P2 sd v c) /\ y = e)).
  { intros y Hy. rewrite Wpu in Hy. destruct (pcl l) eqn:P; auto.
    apply in_app_or in Hy. destruct Hy as [Hy|[<-|[]]]; [left; exact Hy|right]. split; [eauto|reflexivity]. }
  (* positions in a window: old, or the freshly appended entry *)
  assert (Hpos : forall g i y, nth_error (win w' g) i = Some y ->
            nth_error (win w g) i = Some y \/
            ((exists sd v c, pcl l = P2 sd v c) /\ y = e /\ i = length (win w g) /\ snd e = g)).
  { intros g i y Hy. unfold win in *. rewrite Wpu in Hy. destruct (pcl l) eqn:P; auto.
    rewrite window_app in Hy. destruct (snd e =? g) eqn:Q.
    - apply nth_error_snoc_cases in Hy; [|cbn; lia]. destruct Hy as [Hy|[Hi Hy]]; [left; exact Hy|right].
      inversion Hy; subst y. apply N.eqb_eq in Q. split; [eauto|]. auto.
    - rewrite app_nil_r in Hy. left. exact Hy. }
  split.
  - (* one entry per operation *)
    intros u x j g Hx Hy. cbn [fst snd] in *.
    destruct (nth_error_upd_cases ls t l' u x Hx) as [[-> ->]|[Hne Hx']].
    + rewrite Hme in Hy. rewrite Hjx. destruct (Hnewp _ Hy) as [Ho|((sd & v & c & P) & Q)].
      * destruct (C3 t l j g Ht Ho) as [Lt|[Eq (sd & idx & v & c & P)]].
        -- left. destruct (is_fin (pcl l)); lia.
        -- rewrite P. cbn [is_fin]. left. lia.
      * unfold e in Q. inversion Q; subst j g. rewrite P. cbn [is_fin]. right. split; [reflexivity|].
        rewrite (step_P2 _ _ _ _ _ _ _ P E). eauto.
    + destruct (Hnewp _ Hy) as [Ho|(_ & Q)]; [apply (C3 u x j g Hx' Ho)|].
      unfold e in Q. inversion Q. exfalso. apply (Hother u x Hne Hx'). assumption.
  - cbn [fst snd]. intros HL. pose proof (step_late _ _ _ _ E HL) as HL0.
    destruct (HC HL0) as (C4 & C2). destruct (HB HL0) as (_ & _ & B1 & B2 & _). cbn [fst snd] in *.
    split.
    + (* rank = idx *)
      intros u x sd idx v c Hx Px g i g' Hn.
      destruct (nth_error_upd_cases ls t l' u x Hx) as [[-> ->]|[Hne Hx']].
      * destruct (step_to_P3 _ _ _ _ _ _ _ _ E Px) as [P Eidx].
        rewrite Hme, Hjx, P in Hn. cbn [is_fin] in Hn.
        destruct (Hpos _ _ _ Hn) as [Ho|(_ & _ & Hi & Hg)].
        -- exfalso. apply nth_error_In, window_In in Ho.
           destruct (C3 t l _ _ Ht Ho) as [Lt|[_ (sd0 & idx0 & v0 & c0 & P0)]]; [lia|]. rewrite P in P0. discriminate.
        -- destruct (B1 t l sd Ht (or_introl (ex_intro _ v (ex_intro _ c P)))) as [Esd Elk].
           unfold e in Hg. cbn [snd] in Hg. rewrite Elk in Hg. subst g i idx.
           rewrite (HCnt sd), Esd, <- B2, map_length. reflexivity.
      * destruct (Hpos _ _ _ Hn) as [Ho|(_ & Q & _)]; [apply (C4 u x sd idx v c Hx' Px g i g' Ho)|].
        unfold e in Q. inversion Q. exfalso. apply (Hother u x Hne Hx'). assumption.
    + (* finished pushes reported what their rank prescribes *)
      intros g i t0 j g' Hn u x m Hx Hm Hj.
      destruct (Hpos _ _ _ Hn) as [Ho|((sd & v & c & P) & Q & _)].
      * destruct (nth_error_upd_cases ls t l' u x Hx) as [[-> ->]|[Hne Hx']]; [|apply (C2 g i t0 j g' Ho u x m Hx' Hm Hj)].
        destruct PFc as [(_ & R & _)|(F & o & r & _ & _ & R & _)].
        -- rewrite R in Hj. apply (C2 g i t0 j g' Ho t l m Ht); [congruence|exact Hj].
        -- rewrite R, nth_error_rev_snoc in Hj.
           destruct (N.to_nat j <? length (results l))%nat eqn:Q1; [apply (C2 g i t0 j g' Ho t l m Ht); [congruence|exact Hj]|].
           destruct (N.to_nat j =? length (results l))%nat eqn:Q2; [|discriminate].
           apply Nat.eqb_eq in Q2. inversion Hj; subst m. clear Hj.
           assert (Ej : j = jx l) by (unfold jx; lia). assert (Et : t0 = me l) by congruence. subst j t0.
           rewrite Et in Ho. pose proof Ho as Hin. apply nth_error_In, window_In in Hin.
           destruct (C3 t l _ _ Ht Hin) as [Lt|[_ (sd & idx & v & c & P)]]; [lia|].
           pose proof (C4 t l sd idx v c Ht P g i g' Ho) as Ei.
           rewrite (step_P3_res _ _ _ _ _ _ _ _ P E) in R. inversion R; subst r.
           unfold capacity. rewrite (HCap sd), Ei. reflexivity.
      * exfalso. unfold e in Q. injection Q as Q1 Q2 Q3. rewrite Q1 in Hm. rewrite Q2 in Hj.
        assert (u = t).
        { destruct (Nat.eq_dec u t) as [->|Hne]; [reflexivity|exfalso].
          destruct (nth_error_upd_cases ls t l' u x Hx) as [[-> _]|[_ Hx']]; [congruence|].
          apply (Hother u x Hne Hx'). exact Hm. }
        subst u. cbn [snd] in Hx. rewrite (nth_error_upd_same _ _ _ _ Ht) in Hx. inversion Hx; subst x.
        destruct PFc as [(_ & R & _)|(F & _)]; [|rewrite P in F; discriminate].
        rewrite R in Hj. unfold jx in Hj. rewrite Nat2N.id in Hj.
        assert (nth_error (rev (results l)) (length (results l)) = None) by (apply nth_error_None; rewrite rev_length; lia).
        congruence.
Qed.
End Walk3.

Lemma RW3_init cap progs : RW3 cap progs (init_config cap progs) w0.
Proof.
  split; [apply RW_init|]. split.
  - intros u x j g _ [].
  - intros _. split.
    + intros u x sd idx v c0 _ _ g i g' H. unfold win, w0 in H. cbn in H. destruct i; discriminate.
    + intros g i t j g' H. unfold win, w0 in H. cbn in H. destruct i; discriminate.
Qed.

Theorem RW3_full_run cap progs sched fuel :
  let r := exec_full step site fuel (init_config cap progs) sched in
  RW3 cap progs (fst r) (walk (snd r)).
Proof.
  cbv zeta. unfold walk. fold w0.
  apply (exec_full_tr wstep (RW3 cap progs) wstep_noop (RW3_step cap progs) fuel sched _ w0 (RW3_init cap progs)).
Qed.
