(* C16 — executable entry points used by the correspondence check (cases.v): the generic checks
   of ExecGen.v instantiated with the primitive-float sample-rate check of F64.v. *)
From Coq Require Import List NArith ZArith Bool.
Import ListNotations.
Require Export MV.C16.ExecGen MV.C16.F64.
Open Scope N_scope.

Definition agrees (c : case) (o : OUT) : bool := ExecGen.agrees rate_is c o.
Definition spec_ok (c : case) (o : OUT) : bool := ExecGen.spec_ok rate_is c o.

Definition verdicts (l : list (N * case * OUT)) : list (N * bool * bool * option N) :=
  map (fun '(i, c, o) => (i, agrees c o, spec_ok c o, known_class c)) l.
