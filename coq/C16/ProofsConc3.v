(* C16 — proofs about the interleaving machine, part 3: per-drain accounting outside the
   late-push class, for every schedule, thread count and program. *)
From Coq Require Import List NArith Bool Arith Lia Permutation.
Import ListNotations.
Require Import MV.Common.Interleave MV.C16.Model MV.C16.Conc MV.C16.Spec MV.C16.Proofs MV.C16.ProofsConc2.
Open Scope N_scope.

(* ---- sides *)
Lemma side_set s sd x sd' : side (set_side s sd x) sd' = if Bool.eqb sd sd' then x else side s sd'.
Proof. destruct sd, sd'; reflexivity. Qed.

Lemma set_side_misc s sd x :
  late (set_side s sd x) = late s /\ glog (set_side s sd x) = glog s /\
  lock (set_side s sd x) = lock s /\ usep (set_side s sd x) = usep s.
Proof. destruct sd; cbn; auto. Qed.

(* ---- what one step does to a side *)
Definition eff (s s' : shared) (l : local) (sd : bool) : Prop :=
  let a := side s sd in let b := side s' sd in
  (b = a /\ forall idx v c, pcl l <> P3 sd idx v c)
  \/ (sd = usep s /\ (exists v c, pcl l = P1 v c) /\ res b = res a /\ led b = led a /\ fl b = me l :: fl a)
  \/ (exists v c, pcl l = P2 sd v c /\ values (res b) = values (res a) /\ count (res b) = count (res a) + 1 /\
                  led b = led a ++ [v] /\ fl b = fl a)
  \/ (exists idx v c, pcl l = P3 sd idx v c /\ res b = fst (store_step (res a) idx v c) /\ led b = led a /\
                      fl b = without (me l) (fl a))
  \/ (exists k n len acc W St, pcl l = K9 k sd n len acc W St /\ values (res b) = values (res a) /\ count (res b) = 0 /\
                          led b = [] /\ fl b = fl a).

Lemma step_eff s l s' l' : step s l = Some (s', l') -> forall sd, eff s s' l sd.
Proof.
  intros E sd. unfold step in E. destruct l as [m p td rs]. cbn [pcl me todo results] in *. unfold eff. cbn [pcl me].
  destruct p; try (inversion E; subst s' l'; left; split; [reflexivity|discriminate]).
  - inversion E; subst s' l'. rewrite side_set. destruct (Bool.eqb (usep s) sd) eqn:Q; [|left; split; [reflexivity|discriminate]].
    apply Bool.eqb_prop in Q. subst sd. right; left. cbn. repeat split; eauto.
  - inversion E; subst s' l'. rewrite side_set. destruct (Bool.eqb sd0 sd) eqn:Q; [|left; split; [reflexivity|discriminate]].
    apply Bool.eqb_prop in Q. subst sd0. right; right; left. exists v, c. cbn. auto.
  - destruct (store_step (res (side s sd0)) idx v c) as [r' p] eqn:S. inversion E; subst s' l'.
    rewrite side_set. destruct (Bool.eqb sd0 sd) eqn:Q.
    + apply Bool.eqb_prop in Q. subst sd0. right; right; right; left. exists idx, v, c. cbn. rewrite S. auto.
    + left. split; [reflexivity|]. intros i' v' c' H. inversion H; subst. rewrite Bool.eqb_reflx in Q. discriminate.
  - destruct (lock s); inversion E; subst s' l'; left; (split; [destruct sd; reflexivity|discriminate]).
  - inversion E; subst s' l'. rewrite side_set. destruct (Bool.eqb sd0 sd) eqn:Q; [|left; split; [reflexivity|discriminate]].
    apply Bool.eqb_prop in Q. subst sd0. right; right; right; right. exists k, n, len, acc, W, St. cbn. auto.
  - discriminate.
Qed.

Lemma step_late s l s' l' : step s l = Some (s', l') -> late s' = false -> late s = false.
Proof.
  intros E H. unfold step in E. destruct (pcl l);
    try (inversion E; subst s' l'; try exact H; try (rewrite (proj1 (set_side_misc _ _ _)) in H; exact H); fail).
  - destruct (store_step (res (side s sd)) idx v c). inversion E; subst s' l'.
    rewrite (proj1 (set_side_misc _ _ _)) in H. exact H.
  - destruct (lock s); inversion E; subst s' l'; exact H.
  - inversion E; subst s' l'. cbn in H. apply orb_false_iff in H. apply H.
Qed.

Lemma step_glog s l s' l' : step s l = Some (s', l') ->
  glog s' = glog s \/ exists k d W St, pcl l = K10 k d W St /\ glog s' = (d, W, St, k) :: glog s.
Proof.
  intros E. unfold step in E. destruct (pcl l);
    try (inversion E; subst s' l'; left; try reflexivity; apply (set_side_misc _ _ _); fail).
  - destruct (store_step (res (side s sd)) idx v c). inversion E; subst s' l'. left. apply (set_side_misc _ _ _).
  - destruct (lock s); inversion E; subst s' l'; left; reflexivity.
  - inversion E; subst s' l'. right. do 4 eexists. split; reflexivity.
Qed.

(* ---- the accounting statement for one drain: [W] = ledger of the side when the count was read *)
Definition takeof (k : option N) (len : N) : N := match k with None => len | Some k' => N.min k' len end.
Definition dg (cap : nat) (k : option N) (n len : N) (acc W : list N) : Prop :=
  n = N.of_nat (length W) /\ len = N.min n (N.of_nat cap) /\ N.of_nat (length acc) = takeof k len /\
  (forall v, In v acc -> In v W) /\ (n <= N.of_nat cap -> acc = firstn (length acc) W).

(* ---- what a thread's program counter says about the shared state (outside the late-push class) *)
Definition T (cap : nat) (s : shared) (x : local) : Prop :=
  match pcl x with
  | P2 sd v c => In (me x) (fl (side s sd))
  | P3 sd idx v c => In (me x) (fl (side s sd)) /\ nth_error (led (side s sd)) (N.to_nat idx) = Some v
  | K7 k up => fl (side s up) = []
  | K8 k sd n len take i acc W St =>
      fl (side s sd) = [] /\ W = led (side s sd) /\ n = N.of_nat (length W) /\ len = N.min n (N.of_nat cap) /\
      take = takeof k len /\ i < take /\ acc = firstn (N.to_nat i) (values (res (side s sd))) /\ Permutation St W
  | K9 k sd n len acc W St => fl (side s sd) = [] /\ dg cap k n len acc W /\ Permutation St W
  | K10 k d W St => dg cap k (d_unsampled d) (d_len d) (d_vals d) W /\ Permutation St W
  | _ => True
  end.

Lemma without_In m y l : In y l -> y <> m -> In y (without m l).
Proof. intros H Hne. unfold without. apply filter_In. split; [exact H|]. apply negb_true_iff. apply N.eqb_neq. exact Hne. Qed.

Lemma without_nil m l : l = [] -> without m l = [].
Proof. intros ->. reflexivity. Qed.

(* a side whose in-flight list is empty is not touched by anybody but a drain's own reset, as long
   as use_primary points to the other side *)
Lemma drain_frame cap s s' l sd :
  usep s = negb sd -> fl (side s sd) = [] -> T cap s l -> eff s s' l sd ->
  side s' sd = side s sd \/ exists k n len acc W St, pcl l = K9 k sd n len acc W St.
Proof.
  intros Hu Hf Tl [[E _]|[(E & _)|[(v & c & P & _)|[(idx & v & c & P & _)|(k0 & n & len & acc & W & St & P & _)]]]].
  - left. exact E.
  - exfalso. rewrite Hu in E. destruct sd; discriminate.
  - exfalso. unfold T in Tl. rewrite P in Tl. rewrite Hf in Tl. exact Tl.
  - exfalso. unfold T in Tl. rewrite P in Tl. rewrite Hf in Tl. destruct Tl as [[] _].
  - right. exists k0, n, len, acc, W, St. exact P.
Qed.

Lemma T_other cap s s' ls t l u x :
  Inv2 (s, ls) -> nth_error ls t = Some l -> nth_error ls u = Some x -> u <> t ->
  T cap s l -> T cap s x -> (forall sd, eff s s' l sd) -> T cap s' x.
Proof.
  intros (HM & HL & HU) Ht Hu Hne Tl Tx Heff. cbn [fst snd] in *.
  assert (Hme : me x <> me l).
  { rewrite (HM u x Hu), (HM t l Ht). lia. }
  assert (Hex : region (pcl l) = true -> region (pcl x) = true -> False).
  { intros A B. pose proof (HL t l Ht A) as LA. pose proof (HL u x Hu B) as LB. rewrite LA in LB. inversion LB. congruence. }
  assert (Hreg : forall sd, drain_side (pcl x) = Some sd -> fl (side s sd) = [] ->
                 side s' sd = side s sd).
  { intros sd D F. destruct (drain_frame cap s s' l sd (HU u x sd Hu D) F Tl (Heff sd)) as [E|(k0 & n & len & acc & W & St & P)]; [exact E|].
    exfalso. apply Hex; [rewrite P; reflexivity|]. destruct (pcl x); cbn in D; try discriminate; reflexivity. }
  assert (Hmem : forall sd, In (me x) (fl (side s sd)) -> In (me x) (fl (side s' sd))).
  { intros sd H. destruct (Heff sd) as [[E _]|[(_ & _ & _ & _ & E)|[(v & c & _ & _ & _ & _ & E)|[(idx & v & c & _ & _ & _ & E)|(k0 & n & len & acc & W & St & _ & _ & _ & _ & E)]]]].
    - rewrite E. exact H.
    - rewrite E. right. exact H.
    - rewrite E. exact H.
    - rewrite E. apply without_In; assumption.
    - rewrite E. exact H. }
  unfold T in *. destruct (pcl x) eqn:Px; auto.
  - destruct Tx as [A B]. split; [apply Hmem; exact A|].
    destruct (Heff sd) as [[E _]|[(_ & _ & _ & E & _)|[(v0 & c0 & _ & _ & _ & E & _)|[(idx0 & v0 & c0 & _ & _ & E & _)|(k0 & n & len & acc & W & St & P & _ & _ & _ & E)]]]].
    + rewrite E. exact B.
    + rewrite E. exact B.
    + rewrite E. rewrite nth_error_app1; [exact B|]. apply nth_error_Some. rewrite B. discriminate.
    + rewrite E. exact B.
    + exfalso. rewrite P in Tl. destruct Tl as [F _]. rewrite F in A. exact A.
  - rewrite (Hreg up eq_refl Tx). exact Tx.
  - destruct Tx as [A B]. rewrite (Hreg sd eq_refl A). split; assumption.
  - destruct Tx as [A B]. rewrite (Hreg sd eq_refl A). split; assumption.
Qed.

(* ---- list lemmas *)
Lemma nth_set_nth_same (l : list N) : forall i v d, (i < length l)%nat -> nth i (set_nth l i v) d = v.
Proof. induction l as [|x r IH]; intros [|i] v d H; cbn in *; try lia; auto. apply IH. lia. Qed.

Lemma nth_set_nth_other (l : list N) : forall i j v d, i <> j -> nth j (set_nth l i v) d = nth j l d.
Proof. induction l as [|x r IH]; intros [|i] [|j] v d H; cbn; auto; try lia. Qed.

Lemma firstn_S_nth (l : list N) : forall i d, (i < length l)%nat -> firstn (S i) l = firstn i l ++ [nth i l d].
Proof. induction l as [|x r IH]; intros [|i] d H; cbn in *; try lia; auto. f_equal. apply IH. lia. Qed.

Lemma firstn_In_nth (P : N -> Prop) (l : list N) : forall m,
  (m <= length l)%nat -> (forall j, (j < m)%nat -> P (nth j l 0)) -> forall v, In v (firstn m l) -> P v.
Proof.
  induction l as [|x r IH]; intros [|m] Hm H v Hv; cbn in *; try contradiction; try lia.
  destruct Hv as [<-|Hv]; [apply (H 0%nat); lia|].
  apply (IH m); [lia| |exact Hv]. intros j Hj. apply (H (S j)). lia.
Qed.

Lemma firstn_eq_nth (l : list N) : forall m (W : list N),
  (m <= length l)%nat -> (forall j, (j < m)%nat -> nth_error W j = Some (nth j l 0)) -> firstn m l = firstn m W.
Proof.
  induction l as [|x r IH]; intros [|m] W Hm H; cbn in *; try lia; auto.
  destruct W as [|w W]; [specialize (H 0%nat ltac:(lia)); discriminate|].
  pose proof (H 0%nat ltac:(lia)) as H0. cbn in H0. inversion H0; subst. cbn. f_equal.
  apply IH; [lia|]. intros j Hj. apply (H (S j)). lia.
Qed.

Lemma store_step_cases r idx v c :
  let r' := fst (store_step r idx v c) in
  count r' = count r /\
  ( (idx < capacity r /\ values r' = set_nth (values r) (N.to_nat idx) v)
    \/ (capacity r <= idx /\ c mod (idx + 1) < capacity r /\ values r' = set_nth (values r) (N.to_nat (c mod (idx + 1))) v)
    \/ (capacity r <= idx /\ values r' = values r) ).
Proof.
  unfold store_step. destruct (idx <? capacity r) eqn:A; [apply N.ltb_lt in A|apply N.ltb_ge in A]; cbn [fst].
  - split; [reflexivity|]. left. auto.
  - destruct (c mod (idx + 1) <? capacity r) eqn:B; [apply N.ltb_lt in B|]; (split; [reflexivity|]).
    + right; left. auto.
    + right; right. auto.
Qed.

(* ---- unconditional shape invariants *)
Definition capS (cap : nat) (s : shared) : Prop := forall sd, length (values (res (side s sd))) = cap.
Definition cntS (s : shared) : Prop := forall sd, count (res (side s sd)) = N.of_nat (length (led (side s sd))).

Lemma U_step cap s l s' l' : capS cap s -> cntS s -> step s l = Some (s', l') -> capS cap s' /\ cntS s'.
Proof.
  intros HC HN E. pose proof (step_eff s l s' l' E) as Heff. split; intros sd; specialize (Heff sd); specialize (HC sd); specialize (HN sd);
    destruct Heff as [[Q _]|[(_ & _ & Q1 & Q2 & _)|[(v & c & _ & Q1 & Q2 & Q3 & _)|[(idx & v & c & _ & Q1 & Q2 & _)|(k0 & n & len & acc & W & St & _ & Q1 & Q2 & Q3 & _)]]]].
  - rewrite Q. exact HC.
  - rewrite Q1. exact HC.
  - rewrite Q1. exact HC.
  - rewrite Q1. destruct (store_step_cases (res (side s sd)) idx v c) as [_ [(_ & V)|[(_ & _ & V)|(_ & V)]]];
      rewrite V, ?set_nth_length; exact HC.
  - rewrite Q1. exact HC.
  - rewrite Q. exact HN.
  - rewrite Q1, Q2. exact HN.
  - rewrite Q2, Q3, HN, app_length. cbn. lia.
  - rewrite Q1, Q2. destruct (store_step_cases (res (side s sd)) idx v c) as [Cn _]. rewrite Cn. exact HN.
  - rewrite Q2, Q3. reflexivity.
Qed.

(* ---- slots against the ledger: every counted slot is either still to be written by a push that
   has its idx (a thread at 1603), or holds a value of the ledger (the ledger value at that
   index while no draw has happened yet) *)
Definition Gs1 (cap : nat) (s : shared) (ls : list local) (sd : bool) : Prop :=
  forall j, N.of_nat j < count (res (side s sd)) -> (j < cap)%nat ->
    (exists u x v c, nth_error ls u = Some x /\ pcl x = P3 sd (N.of_nat j) v c)
    \/ (In (nth j (values (res (side s sd))) 0) (led (side s sd)) /\
        (count (res (side s sd)) <= N.of_nat cap ->
         nth_error (led (side s sd)) j = Some (nth j (values (res (side s sd))) 0))).
Definition Gs (cap : nat) (s : shared) (ls : list local) : Prop := forall sd, Gs1 cap s ls sd.

Lemma wit_keep (ls : list local) t l l' sd j :
  nth_error ls t = Some l -> (forall v c, pcl l <> P3 sd j v c) ->
  (exists u x v c, nth_error ls u = Some x /\ pcl x = P3 sd j v c) ->
  exists u x v c, nth_error (upd ls t l') u = Some x /\ pcl x = P3 sd j v c.
Proof.
  intros Ht Hn (u & x & v & c & Hu & P). destruct (Nat.eq_dec u t) as [->|Hne].
  - rewrite Ht in Hu. inversion Hu; subst. exfalso. apply (Hn v c P).
  - exists u, x, v, c. split; [|exact P]. rewrite nth_error_upd_other; auto.
Qed.

Lemma step_P2 s l s' l' sd v c :
  pcl l = P2 sd v c -> step s l = Some (s', l') -> pcl l' = P3 sd (count (res (side s sd))) v c.
Proof. intros P E. unfold step in E. rewrite P in E. inversion E. reflexivity. Qed.

Lemma G_step cap s ls t l s' l' :
  capS cap s -> cntS s -> T cap s l -> Gs cap s ls -> nth_error ls t = Some l ->
  step s l = Some (s', l') -> Gs cap s' (upd ls t l').
Proof.
  intros HC HN Tl HG Ht E sd. pose proof (step_eff _ _ _ _ E sd) as Heff.
  specialize (HG sd). specialize (HC sd). specialize (HN sd). unfold Gs1 in *.
  destruct Heff as [[Q NP]|[(_ & (v & c & P) & Q1 & Q2 & _)|[(v & c & P & Q1 & Q2 & Q3 & _)|[(idx & v & c & P & Q1 & Q2 & _)|(k0 & n & len & acc & W & St & P & Q1 & Q2 & Q3 & _)]]]];
    intros j Hj Hc.
  - rewrite Q in *. destruct (HG j Hj Hc) as [Wt|R]; [left|right; exact R].
    apply wit_keep with l; auto.
  - rewrite Q1, Q2 in *. destruct (HG j Hj Hc) as [Wt|R]; [left|right; exact R].
    apply wit_keep with l; auto. intros; rewrite P; discriminate.
  - rewrite Q1, Q2, Q3 in *.
    destruct (N.eq_dec (N.of_nat j) (count (res (side s sd)))) as [Ej|Nj].
    + left. exists t, l', v, c. split; [eapply nth_error_upd_same; eauto|].
      rewrite (step_P2 _ _ _ _ _ _ _ P E), Ej. reflexivity.
    + assert (Hj' : N.of_nat j < count (res (side s sd))) by lia.
      destruct (HG j Hj' Hc) as [Wt|[R1 R2]]; [left|right].
      * apply wit_keep with l; auto. intros; rewrite P; discriminate.
      * split; [apply in_or_app; left; exact R1|]. intros Hle. rewrite nth_error_app1 by lia. apply R2. lia.
  - rewrite Q2 in *. rewrite Q1 in *. unfold T in Tl. rewrite P in Tl. destruct Tl as [_ Tn].
    assert (Hidx : idx < count (res (side s sd))).
    { rewrite HN. assert (N.to_nat idx < length (led (side s sd)))%nat by (apply nth_error_Some; rewrite Tn; discriminate). lia. }
    pose proof (store_step_cases (res (side s sd)) idx v c) as SC. cbv zeta in SC. destruct SC as [Cn Vs].
    rewrite Cn in *. unfold capacity in Vs. rewrite HC in Vs.
    assert (Hwit : forall jj, N.of_nat jj <> idx ->
                   (exists u x v0 c0, nth_error ls u = Some x /\ pcl x = P3 sd (N.of_nat jj) v0 c0) ->
                   exists u x v0 c0, nth_error (upd ls t l') u = Some x /\ pcl x = P3 sd (N.of_nat jj) v0 c0).
    { intros jj Hjj Wt. apply wit_keep with l; auto. intros v0 c0 H. rewrite P in H. inversion H. lia. }
    destruct Vs as [(A & V)|[(A & B & V)|(A & V)]]; rewrite V.
    + destruct (Nat.eq_dec j (N.to_nat idx)) as [->|Nj].
      * right. rewrite nth_set_nth_same by lia. split; [eapply nth_error_In; eauto|]. intros _. exact Tn.
      * rewrite nth_set_nth_other by lia.
        destruct (HG j Hj Hc) as [Wt|R]; [left; apply Hwit; [lia|exact Wt]|right; exact R].
    + destruct (Nat.eq_dec j (N.to_nat (c mod (idx + 1)))) as [->|Nj].
      * right. rewrite nth_set_nth_same by lia. split; [eapply nth_error_In; eauto|]. intros Hle. lia.
      * rewrite nth_set_nth_other by lia.
        destruct (HG j Hj Hc) as [Wt|R]; [left; apply Hwit; [lia|exact Wt]|right; exact R].
    + destruct (HG j Hj Hc) as [Wt|R]; [left; apply Hwit; [lia|exact Wt]|right; exact R].
  - rewrite Q2 in Hj. lia.
Qed.

(* ---- started pushes against the ledger: as multisets, the values started (1601) on a side since
   its last reset = the ledger of the side + the values of the pushes parked at their fetch_add *)
Definition p2v (sd : bool) (x : local) : list N :=
  match pcl x with P2 sd' v _ => if Bool.eqb sd sd' then [v] else [] | _ => [] end.
Definition cnt (l : list N) (v : N) : nat := count_occ N.eq_dec l v.
Definition Hs (s : shared) (ls : list local) : Prop :=
  forall sd v, cnt (stv (side s sd)) v = (cnt (led (side s sd)) v + cnt (flat_map (p2v sd) ls) v)%nat.

Lemma cnt_app l1 l2 v : cnt (l1 ++ l2) v = (cnt l1 v + cnt l2 v)%nat.
Proof. unfold cnt. apply count_occ_app. Qed.

Lemma fm_upd (f : local -> list N) (ls : list local) t l l' v :
  nth_error ls t = Some l ->
  (cnt (flat_map f (upd ls t l')) v + cnt (f l) v = cnt (flat_map f ls) v + cnt (f l') v)%nat.
Proof.
  intros H. destruct (upd_split ls t l l' H) as (l1 & l2 & E1 & E2 & _). rewrite E2, E1.
  rewrite !flat_map_app. cbn [flat_map]. rewrite !cnt_app. lia.
Qed.

Lemma fm_nil (f : local -> list N) (ls : list local) :
  (forall u x, nth_error ls u = Some x -> f x = []) -> flat_map f ls = [].
Proof.
  induction ls as [|x r IH]; intros H; [reflexivity|]. cbn. rewrite (H 0%nat x eq_refl). cbn.
  apply IH. intros u y Hy. apply (H (S u)). exact Hy.
Qed.

Lemma p2v_enter sd m td rs : p2v sd (enter m td rs) = [].
Proof. unfold p2v. destruct td as [|[v c|k|] r]; reflexivity. Qed.

Lemma step_eff_st s l s' l' : step s l = Some (s', l') -> forall sd,
  let a := side s sd in let b := side s' sd in
  (stv b = stv a /\ led b = led a /\ p2v sd l' = p2v sd l)
  \/ (exists v, stv b = stv a ++ [v] /\ led b = led a /\ p2v sd l = [] /\ p2v sd l' = [v])
  \/ (exists v, stv b = stv a /\ led b = led a ++ [v] /\ p2v sd l = [v] /\ p2v sd l' = [])
  \/ (stv b = [] /\ led b = [] /\ p2v sd l = [] /\ p2v sd l' = [] /\
      exists k n len acc W St, pcl l = K9 k sd n len acc W St).
Proof.
  intros E sd. unfold step in E. destruct l as [m p td rs]. cbn [pcl me todo results] in *. cbv zeta.
  destruct p.
  - inversion E; subst s' l'. left. rewrite p2v_enter. auto.
  - inversion E; subst s' l'. destruct sd, (usep s) eqn:U; cbn;
      first [left; repeat split; reflexivity | right; left; exists v; repeat split; reflexivity].
  - inversion E; subst s' l'. destruct sd, sd0; cbn;
      first [left; repeat split; reflexivity | right; right; left; exists v; repeat split; reflexivity].
  - destruct (store_step (res (side s sd0)) idx v c) as [r' pr]. inversion E; subst s' l'.
    left. unfold finish. rewrite p2v_enter. destruct sd, sd0; cbn; auto.
  - destruct (lock s); inversion E; subst s' l'; left; destruct sd; cbn; auto.
  - inversion E; subst s' l'. left. auto.
  - inversion E; subst s' l'. left. destruct sd; cbn; auto.
  - inversion E; subst s' l'. left. split; [reflexivity|]. split; [reflexivity|].
    unfold p2v. cbn [goto pcl]. match goal with |- context [if ?b then _ else _] => destruct b end; reflexivity.
  - inversion E; subst s' l'. left. split; [reflexivity|]. split; [reflexivity|].
    unfold p2v. cbn [goto pcl]. match goal with |- context [if ?b then _ else _] => destruct b end; reflexivity.
  - inversion E; subst s' l'. destruct sd, sd0; cbn;
      first [left; repeat split; reflexivity
            | right; right; right; repeat split; try reflexivity; exists k, n, len, acc, W, St; reflexivity].
  - inversion E; subst s' l'. left. unfold finish. rewrite p2v_enter. destruct sd; cbn; auto.
  - inversion E; subst s' l'. left. auto.
  - inversion E; subst s' l'. left. unfold finish. rewrite p2v_enter. auto.
  - discriminate.
Qed.

(* nobody is parked at a fetch_add on a side whose in-flight list is empty *)
Lemma no_p2 cap s (ls : list local) sd :
  (forall u x, nth_error ls u = Some x -> T cap s x) -> fl (side s sd) = [] -> flat_map (p2v sd) ls = [].
Proof.
  intros HT F. apply fm_nil. intros u x Hx. pose proof (HT u x Hx) as Tx. unfold T in Tx. unfold p2v.
  destruct (pcl x); try reflexivity. destruct (Bool.eqb sd sd0) eqn:Q; [|reflexivity].
  apply Bool.eqb_prop in Q. subst sd0. rewrite F in Tx. destruct Tx.
Qed.

Lemma Hs_step cap s ls t l s' l' :
  (forall u x, nth_error ls u = Some x -> T cap s x) -> Hs s ls -> nth_error ls t = Some l ->
  step s l = Some (s', l') -> Hs s' (upd ls t l').
Proof.
  intros HT H Ht E sd v. pose proof (fm_upd (p2v sd) ls t l l' v Ht) as U. specialize (H sd v).
  destruct (step_eff_st s l s' l' E sd) as [(A & B & C)|[(w & A & B & C & D)|[(w & A & B & C & D)|(A & B & C & D & k0 & n & len & acc & W & St & P)]]].
  - rewrite A, B. rewrite C in U. lia.
  - rewrite A, B, cnt_app. rewrite C, D in U. cbn [cnt count_occ] in U. unfold cnt in *. cbn [count_occ] in *. lia.
  - rewrite A, B, cnt_app. rewrite C, D in U. unfold cnt in *. cbn [count_occ] in *. lia.
  - rewrite A, B. rewrite C, D in U.
    assert (F : fl (side s sd) = []).
    { pose proof (HT t l Ht) as Tl. unfold T in Tl. rewrite P in Tl. apply Tl. }
    rewrite (no_p2 cap s ls sd HT F) in U. unfold cnt in *. cbn [count_occ] in *. lia.
Qed.

Lemma perm_at_drain cap s ls sd :
  (forall u x, nth_error ls u = Some x -> T cap s x) -> Hs s ls -> fl (side s sd) = [] ->
  Permutation (stv (side s sd)) (led (side s sd)).
Proof.
  intros HT H F. apply (Permutation_count_occ N.eq_dec). intros v. specialize (H sd v).
  rewrite (no_p2 cap s ls sd HT F) in H. unfold cnt in H. cbn [count_occ] in H. lia.
Qed.

Lemma T_enter cap s m td rs : T cap s (enter m td rs).
Proof. unfold T. destruct td as [|[v c|k|] r]; cbn; exact I. Qed.

Lemma side_rec s up u lk lt g :
  side {| sp := sp s; ss := ss s; usep := u; lock := lk; late := lt; glog := g |} up = side s up.
Proof. destruct up; reflexivity. Qed.

Lemma T_self cap s ls t l s' l' :
  capS cap s -> cntS s -> (forall u x, nth_error ls u = Some x -> T cap s x) -> Gs cap s ls -> Hs s ls ->
  nth_error ls t = Some l -> step s l = Some (s', l') -> late s' = false -> T cap s' l'.
Proof.
  intros HC HN HT HG HS Ht E HL. pose proof (HT t l Ht) as Tl.
  unfold step in E. destruct l as [m p td rs]. cbn [pcl me todo results] in *. unfold T in Tl. cbn [pcl me] in Tl.
  destruct p.
  - inversion E; subst s' l'. apply T_enter.
  - inversion E; subst s' l'. unfold T. cbn [goto pcl me]. rewrite side_set, Bool.eqb_reflx. cbn. left; reflexivity.
  - inversion E; subst s' l'. unfold T. cbn [goto pcl me]. rewrite side_set, Bool.eqb_reflx. cbn [fl led].
    split; [exact Tl|]. rewrite (HN sd), Nat2N.id, nth_error_app2 by lia. rewrite Nat.sub_diag. reflexivity.
  - destruct (store_step (res (side s sd)) idx v c) as [r' pr]. inversion E; subst s' l'. apply T_enter.
  - destruct (lock s); inversion E; subst s' l'; unfold T; cbn; exact I.
  - inversion E; subst s' l'. unfold T; cbn; exact I.
  - inversion E; subst s' l'. unfold T. cbn [goto pcl]. cbn [late] in HL. apply orb_false_iff in HL. destruct HL as [_ HL].
    rewrite side_rec. destruct (fl (side s up)); [reflexivity|discriminate].
  - inversion E; subst s' l'. clear E. unfold T. cbn [goto pcl].
    pose proof (HN up) as Hn. pose proof (HC up) as Hc.
    pose proof (perm_at_drain cap s ls up HT HS Tl) as HP.
    unfold capacity. rewrite Hc.
    set (n := count (res (side s up))) in *.
    assert (Hlen : (if N.of_nat cap <? n then N.of_nat cap else n) = N.min n (N.of_nat cap)).
    { destruct (N.of_nat cap <? n) eqn:Q; [apply N.ltb_lt in Q|apply N.ltb_ge in Q]; lia. }
    rewrite Hlen.
    set (take := match k with Some k' => N.min k' (N.min n (N.of_nat cap)) | None => N.min n (N.of_nat cap) end).
    assert (Htk : take = takeof k (N.min n (N.of_nat cap))) by (unfold take, takeof; destruct k; reflexivity).
    destruct (take =? 0) eqn:Q; [apply N.eqb_eq in Q|apply N.eqb_neq in Q].
    + split; [exact Tl|]. split; [|exact HP]. unfold dg. cbn [length]. rewrite <- Htk, Q. repeat split; auto. intros v [].
    + repeat split; auto; lia.
  - inversion E; subst s' l'. clear E. destruct Tl as (F & HW & Hn & Hlen & Htk & Hi & Hacc & HP).
    pose proof (HC sd) as Hc. pose proof (HN sd) as Hcnt.
    assert (Htl : take <= len) by (rewrite Htk; unfold takeof; destruct k; lia).
    assert (Hlt : (N.to_nat i < cap)%nat) by lia.
    set (vals := values (res (side s sd))) in *.
    assert (Hacc' : acc ++ [nth (N.to_nat i) vals 0] = firstn (S (N.to_nat i)) vals).
    { rewrite (firstn_S_nth vals (N.to_nat i) 0) by (rewrite Hc; lia). rewrite <- Hacc. reflexivity. }
    rewrite Hacc'. unfold T. cbn [goto pcl].
    destruct (i + 1 <? take) eqn:Q; [apply N.ltb_lt in Q|apply N.ltb_ge in Q].
    + repeat split; auto. replace (N.to_nat (i + 1)) with (S (N.to_nat i)) by lia. reflexivity.
    + split; [exact F|]. split; [|exact HP].
      assert (HGj : forall j, (j < S (N.to_nat i))%nat ->
                    In (nth j vals 0) W /\ (n <= N.of_nat cap -> nth_error W j = Some (nth j vals 0))).
      { intros j Hj. destruct (HG sd j) as [(u & x & v & c & Hu & P)|[R1 R2]].
        - rewrite Hcnt, <- HW. lia.
        - lia.
        - exfalso. pose proof (HT u x Hu) as Tx. unfold T in Tx. rewrite P in Tx. destruct Tx as [Tx _]. rewrite F in Tx. exact Tx.
        - rewrite HW. split; [exact R1|]. intros Hle. apply R2. rewrite Hcnt, <- HW. lia. }
      assert (Hlen' : length (firstn (S (N.to_nat i)) vals) = S (N.to_nat i)).
      { apply firstn_length_le. rewrite Hc. lia. }
      unfold dg. rewrite Hlen'. split; [exact Hn|]. split; [exact Hlen|]. split; [rewrite <- Htk; lia|]. split.
      * apply (firstn_In_nth (fun v => In v W)); [rewrite Hc; lia|]. intros j Hj. apply (HGj j Hj).
      * intros Hle. apply firstn_eq_nth; [rewrite Hc; lia|]. intros j Hj. apply (HGj j Hj). exact Hle.
  - inversion E; subst s' l'. unfold T. cbn [goto pcl d_unsampled d_len d_vals]. exact (proj2 Tl).
  - inversion E; subst s' l'. apply T_enter.
  - inversion E; subst s' l'. unfold T; cbn; exact I.
  - inversion E; subst s' l'. apply T_enter.
  - discriminate.
Qed.

(* ---- the invariant and its preservation by every step *)
Definition Inv3 (cap : nat) (c : config) : Prop :=
  Inv2 c /\ capS cap (fst c) /\ cntS (fst c) /\
  (late (fst c) = false ->
     (forall u x, nth_error (snd c) u = Some x -> T cap (fst c) x) /\ Gs cap (fst c) (snd c) /\ Hs (fst c) (snd c) /\
     (forall d W St k, In (d, W, St, k) (glog (fst c)) -> dg cap k (d_unsampled d) (d_len d) (d_vals d) W /\ Permutation St W)).

Lemma Inv3_step cap : step_preserves step (Inv3 cap).
Proof.
  intros s ls t l s' l' (I2 & HC & HN & HB) Ht E. cbn [fst snd] in *.
  pose proof (Inv2_step s ls t l s' l' I2 Ht E) as I2'.
  destruct (U_step cap s l s' l' HC HN E) as [HC' HN'].
  split; [exact I2'|]. split; [exact HC'|]. split; [exact HN'|]. cbn [fst snd]. intros HL.
  pose proof (step_late _ _ _ _ E HL) as HL0. destruct (HB HL0) as (HT & HG & HS & HLg).
  split; [|split; [|split]].
  - intros u x Hx. destruct (nth_error_upd_cases ls t l' u x Hx) as [[-> ->]|[Hne Hx']].
    + apply (T_self cap s ls t l s' l' HC HN HT HG HS Ht E HL).
    + apply (T_other cap s s' ls t l u x I2 Ht Hx' Hne (HT t l Ht) (HT u x Hx') (step_eff s l s' l' E)).
  - apply (G_step cap s ls t l s' l' HC HN (HT t l Ht) HG Ht E).
  - apply (Hs_step cap s ls t l s' l' HT HS Ht E).
  - intros d W St k Hin. destruct (step_glog _ _ _ _ E) as [Q|(k0 & d0 & W0 & St0 & P & Q)]; rewrite Q in Hin.
    + apply HLg; exact Hin.
    + destruct Hin as [Hin|Hin]; [inversion Hin; subst|apply HLg; exact Hin].
      pose proof (HT t l Ht) as Tl. unfold T in Tl. rewrite P in Tl. exact Tl.
Qed.

Lemma Inv3_init cap ps : Inv3 cap (init_config cap ps).
Proof.
  split; [apply Inv2_init|]. unfold init_config. cbn [fst snd].
  split; [intros sd; destruct sd; cbn; apply repeat_length|].
  split; [intros sd; destruct sd; reflexivity|]. intros _. split; [|split; [|split]].
  - intros u x Hx. destruct (init_locals_me ps 0 u x Hx) as [_ P]. unfold T. rewrite P. exact I.
  - intros sd j Hj. destruct sd; cbn in Hj; lia.
  - intros sd v. rewrite (fm_nil (p2v sd)).
    + destruct sd; reflexivity.
    + intros u x Hx. destruct (init_locals_me ps 0 u x Hx) as [_ P]. unfold p2v. rewrite P. reflexivity.
  - intros d W St k [].
Qed.

(* every schedule, thread count and program: if no side was retired with a push in flight on it,
   every completed drain [d] is accounted against [St] = the values of the pushes that started
   (1601) on its side since that side's previous count reset, [W] being those same values in the
   order of their fetch_adds (1602) *)
Theorem accounting_except_late_push : forall cap ps sched,
  let c := fst (exec step site (init_config cap ps) sched) in
  late (fst c) = false ->
  forall d W St k, In (d, W, St, k) (glog (fst c)) ->
    Permutation St W /\
    d_unsampled d = N.of_nat (length St) /\
    d_len d = N.min (d_unsampled d) (N.of_nat cap) /\
    N.of_nat (length (d_vals d)) = takeof k (d_len d) /\
    (forall v, In v (d_vals d) -> In v St) /\
    (d_unsampled d <= N.of_nat cap -> d_vals d = firstn (length (d_vals d)) W) /\
    sample_rate d = (if d_unsampled d <=? N.of_nat cap then (1, 1) else (N.of_nat cap, d_unsampled d)).
Proof.
  intros cap ps sched c HL d W St k Hin.
  pose proof (invariant_all_schedules step site (Inv3 cap) (Inv3_step cap) sched _ (Inv3_init cap ps)) as (_ & _ & _ & HB).
  fold c in HB. destruct (HB HL) as (_ & _ & _ & HG). destruct (HG d W St k Hin) as ((A & B & C & D & F) & HP).
  split; [exact HP|]. split; [rewrite (Permutation_length HP); exact A|]. split; [exact B|]. split; [exact C|].
  split; [intros v Hv; apply (Permutation_in v (Permutation_sym HP)); apply D; exact Hv|]. split; [exact F|].
  unfold sample_rate. rewrite B.
  destruct (d_unsampled d <=? N.of_nat cap) eqn:L; [apply N.leb_le in L|apply N.leb_gt in L].
  - replace (N.min (d_unsampled d) (N.of_nat cap)) with (d_unsampled d) by lia. rewrite N.eqb_refl. reflexivity.
  - replace (N.min (d_unsampled d) (N.of_nat cap)) with (N.of_nat cap) by lia.
    destruct (d_unsampled d =? N.of_nat cap) eqn:Q; [apply N.eqb_eq in Q; lia|reflexivity].
Qed.

(* ---- every schedule (late push or not): the count of a side is the number of fetch_adds that
   landed on it since its last reset, and every drain a thread returned is in the ghost log *)
Theorem count_is_ledger_length_every_schedule : forall cap ps sched sd,
  let c := fst (exec step site (init_config cap ps) sched) in
  count (res (side (fst c) sd)) = N.of_nat (length (led (side (fst c) sd))).
Proof.
  intros cap ps sched sd c.
  pose proof (invariant_all_schedules step site (Inv3 cap) (Inv3_step cap) sched _ (Inv3_init cap ps)) as (_ & _ & HN & _).
  apply HN.
Qed.

Lemma enter_results m td rs : results (enter m td rs) = rs.
Proof. destruct td as [|[v c|k|] r]; reflexivity. Qed.

Lemma step_results s l s' l' : step s l = Some (s', l') ->
  results l' = results l \/
  exists y, results l' = y :: results l /\ forall d, y = MConsume d -> exists k W St, pcl l = K10 k d W St.
Proof.
  intros E. unfold step in E. destruct l as [m p td rs]. cbn [pcl me todo results] in *.
  destruct p; try (inversion E; subst s' l'; left; try reflexivity; apply enter_results).
  - destruct (store_step (res (side s sd)) idx v c) as [r' pr]. inversion E; subst s' l'. right.
    exists (MPush pr). unfold finish. rewrite enter_results. split; [reflexivity|]. intros d H. discriminate.
  - destruct (lock s); inversion E; subst s' l'; left; reflexivity.
  - inversion E; subst s' l'. right. exists (MConsume d). unfold finish. rewrite enter_results. split; [reflexivity|].
    intros d0 H. inversion H; subst. do 3 eexists. reflexivity.
  - inversion E; subst s' l'. right. eexists. unfold finish. rewrite enter_results. split; [reflexivity|]. intros d H. discriminate.
Qed.

Definition Rinv (c : config) : Prop :=
  forall u x d, nth_error (snd c) u = Some x -> In (MConsume d) (results x) ->
                exists W St k, In (d, W, St, k) (glog (fst c)).

Lemma Rinv_step : step_preserves step Rinv.
Proof.
  intros s ls t l s' l' H Ht E u x d Hx Hin. cbn [fst snd] in *.
  assert (Hmono : forall e, In e (glog s) -> In e (glog s')).
  { intros e He. destruct (step_glog _ _ _ _ E) as [Q|(k0 & d0 & W0 & St0 & _ & Q)]; rewrite Q; [exact He|right; exact He]. }
  destruct (nth_error_upd_cases ls t l' u x Hx) as [[-> ->]|[Hne Hx']].
  - destruct (step_results _ _ _ _ E) as [R|(y & R & Hy)]; rewrite R in Hin.
    + destruct (H t l d Ht Hin) as (W & St & k & HW). exists W, St, k. apply Hmono. exact HW.
    + destruct Hin as [->|Hin].
      * destruct (Hy d eq_refl) as (k & W & St & P).
        destruct (step_glog _ _ _ _ E) as [Q|(k0 & d0 & W0 & St0 & P0 & Q)].
        -- exfalso. unfold step in E. rewrite P in E. inversion E as [[A B]]. rewrite <- A in Q. cbn in Q.
           assert (L : length ((d, W, St, k) :: glog s) = length (glog s)) by (rewrite Q; reflexivity). cbn in L. lia.
        -- rewrite P in P0. inversion P0; subst. exists W0, St0, k0. rewrite Q. left. reflexivity.
      * destruct (H t l d Ht Hin) as (W & St & k & HW). exists W, St, k. apply Hmono. exact HW.
  - destruct (H u x d Hx' Hin) as (W & St & k & HW). exists W, St, k. apply Hmono. exact HW.
Qed.

Theorem returned_drains_are_logged : forall cap ps sched,
  let c := fst (exec step site (init_config cap ps) sched) in
  forall u x d, nth_error (snd c) u = Some x -> In (MConsume d) (results x) ->
                exists W St k, In (d, W, St, k) (glog (fst c)).
Proof.
  intros cap ps sched c.
  apply (invariant_all_schedules step site Rinv Rinv_step sched (init_config cap ps)).
  intros u x d Hx Hin. cbn [fst snd init_config] in *.
  destruct (init_locals_me ps 0 u x Hx) as [_ P].
  assert (R : results x = []).
  { clear -Hx. revert u Hx. generalize 0. induction ps as [|p r IH]; intros m [|u] H; cbn in H; try discriminate.
    - inversion H; reflexivity.
    - apply (IH _ _ H). }
  rewrite R in Hin. destruct Hin.
Qed.

(* the same statement for the configuration the correspondence check runs to (the schedule, then
   the round-robin tail) *)
Theorem accounting_except_late_push_full_run : forall cap ps sched fuel,
  let c := fst (exec_full step site fuel (init_config cap ps) sched) in
  late (fst c) = false ->
  forall d W St k, In (d, W, St, k) (glog (fst c)) ->
    Permutation St W /\
    d_unsampled d = N.of_nat (length St) /\
    d_len d = N.min (d_unsampled d) (N.of_nat cap) /\
    N.of_nat (length (d_vals d)) = takeof k (d_len d) /\
    (forall v, In v (d_vals d) -> In v St) /\
    (d_unsampled d <= N.of_nat cap -> d_vals d = firstn (length (d_vals d)) W) /\
    sample_rate d = (if d_unsampled d <=? N.of_nat cap then (1, 1) else (N.of_nat cap, d_unsampled d)).
Proof.
  intros cap ps sched fuel c HL d W St k Hin.
  pose proof (invariant_exec_full step site (Inv3 cap) (Inv3_step cap) fuel sched _ (Inv3_init cap ps)) as (_ & _ & _ & HB).
  fold c in HB. destruct (HB HL) as (_ & _ & _ & HG). destruct (HG d W St k Hin) as ((A & B & C & D & F) & HP).
  split; [exact HP|]. split; [rewrite (Permutation_length HP); exact A|]. split; [exact B|]. split; [exact C|].
  split; [intros v Hv; apply (Permutation_in v (Permutation_sym HP)); apply D; exact Hv|]. split; [exact F|].
  unfold sample_rate. rewrite B.
  destruct (d_unsampled d <=? N.of_nat cap) eqn:L; [apply N.leb_le in L|apply N.leb_gt in L].
  - replace (N.min (d_unsampled d) (N.of_nat cap)) with (d_unsampled d) by lia. rewrite N.eqb_refl. reflexivity.
  - replace (N.min (d_unsampled d) (N.of_nat cap)) with (N.of_nat cap) by lia.
    destruct (d_unsampled d =? N.of_nat cap) eqn:Q; [apply N.eqb_eq in Q; lia|reflexivity].
Qed.
