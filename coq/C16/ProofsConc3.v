(* C16 — proofs about the interleaving machine, part 3: per-drain accounting outside the
   late-push class, for every schedule, thread count and program. *)
From Coq Require Import List NArith Bool Arith Lia.
Import ListNotations.
Require Import MV.Common.Interleave MV.C16.Model MV.C16.Conc MV.C16.Spec MV.C16.Proofs MV.C16.ProofsConc2.
Open Scope N_scope.

(* ---- sides *)
Lemma side_set s sd x sd' : side (set_side s sd x) sd' = if Bool.eqb sd sd' then x else side s sd'.
Proof. destruct sd, sd'; reflexivity. Qed.

Lemma set_side_misc s sd x :
  late (set_side s sd x) = late s /\ glog (set_side s sd x) = glog s /\
  lock (set_side s sd x) = lock s /\ usep (set_side s sd x) = usep s.
Proof. destruct sd; cbn; auto. Qed.

(* ---- what one step does to a side *)
Definition eff (s s' : shared) (l : local) (sd : bool) : Prop :=
  let a := side s sd in let b := side s' sd in
  b = a
  \/ (sd = usep s /\ (exists v c, pcl l = P1 v c) /\ res b = res a /\ led b = led a /\ fl b = me l :: fl a)
  \/ (exists v c, pcl l = P2 sd v c /\ values (res b) = values (res a) /\ count (res b) = count (res a) + 1 /\
                  led b = led a ++ [v] /\ fl b = fl a)
  \/ (exists idx v c, pcl l = P3 sd idx v c /\ res b = fst (store_step (res a) idx v c) /\ led b = led a /\
                      fl b = without (me l) (fl a))
  \/ (exists n len acc W, pcl l = K9 sd n len acc W /\ values (res b) = values (res a) /\ count (res b) = 0 /\
                          led b = [] /\ fl b = fl a).

Lemma step_eff s l s' l' : step s l = Some (s', l') -> forall sd, eff s s' l sd.
Proof.
  intros E sd. unfold step in E. destruct l as [m p td rs]. cbn [pcl me todo results] in *. unfold eff. cbn [pcl me].
  destruct p; try (inversion E; subst s' l'; left; reflexivity).
  - inversion E; subst s' l'. rewrite side_set. destruct (Bool.eqb (usep s) sd) eqn:Q; [|left; reflexivity].
    apply Bool.eqb_prop in Q. subst sd. right; left. cbn. repeat split; eauto.
  - inversion E; subst s' l'. rewrite side_set. destruct (Bool.eqb sd0 sd) eqn:Q; [|left; reflexivity].
    apply Bool.eqb_prop in Q. subst sd0. right; right; left. exists v, c. cbn. auto.
  - destruct (store_step (res (side s sd0)) idx v c) as [r' p] eqn:S. inversion E; subst s' l'.
    rewrite side_set. destruct (Bool.eqb sd0 sd) eqn:Q; [|left; reflexivity].
    apply Bool.eqb_prop in Q. subst sd0. right; right; right; left. exists idx, v, c. cbn. rewrite S. auto.
  - destruct (lock s); inversion E; subst s' l'; left; destruct sd; reflexivity.
  - inversion E; subst s' l'. rewrite side_set. destruct (Bool.eqb sd0 sd) eqn:Q; [|left; reflexivity].
    apply Bool.eqb_prop in Q. subst sd0. right; right; right; right. exists n, len, acc, W. cbn. auto.
Qed.

Lemma step_late s l s' l' : step s l = Some (s', l') -> late s' = false -> late s = false.
Proof.
  intros E H. unfold step in E. destruct (pcl l);
    try (inversion E; subst s' l'; try exact H; try (rewrite (proj1 (set_side_misc _ _ _)) in H; exact H); fail).
  - destruct (store_step (res (side s sd)) idx v c). inversion E; subst s' l'.
    rewrite (proj1 (set_side_misc _ _ _)) in H. exact H.
  - destruct (lock s); inversion E; subst s' l'; exact H.
  - inversion E; subst s' l'. cbn in H. apply orb_false_iff in H. apply H.
Qed.

Lemma step_glog s l s' l' : step s l = Some (s', l') ->
  glog s' = glog s \/ exists d W, pcl l = K10 d W /\ glog s' = (d, W) :: glog s.
Proof.
  intros E. unfold step in E. destruct (pcl l);
    try (inversion E; subst s' l'; left; try reflexivity; apply (set_side_misc _ _ _); fail).
  - destruct (store_step (res (side s sd)) idx v c). inversion E; subst s' l'. left. apply (set_side_misc _ _ _).
  - destruct (lock s); inversion E; subst s' l'; left; reflexivity.
  - inversion E; subst s' l'. right. eauto.
Qed.

(* ---- the accounting statement for one drain: [W] = ledger of the side when the count was read *)
Definition dg (cap : nat) (n len : N) (acc W : list N) : Prop :=
  n = N.of_nat (length W) /\ len = N.min n (N.of_nat cap) /\ N.of_nat (length acc) <= len /\
  (forall v, In v acc -> In v W) /\ (n <= N.of_nat cap -> acc = firstn (length acc) W).

(* ---- what a thread's program counter says about the shared state (outside the late-push class) *)
Definition T (cap : nat) (s : shared) (x : local) : Prop :=
  match pcl x with
  | P2 sd v c => In (me x) (fl (side s sd))
  | P3 sd idx v c => In (me x) (fl (side s sd)) /\ nth_error (led (side s sd)) (N.to_nat idx) = Some v
  | K7 k up => fl (side s up) = []
  | K8 sd n len take i acc W =>
      fl (side s sd) = [] /\ W = led (side s sd) /\ n = N.of_nat (length W) /\ len = N.min n (N.of_nat cap) /\
      take <= len /\ i < take /\ acc = firstn (N.to_nat i) (values (res (side s sd)))
  | K9 sd n len acc W => fl (side s sd) = [] /\ dg cap n len acc W
  | K10 d W => dg cap (d_unsampled d) (d_len d) (d_vals d) W
  | _ => True
  end.

Lemma without_In m y l : In y l -> y <> m -> In y (without m l).
Proof. intros H Hne. unfold without. apply filter_In. split; [exact H|]. apply negb_true_iff. apply N.eqb_neq. exact Hne. Qed.

Lemma without_nil m l : l = [] -> without m l = [].
Proof. intros ->. reflexivity. Qed.

(* a side whose in-flight list is empty is not touched by anybody but a drain's own reset, as long
   as use_primary points to the other side *)
Lemma drain_frame cap s s' l sd :
  usep s = negb sd -> fl (side s sd) = [] -> T cap s l -> eff s s' l sd ->
  side s' sd = side s sd \/ exists n len acc W, pcl l = K9 sd n len acc W.
Proof.
  intros Hu Hf Tl [E|[(E & _)|[(v & c & P & _)|[(idx & v & c & P & _)|(n & len & acc & W & P & _)]]]].
  - left. exact E.
  - exfalso. rewrite Hu in E. destruct sd; discriminate.
  - exfalso. unfold T in Tl. rewrite P in Tl. rewrite Hf in Tl. exact Tl.
  - exfalso. unfold T in Tl. rewrite P in Tl. rewrite Hf in Tl. destruct Tl as [[] _].
  - right. eauto.
Qed.

Lemma T_other cap s s' ls t l u x :
  Inv2 (s, ls) -> nth_error ls t = Some l -> nth_error ls u = Some x -> u <> t ->
  T cap s l -> T cap s x -> (forall sd, eff s s' l sd) -> T cap s' x.
Proof.
  intros (HM & HL & HU) Ht Hu Hne Tl Tx Heff. cbn [fst snd] in *.
  assert (Hme : me x <> me l).
  { rewrite (HM u x Hu), (HM t l Ht). lia. }
  assert (Hex : region (pcl l) = true -> region (pcl x) = true -> False).
  { intros A B. pose proof (HL t l Ht A) as LA. pose proof (HL u x Hu B) as LB. rewrite LA in LB. inversion LB. congruence. }
  assert (Hreg : forall sd, drain_side (pcl x) = Some sd -> fl (side s sd) = [] ->
                 side s' sd = side s sd).
  { intros sd D F. destruct (drain_frame cap s s' l sd (HU u x sd Hu D) F Tl (Heff sd)) as [E|(n & len & acc & W & P)]; [exact E|].
    exfalso. apply Hex; [rewrite P; reflexivity|]. destruct (pcl x); cbn in D; try discriminate; reflexivity. }
  assert (Hmem : forall sd, In (me x) (fl (side s sd)) -> In (me x) (fl (side s' sd))).
  { intros sd H. destruct (Heff sd) as [E|[(_ & _ & _ & _ & E)|[(v & c & _ & _ & _ & _ & E)|[(idx & v & c & _ & _ & _ & E)|(n & len & acc & W & _ & _ & _ & _ & E)]]]].
    - rewrite E. exact H.
    - rewrite E. right. exact H.
    - rewrite E. exact H.
    - rewrite E. apply without_In; assumption.
    - rewrite E. exact H. }
  unfold T in *. destruct (pcl x) eqn:Px; auto.
  - destruct Tx as [A B]. split; [apply Hmem; exact A|].
    destruct (Heff sd) as [E|[(_ & _ & _ & E & _)|[(v0 & c0 & _ & _ & _ & E & _)|[(idx0 & v0 & c0 & _ & _ & E & _)|(n & len & acc & W & P & _ & _ & _ & E)]]]].
    + rewrite E. exact B.
    + rewrite E. exact B.
    + rewrite E. rewrite nth_error_app1; [exact B|]. apply nth_error_Some. rewrite B. discriminate.
    + rewrite E. exact B.
    + exfalso. rewrite P in Tl. destruct Tl as [F _]. rewrite <- E, F in A. exact A.
  - rewrite (Hreg up eq_refl Tx). exact Tx.
  - destruct Tx as [A B]. rewrite (Hreg sd eq_refl A). split; assumption.
  - destruct Tx as [A B]. rewrite (Hreg sd eq_refl A). split; assumption.
Qed.
