(* C16 — AtomicSamplingReservoir as an interleaving machine (code after the fix).

   Atomic steps = the yield sites of the hook commit (DESIGN.md appendix A):
     1601 use_primary.load            (AtomicSamplingReservoir::push)
     1602 count.fetch_add             (Reservoir::push)
     1603 value store, either branch; the scripted draw is consulted inside this step
     1604 swap.lock                   (consume)          — a held mutex makes the step a stutter
     1605 use_primary.load   1606 use_primary.store(!up)
     1607 count.load (drain) 1608 each values[i].load (Drain::next)
     1609 count.store(0) (Drain::drop)                  1610 unlock
     1611 use_primary.load   1612 count.load            (is_empty)
   A thread runs a list of [op]s (Model.v).  Ghost state (never read by control flow):
   [infl_p]/[infl_s] = pushes that loaded use_primary = primary/secondary and have not finished,
   [late] = some 1606 step retired a side while a push was in flight on it (the pattern of the
   open known finding C16-late-push).                                                          *)
From Coq Require Import List NArith Bool.
Import ListNotations.
Require Import MV.Common.Interleave MV.C16.Model.
Open Scope N_scope.

Inductive pc :=
| Start
| P1 (v c : N)
| P2 (sd : bool) (v c : N)
| P3 (sd : bool) (idx v c : N)
| K4 (k : option N)
| K5 (k : option N)
| K6 (k : option N) (up : bool)
| K7 (k : option N) (up : bool)
| K8 (sd : bool) (n len take i : N) (acc : list N)
| K9 (sd : bool) (n len : N) (acc : list N)
| K10 (d : drained)
| E11
| E12 (up : bool)
| Done.

Record local := { me : N; pcl : pc; todo : list op; results : list mout (* newest first *) }.
Record shared := { prim : reservoir; sec : reservoir; usep : bool; lock : option N;
                   infl_p : N; infl_s : N; late : bool }.

Definition side (s : shared) (sd : bool) : reservoir := if sd then prim s else sec s.
Definition set_side (s : shared) (sd : bool) (r : reservoir) : shared :=
  if sd
  then {| prim := r; sec := sec s; usep := usep s; lock := lock s; infl_p := infl_p s; infl_s := infl_s s; late := late s |}
  else {| prim := prim s; sec := r; usep := usep s; lock := lock s; infl_p := infl_p s; infl_s := infl_s s; late := late s |}.
Definition infl (s : shared) (sd : bool) : N := if sd then infl_p s else infl_s s.
Definition add_infl (s : shared) (sd : bool) (up : bool) : shared :=
  let f x := if up then x + 1 else x - 1 in
  {| prim := prim s; sec := sec s; usep := usep s; lock := lock s;
     infl_p := if sd then f (infl_p s) else infl_p s; infl_s := if sd then infl_s s else f (infl_s s); late := late s |}.

Definition enter (m : N) (td : list op) (rs : list mout) : local :=
  match td with
  | [] => {| me := m; pcl := Done; todo := []; results := rs |}
  | Push v c :: rest => {| me := m; pcl := P1 v c; todo := rest; results := rs |}
  | Consume k :: rest => {| me := m; pcl := K4 k; todo := rest; results := rs |}
  | IsEmpty :: rest => {| me := m; pcl := E11; todo := rest; results := rs |}
  end.

Definition goto (l : local) (p : pc) : local := {| me := me l; pcl := p; todo := todo l; results := results l |}.
Definition finish (l : local) (x : mout) : local := enter (me l) (todo l) (x :: results l).

(* the second half of Reservoir::push (after the fetch_add returned idx), on the fixed code *)
Definition store_step (r : reservoir) (idx v c : N) : reservoir * pres :=
  if idx <? capacity r then (store r idx v, PFill)
  else let j := c mod (idx + 1) in ((if j <? capacity r then store r j v else r), PDraw (idx + 1)).

Definition step (s : shared) (l : local) : option (shared * local) :=
  match pcl l with
  | Start => Some (s, enter (me l) (todo l) (results l))
  | P1 v c => Some (add_infl s (usep s) true, goto l (P2 (usep s) v c))
  | P2 sd v c =>
      let r := side s sd in
      Some (set_side s sd {| values := values r; count := count r + 1 |}, goto l (P3 sd (count r) v c))
  | P3 sd idx v c =>
      let '(r', p) := store_step (side s sd) idx v c in
      Some (add_infl (set_side s sd r') sd false, finish l (MPush p))
  | K4 k =>
      match lock s with
      | Some _ => Some (s, l)                                   (* blocked: stutter *)
      | None => Some ({| prim := prim s; sec := sec s; usep := usep s; lock := Some (me l);
                         infl_p := infl_p s; infl_s := infl_s s; late := late s |}, goto l (K5 k))
      end
  | K5 k => Some (s, goto l (K6 k (usep s)))
  | K6 k up =>
      Some ({| prim := prim s; sec := sec s; usep := negb up; lock := lock s;
               infl_p := infl_p s; infl_s := infl_s s; late := late s || (0 <? infl s up) |},
            goto l (K7 k up))
  | K7 k up =>
      let r := side s up in
      let n := count r in
      let len := if capacity r <? n then capacity r else n in
      let take := match k with None => len | Some k' => N.min k' len end in
      Some (s, goto l (if take =? 0 then K9 up n len [] else K8 up n len take 0 []))
  | K8 sd n len take i acc =>
      let acc' := acc ++ [nth (N.to_nat i) (values (side s sd)) 0] in
      Some (s, goto l (if i + 1 <? take then K8 sd n len take (i + 1) acc' else K9 sd n len acc'))
  | K9 sd n len acc =>
      let r := side s sd in
      Some (set_side s sd {| values := values r; count := 0 |},
            goto l (K10 {| d_vals := acc; d_len := len; d_unsampled := n |}))
  | K10 d =>
      Some ({| prim := prim s; sec := sec s; usep := usep s; lock := None;
               infl_p := infl_p s; infl_s := infl_s s; late := late s |}, finish l (MConsume d))
  | E11 => Some (s, goto l (E12 (usep s)))
  | E12 up => Some (s, finish l (MEmpty (count (side s up) =? 0)))
  | Done => None
  end.

Definition site (l : local) : N :=
  match pcl l with
  | Start => 0 | P1 _ _ => 1601 | P2 _ _ _ => 1602 | P3 _ _ _ _ => 1603
  | K4 _ => 1604 | K5 _ => 1605 | K6 _ _ => 1606 | K7 _ _ => 1607 | K8 _ _ _ _ _ _ => 1608
  | K9 _ _ _ _ => 1609 | K10 _ => 1610 | E11 => 1611 | E12 _ => 1612 | Done => 0
  end.

Definition init_shared (cap : nat) : shared :=
  {| prim := with_capacity cap; sec := with_capacity cap; usep := true; lock := None;
     infl_p := 0; infl_s := 0; late := false |}.
Definition init_local (m : N) (p : list op) : local := {| me := m; pcl := Start; todo := p; results := [] |}.
Fixpoint init_locals (m : N) (ps : list (list op)) : list local :=
  match ps with [] => [] | p :: r => init_local m p :: init_locals (m + 1) r end.
Definition init_config (cap : nat) (ps : list (list op)) : config := (init_shared cap, init_locals 0 ps).
