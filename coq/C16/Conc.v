(* C16 — AtomicSamplingReservoir as an interleaving machine (code after the fix).

   Atomic steps = the yield sites of the hook commit (DESIGN.md appendix A):
     1601 use_primary.load            (AtomicSamplingReservoir::push)
     1602 count.fetch_add             (Reservoir::push)
     1603 value store, either branch; the scripted draw is consulted inside this step
     1604 swap.lock                   (consume)          — a held mutex makes the step a stutter
     1605 use_primary.load   1606 use_primary.store(!up)
     1607 count.load (drain) 1608 each values[i].load (Drain::next)
     1609 count.store(0) (Drain::drop)                  1610 unlock
     1611 use_primary.load   1612 count.load            (is_empty)
   A thread runs a list of [op]s (Model.v).  Ghost state (never read by control flow), per side:
     [fl]  = ids of the threads whose push loaded use_primary = this side (1601) and has not
             finished its store step (1603): the pushes *in flight* on the side;
     [led] = the ledger: the values of the pushes whose fetch_add (1602) landed on the side since
             its last count reset (1609), in fetch_add order;
     [stv] = the values of the pushes that started (1601) on the side since its last count reset;
   and [late] = some 1606 step retired a side while a push was in flight on it (the pattern of the
   open known finding C16-late-push), [glog] = every completed drain with the ledger and the started
   list of its side at the moment it read the count (1607) and the callback's read limit.                                                      *)
From Coq Require Import List NArith Bool.
Import ListNotations.
Require Import MV.Common.Interleave MV.C16.Model.
Open Scope N_scope.

Inductive pc :=
| Start
| P1 (v c : N)
| P2 (sd : bool) (v c : N)
| P3 (sd : bool) (idx v c : N)
| K4 (k : option N)
| K5 (k : option N)
| K6 (k : option N) (up : bool)
| K7 (k : option N) (up : bool)
| K8 (k : option N) (sd : bool) (n len take i : N) (acc : list N) (W St : list N)
| K9 (k : option N) (sd : bool) (n len : N) (acc : list N) (W St : list N)
| K10 (k : option N) (d : drained) (W St : list N)
| E11
| E12 (up : bool)
| Done.

Record local := { me : N; pcl : pc; todo : list op; results : list mout (* newest first *) }.
Record sidest := { res : reservoir; led : list N; fl : list N; stv : list N }.
Record shared := { sp : sidest; ss : sidest; usep : bool; lock : option N;
                   late : bool; glog : list (drained * list N * list N * option N) }.

Definition side (s : shared) (sd : bool) : sidest := if sd then sp s else ss s.
Definition set_side (s : shared) (sd : bool) (x : sidest) : shared :=
  if sd
  then {| sp := x; ss := ss s; usep := usep s; lock := lock s; late := late s; glog := glog s |}
  else {| sp := sp s; ss := x; usep := usep s; lock := lock s; late := late s; glog := glog s |}.

Definition enter (m : N) (td : list op) (rs : list mout) : local :=
  match td with
  | [] => {| me := m; pcl := Done; todo := []; results := rs |}
  | Push v c :: rest => {| me := m; pcl := P1 v c; todo := rest; results := rs |}
  | Consume k :: rest => {| me := m; pcl := K4 k; todo := rest; results := rs |}
  | IsEmpty :: rest => {| me := m; pcl := E11; todo := rest; results := rs |}
  end.

Definition goto (l : local) (p : pc) : local := {| me := me l; pcl := p; todo := todo l; results := results l |}.
Definition finish (l : local) (x : mout) : local := enter (me l) (todo l) (x :: results l).

(* the second half of Reservoir::push (after the fetch_add returned idx), on the fixed code *)
Definition store_step (r : reservoir) (idx v c : N) : reservoir * pres :=
  if idx <? capacity r then (store r idx v, PFill)
  else let j := c mod (idx + 1) in ((if j <? capacity r then store r j v else r), PDraw (idx + 1)).

Definition is_nil {A} (l : list A) : bool := match l with [] => true | _ => false end.
Definition without (m : N) (l : list N) : list N := filter (fun x => negb (x =? m)) l.

Definition step (s : shared) (l : local) : option (shared * local) :=
  match pcl l with
  | Start => Some (s, enter (me l) (todo l) (results l))
  | P1 v c =>
      let sd := usep s in let x := side s sd in
      Some (set_side s sd {| res := res x; led := led x; fl := me l :: fl x; stv := stv x ++ [v] |}, goto l (P2 sd v c))
  | P2 sd v c =>
      let x := side s sd in let r := res x in
      Some (set_side s sd {| res := {| values := values r; count := count r + 1 |}; led := led x ++ [v]; fl := fl x; stv := stv x |},
            goto l (P3 sd (count r) v c))
  | P3 sd idx v c =>
      let x := side s sd in
      let '(r', p) := store_step (res x) idx v c in
      Some (set_side s sd {| res := r'; led := led x; fl := without (me l) (fl x); stv := stv x |}, finish l (MPush p))
  | K4 k =>
      match lock s with
      | Some _ => Some (s, l)                                   (* blocked: stutter *)
      | None => Some ({| sp := sp s; ss := ss s; usep := usep s; lock := Some (me l); late := late s; glog := glog s |},
                      goto l (K5 k))
      end
  | K5 k => Some (s, goto l (K6 k (usep s)))
  | K6 k up =>
      Some ({| sp := sp s; ss := ss s; usep := negb up; lock := lock s;
               late := late s || negb (is_nil (fl (side s up))); glog := glog s |},
            goto l (K7 k up))
  | K7 k up =>
      let x := side s up in let r := res x in
      let n := count r in
      let len := if capacity r <? n then capacity r else n in
      let take := match k with None => len | Some k' => N.min k' len end in
      Some (s, goto l (if take =? 0 then K9 k up n len [] (led x) (stv x) else K8 k up n len take 0 [] (led x) (stv x)))
  | K8 k sd n len take i acc W St =>
      let acc' := acc ++ [nth (N.to_nat i) (values (res (side s sd))) 0] in
      Some (s, goto l (if i + 1 <? take then K8 k sd n len take (i + 1) acc' W St else K9 k sd n len acc' W St))
  | K9 k sd n len acc W St =>
      let x := side s sd in let r := res x in
      Some (set_side s sd {| res := {| values := values r; count := 0 |}; led := []; fl := fl x; stv := [] |},
            goto l (K10 k {| d_vals := acc; d_len := len; d_unsampled := n |} W St))
  | K10 k d W St =>
      Some ({| sp := sp s; ss := ss s; usep := usep s; lock := None; late := late s; glog := (d, W, St, k) :: glog s |},
            finish l (MConsume d))
  | E11 => Some (s, goto l (E12 (usep s)))
  | E12 up => Some (s, finish l (MEmpty (count (res (side s up)) =? 0)))
  | Done => None
  end.

Definition site (l : local) : N :=
  match pcl l with
  | Start => 0 | P1 _ _ => 1601 | P2 _ _ _ => 1602 | P3 _ _ _ _ => 1603
  | K4 _ => 1604 | K5 _ => 1605 | K6 _ _ => 1606 | K7 _ _ => 1607 | K8 _ _ _ _ _ _ _ _ _ => 1608
  | K9 _ _ _ _ _ _ _ => 1609 | K10 _ _ _ _ => 1610 | E11 => 1611 | E12 _ => 1612 | Done => 0
  end.

Definition side0 (cap : nat) : sidest := {| res := with_capacity cap; led := []; fl := []; stv := [] |}.
Definition init_shared (cap : nat) : shared :=
  {| sp := side0 cap; ss := side0 cap; usep := true; lock := None; late := false; glog := [] |}.
Definition init_local (m : N) (p : list op) : local := {| me := m; pcl := Start; todo := p; results := [] |}.
Fixpoint init_locals (m : N) (ps : list (list op)) : list local :=
  match ps with [] => [] | p :: r => init_local m p :: init_locals (m + 1) r end.
Definition init_config (cap : nat) (ps : list (list op)) : config := (init_shared cap, init_locals 0 ps).
