(* C16 — IEEE-754 binary64 helper: Drain::sample_rate() travels from the Rust driver as a 64-bit
   pattern (Z); [rate_is len n bits] says that the pattern is the double the code computes from
   the pair (len, unsampled_len): 1.0 when they are equal, else `len as f64 / unsampled_len as f64`.
   Nothing is axiomatised: evaluated by vm_compute on the kernel's primitive floats (exact for
   counts below 2^53).                                                                          *)
From Coq Require Import Floats ZArith NArith Bool SpecFloat Uint63.
Open Scope Z_scope.

Definition sf_of_bits (z : Z) : spec_float :=
  let s := Z.testbit z 63 in
  let e := Z.land (Z.shiftr z 52) 2047 in
  let m := Z.land z (2^52 - 1) in
  if e =? 0 then (match m with Zpos p => S754_finite s p (-1074) | _ => S754_zero s end)
  else if e =? 2047 then (if m =? 0 then S754_infinity s else S754_nan)
  else match m + 2^52 with Zpos p => S754_finite s p (e - 1075) | _ => S754_nan end.

Definition sf_eqb (a b : spec_float) : bool :=
  match a, b with
  | S754_zero s, S754_zero s' => Bool.eqb s s'
  | S754_infinity s, S754_infinity s' => Bool.eqb s s'
  | S754_nan, S754_nan => true
  | S754_finite s m e, S754_finite s' m' e' => Bool.eqb s s' && Pos.eqb m m' && Z.eqb e e'
  | _, _ => false
  end.

Definition float_of_N (n : N) : float := PrimFloat.of_uint63 (Uint63.of_Z (Z.of_N n)).

Definition rate_float (len n : N) : float :=
  if N.eqb n len then PrimFloat.one else PrimFloat.div (float_of_N len) (float_of_N n).

Definition rate_is (len n : N) (bits : Z) : bool := sf_eqb (sf_of_bits bits) (Prim2SF (rate_float len n)).
