(* C16 — the executable checks, generic in the sample-rate check [rk len n bits] ("the observed
   double is the one the code computes from (len, unsampled_len)"): theorems hold for every
   instance; Exec.v instantiates it with the primitive-float check of F64.v.               *)
From Coq Require Import List NArith ZArith Bool.
Import ListNotations.
Require Export MV.Common.Interleave MV.C16.Model MV.C16.Spec MV.C16.Conc.
Open Scope N_scope.

(* which code the model stands for: false = as found (`fastrand(idx)`), true = after the fix *)
Definition FX : bool := true.

Inductive case :=
| CSeq (cap : N) (ops : list op)
| CThr (cap : N) (progs : list (list op)) (sched : list N).   (* threads under a schedule *)

(* what the driver observed, one item per operation *)
Inductive obs :=
| OPush (p : pres)
| OConsume (vals : list N) (len : N) (rate : Z)   (* values read, Drain::len(), sample_rate() bits *)
| OEmpty (b : bool)
| OAnomaly.                                       (* a panic outside a draw, or a driver-detected anomaly *)

Inductive OUT :=
| OSeq (os : list obs)
| OThr (trace : list (N * N)) (rs : list (list obs)) (done : bool).  (* step trace, per-thread observations, all finished *)

Inductive MOUT :=
| MSeq (ms : list mout)
| MThr (trace : list (N * N)) (rs : list (list mout)) (done : bool) (late_push : bool).

Definition run_seq (fx : bool) (cap : N) (ops : list op) : list mout :=
  snd (run fx (new (N.to_nat cap)) ops).

Definition rr_fuel : nat := 400.

Definition run_thr (cap : N) (progs : list (list op)) (sched : list N) : MOUT :=
  let '(cf, tr) := exec_full step site rr_fuel (init_config (N.to_nat cap) progs) (map N.to_nat sched) in
  MThr tr (map (fun l => rev (results l)) (snd cf)) (all_done step cf) (late (fst cf)).

Definition run_case (c : case) : MOUT :=
  match c with
  | CSeq cap ops => MSeq (run_seq FX cap ops)
  | CThr cap progs sched => run_thr cap progs sched
  end.

Definition pres_eqb (a b : pres) : bool :=
  match a, b with
  | PFill, PFill => true
  | PDraw u, PDraw u' | PPanic u, PPanic u' => u =? u'
  | _, _ => false
  end.

Fixpoint list_eqb {A} (eqb : A -> A -> bool) (a b : list A) : bool :=
  match a, b with
  | [], [] => true
  | x :: r, y :: r' => eqb x y && list_eqb eqb r r'
  | _, _ => false
  end.

Section Gen.
Variable rk : N -> N -> Z -> bool.

(* an observation is the one the (model or reference) output predicts *)
Definition matches1 (m : mout) (o : obs) : bool :=
  match m, o with
  | MPush p, OPush p' => pres_eqb p p'
  | MConsume d, OConsume vals len rate =>
      list_eqb N.eqb (d_vals d) vals && (d_len d =? len) && rk (d_len d) (d_unsampled d) rate
  | MEmpty b, OEmpty b' => Bool.eqb b b'
  | _, _ => false
  end.

Fixpoint matches (ms : list mout) (os : list obs) : bool :=
  match ms, os with
  | [], [] => true
  | m :: r, o :: r' => matches1 m o && matches r r'
  | _, _ => false
  end.

Fixpoint all2 {A B} (f : A -> B -> bool) (a : list A) (b : list B) : bool :=
  match a, b with
  | [], [] => true
  | x :: r, y :: r' => f x y && all2 f r r'
  | _, _ => false
  end.

Definition pair_eqb (a b : N * N) : bool := (fst a =? fst b) && (snd a =? snd b).

Definition agrees_out (m : MOUT) (o : OUT) : bool :=
  match m, o with
  | MSeq ms, OSeq os => matches ms os
  | MThr tr rs d _, OThr tr' rs' d' =>
      list_eqb pair_eqb tr tr' && all2 matches rs rs' && Bool.eqb d d'
  | _, _ => false
  end.

Definition agrees (c : case) (o : OUT) : bool := agrees_out (run_case c) o.

(* ---- the accounting clause on an observed threaded run --------------------------------------
   Walk the step trace.  The k-th 1606 step ends *window* k (the retired side stops receiving
   pushes).  A push belongs to the window in which its 1601 step (the load of use_primary) took
   place; within a window pushes are ordered by their 1602 step (the fetch_add that hands out idx).
   For the drain whose 1606 step ended window k, with W_k the pushes of that window:
     reported count n = |W_k|, len = min n cap, rate = len/n (1 if equal), the values read are
     values of W_k, and exactly the first values of W_k in 1602 order when n <= cap;
   every push of W_k with rank idx reports no draw if idx < cap and a draw with bound idx+1
   otherwise.  (is_empty results are not constrained.)                                         *)
Record wstate := {
  w_now : N;                                   (* number of 1606 steps seen *)
  w_done : list N;                             (* one entry (tid) per completed operation *)
  w_win : list (N * N);                        (* tid -> window of its push in progress *)
  w_pushes : list (N * N * N);                 (* (tid, op index, window), in 1602 order *)
  w_drains : list (N * N * N)                  (* (tid, op index, window) *)
}.

Fixpoint count_tid (t : N) (l : list N) : N :=
  match l with [] => 0 | x :: r => (if x =? t then 1 else 0) + count_tid t r end.

Fixpoint lookup (t : N) (l : list (N * N)) : N :=
  match l with [] => 0 | (t', w) :: r => if t' =? t then w else lookup t r end.

Definition wstep (s : wstate) (e : N * N) : wstate :=
  let '(t, st) := e in
  let j := count_tid t (w_done s) in
  if st =? 1601 then
    {| w_now := w_now s; w_done := w_done s; w_win := (t, w_now s) :: w_win s; w_pushes := w_pushes s; w_drains := w_drains s |}
  else if st =? 1602 then
    {| w_now := w_now s; w_done := w_done s; w_win := w_win s;
       w_pushes := w_pushes s ++ [(t, j, lookup t (w_win s))]; w_drains := w_drains s |}
  else if st =? 1606 then
    {| w_now := w_now s + 1; w_done := w_done s; w_win := w_win s; w_pushes := w_pushes s;
       w_drains := w_drains s ++ [(t, j, w_now s)] |}
  else if (st =? 1603) || (st =? 1610) || (st =? 1612) then
    {| w_now := w_now s; w_done := t :: w_done s; w_win := w_win s; w_pushes := w_pushes s; w_drains := w_drains s |}
  else s.

Definition walk (tr : list (N * N)) : wstate :=
  fold_left wstep tr {| w_now := 0; w_done := []; w_win := []; w_pushes := []; w_drains := [] |}.

Definition op_at (progs : list (list op)) (t j : N) : option op := nth_error (nth (N.to_nat t) progs []) (N.to_nat j).
Definition obs_at (rs : list (list obs)) (t j : N) : option obs := nth_error (nth (N.to_nat t) rs []) (N.to_nat j).

Definition pushed_value (progs : list (list op)) (e : N * N * N) : N :=
  match op_at progs (fst (fst e)) (snd (fst e)) with Some (Push v _) => v | _ => 0 end.

(* pushes of window k, in 1602 order *)
Definition window (ps : list (N * N * N)) (k : N) : list (N * N * N) := filter (fun e => snd e =? k) ps.

Fixpoint push_results_ok (cap : N) (rs : list (list obs)) (w : list (N * N * N)) (idx : N) : bool :=
  match w with
  | [] => true
  | e :: r =>
      (match obs_at rs (fst (fst e)) (snd (fst e)) with
       | Some (OPush p) => pres_eqb p (if idx <? cap then PFill else PDraw (idx + 1))
       | Some _ => false
       | None => true                     (* not completed within the observed run *)
       end) && push_results_ok cap rs r (idx + 1)
  end.

Definition drain_ok (cap : N) (progs : list (list op)) (rs : list (list obs)) (ps : list (N * N * N)) (d : N * N * N) : bool :=
  let '(t, j, k) := d in
  let w := window ps k in
  let pushed := map (pushed_value progs) w in
  let n := N.of_nat (length w) in
  let len := N.min n cap in
  match obs_at rs t j, op_at progs t j with
  | Some (OConsume vals l rate), Some (Consume kk) =>
      let take := match kk with None => len | Some k' => N.min k' len end in
      (l =? len) && (N.of_nat (length vals) =? take) && rk len n rate
      && forallb (fun v => existsb (N.eqb v) pushed) vals
      && (if n <=? cap then list_eqb N.eqb vals (firstn (N.to_nat take) pushed) else true)
  | Some _, _ => false
  | None, _ => true
  end.

Definition no_anomaly (rs : list (list obs)) : bool :=
  forallb (forallb (fun o => match o with OAnomaly => false | OPush (PPanic _) => false | _ => true end)) rs.

Definition spec_thr (cap : N) (progs : list (list op)) (tr : list (N * N)) (rs : list (list obs)) : bool :=
  let s := walk tr in
  no_anomaly rs
  && forallb (drain_ok cap progs rs (w_pushes s)) (w_drains s)
  && forallb (fun k => push_results_ok cap rs (window (w_pushes s) k) 0)
             (map N.of_nat (seq 0 (S (N.to_nat (w_now s))))).

(* the property in executable form, evaluated on an observed output: sequential histories must be
   what the reference semantics of Spec.v prescribes; threaded runs must satisfy the accounting
   clause above *)
Definition spec_ok (c : case) (o : OUT) : bool :=
  match c, o with
  | CSeq cap ops, OSeq os => matches (spec_outs cap ops) os
  | CThr cap progs _, OThr tr rs _ => spec_thr cap progs tr rs
  | _, _ => false
  end.

End Gen.

(* open known finding C16-late-push (class 1): threaded cases whose schedule makes some 1606 step
   retire a side while a push that loaded use_primary before it has not finished *)
Definition known_class (c : case) : option N :=
  match c with
  | CSeq _ _ => None
  | CThr cap progs sched =>
      match run_thr cap progs sched with MThr _ _ _ true => Some 1 | _ => None end
  end.

