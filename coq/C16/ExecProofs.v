(* C16 — what the executable checks of Exec.v mean, and the model satisfies them. *)
From Coq Require Import List NArith ZArith Bool Lia.
Import ListNotations.
Require Import MV.C16.Model MV.C16.Spec MV.C16.Proofs MV.C16.ExecGen.
Open Scope N_scope.

Lemma list_eqb_N_eq a : forall b, list_eqb N.eqb a b = true -> a = b.
Proof.
  induction a as [|x a IH]; intros [|y b] H; cbn in H; try discriminate; auto.
  apply andb_prop in H as [H1 H2]. apply N.eqb_eq in H1. subst. f_equal. apply IH. exact H2.
Qed.

Lemma pres_eqb_eq a b : pres_eqb a b = true -> a = b.
Proof. destruct a, b; cbn; intros H; try discriminate; auto; apply N.eqb_eq in H; subst; reflexivity. Qed.

Section Gen.
Variable rk : N -> N -> Z -> bool.

(* one observation is the one a model/reference output predicts *)
Definition predicts (m : mout) (o : obs) : Prop :=
  match m, o with
  | MPush p, OPush p' => p = p'
  | MConsume d, OConsume vals len rate =>
      d_vals d = vals /\ d_len d = len /\ rk (d_len d) (d_unsampled d) rate = true
  | MEmpty b, OEmpty b' => b = b'
  | _, _ => False
  end.

Lemma matches1_sound m o : matches1 rk m o = true -> predicts m o.
Proof.
  destruct m as [p|d|b], o as [p'|vals len rate|b'|]; cbn; intros H; try discriminate.
  - apply pres_eqb_eq. exact H.
  - apply andb_prop in H as [H H3]. apply andb_prop in H as [H1 H2].
    apply list_eqb_N_eq in H1. apply N.eqb_eq in H2. auto.
  - apply Bool.eqb_prop. exact H.
Qed.

Lemma matches_sound ms : forall os, matches rk ms os = true -> Forall2 predicts ms os.
Proof.
  induction ms as [|m ms IH]; intros [|o os] H; cbn in H; try discriminate; constructor.
  - apply andb_prop in H as [H _]. apply matches1_sound. exact H.
  - apply andb_prop in H as [_ H]. apply IH. exact H.
Qed.

(* sequential histories: spec_ok on an observed output means every observation is the one the
   reference semantics prescribes *)
Theorem spec_ok_seq_sound cap ops os :
  spec_ok rk (CSeq cap ops) (OSeq os) = true -> Forall2 predicts (spec_outs cap ops) os.
Proof. cbn. apply matches_sound. Qed.

(* the model satisfies the property on every sequential case: any observation that agrees with
   the model passes spec_ok (all capacities, all histories, all choices) *)
Theorem spec_ok_on_model_seq cap ops o :
  agrees rk (CSeq cap ops) o = true -> spec_ok rk (CSeq cap ops) o = true.
Proof.
  destruct o as [os|tr rs d]; cbn; [|discriminate].
  unfold run_seq, FX. rewrite model_meets_spec, N2Nat.id. auto.
Qed.

End Gen.

(* the late-push class really breaks the accounting clause: a concrete schedule (the pusher's
   fetch_add and store land between the consumer's count load and its count reset), with the
   output observed on the real code, which the model reproduces *)
Definition late_push_witness : case :=
  CThr 1 [[Push 4619567317775286272 0]; [Consume None; Consume None; Consume None]]
       [0; 0; 1; 1; 1; 1; 1; 0; 0; 1; 1].
Definition late_push_observed : OUT :=
  OThr [(0,0); (0,1601); (1,0); (1,1604); (1,1605); (1,1606); (1,1607); (0,1602); (0,1603); (1,1609); (1,1610);
        (1,1604); (1,1605); (1,1606); (1,1607); (1,1609); (1,1610);
        (1,1604); (1,1605); (1,1606); (1,1607); (1,1609); (1,1610)]
       [[OPush PFill];
        [OConsume [] 0 4607182418800017408%Z; OConsume [] 0 4607182418800017408%Z; OConsume [] 0 4607182418800017408%Z]]
       true.

(* sample rates are not even looked at ([rk] = accept anything): the accounting itself fails *)
Theorem late_push_refutes :
  exists c o, known_class c = Some 1 /\
              agrees (fun _ _ _ => true) c o = true /\ spec_ok (fun _ _ _ => true) c o = false.
Proof. exists late_push_witness, late_push_observed. vm_compute. auto. Qed.

Example sequential_case_nontrivial :
  agrees (fun _ _ _ => true) (CSeq 2 [Push 10 0; Push 11 0; Push 12 2; Push 13 1; Consume None; IsEmpty])
         (OSeq [OPush PFill; OPush PFill; OPush (PDraw 3); OPush (PDraw 4);
                OConsume [10; 13] 2 4602678819172646912%Z; OEmpty true]) = true.
Proof. vm_compute. reflexivity. Qed.

(* a threaded case is outside the open known class exactly when the model's run of it ends with
   the late-push flag clear *)
Lemma known_class_None_iff cap progs sched :
  known_class (CThr cap progs sched) = None <->
  late (fst (fst (exec_full step site rr_fuel (init_config (N.to_nat cap) progs) (map N.to_nat sched)))) = false.
Proof.
  unfold known_class, run_thr.
  destruct (exec_full step site rr_fuel (init_config (N.to_nat cap) progs) (map N.to_nat sched)) as [cf tr].
  cbn [fst]. destruct (late (fst cf)); split; intros H; try reflexivity; discriminate.
Qed.

Require Import MV.C16.ProofsConc3.
From Coq Require Import Permutation.

(* outside the open known class: every drain of the run the correspondence check replays *)
Theorem accounting_outside_known_class : forall cap progs sched,
  known_class (CThr cap progs sched) = None ->
  let c := fst (exec_full step site rr_fuel (init_config (N.to_nat cap) progs) (map N.to_nat sched)) in
  forall d W St k, In (d, W, St, k) (glog (fst c)) ->
    Permutation St W /\
    d_unsampled d = N.of_nat (length St) /\
    d_len d = N.min (d_unsampled d) cap /\
    N.of_nat (length (d_vals d)) = takeof k (d_len d) /\
    (forall v, In v (d_vals d) -> In v St) /\
    (d_unsampled d <= cap -> d_vals d = firstn (length (d_vals d)) W) /\
    sample_rate d = (if d_unsampled d <=? cap then (1, 1) else (cap, d_unsampled d)).
Proof.
  intros cap progs sched HK c d W St k Hin. apply known_class_None_iff in HK.
  pose proof (accounting_except_late_push_full_run (N.to_nat cap) progs (map N.to_nat sched) rr_fuel HK d W St k Hin) as H.
  rewrite N2Nat.id in H. exact H.
Qed.
