(* C16 — the sampling reservoir of metrics-util/src/storage/reservoir.rs, sequential model.

   Modelled statement by statement:
     Reservoir::with_capacity / push / drain, Drain::{sample_rate, next, len, drop},
     AtomicSamplingReservoir::{new, is_empty, push, consume}, fastrand(upper).
   Values are the 64-bit patterns the code stores (`value.to_bits()` / `f64::from_bits`): the
   reservoir never computes with them, so every f64 (NaN payloads, -0, infinities) is covered.
   The random draw is explicit: [push] takes the raw [choice] of the scripted source and the
   model computes the bound the code REQUESTS ([bound]); the scripted source returns
   [choice mod upper] (what the cfg(metrics_verif) hook does) and panics on an empty range
   (what rand's `random_range(0..0)` does).
   [fx] selects the replacement-index bound: [true] = the code after the fix commit
   (`fastrand(idx + 1)`), [false] = the code as found (`fastrand(idx)`), kept for the refutation
   lemmas.  Not modelled: wrap-around of the usize counter at 2^64.                              *)
From Coq Require Import List NArith Bool.
Import ListNotations.
Open Scope N_scope.

Record reservoir := { values : list N; count : N }.

Definition capacity (r : reservoir) : N := N.of_nat (length (values r)).
Definition with_capacity (cap : nat) : reservoir := {| values := repeat 0 cap; count := 0 |}.

Fixpoint set_nth (l : list N) (i : nat) (v : N) : list N :=
  match l, i with
  | [], _ => []
  | _ :: r, O => v :: r
  | x :: r, S i' => x :: set_nth r i' v
  end.

(* values[i].store(v) *)
Definition store (r : reservoir) (i : N) (v : N) : reservoir :=
  {| values := set_nth (values r) (N.to_nat i) v; count := count r |}.

(* the argument of fastrand in Reservoir::push *)
Definition bound (fx : bool) (idx : N) : N := if fx then idx + 1 else idx.

(* what one push did: stored without a draw, drew with the requested bound, or panicked in the
   draw (requested bound 0) *)
Inductive pres := PFill | PDraw (upper : N) | PPanic (upper : N).

(* Reservoir::push.  The fetch_add happens first and survives a panic of the draw. *)
Definition push (fx : bool) (v choice : N) (r : reservoir) : reservoir * pres :=
  let idx := count r in
  let r1 := {| values := values r; count := idx + 1 |} in
  if idx <? capacity r then (store r1 idx v, PFill)
  else
    let upper := bound fx idx in
    if upper =? 0 then (r1, PPanic upper)
    else
      let j := choice mod upper in
      (if j <? capacity r then store r1 j v else r1, PDraw upper).

(* Reservoir::drain + what the callback reads (at most [k] values, all if None) + Drain::drop.
   Observed: the values read, Drain::len() before reading, and the pair (len, unsampled_len)
   sample_rate() is computed from. *)
Record drained := { d_vals : list N; d_len : N; d_unsampled : N }.

Definition drain (k : option N) (r : reservoir) : reservoir * drained :=
  let unsampled := count r in
  let len := if capacity r <? unsampled then capacity r else unsampled in
  let take := match k with None => len | Some k' => N.min k' len end in
  ({| values := values r; count := 0 |},
   {| d_vals := firstn (N.to_nat take) (values r); d_len := len; d_unsampled := unsampled |}).

(* Drain::sample_rate as an exact fraction (numerator, denominator) *)
Definition sample_rate (d : drained) : N * N :=
  if d_unsampled d =? d_len d then (1, 1) else (d_len d, d_unsampled d).

(* ---- the A/B pair *)
Record asr := { primary : reservoir; secondary : reservoir; use_primary : bool }.

Definition new (cap : nat) : asr :=
  {| primary := with_capacity cap; secondary := with_capacity cap; use_primary := true |}.

Definition is_empty (a : asr) : bool :=
  if use_primary a then count (primary a) =? 0 else count (secondary a) =? 0.

Definition apush (fx : bool) (v choice : N) (a : asr) : asr * pres :=
  if use_primary a
  then let '(r, p) := push fx v choice (primary a) in
       ({| primary := r; secondary := secondary a; use_primary := use_primary a |}, p)
  else let '(r, p) := push fx v choice (secondary a) in
       ({| primary := primary a; secondary := r; use_primary := use_primary a |}, p).

Definition consume (k : option N) (a : asr) : asr * drained :=
  let up := use_primary a in
  if up
  then let '(r, d) := drain k (primary a) in
       ({| primary := r; secondary := secondary a; use_primary := negb up |}, d)
  else let '(r, d) := drain k (secondary a) in
       ({| primary := primary a; secondary := r; use_primary := negb up |}, d).

(* ---- histories *)
Inductive op :=
| Push (v choice : N)
| Consume (k : option N)     (* the callback reads at most k values (None: all) and drops the Drain *)
| IsEmpty.

Inductive mout :=
| MPush (p : pres)
| MConsume (d : drained)
| MEmpty (b : bool).

Definition step (fx : bool) (a : asr) (o : op) : asr * mout :=
  match o with
  | Push v c => let '(a', p) := apush fx v c a in (a', MPush p)
  | Consume k => let '(a', d) := consume k a in (a', MConsume d)
  | IsEmpty => (a, MEmpty (is_empty a))
  end.

Fixpoint run (fx : bool) (a : asr) (h : list op) : asr * list mout :=
  match h with
  | [] => (a, [])
  | o :: r => let '(a1, x) := step fx a o in let '(a2, xs) := run fx a1 r in (a2, x :: xs)
  end.
