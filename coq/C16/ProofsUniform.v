(* C16 — proofs, part 3: exact counting of the choice sequences that retain a stream position.

   For the code after the fix (bound idx = idx + 1), every capacity cap, every number m of
   drawing pushes (n = cap + m values pushed) and EVERY position i < n:
       #{choice sequences retaining i} * n = cap * #{choice sequences}
   i.e. Pr[i retained] = cap / n exactly.  The enumeration ([all_choices], the product of the
   requested ranges) is tied to the enumeration-free counting functions [retained_count] and
   [total], and the reservoir contents are those of the model's [push] ([after]).            *)
From Coq Require Import List NArith Bool Arith Lia.
Import ListNotations.
Require Import MV.C16.Model MV.C16.Spec MV.C16.Proofs MV.C16.ProofsDrain MV.C16.Retention.
Open Scope N_scope.

(* ---- counting elements of a list *)
Definition countf {A} (P : A -> bool) (l : list A) : nat := length (filter P l).

Lemma countf_app {A} (P : A -> bool) l1 l2 : countf P (l1 ++ l2) = (countf P l1 + countf P l2)%nat.
Proof. unfold countf. rewrite filter_app, app_length. reflexivity. Qed.

Lemma countf_map {A B} (P : B -> bool) (g : A -> B) l : countf P (map g l) = countf (fun x => P (g x)) l.
Proof. unfold countf. induction l as [|x r IH]; cbn; auto. destruct (P (g x)); cbn; rewrite IH; reflexivity. Qed.

Lemma countf_ext_in {A} (P Q : A -> bool) l : (forall x, In x l -> P x = Q x) -> countf P l = countf Q l.
Proof. intros H. unfold countf. rewrite (filter_ext_in P Q l H). reflexivity. Qed.

Lemma countf_false {A} (P : A -> bool) l : (forall x, In x l -> P x = false) -> countf P l = 0%nat.
Proof.
  intros H. induction l as [|x r IH]; [reflexivity|]. unfold countf in *. cbn.
  rewrite (H x (or_introl eq_refl)). apply IH. intros y Hy. apply H. right. exact Hy.
Qed.

Lemma countf_flat_map_const {A B} (P : B -> bool) (f : A -> list B) L a :
  (forall x, In x L -> countf P (f x) = a) -> countf P (flat_map f L) = (a * length L)%nat.
Proof.
  intros H. induction L as [|x r IH]; cbn [flat_map length]; [unfold countf; cbn; lia|].
  rewrite countf_app, (H x (or_introl eq_refl)), IH; [lia|].
  intros y Hy. apply H. right. exact Hy.
Qed.

Lemma countf_flat_map_cond {A B} (P : B -> bool) (f : A -> list B) (Q : A -> bool) L a :
  (forall x, In x L -> countf P (f x) = if Q x then a else 0%nat) ->
  countf P (flat_map f L) = (a * countf Q L)%nat.
Proof.
  intros H. induction L as [|x r IH]; cbn [flat_map]; [unfold countf; cbn; lia|].
  rewrite countf_app, (H x (or_introl eq_refl)), IH by (intros y Hy; apply H; right; exact Hy).
  unfold countf. cbn [filter]. destruct (Q x); cbn [length]; lia.
Qed.

Lemma length_flat_map_const {A B} (f : A -> list B) L b :
  (forall x, In x L -> length (f x) = b) -> length (flat_map f L) = (b * length L)%nat.
Proof.
  intros H. induction L as [|x r IH]; cbn [flat_map length]; [lia|].
  rewrite app_length, (H x (or_introl eq_refl)), IH; [lia|]. intros y Hy. apply H. right. exact Hy.
Qed.

(* ---- counting over a range *)
Lemma countf_seq_lt K len : countf (fun j => (j <? K)%nat) (seq 0 len) = Nat.min K len.
Proof.
  induction len as [|len IH]; [cbn; lia|].
  rewrite seq_S, countf_app, IH. cbn [Nat.add]. unfold countf. cbn [filter].
  destruct (len <? K)%nat eqn:E; [apply Nat.ltb_lt in E|apply Nat.ltb_ge in E]; cbn [length]; lia.
Qed.

Lemma countf_seq_ne s len :
  countf (fun j => negb (j =? s)%nat) (seq 0 len) = (len - (if (s <? len)%nat then 1 else 0))%nat.
Proof.
  induction len as [|len IH]; [cbn; reflexivity|].
  rewrite seq_S, countf_app, IH. cbn [Nat.add]. unfold countf. cbn [filter].
  destruct (Nat.eqb_spec len s); cbn [negb length];
    destruct (Nat.ltb_spec s len); destruct (Nat.ltb_spec s (S len)); lia.
Qed.

Lemma in_range b c : In c (range b) <-> c < b.
Proof.
  unfold range. rewrite in_map_iff. split.
  - intros (j & <- & Hj). apply in_seq in Hj. lia.
  - intros H. exists (N.to_nat c). split; [lia|]. apply in_seq. lia.
Qed.

Lemma range_length b : length (range b) = N.to_nat b.
Proof. unfold range. rewrite map_length, seq_length. reflexivity. Qed.

Lemma countf_range_lt b k : k <= b -> countf (fun c => c <? k) (range b) = N.to_nat k.
Proof.
  intros H. unfold range. rewrite countf_map.
  rewrite (countf_ext_in _ (fun j => (j <? N.to_nat k)%nat)).
  - rewrite countf_seq_lt. lia.
  - intros j _. destruct (N.of_nat j <? k) eqn:E; [apply N.ltb_lt in E|apply N.ltb_ge in E];
      symmetry; [apply Nat.ltb_lt|apply Nat.ltb_ge]; lia.
Qed.

Lemma countf_range_ne b s : (N.of_nat s < b) -> countf (fun c => negb (c =? N.of_nat s)) (range b) = (N.to_nat b - 1)%nat.
Proof.
  intros H. unfold range. rewrite countf_map.
  rewrite (countf_ext_in _ (fun j => negb (j =? s)%nat)).
  - rewrite countf_seq_ne. destruct (s <? N.to_nat b)%nat eqn:E; [reflexivity|apply Nat.ltb_ge in E; lia].
  - intros j _. f_equal. destruct (N.of_nat j =? N.of_nat s) eqn:E; [apply N.eqb_eq in E|apply N.eqb_neq in E];
      symmetry; [apply Nat.eqb_eq|apply Nat.eqb_neq]; lia.
Qed.

(* ---- positions held by a reservoir slot array *)
Fixpoint index_of (i : N) (l : list N) : option nat :=
  match l with
  | [] => None
  | x :: r => if i =? x then Some O else option_map S (index_of i r)
  end.

Lemma index_of_existsb i l : existsb (N.eqb i) l = match index_of i l with Some _ => true | None => false end.
Proof.
  induction l as [|x r IH]; [reflexivity|]. cbn. destruct (i =? x); [reflexivity|].
  cbn. rewrite IH. destruct (index_of i r); reflexivity.
Qed.

Lemma index_of_lt i l s : index_of i l = Some s -> (s < length l)%nat.
Proof.
  revert s. induction l as [|x r IH]; intros s H; cbn in *; [discriminate|].
  destruct (i =? x); [inversion H; lia|].
  destruct (index_of i r) as [s'|]; cbn in H; [|discriminate]. inversion H. specialize (IH s' eq_refl). lia.
Qed.

Lemma existsb_set_nth_other i v l : forall c,
  NoDup l -> i <> v -> (c < length l)%nat ->
  existsb (N.eqb i) (set_nth l c v) = match index_of i l with Some s => negb (s =? c)%nat | None => false end.
Proof.
  induction l as [|x r IH]; intros c Hnd Hne Hc; cbn in Hc; [lia|].
  inversion Hnd as [|? ? Hx Hr]; subst.
  assert (Eiv : (i =? v) = false) by (apply N.eqb_neq; exact Hne).
  destruct c as [|c]; cbn [set_nth existsb index_of].
  - rewrite Eiv. cbn [orb]. destruct (i =? x) eqn:E.
    + apply N.eqb_eq in E. subst x. cbn.
      destruct (existsb (N.eqb i) r) eqn:Ex; [|reflexivity].
      apply existsb_exists in Ex. destruct Ex as (y & Hy & Ey). apply N.eqb_eq in Ey. subst y. contradiction.
    + rewrite index_of_existsb. destruct (index_of i r); reflexivity.
  - destruct (i =? x) eqn:E; [reflexivity|]. cbn [orb].
    rewrite IH by (auto; lia). destruct (index_of i r); reflexivity.
Qed.

Lemma existsb_set_nth_same v l : forall c, (c < length l)%nat -> existsb (N.eqb v) (set_nth l c v) = true.
Proof.
  induction l as [|x r IH]; intros c Hc; cbn in Hc; [lia|].
  destruct c as [|c]; cbn [set_nth existsb]; [rewrite N.eqb_refl; reflexivity|].
  rewrite IH by lia. apply orb_true_r.
Qed.

Lemma NoDup_set_nth v l : forall c, NoDup l -> ~ In v l -> NoDup (set_nth l c v).
Proof.
  induction l as [|x r IH]; intros c Hnd Hv; [destruct c; constructor|].
  inversion Hnd as [|? ? Hx Hr]; subst.
  destruct c as [|c]; cbn [set_nth].
  - constructor; [|exact Hr]. intros H. apply Hv. right. exact H.
  - constructor.
    + intros H. assert (In x r \/ x = v) as [H'|H'].
      { clear -H. revert c H. induction r as [|y r IH]; intros [|c] H; cbn in *; auto.
        - destruct H; auto.
        - destruct H as [H|H]; auto. destruct (IH c H); auto. }
      * contradiction.
      * apply Hv. left. congruence.
    + apply IH; [exact Hr|]. intros H. apply Hv. right. exact H.
Qed.

Lemma Forall_set_nth (P : N -> Prop) v l : forall c, Forall P l -> P v -> Forall P (set_nth l c v).
Proof.
  induction l as [|x r IH]; intros c Hl Hv; [destruct c; constructor|].
  inversion Hl; subst. destruct c; cbn [set_nth]; constructor; auto.
Qed.

(* ---- the reservoir while it is being fed stream positions *)
Definition good (cap : nat) (n : N) (r : reservoir) : Prop :=
  length (values r) = cap /\ count r = n /\ N.of_nat cap <= n /\
  NoDup (values r) /\ Forall (fun p => p < n) (values r).

Lemma push_good cap n r c :
  good cap n r -> c < n + 1 ->
  good cap (n + 1) (fst (push true n c r)) /\
  values (fst (push true n c r)) = if c <? N.of_nat cap then set_nth (values r) (N.to_nat c) n else values r.
Proof.
  intros (Hl & Hc & Hn & Hnd & Hlt) Hb. unfold push, bound, capacity. rewrite Hc, Hl.
  assert (E : (n <? N.of_nat cap) = false) by (apply N.ltb_ge; exact Hn). rewrite E.
  assert (E0 : (n + 1 =? 0) = false) by (apply N.eqb_neq; lia). rewrite E0.
  rewrite (N.mod_small c (n + 1)) by exact Hb.
  assert (Hlt' : Forall (fun p => p < n + 1) (values r)).
  { eapply Forall_impl; [|exact Hlt]. cbn. intros; lia. }
  assert (Hnot : ~ In n (values r)).
  { intros H. rewrite Forall_forall in Hlt. specialize (Hlt n H). lia. }
  destruct (c <? N.of_nat cap) eqn:Ec; cbn [fst store values count]; (split; [|reflexivity]).
  - unfold good, store. cbn [values count]. rewrite set_nth_length.
    split; [exact Hl|]. split; [reflexivity|]. split; [lia|]. split.
    + apply NoDup_set_nth; assumption.
    + apply Forall_set_nth; [exact Hlt'|lia].
  - unfold good. cbn [values count]. split; [exact Hl|]. split; [reflexivity|]. split; [lia|]. split; assumption.
Qed.

Lemma retained_good cap n r i : good cap n r -> retained i r = existsb (N.eqb i) (values r).
Proof.
  intros (Hl & Hc & Hn & _). unfold retained, drain, capacity. cbn [snd d_vals]. rewrite Hc, Hl.
  destruct (N.of_nat cap <? n) eqn:E; [|apply N.ltb_ge in E].
  - rewrite firstn_all' by lia. reflexivity.
  - rewrite firstn_all' by lia. reflexivity.
Qed.

(* how many of the n+1 outcomes of the draw at index n leave position i in the reservoir *)
Lemma step_count cap n r i :
  good cap n r ->
  countf (fun c => retained i (fst (push true n c r))) (range (n + 1)) =
  if i =? n then cap else if retained i r then N.to_nat n else 0%nat.
Proof.
  intros G. pose proof G as (Hl & Hc & Hn & Hnd & Hlt).
  assert (Hnot : existsb (N.eqb n) (values r) = false).
  { destruct (existsb (N.eqb n) (values r)) eqn:E; [|reflexivity].
    apply existsb_exists in E. destruct E as (y & Hy & Ey). apply N.eqb_eq in Ey. subst y.
    rewrite Forall_forall in Hlt. specialize (Hlt n Hy). lia. }
  destruct (i =? n) eqn:Ei.
  - apply N.eqb_eq in Ei. subst i.
    rewrite (countf_ext_in _ (fun c => c <? N.of_nat cap)).
    + rewrite countf_range_lt by lia. lia.
    + intros c Hin. apply in_range in Hin. destruct (push_good cap n r c G Hin) as [G' V].
      rewrite (retained_good cap (n + 1) _ n G'), V.
      destruct (c <? N.of_nat cap) eqn:Ec; [|exact Hnot].
      apply N.ltb_lt in Ec. apply existsb_set_nth_same. lia.
  - apply N.eqb_neq in Ei. rewrite (retained_good cap n r i G), index_of_existsb.
    destruct (index_of i (values r)) as [s|] eqn:Es.
    + pose proof (index_of_lt _ _ _ Es) as Hs. rewrite Hl in Hs.
      rewrite (countf_ext_in _ (fun c => negb (c =? N.of_nat s))).
      * rewrite countf_range_ne by lia. lia.
      * intros c Hin. apply in_range in Hin. destruct (push_good cap n r c G Hin) as [G' V].
        rewrite (retained_good cap (n + 1) _ i G'), V.
        destruct (c <? N.of_nat cap) eqn:Ec; [apply N.ltb_lt in Ec|apply N.ltb_ge in Ec].
        -- rewrite existsb_set_nth_other by (auto; lia). rewrite Es. f_equal.
           destruct (c =? N.of_nat s) eqn:Q; [apply N.eqb_eq in Q|apply N.eqb_neq in Q];
             [apply Nat.eqb_eq|apply Nat.eqb_neq]; lia.
        -- rewrite index_of_existsb, Es. symmetry. apply negb_true_iff. apply N.eqb_neq. lia.
    + apply countf_false. intros c Hin. apply in_range in Hin. destruct (push_good cap n r c G Hin) as [G' V].
      rewrite (retained_good cap (n + 1) _ i G'), V.
      destruct (c <? N.of_nat cap) eqn:Ec; [apply N.ltb_lt in Ec|].
      * rewrite existsb_set_nth_other by (auto; lia). rewrite Es. reflexivity.
      * rewrite index_of_existsb, Es. reflexivity.
Qed.

(* ---- [after] and the model's push *)
Lemma positions_app a : forall s b, positions s (a ++ b) = positions s a ++ positions (s + N.of_nat (length a)) b.
Proof.
  induction a as [|c r IH]; intros s b; cbn [app positions length].
  - rewrite N.add_0_r. reflexivity.
  - rewrite IH. do 3 f_equal. lia.
Qed.

Lemma positions_length cs : forall s, length (positions s cs) = length cs.
Proof. induction cs as [|c r IH]; intros s; cbn; auto. Qed.

Lemma positions_fst cs : forall s, map fst (positions s cs) = map (fun j => s + N.of_nat j) (seq 0 (length cs)).
Proof.
  induction cs as [|c r IH]; intros s; [reflexivity|]. cbn [positions map length seq fst].
  rewrite N.add_0_r. f_equal. rewrite IH, <- seq_shift, map_map. apply map_ext. intros j. lia.
Qed.

(* the connection between [after] (hence the counting) and the model's push *)
Lemma after_snoc cap cs c :
  after true cap (cs ++ [c]) = fst (push true (N.of_nat cap + N.of_nat (length cs)) c (after true cap cs)).
Proof.
  unfold after, feedp. rewrite app_assoc, positions_app, fold_left_app. cbn [positions fold_left fst snd].
  rewrite app_length, repeat_length. do 2 f_equal. lia.
Qed.

Lemma feedp_rel cap ps : forall r s,
  cap_of r = cap -> rel r s ->
  rel (feedp true r ps) (cycle_pushes (N.of_nat cap) s ps) /\ cap_of (feedp true r ps) = cap.
Proof.
  induction ps as [|[v c] ps IH]; intros r s Hcap Hrel; [split; assumption|].
  unfold feedp. cbn [fold_left cycle_pushes fst snd].
  pose proof (push_refines v c r s Hrel) as P. rewrite capacity_cap_of, Hcap in P.
  destruct (push true v c r) as [r' p]. destruct (cycle_push (N.of_nat cap) s v c) as [s' p'].
  destruct P as (_ & P2 & P3). cbn [fst]. apply IH; congruence.
Qed.

Lemma after_nil_values cap :
  values (after true cap []) = map N.of_nat (seq 0 cap) /\ count (after true cap []) = N.of_nat cap
  /\ length (values (after true cap [])) = cap.
Proof.
  unfold after. rewrite app_nil_r.
  destruct (feedp_rel cap (positions 0 (repeat 0 cap)) (with_capacity cap) cycle0) as [R C].
  { unfold cap_of, with_capacity. cbn. apply repeat_length. }
  { apply rel_cycle0_irrelevant. reflexivity. }
  pose proof (cycle_pushes_inv (N.of_nat cap) (positions 0 (repeat 0 cap)) [] 0) as P.
  unfold cycle0 in R.
  destruct (cycle_pushes (N.of_nat cap) ([], 0) (positions 0 (repeat 0 cap))) as [kept i].
  destruct P as (I1 & I2 & _ & I4); [rewrite N.min_0_l; reflexivity|].
  rewrite positions_length, repeat_length in I1. rewrite N.add_0_l in I1. subst i.
  destruct R as [Rc Rk]. cbn [fst snd] in Rc, Rk. unfold cap_of in C.
  rewrite capacity_cap_of in Rk. unfold cap_of in Rk. rewrite C in Rk.
  rewrite firstn_all' in Rk by lia.
  split; [|split; [exact Rc|exact C]].
  rewrite <- Rk, I4 by lia. cbn [app]. rewrite positions_fst, repeat_length. apply map_ext. intros; lia.
Qed.

Lemma after_nil_good cap : good cap (N.of_nat cap) (after true cap []).
Proof.
  destruct (after_nil_values cap) as (V & C & L). unfold good. rewrite V.
  split; [rewrite <- V; exact L|]. split; [exact C|]. split; [lia|]. split.
  - clear. generalize 0%nat as a. induction cap as [|k IH]; intros a; cbn [seq map]; constructor.
    + rewrite in_map_iff. intros (j & Hj & Hin). apply in_seq in Hin. lia.
    + apply IH.
  - apply Forall_forall. intros p Hp. apply in_map_iff in Hp. destruct Hp as (j & <- & Hj). apply in_seq in Hj. lia.
Qed.

Lemma all_choices_good cap m : forall cs,
  In cs (all_choices true (N.of_nat cap) m) ->
  length cs = m /\ good cap (N.of_nat cap + N.of_nat m) (after true cap cs).
Proof.
  induction m as [|m IH]; intros cs H.
  - cbn in H. destruct H as [<-|[]]. split; [reflexivity|]. rewrite N.add_0_r. apply after_nil_good.
  - cbn [all_choices] in H. apply in_flat_map in H. destruct H as (cs0 & H0 & H1).
    apply in_map_iff in H1. destruct H1 as (c & <- & Hc). apply in_range in Hc. unfold bound in Hc.
    destruct (IH cs0 H0) as [L G]. split; [rewrite app_length; cbn; lia|].
    rewrite after_snoc, L.
    replace (N.of_nat cap + N.of_nat (S m)) with (N.of_nat cap + N.of_nat m + 1) by lia.
    apply push_good; assumption.
Qed.

(* ---- the counting functions count the enumerated choice sequences *)
Lemma retained_after_nil cap i : retained i (after true cap []) = (i <? N.of_nat cap).
Proof.
  rewrite (retained_good cap _ _ i (after_nil_good cap)).
  destruct (after_nil_values cap) as (V & _). rewrite V.
  apply eq_iff_eq_true. rewrite existsb_exists, N.ltb_lt. split.
  - intros (y & Hy & E). apply N.eqb_eq in E. subst y. apply in_map_iff in Hy.
    destruct Hy as (j & <- & Hj). apply in_seq in Hj. lia.
  - intros H. exists i. split; [|apply N.eqb_refl]. apply in_map_iff. exists (N.to_nat i).
    split; [lia|]. apply in_seq. lia.
Qed.

Theorem counting_functions_count cap i m :
  count_retained true cap i m = retained_count (N.of_nat cap) i m /\
  N.of_nat (length (all_choices true (N.of_nat cap) m)) = total (N.of_nat cap) m.
Proof.
  unfold count_retained. fold (countf (fun cs => retained i (after true cap cs)) (all_choices true (N.of_nat cap) m)).
  induction m as [|m [IH1 IH2]].
  - cbn [all_choices retained_count total]. unfold countf. cbn [filter length].
    rewrite retained_after_nil. destruct (i <? N.of_nat cap); split; reflexivity.
  - set (n := N.of_nat cap + N.of_nat m) in *.
    assert (Hstep : forall cs, In cs (all_choices true (N.of_nat cap) m) ->
              countf (fun cs' => retained i (after true cap cs'))
                     (map (fun c => cs ++ [c]) (range (bound true n))) =
              if i =? n then cap else if retained i (after true cap cs) then N.to_nat n else 0%nat).
    { intros cs Hcs. destruct (all_choices_good cap m cs Hcs) as [L G]. fold n in G.
      rewrite countf_map. unfold bound.
      rewrite (countf_ext_in _ (fun c => retained i (fst (push true n c (after true cap cs))))).
      - apply step_count. exact G.
      - intros c _. rewrite after_snoc, L. reflexivity. }
    split.
    + cbn [all_choices retained_count]. fold n. destruct (i =? n) eqn:Ei.
      * rewrite (countf_flat_map_const _ _ _ cap) by exact Hstep.
        rewrite Nat2N.inj_mul, IH2. reflexivity.
      * rewrite (countf_flat_map_cond _ _ (fun cs => retained i (after true cap cs)) _ (N.to_nat n)) by exact Hstep.
        rewrite Nat2N.inj_mul, IH1, N2Nat.id. apply N.mul_comm.
    + cbn [all_choices total]. fold n.
      rewrite (length_flat_map_const _ _ (N.to_nat (n + 1))).
      * rewrite Nat2N.inj_mul, IH2, N2Nat.id. apply N.mul_comm.
      * intros cs _. rewrite map_length, range_length. reflexivity.
Qed.

(* ---- the arithmetic of the counting functions *)
Lemma retained_count_total cap m : forall i,
  i < cap + N.of_nat m -> retained_count cap i m * (cap + N.of_nat m) = cap * total cap m.
Proof.
  induction m as [|m IH]; intros i Hi.
  - cbn [retained_count total]. rewrite N.add_0_r in *.
    assert (E : (i <? cap) = true) by (apply N.ltb_lt; exact Hi). rewrite E. lia.
  - cbn [retained_count total].
    replace (cap + N.of_nat (S m)) with (cap + N.of_nat m + 1) in * by lia.
    destruct (i =? cap + N.of_nat m) eqn:E.
    + rewrite N.mul_assoc. reflexivity.
    + apply N.eqb_neq in E. rewrite IH by lia. rewrite !N.mul_assoc. reflexivity.
Qed.

Theorem uniform_retention : forall cap m i,
  let n := N.of_nat cap + N.of_nat m in
  i < n ->
  count_retained true cap i m * n = N.of_nat cap * N.of_nat (length (all_choices true (N.of_nat cap) m)).
Proof.
  intros cap m i n Hi. destruct (counting_functions_count cap i m) as [-> ->].
  apply retained_count_total. exact Hi.
Qed.

Corollary all_positions_equal : forall cap m i j,
  i < N.of_nat cap + N.of_nat m -> j < N.of_nat cap + N.of_nat m ->
  count_retained true cap i m = count_retained true cap j m.
Proof.
  intros cap m i j Hi Hj.
  pose proof (uniform_retention cap m i Hi) as A. pose proof (uniform_retention cap m j Hj) as B.
  cbv zeta in A, B. rewrite <- B in A. apply N.mul_cancel_r in A; [exact A|lia].
Qed.

(* ---- the code as found: capacity 1, two values: the first position is never retained *)
Theorem uniform_retention_refuted_before_fix :
  exists cap m i,
    i < N.of_nat cap + N.of_nat m /\
    count_retained false cap i m * (N.of_nat cap + N.of_nat m)
    <> N.of_nat cap * N.of_nat (length (all_choices false (N.of_nat cap) m)).
Proof. exists 1%nat, 1%nat, 0. split; [reflexivity|]. vm_compute. discriminate. Qed.

(* ---- [all_choices] is exactly the product of the requested ranges, without repetition *)
Theorem all_choices_spec fx cap m : forall cs,
  In cs (all_choices fx cap m) <->
  length cs = m /\ forall k, (k < m)%nat -> nth k cs 0 < bound fx (cap + N.of_nat k).
Proof.
  induction m as [|m IH]; intros cs.
  - cbn [all_choices In]. split.
    + intros [<-|[]]. split; [reflexivity|]. intros k Hk. lia.
    + intros [L _]. left. destruct cs; [reflexivity|discriminate].
  - cbn [all_choices]. rewrite in_flat_map. split.
    + intros (cs0 & H0 & H1). apply in_map_iff in H1. destruct H1 as (c & <- & Hc). apply in_range in Hc.
      apply IH in H0. destruct H0 as [L B]. split; [rewrite app_length; cbn; lia|].
      intros k Hk. destruct (Nat.eq_dec k m) as [->|Hne].
      * rewrite app_nth2 by lia. rewrite L, Nat.sub_diag. exact Hc.
      * rewrite app_nth1 by lia. apply B. lia.
    + intros [L B]. destruct (exists_last (l := cs)) as (cs0 & c & ->); [destruct cs; cbn in L; [lia|discriminate]|].
      rewrite app_length in L. cbn in L. assert (L0 : length cs0 = m) by lia.
      exists cs0. split.
      * apply IH. split; [exact L0|]. intros k Hk. specialize (B k ltac:(lia)).
        rewrite app_nth1 in B by lia. exact B.
      * apply in_map_iff. exists c. split; [reflexivity|]. apply in_range.
        specialize (B m ltac:(lia)). rewrite app_nth2 in B by lia. rewrite L0, Nat.sub_diag in B. exact B.
Qed.

Lemma NoDup_app_intro {A} (a b : list A) :
  NoDup a -> NoDup b -> (forall x, In x a -> ~ In x b) -> NoDup (a ++ b).
Proof.
  induction a as [|x r IH]; intros Ha Hb Hd; [exact Hb|].
  inversion Ha; subst. cbn. constructor.
  - intros H. apply in_app_or in H. destruct H as [H|H]; [contradiction|]. exact (Hd x (or_introl eq_refl) H).
  - apply IH; auto. intros y Hy. apply Hd. right. exact Hy.
Qed.

Lemma NoDup_range b : NoDup (range b).
Proof.
  unfold range. generalize 0%nat as a. generalize (N.to_nat b) as len.
  induction len as [|len IH]; intros a; cbn [seq map]; constructor; [|apply IH].
  rewrite in_map_iff. intros (j & Hj & Hin). apply in_seq in Hin. lia.
Qed.

Theorem all_choices_NoDup fx cap m : NoDup (all_choices fx cap m).
Proof.
  induction m as [|m IH]; [cbn; constructor; [intros []|constructor]|].
  cbn [all_choices]. set (R := range (bound fx (cap + N.of_nat m))).
  assert (HR : NoDup R) by apply NoDup_range. clearbody R.
  induction (all_choices fx cap m) as [|x L IHL]; [constructor|].
  inversion IH as [|? ? Hx HL]; subst. cbn [flat_map]. apply NoDup_app_intro.
  - clear -HR. induction R as [|c R IHR]; [constructor|]. inversion HR; subst. cbn. constructor; [|apply IHR; assumption].
    rewrite in_map_iff. intros (c' & E & Hc'). apply app_inv_head in E. inversion E; subst. contradiction.
  - apply IHL. exact HL.
  - intros y Hy Hy'. apply in_map_iff in Hy. destruct Hy as (c & <- & _).
    apply in_flat_map in Hy'. destruct Hy' as (x' & Hx' & Hy'). apply in_map_iff in Hy'.
    destruct Hy' as (c' & E & _). apply app_inj_tail in E. destruct E as [-> _]. contradiction.
Qed.

(* ---- arbitrary value streams: push never inspects the values, so the reservoir after pushing
   the stream [vs] holds, slot by slot, the values at the positions [after] holds *)
Lemma replace_at_map (f : N -> N) l : forall j v, replace_at (map f l) j (f v) = map f (replace_at l j v).
Proof. induction l as [|x r IH]; intros [|j] v; cbn; auto. f_equal. apply IH. Qed.

Lemma cycle_pushes_map (f : N -> N) cap ps : forall kept i,
  cycle_pushes cap (map f kept, i) (map (fun p => (f (fst p), snd p)) ps)
  = (map f (fst (cycle_pushes cap (kept, i) ps)), snd (cycle_pushes cap (kept, i) ps)).
Proof.
  induction ps as [|[v c] r IH]; intros kept i; [reflexivity|].
  cbn [map cycle_pushes cycle_push fst snd].
  destruct (i <? cap); cbn [fst].
  - rewrite <- IH. rewrite map_app. reflexivity.
  - destruct (c mod (i + 1) <? cap).
    + rewrite <- IH, replace_at_map. reflexivity.
    + rewrite <- IH. reflexivity.
Qed.

Theorem after_any_stream : forall (f : N -> N) cap cs,
  values (feedp true (with_capacity cap) (map (fun p => (f (fst p), snd p)) (positions 0 (repeat 0 cap ++ cs))))
  = map f (values (after true cap cs)).
Proof.
  intros f cap cs. unfold after. set (ps := positions 0 (repeat 0 cap ++ cs)).
  assert (Hlen : (cap <= length ps)%nat).
  { unfold ps. rewrite positions_length, app_length, repeat_length. lia. }
  assert (C0 : cap_of (with_capacity cap) = cap) by (unfold cap_of, with_capacity; cbn; apply repeat_length).
  assert (R0 : rel (with_capacity cap) cycle0) by (apply rel_cycle0_irrelevant; reflexivity).
  destruct (feedp_rel cap ps _ _ C0 R0) as [[_ R1] C1].
  destruct (feedp_rel cap (map (fun p => (f (fst p), snd p)) ps) _ _ C0 R0) as [[_ R2] C2].
  pose proof (cycle_pushes_map f (N.of_nat cap) ps [] 0) as M. cbn [map] in M. fold cycle0 in M.
  rewrite M in R2. cbn [fst snd] in R2.
  pose proof (cycle_pushes_inv (N.of_nat cap) ps [] 0) as I. fold cycle0 in I.
  destruct (cycle_pushes (N.of_nat cap) cycle0 ps) as [kept i] eqn:E. cbn [fst snd] in *.
  destruct I as (I1 & _); [rewrite N.min_0_l; reflexivity|].
  rewrite capacity_cap_of in R1, R2. unfold cap_of in *. rewrite C1 in R1. rewrite C2 in R2.
  rewrite firstn_all' in R1 by lia. rewrite firstn_all' in R2 by lia.
  rewrite <- R2, <- R1. reflexivity.
Qed.
