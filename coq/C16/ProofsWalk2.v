(* C16 — the drain clauses of the executable threaded check hold on the model's own runs outside
   the late-push class (for every instance of the sample-rate check). *)
From Coq Require Import List NArith ZArith Bool Arith Lia Permutation.
Import ListNotations.
Require Import MV.Common.Interleave MV.C16.Model MV.C16.Conc MV.C16.Spec MV.C16.Proofs MV.C16.ExecGen
               MV.C16.ProofsConc MV.C16.ProofsConc2 MV.C16.ProofsConc3 MV.C16.ProofsWalk MV.C16.ExecProofs.
Open Scope N_scope.

Lemma list_eqb_pair_eq a : forall b, list_eqb pair_eqb a b = true -> a = b.
Proof.
  induction a as [|[x1 x2] a IH]; intros [|[y1 y2] b] H; cbn in H; try discriminate; auto.
  apply andb_prop in H as [H1 H2]. unfold pair_eqb in H1. cbn in H1. apply andb_prop in H1 as [Q1 Q2].
  apply N.eqb_eq in Q1. apply N.eqb_eq in Q2. subst. f_equal. apply IH. exact H2.
Qed.

Lemma all2_nth {A B} (f : A -> B -> bool) a : forall b u y,
  all2 f a b = true -> nth_error b u = Some y -> exists x, nth_error a u = Some x /\ f x y = true.
Proof.
  induction a as [|x a IH]; intros [|y0 b] u y H Hy; cbn in H; try discriminate.
  - destruct u; discriminate.
  - apply andb_prop in H as [H1 H2]. destruct u as [|u]; cbn in *.
    + inversion Hy; subst. exists x. auto.
    + apply (IH b u y H2 Hy).
Qed.

Lemma matches_nth rk ms : forall os j o,
  matches rk ms os = true -> nth_error os j = Some o -> exists m, nth_error ms j = Some m /\ matches1 rk m o = true.
Proof.
  induction ms as [|m ms IH]; intros [|o0 os] j o H Ho; cbn in H; try discriminate.
  - destruct j; discriminate.
  - apply andb_prop in H as [H1 H2]. destruct j as [|j]; cbn in *.
    + inversion Ho; subst. exists m. auto.
    + apply (IH os j o H2 Ho).
Qed.

Lemma nth_nth_error {A} (l : list (list A)) u j o :
  nth_error (nth u l []) j = Some o -> exists os, nth_error l u = Some os /\ nth_error os j = Some o.
Proof.
  intros H. destruct (nth_error l u) as [os|] eqn:E.
  - exists os. split; [reflexivity|]. rewrite (nth_error_nth _ _ _ E) in H. exact H.
  - apply nth_error_None in E. rewrite nth_overflow in H by exact E. destruct j; discriminate.
Qed.

Lemma nth_error_map_inv {A B} (f : A -> B) l u y :
  nth_error (map f l) u = Some y -> exists x, nth_error l u = Some x /\ y = f x.
Proof.
  revert u. induction l as [|x l IH]; intros [|u] H; cbn in H; try discriminate.
  - inversion H. exists x. auto.
  - apply IH. exact H.
Qed.

Lemma Forall2_nth {A B} (P : A -> B -> Prop) l1 l2 : Forall2 P l1 l2 ->
  forall j a b, nth_error l1 j = Some a -> nth_error l2 j = Some b -> P a b.
Proof.
  induction 1; intros [|j] a b Ha Hb; cbn in *; try discriminate.
  - inversion Ha; inversion Hb; subst. assumption.
  - eapply IHForall2; eauto.
Qed.

Lemma list_eqb_N_refl l : list_eqb N.eqb l l = true.
Proof. induction l; cbn; auto. rewrite N.eqb_refl. exact IHl. Qed.

Lemma matches1_anomaly rk m : matches1 rk m OAnomaly = false.
Proof. destruct m; reflexivity. Qed.

Theorem spec_drain_clauses_on_model : forall rk capN progs sched tr' rs' d',
  known_class (CThr capN progs sched) = None ->
  agrees rk (CThr capN progs sched) (OThr tr' rs' d') = true ->
  no_anomaly rs' = true /\
  forallb (drain_ok rk capN progs rs' (w_pushes (walk tr'))) (w_drains (walk tr')) = true.
Proof.
  intros rk capN progs sched tr' rs' d' HK HA.
  apply known_class_None_iff in HK.
  unfold agrees, run_case, run_thr in HA.
  pose proof (RW_full_run (N.to_nat capN) progs (map N.to_nat sched) rr_fuel) as HR. cbv zeta in HR.
  pose proof (invariant_exec_full step site (Inv capN) (Inv_step capN) rr_fuel (map N.to_nat sched) _
                (eq_rect _ (fun c => Inv c (init_config (N.to_nat capN) progs)) (Inv_init (N.to_nat capN) progs) _ (N2Nat.id capN))) as HI.
  destruct (exec_full step site rr_fuel (init_config (N.to_nat capN) progs) (map N.to_nat sched)) as [cf tr].
  cbn [fst snd] in *. cbn [agrees_out] in HA.
  apply andb_prop in HA as [HA _]. apply andb_prop in HA as [Htr Hrs].
  apply list_eqb_pair_eq in Htr. subst tr'.
  destruct HR as (I3 & (A1 & A2 & A3 & A4 & A5 & A6) & HB). specialize (HB HK).
  destruct HB as (B0a & B0b & B1 & B2 & B3 & B5 & B6).
  pose proof I3 as ((HM & _) & _). cbn [fst snd] in *.
  destruct HI as [_ HIl].
  (* every observation comes from a model result of the same thread and index *)
  assert (Hobs : forall u os j o, nth_error rs' u = Some os -> nth_error os j = Some o ->
            exists x m, nth_error (snd cf) u = Some x /\ nth_error (rev (results x)) j = Some m /\ matches1 rk m o = true).
  { intros u os j o Hos Ho. destruct (all2_nth _ _ _ _ _ Hrs Hos) as (ms & Hms & Hm).
    apply nth_error_map_inv in Hms. destruct Hms as (x & Hx & ->).
    destruct (matches_nth rk _ _ _ _ Hm Ho) as (m & Hmm & Hmo). exists x, m. auto. }
  split.
  - unfold no_anomaly. apply forallb_forall. intros os Hos. apply forallb_forall. intros o Ho.
    apply In_nth_error in Hos. destruct Hos as (u & Hos). apply In_nth_error in Ho. destruct Ho as (j & Ho).
    destruct (Hobs u os j o Hos Ho) as (x & m & Hx & Hm & Hmo).
    destruct o as [p| | |]; try reflexivity; [|rewrite matches1_anomaly in Hmo; discriminate].
    destruct p; try reflexivity. destruct m as [pm| |]; cbn in Hmo; try discriminate.
    apply pres_eqb_eq in Hmo. subst pm.
    pose proof (Forall_nth_error _ _ _ _ HIl Hx) as [_ Hr]. rewrite Forall_forall in Hr.
    apply nth_error_In in Hm. apply in_rev in Hm. specialize (Hr _ Hm). cbn in Hr. destruct Hr.
  - apply forallb_forall. intros [[t j] g] Hin. unfold drain_ok.
    destruct (obs_at rs' t j) as [o|] eqn:O; [|reflexivity].
    unfold obs_at in O. apply nth_nth_error in O. destruct O as (os & Hos & Ho).
    destruct (Hobs _ _ _ _ Hos Ho) as (x & m & Hx & Hm & Hmo).
    assert (Hmx : me x = t) by (rewrite (HM _ x Hx), N2Nat.id; reflexivity).
    destruct (A4 t j g Hin) as (kk & Hop). rewrite Hop.
    (* the model result at that index is a drain *)
    destruct (A2 _ x Hx) as (pre & Hp & HF).
    assert (Hpre : nth_error pre (N.to_nat j) = Some (Consume kk)).
    { unfold op_at in Hop. rewrite (nth_error_nth _ _ _ Hp) in Hop.
      assert (N.to_nat j < length pre)%nat.
      { rewrite (F2_length _ _ _ HF). apply nth_error_Some. rewrite Hm. discriminate. }
      rewrite nth_error_app1 in Hop by assumption. exact Hop. }
    pose proof (Forall2_nth _ _ _ HF _ _ _ Hpre Hm) as Hk. destruct m as [|d|]; cbn in Hk; try contradiction.
    destruct o as [|vals l rate| |]; cbn in Hmo; try discriminate.
    apply andb_prop in Hmo as [Hmo Hrate]. apply andb_prop in Hmo as [Hv Hl].
    apply list_eqb_N_eq in Hv. apply N.eqb_eq in Hl.
    destruct (B6 t j g Hin _ x Hx d Hmx Hm) as (kk' & Hop' & (D1 & D2 & D3 & D4 & D5)).
    rewrite Hop in Hop'. inversion Hop'; subst kk'. clear Hop'.
    unfold val, win in *. rewrite map_length in D1. rewrite N2Nat.id in D2, D5.
    set (wn := window (w_pushes (walk tr)) g) in *.
    set (n := N.of_nat (length wn)) in *.
    rewrite <- Hv, <- Hl. rewrite D2, D1. fold n.
    unfold takeof in D3. rewrite D2, D1 in D3. fold n in D3.
    rewrite D1 in D5. rewrite D1 in Hrate. rewrite D2, D1 in Hrate. fold n in Hrate, D5.
    rewrite N.eqb_refl. cbn [andb].
    assert (E3 : (N.of_nat (length (d_vals d)) =? match kk with Some k' => N.min k' (N.min n capN) | None => N.min n capN end) = true)
      by (apply N.eqb_eq; exact D3).
    rewrite E3, Hrate. cbn [andb].
    assert (E4 : forallb (fun v => existsb (N.eqb v) (map (pushed_value progs) wn)) (d_vals d) = true).
    { apply forallb_forall. intros v Hv'. apply existsb_exists. exists v. split; [apply D4; exact Hv'|apply N.eqb_refl]. }
    rewrite E4. cbn [andb].
    destruct (n <=? capN) eqn:Q; [|reflexivity]. apply N.leb_le in Q.
    rewrite <- D3, Nat2N.id. assert (D7 : d_vals d = firstn (length (d_vals d)) (map (pushed_value progs) wn)) by exact (D5 Q).
    rewrite <- D7. apply list_eqb_N_refl.
Qed.
