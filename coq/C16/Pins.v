From Coq Require Import List NArith ZArith Bool Permutation.
Import ListNotations.
Require Import MV.Common.Interleave MV.C16.Model MV.C16.Spec MV.C16.Conc MV.C16.ExecGen MV.C16.Retention
               MV.C16.Proofs MV.C16.ProofsDrain MV.C16.ProofsUniform MV.C16.ProofsConc MV.C16.ProofsConc2 MV.C16.ProofsConc3 MV.C16.ExecProofs MV.C16.ProofsWalk2 MV.C16.ProofsWalk4.
Open Scope N_scope.
Require Import MV.C16.Properties.

Check (C16_model_meets_spec : forall cap h, snd (run true (new cap) h) = spec_outs (N.of_nat cap) h).
Print Assumptions C16_model_meets_spec.
Check (C16_spec_ok_on_model_sequential : forall rk cap ops o,
  agrees rk (CSeq cap ops) o = true -> spec_ok rk (CSeq cap ops) o = true).
Print Assumptions C16_spec_ok_on_model_sequential.
Check (C16_spec_ok_on_model : forall rk c o,
  known_class c = None -> agrees rk c o = true -> spec_ok rk c o = true).
Print Assumptions C16_spec_ok_on_model.
Check (C16_spec_ok_sound : forall rk cap ops os,
  spec_ok rk (CSeq cap ops) (OSeq os) = true -> Forall2 (predicts rk) (spec_outs cap ops) os).
Print Assumptions C16_spec_ok_sound.
Check (C16_drain_semantics : forall cap h ps k,
  closed h ->
  let n := N.of_nat (length ps) in
  let c := N.of_nat cap in
  exists d kept,
    last (snd (run true (new cap) (h ++ map push_op ps ++ [Consume k]))) (MEmpty true) = MConsume d /\
    d_unsampled d = n /\
    d_len d = N.min n c /\
    length kept = N.to_nat (N.min n c) /\
    d_vals d = match k with None => kept | Some k' => firstn (N.to_nat k') kept end /\
    (forall v, In v kept -> In v (map fst ps)) /\
    (n <= c -> kept = map fst ps) /\
    sample_rate d = (if n <=? c then (1, 1) else (c, n))).
Print Assumptions C16_drain_semantics.
Check (C16_next_cycle_starts_empty : forall cap h,
  closed h -> last (snd (run true (new cap) (h ++ [IsEmpty]))) (MEmpty false) = MEmpty true).
Print Assumptions C16_next_cycle_starts_empty.
Check (C16_total : forall cap h u, ~ In (MPush (PPanic u)) (snd (run true (new cap) h))).
Print Assumptions C16_total.
Check (C16_choice_sequences_are_the_product_of_bounds : forall fx cap m cs,
  In cs (all_choices fx cap m) <->
  length cs = m /\ forall k, (k < m)%nat -> nth k cs 0 < bound fx (cap + N.of_nat k)).
Print Assumptions C16_choice_sequences_are_the_product_of_bounds.
Check (C16_choice_sequences_distinct : forall fx cap m, NoDup (all_choices fx cap m)).
Print Assumptions C16_choice_sequences_distinct.
Check (C16_retention_runs_model_push : forall cap cs c,
  after true cap (cs ++ [c]) = fst (push true (N.of_nat cap + N.of_nat (length cs)) c (after true cap cs))).
Print Assumptions C16_retention_runs_model_push.
Check (C16_retention_for_any_value_stream : forall (f : N -> N) cap cs,
  values (feedp true (with_capacity cap) (map (fun p => (f (fst p), snd p)) (positions 0 (repeat 0 cap ++ cs))))
  = map f (values (after true cap cs))).
Print Assumptions C16_retention_for_any_value_stream.
Check (C16_counting_functions_count : forall cap i m,
  count_retained true cap i m = retained_count (N.of_nat cap) i m /\
  N.of_nat (length (all_choices true (N.of_nat cap) m)) = total (N.of_nat cap) m).
Print Assumptions C16_counting_functions_count.
Check (C16_retained_count_closed_form : forall cap m i,
  i < cap + N.of_nat m -> retained_count cap i m * (cap + N.of_nat m) = cap * total cap m).
Print Assumptions C16_retained_count_closed_form.
Check (C16_uniform_retention : forall cap m i,
  let n := N.of_nat cap + N.of_nat m in
  i < n ->
  count_retained true cap i m * n = N.of_nat cap * N.of_nat (length (all_choices true (N.of_nat cap) m))).
Print Assumptions C16_uniform_retention.
Check (C16_all_positions_equal : forall cap m i j,
  i < N.of_nat cap + N.of_nat m -> j < N.of_nat cap + N.of_nat m ->
  count_retained true cap i m = count_retained true cap j m).
Print Assumptions C16_all_positions_equal.
Check (C16_uniform_retention_refuted_before_fix : exists cap m i,
    i < N.of_nat cap + N.of_nat m /\
    count_retained false cap i m * (N.of_nat cap + N.of_nat m)
    <> N.of_nat cap * N.of_nat (length (all_choices false (N.of_nat cap) m))).
Print Assumptions C16_uniform_retention_refuted_before_fix.
Check (C16_total_refuted_before_fix : exists cap h, In (MPush (PPanic 0)) (snd (run false (new cap) h))).
Print Assumptions C16_total_refuted_before_fix.
Check (C16_drains_well_formed_every_schedule : forall cap ps sched,
  let c := fst (exec step site (init_config cap ps) sched) in
  forall t l x, nth_error (snd c) t = Some l -> In x (results l) ->
    match x with
    | MConsume d => d_len d = N.min (d_unsampled d) (N.of_nat cap) /\ N.of_nat (length (d_vals d)) <= d_len d
    | MPush p => forall u, p <> PPanic u
    | MEmpty _ => True
    end).
Print Assumptions C16_drains_well_formed_every_schedule.
Check (C16_count_is_ledger_length_every_schedule : forall cap ps sched sd,
  let c := fst (exec step site (init_config cap ps) sched) in
  count (res (side (fst c) sd)) = N.of_nat (length (led (side (fst c) sd)))).
Print Assumptions C16_count_is_ledger_length_every_schedule.
Check (C16_returned_drains_are_logged : forall cap ps sched,
  let c := fst (exec step site (init_config cap ps) sched) in
  forall u x d, nth_error (snd c) u = Some x -> In (MConsume d) (results x) ->
                exists W St k, In (d, W, St, k) (glog (fst c))).
Print Assumptions C16_returned_drains_are_logged.
Check (C16_concurrent_accounting_except_late_push : forall cap ps sched,
  let c := fst (exec step site (init_config cap ps) sched) in
  late (fst c) = false ->
  forall d W St k, In (d, W, St, k) (glog (fst c)) ->
    Permutation St W /\
    d_unsampled d = N.of_nat (length St) /\
    d_len d = N.min (d_unsampled d) (N.of_nat cap) /\
    N.of_nat (length (d_vals d)) = takeof k (d_len d) /\
    (forall v, In v (d_vals d) -> In v St) /\
    (d_unsampled d <= N.of_nat cap -> d_vals d = firstn (length (d_vals d)) W) /\
    sample_rate d = (if d_unsampled d <=? N.of_nat cap then (1, 1) else (N.of_nat cap, d_unsampled d))).
Print Assumptions C16_concurrent_accounting_except_late_push.
Check (C16_concurrent_accounting_outside_known_class : forall cap progs sched,
  known_class (CThr cap progs sched) = None ->
  let c := fst (exec_full step site rr_fuel (init_config (N.to_nat cap) progs) (map N.to_nat sched)) in
  forall d W St k, In (d, W, St, k) (glog (fst c)) ->
    Permutation St W /\
    d_unsampled d = N.of_nat (length St) /\
    d_len d = N.min (d_unsampled d) cap /\
    N.of_nat (length (d_vals d)) = takeof k (d_len d) /\
    (forall v, In v (d_vals d) -> In v St) /\
    (d_unsampled d <= cap -> d_vals d = firstn (length (d_vals d)) W) /\
    sample_rate d = (if d_unsampled d <=? cap then (1, 1) else (cap, d_unsampled d))).
Print Assumptions C16_concurrent_accounting_outside_known_class.
Check (C16_consumers_exclusive_and_side_stable : forall cap ps sched,
  let c := fst (exec step site (init_config cap ps) sched) in
  (forall t u l l', nth_error (snd c) t = Some l -> nth_error (snd c) u = Some l' ->
                    region (pcl l) = true -> region (pcl l') = true -> t = u) /\
  (forall t l sd, nth_error (snd c) t = Some l -> drain_side (pcl l) = Some sd -> usep (fst c) = negb sd)).
Print Assumptions C16_consumers_exclusive_and_side_stable.
Check (C16_late_push_refutes : exists c o, known_class c = Some 1 /\
              agrees (fun _ _ _ => true) c o = true /\ spec_ok (fun _ _ _ => true) c o = false).
Print Assumptions C16_late_push_refutes.
