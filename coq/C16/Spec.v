(* C16 — the property as a reference semantics, written without the A/B pair, the counters, the
   fixed-size arrays or stale slot contents.

   A *cycle* is what was pushed since the previous drain.  Its state is the textbook state of
   Vitter's Algorithm R: the list of retained values (grows by appending until it holds [cap]
   values) and the number [i] of values seen.  The value with index [i >= cap] draws
   [j] uniformly from [0, i+1) (i+1 outcomes: the requested bound must be i+1) and replaces slot
   [j] when [j < cap].  A drain reports the retained values, their number min(i, cap) and the
   number seen, and the next cycle starts empty.  Nothing ever panics.                         *)
From Coq Require Import List NArith Bool.
Import ListNotations.
Require Import MV.C16.Model.
Open Scope N_scope.

Definition cycle := (list N * N)%type.          (* retained values, values seen *)
Definition cycle0 : cycle := ([], 0).

Fixpoint replace_at (l : list N) (i : nat) (v : N) : list N :=
  match l, i with
  | [], _ => []
  | _ :: r, O => v :: r
  | x :: r, S i' => x :: replace_at r i' v
  end.

Definition cycle_push (cap : N) (s : cycle) (v choice : N) : cycle * pres :=
  let '(kept, i) := s in
  if i <? cap then ((kept ++ [v], i + 1), PFill)
  else
    let j := choice mod (i + 1) in
    ((if j <? cap then replace_at kept (N.to_nat j) v else kept, i + 1), PDraw (i + 1)).

Definition cycle_drain (cap : N) (k : option N) (s : cycle) : drained :=
  let '(kept, i) := s in
  let len := N.min i cap in
  {| d_vals := match k with None => kept | Some k' => firstn (N.to_nat k') kept end;
     d_len := len; d_unsampled := i |}.

Fixpoint spec_run (cap : N) (s : cycle) (h : list op) : list mout :=
  match h with
  | [] => []
  | Push v c :: r => let '(s', p) := cycle_push cap s v c in MPush p :: spec_run cap s' r
  | Consume k :: r => MConsume (cycle_drain cap k s) :: spec_run cap cycle0 r
  | IsEmpty :: r => MEmpty (snd s =? 0) :: spec_run cap s r
  end.

Definition spec_outs (cap : N) (h : list op) : list mout := spec_run cap cycle0 h.

(* the cycle reached by pushing the (value, choice) pairs [ps] from state [s] *)
Fixpoint cycle_pushes (cap : N) (s : cycle) (ps : list (N * N)) : cycle :=
  match ps with
  | [] => s
  | (v, c) :: r => cycle_pushes cap (fst (cycle_push cap s v c)) r
  end.
