(* C16 — proofs, part 2: what a drain reports, for every capacity, every earlier history, every
   number of pushes in the cycle and every choice sequence. *)
From Coq Require Import List NArith Bool Arith Lia.
Import ListNotations.
Require Import MV.C16.Model MV.C16.Spec MV.C16.Proofs.
Open Scope N_scope.

Definition push_op (p : N * N) : op := Push (fst p) (snd p).

(* a history after which a new cycle begins: empty, or ending with a drain *)
Definition closed (h : list op) : Prop := h = [] \/ exists h' k, h = h' ++ [Consume k].

(* the cycle state of the reference semantics after a history *)
Fixpoint spec_state (cap : N) (s : cycle) (h : list op) : cycle :=
  match h with
  | [] => s
  | Push v c :: r => spec_state cap (fst (cycle_push cap s v c)) r
  | Consume _ :: r => spec_state cap cycle0 r
  | IsEmpty :: r => spec_state cap s r
  end.

Lemma spec_run_app cap h1 : forall s h2,
  spec_run cap s (h1 ++ h2) = spec_run cap s h1 ++ spec_run cap (spec_state cap s h1) h2.
Proof.
  induction h1 as [|o r IH]; intros s h2; [reflexivity|].
  destruct o as [v c|k|]; cbn [app spec_run spec_state].
  - destruct (cycle_push cap s v c) as [s' p]. cbn [fst]. rewrite IH. reflexivity.
  - rewrite IH. reflexivity.
  - rewrite IH. reflexivity.
Qed.

Lemma spec_state_app cap h1 : forall s h2,
  spec_state cap s (h1 ++ h2) = spec_state cap (spec_state cap s h1) h2.
Proof.
  induction h1 as [|o r IH]; intros s h2; [reflexivity|].
  destruct o; cbn [app spec_state]; apply IH.
Qed.

Lemma spec_state_closed cap h : closed h -> spec_state cap cycle0 h = cycle0.
Proof.
  intros [->|(h' & k & ->)]; [reflexivity|]. rewrite spec_state_app. reflexivity.
Qed.

Lemma spec_state_pushes cap ps : forall s, spec_state cap s (map push_op ps) = cycle_pushes cap s ps.
Proof.
  induction ps as [|[v c] r IH]; intros s; [reflexivity|]. cbn. apply IH.
Qed.

Lemma last_app_single {A} (l : list A) x d : last (l ++ [x]) d = x.
Proof. induction l as [|y r IH]; [reflexivity|]. cbn. destruct (r ++ [x]) eqn:E; [destruct r; discriminate|exact IH]. Qed.

Lemma spec_run_length cap h : forall s, length (spec_run cap s h) = length h.
Proof.
  induction h as [|o r IH]; intros s; [reflexivity|].
  destruct o as [v c|k|]; cbn [spec_run].
  - destruct (cycle_push cap s v c). cbn. f_equal. apply IH.
  - cbn. f_equal. apply IH.
  - cbn. f_equal. apply IH.
Qed.

(* ---- invariants of a cycle *)
Lemma replace_at_length l i v : length (replace_at l i v) = length l.
Proof. revert i. induction l as [|x r IH]; intros [|i]; cbn; auto. Qed.

Lemma replace_at_In l i v w : In w (replace_at l i v) -> In w l \/ w = v.
Proof.
  revert i. induction l as [|x r IH]; intros [|i] H; cbn in *; auto.
  - destruct H; auto.
  - destruct H as [H|H]; auto. destruct (IH i H); auto.
Qed.

Lemma cycle_pushes_inv cap ps : forall kept i,
  length kept = N.to_nat (N.min i cap) ->
  let '(kept', i') := cycle_pushes cap (kept, i) ps in
  i' = i + N.of_nat (length ps) /\
  length kept' = N.to_nat (N.min i' cap) /\
  (forall w, In w kept' -> In w kept \/ In w (map fst ps)) /\
  (i' <= cap -> kept' = kept ++ map fst ps).
Proof.
  induction ps as [|[v c] r IH]; intros kept i Hl.
  - cbn. rewrite app_nil_r. repeat split; auto; lia.
  - cbn [cycle_pushes cycle_push].
    destruct (i <? cap) eqn:E; cbn [fst].
    + apply N.ltb_lt in E.
      assert (Hl' : length (kept ++ [v]) = N.to_nat (N.min (i + 1) cap)).
      { rewrite app_length. cbn. lia. }
      specialize (IH (kept ++ [v]) (i + 1) Hl').
      destruct (cycle_pushes cap (kept ++ [v], i + 1) r) as [kept' i'].
      destruct IH as (I1 & I2 & I3 & I4). cbn [length map fst].
      split; [lia|]. split; [exact I2|]. split.
      * intros w Hw. destruct (I3 w Hw) as [H|H]; [|right; right; exact H].
        apply in_app_or in H. destruct H as [H|[H|[]]]; [left; exact H|right; left; exact H].
      * intros Hi. rewrite I4 by exact Hi. rewrite <- app_assoc. reflexivity.
    + apply N.ltb_ge in E.
      set (kept1 := if c mod (i + 1) <? cap then replace_at kept (N.to_nat (c mod (i + 1))) v else kept).
      assert (Hl' : length kept1 = N.to_nat (N.min (i + 1) cap)).
      { unfold kept1. destruct (c mod (i + 1) <? cap); rewrite ?replace_at_length; lia. }
      specialize (IH kept1 (i + 1) Hl').
      destruct (cycle_pushes cap (kept1, i + 1) r) as [kept' i'].
      destruct IH as (I1 & I2 & I3 & I4). cbn [length map fst].
      split; [lia|]. split; [exact I2|]. split.
      * intros w Hw. destruct (I3 w Hw) as [H|H]; [|right; right; exact H].
        unfold kept1 in H. destruct (c mod (i + 1) <? cap); [|left; exact H].
        destruct (replace_at_In _ _ _ _ H) as [H'| ->]; [left; exact H'|right; left; reflexivity].
      * intros Hi. lia.
Qed.

(* ---- the drain clause over histories of the model *)
Theorem drain_semantics : forall cap h ps k,
  closed h ->
  let n := N.of_nat (length ps) in
  let c := N.of_nat cap in
  exists d kept,
    last (snd (run true (new cap) (h ++ map push_op ps ++ [Consume k]))) (MEmpty true) = MConsume d /\
    d_unsampled d = n /\
    d_len d = N.min n c /\
    length kept = N.to_nat (N.min n c) /\
    d_vals d = match k with None => kept | Some k' => firstn (N.to_nat k') kept end /\
    (forall v, In v kept -> In v (map fst ps)) /\
    (n <= c -> kept = map fst ps) /\
    sample_rate d = (if n <=? c then (1, 1) else (c, n)).
Proof.
  intros cap h ps k Hcl n c.
  rewrite model_meets_spec. unfold spec_outs. fold c.
  rewrite app_assoc, spec_run_app, spec_state_app, (spec_state_closed c h Hcl), spec_state_pushes.
  cbn [spec_run]. rewrite last_app_single.
  pose proof (cycle_pushes_inv c ps [] 0) as P.
  destruct (cycle_pushes c cycle0 ps) as [kept i] eqn:E. unfold cycle0 in E. rewrite E in P.
  destruct P as (I1 & I2 & I3 & I4); [rewrite N.min_0_l; reflexivity|].
  rewrite N.add_0_l in I1. fold n in I1. subst i.
  exists (cycle_drain c k (kept, n)), kept. cbn [cycle_drain d_vals d_len d_unsampled].
  split; [reflexivity|]. split; [reflexivity|]. split; [reflexivity|]. split; [exact I2|].
  split; [reflexivity|]. split.
  - intros v Hv. destruct (I3 v Hv) as [[]|H]; exact H.
  - split; [intros Hn; rewrite (I4 Hn); reflexivity|].
    unfold sample_rate. cbn [d_vals d_len d_unsampled].
    destruct (n <=? c) eqn:L; [apply N.leb_le in L|apply N.leb_gt in L].
    + replace (N.min n c) with n by lia. rewrite N.eqb_refl. reflexivity.
    + replace (N.min n c) with c by lia. destruct (n =? c) eqn:Q; [apply N.eqb_eq in Q; lia|reflexivity].
Qed.

(* after a drain (or at the start) the reservoir reports empty, whatever happened before *)
Theorem next_cycle_starts_empty : forall cap h,
  closed h -> last (snd (run true (new cap) (h ++ [IsEmpty]))) (MEmpty false) = MEmpty true.
Proof.
  intros cap h Hcl. rewrite model_meets_spec. unfold spec_outs.
  rewrite spec_run_app, (spec_state_closed _ h Hcl). cbn [spec_run]. rewrite last_app_single. reflexivity.
Qed.

Theorem never_panics : forall cap h u, ~ In (MPush (PPanic u)) (snd (run true (new cap) h)).
Proof. intros cap h u. apply run_no_panic. Qed.

(* ---- the code as found (fx = false) *)
Theorem total_refuted_before_fix : exists cap h, In (MPush (PPanic 0)) (snd (run false (new cap) h)).
Proof. exists 0%nat, [Push 1 0]. vm_compute. auto. Qed.
