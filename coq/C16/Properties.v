(* C16 — property theorems (statements only; proofs in Proofs*.v / ExecProofs.v).

   Reading guide.  [run true (new cap) h] is the model of AtomicSamplingReservoir after the fix
   commit ([run false ..] = the code as found); [spec_outs cap h] the reference semantics of
   Spec.v (Algorithm R per cycle).  [after true cap cs] = the reservoir after pushing the stream
   positions 0..cap+|cs|-1 with the model's push and the choice sequence cs; [all_choices] the
   product of the bounds the model requests; [retained_count]/[total] the enumeration-free
   counting functions.  [exec step site ..] is the interleaving machine of Conc.v.            *)
From Coq Require Import List NArith ZArith Bool Permutation.
Import ListNotations.
Require Import MV.Common.Interleave MV.C16.Model MV.C16.Spec MV.C16.Conc MV.C16.ExecGen MV.C16.Retention
               MV.C16.Proofs MV.C16.ProofsDrain MV.C16.ProofsUniform MV.C16.ProofsConc MV.C16.ProofsConc2 MV.C16.ProofsConc3 MV.C16.ExecProofs MV.C16.ProofsWalk2 MV.C16.ProofsWalk4.
Open Scope N_scope.

Theorem C16_model_meets_spec : forall cap h, snd (run true (new cap) h) = spec_outs (N.of_nat cap) h.
Proof. exact model_meets_spec. Qed.

Theorem C16_spec_ok_on_model_sequential : forall rk cap ops o,
  agrees rk (CSeq cap ops) o = true -> spec_ok rk (CSeq cap ops) o = true.
Proof. exact spec_ok_on_model_seq. Qed.

(* every case (sequential history or threads under a schedule), every instance rk of the
   sample-rate check: an observation that agrees with the model's run of a case outside the open
   known class passes the executable form of the property.  For threaded cases this is the
   refinement between the trace walker of ExecGen.v (windows cut at the 1606 steps of the trace,
   pushes ranked by their 1602 steps) and the ghost ledgers of Conc.v along exec_full: no anomaly,
   every drain clause, and every push reports what its rank in its window prescribes. *)
Theorem C16_spec_ok_on_model : forall rk c o,
  known_class c = None -> agrees rk c o = true -> spec_ok rk c o = true.
Proof. exact spec_ok_on_model. Qed.

Theorem C16_spec_ok_sound : forall rk cap ops os,
  spec_ok rk (CSeq cap ops) (OSeq os) = true -> Forall2 (predicts rk) (spec_outs cap ops) os.
Proof. exact spec_ok_seq_sound. Qed.

Theorem C16_drain_semantics : forall cap h ps k,
  closed h ->
  let n := N.of_nat (length ps) in
  let c := N.of_nat cap in
  exists d kept,
    last (snd (run true (new cap) (h ++ map push_op ps ++ [Consume k]))) (MEmpty true) = MConsume d /\
    d_unsampled d = n /\
    d_len d = N.min n c /\
    length kept = N.to_nat (N.min n c) /\
    d_vals d = match k with None => kept | Some k' => firstn (N.to_nat k') kept end /\
    (forall v, In v kept -> In v (map fst ps)) /\
    (n <= c -> kept = map fst ps) /\
    sample_rate d = (if n <=? c then (1, 1) else (c, n)).
Proof. exact drain_semantics. Qed.

Theorem C16_next_cycle_starts_empty : forall cap h,
  closed h -> last (snd (run true (new cap) (h ++ [IsEmpty]))) (MEmpty false) = MEmpty true.
Proof. exact next_cycle_starts_empty. Qed.

Theorem C16_total : forall cap h u, ~ In (MPush (PPanic u)) (snd (run true (new cap) h)).
Proof. exact never_panics. Qed.

Theorem C16_choice_sequences_are_the_product_of_bounds : forall fx cap m cs,
  In cs (all_choices fx cap m) <->
  length cs = m /\ forall k, (k < m)%nat -> nth k cs 0 < bound fx (cap + N.of_nat k).
Proof. exact all_choices_spec. Qed.

Theorem C16_choice_sequences_distinct : forall fx cap m, NoDup (all_choices fx cap m).
Proof. exact all_choices_NoDup. Qed.

Theorem C16_retention_runs_model_push : forall cap cs c,
  after true cap (cs ++ [c]) = fst (push true (N.of_nat cap + N.of_nat (length cs)) c (after true cap cs)).
Proof. exact after_snoc. Qed.

Theorem C16_retention_for_any_value_stream : forall (f : N -> N) cap cs,
  values (feedp true (with_capacity cap) (map (fun p => (f (fst p), snd p)) (positions 0 (repeat 0 cap ++ cs))))
  = map f (values (after true cap cs)).
Proof. exact after_any_stream. Qed.

Theorem C16_counting_functions_count : forall cap i m,
  count_retained true cap i m = retained_count (N.of_nat cap) i m /\
  N.of_nat (length (all_choices true (N.of_nat cap) m)) = total (N.of_nat cap) m.
Proof. exact counting_functions_count. Qed.

Theorem C16_retained_count_closed_form : forall cap m i,
  i < cap + N.of_nat m -> retained_count cap i m * (cap + N.of_nat m) = cap * total cap m.
Proof. exact retained_count_total. Qed.

Theorem C16_uniform_retention : forall cap m i,
  let n := N.of_nat cap + N.of_nat m in
  i < n ->
  count_retained true cap i m * n = N.of_nat cap * N.of_nat (length (all_choices true (N.of_nat cap) m)).
Proof. exact uniform_retention. Qed.

Theorem C16_all_positions_equal : forall cap m i j,
  i < N.of_nat cap + N.of_nat m -> j < N.of_nat cap + N.of_nat m ->
  count_retained true cap i m = count_retained true cap j m.
Proof. exact all_positions_equal. Qed.

Theorem C16_uniform_retention_refuted_before_fix :
  exists cap m i,
    i < N.of_nat cap + N.of_nat m /\
    count_retained false cap i m * (N.of_nat cap + N.of_nat m)
    <> N.of_nat cap * N.of_nat (length (all_choices false (N.of_nat cap) m)).
Proof. exact uniform_retention_refuted_before_fix. Qed.

Theorem C16_total_refuted_before_fix : exists cap h, In (MPush (PPanic 0)) (snd (run false (new cap) h)).
Proof. exact total_refuted_before_fix. Qed.

(* every schedule, late push or not, any number of threads and programs: no push panics, every
   drain reports len = min(the count it read, cap) and yields at most len values *)
Theorem C16_drains_well_formed_every_schedule : forall cap ps sched,
  let c := fst (exec step site (init_config cap ps) sched) in
  forall t l x, nth_error (snd c) t = Some l -> In x (results l) ->
    match x with
    | MConsume d => d_len d = N.min (d_unsampled d) (N.of_nat cap) /\ N.of_nat (length (d_vals d)) <= d_len d
    | MPush p => forall u, p <> PPanic u
    | MEmpty _ => True
    end.
Proof. exact drains_well_formed_every_schedule. Qed.

(* every schedule, late push or not: the count of a side = the number of fetch_adds (1602) that
   landed on it since its last reset (1609) *)
Theorem C16_count_is_ledger_length_every_schedule : forall cap ps sched sd,
  let c := fst (exec step site (init_config cap ps) sched) in
  count (res (side (fst c) sd)) = N.of_nat (length (led (side (fst c) sd))).
Proof. exact count_is_ledger_length_every_schedule. Qed.

(* every drain a thread returned is in the ghost log (with the ledger W and the started list St of
   its side at the moment it read the count) *)
Theorem C16_returned_drains_are_logged : forall cap ps sched,
  let c := fst (exec step site (init_config cap ps) sched) in
  forall u x d, nth_error (snd c) u = Some x -> In (MConsume d) (results x) ->
                exists W St k, In (d, W, St, k) (glog (fst c)).
Proof. exact returned_drains_are_logged. Qed.

(* THE concurrent clause.  Every schedule, thread count and program in which no 1606 step retired a
   side with a push in flight on it ([late] clear): for every completed drain d, with
   St = the values of the pushes that STARTED (1601) on its side since that side's previous count
   reset and W = the same values in the order of their fetch_adds (1602):
   the count it read is |St|; len = min(|St|, cap); it yielded exactly len values (min(k, len) if
   the callback stops after k), all of them values of St, and exactly the first ones of W if
   |St| <= cap (so all of St in fetch_add order for a full read); sample rate 1 if |St| <= cap else
   cap/|St|.  (The reset at 1609 empties both lists: the next window of the side starts empty.) *)
Theorem C16_concurrent_accounting_except_late_push : forall cap ps sched,
  let c := fst (exec step site (init_config cap ps) sched) in
  late (fst c) = false ->
  forall d W St k, In (d, W, St, k) (glog (fst c)) ->
    Permutation St W /\
    d_unsampled d = N.of_nat (length St) /\
    d_len d = N.min (d_unsampled d) (N.of_nat cap) /\
    N.of_nat (length (d_vals d)) = takeof k (d_len d) /\
    (forall v, In v (d_vals d) -> In v St) /\
    (d_unsampled d <= N.of_nat cap -> d_vals d = firstn (length (d_vals d)) W) /\
    sample_rate d = (if d_unsampled d <=? N.of_nat cap then (1, 1) else (N.of_nat cap, d_unsampled d)).
Proof. exact accounting_except_late_push. Qed.

(* the same for the run a threaded case of the correspondence check denotes (schedule, then the
   round-robin tail), stated with the decidable class predicate on the case *)
Theorem C16_concurrent_accounting_outside_known_class : forall cap progs sched,
  known_class (CThr cap progs sched) = None ->
  let c := fst (exec_full step site rr_fuel (init_config (N.to_nat cap) progs) (map N.to_nat sched)) in
  forall d W St k, In (d, W, St, k) (glog (fst c)) ->
    Permutation St W /\
    d_unsampled d = N.of_nat (length St) /\
    d_len d = N.min (d_unsampled d) cap /\
    N.of_nat (length (d_vals d)) = takeof k (d_len d) /\
    (forall v, In v (d_vals d) -> In v St) /\
    (d_unsampled d <= cap -> d_vals d = firstn (length (d_vals d)) W) /\
    sample_rate d = (if d_unsampled d <=? cap then (1, 1) else (cap, d_unsampled d)).
Proof. exact accounting_outside_known_class. Qed.

(* every schedule: at most one thread is between swap.lock and the unlock, and while a drain is
   between its side swap and its count reset, use_primary selects the other side (a push that
   starts during a drain cannot select the side being drained) *)
Theorem C16_consumers_exclusive_and_side_stable : forall cap ps sched,
  let c := fst (exec step site (init_config cap ps) sched) in
  (forall t u l l', nth_error (snd c) t = Some l -> nth_error (snd c) u = Some l' ->
                    region (pcl l) = true -> region (pcl l') = true -> t = u) /\
  (forall t l sd, nth_error (snd c) t = Some l -> drain_side (pcl l) = Some sd -> usep (fst c) = negb sd).
Proof. exact consumers_exclusive_and_side_stable. Qed.

Theorem C16_late_push_refutes :
  exists c o, known_class c = Some 1 /\
              agrees (fun _ _ _ => true) c o = true /\ spec_ok (fun _ _ _ => true) c o = false.
Proof. exact late_push_refutes. Qed.
