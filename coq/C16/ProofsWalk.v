(* C16 — the trace walker of ExecGen.v (the executable threaded clause) against the machine:
   along every execution the walker state reached on the emitted step trace is related to the
   configuration reached, so that outside the late-push class the drain clauses of the walker are
   satisfied by the model's own runs. *)
From Coq Require Import List NArith ZArith Bool Arith Lia Permutation.
Import ListNotations.
Require Import MV.Common.Interleave MV.C16.Model MV.C16.Conc MV.C16.Spec MV.C16.Proofs MV.C16.ExecGen
               MV.C16.ProofsConc MV.C16.ProofsConc2 MV.C16.ProofsConc3.
Open Scope N_scope.

(* ---- an invariant relating the configuration to a fold over the emitted trace *)
Section TraceInv.
  Context {A : Type}.
  Variable f : A -> N * N -> A.
  Variable R : @config shared local -> A -> Prop.
  Hypothesis Hnoop : forall a t, f a (N.of_nat t, noop_site) = a.
  Hypothesis Hstep : forall s ls t l s' l' a,
    R (s, ls) a -> nth_error ls t = Some l -> step s l = Some (s', l') ->
    R (s', upd ls t l') (f a (N.of_nat t, site l)).

  Lemma step_thread_tr c t a :
    R c a -> R (fst (step_thread step site c t)) (f a (snd (step_thread step site c t))).
  Proof.
    intros H. destruct c as [s ls]. unfold step_thread. cbn [fst snd].
    destruct (nth_error ls t) as [l|] eqn:E; [|cbn [fst snd]; rewrite Hnoop; exact H].
    destruct (step s l) as [[s' l']|] eqn:E2; cbn [fst snd]; [|rewrite Hnoop; exact H].
    eapply Hstep; eauto.
  Qed.

  Lemma exec_tr : forall sched c a,
    R c a -> R (fst (exec step site c sched)) (fold_left f (snd (exec step site c sched)) a).
  Proof.
    induction sched as [|t r IH]; intros c a H; [exact H|].
    cbn [exec]. pose proof (step_thread_tr c t a H) as H1.
    destruct (step_thread step site c t) as [c1 e]. cbn [fst snd] in H1.
    specialize (IH c1 _ H1). destruct (exec step site c1 r) as [c2 es]. cbn [fst snd fold_left] in *. exact IH.
  Qed.

  Lemma rr_round_tr : forall ts c a,
    R c a -> R (fst (rr_round step site c ts)) (fold_left f (snd (rr_round step site c ts)) a).
  Proof.
    induction ts as [|t r IH]; intros c a H; [exact H|].
    cbn [rr_round]. destruct (finished step c t); [apply IH; exact H|].
    pose proof (step_thread_tr c t a H) as H1.
    destruct (step_thread step site c t) as [c1 e]. cbn [fst snd] in H1.
    specialize (IH c1 _ H1). destruct (rr_round step site c1 r) as [c2 es]. cbn [fst snd fold_left] in *. exact IH.
  Qed.

  Lemma exec_rr_tr : forall fuel c a,
    R c a -> R (fst (exec_rr step site fuel c)) (fold_left f (snd (exec_rr step site fuel c)) a).
  Proof.
    induction fuel as [|n IH]; intros c a H; [exact H|].
    cbn [exec_rr]. destruct (all_done step c); [exact H|].
    pose proof (rr_round_tr (seq 0 (length (snd c))) c a H) as H1.
    destruct (rr_round step site c (seq 0 (length (snd c)))) as [c1 es]. cbn [fst snd] in H1.
    specialize (IH c1 _ H1). destruct (exec_rr step site n c1) as [c2 es']. cbn [fst snd] in *.
    rewrite fold_left_app. exact IH.
  Qed.

  Lemma exec_full_tr fuel sched c a :
    R c a -> R (fst (exec_full step site fuel c sched)) (fold_left f (snd (exec_full step site fuel c sched)) a).
  Proof.
    intros H. unfold exec_full. pose proof (exec_tr sched c a H) as H1.
    destruct (exec step site c sched) as [c1 es]. cbn [fst snd] in H1.
    pose proof (exec_rr_tr fuel c1 _ H1) as H2.
    destruct (exec_rr step site fuel c1) as [c2 es']. cbn [fst snd] in *. rewrite fold_left_app. exact H2.
  Qed.
End TraceInv.

(* ---- what one machine step does to the walker state and to the thread's place in its program *)
Lemma wstep_noop w t : wstep w (N.of_nat t, noop_site) = w.
Proof. reflexivity. Qed.

Definition is_fin (p : pc) : bool :=
  match p with P3 _ _ _ _ | K10 _ _ _ _ | E12 _ => true | _ => false end.

Lemma wstep_eq l w :
  wstep w (me l, site l) =
  match pcl l with
  | P1 _ _ => {| w_now := w_now w; w_done := w_done w; w_win := (me l, w_now w) :: w_win w;
                 w_pushes := w_pushes w; w_drains := w_drains w |}
  | P2 _ _ _ => {| w_now := w_now w; w_done := w_done w; w_win := w_win w;
                   w_pushes := w_pushes w ++ [(me l, count_tid (me l) (w_done w), lookup (me l) (w_win w))];
                   w_drains := w_drains w |}
  | K6 _ _ => {| w_now := w_now w + 1; w_done := w_done w; w_win := w_win w; w_pushes := w_pushes w;
                 w_drains := w_drains w ++ [(me l, count_tid (me l) (w_done w), w_now w)] |}
  | P3 _ _ _ _ | K10 _ _ _ _ | E12 _ =>
      {| w_now := w_now w; w_done := me l :: w_done w; w_win := w_win w; w_pushes := w_pushes w; w_drains := w_drains w |}
  | _ => w
  end.
Proof. unfold wstep, site. destruct (pcl l); reflexivity. Qed.

Definition pc_op (p : pc) : list op :=
  match p with
  | Start | Done => []
  | P1 v c | P2 _ v c | P3 _ _ v c => [Push v c]
  | K4 k | K5 k | K6 k _ | K7 k _ | K8 k _ _ _ _ _ _ _ _ | K9 k _ _ _ _ _ _ | K10 k _ _ _ => [Consume k]
  | E11 | E12 _ => [IsEmpty]
  end.

Definition res_of_op (o : op) (r : mout) : Prop :=
  match o, r with
  | Push _ _, MPush _ | Consume _, MConsume _ | IsEmpty, MEmpty _ => True
  | _, _ => False
  end.

Lemma enter_pc_op m td rs : pc_op (pcl (enter m td rs)) ++ todo (enter m td rs) = td.
Proof. destruct td as [|[v c|k|] r]; reflexivity. Qed.

(* a step either stays inside the current operation, or enters the next one, or completes the
   current one with a result of its kind *)
Lemma step_pf s l s' l' :
  step s l = Some (s', l') ->
  (is_fin (pcl l) = false /\ results l' = results l /\
   pc_op (pcl l') ++ todo l' = pc_op (pcl l) ++ todo l)
  \/ (is_fin (pcl l) = true /\ exists o r, pc_op (pcl l) = [o] /\ res_of_op o r /\ results l' = r :: results l /\
      pc_op (pcl l') ++ todo l' = todo l).
Proof.
  intros E. unfold step in E. destruct l as [m p td rs]. cbn [pcl me todo results] in *.
  destruct p; cbn [is_fin pc_op].
  - inversion E; subst s' l'. left. rewrite enter_pc_op, enter_results. auto.
  - inversion E; subst s' l'. left. auto.
  - inversion E; subst s' l'. left. auto.
  - destruct (store_step (res (side s sd)) idx v c) as [r' pr]. inversion E; subst s' l'. right.
    split; [reflexivity|]. exists (Push v c), (MPush pr). unfold finish. rewrite enter_pc_op, enter_results. cbn. auto.
  - destruct (lock s); inversion E; subst s' l'; left; auto.
  - inversion E; subst s' l'. left. auto.
  - inversion E; subst s' l'. left. auto.
  - inversion E; subst s' l'. left. split; [reflexivity|]. split; [reflexivity|]. cbn [goto pcl todo].
    match goal with |- context [if ?b then _ else _] => destruct b end; reflexivity.
  - inversion E; subst s' l'. left. split; [reflexivity|]. split; [reflexivity|]. cbn [goto pcl todo].
    match goal with |- context [if ?b then _ else _] => destruct b end; reflexivity.
  - inversion E; subst s' l'. left. auto.
  - inversion E; subst s' l'. right. split; [reflexivity|]. exists (Consume k), (MConsume d).
    unfold finish. rewrite enter_pc_op, enter_results. cbn. auto.
  - inversion E; subst s' l'. left. auto.
  - inversion E; subst s' l'. right. split; [reflexivity|]. exists IsEmpty, (MEmpty (count (res (side s up)) =? 0)).
    unfold finish. rewrite enter_pc_op, enter_results. cbn. auto.
  - discriminate.
Qed.

Lemma wproj l w :
  let w' := wstep w (me l, site l) in
  w_done w' = (if is_fin (pcl l) then me l :: w_done w else w_done w) /\
  w_drains w' = (match pcl l with K6 _ _ => w_drains w ++ [(me l, count_tid (me l) (w_done w), w_now w)] | _ => w_drains w end) /\
  w_pushes w' = (match pcl l with P2 _ _ _ => w_pushes w ++ [(me l, count_tid (me l) (w_done w), lookup (me l) (w_win w))] | _ => w_pushes w end) /\
  w_now w' = (match pcl l with K6 _ _ => w_now w + 1 | _ => w_now w end) /\
  w_win w' = (match pcl l with P1 _ _ => (me l, w_now w) :: w_win w | _ => w_win w end).
Proof. cbv zeta. rewrite wstep_eq. destruct (pcl l); cbn; auto. Qed.

Definition in_drain (p : pc) : bool :=
  match p with K7 _ _ | K8 _ _ _ _ _ _ _ _ _ | K9 _ _ _ _ _ _ _ | K10 _ _ _ _ => true | _ => false end.

Lemma step_in_drain s l s' l' :
  step s l = Some (s', l') -> is_fin (pcl l) = false -> in_drain (pcl l) = true -> in_drain (pcl l') = true.
Proof.
  intros E F D. unfold step in E. destruct (pcl l); try discriminate; inversion E; subst s' l'; cbn [goto pcl];
    try reflexivity; match goal with |- context [if ?b then _ else _] => destruct b end; reflexivity.
Qed.

Lemma step_me s l s' l' : step s l = Some (s', l') -> me l' = me l.
Proof. intros E. apply (step_class s l s' l' E). Qed.

Section Walk.
Variable cap : nat.
Variable progs : list (list op).

Definition jx (x : local) : N := N.of_nat (length (results x)).
Definition PF (u : nat) (x : local) : Prop :=
  exists pre, nth_error progs u = Some (pre ++ pc_op (pcl x) ++ todo x) /\ Forall2 res_of_op pre (rev (results x)).

Definition WA (c : @config shared local) (w : wstate) : Prop :=
  (forall u x, nth_error (snd c) u = Some x -> count_tid (me x) (w_done w) = jx x) /\
  (forall u x, nth_error (snd c) u = Some x -> PF u x) /\
  (forall u x k up, nth_error (snd c) u = Some x -> pcl x = K6 k up -> usep (fst c) = up) /\
  (forall t j g, In (t, j, g) (w_drains w) -> exists kk, op_at progs t j = Some (Consume kk)) /\
  (forall u x j g, nth_error (snd c) u = Some x -> In (me x, j, g) (w_drains w) ->
     j < jx x \/ (j = jx x /\ in_drain (pcl x) = true)) /\
  (forall u x g1 g2, nth_error (snd c) u = Some x ->
     In (me x, jx x, g1) (w_drains w) -> In (me x, jx x, g2) (w_drains w) -> g1 = g2).

Lemma F2_length {A B} (P : A -> B -> Prop) l1 l2 : Forall2 P l1 l2 -> length l1 = length l2.
Proof. induction 1; cbn; auto. Qed.

Lemma op_at_cur u x : PF u x -> me x = N.of_nat u -> forall o, pc_op (pcl x) = [o] -> op_at progs (me x) (jx x) = Some o.
Proof.
  intros (pre & Hp & HF) Hm o Ho. unfold op_at, jx. rewrite Hm, !Nat2N.id.
  rewrite (nth_error_nth _ _ _ Hp). rewrite Ho.
  assert (L : length pre = length (results x)) by (rewrite (F2_length _ _ _ HF), rev_length; reflexivity).
  rewrite nth_error_app2 by lia. rewrite L, Nat.sub_diag. reflexivity.
Qed.

Lemma count_tid_cons t m l : count_tid t (m :: l) = (if m =? t then 1 else 0) + count_tid t l.
Proof. reflexivity. Qed.

Lemma WA_step s ls t l s' l' w :
  Inv2 (s, ls) -> WA (s, ls) w -> nth_error ls t = Some l -> step s l = Some (s', l') ->
  WA (s', upd ls t l') (wstep w (me l, site l)).
Proof.
  intros I2 (A1 & A2 & A3 & A4 & A5 & A6) Ht E. pose proof I2 as (HM & HL & HU). cbn [fst snd] in *.
  destruct (wproj l w) as (Wd & Wdr & _ & _ & _). set (w' := wstep w (me l, site l)) in *.
  pose proof (step_me _ _ _ _ E) as Hme.
  assert (Hmt : me l = N.of_nat t) by (apply (HM t l Ht)).
  assert (Hother : forall u x, u <> t -> nth_error ls u = Some x -> me x <> me l).
  { intros u x Hne Hx. rewrite (HM u x Hx), Hmt. lia. }
  pose proof (step_pf _ _ _ _ E) as PFc.
  assert (Hjx : jx l' = if is_fin (pcl l) then jx l + 1 else jx l).
  { unfold jx. destruct PFc as [(F & R & _)|(F & o & r & _ & _ & R & _)]; rewrite F, R; cbn [length]; lia. }
  (* the thread's own new entry, if any *)
  assert (Hnew : forall e, In e (w_drains w') -> In e (w_drains w) \/
                 (exists k up, pcl l = K6 k up) /\ e = (me l, jx l, w_now w)).
  { intros e He. rewrite Wdr in He. destruct (pcl l) eqn:P; auto.
    apply in_app_or in He. destruct He as [He|[<-|[]]]; [left; exact He|right].
    split; [eauto|]. rewrite (A1 t l Ht). reflexivity. }
  assert (Hold : forall e, In e (w_drains w) -> In e (w_drains w')).
  { intros e He. rewrite Wdr. destruct (pcl l); auto. apply in_or_app. left. exact He. }
  split; [|split; [|split; [|split; [|split]]]]; cbn [fst snd].
  - (* A1 *) intros u x Hx. rewrite Wd.
    destruct (nth_error_upd_cases ls t l' u x Hx) as [[-> ->]|[Hne Hx']].
    + rewrite Hme, Hjx. destruct (is_fin (pcl l)); [|apply (A1 t l Ht)].
      rewrite count_tid_cons, N.eqb_refl, (A1 t l Ht). lia.
    + destruct (is_fin (pcl l)); [|apply (A1 u x Hx')].
      rewrite count_tid_cons. destruct (me l =? me x) eqn:Q; [apply N.eqb_eq in Q; exfalso; apply (Hother u x Hne Hx'); congruence|].
      apply (A1 u x Hx').
  - (* A2 *) intros u x Hx. destruct (nth_error_upd_cases ls t l' u x Hx) as [[-> ->]|[Hne Hx']]; [|apply (A2 u x Hx')].
    destruct (A2 t l Ht) as (pre & Hp & HF).
    destruct PFc as [(_ & R & Q)|(_ & o & r & Po & Ho & R & Q)].
    + exists pre. rewrite Q, R. auto.
    + exists (pre ++ [o]). rewrite R. cbn [rev]. split; [|apply Forall2_app; [exact HF|constructor; [exact Ho|constructor]]].
      rewrite Hp, Po, Q, <- app_assoc. reflexivity.
  - (* A3 *) intros u x k up Hx Px. destruct (nth_error_upd_cases ls t l' u x Hx) as [[-> ->]|[Hne Hx']].
    + unfold step in E. destruct (pcl l) eqn:P; try (inversion E; subst s' l'; cbn in Px; discriminate).
      * inversion E; subst s' l'. destruct (todo l) as [|[? ?|?|] ?]; cbn in Px; discriminate.
      * destruct (store_step (res (side s sd)) idx v c). inversion E; subst s' l'. unfold finish in Px.
        destruct (todo l) as [|[? ?|?|] ?]; cbn in Px; discriminate.
      * destruct (lock s); inversion E; subst s' l'; [rewrite P in Px|cbn in Px]; discriminate.
      * inversion E; subst s' l'. cbn in Px. inversion Px. reflexivity.
      * inversion E; subst s' l'. cbn in Px. match type of Px with context [if ?b then _ else _] => destruct b end; discriminate.
      * inversion E; subst s' l'. cbn in Px. match type of Px with context [if ?b then _ else _] => destruct b end; discriminate.
      * inversion E; subst s' l'. unfold finish in Px. destruct (todo l) as [|[? ?|?|] ?]; cbn in Px; discriminate.
      * inversion E; subst s' l'. unfold finish in Px. destruct (todo l) as [|[? ?|?|] ?]; cbn in Px; discriminate.
    + pose proof (A3 u x k up Hx' Px) as U.
      destruct (step_class s l s' l' E) as [_ [(_ & B & _)|[(_ & _ & B & _)|[(Rl & _)|(_ & _ & B & _)]]]]; try (rewrite B; exact U).
      exfalso. apply Hne. assert (Rx : region (pcl x) = true) by (rewrite Px; reflexivity).
      pose proof (HL t l Ht Rl) as La. pose proof (HL u x Hx' Rx) as Lb. rewrite La in Lb. inversion Lb as [Q].
      rewrite (HM u x Hx'), Hmt in Q. lia.
  - (* A4 *) intros t0 j g He. destruct (Hnew _ He) as [Ho|((k & up & P) & Q)]; [apply (A4 _ _ _ Ho)|].
    inversion Q; subst. exists k. apply (op_at_cur t l (A2 t l Ht) Hmt). rewrite P. reflexivity.
  - (* A5 *) intros u x j g Hx He.
    destruct (nth_error_upd_cases ls t l' u x Hx) as [[-> ->]|[Hne Hx']].
    + rewrite Hme in He. rewrite Hjx. destruct (Hnew _ He) as [Ho|((k & up & P) & Q)].
      * destruct (A5 t l j g Ht Ho) as [Lt|[Eq D]].
        -- left. destruct (is_fin (pcl l)); lia.
        -- destruct (is_fin (pcl l)) eqn:F; [left; lia|]. right. split; [exact Eq|]. apply (step_in_drain _ _ _ _ E F D).
      * inversion Q; subst. rewrite P. cbn [is_fin]. right. split; [reflexivity|].
        unfold step in E. rewrite P in E. inversion E; subst. reflexivity.
    + destruct (Hnew _ He) as [Ho|(_ & Q)]; [apply (A5 u x j g Hx' Ho)|].
      inversion Q. exfalso. apply (Hother u x Hne Hx'). assumption.
  - (* A6 *) intros u x g1 g2 Hx H1 H2.
    destruct (nth_error_upd_cases ls t l' u x Hx) as [[-> ->]|[Hne Hx']].
    + rewrite Hme in H1, H2. rewrite Hjx in H1, H2.
      destruct (is_fin (pcl l)) eqn:F.
      * exfalso. destruct (Hnew _ H1) as [Ho|((k & up & P) & _)]; [|rewrite P in F; discriminate].
        destruct (A5 t l _ _ Ht Ho) as [Lt|[Eq _]]; lia.
      * destruct (Hnew _ H1) as [O1|((k & up & P) & Q1)], (Hnew _ H2) as [O2|((k2 & up2 & P2) & Q2)].
        -- apply (A6 t l g1 g2 Ht O1 O2).
        -- exfalso. destruct (A5 t l _ _ Ht O1) as [Lt|[_ D]]; [lia|]. rewrite P2 in D. discriminate.
        -- exfalso. destruct (A5 t l _ _ Ht O2) as [Lt|[_ D]]; [lia|]. rewrite P in D. discriminate.
        -- inversion Q1. inversion Q2. congruence.
    + destruct (Hnew _ H1) as [O1|(_ & Q1)]; [|inversion Q1; exfalso; apply (Hother u x Hne Hx'); assumption].
      destruct (Hnew _ H2) as [O2|(_ & Q2)]; [|inversion Q2; exfalso; apply (Hother u x Hne Hx'); assumption].
      apply (A6 u x g1 g2 Hx' O1 O2).
Qed.

(* ---- the conditional part: windows of the walker against the ledgers of the machine *)
Definition val (e : N * N * N) : N := pushed_value progs e.
Definition win (w : wstate) (g : N) : list (N * N * N) := window (w_pushes w) g.

Definition B5x (s : shared) (w : wstate) (x : local) : Prop :=
  match pcl x with
  | K7 k up => 1 <= w_now w /\ In (me x, jx x, w_now w - 1) (w_drains w) /\
               led (side s up) = map val (win w (w_now w - 1))
  | K8 _ _ _ _ _ _ _ W _ | K9 _ _ _ _ _ W _ | K10 _ _ W _ =>
      exists g, g < w_now w /\ In (me x, jx x, g) (w_drains w) /\ W = map val (win w g)
  | _ => True
  end.

Definition B6e (w : wstate) (x : local) (t j g : N) : Prop :=
  forall d, me x = t -> nth_error (rev (results x)) (N.to_nat j) = Some (MConsume d) ->
    exists kk, op_at progs t j = Some (Consume kk) /\
               dg cap kk (d_unsampled d) (d_len d) (d_vals d) (map val (win w g)).

Definition WB (c : @config shared local) (w : wstate) : Prop :=
  let s := fst c in let ls := snd c in
  (forall e, In e (w_pushes w) -> snd e <= w_now w) /\
  (forall e, In e (w_drains w) -> snd e < w_now w) /\
  (forall u x sd, nth_error ls u = Some x ->
     (exists v c, pcl x = P2 sd v c) \/ (exists idx v c, pcl x = P3 sd idx v c) ->
     sd = usep s /\ lookup (me x) (w_win w) = w_now w) /\
  map val (win w (w_now w)) = led (side s (usep s)) /\
  (led (side s (negb (usep s))) = [] \/
   exists u x, nth_error ls u = Some x /\ drain_side (pcl x) = Some (negb (usep s))) /\
  (forall u x, nth_error ls u = Some x -> B5x s w x) /\
  (forall t j g, In (t, j, g) (w_drains w) -> forall u x, nth_error ls u = Some x -> B6e w x t j g).

Lemma window_app l e g : window (l ++ [e]) g = window l g ++ (if snd e =? g then [e] else []).
Proof. unfold window. rewrite filter_app. cbn. destruct (snd e =? g); reflexivity. Qed.

Lemma window_nil l g : (forall e, In e l -> snd e <> g) -> window l g = [].
Proof.
  intros H. unfold window. induction l as [|e r IH]; [reflexivity|]. cbn.
  destruct (snd e =? g) eqn:Q; [apply N.eqb_eq in Q; exfalso; apply (H e (or_introl eq_refl) Q)|].
  apply IH. intros e' He'. apply H. right. exact He'.
Qed.

Lemma lookup_cons_other m g t l : m <> t -> lookup t ((m, g) :: l) = lookup t l.
Proof. intros H. cbn. destruct (m =? t) eqn:Q; [apply N.eqb_eq in Q; contradiction|reflexivity]. Qed.

Lemma nth_error_rev_snoc {A} (l : list A) r j :
  nth_error (rev (r :: l)) j = if (j <? length l)%nat then nth_error (rev l) j
                               else if (j =? length l)%nat then Some r else None.
Proof.
  cbn [rev]. destruct (j <? length l)%nat eqn:Q; [apply Nat.ltb_lt in Q|apply Nat.ltb_ge in Q].
  - apply nth_error_app1. rewrite rev_length. exact Q.
  - rewrite nth_error_app2 by (rewrite rev_length; exact Q). rewrite rev_length.
    destruct (j =? length l)%nat eqn:Q2; [apply Nat.eqb_eq in Q2; subst; rewrite Nat.sub_diag; reflexivity|].
    apply Nat.eqb_neq in Q2. destruct (j - length l)%nat as [|k] eqn:K; [lia|]. cbn. destruct k; reflexivity.
Qed.

(* steps that leave w_now, the pushes, the drains, use_primary and every ledger alone *)
Lemma WB_frame s ls t l s' l' w w' :
  Inv2 (s, ls) -> WB (s, ls) w -> nth_error ls t = Some l -> me l' = me l ->
  w_now w' = w_now w -> w_pushes w' = w_pushes w -> w_drains w' = w_drains w ->
  (forall u x, u <> t -> nth_error ls u = Some x -> lookup (me x) (w_win w') = lookup (me x) (w_win w)) ->
  usep s' = usep s -> (forall sd, led (side s' sd) = led (side s sd)) ->
  (forall sd, (exists v c, pcl l' = P2 sd v c) \/ (exists idx v c, pcl l' = P3 sd idx v c) ->
              sd = usep s /\ lookup (me l) (w_win w') = w_now w) ->
  B5x s' w' l' ->
  (forall sd, drain_side (pcl l) = Some sd -> drain_side (pcl l') = Some sd) ->
  (forall t0 j g, In (t0, j, g) (w_drains w) -> B6e w' l' t0 j g) ->
  WB (s', upd ls t l') w'.
Proof.
  intros I2 (B0a & B0b & B1 & B2 & B3 & B5 & B6) Ht Hme En Ep Ed Hlk Eu El F1 F5 Fd F6. cbn [fst snd] in *.
  assert (Ewin : forall g, win w' g = win w g) by (intros g; unfold win; rewrite Ep; reflexivity).
  unfold WB. cbn [fst snd]. rewrite En, Ep, Ed, Eu. split; [exact B0a|]. split; [exact B0b|].
  split; [|split; [|split; [|split]]].
  - intros u x sd Hx Hp. destruct (nth_error_upd_cases ls t l' u x Hx) as [[-> ->]|[Hne Hx']].
    + rewrite Hme. apply F1. exact Hp.
    + rewrite (Hlk u x Hne Hx'). apply (B1 u x sd Hx' Hp).
  - rewrite El. unfold win in *. rewrite Ep. exact B2.
  - rewrite El. destruct B3 as [B3|(u & x & Hx & D)]; [left; exact B3|right].
    destruct (Nat.eq_dec u t) as [->|Hne].
    + rewrite Ht in Hx. inversion Hx; subst x. exists t, l'. split; [eapply nth_error_upd_same; eauto|apply Fd; exact D].
    + exists u, x. split; [rewrite nth_error_upd_other; auto|exact D].
  - intros u x Hx. destruct (nth_error_upd_cases ls t l' u x Hx) as [[-> ->]|[Hne Hx']]; [exact F5|].
    pose proof (B5 u x Hx') as H. unfold B5x in *. destruct (pcl x); auto.
    + rewrite En, Ed, El, Ewin. exact H.
    + destruct H as (g & A & B & C). exists g. rewrite En, Ed, Ewin. auto.
    + destruct H as (g & A & B & C). exists g. rewrite En, Ed, Ewin. auto.
    + destruct H as (g & A & B & C). exists g. rewrite En, Ed, Ewin. auto.
  - intros t0 j g Hin u x Hx. destruct (nth_error_upd_cases ls t l' u x Hx) as [[-> ->]|[Hne Hx']]; [apply F6; exact Hin|].
    pose proof (B6 t0 j g Hin u x Hx') as H. unfold B6e in *. rewrite Ewin. exact H.
Qed.

Lemma led_frame s l s' l' :
  step s l = Some (s', l') -> (forall sd v c, pcl l <> P2 sd v c) ->
  (forall k sd n len acc W St, pcl l <> K9 k sd n len acc W St) ->
  forall sd, led (side s' sd) = led (side s sd).
Proof.
  intros E N2 N9 sd.
  destruct (step_eff s l s' l' E sd) as [[Q _]|[(_ & _ & _ & Q & _)|[(v & c & P & _)|[(idx & v & c & _ & _ & Q & _)|(k & n & len & acc & W & St & P & _)]]]].
  - rewrite Q. reflexivity.
  - exact Q.
  - exfalso. apply (N2 _ _ _ P).
  - exact Q.
  - exfalso. apply (N9 _ _ _ _ _ _ _ P).
Qed.

Lemma usep_frame s l s' l' :
  step s l = Some (s', l') -> (forall k up, pcl l <> K6 k up) -> usep s' = usep s.
Proof.
  intros E N6. destruct (step_class s l s' l' E) as [_ [(_ & B & _)|[(_ & _ & B & _)|[(_ & _ & k & up & P & _)|(_ & _ & B & _)]]]]; auto.
  exfalso. apply (N6 _ _ P).
Qed.

Lemma B6e_snoc w x x' r t0 j g :
  me x' = me x -> results x' = r :: results x -> (forall d, r <> MConsume d) ->
  B6e w x t0 j g -> B6e w x' t0 j g.
Proof.
  intros Hm Hr Hn H d Ht Hj. rewrite Hr, nth_error_rev_snoc in Hj.
  destruct (N.to_nat j <? length (results x))%nat; [apply H; [congruence|exact Hj]|].
  destruct (N.to_nat j =? length (results x))%nat; [inversion Hj; exfalso; eapply Hn; eauto|discriminate].
Qed.

Lemma B6e_same w w' x x' t0 j g :
  me x' = me x -> results x' = results x -> (forall g, win w' g = win w g) -> B6e w x t0 j g -> B6e w' x' t0 j g.
Proof. intros Hm Hr Hw H d Ht Hj. rewrite Hr in Hj. rewrite Hw. apply H; [congruence|exact Hj]. Qed.

Lemma wproj_frame l w :
  (forall sd v c, pcl l <> P2 sd v c) -> (forall k up, pcl l <> K6 k up) ->
  let w' := wstep w (me l, site l) in
  w_now w' = w_now w /\ w_pushes w' = w_pushes w /\ w_drains w' = w_drains w /\
  (forall m, m <> me l -> lookup m (w_win w') = lookup m (w_win w)) /\
  ((exists v c, pcl l = P1 v c) -> lookup (me l) (w_win w') = w_now w).
Proof.
  intros N2 N6. cbv zeta. rewrite wstep_eq. destruct (pcl l) eqn:P; cbn; repeat split; auto;
    try (intros (v0 & c0 & Q); discriminate);
    try (exfalso; eapply N2; reflexivity); try (exfalso; eapply N6; reflexivity).
  - intros m Hm. destruct (me l =? m) eqn:Q; [apply N.eqb_eq in Q; congruence|reflexivity].
  - intros _. rewrite N.eqb_refl. reflexivity.
Qed.

Lemma WB_step_frame s ls t l s' l' w :
  Inv3 cap (s, ls) -> late s = false -> WA (s, ls) w -> WB (s, ls) w ->
  nth_error ls t = Some l -> step s l = Some (s', l') ->
  (forall sd v c, pcl l <> P2 sd v c) -> (forall k up, pcl l <> K6 k up) ->
  (forall k sd n len acc W St, pcl l <> K9 k sd n len acc W St) ->
  WB (s', upd ls t l') (wstep w (me l, site l)).
Proof.
  intros (I2 & _ & _ & HB3) HL0 (A1 & A2 & A3 & A4 & A5 & A6) HB Ht E N2 N6 N9.
  destruct (HB3 HL0) as (HT & _ & _ & _). cbn [fst snd] in *.
  pose proof I2 as (HM & _ & _). cbn [fst snd] in HM.
  pose proof (step_me _ _ _ _ E) as Hme.
  destruct (wproj_frame l w N2 N6) as (En & Ep & Ed & Hlk & Hlk1). set (w' := wstep w (me l, site l)) in *.
  assert (Ewin : forall g, win w' g = win w g) by (intros g; unfold win; rewrite Ep; reflexivity).
  pose proof (led_frame _ _ _ _ E N2 N9) as El. pose proof (usep_frame _ _ _ _ E N6) as Eu.
  pose proof HB as (_ & _ & _ & _ & _ & B5 & B6). cbn [fst snd] in B5, B6.
  pose proof (B5 t l Ht) as B5l.
  apply (WB_frame s ls t l s' l' w w' I2 HB Ht Hme En Ep Ed); auto.
  - intros u x Hne Hx. apply Hlk. rewrite (HM u x Hx), (HM t l Ht). lia.
  - (* B1 for l' *)
    intros sd Hp. unfold step in E. destruct (pcl l) eqn:P;
      try (inversion E; subst s' l'; destruct Hp as [(v0 & c0 & Q)|(i0 & v0 & c0 & Q)]; cbn in Q; discriminate).
    + inversion E; subst s' l'. destruct Hp as [(v0 & c0 & Q)|(i0 & v0 & c0 & Q)];
        destruct (todo l) as [|[? ?|?|] ?]; cbn in Q; discriminate.
    + inversion E; subst s' l'. destruct Hp as [(v0 & c0 & Q)|(i0 & v0 & c0 & Q)]; cbn in Q; [|discriminate].
      inversion Q; subst. split; [reflexivity|]. apply Hlk1. eauto.
    + exfalso. eapply N2; reflexivity.
    + destruct (store_step (res (side s sd0)) idx v c). inversion E; subst s' l'. unfold finish in Hp.
      destruct Hp as [(v0 & c0 & Q)|(i0 & v0 & c0 & Q)]; destruct (todo l) as [|[? ?|?|] ?]; cbn in Q; discriminate.
    + destruct (lock s); inversion E; subst s' l'; destruct Hp as [(v0 & c0 & Q)|(i0 & v0 & c0 & Q)];
        try (rewrite P in Q); cbn in Q; discriminate.
    + inversion E; subst s' l'. destruct Hp as [(v0 & c0 & Q)|(i0 & v0 & c0 & Q)]; cbn in Q;
        match type of Q with context [if ?b then _ else _] => destruct b end; discriminate.
    + inversion E; subst s' l'. destruct Hp as [(v0 & c0 & Q)|(i0 & v0 & c0 & Q)]; cbn in Q;
        match type of Q with context [if ?b then _ else _] => destruct b end; discriminate.
    + inversion E; subst s' l'. unfold finish in Hp.
      destruct Hp as [(v0 & c0 & Q)|(i0 & v0 & c0 & Q)]; destruct (todo l) as [|[? ?|?|] ?]; cbn in Q; discriminate.
    + inversion E; subst s' l'. unfold finish in Hp.
      destruct Hp as [(v0 & c0 & Q)|(i0 & v0 & c0 & Q)]; destruct (todo l) as [|[? ?|?|] ?]; cbn in Q; discriminate.
  - (* B5 for l' *)
    unfold B5x in *. unfold step in E. destruct (pcl l) eqn:P;
      try (inversion E; subst s' l'; cbn [goto pcl]; exact I).
    + inversion E; subst s' l'. destruct (todo l) as [|[? ?|?|] ?]; cbn; exact I.
    + destruct (store_step (res (side s sd)) idx v c). inversion E; subst s' l'. unfold finish.
      destruct (todo l) as [|[? ?|?|] ?]; cbn; exact I.
    + destruct (lock s); inversion E; subst s' l'; [rewrite P|cbn]; exact I.
    + exfalso. eapply N6; reflexivity.
    + inversion E; subst s' l'. destruct B5l as (Q1 & Q2 & Q3). cbn [goto pcl].
      match goal with |- context [if ?b then _ else _] => destruct b end; cbn [pcl];
        exists (w_now w - 1); rewrite En, Ed, Ewin; (split; [lia|]); (split; [exact Q2|exact Q3]).
    + inversion E; subst s' l'. destruct B5l as (g & Q1 & Q2 & Q3). cbn [goto pcl].
      match goal with |- context [if ?b then _ else _] => destruct b end; cbn [pcl];
        exists g; rewrite En, Ed, Ewin; auto.
    + exfalso. eapply N9; reflexivity.
    + inversion E; subst s' l'. unfold finish. destruct (todo l) as [|[? ?|?|] ?]; cbn; exact I.
    + inversion E; subst s' l'. unfold finish. destruct (todo l) as [|[? ?|?|] ?]; cbn; exact I.
  - (* drain side kept *)
    intros sd D. unfold step in E. destruct (pcl l) eqn:P; cbn in D; try discriminate.
    + inversion E; subst s' l'. cbn [goto pcl]. match goal with |- context [if ?b then _ else _] => destruct b end; exact D.
    + inversion E; subst s' l'. cbn [goto pcl]. match goal with |- context [if ?b then _ else _] => destruct b end; exact D.
    + exfalso. eapply N9; reflexivity.
  - (* B6 for l' *)
    intros t0 j g Hin. pose proof (B6 t0 j g Hin t l Ht) as H.
    destruct (step_pf _ _ _ _ E) as [(_ & R & _)|(F & o & r & Po & Ho & R & _)].
    + apply (B6e_same w w' l l' t0 j g Hme R Ewin H).
    + intros d Hm Hj. rewrite Ewin. rewrite R, nth_error_rev_snoc in Hj.
      destruct (N.to_nat j <? length (results l))%nat eqn:Q1; [apply H; [congruence|exact Hj]|].
      destruct (N.to_nat j =? length (results l))%nat eqn:Q2; [|discriminate].
      apply Nat.eqb_eq in Q2. inversion Hj; subst r. clear Hj.
      assert (Ej : j = jx l) by (unfold jx; lia).
      assert (Et : t0 = me l) by congruence. subst j t0.
      unfold step in E. destruct (pcl l) eqn:P; try discriminate.
      * destruct (store_step (res (side s sd)) idx v c). inversion E; subst s' l'. unfold finish in R.
        rewrite enter_results in R. inversion R.
      * inversion E; subst s' l'. unfold finish in R. rewrite enter_results in R. inversion R; subst d0.
        pose proof (HT t l Ht) as Tl. unfold T in Tl. rewrite P in Tl. destruct Tl as [Dg _].
        unfold B5x in B5l. rewrite P in B5l. destruct B5l as (g0 & _ & In0 & EW).
        rewrite Et in Hin |- *.
        assert (g = g0) by (apply (A6 t l g g0 Ht Hin In0)). subst g0.
        exists k. split; [apply (op_at_cur t l (A2 t l Ht) (HM t l Ht)); rewrite P; reflexivity|].
        rewrite <- EW. exact Dg.
      * inversion E; subst s' l'. unfold finish in R. rewrite enter_results in R. inversion R.
Qed.

Lemma excl s ls t l u x :
  Inv2 (s, ls) -> nth_error ls t = Some l -> nth_error ls u = Some x -> u <> t ->
  region (pcl l) = true -> region (pcl x) = true -> False.
Proof.
  intros (HM & HL & _) Ht Hu Hne Rl Rx. cbn [fst snd] in *.
  pose proof (HL t l Ht Rl) as La. pose proof (HL u x Hu Rx) as Lb. rewrite La in Lb. inversion Lb as [Q].
  rewrite (HM u x Hu), (HM t l Ht) in Q. lia.
Qed.

Lemma in_drain_region p : in_drain p = true -> region p = true.
Proof. destruct p; cbn; auto. Qed.

(* 1602: the fetch_add appends the push to the current window and to the active side's ledger *)
Lemma WB_step_P2 s ls t l s' l' w sd v c :
  Inv3 cap (s, ls) -> late s = false -> WA (s, ls) w -> WB (s, ls) w ->
  nth_error ls t = Some l -> pcl l = P2 sd v c -> step s l = Some (s', l') ->
  WB (s', upd ls t l') (wstep w (me l, site l)).
Proof.
  intros (I2 & _ & _ & HB3) HL0 (A1 & A2 & _) (B0a & B0b & B1 & B2 & B3 & B5 & B6) Ht P E.
  pose proof I2 as (HM & _ & HU). cbn [fst snd] in *.
  destruct (B1 t l sd Ht (or_introl (ex_intro _ v (ex_intro _ c P)))) as [Esd Elk].
  destruct (wproj l w) as (_ & Wdr & Wpu & Wno & Wwi). rewrite P in Wdr, Wpu, Wno, Wwi.
  rewrite (A1 t l Ht), Elk in Wpu. set (w' := wstep w (me l, site l)) in *.
  set (e := (me l, jx l, w_now w)) in *.
  assert (Ewin : forall g, g <> w_now w -> win w' g = win w g).
  { intros g Hg. unfold win. rewrite Wpu, window_app. cbn [snd e]. unfold e. cbn [snd].
    destruct (w_now w =? g) eqn:Q; [apply N.eqb_eq in Q; congruence|apply app_nil_r]. }
  assert (Ewin0 : win w' (w_now w) = win w (w_now w) ++ [e]).
  { unfold win. rewrite Wpu, window_app. unfold e. cbn [snd]. rewrite N.eqb_refl. reflexivity. }
  assert (Eval : val e = v).
  { unfold val, pushed_value, e. cbn [fst snd].
    rewrite (op_at_cur t l (A2 t l Ht) (HM t l Ht) (Push v c)); [reflexivity|rewrite P; reflexivity]. }
  unfold step in E. rewrite P in E. inversion E; subst s' l'. clear E.
  set (x1 := {| res := {| values := values (res (side s sd)); count := count (res (side s sd)) + 1 |};
                led := led (side s sd) ++ [v]; fl := fl (side s sd); stv := stv (side s sd) |}).
  destruct (set_side_misc s sd x1) as (_ & _ & _ & Eu).
  unfold WB. cbn [fst snd]. rewrite Wno, Wdr, Eu.
  split; [|split; [exact B0b|split; [|split; [|split; [|split]]]]].
  - intros e0 He. rewrite Wpu in He. apply in_app_or in He. destruct He as [He|[<-|[]]]; [apply B0a; exact He|].
    unfold e. cbn. lia.
  - intros u x sd0 Hx Hp. rewrite Wwi. destruct (nth_error_upd_cases ls t _ u x Hx) as [[-> ->]|[Hne Hx']].
    + cbn [goto pcl me] in *. destruct Hp as [(v0 & c0 & Q)|(i0 & v0 & c0 & Q)]; [discriminate|]. inversion Q; subst. auto.
    + apply (B1 u x sd0 Hx' Hp).
  - rewrite <- Esd, side_set, Bool.eqb_reflx. cbn [led x1]. rewrite Ewin0, map_app. cbn [map]. rewrite Eval.
    rewrite B2, <- Esd. reflexivity.
  - rewrite <- Esd, side_set. destruct (Bool.eqb sd (negb sd)) eqn:Q; [destruct sd; discriminate|].
    rewrite <- Esd in B3. destruct B3 as [B3|(u & x & Hx & D)]; [left; exact B3|right].
    exists u, x. split; [|exact D]. rewrite nth_error_upd_other; [exact Hx|].
    intros <-. rewrite Ht in Hx. inversion Hx; subst x. rewrite P in D. discriminate.
  - intros u x Hx. destruct (nth_error_upd_cases ls t _ u x Hx) as [[-> ->]|[Hne Hx']]; [exact I|].
    pose proof (B5 u x Hx') as H. unfold B5x in *. destruct (pcl x) eqn:Px; auto.
    + destruct H as (H1 & H2 & H3). rewrite Wno, Wdr. rewrite Ewin by lia. split; [exact H1|]. split; [exact H2|].
      rewrite side_set. assert (Hup : usep s = negb up) by (apply (HU u x up Hx'); rewrite Px; reflexivity).
      destruct (Bool.eqb sd up) eqn:Q; [|exact H3].
      exfalso. apply Bool.eqb_prop in Q. rewrite <- Q, Esd in Hup. destruct (usep s); discriminate.
    + destruct H as (g & H1 & H2 & H3). exists g. rewrite Wno, Wdr. rewrite Ewin by lia. auto.
    + destruct H as (g & H1 & H2 & H3). exists g. rewrite Wno, Wdr. rewrite Ewin by lia. auto.
    + destruct H as (g & H1 & H2 & H3). exists g. rewrite Wno, Wdr. rewrite Ewin by lia. auto.
  - intros t0 j g Hin u x Hx. pose proof (B0b _ Hin) as Hg. cbn [snd] in Hg.
    destruct (nth_error_upd_cases ls t _ u x Hx) as [[-> ->]|[Hne Hx']].
    + pose proof (B6 t0 j g Hin t l Ht) as H. intros d Hm Hj. rewrite Ewin by lia. apply H; assumption.
    + pose proof (B6 t0 j g Hin u x Hx') as H. intros d Hm Hj. rewrite Ewin by lia. apply H; assumption.
Qed.

(* 1606: the side swap closes the current window *)
Lemma WB_step_K6 s ls t l s' l' w k up :
  Inv3 cap (s, ls) -> late s = false -> late s' = false -> WA (s, ls) w -> WB (s, ls) w ->
  nth_error ls t = Some l -> pcl l = K6 k up -> step s l = Some (s', l') ->
  WB (s', upd ls t l') (wstep w (me l, site l)).
Proof.
  intros I3 HL0 HL (A1 & A2 & A3 & _) (B0a & B0b & B1 & B2 & B3 & B5 & B6) Ht P E.
  pose proof I3 as (I2 & _ & _ & HB3). destruct (HB3 HL0) as (HT & _). cbn [fst snd] in *.
  pose proof I2 as (HM & _ & HU). cbn [fst snd] in *.
  pose proof (A3 t l k up Ht P) as Eup.
  destruct (wproj l w) as (_ & Wdr & Wpu & Wno & Wwi). rewrite P in Wdr, Wpu, Wno, Wwi.
  rewrite (A1 t l Ht) in Wdr. set (w' := wstep w (me l, site l)) in *.
  assert (Ewin : forall g, win w' g = win w g) by (intros g; unfold win; rewrite Wpu; reflexivity).
  assert (Rl : region (pcl l) = true) by (rewrite P; reflexivity).
  unfold step in E. rewrite P in E. inversion E; subst s' l'. clear E.
  cbn [late] in HL. apply orb_false_iff in HL. destruct HL as [_ HF].
  assert (Hfl : fl (side s up) = []) by (destruct (fl (side s up)); [reflexivity|discriminate]).
  unfold WB. cbn [fst snd usep]. rewrite Wno.
  split; [|split; [|split; [|split; [|split; [|split]]]]].
  - intros e He. rewrite Wpu in He. pose proof (B0a e He). lia.
  - intros e He. rewrite Wdr in He. apply in_app_or in He. destruct He as [He|[<-|[]]]; [pose proof (B0b e He); lia|cbn; lia].
  - intros u x sd Hx Hp. exfalso. destruct (nth_error_upd_cases ls t _ u x Hx) as [[-> ->]|[Hne Hx']].
    + cbn [goto pcl] in Hp. destruct Hp as [(v0 & c0 & Q)|(i0 & v0 & c0 & Q)]; discriminate.
    + destruct (B1 u x sd Hx' Hp) as [Esd _]. pose proof (HT u x Hx') as Tx. unfold T in Tx.
      destruct Hp as [(v0 & c0 & Q)|(i0 & v0 & c0 & Q)]; rewrite Q in Tx; rewrite Esd, Eup, Hfl in Tx; [exact Tx|destruct Tx as [[] _]].
  - rewrite side_rec. unfold win. rewrite window_nil; [|intros e He; rewrite Wpu in He; pose proof (B0a e He); lia].
    cbn [map]. rewrite Eup in B3. destruct B3 as [B3|(u & x & Hx & D)]; [symmetry; exact B3|exfalso].
    destruct (Nat.eq_dec u t) as [->|Hne].
    + rewrite Ht in Hx. inversion Hx; subst x. rewrite P in D. discriminate.
    + apply (excl s ls t l u x I2 Ht Hx Hne Rl). destruct (pcl x); cbn in D; try discriminate; reflexivity.
  - right. exists t, (goto l (K7 k up)). split; [eapply nth_error_upd_same; eauto|]. cbn. rewrite negb_involutive. reflexivity.
  - intros u x Hx. destruct (nth_error_upd_cases ls t _ u x Hx) as [[-> ->]|[Hne Hx']].
    + unfold B5x. cbn [goto pcl me]. rewrite Wno, Wdr, side_rec, Ewin.
      replace (w_now w + 1 - 1) with (w_now w) by lia. split; [lia|]. split.
      * apply in_or_app. right. left. reflexivity.
      * rewrite B2, Eup. reflexivity.
    + pose proof (B5 u x Hx') as H. unfold B5x in *.
      destruct (pcl x) eqn:Px; auto; exfalso; apply (excl s ls t l u x I2 Ht Hx' Hne Rl); rewrite Px; reflexivity.
  - intros t0 j g Hin u x Hx. rewrite Wdr in Hin. intros d Hm Hj. rewrite Ewin.
    assert (Hres : exists x0, nth_error ls u = Some x0 /\ me x0 = me x /\ results x0 = results x).
    { destruct (nth_error_upd_cases ls t _ u x Hx) as [[-> ->]|[Hne Hx']]; [exists l|exists x]; auto. }
    destruct Hres as (x0 & Hx0 & Em & Er).
    apply in_app_or in Hin. destruct Hin as [Hin|[Q|[]]].
    + apply (B6 t0 j g Hin u x0 Hx0 d); [congruence|rewrite Er; exact Hj].
    + exfalso. injection Q as Q1 Q2 Q3. rewrite <- Q1 in Hm. rewrite <- Q2 in Hj.
      assert (u = t). { rewrite <- Em in Hm. rewrite (HM u x0 Hx0), (HM t l Ht) in Hm. lia. }
      subst u. rewrite Ht in Hx0. inversion Hx0; subst x0. rewrite <- Er in Hj. unfold jx in Hj. rewrite Nat2N.id in Hj.
      assert (nth_error (rev (results l)) (length (results l)) = None) by (apply nth_error_None; rewrite rev_length; lia).
      congruence.
Qed.

(* 1609: the count reset empties the retired side's ledger *)
Lemma WB_step_K9 s ls t l s' l' w k sd n len acc W St :
  Inv3 cap (s, ls) -> WA (s, ls) w -> WB (s, ls) w ->
  nth_error ls t = Some l -> pcl l = K9 k sd n len acc W St -> step s l = Some (s', l') ->
  WB (s', upd ls t l') (wstep w (me l, site l)).
Proof.
  intros I3 _ (B0a & B0b & B1 & B2 & B3 & B5 & B6) Ht P E.
  pose proof I3 as (I2 & _). pose proof I2 as (HM & _ & HU). cbn [fst snd] in *.
  assert (Ew : wstep w (me l, site l) = w) by (rewrite wstep_eq, P; reflexivity). rewrite Ew.
  assert (Rl : region (pcl l) = true) by (rewrite P; reflexivity).
  assert (Eus : usep s = negb sd) by (apply (HU t l sd Ht); rewrite P; reflexivity).
  unfold step in E. rewrite P in E. inversion E; subst s' l'. clear E.
  set (x1 := {| res := {| values := values (res (side s sd)); count := 0 |}; led := []; fl := fl (side s sd); stv := [] |}).
  destruct (set_side_misc s sd x1) as (_ & _ & _ & Eu).
  unfold WB. cbn [fst snd]. rewrite Eu.
  split; [exact B0a|]. split; [exact B0b|]. split; [|split; [|split; [|split]]].
  - intros u x sd0 Hx Hp. destruct (nth_error_upd_cases ls t _ u x Hx) as [[-> ->]|[Hne Hx']].
    + cbn [goto pcl] in Hp. destruct Hp as [(v0 & c0 & Q)|(i0 & v0 & c0 & Q)]; discriminate.
    + apply (B1 u x sd0 Hx' Hp).
  - rewrite side_set, Eus. destruct (Bool.eqb sd (negb sd)) eqn:Q; [destruct sd; discriminate|]. rewrite <- Eus. exact B2.
  - left. rewrite side_set, Eus, negb_involutive, Bool.eqb_reflx. reflexivity.
  - intros u x Hx. destruct (nth_error_upd_cases ls t _ u x Hx) as [[-> ->]|[Hne Hx']].
    + pose proof (B5 t l Ht) as H. unfold B5x in *. rewrite P in H. cbn [goto pcl me]. exact H.
    + pose proof (B5 u x Hx') as H. unfold B5x in *.
      destruct (pcl x) eqn:Px; auto; exfalso; apply (excl s ls t l u x I2 Ht Hx' Hne Rl); rewrite Px; reflexivity.
  - intros t0 j g Hin u x Hx. destruct (nth_error_upd_cases ls t _ u x Hx) as [[-> ->]|[Hne Hx']].
    + apply (B6 t0 j g Hin t l Ht).
    + apply (B6 t0 j g Hin u x Hx').
Qed.

(* ---- the combined relation and its preservation along every execution *)
Definition RW (c : @config shared local) (w : wstate) : Prop :=
  Inv3 cap c /\ WA c w /\ (late (fst c) = false -> WB c w).

Lemma RW_step : forall s ls t l s' l' a,
  RW (s, ls) a -> nth_error ls t = Some l -> step s l = Some (s', l') ->
  RW (s', upd ls t l') (wstep a (N.of_nat t, site l)).
Proof.
  intros s ls t l s' l' w (I3 & HA & HB) Ht E. cbn [fst snd] in *.
  pose proof I3 as (I2 & _). pose proof I2 as (HM & _). cbn [fst snd] in HM.
  rewrite <- (HM t l Ht).
  split; [apply (Inv3_step cap s ls t l s' l' I3 Ht E)|]. split; [apply (WA_step s ls t l s' l' w I2 HA Ht E)|].
  cbn [fst snd]. intros HL. pose proof (step_late _ _ _ _ E HL) as HL0. specialize (HB HL0).
  destruct (pcl l) eqn:P;
    try (apply (WB_step_frame s ls t l s' l' w I3 HL0 HA HB Ht E); intros; rewrite P; discriminate).
  - apply (WB_step_P2 s ls t l s' l' w sd v c I3 HL0 HA HB Ht P E).
  - apply (WB_step_K6 s ls t l s' l' w k up I3 HL0 HL HA HB Ht P E).
  - apply (WB_step_K9 s ls t l s' l' w k sd n len acc W St I3 HA HB Ht P E).
Qed.

Definition w0 : wstate := {| w_now := 0; w_done := []; w_win := []; w_pushes := []; w_drains := [] |}.

Lemma init_locals_nth ps : forall m u x,
  nth_error (init_locals m ps) u = Some x ->
  exists p, nth_error ps u = Some p /\ pcl x = Start /\ todo x = p /\ results x = [].
Proof.
  induction ps as [|p r IH]; intros m [|u] x H; cbn in H; try discriminate.
  - inversion H; subst. exists p. cbn. auto.
  - apply (IH _ _ _ H).
Qed.
End Walk.

Lemma RW_init cap progs : RW cap progs (init_config cap progs) w0.
Proof.
  split; [apply Inv3_init|]. unfold init_config. cbn [fst snd]. split.
  - unfold WA. cbn [fst snd w0 w_done w_drains]. repeat split.
    + intros u x Hx. destruct (init_locals_nth progs 0 u x Hx) as (p & _ & _ & _ & R). unfold jx. rewrite R. reflexivity.
    + intros u x Hx. destruct (init_locals_nth progs 0 u x Hx) as (p & Hp & Pc & Td & R). exists [].
      rewrite Pc, Td, R. cbn. auto.
    + intros u x k up Hx Px. destruct (init_locals_nth progs 0 u x Hx) as (p & _ & Pc & _). rewrite Pc in Px. discriminate.
    + intros t j g [].
    + intros u x j g _ [].
    + intros u x g1 g2 _ [].
  - intros _. unfold WB. cbn [fst snd w0 w_now w_pushes w_drains w_win].
    split; [intros e []|]. split; [intros e []|]. split; [|split; [|split; [|split]]].
    + intros u x sd Hx Hp. destruct (init_locals_nth progs 0 u x Hx) as (p & _ & Pc & _).
      destruct Hp as [(v & c & Q)|(i & v & c & Q)]; rewrite Pc in Q; discriminate.
    + reflexivity.
    + left. reflexivity.
    + intros u x Hx. destruct (init_locals_nth progs 0 u x Hx) as (p & _ & Pc & _). unfold B5x. rewrite Pc. exact I.
    + intros t j g [].
Qed.

Theorem RW_full_run cap progs sched fuel :
  let r := exec_full step site fuel (init_config cap progs) sched in
  RW cap progs (fst r) (walk (snd r)).
Proof.
  cbv zeta. unfold walk. fold w0.
  apply (exec_full_tr wstep (RW cap progs) wstep_noop (RW_step cap progs) fuel sched _ w0 (RW_init cap progs)).
Qed.
