(* C16 — definitions for the uniform-retention clause (no proofs).

   The stream positions 0, 1, .., n-1 are pushed (as values) into a fresh reservoir of capacity
   [cap] with the model's [push]; the pushes with index idx >= cap draw, and a *choice sequence*
   [cs] lists their raw choices in order (n = cap + length cs).  With the draw at index idx
   uniform on [0, bound idx), every choice sequence of [all_choices] (the product of the
   requested ranges) is equally likely, so
       Pr[position i retained after n pushes] = count_retained i / length all_choices.
   [retained_count] and [total] are the enumeration-free counting functions (recursion on the
   number of draws); ProofsUniform.v proves that they count the enumerated choice sequences.   *)
From Coq Require Import List NArith Bool.
Import ListNotations.
Require Import MV.C16.Model.
Open Scope N_scope.

(* (position, choice) pairs for positions start, start+1, .. *)
Fixpoint positions (start : N) (cs : list N) : list (N * N) :=
  match cs with
  | [] => []
  | c :: r => (start, c) :: positions (start + 1) r
  end.

(* Reservoir::push for each (value, choice) pair in order *)
Definition feedp (fx : bool) (r : reservoir) (ps : list (N * N)) : reservoir :=
  fold_left (fun r p => fst (push fx (fst p) (snd p) r)) ps r.

(* the reservoir after pushing positions 0 .. cap + length cs - 1 (the first cap pushes fill
   without drawing; their choice argument is irrelevant) *)
Definition after (fx : bool) (cap : nat) (cs : list N) : reservoir :=
  feedp fx (with_capacity cap) (positions 0 (repeat 0 cap ++ cs)).

(* position i would be yielded by a drain *)
Definition retained (i : N) (r : reservoir) : bool :=
  existsb (N.eqb i) (d_vals (snd (drain None r))).

Definition range (b : N) : list N := map N.of_nat (seq 0 (N.to_nat b)).

(* every choice sequence for the draws with index cap .. cap+m-1, each within the bound the
   model requests for it *)
Fixpoint all_choices (fx : bool) (cap : N) (m : nat) : list (list N) :=
  match m with
  | O => [[]]
  | S m' => flat_map (fun cs => map (fun c => cs ++ [c]) (range (bound fx (cap + N.of_nat m'))))
                     (all_choices fx cap m')
  end.

Definition count_retained (fx : bool) (cap : nat) (i : N) (m : nat) : N :=
  N.of_nat (length (filter (fun cs => retained i (after fx cap cs)) (all_choices fx (N.of_nat cap) m))).

(* ---- enumeration-free counting (the code after the fix: bound idx = idx + 1) *)
Fixpoint total (cap : N) (m : nat) : N :=
  match m with
  | O => 1
  | S m' => total cap m' * (cap + N.of_nat m' + 1)
  end.

Fixpoint retained_count (cap i : N) (m : nat) : N :=
  match m with
  | O => if i <? cap then 1 else 0
  | S m' =>
      let n := cap + N.of_nat m' in            (* index of the push being added *)
      if i =? n then cap * total cap m'         (* the new position stays iff its draw lands below cap *)
      else retained_count cap i m' * n          (* an older position survives unless its own slot is drawn *)
  end.
