(* C16 — spec_ok accepts every run of the model outside the late-push class (all three conjuncts
   of the threaded check, and the sequential check), for every instance of the rate check. *)
From Coq Require Import List NArith ZArith Bool Arith Lia Permutation.
Import ListNotations.
Require Import MV.Common.Interleave MV.C16.Model MV.C16.Conc MV.C16.Spec MV.C16.Proofs MV.C16.ExecGen
               MV.C16.ProofsConc MV.C16.ProofsConc2 MV.C16.ProofsConc3 MV.C16.ProofsWalk MV.C16.ExecProofs
               MV.C16.ProofsWalk2 MV.C16.ProofsWalk3.
Open Scope N_scope.

Lemma pres_eqb_refl p : pres_eqb p p = true.
Proof. destruct p; cbn; auto; apply N.eqb_refl. Qed.

Lemma push_results_ok_nth capN rs w : forall idx0,
  (forall i t j g', nth_error w i = Some (t, j, g') ->
     match obs_at rs t j with
     | Some (OPush p) => pres_eqb p (expected capN (idx0 + N.of_nat i)) = true
     | Some _ => False
     | None => True
     end) ->
  push_results_ok capN rs w idx0 = true.
Proof.
  induction w as [|[[t j] g'] r IH]; intros idx0 H; [reflexivity|].
  cbn [push_results_ok fst snd]. apply andb_true_intro. split.
  - pose proof (H 0%nat t j g' eq_refl) as H0. rewrite N.add_0_r in H0. unfold expected in H0.
    destruct (obs_at rs t j) as [[p| | |]|]; auto; contradiction.
  - apply IH. intros i t1 j1 g1 Hn. pose proof (H (S i) t1 j1 g1 Hn) as H1.
    replace (idx0 + 1 + N.of_nat i) with (idx0 + N.of_nat (S i)) by lia. exact H1.
Qed.

Theorem spec_push_clause_on_model : forall rk capN progs sched tr' rs' d',
  known_class (CThr capN progs sched) = None ->
  agrees rk (CThr capN progs sched) (OThr tr' rs' d') = true ->
  forallb (fun k => push_results_ok capN rs' (window (w_pushes (walk tr')) k) 0)
          (map N.of_nat (seq 0 (S (N.to_nat (w_now (walk tr')))))) = true.
Proof.
  intros rk capN progs sched tr' rs' d' HK HA.
  apply known_class_None_iff in HK.
  unfold agrees, run_case, run_thr in HA.
  pose proof (RW3_full_run (N.to_nat capN) progs (map N.to_nat sched) rr_fuel) as HR. cbv zeta in HR.
  destruct (exec_full step site rr_fuel (init_config (N.to_nat capN) progs) (map N.to_nat sched)) as [cf tr].
  cbn [fst snd] in *. cbn [agrees_out] in HA.
  apply andb_prop in HA as [HA _]. apply andb_prop in HA as [Htr Hrs].
  apply list_eqb_pair_eq in Htr. subst tr'.
  destruct HR as ((I3 & _ & _) & _ & HC). destruct (HC HK) as (_ & C2).
  pose proof I3 as ((HM & _) & _). cbn [fst snd] in *.
  apply forallb_forall. intros k _. apply push_results_ok_nth. intros i t j g' Hn.
  destruct (obs_at rs' t j) as [o|] eqn:O; [|exact I].
  unfold obs_at in O. apply nth_nth_error in O. destruct O as (os & Hos & Ho).
  destruct (all2_nth _ _ _ _ _ Hrs Hos) as (ms & Hms & Hm).
  apply nth_error_map_inv in Hms. destruct Hms as (x & Hx & ->).
  destruct (matches_nth rk _ _ _ _ Hm Ho) as (m & Hmm & Hmo).
  assert (Hmx : me x = t) by (rewrite (HM _ x Hx), N2Nat.id; reflexivity).
  pose proof (C2 k i t j g' Hn _ x m Hx Hmx Hmm) as Em. rewrite N2Nat.id in Em. subst m.
  destruct o as [p| | |]; cbn in Hmo; try discriminate.
  apply pres_eqb_eq in Hmo. subst p. rewrite N.add_0_l. apply pres_eqb_refl.
Qed.

(* threaded cases *)
Theorem spec_ok_on_model_thr : forall rk capN progs sched tr' rs' d',
  known_class (CThr capN progs sched) = None ->
  agrees rk (CThr capN progs sched) (OThr tr' rs' d') = true ->
  spec_ok rk (CThr capN progs sched) (OThr tr' rs' d') = true.
Proof.
  intros rk capN progs sched tr' rs' d' HK HA.
  destruct (spec_drain_clauses_on_model rk capN progs sched tr' rs' d' HK HA) as [H1 H2].
  pose proof (spec_push_clause_on_model rk capN progs sched tr' rs' d' HK HA) as H3.
  cbn [spec_ok]. unfold spec_thr. cbv zeta. rewrite H1, H2, H3. reflexivity.
Qed.

(* every case: an observation that agrees with the model's run of a case outside the open known
   class passes the executable form of the property *)
Theorem spec_ok_on_model : forall rk c o,
  known_class c = None -> agrees rk c o = true -> spec_ok rk c o = true.
Proof.
  intros rk [cap ops|cap progs sched] [os|tr rs d] HK HA.
  - apply spec_ok_on_model_seq. exact HA.
  - discriminate.
  - exfalso. unfold agrees, run_case, run_thr in HA.
    destruct (exec_full step site rr_fuel (init_config (N.to_nat cap) progs) (map N.to_nat sched)). discriminate.
  - apply spec_ok_on_model_thr; assumption.
Qed.

(* ---- the hypotheses are satisfiable on a racing case: capacity 1, two pushers whose fetch_adds
   cross the capacity boundary (the second one draws with bound 2), stores out of idx order, then a
   drain; observation = the model's own output with the rate slot ignored *)
Definition obs_of (m : mout) : obs :=
  match m with
  | MPush p => OPush p
  | MConsume d => OConsume (d_vals d) (d_len d) 0%Z
  | MEmpty b => OEmpty b
  end.
Definition out_of (m : MOUT) : OUT :=
  match m with
  | MSeq ms => OSeq (map obs_of ms)
  | MThr tr rs d _ => OThr tr (map (map obs_of) rs) d
  end.

Definition racing_case : case :=
  CThr 1 [[Push 10 0]; [Push 11 0]; [Consume None; IsEmpty]] [0; 0; 1; 1; 1; 0; 1; 0; 2; 2; 2; 2; 2; 2; 2].

Example racing_case_in_scope :
  known_class racing_case = None /\
  agrees (fun _ _ _ => true) racing_case (out_of (run_case racing_case)) = true /\
  spec_ok (fun _ _ _ => true) racing_case (out_of (run_case racing_case)) = true /\
  (exists tr rs, run_case racing_case = MThr tr rs true false /\
                 nth 0 rs [] = [MPush (PDraw 2)] /\ nth 1 rs [] = [MPush PFill] /\
                 In (MConsume {| d_vals := [10]; d_len := 1; d_unsampled := 2 |}) (nth 2 rs [])).
Proof. vm_compute. repeat split; try reflexivity. do 2 eexists. repeat split; auto. Qed.
