(* C16 — proofs about the interleaving machine of Conc.v.

   Proved here, for EVERY schedule, any number of threads and any per-thread programs:
   no push panics, and every drain reports len = min(count it read, capacity) and yields at most
   len values.  Also: the late-push pattern (known_class = Some 1) really breaks the accounting
   clause (concrete schedule, also replayed on the real code: corpus/C16/late-push-*.json).
   NOT proved (see Properties.v): that outside the late-push class the count a drain reads and the
   values it yields are exactly those of the pushes of its window.                              *)
From Coq Require Import List NArith Bool Arith Lia.
Import ListNotations.
Require Import MV.Common.Interleave MV.C16.Model MV.C16.Conc MV.C16.Spec MV.C16.Proofs.
Open Scope N_scope.

Definition dok (cap : N) (d : drained) : Prop :=
  d_len d = N.min (d_unsampled d) cap /\ N.of_nat (length (d_vals d)) <= d_len d.

Definition rok (cap : N) (x : mout) : Prop :=
  match x with
  | MConsume d => dok cap d
  | MPush (PPanic _) => False
  | _ => True
  end.

Definition pcok (cap : N) (p : pc) : Prop :=
  match p with
  | K8 _ _ n len take i acc _ _ => len = N.min n cap /\ take <= len /\ i < take /\ N.of_nat (length acc) = i
  | K9 _ _ n len acc _ _ => len = N.min n cap /\ N.of_nat (length acc) <= len
  | K10 _ d _ _ => dok cap d
  | _ => True
  end.

Definition lok (cap : N) (l : local) : Prop := pcok cap (pcl l) /\ Forall (rok cap) (results l).
Definition sok (cap : N) (s : shared) : Prop := capacity (res (sp s)) = cap /\ capacity (res (ss s)) = cap.

Lemma enter_ok cap m td rs : Forall (rok cap) rs -> lok cap (enter m td rs).
Proof. intros H. destruct td as [|[v c|k|] r]; cbn; split; cbn; auto. Qed.

Lemma side_cap cap s sd : sok cap s -> capacity (res (side s sd)) = cap.
Proof. intros [A B]. destruct sd; assumption. Qed.

Lemma set_side_ok cap s sd x : sok cap s -> capacity (res x) = cap -> sok cap (set_side s sd x).
Proof. intros [A B] C. destruct sd; split; cbn; assumption. Qed.

Lemma store_capacity r i v : capacity (store r i v) = capacity r.
Proof. unfold capacity, store. cbn. rewrite set_nth_length. reflexivity. Qed.

Lemma step_ok cap s l s' l' :
  sok cap s -> lok cap l -> step s l = Some (s', l') -> sok cap s' /\ lok cap l'.
Proof.
  intros Hs [Hp Hr] E. unfold step in E. destruct l as [m p td rs]. cbn [pcl me todo results] in *.
  destruct p; cbn [pcok] in Hp.
  - inversion E; subst s' l'. split; [exact Hs|apply enter_ok; exact Hr].
  - inversion E; subst s' l'. split; [|split; cbn; auto].
    apply set_side_ok; [exact Hs|]. cbn. apply (side_cap cap s (usep s) Hs).
  - inversion E; subst s' l'. split; [|split; cbn; auto].
    apply set_side_ok; [exact Hs|]. unfold capacity. cbn. apply (side_cap cap s sd Hs).
  - unfold store_step in E. pose proof (side_cap cap s sd Hs) as C.
    destruct (idx <? capacity (res (side s sd))).
    + inversion E; subst s' l'. split.
      * apply set_side_ok; [exact Hs|]. cbn [res]. rewrite store_capacity. exact C.
      * apply enter_ok. constructor; [cbn; auto|exact Hr].
    + destruct (c mod (idx + 1) <? capacity (res (side s sd))); inversion E; subst s' l'; (split;
        [apply set_side_ok; [exact Hs|cbn [res]; rewrite ?store_capacity; exact C]
        |apply enter_ok; constructor; [cbn; auto|exact Hr]]).
  - destruct (lock s); inversion E; subst s' l'; (split; [exact Hs|split; cbn; auto]).
  - inversion E; subst s' l'. split; [exact Hs|split; cbn; auto].
  - inversion E; subst s' l'. split; [exact Hs|split; cbn; auto].
  - inversion E; subst s' l'. split; [exact Hs|]. split; [|exact Hr]. cbn [goto pcl].
    rewrite (side_cap cap s up Hs).
    set (n := count (res (side s up))).
    assert (Hlen : (if cap <? n then cap else n) = N.min n cap).
    { destruct (cap <? n) eqn:Q; [apply N.ltb_lt in Q|apply N.ltb_ge in Q]; lia. }
    rewrite Hlen.
    set (take := match k with Some k' => N.min k' (N.min n cap) | None => N.min n cap end).
    assert (Ht : take <= N.min n cap) by (unfold take; destruct k; lia).
    destruct (take =? 0) eqn:Q; [apply N.eqb_eq in Q|apply N.eqb_neq in Q]; cbn [pcok length]; repeat split; auto; lia.
  - inversion E; subst s' l'. split; [exact Hs|]. split; [|exact Hr]. cbn [goto pcl].
    destruct Hp as (H1 & H2 & H3 & H4).
    destruct (i + 1 <? take) eqn:Q; [apply N.ltb_lt in Q|apply N.ltb_ge in Q]; cbn [pcok];
      rewrite app_length; cbn [length]; repeat split; auto; lia.
  - inversion E; subst s' l'. split.
    + apply set_side_ok; [exact Hs|]. unfold capacity. cbn. apply (side_cap cap s sd Hs).
    + split; [|exact Hr]. cbn. exact Hp.
  - inversion E; subst s' l'. split; [destruct Hs; split; assumption|]. apply enter_ok. constructor; [exact Hp|exact Hr].
  - inversion E; subst s' l'. split; [exact Hs|split; cbn; auto].
  - inversion E; subst s' l'. split; [exact Hs|]. apply enter_ok. constructor; [cbn; auto|exact Hr].
  - discriminate.
Qed.

Definition Inv (cap : N) (c : config) : Prop := sok cap (fst c) /\ Forall (lok cap) (snd c).

Lemma Inv_step cap : step_preserves step (Inv cap).
Proof.
  intros s ls t l s' l' [Hs Hl] Hn E. cbn [fst snd] in *.
  destruct (step_ok cap s l s' l' Hs (Forall_nth_error _ _ _ _ Hl Hn) E) as [A B].
  split; cbn [fst snd]; [exact A|]. apply Forall_upd; assumption.
Qed.

Lemma Inv_init cap ps : Inv (N.of_nat cap) (init_config cap ps).
Proof.
  split; cbn [fst snd init_config].
  - unfold sok, init_shared, side0, capacity, with_capacity. cbn. rewrite repeat_length. split; reflexivity.
  - generalize 0 as m. induction ps as [|p r IH]; intros m; cbn [init_locals]; constructor; [|apply IH].
    split; cbn; auto.
Qed.

(* every schedule, every number of threads, every program: no push panics; every completed drain
   reports len = min(count read, cap) and read at most len values *)
Theorem drains_well_formed_every_schedule : forall cap ps sched,
  let c := fst (exec step site (init_config cap ps) sched) in
  forall t l x, nth_error (snd c) t = Some l -> In x (results l) ->
    match x with
    | MConsume d => d_len d = N.min (d_unsampled d) (N.of_nat cap) /\ N.of_nat (length (d_vals d)) <= d_len d
    | MPush p => forall u, p <> PPanic u
    | MEmpty _ => True
    end.
Proof.
  intros cap ps sched c t l x Hn Hx.
  pose proof (invariant_all_schedules step site (Inv (N.of_nat cap)) (Inv_step _) sched _ (Inv_init cap ps)) as [_ H].
  fold c in H. pose proof (Forall_nth_error _ _ _ _ H Hn) as [_ Hr].
  rewrite Forall_forall in Hr. specialize (Hr x Hx). destruct x as [p|d|b]; cbn in Hr; auto.
  intros u ->. exact Hr.
Qed.
