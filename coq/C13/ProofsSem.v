(* C13 — the denotation of recorders: per-layer clauses, handles, stacks, and the equivalence
   between the model (sem/hsem) and the declarative reference semantics Den of Spec.v. *)
From Coq Require Import List NArith Bool Arith Lia.
Import ListNotations.
Require Import MV.C13.Model MV.C13.Spec MV.C13.ProofsStr MV.C13.ProofsRouter.

(* induction over recorder trees (nested through lists) *)
Section RecInd.
  Variable P : rec -> Prop.
  Hypothesis HL : forall id, P (Leaf id).
  Hypothesis HP : forall p r, P r -> P (Prefix p r).
  Hypothesis HF : forall pats ci dfa r, P r -> P (Filter pats ci dfa r).
  Hypothesis HR : forall d routes targets, P d -> Forall P targets -> P (Router d routes targets).
  Hypothesis HN : forall rs, Forall P rs -> P (Fanout rs).
  Fixpoint rec_ind2 (r : rec) : P r :=
    match r with
    | Leaf id => HL id
    | Prefix p r' => HP p r' (rec_ind2 r')
    | Filter pats ci dfa r' => HF pats ci dfa r' (rec_ind2 r')
    | Router d routes targets =>
        HR d routes targets (rec_ind2 d)
           ((fix go (l : list rec) : Forall P l :=
               match l with [] => Forall_nil P | x :: t => Forall_cons x (rec_ind2 x) (go t) end) targets)
    | Fanout rs =>
        HN rs ((fix go (l : list rec) : Forall P l :=
                  match l with [] => Forall_nil P | x :: t => Forall_cons x (rec_ind2 x) (go t) end) rs)
    end.
End RecInd.

(* ---- prefix *)
Lemma rename_fields o n : okind (rename o n) = okind o /\ oname (rename o n) = n /\ obody (rename o n) = obody o.
Proof. auto. Qed.

Lemma prefix_exact p r o :
  sem (Prefix p r) o = sem r (rename o (p ++ [46%N] ++ oname o)) /\
  hsem (Prefix p r) o = hsem r (rename o (p ++ [46%N] ++ oname o)).
Proof. split; reflexivity. Qed.

(* ---- filter *)
Lemma filter_exact pats ci dfa r o :
  (dropped pats ci (oname o) -> sem (Filter pats ci dfa r) o = [] /\ hsem (Filter pats ci dfa r) o = []) /\
  (~ dropped pats ci (oname o) ->
     sem (Filter pats ci dfa r) o = sem r o /\ hsem (Filter pats ci dfa r) o = hsem r o).
Proof.
  split; intros H.
  - apply should_filter_iff in H. simpl. rewrite H. auto.
  - apply should_filter_false_iff in H. simpl. rewrite H. auto.
Qed.

(* ---- router *)
Lemma nth_map_nth_error {A B} (f : A -> B) l i x d : nth_error l i = Some x -> nth i (map f l) d = f x.
Proof.
  revert i. induction l as [|a l IH]; intros [|i] H; simpl in *; try discriminate.
  - inversion H; reflexivity.
  - apply IH. exact H.
Qed.

Lemma router_routed d routes targets o i t :
  chosen routes (okind o) (oname o) i -> nth_error targets i = Some t ->
  sem (Router d routes targets) o = sem t o /\ hsem (Router d routes targets) o = hsem t o.
Proof.
  intros Hc Ht. apply route_some in Hc. simpl. rewrite Hc.
  split; [apply (nth_map_nth_error (fun t => sem t o)) | apply (nth_map_nth_error (fun t => hsem t o))]; exact Ht.
Qed.
Lemma router_default d routes targets o :
  (forall i p, ~ candidate routes (okind o) (oname o) i p) ->
  sem (Router d routes targets) o = sem d o /\ hsem (Router d routes targets) o = hsem d o.
Proof. intros H. apply route_none in H. simpl. rewrite H. auto. Qed.

(* ---- fanout *)
Lemma join_fan parts : forall off,
  join off parts = map (Nat.add off) (fan (map (fun p => (length (fst p), snd p)) parts)).
Proof.
  induction parts as [|[ds h] r IH]; intros off; simpl; auto.
  rewrite map_app, IH, !map_map. f_equal. apply map_ext. intros x. lia.
Qed.
Lemma join0_fan parts : join 0 parts = fan (map (fun p => (length (fst p), snd p)) parts).
Proof. rewrite join_fan. simpl. apply map_id. Qed.

Lemma fanout_sem rs o :
  sem (Fanout rs) o = concat (map (fun r => sem r o) rs) /\
  hsem (Fanout rs) o = join 0 (map (fun r => (sem r o, hsem r o)) rs).
Proof.
  split.
  - simpl. apply flat_map_concat_map.
  - rewrite join0_fan, map_map. reflexivity.
Qed.

(* ---- a handle reaches each leaf handle created by the registration exactly once, in call order *)
Lemma map_add_seq n m : forall s, map (Nat.add n) (seq s m) = seq (n + s) m.
Proof. induction m as [|m IH]; intros s; simpl; auto. rewrite IH. f_equal. f_equal. lia. Qed.

Lemma fan_seq {A} (f : A -> nat) (l : list A) :
  fan (map (fun x => (f x, seq 0 (f x))) l) = seq 0 (list_sum (map f l)).
Proof.
  induction l as [|x l IH]; simpl; auto.
  rewrite IH, map_add_seq, seq_app. simpl. rewrite Nat.add_0_r. reflexivity.
Qed.
Lemma length_flat_map {A B} (f : A -> list B) l : length (flat_map f l) = list_sum (map (fun x => length (f x)) l).
Proof. induction l; simpl; auto. rewrite app_length, IHl. reflexivity. Qed.

Lemma nth_in_or_default' {A} (l : list A) i d (P : A -> Prop) : Forall P l -> P d -> P (nth i l d).
Proof.
  intros Hl Hd. destruct (nth_in_or_default i l d) as [H|H].
  - rewrite Forall_forall in Hl. auto.
  - rewrite H. exact Hd.
Qed.

Lemma handle_exact r : forall o, hsem r o = seq 0 (length (sem r o)).
Proof.
  induction r as [id|p r IH|pats ci dfa r IH|d routes targets IHd IHt|rs IH] using rec_ind2; intros o.
  - reflexivity.
  - simpl. apply IH.
  - simpl. destruct (should_filter pats ci (oname o)); auto.
  - simpl. destruct (route (build routes 0 tries0) (okind o) (oname o)) as [i|]; auto.
    destruct (nth_error targets i) as [t|] eqn:E.
    + rewrite (nth_map_nth_error (fun t => hsem t o) _ _ _ _ E), (nth_map_nth_error (fun t => sem t o) _ _ _ _ E).
      rewrite Forall_forall in IHt. apply IHt. eapply nth_error_In; eauto.
    + apply nth_error_None in E. rewrite !nth_overflow by (rewrite map_length; exact E). apply IHd.
  - simpl. rewrite length_flat_map.
    rewrite <- (fan_seq (fun r' => length (sem r' o)) rs). f_equal.
    apply map_ext_in. intros r' Hin. rewrite Forall_forall in IH. rewrite (IH r' Hin o). reflexivity.
Qed.

(* ---- stacks *)
Definition layer_ops (l : layer) (o : op) : list op :=
  match l with
  | LPrefix p => [rename o (p ++ [46%N] ++ oname o)]
  | LFilter pats ci _ => if should_filter pats ci (oname o) then [] else [o]
  end.
(* the operations that reach the base of Stack::new(base).push(l1)...push(ln): the operation
   meets the layer pushed last first *)
Fixpoint through (ls : list layer) (o : op) : list op :=
  match ls with
  | [] => [o]
  | l :: ls' => flat_map (layer_ops l) (through ls' o)
  end.

Lemma push_sem s l o :
  sem (push s l) o = flat_map (sem s) (layer_ops l o) /\ hsem (push s l) o = flat_map (hsem s) (layer_ops l o).
Proof.
  destruct l as [p|pats ci dfa]; simpl.
  - rewrite !app_nil_r. auto.
  - destruct (should_filter pats ci (oname o)); simpl; rewrite ?app_nil_r; auto.
Qed.

Lemma flat_map_flat_map {A B C} (f : B -> list C) (g : A -> list B) l :
  flat_map f (flat_map g l) = flat_map (fun x => flat_map f (g x)) l.
Proof. induction l; simpl; auto. rewrite flat_map_app, IHl. reflexivity. Qed.

Lemma stack_snoc base ls l : stack base (ls ++ [l]) = push (stack base ls) l.
Proof. unfold stack. rewrite fold_left_app. reflexivity. Qed.

Lemma through_at_most_one ls : forall o, length (through ls o) <= 1.
Proof.
  induction ls as [|l ls IH]; intros o; simpl; auto.
  specialize (IH o). destruct (through ls o) as [|o' [|]]; simpl in *; try lia.
  rewrite app_nil_r. destruct l; simpl; auto. destruct (should_filter pats ci (oname o')); simpl; auto.
Qed.

Lemma stack_is_composition ls : forall base o,
  sem (stack base ls) o = flat_map (sem base) (through ls o) /\
  hsem (stack base ls) o = flat_map (hsem base) (through ls o).
Proof.
  induction ls as [|l ls IH]; intros base o.
  - simpl. rewrite !app_nil_r. auto.
  - change (stack base (l :: ls)) with (stack (push base l) ls).
    destruct (IH (push base l) o) as [H1 H2]. rewrite H1, H2. simpl.
    rewrite !flat_map_flat_map. split; apply flat_map_ext; intros o'; apply push_sem.
Qed.

(* ---- model <-> declarative reference semantics *)
Lemma spec_determines_model_all :
  (forall r o ds h, Den r o ds h -> ds = sem r o /\ h = hsem r o) /\
  (forall rs o parts, DenAll rs o parts -> parts = map (fun r => (sem r o, hsem r o)) rs).
Proof.
  apply Den_DenAll_ind.
  - intros. auto.
  - intros p r o ds h _ [-> ->]. auto.
  - intros pats ci dfa r o Hd. destruct (filter_exact pats ci dfa r o) as [H _]. destruct (H Hd) as [-> ->]. auto.
  - intros pats ci dfa r o ds h Hd _ [-> ->]. destruct (filter_exact pats ci dfa r o) as [_ H].
    destruct (H Hd) as [-> ->]. auto.
  - intros d routes targets o i t ds h Hc Ht _ [-> ->].
    destruct (router_routed d routes targets o i t Hc Ht) as [-> ->]. auto.
  - intros d routes targets o ds h Hn _ [-> ->].
    destruct (router_default d routes targets o Hn) as [-> ->]. auto.
  - intros rs o parts _ ->. destruct (fanout_sem rs o) as [-> ->]. rewrite map_map. auto.
  - reflexivity.
  - intros r rs o ds h parts _ [-> ->] _ ->. reflexivity.
Qed.

Lemma spec_determines_model r o ds h : Den r o ds h -> ds = sem r o /\ h = hsem r o.
Proof. apply spec_determines_model_all. Qed.

Lemma wf_inv_router d routes targets :
  wf (Router d routes targets) -> wf d /\ length routes = length targets /\ Forall wf targets.
Proof. intros H. inversion H; subst. auto. Qed.

Lemma model_meets_spec r : wf r -> forall o, Den r o (sem r o) (hsem r o).
Proof.
  induction r as [id|p r IH|pats ci dfa r IH|d routes targets IHd IHt|rs IH] using rec_ind2; intros Hwf o.
  - constructor.
  - inversion Hwf; subst. constructor. apply IH. assumption.
  - inversion Hwf; subst. destruct (should_filter pats ci (oname o)) eqn:E.
    + simpl. rewrite E. constructor. apply should_filter_iff. exact E.
    + simpl. rewrite E. constructor; [apply should_filter_false_iff; exact E|]. apply IH. assumption.
  - apply wf_inv_router in Hwf as [Hd [Hlen Ht]].
    destruct (chosen_or_none routes (okind o) (oname o)) as [[i Hc]|Hn].
    + pose proof (chosen_lt_length _ _ _ _ Hc) as Hlt.
      destruct (nth_error targets i) as [t|] eqn:E; [|apply nth_error_None in E; lia].
      destruct (router_routed d routes targets o i t Hc E) as [-> ->].
      eapply DRouterRoute; eauto.
      rewrite Forall_forall in IHt, Ht. apply nth_error_In in E. apply IHt; auto.
    + destruct (router_default d routes targets o Hn) as [-> ->].
      apply DRouterDefault; auto.
  - inversion Hwf; subst. destruct (fanout_sem rs o) as [-> ->].
    assert (Hall : DenAll rs o (map (fun r => (sem r o, hsem r o)) rs)).
    { clear Hwf. induction rs as [|r rs IHrs]; simpl; constructor.
      - inversion IH; subst. inversion H0; subst. apply H2. assumption.
      - inversion IH; subst. inversion H0; subst. apply IHrs; assumption. }
    pose proof (DFanout rs o _ Hall) as HD. rewrite map_map in HD. simpl in HD. exact HD.
Qed.

Lemma den_iff r o ds h : wf r -> (Den r o ds h <-> ds = sem r o /\ h = hsem r o).
Proof.
  intros Hwf. split.
  - apply spec_determines_model.
  - intros [-> ->]. apply model_meets_spec. exact Hwf.
Qed.
