(* C13 — property theorems (statements only; proofs are in ProofsStr / ProofsRouter / ProofsSem /
   ExecProofs / Clauses).

   Reading guide.  A recorder is a tree [rec] (Leaf id | Prefix | Filter | Router | Fanout; a Stack
   is [stack base layers]).  [sem r o] are the leaf calls (leaf id, operation) recorder r makes for
   the describe/register operation o, in order; [hsem r o] are the positions (in [sem r o]) of the
   leaf handles that one update through the handle returned by r reaches, in order.  [Den] is the
   declarative reference semantics of Spec.v (substring / longest covering prefix / all-once,
   written with exists/forall), [case_spec] lifts it to a whole case, [spec_ok] is what the run
   evaluates on the implementation's logs.                                                     *)
From Coq Require Import List NArith Bool Arith.
Import ListNotations.
Require Import MV.C13.Model MV.C13.Spec MV.C13.Exec MV.C13.ProofsStr MV.C13.ProofsRouter MV.C13.ProofsSem MV.C13.ExecProofs MV.C13.Clauses.

Theorem C13_model_meets_spec : forall r, wf r -> forall o, Den r o (sem r o) (hsem r o).
Proof. exact model_meets_spec. Qed.

Theorem C13_spec_determines_model : forall r o ds h, Den r o ds h -> ds = sem r o /\ h = hsem r o.
Proof. exact spec_determines_model. Qed.

Theorem C13_spec_ok_on_model : forall c, wfb (fst c) = true -> spec_ok c (run_case c) = true.
Proof. exact spec_ok_on_model. Qed.

Theorem C13_spec_ok_iff : forall c o,
  spec_ok c o = true <-> wf (fst c) /\ exists l, o = Some l /\ case_spec (fst c) (snd c) l.
Proof. exact spec_ok_iff. Qed.

Theorem C13_wfb_iff : forall r, wfb r = true <-> wf r.
Proof. exact wfb_iff. Qed.

Theorem C13_prefix_exact : forall p r o,
  let o' := {| okind := okind o; oname := p ++ [46%N] ++ oname o; obody := obody o |} in
  sem (Prefix p r) o = sem r o' /\ hsem (Prefix p r) o = hsem r o' /\
  (forall ds h, Den (Prefix p r) o ds h <-> Den r o' ds h).
Proof. exact prefix_exact_full. Qed.

Theorem C13_filter_exact : forall pats ci dfa r o,
  ((exists pat pre suf, In pat pats /\ folded ci (oname o) = pre ++ folded ci pat ++ suf) ->
     sem (Filter pats ci dfa r) o = [] /\ hsem (Filter pats ci dfa r) o = [] /\
     forall us, run_op (Filter pats ci dfa r) (o, us) = []) /\
  (~ (exists pat pre suf, In pat pats /\ folded ci (oname o) = pre ++ folded ci pat ++ suf) ->
     sem (Filter pats ci dfa r) o = sem r o /\ hsem (Filter pats ci dfa r) o = hsem r o /\
     forall us, run_op (Filter pats ci dfa r) (o, us) = run_op r (o, us)).
Proof. exact filter_exact_full. Qed.

Theorem C13_filter_case_sensitive_drops_iff_substring : forall pats name,
  dropped pats false name <-> exists pat pre suf, In pat pats /\ name = pre ++ pat ++ suf.
Proof. exact dropped_case_sensitive. Qed.

Theorem C13_filter_case_insensitive_drops_iff_substring_up_to_ascii_case : forall pats name,
  dropped pats true name <->
  exists pat pre mid suf, In pat pats /\ name = pre ++ mid ++ suf /\
    Forall2 (fun a b => a = b \/ (65 <= a <= 90 /\ b = a + 32) \/ (65 <= b <= 90 /\ a = b + 32))%N pat mid.
Proof. exact dropped_case_insensitive. Qed.

Theorem C13_case_folding_is_ascii_only : forall c,
  lower c = ascii_lower c /\ ascii_lower c = (if ((65 <=? c) && (c <=? 90))%N then c + 32 else c)%N.
Proof. exact ascii_fold_only. Qed.

Theorem C13_router_exactly_one_longest_prefix : forall routes targets d o,
  length routes = length targets ->
  (exists i t, chosen routes (okind o) (oname o) i /\ nth_error targets i = Some t /\
               sem (Router d routes targets) o = sem t o /\ hsem (Router d routes targets) o = hsem t o /\
               forall j, chosen routes (okind o) (oname o) j -> j = i)
  \/ ((forall i p, ~ candidate routes (okind o) (oname o) i p) /\
      sem (Router d routes targets) o = sem d o /\ hsem (Router d routes targets) o = hsem d o).
Proof. exact router_exactly_one. Qed.

Theorem C13_chosen_means_longest_covering_prefix : forall routes k name i,
  chosen routes k name i <->
  exists p m, nth_error routes i = Some (m, p) /\ mask_covers m k /\ (exists suf, name = p ++ suf) /\
    forall j q m', nth_error routes j = Some (m', q) -> mask_covers m' k -> (exists suf, name = q ++ suf) ->
                   length q <= length p /\ (length q = length p -> j <= i).
Proof. exact chosen_unfold. Qed.

Theorem C13_candidate_means_covering_prefix : forall routes k name i p,
  candidate routes k name i p <->
  exists m, nth_error routes i = Some (m, p) /\ mask_covers m k /\ exists suf, name = p ++ suf.
Proof. exact candidate_unfold. Qed.

Theorem C13_longest_route_unique : forall routes k name i j,
  chosen routes k name i -> chosen routes k name j -> i = j.
Proof. exact chosen_unique. Qed.

Theorem C13_route_lookup_exact : forall routes k name,
  (forall i, route (build routes 0 tries0) k name = Some i <-> chosen routes k name i) /\
  (route (build routes 0 tries0) k name = None <-> forall i p, ~ candidate routes k name i p).
Proof. exact route_lookup_exact. Qed.

Theorem C13_global_mask_redundant : forall routes k name,
  route (build routes 0 tries0) k name = get_ancestor (trie_for (build routes 0 tries0) k) name.
Proof. exact global_mask_redundant. Qed.

Theorem C13_fanout_all_once : forall rs o,
  sem (Fanout rs) o = concat (map (fun r => sem r o) rs) /\
  hsem (Fanout rs) o = join 0 (map (fun r => (sem r o, hsem r o)) rs) /\
  hsem (Fanout rs) o = seq 0 (length (sem (Fanout rs) o)).
Proof. exact fanout_all_once. Qed.

Theorem C13_handle_reaches_each_created_handle_once : forall r o, hsem r o = seq 0 (length (sem r o)).
Proof. exact handle_exact. Qed.

Theorem C13_register_then_update_events : forall r o us, is_reg o = true ->
  run_op r (o, us) =
  map (fun d => EOp (fst d) (snd d)) (sem r o) ++
  flat_map (fun cv => map (fun j => EUpd (fst (nth j (sem r o) (0%N, o))) (N.of_nat j) (fst cv) (snd cv))
                          (seq 0 (length (sem r o))))
           (flat_map expand us).
Proof. exact register_events. Qed.

Theorem C13_record_many_is_n_records : forall v n, expand (UMany v n) = repeat (5%N, v) (N.to_nat n).
Proof. exact record_many_is_n_records. Qed.

Theorem C13_stack_is_composition : forall ls base o,
  sem (stack base ls) o = flat_map (sem base) (through ls o) /\
  hsem (stack base ls) o = flat_map (hsem base) (through ls o).
Proof. exact stack_is_composition. Qed.

Theorem C13_stack_push_order : forall base ls l o,
  stack base (ls ++ [l]) = push (stack base ls) l /\
  sem (push (stack base ls) l) o = flat_map (sem (stack base ls)) (layer_ops l o) /\
  hsem (push (stack base ls) l) o = flat_map (hsem (stack base ls)) (layer_ops l o).
Proof. exact stack_push_order. Qed.

Theorem C13_infix_iff : forall p s, infixb p s = true <-> exists pre suf, s = pre ++ p ++ suf.
Proof. exact infixb_iff. Qed.

Theorem C13_prefix_iff : forall p s, prefixb p s = true <-> exists suf, s = p ++ suf.
Proof. exact prefixb_iff. Qed.

Theorem C13_prefix_order :
  (forall s, is_prefix s s) /\
  (forall a b c, is_prefix a b -> is_prefix b c -> is_prefix a c) /\
  (forall a b, is_prefix a b -> is_prefix b a -> a = b) /\
  (forall p q s, is_prefix p s -> is_prefix q s -> is_prefix p q \/ is_prefix q p) /\
  (forall p q s, is_prefix p s -> is_prefix q s -> length p = length q -> p = q).
Proof. exact prefix_order. Qed.
