(* C13 — executable entry points used by the correspondence check (cases.v). *)
From Coq Require Import List NArith Bool Arith.
Import ListNotations.
Require Export MV.C13.Model MV.C13.Spec.

Definition case := (rec * list (op * list uop))%type.
(* per operation the events logged by the leaf doubles; None = the implementation panicked *)
Definition OUT := option (list (list event)).

Definition run_case (c : case) : OUT := Some (map (run_op (fst c)) (snd c)).

Definition kind_eq_dec : forall a b : kind, {a = b} + {a <> b}.
Proof. decide equality. Defined.
Definition str_eq_dec : forall a b : str, {a = b} + {a <> b} := list_eq_dec N.eq_dec.
Definition meta_eq_dec : forall a b : meta, {a = b} + {a <> b}.
Proof. decide equality; try apply N.eq_dec; try apply str_eq_dec. decide equality; apply str_eq_dec. Defined.
Definition body_eq_dec : forall a b : body, {a = b} + {a <> b}.
Proof.
  decide equality; try apply str_eq_dec; try apply meta_eq_dec.
  - decide equality; apply N.eq_dec.
  - apply list_eq_dec. decide equality; apply str_eq_dec.
Defined.
Definition op_eq_dec : forall a b : op, {a = b} + {a <> b}.
Proof. decide equality; [apply body_eq_dec | apply str_eq_dec | apply kind_eq_dec]. Defined.
Definition event_eq_dec : forall a b : event, {a = b} + {a <> b}.
Proof. decide equality; try apply N.eq_dec; apply op_eq_dec. Defined.
Definition out_eq_dec : forall a b : OUT, {a = b} + {a <> b}.
Proof. decide equality. apply list_eq_dec. apply list_eq_dec. apply event_eq_dec. Defined.

Definition out_eqb (a b : OUT) : bool := if out_eq_dec a b then true else false.

(* every router has one target per route *)
Fixpoint wfb (r : rec) : bool :=
  match r with
  | Leaf _ => true
  | Prefix _ r' => wfb r'
  | Filter _ _ _ r' => wfb r'
  | Router d routes targets => wfb d && (length routes =? length targets) && forallb wfb targets
  | Fanout rs => forallb wfb rs
  end.

(* The property in executable form, evaluated on an observed output.  The specification is the
   declarative [case_spec] of Spec.v; the model is proved to compute exactly the output it
   determines (ExecProofs.spec_ok_iff: spec_ok c o = true <-> wf (fst c) /\ o = Some l /\ case_spec .. l),
   so comparing with the model's output decides the specification. *)
Definition spec_ok (c : case) (o : OUT) : bool := wfb (fst c) && out_eqb (run_case c) o.
Definition known_class (c : case) : option N := None.

Definition verdicts (l : list (N * case * OUT)) : list (N * bool * bool * option N) :=
  map (fun '(i, c, o) => (i, out_eqb (run_case c) o, spec_ok c o, known_class c)) l.
