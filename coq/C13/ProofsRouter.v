(* C13 — router: the per-kind tables built by add_route and the longest-stored-prefix walk select
   exactly the route [chosen] of Spec.v; the global-mask short-circuit is redundant. *)
From Coq Require Import List NArith Bool Arith Lia.
Import ListNotations.
Require Import MV.C13.Model MV.C13.Spec MV.C13.ProofsStr.

(* ---- tables *)
Lemma tfind_tremove_other p q t : p <> q -> tfind p (tremove q t) = tfind p t.
Proof.
  intros Hne. induction t as [|[q' v] t IH]; simpl; auto.
  destruct (str_eqb q q') eqn:E.
  - apply str_eqb_eq in E. subst q'. rewrite IH.
    apply str_eqb_neq in Hne. rewrite Hne. reflexivity.
  - simpl. rewrite IH. reflexivity.
Qed.
Lemma tfind_tinsert p q v t : tfind p (tinsert q v t) = if str_eqb p q then Some v else tfind p t.
Proof.
  unfold tinsert. simpl. destruct (str_eqb p q) eqn:E; auto.
  apply tfind_tremove_other. apply str_eqb_neq. exact E.
Qed.

Lemma tfind_add_route ts m q idx k p :
  tfind p (trie_for (add_route ts m q idx) k) =
  if covers m k && str_eqb p q then Some idx else tfind p (trie_for ts k).
Proof.
  destruct m, k; unfold add_route, trie_for; cbn [t_counter t_gauge t_histogram]; rewrite ?tfind_tinsert; reflexivity.
Qed.

(* the last route (in add order) with exactly this pattern that covers the kind *)
Fixpoint last_match (routes : list (mask * str)) (k : kind) (p : str) : option nat :=
  match routes with
  | [] => None
  | (m, q) :: r =>
      match last_match r k p with
      | Some j => Some (S j)
      | None => if covers m k && str_eqb p q then Some 0 else None
      end
  end.

Lemma tfind_build routes k p : forall idx ts,
  tfind p (trie_for (build routes idx ts) k) =
  match last_match routes k p with Some j => Some (idx + j) | None => tfind p (trie_for ts k) end.
Proof.
  induction routes as [|[m q] r IH]; intros idx ts; simpl; auto.
  rewrite IH. destruct (last_match r k p) as [j|].
  - f_equal. lia.
  - rewrite tfind_add_route. destruct (covers m k && str_eqb p q); auto; try (f_equal; lia).
Qed.

Lemma last_match_sound routes k p : forall i,
  last_match routes k p = Some i -> exists m, nth_error routes i = Some (m, p) /\ covers m k = true.
Proof.
  induction routes as [|[m q] r IH]; intros i; simpl; [discriminate|].
  destruct (last_match r k p) as [j0|].
  - intros H. inversion H; subst. simpl. apply IH. reflexivity.
  - destruct (covers m k && str_eqb p q) eqn:Eb; [|discriminate].
    intros H. inversion H; subst. apply andb_prop in Eb as [Eb1 Eb2]. apply str_eqb_eq in Eb2. subst.
    exists m. simpl. auto.
Qed.

Lemma last_match_none routes k p :
  last_match routes k p = None <-> (forall j m, nth_error routes j = Some (m, p) -> covers m k = false).
Proof.
  induction routes as [|[m q] r IH]; simpl.
  - split; auto. intros _ j m H. destruct j; discriminate.
  - destruct (last_match r k p) as [j0|] eqn:E.
    + split; [discriminate|]. intros H. exfalso.
      destruct (last_match_sound r k p j0 E) as [m0 [H1 H2]].
      rewrite (H (S j0) m0 H1) in H2. discriminate.
    + destruct (covers m k && str_eqb p q) eqn:Eb.
      * split; [discriminate|]. intros H. exfalso.
        apply andb_prop in Eb as [Eb1 Eb2]. apply str_eqb_eq in Eb2. subst.
        rewrite (H 0 m eq_refl) in Eb1. discriminate.
      * split; auto. intros _ j m' Hn. destruct j; simpl in Hn.
        -- inversion Hn; subst. rewrite str_eqb_refl, andb_true_r in Eb. exact Eb.
        -- apply (proj1 IH eq_refl j m' Hn).
Qed.

Lemma last_match_some routes k p : forall i,
  last_match routes k p = Some i <->
  (exists m, nth_error routes i = Some (m, p) /\ covers m k = true) /\
  (forall j m, i < j -> nth_error routes j = Some (m, p) -> covers m k = false).
Proof.
  induction routes as [|[m q] r IH]; intros i; simpl.
  - split; [discriminate|]. intros [[m [H _]] _]. destruct i; discriminate.
  - destruct (last_match r k p) as [j0|] eqn:E.
    + split.
      * intros H. inversion H; subst i. destruct (proj1 (IH j0) eq_refl) as [[m0 [H1 H2]] H3]. split.
        -- exists m0. simpl. auto.
        -- intros j m' Hj Hn. destruct j; [lia|]. simpl in Hn. apply (H3 j m'); auto. lia.
      * intros [[m0 [H1 H2]] H3]. destruct i as [|i].
        -- exfalso. destruct (proj1 (IH j0) eq_refl) as [[m1 [H4 H5]] _].
           rewrite (H3 (S j0) m1) in H5; [discriminate|lia|exact H4].
        -- f_equal. simpl in H1.
           assert (Hi : Some j0 = Some i); [|inversion Hi; reflexivity].
           apply IH. split; [exists m0; auto|]. intros j m' Hj Hn. apply (H3 (S j) m'); [lia|exact Hn].
    + pose proof (proj1 (last_match_none r k p) E) as Hnone.
      destruct (covers m k && str_eqb p q) eqn:Eb.
      * apply andb_prop in Eb as [Eb1 Eb2]. apply str_eqb_eq in Eb2. subst q. split.
        -- intros H. inversion H; subst i. split; [exists m; simpl; auto|].
           intros j m' Hj Hn. destruct j; [lia|]. simpl in Hn. eapply Hnone; eauto.
        -- intros [[m0 [H1 H2]] _]. destruct i; auto. simpl in H1. rewrite (Hnone _ _ H1) in H2. discriminate.
      * split; [discriminate|]. intros [[m0 [H1 H2]] _]. destruct i; simpl in H1.
        -- inversion H1; subst. rewrite H2, str_eqb_refl in Eb. discriminate.
        -- rewrite (Hnone _ _ H1) in H2. discriminate.
Qed.

(* ---- the walk (stand-in for get_ancestor) *)
Lemma is_prefix_nil_inv q : is_prefix q [] -> q = [].
Proof. intros [x H]. symmetry in H. apply app_eq_nil in H. tauto. Qed.
Lemma is_prefix_cons_inv q c r : is_prefix q (c :: r) -> q = [] \/ exists q', q = c :: q' /\ is_prefix q' r.
Proof.
  intros [x H]. destruct q as [|b q]; auto. right. inversion H; subst. exists q. split; auto. exists x. reflexivity.
Qed.
Lemma is_prefix_cons c q r : is_prefix q r -> is_prefix (c :: q) (c :: r).
Proof. intros [x H]. exists x. subst. reflexivity. Qed.
Lemma app_snoc_cons (s : str) c q : (s ++ [c]) ++ q = s ++ c :: q.
Proof. rewrite <- app_assoc. reflexivity. Qed.

Lemma walk_none t rest : forall seen anc,
  walk t seen rest anc = None <->
  anc = None /\ forall q, is_prefix q rest -> tfind (seen ++ q) t = None.
Proof.
  induction rest as [|c r IH]; intros seen anc.
  - simpl. destruct (tfind seen t) eqn:E.
    + split; [discriminate|]. intros [_ H]. specialize (H [] (is_prefix_nil _)). rewrite app_nil_r in H. congruence.
    + split.
      * intros ->. split; auto. intros q Hq. apply is_prefix_nil_inv in Hq. subst. rewrite app_nil_r. exact E.
      * tauto.
  - cbn [walk]. rewrite IH. split.
    + intros [H1 H2]. destruct (tfind seen t) eqn:E; [discriminate|]. split; auto.
      intros q Hq. apply is_prefix_cons_inv in Hq as [->|[q' [-> Hq']]].
      * rewrite app_nil_r. exact E.
      * rewrite <- app_snoc_cons. apply H2. exact Hq'.
    + intros [-> H2]. split.
      * specialize (H2 [] (is_prefix_nil _)). rewrite app_nil_r in H2. rewrite H2. reflexivity.
      * intros q Hq. rewrite app_snoc_cons. apply H2. apply is_prefix_cons. exact Hq.
Qed.

Lemma walk_some t rest v : forall seen anc,
  walk t seen rest anc = Some v <->
  (exists q, is_prefix q rest /\ tfind (seen ++ q) t = Some v /\
             forall q', is_prefix q' rest -> length q < length q' -> tfind (seen ++ q') t = None)
  \/ (anc = Some v /\ forall q', is_prefix q' rest -> tfind (seen ++ q') t = None).
Proof.
  induction rest as [|c r IH]; intros seen anc.
  - simpl. destruct (tfind seen t) eqn:E.
    + split.
      * intros H. inversion H; subst. left. exists []. split; [apply is_prefix_nil|]. rewrite app_nil_r. split; auto.
        intros q' Hq' Hl. apply is_prefix_nil_inv in Hq'. subst. simpl in Hl. lia.
      * intros [[q [Hq [Hf _]]]|[_ H]].
        -- apply is_prefix_nil_inv in Hq. subst. rewrite app_nil_r in Hf. congruence.
        -- specialize (H [] (is_prefix_nil _)). rewrite app_nil_r in H. congruence.
    + split.
      * intros ->. right. split; auto. intros q Hq. apply is_prefix_nil_inv in Hq. subst. rewrite app_nil_r. exact E.
      * intros [[q [Hq [Hf _]]]|[H _]]; auto.
        apply is_prefix_nil_inv in Hq. subst. rewrite app_nil_r in Hf. congruence.
  - cbn [walk]. rewrite IH. split.
    + intros [[q [Hq [Hf Hl]]]|[Ha Hn]].
      * left. exists (c :: q). split; [apply is_prefix_cons; exact Hq|]. rewrite <- app_snoc_cons. split; auto.
        intros q' Hq' Hlen. apply is_prefix_cons_inv in Hq' as [->|[q'' [-> Hq'']]]; [simpl in Hlen; lia|].
        rewrite <- app_snoc_cons. apply Hl; auto. simpl in Hlen. lia.
      * destruct (tfind seen t) eqn:E.
        -- inversion Ha; subst. left. exists []. split; [apply is_prefix_nil|]. rewrite app_nil_r. split; auto.
           intros q' Hq' Hlen. apply is_prefix_cons_inv in Hq' as [->|[q'' [-> Hq'']]]; [simpl in Hlen; lia|].
           rewrite <- app_snoc_cons. apply Hn. exact Hq''.
        -- right. split; auto. intros q' Hq'. apply is_prefix_cons_inv in Hq' as [->|[q'' [-> Hq'']]].
           ++ rewrite app_nil_r. exact E.
           ++ rewrite <- app_snoc_cons. apply Hn. exact Hq''.
    + intros [[q [Hq [Hf Hl]]]|[Ha Hn]].
      * apply is_prefix_cons_inv in Hq as [->|[q'' [-> Hq'']]].
        -- right. rewrite app_nil_r in Hf. rewrite Hf. split; auto.
           intros q' Hq'. rewrite app_snoc_cons. apply Hl; [apply is_prefix_cons; exact Hq'|simpl; lia].
        -- left. exists q''. split; auto. rewrite app_snoc_cons. split; auto.
           intros q' Hq' Hlen. rewrite app_snoc_cons. apply Hl; [apply is_prefix_cons; exact Hq'|simpl; lia].
      * right. split.
        -- specialize (Hn [] (is_prefix_nil _)). rewrite app_nil_r in Hn. rewrite Hn. exact Ha.
        -- intros q' Hq'. rewrite app_snoc_cons. apply Hn. apply is_prefix_cons. exact Hq'.
Qed.

Lemma get_ancestor_some t name v :
  get_ancestor t name = Some v <->
  exists q, is_prefix q name /\ tfind q t = Some v /\
            forall q', is_prefix q' name -> length q < length q' -> tfind q' t = None.
Proof.
  unfold get_ancestor. rewrite walk_some. simpl. split.
  - intros [H|[H _]]; [exact H|discriminate].
  - intros H. left. exact H.
Qed.
Lemma get_ancestor_none t name :
  get_ancestor t name = None <-> forall q, is_prefix q name -> tfind q t = None.
Proof. unfold get_ancestor. rewrite walk_none. simpl. tauto. Qed.

(* ---- the tables of a built router *)
Lemma tfind_built routes k p :
  tfind p (trie_for (build routes 0 tries0) k) = last_match routes k p.
Proof.
  rewrite tfind_build. destruct (last_match routes k p); auto. destruct k; reflexivity.
Qed.

Lemma candidate_covers routes k name i p :
  candidate routes k name i p <-> is_prefix p name /\ exists m, nth_error routes i = Some (m, p) /\ covers m k = true.
Proof.
  unfold candidate. split.
  - intros [m [H1 [H2 H3]]]. split; auto. exists m. split; auto. apply covers_iff. exact H2.
  - intros [H3 [m [H1 H2]]]. exists m. split; auto. split; auto. apply covers_iff. exact H2.
Qed.

Lemma lookup_some routes k name i :
  get_ancestor (trie_for (build routes 0 tries0) k) name = Some i <-> chosen routes k name i.
Proof.
  rewrite get_ancestor_some. split.
  - intros [q [Hq [Hf Hl]]]. rewrite tfind_built in Hf. apply last_match_some in Hf as [[m [H1 H2]] H3].
    exists q. split.
    + apply candidate_covers. split; auto. exists m. auto.
    + intros j q' Hc. apply candidate_covers in Hc as [Hq' [m' [H4 H5]]].
      destruct (le_lt_dec (length q') (length q)) as [L|L].
      * split; auto. intros El. assert (q' = q) by (eapply is_prefix_same_length; eauto). subst q'.
        destruct (le_lt_dec j i) as [L2|L2]; auto. rewrite (H3 j m' L2 H4) in H5. discriminate.
      * exfalso. specialize (Hl q' Hq' L). rewrite tfind_built in Hl.
        rewrite (proj1 (last_match_none routes k q') Hl j m' H4) in H5. discriminate.
  - intros [p [Hc Hbest]]. pose proof Hc as Hc0. apply candidate_covers in Hc as [Hp [m [H1 H2]]].
    exists p. split; auto. split.
    + rewrite tfind_built. apply last_match_some. split; [exists m; auto|].
      intros j m' Hlt Hn. destruct (covers m' k) eqn:Ec; auto. exfalso.
      assert (Hcj : candidate routes k name j p) by (apply candidate_covers; split; auto; exists m'; auto).
      destruct (Hbest j p Hcj) as [_ Hle]. specialize (Hle eq_refl). lia.
    + intros q' Hq' Hlen. rewrite tfind_built. apply last_match_none. intros j m' Hn.
      destruct (covers m' k) eqn:Ec; auto. exfalso.
      assert (Hcj : candidate routes k name j q') by (apply candidate_covers; split; auto; exists m'; auto).
      destruct (Hbest j q' Hcj) as [Hle _]. lia.
Qed.

Lemma lookup_none routes k name :
  get_ancestor (trie_for (build routes 0 tries0) k) name = None <->
  forall i p, ~ candidate routes k name i p.
Proof.
  rewrite get_ancestor_none. split.
  - intros H i p Hc. apply candidate_covers in Hc as [Hp [m [H1 H2]]].
    specialize (H p Hp). rewrite tfind_built in H.
    rewrite (proj1 (last_match_none routes k p) H i m H1) in H2. discriminate.
  - intros H q Hq. rewrite tfind_built. apply last_match_none. intros j m Hn.
    destruct (covers m k) eqn:Ec; auto. exfalso. apply (H j q). apply candidate_covers. split; auto. exists m. auto.
Qed.

(* ---- the global mask *)
Lemma matches_lor a b k : matches (N.lor a b) k = matches a k || matches b k.
Proof.
  unfold matches. rewrite N.land_lor_distr_l.
  destruct (N.land a (kind_bit k) =? 0)%N eqn:Ea, (N.land b (kind_bit k) =? 0)%N eqn:Eb; simpl;
    rewrite ?N.eqb_eq, ?N.eqb_neq in *.
  - apply negb_false_iff. apply N.eqb_eq. apply N.lor_eq_0_iff. auto.
  - apply negb_true_iff. apply N.eqb_neq. intros H. apply N.lor_eq_0_iff in H. tauto.
  - apply negb_true_iff. apply N.eqb_neq. intros H. apply N.lor_eq_0_iff in H. tauto.
  - apply negb_true_iff. apply N.eqb_neq. intros H. apply N.lor_eq_0_iff in H. tauto.
Qed.

Lemma gmask_add_route ts m p idx : gmask (add_route ts m p idx) = N.lor (gmask ts) (mask_bits m).
Proof. destruct m; reflexivity. Qed.

Lemma gmask_build routes k : forall idx ts,
  matches (gmask (build routes idx ts)) k = matches (gmask ts) k || existsb (fun mp => covers (fst mp) k) routes.
Proof.
  induction routes as [|[m p] r IH]; intros idx ts; simpl.
  - rewrite orb_false_r. reflexivity.
  - rewrite IH, gmask_add_route, matches_lor. unfold covers. rewrite orb_assoc. reflexivity.
Qed.

(* "If it doesn't match our metric, we know for a fact there's no route": the short-circuit never
   changes the result *)
Lemma global_mask_redundant routes k name :
  route (build routes 0 tries0) k name = get_ancestor (trie_for (build routes 0 tries0) k) name.
Proof.
  unfold route. destruct (matches (gmask (build routes 0 tries0)) k) eqn:E; auto. simpl.
  symmetry. apply lookup_none. intros i p Hc. apply candidate_covers in Hc as [_ [m [H1 H2]]].
  rewrite gmask_build in E. apply orb_false_elim in E as [_ E].
  assert (Hex : existsb (fun mp => covers (fst mp) k) routes = true); [|congruence].
  apply existsb_exists. exists (m, p). split; auto. eapply nth_error_In; eauto.
Qed.

Lemma route_some routes k name i :
  route (build routes 0 tries0) k name = Some i <-> chosen routes k name i.
Proof. rewrite global_mask_redundant. apply lookup_some. Qed.
Lemma route_none routes k name :
  route (build routes 0 tries0) k name = None <-> forall i p, ~ candidate routes k name i p.
Proof. rewrite global_mask_redundant. apply lookup_none. Qed.

(* uniqueness of the chosen route *)
Lemma chosen_unique routes k name i j : chosen routes k name i -> chosen routes k name j -> i = j.
Proof. intros Hi Hj. apply route_some in Hi, Hj. congruence. Qed.

Lemma chosen_lt_length routes k name i : chosen routes k name i -> i < length routes.
Proof. intros [p [[m [H _]] _]]. apply nth_error_Some. congruence. Qed.

Lemma chosen_or_none routes k name :
  (exists i, chosen routes k name i) \/ (forall i p, ~ candidate routes k name i p).
Proof.
  destruct (route (build routes 0 tries0) k name) as [i|] eqn:E.
  - left. exists i. apply route_some. exact E.
  - right. apply route_none. exact E.
Qed.
