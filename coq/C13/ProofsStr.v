(* C13 — string lemmas: the boolean tests of the model decide the declarative notions of Spec.v. *)
From Coq Require Import List NArith Bool Arith Lia.
Import ListNotations.
Require Import MV.C13.Model MV.C13.Spec.

Lemma str_eqb_eq a : forall b, str_eqb a b = true <-> a = b.
Proof.
  induction a as [|x a IH]; intros [|y b]; simpl; split; intros H; try discriminate; auto.
  - apply andb_prop in H as [H1 H2]. apply N.eqb_eq in H1. apply IH in H2. subst. reflexivity.
  - inversion H; subst. rewrite N.eqb_refl. simpl. apply IH. reflexivity.
Qed.
Lemma str_eqb_refl a : str_eqb a a = true.
Proof. apply str_eqb_eq. reflexivity. Qed.
Lemma str_eqb_neq a b : str_eqb a b = false <-> a <> b.
Proof.
  split; intros H.
  - intros E. apply str_eqb_eq in E. congruence.
  - destruct (str_eqb a b) eqn:E; auto. apply str_eqb_eq in E. contradiction.
Qed.

(* ---- prefix *)
Lemma prefixb_iff p : forall s, prefixb p s = true <-> is_prefix p s.
Proof.
  induction p as [|a p IH]; intros s; simpl.
  - split; auto. intros _. exists s. reflexivity.
  - destruct s as [|b s].
    + split; [discriminate|]. intros [suf H]. discriminate.
    + split.
      * intros H. apply andb_prop in H as [H1 H2]. apply N.eqb_eq in H1. apply IH in H2 as [suf H2].
        exists suf. subst. reflexivity.
      * intros [suf H]. inversion H; subst. rewrite N.eqb_refl. simpl. apply IH. exists suf. reflexivity.
Qed.

Lemma is_prefix_refl s : is_prefix s s.
Proof. exists []. symmetry. apply app_nil_r. Qed.
Lemma is_prefix_nil s : is_prefix [] s.
Proof. exists s. reflexivity. Qed.
Lemma is_prefix_trans a b c : is_prefix a b -> is_prefix b c -> is_prefix a c.
Proof. intros [x H1] [y H2]. subst. exists (x ++ y). symmetry. apply app_assoc. Qed.
Lemma is_prefix_length p s : is_prefix p s -> length p <= length s.
Proof. intros [x H]. subst. rewrite app_length. lia. Qed.
Lemma is_prefix_antisym a b : is_prefix a b -> is_prefix b a -> a = b.
Proof.
  intros [x H1] [y H2]. subst b. rewrite <- app_assoc in H2.
  rewrite <- (app_nil_r a) in H2 at 1. apply app_inv_head in H2.
  symmetry in H2. apply app_eq_nil in H2 as [-> _]. symmetry. apply app_nil_r.
Qed.
(* the prefixes of one string are totally ordered by length *)
Lemma is_prefix_comparable p : forall q s, is_prefix p s -> is_prefix q s -> length p <= length q -> is_prefix p q.
Proof.
  induction p as [|a p IH]; intros q s Hp Hq Hl.
  - apply is_prefix_nil.
  - destruct q as [|b q]; simpl in Hl; [lia|].
    destruct Hp as [x Hp], Hq as [y Hq]. subst s. inversion Hq; subst.
    destruct (IH q (p ++ x)) as [z Hz].
    + exists x. reflexivity.
    + exists y. assumption.
    + lia.
    + exists z. simpl. f_equal. assumption.
Qed.
Lemma is_prefix_same_length p q s : is_prefix p s -> is_prefix q s -> length p = length q -> p = q.
Proof.
  intros Hp Hq Hl. apply is_prefix_antisym; eapply is_prefix_comparable; eauto; lia.
Qed.
Lemma is_prefix_app_inv a b s : is_prefix (a ++ b) (a ++ s) <-> is_prefix b s.
Proof.
  split; intros [x H].
  - rewrite <- app_assoc in H. apply app_inv_head in H. exists x. assumption.
  - exists x. subst. apply app_assoc.
Qed.
Lemma is_prefix_snoc_or p c s : is_prefix p (s ++ [c]) -> is_prefix p s \/ p = s ++ [c].
Proof.
  intros H. destruct (le_lt_dec (length p) (length s)) as [L|L].
  - left. eapply is_prefix_comparable; eauto. exists [c]. reflexivity.
  - right. apply is_prefix_antisym; auto.
    eapply is_prefix_comparable; [apply is_prefix_refl| exact H |].
    apply is_prefix_length in H. rewrite app_length in *. simpl in *. lia.
Qed.

(* ---- infix *)
Lemma infixb_iff p : forall s, infixb p s = true <-> is_infix p s.
Proof.
  intros s. induction s as [|b s IH].
  - simpl. rewrite orb_false_r. rewrite prefixb_iff. split.
    + intros [suf H]. exists [], suf. exact H.
    + intros [pre [suf H]]. destruct pre; [|discriminate]. exists suf. exact H.
  - cbn [infixb]. rewrite orb_true_iff, prefixb_iff, IH. split.
    + intros [[suf H]|[pre [suf H]]].
      * exists [], suf. exact H.
      * exists (b :: pre), suf. simpl. f_equal. exact H.
    + intros [pre [suf H]]. destruct pre as [|c pre].
      * left. exists suf. exact H.
      * right. inversion H; subst. exists pre, suf. reflexivity.
Qed.

Lemma is_infix_refl s : is_infix s s.
Proof. exists [], []. simpl. symmetry. apply app_nil_r. Qed.
Lemma is_infix_nil s : is_infix [] s.
Proof. exists [], s. reflexivity. Qed.
Lemma is_prefix_infix p s : is_prefix p s -> is_infix p s.
Proof. intros [suf H]. exists [], suf. exact H. Qed.
Lemma is_infix_length p s : is_infix p s -> length p <= length s.
Proof. intros [a [b H]]. subst. rewrite !app_length. lia. Qed.

(* ---- case folding *)
Lemma upper_case_iff c : existsb (N.eqb c) upper_case_letters = ((65 <=? c) && (c <=? 90))%N.
Proof.
  apply eq_true_iff_eq. rewrite existsb_exists, andb_true_iff, !N.leb_le. split.
  - intros [x [Hin E]]. apply N.eqb_eq in E. subst x. unfold upper_case_letters in Hin. simpl in Hin. lia.
  - intros H. exists c. rewrite N.eqb_refl. split; auto. unfold upper_case_letters. simpl. lia.
Qed.
Lemma lower_ascii_lower c : lower c = ascii_lower c.
Proof. unfold lower, ascii_lower. rewrite upper_case_iff. reflexivity. Qed.

Lemma fold_case_folded ci s : fold_case ci s = folded ci s.
Proof.
  unfold fold_case, folded. destruct ci; auto. apply map_ext. apply lower_ascii_lower.
Qed.

(* ---- filter.rs: should_filter decides [dropped] *)
Lemma should_filter_iff pats ci name : should_filter pats ci name = true <-> dropped pats ci name.
Proof.
  unfold should_filter, dropped. rewrite existsb_exists. split.
  - intros [p [Hin H]]. exists p. split; auto. apply infixb_iff in H. rewrite !fold_case_folded in H. exact H.
  - intros [p [Hin H]]. exists p. split; auto. apply infixb_iff. rewrite !fold_case_folded. exact H.
Qed.
Lemma should_filter_false_iff pats ci name : should_filter pats ci name = false <-> ~ dropped pats ci name.
Proof.
  rewrite <- should_filter_iff. destruct (should_filter pats ci name); split; intros H; congruence.
Qed.

(* ---- kind.rs: MetricKindMask::matches on the masks add_route accepts *)
Lemma covers_iff m k : covers m k = true <-> mask_covers m k.
Proof. destruct m, k; simpl; split; intros H; auto; try discriminate; try contradiction. Qed.
