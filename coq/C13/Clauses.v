(* C13 — the clauses of the property in the form stated in Properties.v (quantifiers unfolded). *)
From Coq Require Import List NArith Bool Arith Lia.
Import ListNotations.
Require Import MV.C13.Model MV.C13.Spec MV.C13.ProofsStr MV.C13.ProofsRouter MV.C13.ProofsSem MV.C13.Exec MV.C13.ExecProofs.

Lemma dropped_unfold pats ci name :
  dropped pats ci name <-> exists pat pre suf, In pat pats /\ folded ci name = pre ++ folded ci pat ++ suf.
Proof.
  unfold dropped, is_infix. split.
  - intros [pat [H [pre [suf E]]]]. exists pat, pre, suf. auto.
  - intros [pat [pre [suf [H E]]]]. exists pat. split; auto. exists pre, suf. exact E.
Qed.

Lemma prefix_exact_full p r o :
  let o' := {| okind := okind o; oname := p ++ [46%N] ++ oname o; obody := obody o |} in
  sem (Prefix p r) o = sem r o' /\ hsem (Prefix p r) o = hsem r o' /\
  (forall ds h, Den (Prefix p r) o ds h <-> Den r o' ds h).
Proof.
  simpl. repeat split; try reflexivity.
  - intros H. inversion H; subst. assumption.
  - intros H. constructor. exact H.
Qed.

Lemma filter_exact_full pats ci dfa r o :
  ((exists pat pre suf, In pat pats /\ folded ci (oname o) = pre ++ folded ci pat ++ suf) ->
     sem (Filter pats ci dfa r) o = [] /\ hsem (Filter pats ci dfa r) o = [] /\
     forall us, run_op (Filter pats ci dfa r) (o, us) = []) /\
  (~ (exists pat pre suf, In pat pats /\ folded ci (oname o) = pre ++ folded ci pat ++ suf) ->
     sem (Filter pats ci dfa r) o = sem r o /\ hsem (Filter pats ci dfa r) o = hsem r o /\
     forall us, run_op (Filter pats ci dfa r) (o, us) = run_op r (o, us)).
Proof.
  rewrite <- dropped_unfold. destruct (filter_exact pats ci dfa r o) as [H1 H2]. split; intros H.
  - destruct (H1 H) as [A B]. repeat split; auto. intros us. apply filtered_register_inert. exact H.
  - destruct (H2 H) as [A B]. repeat split; auto. intros us. unfold run_op. simpl fst. simpl snd. rewrite A, B. reflexivity.
Qed.

Lemma candidate_unfold routes k name i p :
  candidate routes k name i p <-> exists m, nth_error routes i = Some (m, p) /\ mask_covers m k /\ exists suf, name = p ++ suf.
Proof. reflexivity. Qed.

Lemma router_exactly_one routes targets d o :
  length routes = length targets ->
  (exists i t, chosen routes (okind o) (oname o) i /\ nth_error targets i = Some t /\
               sem (Router d routes targets) o = sem t o /\ hsem (Router d routes targets) o = hsem t o /\
               forall j, chosen routes (okind o) (oname o) j -> j = i)
  \/ ((forall i p, ~ candidate routes (okind o) (oname o) i p) /\
      sem (Router d routes targets) o = sem d o /\ hsem (Router d routes targets) o = hsem d o).
Proof.
  intros Hlen. destruct (chosen_or_none routes (okind o) (oname o)) as [[i Hc]|Hn].
  - left. pose proof (chosen_lt_length _ _ _ _ Hc) as Hlt.
    destruct (nth_error targets i) as [t|] eqn:E; [|apply nth_error_None in E; lia].
    destruct (router_routed d routes targets o i t Hc E) as [A B].
    exists i, t. repeat split; auto. intros j Hj. eapply chosen_unique; eauto.
  - right. destruct (router_default d routes targets o Hn) as [A B]. auto.
Qed.

Lemma chosen_unfold routes k name i :
  chosen routes k name i <->
  exists p m, nth_error routes i = Some (m, p) /\ mask_covers m k /\ (exists suf, name = p ++ suf) /\
    forall j q m', nth_error routes j = Some (m', q) -> mask_covers m' k -> (exists suf, name = q ++ suf) ->
                   length q <= length p /\ (length q = length p -> j <= i).
Proof.
  unfold chosen, candidate, is_prefix. split.
  - intros [p [[m [H1 [H2 H3]]] H4]]. exists p, m. repeat split; auto; apply (H4 j q); exists m'; auto.
  - intros [p [m [H1 [H2 [H3 H4]]]]]. exists p. split; [exists m; auto|].
    intros j q [m' [A [B C]]]. apply (H4 j q m'); auto.
Qed.

Lemma fanout_all_once rs o :
  sem (Fanout rs) o = concat (map (fun r => sem r o) rs) /\
  hsem (Fanout rs) o = join 0 (map (fun r => (sem r o, hsem r o)) rs) /\
  hsem (Fanout rs) o = seq 0 (length (sem (Fanout rs) o)).
Proof. destruct (fanout_sem rs o) as [A B]. repeat split; auto. apply handle_exact. Qed.

Lemma join_all_once parts :
  (forall p, In p parts -> snd p = seq 0 (length (fst p))) ->
  forall off, join off parts = seq off (length (concat (map fst parts))).
Proof.
  induction parts as [|[ds h] r IH]; intros H off; simpl; auto.
  pose proof (H (ds, h) (or_introl eq_refl)) as Hh. simpl in Hh. subst h.
  rewrite app_length, seq_app, IH by (intros p Hp; apply H; right; exact Hp).
  f_equal. change (fun j => off + j) with (Nat.add off). rewrite map_add_seq, Nat.add_0_r. reflexivity.
Qed.

Lemma prefix_order :
  (forall s, is_prefix s s) /\
  (forall a b c, is_prefix a b -> is_prefix b c -> is_prefix a c) /\
  (forall a b, is_prefix a b -> is_prefix b a -> a = b) /\
  (forall p q s, is_prefix p s -> is_prefix q s -> is_prefix p q \/ is_prefix q p) /\
  (forall p q s, is_prefix p s -> is_prefix q s -> length p = length q -> p = q).
Proof.
  repeat split.
  - apply is_prefix_refl.
  - apply is_prefix_trans.
  - apply is_prefix_antisym.
  - intros p q s Hp Hq. destruct (le_lt_dec (length p) (length q)).
    + left. eapply is_prefix_comparable; eauto.
    + right. eapply is_prefix_comparable; eauto. lia.
  - apply is_prefix_same_length.
Qed.

Lemma ascii_fold_only c :
  lower c = ascii_lower c /\ ascii_lower c = (if ((65 <=? c) && (c <=? 90))%N then c + 32 else c)%N.
Proof. split; [apply lower_ascii_lower|]. rewrite <- lower_ascii_lower. reflexivity. Qed.

Lemma stack_push_order base ls l o :
  stack base (ls ++ [l]) = push (stack base ls) l /\
  sem (push (stack base ls) l) o = flat_map (sem (stack base ls)) (layer_ops l o) /\
  hsem (push (stack base ls) l) o = flat_map (hsem (stack base ls)) (layer_ops l o).
Proof. split; [apply stack_snoc|apply push_sem]. Qed.

(* a non-trivial concrete case: router (nested, duplicated, per-kind routes) under a stack with a
   case-insensitive filter and a prefix, fanned out twice to a shared leaf *)
Definition example_case : case :=
  (stack (Router (Leaf 0) [(MAll, [97]); (MCounter, [97; 46]); (MAll, [97]); (MGauge, [])]
                 [Leaf 1; Fanout [Leaf 2; Leaf 2]; Leaf 3; Leaf 4])%N
         [LPrefix [97]%N; LFilter [[88]%N] true false],
   [({| okind := Counter; oname := [98]; obody := BReg [] {| m_target := []; m_level := 2; m_module := None |} |}, [U 0 7; U 1 9]);
    ({| okind := Histogram; oname := [120; 98]; obody := BReg [] {| m_target := []; m_level := 2; m_module := None |} |}, [U 5 1]);
    ({| okind := Gauge; oname := []; obody := BDesc (Some 3) [100] |}, [])])%N.

Example example_case_ok :
  wfb (fst example_case) = true /\ spec_ok example_case (run_case example_case) = true /\
  run_case example_case = Some
   [[EOp 2 {| okind := Counter; oname := [97; 46; 98]; obody := BReg [] {| m_target := []; m_level := 2; m_module := None |} |};
     EOp 2 {| okind := Counter; oname := [97; 46; 98]; obody := BReg [] {| m_target := []; m_level := 2; m_module := None |} |};
     EUpd 2 0 0 7; EUpd 2 1 0 7; EUpd 2 0 1 9; EUpd 2 1 1 9];
    [];
    [EOp 3 {| okind := Gauge; oname := [97; 46]; obody := BDesc (Some 3) [100] |}]]%N.
Proof. vm_compute. repeat split. Qed.

Lemma route_lookup_exact routes k name :
  (forall i, route (build routes 0 tries0) k name = Some i <-> chosen routes k name i) /\
  (route (build routes 0 tries0) k name = None <-> forall i p, ~ candidate routes k name i p).
Proof. split; [intros i; apply route_some | apply route_none]. Qed.

(* case-insensitive occurrence stated without any folding function: the name contains a block
   that equals the pattern up to the case of ASCII letters *)
Definition same_letter (a b : N) : Prop :=
  (a = b \/ (65 <= a <= 90 /\ b = a + 32) \/ (65 <= b <= 90 /\ a = b + 32))%N.

Lemma ascii_lower_eq_iff a b : ascii_lower a = ascii_lower b <-> same_letter a b.
Proof.
  destruct (ascii_fold_only a) as [_ ->]. destruct (ascii_fold_only b) as [_ ->]. unfold same_letter.
  destruct ((65 <=? a) && (a <=? 90))%N eqn:Ea, ((65 <=? b) && (b <=? 90))%N eqn:Eb;
    rewrite ?andb_true_iff, ?andb_false_iff, ?N.leb_le, ?N.leb_gt in *; lia.
Qed.

Lemma map_ascii_lower_eq_iff a : forall b, map ascii_lower a = map ascii_lower b <-> Forall2 same_letter a b.
Proof.
  induction a as [|x a IH]; intros [|y b]; simpl; split; intros H; try discriminate; try constructor;
    try (inversion H; fail).
  - inversion H. apply ascii_lower_eq_iff. assumption.
  - inversion H. apply IH. assumption.
  - inversion H; subst. f_equal; [apply ascii_lower_eq_iff; assumption | apply IH; assumption].
Qed.

Lemma dropped_case_insensitive pats name :
  dropped pats true name <->
  exists pat pre mid suf, In pat pats /\ name = pre ++ mid ++ suf /\ Forall2 same_letter pat mid.
Proof.
  rewrite dropped_unfold. unfold folded. split.
  - intros [pat [pre [suf [Hin E]]]].
    apply map_eq_app in E as [l1 [l2 [-> [E1 E2]]]]. apply map_eq_app in E2 as [l3 [l4 [-> [E3 E4]]]].
    exists pat, l1, l3, l4. repeat split; auto. apply map_ascii_lower_eq_iff. symmetry. exact E3.
  - intros [pat [pre [mid [suf [Hin [-> Hs]]]]]]. exists pat, (map ascii_lower pre), (map ascii_lower suf).
    split; auto. rewrite !map_app. f_equal. f_equal. symmetry. apply map_ascii_lower_eq_iff. exact Hs.
Qed.

Lemma dropped_case_sensitive pats name :
  dropped pats false name <-> exists pat pre suf, In pat pats /\ name = pre ++ pat ++ suf.
Proof. rewrite dropped_unfold. reflexivity. Qed.
