(* C13 — the executable check used on implementation outputs decides the declarative case_spec. *)
From Coq Require Import List NArith Bool Arith Lia.
Import ListNotations.
Require Import MV.C13.Model MV.C13.Spec MV.C13.ProofsStr MV.C13.ProofsRouter MV.C13.ProofsSem MV.C13.Exec.

Lemma out_eqb_iff a b : out_eqb a b = true <-> a = b.
Proof. unfold out_eqb. destruct (out_eq_dec a b); split; intros; congruence. Qed.

Lemma wfb_iff r : wfb r = true <-> wf r.
Proof.
  induction r as [id|p r IH|pats ci dfa r IH|d routes targets IHd IHt|rs IH] using rec_ind2; simpl.
  - split; auto. constructor.
  - rewrite IH. split; intros H; [constructor; auto|inversion H; auto].
  - rewrite IH. split; intros H; [constructor; auto|inversion H; auto].
  - rewrite !andb_true_iff, Nat.eqb_eq, forallb_forall, IHd. rewrite Forall_forall in IHt. split.
    + intros [[H1 H2] H3]. constructor; auto. apply Forall_forall. intros x Hx. apply IHt; auto.
    + intros H. apply wf_inv_router in H as [H1 [H2 H3]]. rewrite Forall_forall in H3.
      repeat split; auto. intros x Hx. apply IHt; auto.
  - rewrite forallb_forall. rewrite Forall_forall in IH. split.
    + intros H. constructor. apply Forall_forall. intros x Hx. apply IH; auto.
    + intros H. inversion H as [| | | |rs' H1]; subst. rewrite Forall_forall in H1. intros x Hx. apply IH; auto.
Qed.

Lemma Forall2_fun {A B} (f : A -> B) l1 : forall l2, Forall2 (fun x y => y = f x) l1 l2 <-> l2 = map f l1.
Proof.
  induction l1 as [|x l1 IH]; intros l2; split; intros H.
  - inversion H. reflexivity.
  - subst. constructor.
  - inversion H; subst. simpl. f_equal. apply IH. assumption.
  - subst. simpl. constructor; auto. apply IH. reflexivity.
Qed.

Lemma Forall2_iff {A B} (P Q : A -> B -> Prop) l1 l2 :
  (forall x y, P x y <-> Q x y) -> (Forall2 P l1 l2 <-> Forall2 Q l1 l2).
Proof.
  intros H. split; intros F; induction F; constructor; auto; apply H; auto.
Qed.

Lemma case_spec_iff r ops l : wf r -> (case_spec r ops l <-> l = map (run_op r) ops).
Proof.
  intros Hwf. unfold case_spec. rewrite <- Forall2_fun. apply Forall2_iff. intros ou evs. split.
  - intros [ds [h [HD ->]]]. apply spec_determines_model in HD as [-> ->]. reflexivity.
  - intros ->. exists (sem r (fst ou)), (hsem r (fst ou)). split; [apply model_meets_spec; exact Hwf|reflexivity].
Qed.

Lemma spec_ok_iff c o :
  spec_ok c o = true <-> wf (fst c) /\ exists l, o = Some l /\ case_spec (fst c) (snd c) l.
Proof.
  unfold spec_ok. rewrite andb_true_iff, wfb_iff, out_eqb_iff. unfold run_case. split.
  - intros [Hwf <-]. split; auto. eexists. split; [reflexivity|]. apply case_spec_iff; auto.
  - intros [Hwf [l [-> Hs]]]. split; auto. f_equal. symmetry. apply case_spec_iff; auto.
Qed.

Lemma spec_ok_on_model c : wfb (fst c) = true -> spec_ok c (run_case c) = true.
Proof. intros H. unfold spec_ok. rewrite H. simpl. apply out_eqb_iff. reflexivity. Qed.

(* what the leaves log for a registration followed by updates: every update call, in order, is
   seen once by each leaf handle the registration created, in creation order *)
Lemma register_events r o us : is_reg o = true ->
  run_op r (o, us) =
  map (fun d => EOp (fst d) (snd d)) (sem r o) ++
  flat_map (fun cv => map (fun j => EUpd (fst (nth j (sem r o) (0%N, o))) (N.of_nat j) (fst cv) (snd cv))
                          (seq 0 (length (sem r o))))
           (flat_map expand us).
Proof. intros H. unfold run_op, events_of. simpl. rewrite H, handle_exact. reflexivity. Qed.

Lemma describe_events r o us : is_reg o = false ->
  run_op r (o, us) = map (fun d => EOp (fst d) (snd d)) (sem r o).
Proof. intros H. unfold run_op, events_of. simpl. rewrite H. apply app_nil_r. Qed.

(* a register dropped by a filter yields the inert handle: no leaf sees anything *)
Lemma filtered_register_inert pats ci dfa r o us :
  dropped pats ci (oname o) -> run_op (Filter pats ci dfa r) (o, us) = [].
Proof.
  intros H. destruct (filter_exact pats ci dfa r o) as [Hd _]. destruct (Hd H) as [H1 H2].
  unfold run_op, events_of. simpl fst. simpl snd. rewrite H1, H2. simpl.
  destruct (is_reg o); auto. induction (flat_map expand us); simpl; auto.
Qed.

Lemma record_many_is_n_records v n : expand (UMany v n) = repeat (5%N, v) (N.to_nat n).
Proof. reflexivity. Qed.
