(* C13 — the property, written declaratively and independently of the model's functions
   (Model.v is imported for the data types [rec], [op], [event] and the log format [events_of]
   only; none of sem/hsem/infixb/prefixb/walk/build/route is mentioned here).

   [Den r o ds h]: "recorder r, given operation o, makes exactly the leaf calls ds (in order), and
   an update through the handle it returns reaches exactly the leaf handles at positions h of ds
   (in order)".  The clauses are the sentences of the property:
     prefix  - the inner recorder sees the operation renamed <prefix>.<name>, nothing else changed;
     filter  - dropped (nobody is called, the handle reaches nobody) exactly when some pattern
               occurs in the name, both ASCII-lower-cased when case-insensitive; else unchanged;
     router  - exactly one recipient: the target of the route that covers the kind and is the
               longest prefix of the name (the latest added among equal patterns); the default
               when no covering route is a prefix;
     fanout  - every recorder, in order; the handle reaches every inner handle exactly once.    *)
From Coq Require Import List NArith Bool Arith.
Import ListNotations.
Require Import MV.C13.Model.

Definition is_prefix (p s : str) : Prop := exists suf, s = p ++ suf.
Definition is_infix (p s : str) : Prop := exists pre suf, s = pre ++ p ++ suf.

(* ASCII-only lower-casing (what aho-corasick's ascii_case_insensitive provides) *)
Definition upper_case_letters : list N :=   (* 'A' .. 'Z' *)
  [65; 66; 67; 68; 69; 70; 71; 72; 73; 74; 75; 76; 77; 78; 79; 80; 81; 82; 83; 84; 85; 86; 87; 88; 89; 90]%N.
Definition ascii_lower (c : N) : N :=
  if existsb (N.eqb c) upper_case_letters then (c + 32)%N else c.
Definition folded (ci : bool) (s : str) : str := if ci then map ascii_lower s else s.

Definition dropped (pats : list str) (ci : bool) (name : str) : Prop :=
  exists pat, In pat pats /\ is_infix (folded ci pat) (folded ci name).

Definition mask_covers (m : mask) (k : kind) : Prop :=
  match m, k with
  | MAll, _ | MCounter, Counter | MGauge, Gauge | MHistogram, Histogram => True
  | _, _ => False
  end.

(* route number i (in add order) applies to this kind and name *)
Definition candidate (routes : list (mask * str)) (k : kind) (name : str) (i : nat) (p : str) : Prop :=
  exists m, nth_error routes i = Some (m, p) /\ mask_covers m k /\ is_prefix p name.

(* ... and no applicable route is longer, nor an equally long one added later *)
Definition chosen (routes : list (mask * str)) (k : kind) (name : str) (i : nat) : Prop :=
  exists p, candidate routes k name i p /\
    forall j q, candidate routes k name j q -> length q <= length p /\ (length q = length p -> j <= i).

(* the handle of a fanout: every inner handle once, positions offset by the calls that precede *)
Fixpoint join (off : nat) (parts : list (list delivery * list nat)) : list nat :=
  match parts with
  | [] => []
  | (ds, h) :: r => map (fun j => off + j) h ++ join (off + length ds) r
  end.

Inductive Den : rec -> op -> list delivery -> list nat -> Prop :=
| DLeaf id o : Den (Leaf id) o [(id, o)] [0]
| DPrefix p r o ds h :
    Den r (rename o (p ++ [46%N] ++ oname o)) ds h -> Den (Prefix p r) o ds h
| DFilterDrop pats ci dfa r o :
    dropped pats ci (oname o) -> Den (Filter pats ci dfa r) o [] []
| DFilterPass pats ci dfa r o ds h :
    ~ dropped pats ci (oname o) -> Den r o ds h -> Den (Filter pats ci dfa r) o ds h
| DRouterRoute d routes targets o i t ds h :
    chosen routes (okind o) (oname o) i -> nth_error targets i = Some t -> Den t o ds h ->
    Den (Router d routes targets) o ds h
| DRouterDefault d routes targets o ds h :
    (forall i p, ~ candidate routes (okind o) (oname o) i p) -> Den d o ds h ->
    Den (Router d routes targets) o ds h
| DFanout rs o parts :
    DenAll rs o parts -> Den (Fanout rs) o (concat (map fst parts)) (join 0 parts)
with DenAll : list rec -> op -> list (list delivery * list nat) -> Prop :=
| DNil o : DenAll [] o []
| DCons r rs o ds h parts : Den r o ds h -> DenAll rs o parts -> DenAll (r :: rs) o ((ds, h) :: parts).

Scheme Den_mind := Minimality for Den Sort Prop
  with DenAll_mind := Minimality for DenAll Sort Prop.
Combined Scheme Den_DenAll_ind from Den_mind, DenAll_mind.

(* a router is well formed when every route has its target (add_route pushes both) *)
Inductive wf : rec -> Prop :=
| WLeaf id : wf (Leaf id)
| WPrefix p r : wf r -> wf (Prefix p r)
| WFilter pats ci dfa r : wf r -> wf (Filter pats ci dfa r)
| WRouter d routes targets : wf d -> length routes = length targets -> Forall wf targets ->
    wf (Router d routes targets)
| WFanout rs : Forall wf rs -> wf (Fanout rs).

(* the whole case: per operation, what the leaves log *)
Definition case_spec (r : rec) (ops : list (op * list uop)) (out : list (list event)) : Prop :=
  Forall2 (fun ou evs => exists ds h, Den r (fst ou) ds h /\ evs = events_of ds h (fst ou) (snd ou)) ops out.
