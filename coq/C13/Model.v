(* C13 — model of metrics-util/src/layers/{prefix,filter,router,fanout,mod}.rs and kind.rs.

   A recorder is a tree [rec]; its denotation on one describe/register operation is
     [sem r o]  : which leaf recorders receive which operation, in call order, and
     [hsem r o] : for a register operation, which of the leaf handles created by those deliveries
                  (by position in [sem r o]) one update through the returned handle reaches, in
                  call order.
   Modelled statement by statement: Prefix::prefix_key/prefix_key_name and the six Recorder
   methods of Prefix; Filter::should_filter and the early returns (Counter::noop() = the handle
   that reaches nobody); RouterBuilder::add_route (target index = targets.len(), global mask OR,
   insertion into the per-kind tries with overwrite), Router::route (global-mask short-circuit,
   get_ancestor, default), MetricKindMask::{matches, bitor}; Fanout's loops over recorders and the
   Fanout{Counter,Gauge,Histogram} loops over inner handles; Stack::push = Layer::layer on the
   inner recorder, Stack as Recorder = delegation.
   NOT modelled internally (specification-level stand-ins, tied by the correspondence runs):
   aho-corasick's automaton ([infixb] on ASCII-case-folded bytes) and radix_trie's
   [Trie::insert]/[get_ancestor] ([tinsert] on an association list / [walk], which remembers the
   value of the longest stored key met while walking down the name).                            *)
From Coq Require Import List NArith Bool Arith.
Import ListNotations.

Definition str := list N.                      (* UTF-8 bytes *)

Inductive kind := Counter | Gauge | Histogram.
Inductive mask := MCounter | MGauge | MHistogram | MAll.   (* the masks add_route accepts *)

(* kind.rs *)
Definition mask_bits (m : mask) : N :=
  match m with MCounter => 1 | MGauge => 2 | MHistogram => 4 | MAll => 7 end%N.
Definition kind_bit (k : kind) : N := match k with Counter => 1 | Gauge => 2 | Histogram => 4 end%N.
Definition matches (bits : N) (k : kind) : bool := negb (N.land bits (kind_bit k) =? 0)%N.
Definition covers (m : mask) (k : kind) : bool := matches (mask_bits m) k.

(* operations *)
Record meta := { m_target : str; m_level : N; m_module : option str }.
Inductive body :=
| BDesc (unit : option N) (desc : str)
| BReg (labels : list (str * str)) (md : meta).
Record op := { okind : kind; oname : str; obody : body }.
Definition rename (o : op) (n : str) : op := {| okind := okind o; oname := n; obody := obody o |}.
Definition is_reg (o : op) : bool := match obody o with BReg _ _ => true | BDesc _ _ => false end.

(* ---- strings *)
Fixpoint str_eqb (a b : str) : bool :=
  match a, b with
  | [], [] => true
  | x :: a', y :: b' => (x =? y)%N && str_eqb a' b'
  | _, _ => false
  end.
Fixpoint prefixb (p s : str) : bool :=
  match p, s with
  | [], _ => true
  | a :: p', b :: s' => (a =? b)%N && prefixb p' s'
  | _ :: _, [] => false
  end.
(* stand-in for AhoCorasick::is_match with one pattern: some position of [s] starts with [p] *)
Fixpoint infixb (p s : str) : bool :=
  prefixb p s || match s with [] => false | _ :: s' => infixb p s' end.
(* ascii_case_insensitive: A-Z and a-z only *)
Definition lower (c : N) : N := if ((65 <=? c) && (c <=? 90))%N then (c + 32)%N else c.
Definition fold_case (ci : bool) (s : str) : str := if ci then map lower s else s.

(* ---- prefix.rs *)
Definition dot : N := 46%N.
Definition prefixed (p name : str) : str := p ++ dot :: name.

(* ---- filter.rs *)
Definition should_filter (pats : list str) (ci : bool) (name : str) : bool :=
  existsb (fun p => infixb (fold_case ci p) (fold_case ci name)) pats.

(* ---- router.rs *)
Definition table := list (str * nat).          (* Trie<String, usize> *)
Fixpoint tfind (p : str) (t : table) : option nat :=
  match t with
  | [] => None
  | (q, v) :: r => if str_eqb p q then Some v else tfind p r
  end.
Fixpoint tremove (p : str) (t : table) : table :=
  match t with
  | [] => []
  | (q, v) :: r => if str_eqb p q then tremove p r else (q, v) :: tremove p r
  end.
Definition tinsert (p : str) (v : nat) (t : table) : table := (p, v) :: tremove p t.

Record tries := { t_counter : table; t_gauge : table; t_histogram : table; gmask : N }.
Definition tries0 : tries := {| t_counter := []; t_gauge := []; t_histogram := []; gmask := 0%N |}.

Definition add_route (ts : tries) (m : mask) (p : str) (idx : nat) : tries :=
  let g := N.lor (gmask ts) (mask_bits m) in
  match m with
  | MAll => {| t_counter := tinsert p idx (t_counter ts); t_gauge := tinsert p idx (t_gauge ts);
               t_histogram := tinsert p idx (t_histogram ts); gmask := g |}
  | MCounter => {| t_counter := tinsert p idx (t_counter ts); t_gauge := t_gauge ts;
                   t_histogram := t_histogram ts; gmask := g |}
  | MGauge => {| t_counter := t_counter ts; t_gauge := tinsert p idx (t_gauge ts);
                 t_histogram := t_histogram ts; gmask := g |}
  | MHistogram => {| t_counter := t_counter ts; t_gauge := t_gauge ts;
                     t_histogram := tinsert p idx (t_histogram ts); gmask := g |}
  end.
(* the builder: the i-th add_route pushes target i *)
Fixpoint build (routes : list (mask * str)) (idx : nat) (ts : tries) : tries :=
  match routes with
  | [] => ts
  | (m, p) :: r => build r (S idx) (add_route ts m p idx)
  end.
Definition trie_for (ts : tries) (k : kind) : table :=
  match k with Counter => t_counter ts | Gauge => t_gauge ts | Histogram => t_histogram ts end.

(* stand-in for Trie::get_ancestor: walk down the name; [anc] is the value of the longest stored
   key among the prefixes already passed *)
Fixpoint walk (t : table) (seen rest : str) (anc : option nat) : option nat :=
  let anc' := match tfind seen t with Some v => Some v | None => anc end in
  match rest with
  | [] => anc'
  | c :: rest' => walk t (seen ++ [c]) rest' anc'
  end.
Definition get_ancestor (t : table) (name : str) : option nat := walk t [] name None.

Definition route (ts : tries) (k : kind) (name : str) : option nat :=
  if negb (matches (gmask ts) k) then None else get_ancestor (trie_for ts k) name.

(* ---- recorders *)
Inductive rec :=
| Leaf (id : N)
| Prefix (p : str) (inner : rec)
| Filter (pats : list str) (ci dfa : bool) (inner : rec)
| Router (default : rec) (routes : list (mask * str)) (targets : list rec)
| Fanout (rs : list rec).

Definition delivery := (N * op)%type.

Fixpoint sem (r : rec) (o : op) : list delivery :=
  match r with
  | Leaf id => [(id, o)]
  | Prefix p r' => sem r' (rename o (prefixed p (oname o)))
  | Filter pats ci _ r' => if should_filter pats ci (oname o) then [] else sem r' o
  | Router d routes targets =>
      match route (build routes 0 tries0) (okind o) (oname o) with
      | None => sem d o
      | Some i => nth i (map (fun t => sem t o) targets) (sem d o)
      end
  | Fanout rs => flat_map (fun r' => sem r' o) rs
  end.

(* Fanout{Counter,Gauge,Histogram}: the inner handles in order; positions are relative to the
   deliveries of the whole fanout, so the i-th recorder's handle is shifted by what precedes it *)
Fixpoint fan (l : list (nat * list nat)) : list nat :=
  match l with
  | [] => []
  | (n, h) :: r => h ++ map (Nat.add n) (fan r)
  end.

Fixpoint hsem (r : rec) (o : op) : list nat :=
  match r with
  | Leaf _ => [0]
  | Prefix p r' => hsem r' (rename o (prefixed p (oname o)))
  | Filter pats ci _ r' => if should_filter pats ci (oname o) then [] else hsem r' o
  | Router d routes targets =>
      match route (build routes 0 tries0) (okind o) (oname o) with
      | None => hsem d o
      | Some i => nth i (map (fun t => hsem t o) targets) (hsem d o)
      end
  | Fanout rs => fan (map (fun r' => (length (sem r' o), hsem r' o)) rs)
  end.

(* ---- mod.rs: layers and stacks *)
Inductive layer := LPrefix (p : str) | LFilter (pats : list str) (ci dfa : bool).
Definition apply_layer (l : layer) (inner : rec) : rec :=
  match l with LPrefix p => Prefix p inner | LFilter pats ci dfa => Filter pats ci dfa inner end.
(* Stack::new(base).push(l1)...push(ln) *)
Definition push (s : rec) (l : layer) : rec := apply_layer l s.
Definition stack (base : rec) (ls : list layer) : rec := fold_left push ls base.

(* ---- updates through a handle *)
Inductive uop :=
| U (code v : N)                 (* one CounterFn/GaugeFn/HistogramFn call: which method, argument *)
| UMany (v n : N).               (* Histogram::record_many(v, n): the default trait method *)
Definition code_record : N := 5%N.
Definition expand (u : uop) : list (N * N) :=
  match u with U c v => [(c, v)] | UMany v n => repeat (code_record, v) (N.to_nat n) end.

Inductive event :=
| EOp (leaf : N) (o : op)                       (* a describe/register call seen by a leaf *)
| EUpd (leaf : N) (hid : N) (code v : N).       (* an update seen by the hid-th leaf handle created by this operation *)

(* what the leaf doubles log for one operation: the deliveries, then for every update call made
   through the returned handle (in order) one entry per leaf handle it reaches (in order) *)
Definition events_of (ds : list delivery) (h : list nat) (o : op) (us : list uop) : list event :=
  map (fun d => EOp (fst d) (snd d)) ds ++
  (if is_reg o then
     flat_map (fun cv => map (fun j => EUpd (fst (nth j ds (0%N, o))) (N.of_nat j) (fst cv) (snd cv)) h)
              (flat_map expand us)
   else []).

Definition run_op (r : rec) (ou : op * list uop) : list event :=
  events_of (sem r (fst ou)) (hsem r (fst ou)) (fst ou) (snd ou).
