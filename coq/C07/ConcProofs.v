(* C07 — the clauses of the concurrent part of the property, for every schedule, any number of
   threads and operations, derived from the invariant of ConcInv.v. *)
From Coq Require Import List NArith ZArith Bool Lia.
Import ListNotations.
Require Import MV.Common.Interleave MV.C07.ConcModel MV.C07.ConcInv.
Open Scope N_scope.

Section Final.
Variables (ps : list (list cop)) (sched : list nat).
Let s := fst (final ps sched).
Let HI : SInv s := SInv_final ps sched.

(* (a) exactly once, at every reachable configuration *)
Lemma conc_conservation k :
  drained k (c_log s) ++ c_bkt s k = recorded k (c_log s)
  /\ drained k (c_log s) = aggregated k (c_log s) ++ inflight k (c_lock s)
  /\ c_agg s k = (N.of_nat (length (aggregated k (c_log s))), zsumc (aggregated k (c_log s)))
  /\ fst (c_agg s k) + N.of_nat (length (inflight k (c_lock s))) + N.of_nat (length (c_bkt s k))
     = N.of_nat (length (recorded k (c_log s)))
  /\ (snd (c_agg s k) + zsumc (inflight k (c_lock s)) + zsumc (c_bkt s k))%Z = zsumc (recorded k (c_log s)).
Proof.
  destruct HI as ((Ha & Hb & Hg & _) & _). repeat split; auto.
  - rewrite <- Ha, Hb, Hg, !app_length, !Nat2N.inj_add. reflexivity.
  - rewrite <- Ha, Hb, Hg, !zsumc_app. reflexivity.
Qed.

(* a clear takes exactly the records pushed since the previous clear of the key: everything recorded
   before it is drained after it, in push order *)
Lemma conc_drain l1 k xs l2 : c_log s = l1 ++ EDrain k xs :: l2 -> drained k l1 ++ xs = recorded k l1.
Proof. intros H. exact (proj2 (proj2 HI) _ _ _ H). Qed.

(* what a render's snapshot of the distributions shows for a key: exactly the values drained (by any
   thread) before it - an initial segment, in push order, of the records pushed before it *)
Lemma conc_snapshot l1 out l2 k c sm : c_log s = l1 ++ ESnap out :: l2 -> In (k, (c, sm)) out ->
  c = N.of_nat (length (drained k l1)) /\ sm = zsumc (drained k l1)
  /\ exists rest, drained k l1 ++ rest = recorded k l1.
Proof.
  intros H Hin. destruct (proj2 (proj2 HI) _ _ _ H k c sm Hin) as [-> ->]. repeat split.
  apply (proj1 (proj2 HI) l1 (ESnap out :: l2) H k).
Qed.

(* (b) visibility: a record whose push preceded ANY clear of its key that precedes the snapshot is in it *)
Lemma conc_visibility l1 k xs l2 out l3 c sm :
  c_log s = l1 ++ EDrain k xs :: l2 ++ ESnap out :: l3 -> In (k, (c, sm)) out ->
  N.of_nat (length (recorded k l1)) <= c
  /\ exists more, drained k (l1 ++ EDrain k xs :: l2) = recorded k l1 ++ more.
Proof.
  intros H Hin.
  assert (Hd := conc_drain _ _ _ _ H).
  assert (H' : c_log s = (l1 ++ EDrain k xs :: l2) ++ ESnap out :: l3) by (rewrite H, <- app_assoc; reflexivity).
  destruct (conc_snapshot _ _ _ _ _ _ H' Hin) as (-> & _ & _).
  assert (E : drained k (l1 ++ EDrain k xs :: l2) = recorded k l1 ++ drained k l2).
  { rewrite drained_app. change (EDrain k xs :: l2) with ([EDrain k xs] ++ l2). rewrite drained_app. cbn [drained flat_map].
    rewrite N.eqb_refl, app_nil_r, app_assoc, Hd. reflexivity. }
  split; [|eauto]. rewrite E, app_length, Nat2N.inj_add. lia.
Qed.

(* _count never decreases from one snapshot to a later one *)
Lemma conc_count_monotone l1 o1 l2 o2 l3 k c1 s1 c2 s2 :
  c_log s = l1 ++ ESnap o1 :: l2 ++ ESnap o2 :: l3 -> In (k, (c1, s1)) o1 -> In (k, (c2, s2)) o2 -> c1 <= c2.
Proof.
  intros H H1 H2.
  destruct (conc_snapshot _ _ _ _ _ _ H H1) as (-> & _ & _).
  assert (H' : c_log s = (l1 ++ ESnap o1 :: l2) ++ ESnap o2 :: l3) by (rewrite H, <- app_assoc; reflexivity).
  destruct (conc_snapshot _ _ _ _ _ _ H' H2) as (-> & _ & _).
  rewrite drained_app, app_length, Nat2N.inj_add. lia.
Qed.

(* (c) counters and gauges: a load returns the sequential fold of the updates that preceded it *)
Lemma conc_load_counter l1 k v l2 : c_log s = l1 ++ ELoadC k v :: l2 -> v = fold_left capply (cupds k l1) 0.
Proof. intros H. exact (proj2 (proj2 HI) _ _ _ H). Qed.
Lemma conc_load_gauge l1 k z l2 : c_log s = l1 ++ ELoadG k z :: l2 -> z = fold_left gapply (gupds k l1) 0%Z.
Proof. intros H. exact (proj2 (proj2 HI) _ _ _ H). Qed.

(* (d) two snapshots, no record of the key since a clear that precedes the first: same _count, _sum *)
Lemma conc_render_twice l0 k xs m o1 l2 o2 l3 c1 s1 c2 s2 :
  c_log s = l0 ++ EDrain k xs :: m ++ ESnap o1 :: l2 ++ ESnap o2 :: l3 ->
  recorded k (m ++ ESnap o1 :: l2) = [] ->
  In (k, (c1, s1)) o1 -> In (k, (c2, s2)) o2 ->
  c1 = c2 /\ s1 = s2 /\ c1 = N.of_nat (length (recorded k l0)) /\ s1 = zsumc (recorded k l0).
Proof.
  intros H Hq H1 H2.
  assert (Hd := conc_drain _ _ _ _ H).
  assert (Ha : c_log s = (l0 ++ EDrain k xs :: m) ++ ESnap o1 :: l2 ++ ESnap o2 :: l3) by (rewrite H, <- app_assoc; reflexivity).
  assert (Hb : c_log s = (l0 ++ EDrain k xs :: m ++ ESnap o1 :: l2) ++ ESnap o2 :: l3).
  { rewrite H, <- !app_assoc. cbn [app]. rewrite <- !app_assoc. reflexivity. }
  destruct (conc_snapshot _ _ _ _ _ _ Ha H1) as (-> & -> & (r1 & E1)).
  destruct (conc_snapshot _ _ _ _ _ _ Hb H2) as (-> & -> & (r2 & E2)).
  rewrite recorded_app in Hq. apply app_eq_nil in Hq as [Hm Hl].
  assert (X : forall q, recorded k q = [] -> (exists r, drained k (l0 ++ EDrain k xs :: q) ++ r = recorded k (l0 ++ EDrain k xs :: q)) ->
              drained k (l0 ++ EDrain k xs :: q) = recorded k l0).
  { intros q Hq0 (r & E). revert E. rewrite drained_app, recorded_app.
    change (EDrain k xs :: q) with ([EDrain k xs] ++ q). rewrite drained_app, recorded_app, Hq0.
    cbn [drained recorded flat_map]. rewrite N.eqb_refl, !app_nil_r, app_assoc, Hd, <- app_assoc.
    intros E. rewrite <- (app_nil_r (recorded k l0)) in E at 2. apply app_inv_head in E.
    apply app_eq_nil in E as [-> _]. rewrite app_nil_r. reflexivity. }
  assert (D1 := X m Hm (ex_intro _ r1 E1)).
  assert (Hq2 : recorded k (m ++ ESnap o1 :: l2) = []) by (rewrite recorded_app, Hm, Hl; reflexivity).
  assert (D2 := X (m ++ ESnap o1 :: l2) Hq2 (ex_intro _ r2 E2)).
  rewrite D1, D2. auto.
Qed.

End Final.

(* ---- counters do not go backwards while they do not wrap *)
Lemma cbound_app a b : cbound a <= cbound (a ++ b).
Proof.
  unfold cbound. rewrite fold_left_app. generalize (fold_left (fun a u => match u with UInc v => a + v | UAbs v => N.max a v end) a 0).
  induction b as [|u b IH]; intros n; cbn [fold_left]; [lia|].
  etransitivity; [|apply IH]. destruct u; lia.
Qed.
Lemma cfold_nowrap us : cbound us < two64c -> fold_left capply us 0 = cbound us.
Proof.
  induction us as [|u us IH] using rev_ind; intros Hb; [reflexivity|].
  assert (Hle := cbound_app us [u]). unfold cbound in *. rewrite !fold_left_app in *. cbn [fold_left] in *.
  rewrite IH by lia. destruct u; cbn [capply]; [|reflexivity].
  apply N.mod_small. exact Hb.
Qed.

Lemma conc_counter_monotone ps sched l1 k v1 l2 v2 l3 :
  c_log (fst (final ps sched)) = l1 ++ ELoadC k v1 :: l2 ++ ELoadC k v2 :: l3 ->
  cbound (cupds k (l1 ++ ELoadC k v1 :: l2)) < two64c -> v1 <= v2.
Proof.
  intros H Hb.
  rewrite (conc_load_counter ps sched _ _ _ _ H).
  assert (H' : c_log (fst (final ps sched)) = (l1 ++ ELoadC k v1 :: l2) ++ ELoadC k v2 :: l3) by (rewrite H, <- app_assoc; reflexivity).
  rewrite (conc_load_counter ps sched _ _ _ _ H').
  rewrite cupds_app in *. assert (Hle := cbound_app (cupds k l1) (cupds k (ELoadC k v1 :: l2))).
  rewrite !cfold_nowrap by lia. exact Hle.
Qed.

(* ---- what a thread returns from render() is what its steps logged *)
Definition LI (log : list cev) (l : clocal) : Prop :=
  (forall kv, In kv (accc l) -> In (ELoadC (fst kv) (snd kv)) log) /\
  (forall kv, In kv (accg l) -> In (ELoadG (fst kv) (snd kv)) log) /\
  (forall r, In r (outs l) ->
     In (ESnap (r_dist r)) log /\
     (forall kv, In kv (r_ctr r) -> In (ELoadC (fst kv) (snd kv)) log) /\
     (forall kv, In kv (r_gau r) -> In (ELoadG (fst kv) (snd kv)) log)).
Definition LInv (c : csh * list clocal) : Prop := Forall (LI (c_log (fst c))) (snd c).

Lemma LI_mono log log' l : (forall e, In e log -> In e log') -> LI log l -> LI log' l.
Proof.
  intros Hm (H1 & H2 & H3). repeat split; intros; auto.
  - apply Hm, (H3 r H).
  - apply Hm. apply (proj1 (proj2 (H3 r H))). auto.
  - apply Hm. apply (proj2 (proj2 (H3 r H))). auto.
Qed.

Lemma cstep_log s l s' l' : cstep s l = Some (s', l') -> c_log s' = c_log s \/ exists e, c_log s' = c_log s ++ [e].
Proof.
  unfold cstep. intros H.
  destruct (pc l) as [|w|w|rf|w rf|k w rf|k w rf|].
  - destruct (prog l) as [|[kd k|k u|k u|k v| |] r]; try discriminate; inversion H; subst; cbn; eauto.
  - destruct w; inversion H; subst; cbn; eauto.
  - destruct w; inversion H; subst; cbn; eauto.
  - inversion H; subst; auto.
  - destruct w; [inversion H; subst; auto|]. destruct (c_lock s); inversion H; subst; cbn; auto.
  - destruct (c_lock s) as [|o k' [xs|]]; try (inversion H; subst; auto; fail).
    destruct ((o =? tid l) && (k' =? k)); inversion H; subst; cbn; eauto.
  - destruct (c_lock s) as [|o k' [xs|]]; try (inversion H; subst; auto; fail).
    destruct ((o =? tid l) && (k' =? k)); inversion H; subst; cbn; eauto.
  - destruct (c_lock s); inversion H; subst; cbn; eauto.
Qed.

Lemma cstep_LI s l s' l' : cstep s l = Some (s', l') -> LI (c_log s) l -> LI (c_log s') l'.
Proof.
  unfold cstep. intros H (H1 & H2 & H3).
  assert (Same : LI (c_log s) l) by exact (conj H1 (conj H2 H3)).
  destruct (pc l) as [|w|w|rf|w rf|k w rf|k w rf|].
  - destruct (prog l) as [|[kd k|k u|k u|k v| |] r]; try discriminate; inversion H; subst; clear H; cbn;
      try (eapply LI_mono; [|exact Same]; intros; apply in_or_app; auto; fail); auto.
    repeat split; cbn; intros; try contradiction; apply (H3 r0); auto.
  - destruct w as [|k w]; inversion H; subst; clear H; auto. cbn.
    repeat split; cbn; intros.
    + apply in_app_or in H as [H|[<-|[]]]; [apply in_or_app; left; auto|apply in_or_app; right; left; reflexivity].
    + apply in_or_app; left; auto.
    + apply in_or_app; left; apply (H3 r H).
    + apply in_or_app; left; apply (proj1 (proj2 (H3 r H))); auto.
    + apply in_or_app; left; apply (proj2 (proj2 (H3 r H))); auto.
  - destruct w as [|k w]; inversion H; subst; clear H; auto. cbn.
    repeat split; cbn; intros.
    + apply in_or_app; left; auto.
    + apply in_app_or in H as [H|[<-|[]]]; [apply in_or_app; left; auto|apply in_or_app; right; left; reflexivity].
    + apply in_or_app; left; apply (H3 r H).
    + apply in_or_app; left; apply (proj1 (proj2 (H3 r H))); auto.
    + apply in_or_app; left; apply (proj2 (proj2 (H3 r H))); auto.
  - inversion H; subst; auto.
  - destruct w; [inversion H; subst; auto|]. destruct (c_lock s); inversion H; subst; cbn; auto.
  - destruct (c_lock s) as [|o k' [xs|]]; try (inversion H; subst; auto; fail).
    destruct ((o =? tid l) && (k' =? k)); inversion H; subst; cbn; auto.
    eapply LI_mono; [|exact Same]. intros; apply in_or_app; auto.
  - destruct (c_lock s) as [|o k' [xs|]]; try (inversion H; subst; auto; fail).
    destruct ((o =? tid l) && (k' =? k)); inversion H; subst; cbn; auto.
    eapply LI_mono; [|exact Same]. intros; apply in_or_app; auto.
  - destruct (c_lock s); inversion H; subst; clear H; cbn; auto.
    repeat split; cbn; intros; try contradiction.
    + apply in_app_or in H as [H|[<-|[]]]; cbn.
      * apply in_or_app; left; apply (H3 r H).
      * apply in_or_app; right; left; reflexivity.
    + apply in_app_or in H as [H|[<-|[]]]; cbn in *.
      * apply in_or_app; left; apply (proj1 (proj2 (H3 r H))); auto.
      * apply in_or_app; left; auto.
    + apply in_app_or in H as [H|[<-|[]]]; cbn in *.
      * apply in_or_app; left; apply (proj2 (proj2 (H3 r H))); auto.
      * apply in_or_app; left; auto.
Qed.

Lemma LInv_preserved : step_preserves cstep LInv.
Proof.
  unfold step_preserves, LInv. cbn [fst snd]. intros s ls t l s' l' HF Hn Hst.
  assert (Hm : forall e, In e (c_log s) -> In e (c_log s')).
  { destruct (cstep_log _ _ _ _ Hst) as [->|(e & ->)]; auto. intros; apply in_or_app; auto. }
  apply Forall_upd.
  - eapply Forall_impl; [|exact HF]. intros a. apply LI_mono. exact Hm.
  - eapply cstep_LI; eauto. eapply Forall_nth_error; eauto.
Qed.

Theorem conc_outputs_are_steps ps sched l r :
  In l (snd (final ps sched)) -> In r (outs l) ->
  let log := c_log (fst (final ps sched)) in
  In (ESnap (r_dist r)) log /\
  (forall k v, In (k, v) (r_ctr r) -> In (ELoadC k v) log) /\
  (forall k z, In (k, z) (r_gau r) -> In (ELoadG k z) log).
Proof.
  intros Hl Hr. cbn zeta.
  assert (HF : LInv (final ps sched)).
  { unfold final. apply (invariant_all_schedules cstep csite LInv LInv_preserved).
    unfold LInv. cbn [fst snd]. apply Forall_forall. intros x Hx. apply in_map_iff in Hx as (tp & <- & _).
    repeat split; cbn; intros; contradiction. }
  unfold LInv in HF. rewrite Forall_forall in HF. destruct (HF l Hl) as (_ & _ & H3).
  destruct (H3 r Hr) as (A & B & C). repeat split; auto.
  - intros k v H. apply (B (k, v) H).
  - intros k z H. apply (C (k, z) H).
Qed.

(* ---- a racing schedule, evaluated: two recorders, a render and an upkeep interleaved *)
Definition ex_progs : list (list cop) :=
  [ [OReg CKH 7; ORec 7 1%Z; ORec 7 2%Z; OReg CKC 3; OUpdC 3 (UInc 5); ORec 7 5%Z];
    [OReg CKH 7; ORec 7 3%Z; OUpdC 3 (UAbs 4); ORec 7 4%Z; OReg CKG 9; OUpdG 9 (USet 6); OUpdG 9 (UGDec 2)];
    [ORender; ORender];
    [OUpkeep] ].
(* thread 3 (upkeep) acquires the lock and clears key 7 while thread 2 (render) waits for the lock; records
   race the clear; the render's own clear finds what was pushed after the upkeep's; its snapshot waits for
   nobody; the second render sees the last record *)
Definition ex_sched : list nat :=
  [0;1;0;1; 3;3;3; 2;2;2;2;2; 0; 3; 1;1; 2; 3; 2;2;2; 0;0;0; 1;1;1; 2;2; 2;2;2;2;2;2;2;2;2;2;2;2]%nat.

Lemma conc_example :
  outs (nth 2 (snd (final ex_progs ex_sched)) (init_local (0, [])))
  = [ {| r_ctr := []; r_gau := []; r_dist := [(7, (4, 10%Z))] |};
      {| r_ctr := [(3, 9)]; r_gau := [(9, 4%Z)]; r_dist := [(7, (5, 15%Z))] |} ]
  /\ c_lock (fst (final ex_progs ex_sched)) = Free
  /\ c_bkt (fst (final ex_progs ex_sched)) 7 = [].
Proof. vm_compute. repeat split. Qed.
