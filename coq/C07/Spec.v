(* C07 — the property as a specification over the HISTORY, with no exporter state: for the
   rendering produced by a Render operation, what every registered key must show is a closed
   function of the operations that precede it.

   * counter: fold of fetch_add (mod 2^64) / fetch_max over the key's own Inc / Abs operations;
   * gauge: fold of set / + / - over the key's own operations; raw gauge: the last bits set;
   * histogram key: _count = number of Rec operations made under the key, _sum = their sum,
     bucket(b) = number of those samples <= b, +Inf bucket = _count; summary: one quantile line
     per configured quantile (values not specified), _sum, _count;
   * labels: the global labels, each overridden by the key's own label of the same (unsanitised)
     name, then the key's remaining labels;
   * HELP (and the unit of the suffix): the FIRST Describe whose sanitised name is the family's;
   * Render and Upkeep operations themselves change nothing (so two renderings in a row agree). *)
From Coq Require Import List NArith ZArith Bool.
Import ListNotations.
Require Import MV.C08.Model.
Require MV.C15.Model MV.C15.Spec.
Require Import MV.C07.Model.
Open Scope N_scope.

(* ---- per-key reference semantics over a history prefix *)
Definition mine (i : N) (k : key) (o : op) : bool :=
  match op_index o with Some j => (j =? i) && op_kind_ok (k_kind k) o | None => false end.
Definition registered (i : N) (k : key) (pre : list op) : bool := existsb (mine i k) pre.

Definition counter_step (i : N) (v : N) (o : op) : N :=
  match o with
  | Inc j x => if j =? i then (v + x) mod two64 else v       (* fetch_add *)
  | Abs j x => if j =? i then N.max v x else v                (* fetch_max *)
  | _ => v
  end.
Definition spec_counter (i : N) (pre : list op) : N := fold_left (counter_step i) pre 0.

Definition gauge_step (i : N) (v : xnum) (o : op) : xnum :=
  match o with
  | GSet j x => if j =? i then x else v
  | GInc j x => if j =? i then xadd v x else v
  | GDec j x => if j =? i then xadd v (xneg x) else v
  | _ => v
  end.
Definition spec_gauge (i : N) (pre : list op) : xnum := fold_left (gauge_step i) pre xzero.

Definition raw_step (i : N) (v : N) (o : op) : N :=
  match o with GBits j b => if j =? i then b else v | _ => v end.
Definition spec_raw (i : N) (pre : list op) : N := fold_left (raw_step i) pre 0.

(* the samples recorded under key i, in order *)
Definition rec_of (i : N) (o : op) : list xnum :=
  match o with Rec j v => if j =? i then [v] else [] | _ => [] end.
Definition records (i : N) (pre : list op) : list xnum := flat_map (rec_of i) pre.
(* the sum of the samples: componentwise, i.e. the exact finite part and the special values that went in;
   shown as the double it denotes ([xval]): NaN / +inf / -inf / the exact finite sum *)
Definition xsum (l : list xnum) : xnum := fold_right xadd xzero l.

(* the first description given for a (sanitised) name *)
Fixpoint spec_desc (name : str) (pre : list op) : option (str * option unit_t) :=
  match pre with
  | [] => None
  | Describe _ n u t :: r => if str_eqb (sanitize_metric_name n) name then Some (t, u) else spec_desc name r
  | _ :: r => spec_desc name r
  end.

(* ---- labels: global overridden by the key's *)
Definition last_val (n : str) (l : list (str * str)) : option str :=
  fold_left (fun acc kv => if str_eqb n (fst kv) then Some (snd kv) else acc) l None.
Fixpoint first_occ (seen l : list str) : list str :=
  match l with
  | [] => []
  | x :: r => if existsb (str_eqb x) seen then first_occ seen r else x :: first_occ (seen ++ [x]) r
  end.
Definition label_value (g kl : list (str * str)) (n : str) : str :=
  match last_val n kl with
  | Some v => v                                              (* the key's own label wins *)
  | None => match last_val n g with Some v => v | None => [] end
  end.
Definition spec_labels (g kl : list (str * str)) : list (str * str) :=
  map (fun n => (n, label_value g kl n)) (first_occ [] (map fst (g ++ kl))).

(* ---- what one key shows *)
Definition spec_header (c : cfg) (pre : list op) (name : str) : option str * option unit_t :=
  match spec_desc name pre with
  | Some (t, u) => (Some (sanitize_description t), if c_unit_on c then u else None)
  | None => (None, None)
  end.

Definition spec_key (c : cfg) (pre : list op) (i : N) (k : key) : list asample :=
  if negb (registered i k pre) then [] else
  let name := sanitize_metric_name (k_name k) in
  let '(help, u) := spec_header c pre name in
  let labels := map label_string (spec_labels (c_globals c) (k_labels k)) in
  match k_kind k with
  | KC => [mk_sample name help u 0 labels None XNone (VInt (spec_counter i pre))]
  | KG => [mk_sample name help u 1 labels None XNone (xval (spec_gauge i pre))]
  | KR => [mk_sample name help u 1 labels None XNone (canon (spec_raw i pre))]
  | KH =>
      let rs := records i pre in
      let n := N.of_nat (List.length rs) in
      match H.get_distribution ZF (dbuilder_of c) name with
      | Some bounds =>
          map (fun b => mk_sample name help u 2 labels (Some s_bucket) (XLe (x_fin b)) (VInt (MV.C15.Spec.count_le ZF b rs))) bounds
          ++ [mk_sample name help u 2 labels (Some s_bucket) XInf (VInt n);
              mk_sample name help u 2 labels (Some s_sum) XNone (xval (xsum rs));
              mk_sample name help u 2 labels (Some s_count) XNone (VInt n)]
      | None =>
          map (fun q => mk_sample name help u 3 labels None (XQuant q) VQ) (c_quantiles c)
          ++ [mk_sample name help u 3 labels (Some s_sum) XNone (xval (xsum rs));
              mk_sample name help u 3 labels (Some s_count) XNone (VInt n)]
      end
  end.

Definition spec_render (c : cfg) (pre : list op) : list asample :=
  flat_map (fun ik => spec_key c pre (fst ik) (snd ik)) (indexed 0 (c_keys c)).

(* the specified outputs of a history: one rendering per Render operation, each a function of the
   operations before it *)
Fixpoint spec_outs_from (c : cfg) (pre h : list op) : list (list asample) :=
  match h with
  | [] => []
  | Render :: r => spec_render c pre :: spec_outs_from c (pre ++ [Render]) r
  | o :: r => spec_outs_from c (pre ++ [o]) r
  end.
Definition spec_outs (c : cfg) (h : list op) : list (list asample) := spec_outs_from c [] h.

(* ---- the property's precondition on names (its quantifier), decidable *)
Definition nonempty {A} (s : list A) : bool := match s with [] => false | _ => true end.
Fixpoint nodup_strs (l : list str) : bool :=
  match l with [] => true | x :: r => negb (existsb (str_eqb x) r) && nodup_strs r end.
Definition s_le : str := [108; 101].
Definition s_quantile : str := [113; 117; 97; 110; 116; 105; 108; 101].

Definition labels_ok (c : cfg) (k : key) : bool :=
  let names := map (fun kv => sanitize_label_key (fst kv)) (spec_labels (c_globals c) (k_labels k)) in
  forallb (fun kv => nonempty (fst kv)) (c_globals c ++ k_labels k)
  && nodup_strs names
  && negb (existsb (str_eqb s_le) names) && negb (existsb (str_eqb s_quantile) names).

(* families: counters / gauges (both sorts) / distributions live in three separate maps *)
Definition fclass (k : mkind) : N := match k with KC => 0 | KG | KR => 1 | KH => 2 end.
(* two different table entries never denote the same series, nor the same name in two kinds *)
(* metrics::Key equality ignores the order of the labels (C03): such entries are ONE key *)
Definition label_eqb (a b : str * str) : bool := str_eqb (fst a) (fst b) && str_eqb (snd a) (snd b).
Definition count_label (x : str * str) (l : list (str * str)) : nat := List.length (filter (label_eqb x) l).
Definition same_key (a b : key) : bool :=
  str_eqb (k_name a) (k_name b) && Nat.eqb (List.length (k_labels a)) (List.length (k_labels b))
  && forallb (fun x => Nat.eqb (count_label x (k_labels a)) (count_label x (k_labels b))) (k_labels a).
Definition keys_apart (c : cfg) (a b : key) : bool :=
  if fclass (k_kind a) =? fclass (k_kind b) then negb (parts_eqb (parts c a) (parts c b)) && negb (same_key a b)
  else negb (str_eqb (sname a) (sname b)).
Fixpoint pairwise {A} (f : A -> A -> bool) (l : list A) : bool :=
  match l with [] => true | x :: r => forallb (f x) r && pairwise f r end.

Definition bounds_ok (c : cfg) (k : key) : bool :=
  match k_kind k with
  | KH => match H.get_distribution ZF (dbuilder_of c) (sname k) with
          | Some b => nonempty b && MV.C15.Spec.ascending ZF b
          | None => true
          end
  | _ => true
  end.

Definition wf_names (c : cfg) : bool :=
  forallb (fun k => nonempty (k_name k) && labels_ok c k && bounds_ok c k) (c_keys c)
  && pairwise (keys_apart c) (c_keys c).
