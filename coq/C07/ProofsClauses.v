(* C07 — the clauses of the property over histories (closed forms of the specification functions),
   the commutative-monoid accounting of sums, idempotence of rendering, and the executable check. *)
From Coq Require Import List NArith ZArith Bool Lia.
Import ListNotations.
Require Import MV.C07.Exec MV.C07.ProofsBase MV.C07.ProofsInv MV.C07.ProofsSpec.
Open Scope N_scope.

(* ---- counters *)
Definition incs (i : N) (pre : list op) : list N :=
  flat_map (fun o => match o with Inc j x => if j =? i then [x] else [] | _ => [] end) pre.
Definition abss (i : N) (pre : list op) : list N :=
  flat_map (fun o => match o with Abs j x => if j =? i then [x] else [] | _ => [] end) pre.
Definition nsum (l : list N) : N := fold_right N.add 0 l.
Definition nmax (l : list N) : N := fold_right N.max 0 l.

Lemma nsum_app a b : nsum (a ++ b) = nsum a + nsum b.
Proof. unfold nsum. induction a as [|x a IH]; simpl; [reflexivity|]. rewrite IH. apply N.add_assoc. Qed.
Lemma nmax_app a b : nmax (a ++ b) = N.max (nmax a) (nmax b).
Proof. unfold nmax. induction a as [|x a IH]; simpl; [symmetry; apply N.max_r, N.le_0_l|]. rewrite IH. apply N.max_assoc. Qed.

Lemma spec_counter_snoc i pre o : spec_counter i (pre ++ [o]) = counter_step i (spec_counter i pre) o.
Proof. unfold spec_counter. rewrite fold_left_app. reflexivity. Qed.

Theorem counter_only_increments i pre : abss i pre = [] ->
  spec_counter i pre = nsum (incs i pre) mod two64.
Proof.
  induction pre as [|o pre IH] using rev_ind; intros Ha; [reflexivity|].
  unfold abss in Ha. rewrite flat_map_app in Ha. apply app_eq_nil in Ha as [Ha Ho]. fold (abss i pre) in Ha.
  rewrite spec_counter_snoc, (IH Ha). unfold incs. rewrite flat_map_app, nsum_app. fold (incs i pre).
  destruct o as [j|j v|j v|j v|j v|j v|j b|j v|dk n u t| |]; cbn [counter_step flat_map app nsum fold_right];
    rewrite ?N.add_0_r; auto.
  - destruct (j =? i); cbn [app nsum fold_right]; rewrite ?N.add_0_r; auto.
    apply N.add_mod_idemp_l. discriminate.
  - cbn in Ho. destruct (j =? i); [discriminate|reflexivity].
Qed.

Theorem counter_only_absolutes i pre : incs i pre = [] ->
  spec_counter i pre = nmax (abss i pre).
Proof.
  induction pre as [|o pre IH] using rev_ind; intros Ha; [reflexivity|].
  unfold incs in Ha. rewrite flat_map_app in Ha. apply app_eq_nil in Ha as [Ha Ho]. fold (incs i pre) in Ha.
  rewrite spec_counter_snoc, (IH Ha). unfold abss. rewrite flat_map_app, nmax_app. fold (abss i pre).
  destruct o as [j|j v|j v|j v|j v|j v|j b|j v|dk n u t| |]; cbn [counter_step flat_map app nmax fold_right];
    rewrite ?N.max_0_r; auto.
  - cbn in Ho. destruct (j =? i); [discriminate|reflexivity].
  - destruct (j =? i); cbn [app nmax fold_right]; rewrite ?N.max_0_r; auto.
Qed.

(* ---- gauges: the fold of the key's own operations; a set is the last word until the next one *)
Definition gauge_quiet (i : N) (o : op) : bool :=
  match o with GSet j _ | GInc j _ | GDec j _ => negb (j =? i) | _ => true end.

Lemma gauge_quiet_fold i post : forallb (gauge_quiet i) post = true -> forall a, fold_left (gauge_step i) post a = a.
Proof.
  induction post as [|o post IH]; intros Hq a; [reflexivity|]. cbn in Hq. apply andb_prop in Hq as [Ho Hq].
  cbn [fold_left]. rewrite (IH Hq). destruct o; cbn in *; auto; destruct (i0 =? i); auto; discriminate.
Qed.

Theorem gauge_value i pre v post : forallb (gauge_quiet i) post = true ->
  spec_gauge i (pre ++ GSet i v :: post) = v
  /\ spec_gauge i (pre ++ GInc i v :: post) = xadd (spec_gauge i pre) v
  /\ spec_gauge i (pre ++ GDec i v :: post) = xadd (spec_gauge i pre) (xneg v)
  /\ spec_gauge i (pre ++ post) = spec_gauge i pre.
Proof.
  intros Hq. unfold spec_gauge. rewrite !fold_left_app. cbn [fold_left gauge_step]. rewrite N.eqb_refl.
  rewrite !(gauge_quiet_fold i post Hq). auto.
Qed.

(* ---- sums: each recorded sample is added exactly once, in any commutative monoid *)
Section SumOnce.
Variable F : Type.
Variable fadd : F -> F -> F.
Variable fzero : F.
Hypothesis fadd_assoc : forall a b c, fadd a (fadd b c) = fadd (fadd a b) c.
Hypothesis fadd_comm : forall a b, fadd a b = fadd b a.
Hypothesis fadd_zero : forall a, fadd fzero a = a.

Definition fsum (l : list F) : F := fold_right fadd fzero l.

Lemma fsum_app a b : fsum (a ++ b) = fadd (fsum a) (fsum b).
Proof. induction a as [|x a IH]; cbn; [rewrite fadd_zero; reflexivity|]. fold (fsum (a ++ b)) (fsum a). rewrite IH. apply fadd_assoc. Qed.
Lemma fold_fadd l : forall a, fold_left fadd l a = fadd a (fsum l).
Proof.
  induction l as [|x l IH]; intros a; cbn.
  - rewrite fadd_comm, fadd_zero. reflexivity.
  - rewrite IH. fold (fsum l). rewrite fadd_assoc. reflexivity.
Qed.

(* one bucket and its distribution: a recorded sample goes to the pending bag; a drain (render or
   upkeep) empties the bag into the running sum, either batch-wise (Histogram::record_many: the
   batch is summed from 0.0, then added) or sample by sample (the Summary arm) *)
Inductive aop := ARec (x : F) | ADrainBatch | ADrainEach.
Definition astep (st : list F * F) (o : aop) : list F * F :=
  match o with
  | ARec x => (fst st ++ [x], snd st)
  | ADrainBatch => ([], fadd (snd st) (fold_left fadd (fst st) fzero))
  | ADrainEach => ([], fold_left fadd (fst st) (snd st))
  end.
Definition arecorded (ops : list aop) : list F := flat_map (fun o => match o with ARec x => [x] | _ => [] end) ops.

Theorem sum_once ops :
  let st := fold_left astep ops ([], fzero) in
  fadd (snd st) (fsum (fst st)) = fsum (arecorded ops).
Proof.
  cbn zeta. induction ops as [|o ops IH] using rev_ind; [cbn; apply fadd_zero|].
  rewrite fold_left_app. cbn [fold_left]. unfold arecorded in *. rewrite flat_map_app, fsum_app. rewrite <- IH.
  destruct (fold_left astep ops ([], fzero)) as [bag acc]. cbn [fst snd] in *.
  destruct o; cbn [astep fst snd flat_map app].
  - rewrite fsum_app. cbn. rewrite (fadd_comm x fzero), fadd_zero. symmetry. rewrite <- fadd_assoc. reflexivity.
  - rewrite fold_fadd, fadd_zero. reflexivity.
  - rewrite fold_fadd. reflexivity.
Qed.
End SumOnce.

(* the extended numbers (exact finite part + IEEE special values) are such a monoid: sums with +inf, -inf and
   NaN samples are accounted exactly once as well *)
Theorem sum_once_xnum ops :
  let st := fold_left (astep xnum xadd xzero) ops ([], xzero) in
  xadd (snd st) (fsum xnum xadd xzero (fst st)) = fsum xnum xadd xzero (arecorded xnum ops).
Proof. apply sum_once; [exact xadd_assoc|exact xadd_comm|exact xadd_zero_l]. Qed.

(* ---- the first description wins *)
Definition describes (n : str) (o : op) : bool :=
  match o with Describe _ nm _ _ => str_eqb (sanitize_metric_name nm) n | _ => false end.

Theorem help_is_first_description n pre dk nm u t post :
  existsb (describes n) pre = false -> sanitize_metric_name nm = n ->
  spec_desc n (pre ++ Describe dk nm u t :: post) = Some (t, u).
Proof.
  intros Hno Hn. induction pre as [|o pre IH]; cbn [app spec_desc].
  - rewrite Hn, str_eqb_refl. reflexivity.
  - cbn in Hno. apply orb_false_elim in Hno as [Ho Hno]. destruct o; cbn in Ho; try rewrite Ho; auto.
Qed.

Theorem model_descr_is_spec c h n : aget str_eqb n (descr (fst (run c init h))) = spec_desc n h.
Proof.
  assert (forall h pre s, (forall n, aget str_eqb n (descr s) = fold_left (p_descr n) pre None) ->
                          forall n, aget str_eqb n (descr (fst (run c s h))) = fold_left (p_descr n) (pre ++ h) None) as G.
  { clear. induction h as [|o h IH]; intros pre s Hs n; cbn [run]; [rewrite app_nil_r; apply Hs|].
    destruct (step c s o) as [s1 x] eqn:Hst. specialize (IH (pre ++ [o]) s1).
    destruct (run c s1 h) as [s2 xs]. cbn [fst] in *. rewrite <- app_assoc in IH. apply IH.
    intros m. rewrite fold_left_app. cbn [fold_left]. rewrite <- Hs.
    replace s1 with (fst (step c s o)) by (rewrite Hst; reflexivity). apply step_descr. }
  rewrite (G h [] init (fun _ => eq_refl)). cbn [app]. apply fold_descr.
Qed.

(* ---- Render and Upkeep change nothing that is specified: rendering twice gives the same *)
Lemma spec_desc_app_neutral n pre o : describes n o = false -> (forall dk nm u t, o = Describe dk nm u t -> describes n o = false) ->
  spec_desc n (pre ++ [o]) = spec_desc n pre.
Proof.
  intros Ho _. induction pre as [|x pre IH]; cbn [app spec_desc].
  - destruct o; cbn in *; try rewrite Ho; reflexivity.
  - destruct x; auto. rewrite IH. reflexivity.
Qed.

Lemma spec_key_neutral c pre o i k : o = Render \/ o = Upkeep -> spec_key c (pre ++ [o]) i k = spec_key c pre i k.
Proof.
  intros Ho. unfold spec_key, registered, spec_header, spec_counter, spec_gauge, spec_raw, records.
  rewrite existsb_app, !fold_left_app, flat_map_app.
  rewrite (spec_desc_app_neutral _ pre o) by (destruct Ho as [-> | ->]; intros; reflexivity || discriminate).
  destruct Ho as [-> | ->]; cbn [existsb mine op_index orb fold_left counter_step gauge_step raw_step flat_map rec_of];
    rewrite orb_false_r, app_nil_r; reflexivity.
Qed.

Lemma spec_render_neutral c pre o : o = Render \/ o = Upkeep -> spec_render c (pre ++ [o]) = spec_render c pre.
Proof.
  intros Ho. unfold spec_render. induction (indexed 0 (c_keys c)) as [|[i k] l IH]; cbn [flat_map fst snd]; [reflexivity|].
  rewrite spec_key_neutral by exact Ho. rewrite IH. reflexivity.
Qed.

Lemma spec_outs_from_app c h1 : forall pre h2,
  spec_outs_from c pre (h1 ++ h2) = spec_outs_from c pre h1 ++ spec_outs_from c (pre ++ h1) h2.
Proof.
  induction h1 as [|o h1 IH]; intros pre h2; cbn [app spec_outs_from]; [rewrite app_nil_r; reflexivity|].
  destruct o; rewrite IH, <- app_assoc; reflexivity.
Qed.

Theorem render_idempotent c h : wf_names c = true ->
  exists outs r, snd (run c init (h ++ [Render; Render])) = outs ++ [r; r].
Proof.
  intros wf. rewrite (model_meets_spec c wf). unfold spec_outs. rewrite spec_outs_from_app. cbn [app spec_outs_from].
  exists (spec_outs_from c [] h), (spec_render c h). rewrite spec_render_neutral by auto. reflexivity.
Qed.

(* ---- the executable check *)
Lemma opt_eqb_refl {A} (e : A -> A -> bool) (He : forall x, e x x = true) o : opt_eqb e o o = true.
Proof. destruct o; cbn; auto. Qed.
Lemma strs_eqb_refl l : strs_eqb l l = true.
Proof. apply strs_eqb_eq. reflexivity. Qed.
Lemma asample_eqb_refl a : asample_eqb a a = true.
Proof.
  unfold asample_eqb. rewrite !str_eqb_refl, N.eqb_refl, strs_eqb_refl, (opt_eqb_refl _ str_eqb_refl). cbn.
  destruct (a_extra a), (a_val a); cbn; rewrite ?N.eqb_refl, ?Z.eqb_refl; reflexivity.
Qed.
Lemma perm_eqb_refl l : perm_eqb asample_eqb l l = true.
Proof. induction l as [|x l IH]; cbn; [reflexivity|]. rewrite asample_eqb_refl. exact IH. Qed.
Lemma all2_refl l : all2 render_eqb l l = true.
Proof. induction l as [|x l IH]; cbn; [reflexivity|]. unfold render_eqb at 1. rewrite perm_eqb_refl. exact IH. Qed.

Theorem spec_ok_on_model c : spec_ok c (run_case c) = true.
Proof.
  unfold spec_ok, run_case. destruct (wf_names (fst c)) eqn:W; [|reflexivity]. cbn [implb].
  rewrite (model_meets_spec (fst c) W). apply all2_refl.
Qed.

Lemma spec_ok_iff c o :
  spec_ok c o = true <-> (wf_names (fst c) = true -> all2 render_eqb (spec_outs (fst c) (snd c)) o = true).
Proof. unfold spec_ok. destruct (wf_names (fst c)); cbn; split; auto. intros _ H; discriminate. Qed.
