(* C07 — executable entry points used by the correspondence check (cases.v). *)
From Coq Require Import List NArith ZArith Bool.
Import ListNotations.
Require Export MV.C08.Model MV.C07.Model MV.C07.Spec.
Open Scope N_scope.

(* code points are transmitted as 3 bytes each: cps (hx "00006100000a") = [97; 10] *)
Fixpoint cps (l : list N) : list N :=
  match l with
  | a :: b :: c :: r => (a * 65536 + b * 256 + c) :: cps r
  | _ => []
  end.

Definition case := (cfg * list op)%type.
Definition OUT := list (list asample).
Definition run_case (c : case) : OUT := snd (run (fst c) init (snd c)).

(* ---- equality of structured renderings: each rendering is a multiset of sample records *)
Definition opt_eqb {A} (e : A -> A -> bool) (a b : option A) : bool :=
  match a, b with Some x, Some y => e x y | None, None => true | _, _ => false end.
Definition sval_eqb (a b : sval) : bool :=
  match a, b with
  | VInt x, VInt y => x =? y
  | VZ x, VZ y => (x =? y)%Z
  | VB x, VB y => x =? y
  | VQ, VQ | VPInf, VPInf | VNInf, VNInf | VNaN, VNaN => true
  | _, _ => false
  end.
Definition extra_eqb (a b : extra) : bool :=
  match a, b with
  | XNone, XNone | XInf, XInf => true
  | XLe x, XLe y => (x =? y)%Z
  | XQuant x, XQuant y => x =? y
  | _, _ => false
  end.
Definition asample_eqb (a b : asample) : bool :=
  str_eqb (a_fam a) (a_fam b) && (a_type a =? a_type b) && opt_eqb str_eqb (a_help a) (a_help b)
  && str_eqb (a_name a) (a_name b) && strs_eqb (a_labels a) (a_labels b)
  && extra_eqb (a_extra a) (a_extra b) && sval_eqb (a_val a) (a_val b).

Fixpoint remove1 {A} (eqb : A -> A -> bool) (x : A) (l : list A) : option (list A) :=
  match l with
  | [] => None
  | y :: r => if eqb x y then Some r
              else match remove1 eqb x r with Some r' => Some (y :: r') | None => None end
  end.
Fixpoint perm_eqb {A} (eqb : A -> A -> bool) (a b : list A) : bool :=
  match a with
  | [] => match b with [] => true | _ => false end
  | x :: r => match remove1 eqb x b with Some b' => perm_eqb eqb r b' | None => false end
  end.
Fixpoint all2 {A} (e : A -> A -> bool) (a b : list A) : bool :=
  match a, b with
  | [], [] => true
  | x :: r, y :: r' => e x y && all2 e r r'
  | _, _ => false
  end.

Definition render_eqb (a b : list asample) : bool := perm_eqb asample_eqb a b.
Definition out_eqb (a b : OUT) : bool := all2 render_eqb a b.

(* the property in executable form, evaluated on an OBSERVED output: under the precondition on
   names, every rendering is, as a multiset, what the history before it specifies *)
Definition spec_ok (c : case) (o : OUT) : bool :=
  implb (wf_names (fst c)) (all2 render_eqb (spec_outs (fst c) (snd c)) o).

Definition known_class (c : case) : option N := None.

Definition verdicts (l : list (N * case * OUT)) : list (N * bool * bool * option N) :=
  map (fun '(i, c, o) => (i, out_eqb (run_case c) o, spec_ok c o, known_class c)) l.
