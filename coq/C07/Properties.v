(* C07 — property theorems (statements only; proofs in ProofsBase / ProofsInv / ProofsSpec / ProofsClauses).

   Reading guide.  [run c init h] is the model of the recorder (Model.v) run over the history [h] with
   configuration and key table [c]; its second component lists the structured renderings, one per
   Render.  [spec_outs c h] (Spec.v) is the specification: the rendering at a Render is a closed
   function of the history before it ([spec_counter], [spec_gauge], [records], [spec_desc],
   [spec_labels]).  [wf_names c] is the property's precondition on names.  [records i h] are the
   samples recorded under key i; [dist_count]/[dist_sum] read the distribution entry of the key;
   [pend] holds the samples not yet drained.                                                      *)
From Coq Require Import List NArith ZArith Bool.
Import ListNotations.
Require Import MV.C07.Exec MV.C07.ProofsBase MV.C07.ProofsInv MV.C07.ProofsSpec MV.C07.ProofsClauses MV.C07.ProofsWalk.
Open Scope N_scope.

Theorem C07_model_meets_spec : forall c h, wf_names c = true -> snd (run c init h) = spec_outs c h.
Proof. intros c h wf. apply model_meets_spec. exact wf. Qed.

Theorem C07_counter_value : forall i pre,
  (abss i pre = [] -> spec_counter i pre = nsum (incs i pre) mod two64)
  /\ (incs i pre = [] -> spec_counter i pre = nmax (abss i pre)).
Proof. intros i pre. split; [apply counter_only_increments|apply counter_only_absolutes]. Qed.

Theorem C07_gauge_value : forall i pre v post, forallb (gauge_quiet i) post = true ->
  spec_gauge i (pre ++ GSet i v :: post) = v
  /\ spec_gauge i (pre ++ GInc i v :: post) = (spec_gauge i pre + v)%Z
  /\ spec_gauge i (pre ++ GDec i v :: post) = (spec_gauge i pre - v)%Z
  /\ spec_gauge i (pre ++ post) = spec_gauge i pre.
Proof. exact gauge_value. Qed.

Theorem C07_every_sample_once : forall c, wf_names c = true ->
  forall h i k, key_at c i = Some k -> k_kind k = KH ->
  (let s := fst (run c init h) in
   let e := aget parts_eqb (parts c k) (dists s) in
   N.of_nat (List.length (records i h)) = dist_count e + N.of_nat (List.length (dflt (aget N.eqb i (pend s)) []))
   /\ zsum (records i h) = (dist_sum e + zsum (dflt (aget N.eqb i (pend s)) []))%Z)
  /\ (forall o, o = Render \/ o = Upkeep -> registered i k h = true ->
      let s := fst (run c init (h ++ [o])) in
      let e := aget parts_eqb (parts c k) (dists s) in
      aget N.eqb i (pend s) = Some [] /\
      dist_count e = N.of_nat (List.length (records i h)) /\ dist_sum e = zsum (records i h)).
Proof.
  intros c wf h i k Hi Hk. split; [apply every_sample_once; auto|].
  intros o Ho Hr. apply drained_count; auto.
Qed.

Theorem C07_sum_once : forall (F : Type) (fadd : F -> F -> F) (fzero : F),
  (forall a b c, fadd a (fadd b c) = fadd (fadd a b) c) -> (forall a b, fadd a b = fadd b a) -> (forall a, fadd fzero a = a) ->
  forall ops, let st := fold_left (astep F fadd fzero) ops ([], fzero) in
  fadd (snd st) (fsum F fadd fzero (fst st)) = fsum F fadd fzero (arecorded F ops).
Proof. exact sum_once. Qed.

Theorem C07_labels_global_overridden_by_key : forall g kl,
  imap_of (g ++ kl) = spec_labels g kl /\ key_labels g kl = map label_string (spec_labels g kl).
Proof. intros g kl. split; [apply labels_global_overridden_by_key|apply key_labels_spec]. Qed.

Theorem C07_help_is_first_description :
  (forall c h n, aget str_eqb n (descr (fst (run c init h))) = spec_desc n h)
  /\ (forall n pre dk nm u t post, existsb (describes n) pre = false -> sanitize_metric_name nm = n ->
      spec_desc n (pre ++ Describe dk nm u t :: post) = Some (t, u)).
Proof. split; [exact model_descr_is_spec|exact help_is_first_description]. Qed.

Theorem C07_render_idempotent : forall c h, wf_names c = true ->
  (exists outs r, snd (run c init (h ++ [Render; Render])) = outs ++ [r; r])
  /\ (forall pre o, o = Render \/ o = Upkeep -> spec_render c (pre ++ [o]) = spec_render c pre).
Proof. intros c h wf. split; [apply render_idempotent; auto|intros; apply spec_render_neutral; auto]. Qed.

(* the model's rendering lists the entries of [dists] by looking up every registered histogram key;
   no entry is left out: each entry of the map is the entry of a registered histogram key of the
   table, and no two entries have the same (name, labels) *)
Theorem C07_distributions_belong_to_registered_keys : forall c h,
  let s := fst (run c init h) in
  NoDup (map fst (dists s)) /\
  forall p, In p (map fst (dists s)) ->
  exists j kj, In j (map fst (pend s)) /\ key_at c j = Some kj /\ k_kind kj = KH /\ parts c kj = p.
Proof. intros c h. apply dists_belong_to_registered_keys; apply DI_init. Qed.

Theorem C07_spec_ok_on_model : forall c, spec_ok c (run_case c) = true.
Proof. exact spec_ok_on_model. Qed.

Theorem C07_spec_ok_iff : forall c o,
  spec_ok c o = true <-> (wf_names (fst c) = true -> all2 render_eqb (spec_outs (fst c) (snd c)) o = true).
Proof. exact spec_ok_iff. Qed.

(* the precondition is satisfiable on a non-trivial case: two histogram keys of one family (one global
   label overridden by a key label), a counter wrapping 2^64, a described family with a unit, records
   interleaved with upkeep and renders *)
Definition ex_case : case :=
  ({| c_globals := [([103], [49])]; c_unit_on := true; c_quantiles := [4602678819172646912];
      c_buckets := Some [4; 8]%Z; c_overrides := [];
      c_keys := [ {| k_kind := KH; k_name := [108; 45]; k_labels := [] |};
                  {| k_kind := KH; k_name := [108; 45]; k_labels := [([103], [50])] |};
                  {| k_kind := KC; k_name := [99]; k_labels := [] |} ] |},
   [Rec 0 4%Z; Describe KC [108; 95] (Some Seconds) [104]; Upkeep; Rec 0 9%Z; Rec 1 1%Z; Inc 2 18446744073709551615;
    Render; Inc 2 2; Describe KH [108; 45] None [120]; Rec 0 5%Z; Render; Render]).

Theorem C07_example_nontrivial :
  wf_names (fst ex_case) = true
  /\ List.length (run_case ex_case) = 3%nat
  /\ In {| a_fam := [108; 95; 95; 115; 101; 99; 111; 110; 100; 115]; a_type := 2; a_help := Some [104];
           a_name := [108; 95; 95; 115; 101; 99; 111; 110; 100; 115; 95; 99; 111; 117; 110; 116];
           a_labels := [[103; 61; 34; 49; 34]]; a_extra := XNone; a_val := VInt 3 |} (last (run_case ex_case) [])
  /\ In {| a_fam := [99]; a_type := 0; a_help := None; a_name := [99]; a_labels := [[103; 61; 34; 49; 34]];
           a_extra := XNone; a_val := VInt 1 |} (last (run_case ex_case) []).
Proof. vm_compute. repeat split; auto 20. Qed.
