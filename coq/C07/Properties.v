(* C07 — property theorems (statements only; proofs in ProofsBase / ProofsInv / ProofsSpec / ProofsClauses).

   Reading guide.  [run c init h] is the model of the recorder (Model.v) run over the history [h] with
   configuration and key table [c]; its second component lists the structured renderings, one per
   Render.  [spec_outs c h] (Spec.v) is the specification: the rendering at a Render is a closed
   function of the history before it ([spec_counter], [spec_gauge], [records], [spec_desc],
   [spec_labels]).  [wf_names c] is the property's precondition on names.  [records i h] are the
   samples recorded under key i; [dist_count]/[dist_sum] read the distribution entry of the key;
   [pend] holds the samples not yet drained.                                                      *)
From Coq Require Import List NArith ZArith Bool.
Import ListNotations.
Require Import MV.C07.Exec MV.C07.ProofsBase MV.C07.ProofsInv MV.C07.ProofsSpec MV.C07.ProofsClauses MV.C07.ProofsWalk.
Require Import MV.Common.Interleave MV.C07.ConcModel MV.C07.ConcInv MV.C07.ConcProofs.
Open Scope N_scope.

Theorem C07_model_meets_spec : forall c h, wf_names c = true -> snd (run c init h) = spec_outs c h.
Proof. intros c h wf. apply model_meets_spec. exact wf. Qed.

Theorem C07_counter_value : forall i pre,
  (abss i pre = [] -> spec_counter i pre = nsum (incs i pre) mod two64)
  /\ (incs i pre = [] -> spec_counter i pre = nmax (abss i pre)).
Proof. intros i pre. split; [apply counter_only_increments|apply counter_only_absolutes]. Qed.

Theorem C07_gauge_value : forall i pre v post, forallb (gauge_quiet i) post = true ->
  spec_gauge i (pre ++ GSet i v :: post) = v
  /\ spec_gauge i (pre ++ GInc i v :: post) = xadd (spec_gauge i pre) v
  /\ spec_gauge i (pre ++ GDec i v :: post) = xadd (spec_gauge i pre) (xneg v)
  /\ spec_gauge i (pre ++ post) = spec_gauge i pre.
Proof. exact gauge_value. Qed.

Theorem C07_every_sample_once : forall c, wf_names c = true ->
  forall h i k, key_at c i = Some k -> k_kind k = KH ->
  (let s := fst (run c init h) in
   let e := aget parts_eqb (parts c k) (dists s) in
   N.of_nat (List.length (records i h)) = dist_count e + N.of_nat (List.length (dflt (aget N.eqb i (pend s)) []))
   /\ xsum (records i h) = xadd (dist_sum e) (xsum (dflt (aget N.eqb i (pend s)) [])))
  /\ (forall o, o = Render \/ o = Upkeep -> registered i k h = true ->
      let s := fst (run c init (h ++ [o])) in
      let e := aget parts_eqb (parts c k) (dists s) in
      aget N.eqb i (pend s) = Some [] /\
      dist_count e = N.of_nat (List.length (records i h)) /\ dist_sum e = xsum (records i h)).
Proof.
  intros c wf h i k Hi Hk. split; [apply every_sample_once; auto|].
  intros o Ho Hr. apply drained_count; auto.
Qed.

Theorem C07_sum_once : forall (F : Type) (fadd : F -> F -> F) (fzero : F),
  (forall a b c, fadd a (fadd b c) = fadd (fadd a b) c) -> (forall a b, fadd a b = fadd b a) -> (forall a, fadd fzero a = a) ->
  forall ops, let st := fold_left (astep F fadd fzero) ops ([], fzero) in
  fadd (snd st) (fsum F fadd fzero (fst st)) = fsum F fadd fzero (arecorded F ops).
Proof. exact sum_once. Qed.

(* samples, sums and gauge values range over exact quarter-unit numbers extended with +inf, -inf and NaN
   ([xnum]: the exact finite part and how many of each special value went into the sum; [cls] is the double
   it denotes).  Componentwise addition is a commutative monoid, it is IEEE addition on the classes ([cadd]:
   NaN absorbs, inf + -inf = NaN, inf + finite = inf, finite + finite exact), so C07_sum_once applies to
   sums containing special values, and the model's _sum / gauge value is shown as that class. *)
Theorem C07_sum_once_with_special_values :
  (forall a b c, xadd a (xadd b c) = xadd (xadd a b) c) /\ (forall a b, xadd a b = xadd b a) /\ (forall a, xadd xzero a = a)
  /\ (forall a b, cls (xadd a b) = cadd (cls a) (cls b))
  /\ (forall a, cls (xneg a) = match cls a with CNaN => CNaN | CPInf => CNInf | CNInf => CPInf | CFin z => CFin (- z) end)
  /\ (forall ops, let st := fold_left (astep xnum xadd xzero) ops ([], xzero) in
      xadd (snd st) (fsum xnum xadd xzero (fst st)) = fsum xnum xadd xzero (arecorded xnum ops)).
Proof.
  split; [exact xadd_assoc|]. split; [exact xadd_comm|]. split; [exact xadd_zero_l|]. split; [exact cls_xadd|].
  split; [exact cls_xneg|exact sum_once_xnum].
Qed.

Theorem C07_labels_global_overridden_by_key : forall g kl,
  imap_of (g ++ kl) = spec_labels g kl /\ key_labels g kl = map label_string (spec_labels g kl).
Proof. intros g kl. split; [apply labels_global_overridden_by_key|apply key_labels_spec]. Qed.

Theorem C07_help_is_first_description :
  (forall c h n, aget str_eqb n (descr (fst (run c init h))) = spec_desc n h)
  /\ (forall n pre dk nm u t post, existsb (describes n) pre = false -> sanitize_metric_name nm = n ->
      spec_desc n (pre ++ Describe dk nm u t :: post) = Some (t, u)).
Proof. split; [exact model_descr_is_spec|exact help_is_first_description]. Qed.

Theorem C07_render_idempotent : forall c h, wf_names c = true ->
  (exists outs r, snd (run c init (h ++ [Render; Render])) = outs ++ [r; r])
  /\ (forall pre o, o = Render \/ o = Upkeep -> spec_render c (pre ++ [o]) = spec_render c pre).
Proof. intros c h wf. split; [apply render_idempotent; auto|intros; apply spec_render_neutral; auto]. Qed.

(* the model's rendering lists the entries of [dists] by looking up every registered histogram key;
   no entry is left out: each entry of the map is the entry of a registered histogram key of the
   table, and no two entries have the same (name, labels) *)
Theorem C07_distributions_belong_to_registered_keys : forall c h,
  let s := fst (run c init h) in
  NoDup (map fst (dists s)) /\
  forall p, In p (map fst (dists s)) ->
  exists j kj, In j (map fst (pend s)) /\ key_at c j = Some kj /\ k_kind kj = KH /\ parts c kj = p.
Proof. intros c h. apply dists_belong_to_registered_keys; apply DI_init. Qed.

Theorem C07_spec_ok_on_model : forall c, spec_ok c (run_case c) = true.
Proof. exact spec_ok_on_model. Qed.

Theorem C07_spec_ok_iff : forall c o,
  spec_ok c o = true <-> (wf_names (fst c) = true -> all2 render_eqb (spec_outs (fst c) (snd c)) o = true).
Proof. exact spec_ok_iff. Qed.

(* the precondition is satisfiable on a non-trivial case: two histogram keys of one family (one global
   label overridden by a key label), a counter wrapping 2^64, a described family with a unit, records
   interleaved with upkeep and renders *)
Definition ex_case : case :=
  ({| c_globals := [([103], [49])]; c_unit_on := true; c_quantiles := [4602678819172646912];
      c_buckets := Some [4; 8]%Z; c_overrides := [];
      c_keys := [ {| k_kind := KH; k_name := [108; 45]; k_labels := [] |};
                  {| k_kind := KH; k_name := [108; 45]; k_labels := [([103], [50])] |};
                  {| k_kind := KC; k_name := [99]; k_labels := [] |} ] |},
   [Rec 0 (xfin 4); Describe KC [108; 95] (Some Seconds) [104]; Upkeep; Rec 0 (xfin 9); Rec 1 (xfin 1); Inc 2 18446744073709551615;
    Render; Inc 2 2; Describe KH [108; 45] None [120]; Rec 0 (xfin 5); Render; Render]).

Theorem C07_example_nontrivial :
  wf_names (fst ex_case) = true
  /\ List.length (run_case ex_case) = 3%nat
  /\ In {| a_fam := [108; 95; 95; 115; 101; 99; 111; 110; 100; 115]; a_type := 2; a_help := Some [104];
           a_name := [108; 95; 95; 115; 101; 99; 111; 110; 100; 115; 95; 99; 111; 117; 110; 116];
           a_labels := [[103; 61; 34; 49; 34]]; a_extra := XNone; a_val := VInt 3 |} (last (run_case ex_case) [])
  /\ In {| a_fam := [99]; a_type := 0; a_help := None; a_name := [99]; a_labels := [[103; 61; 34; 49; 34]];
           a_extra := XNone; a_val := VInt 1 |} (last (run_case ex_case) []).
Proof. vm_compute. repeat split; auto 20. Qed.

(* special values through the accounting: finite samples 1.0 and 2.0 with a +inf sample give _count 3, buckets
   1 / 2 / +Inf 3 and _sum +inf; a -inf and a NaN sample then give _count 5, every finite bucket one more (-inf
   is <= every bound, NaN and +inf are in no finite bucket), _sum NaN; a gauge set to +inf, incremented, then
   decremented by +inf reads +inf and then NaN *)
Definition ex_special : case :=
  ({| c_globals := []; c_unit_on := false; c_quantiles := [4602678819172646912];
      c_buckets := Some [4; 8]%Z; c_overrides := [];
      c_keys := [ {| k_kind := KH; k_name := [104]; k_labels := [] |}; {| k_kind := KG; k_name := [103]; k_labels := [] |} ] |},
   [Rec 0 (xfin 4); Rec 0 xpinf; Rec 0 (xfin 8); GSet 1 xpinf; GInc 1 (xfin 5); Render;
    Rec 0 xninf; Rec 0 xnan; GDec 1 xpinf; Render]).
Theorem C07_example_special_values :
  wf_names (fst ex_special) = true
  /\ map (map (fun a => (a_extra a, a_val a))) (run_case ex_special)
     = [ [(XLe 4, VInt 1); (XLe 8, VInt 2); (XInf, VInt 3); (XNone, VPInf); (XNone, VInt 3); (XNone, VPInf)];
         [(XLe 4, VInt 2); (XLe 8, VInt 3); (XInf, VInt 5); (XNone, VNaN); (XNone, VInt 5); (XNone, VNaN)] ].
Proof. vm_compute. split; reflexivity. Qed.

(* ------------------------------------------------------------------------------------------------
   The concurrent clause: interleaving model of ConcModel.v (Common/Interleave.v).  [final ps sched] is
   the configuration reached by threads running the programs [ps] under the schedule [sched] (ANY list
   of thread indices); [c_log] its ghost history; [recorded k log] the values pushed under key k,
   [drained k log] the values taken by clear steps, [aggregated k log] those folded into the key's
   distribution entry, [inflight] those a clear has taken and its holder of the lock has not folded yet.
   Atomicity of the single steps is assumed from C04 / C05 (outside its open late-claim class) / C06;
   the model is tied to the code by the free-running engines only. *)

(* (a) exactly once, at every configuration of every schedule: what was drained, followed by what is in
   the bucket, IS what was recorded (same values, same order, nothing twice); what was drained is in the
   distribution entry or in flight inside the critical section; the entry's count and sum are those of
   the aggregated values *)
Theorem C07_conc_every_sample_once : forall ps sched k,
  let s := fst (final ps sched) in
  drained k (c_log s) ++ c_bkt s k = recorded k (c_log s)
  /\ drained k (c_log s) = aggregated k (c_log s) ++ inflight k (c_lock s)
  /\ c_agg s k = (N.of_nat (List.length (aggregated k (c_log s))), zsumc (aggregated k (c_log s)))
  /\ fst (c_agg s k) + N.of_nat (List.length (inflight k (c_lock s))) + N.of_nat (List.length (c_bkt s k))
     = N.of_nat (List.length (recorded k (c_log s)))
  /\ (snd (c_agg s k) + zsumc (inflight k (c_lock s)) + zsumc (c_bkt s k))%Z = zsumc (recorded k (c_log s)).
Proof. exact conc_conservation. Qed.

(* a clear step takes all the records of the key pushed before it and not taken by an earlier clear *)
Theorem C07_conc_drain_takes_all_pushed_before : forall ps sched l1 k xs l2,
  c_log (fst (final ps sched)) = l1 ++ EDrain k xs :: l2 -> drained k l1 ++ xs = recorded k l1.
Proof. exact conc_drain. Qed.

(* a render's _count / _sum of a key = the values drained (by any thread) before its snapshot step: an
   initial segment, in push order, of the records pushed before it *)
Theorem C07_conc_render_shows_drained : forall ps sched l1 out l2 k c sm,
  c_log (fst (final ps sched)) = l1 ++ ESnap out :: l2 -> In (k, (c, sm)) out ->
  c = N.of_nat (List.length (drained k l1)) /\ sm = zsumc (drained k l1)
  /\ exists rest, drained k l1 ++ rest = recorded k l1.
Proof. exact conc_snapshot. Qed.

(* (b) visibility: every record pushed before a clear of its key (the render's own, or anybody's) that
   precedes the snapshot is in that snapshot; and _count never decreases from a snapshot to a later one *)
Theorem C07_conc_visibility : forall ps sched l1 k xs l2 out l3 c sm,
  c_log (fst (final ps sched)) = l1 ++ EDrain k xs :: l2 ++ ESnap out :: l3 -> In (k, (c, sm)) out ->
  N.of_nat (List.length (recorded k l1)) <= c
  /\ exists more, drained k (l1 ++ EDrain k xs :: l2) = recorded k l1 ++ more.
Proof. exact conc_visibility. Qed.

Theorem C07_conc_count_monotone : forall ps sched l1 o1 l2 o2 l3 k c1 s1 c2 s2,
  c_log (fst (final ps sched)) = l1 ++ ESnap o1 :: l2 ++ ESnap o2 :: l3 ->
  In (k, (c1, s1)) o1 -> In (k, (c2, s2)) o2 -> c1 <= c2.
Proof. exact conc_count_monotone. Qed.

(* (c) a counter / gauge reading is the sequential fold (fetch_add mod 2^64 / fetch_max; set / + / -) of
   the updates whose step preceded the load; counters do not go backwards while the total does not wrap *)
Theorem C07_conc_counter_gauge_reading : forall ps sched,
  (forall l1 k v l2, c_log (fst (final ps sched)) = l1 ++ ELoadC k v :: l2 -> v = fold_left capply (cupds k l1) 0)
  /\ (forall l1 k z l2, c_log (fst (final ps sched)) = l1 ++ ELoadG k z :: l2 -> z = fold_left gapply (gupds k l1) 0%Z)
  /\ (forall l1 k v1 l2 v2 l3, c_log (fst (final ps sched)) = l1 ++ ELoadC k v1 :: l2 ++ ELoadC k v2 :: l3 ->
      cbound (cupds k (l1 ++ ELoadC k v1 :: l2)) < two64c -> v1 <= v2).
Proof.
  intros ps sched. split; [apply conc_load_counter|split; [apply conc_load_gauge|apply conc_counter_monotone]].
Qed.

(* (d) two snapshots with no record of the key since a clear that precedes the first one show the same
   _count and _sum, namely all the records pushed before that clear *)
Theorem C07_conc_render_twice : forall ps sched l0 k xs m o1 l2 o2 l3 c1 s1 c2 s2,
  c_log (fst (final ps sched)) = l0 ++ EDrain k xs :: m ++ ESnap o1 :: l2 ++ ESnap o2 :: l3 ->
  recorded k (m ++ ESnap o1 :: l2) = [] ->
  In (k, (c1, s1)) o1 -> In (k, (c2, s2)) o2 ->
  c1 = c2 /\ s1 = s2 /\ c1 = N.of_nat (List.length (recorded k l0)) /\ s1 = zsumc (recorded k l0).
Proof. exact conc_render_twice. Qed.

(* what a thread's render() returned is what its load and snapshot steps logged *)
Theorem C07_conc_outputs_are_steps : forall ps sched l r,
  In l (snd (final ps sched)) -> In r (outs l) ->
  let log := c_log (fst (final ps sched)) in
  In (ESnap (r_dist r)) log /\
  (forall k v, In (k, v) (r_ctr r) -> In (ELoadC k v) log) /\
  (forall k z, In (k, z) (r_gau r) -> In (ELoadG k z) log).
Proof. exact conc_outputs_are_steps. Qed.

(* a racing schedule evaluated: two recorders, a render and an upkeep; the upkeep holds the lock while
   the render waits, records race both clears, a record pushed after the render's clear is not in its
   first snapshot (4 samples, sum 10) and is in the second (5, 15) *)
Theorem C07_conc_example :
  outs (nth 2 (snd (final ex_progs ex_sched)) (init_local (0, [])))
  = [ {| r_ctr := []; r_gau := []; r_dist := [(7, (4, 10%Z))] |};
      {| r_ctr := [(3, 9)]; r_gau := [(9, 4%Z)]; r_dist := [(7, (5, 15%Z))] |} ]
  /\ c_lock (fst (final ex_progs ex_sched)) = Free
  /\ c_bkt (fst (final ex_progs ex_sched)) 7 = [].
Proof. exact conc_example. Qed.

