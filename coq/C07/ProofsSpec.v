(* C07 — from the slot folds to the specification: what each fold amounts to in terms of the
   history (closed forms of Spec.v), the rendering of a state that satisfies the invariant, and
   the refinement theorem  snd (run c init h) = spec_outs c h. *)
From Coq Require Import List NArith ZArith Bool Lia.
Import ListNotations.
Require Import MV.C08.Model MV.C07.Model MV.C07.Spec MV.C07.ProofsBase MV.C07.ProofsInv.
Require MV.C15.Model MV.C15.Spec MV.C15.ProofsHist MV.C15.ProofsDist.
Open Scope N_scope.

Module HS := MV.C15.Spec.
Module HP := MV.C15.ProofsHist.

(* ---- the extended numbers: a commutative monoid whose classes add as IEEE doubles do *)
Lemma xadd_assoc a b c : xadd a (xadd b c) = xadd (xadd a b) c.
Proof. destruct a, b, c. unfold xadd. cbn. f_equal; lia. Qed.
Lemma xadd_comm a b : xadd a b = xadd b a.
Proof. destruct a, b. unfold xadd. cbn. f_equal; lia. Qed.
Lemma xadd_zero_l a : xadd xzero a = a.
Proof. destruct a. unfold xadd. cbn. f_equal; lia. Qed.
Lemma xadd_zero_r a : xadd a xzero = a.
Proof. rewrite xadd_comm. apply xadd_zero_l. Qed.

(* IEEE addition on the classes (finite + finite exact) *)
Definition cadd (a b : xclass) : xclass :=
  match a, b with
  | CNaN, _ | _, CNaN => CNaN
  | CPInf, CNInf | CNInf, CPInf => CNaN
  | CPInf, _ | _, CPInf => CPInf
  | CNInf, _ | _, CNInf => CNInf
  | CFin x, CFin y => CFin (x + y)
  end.
Lemma nz_add a b : (a + b =? 0) = (a =? 0) && (b =? 0).
Proof. destruct (N.eqb_spec a 0), (N.eqb_spec b 0), (N.eqb_spec (a + b) 0); cbn; auto; lia. Qed.
Lemma cls_xadd a b : cls (xadd a b) = cadd (cls a) (cls b).
Proof.
  destruct a as [fa pa na ea], b as [fb pb nb eb]. unfold cls, xadd. cbn [x_fin x_pinf x_ninf x_nan]. rewrite !nz_add.
  destruct (pa =? 0), (na =? 0), (ea =? 0), (pb =? 0), (nb =? 0), (eb =? 0); reflexivity.
Qed.
Lemma cls_xneg a : cls (xneg a) = match cls a with CNaN => CNaN | CPInf => CNInf | CNInf => CPInf | CFin z => CFin (- z) end.
Proof.
  destruct a as [fa pa na ea]. unfold cls, xneg. cbn [x_fin x_pinf x_ninf x_nan].
  destruct (pa =? 0), (na =? 0), (ea =? 0); reflexivity.
Qed.

Lemma zle_trans : forall a b c : H.F ZF, H.fle ZF a b = true -> H.fle ZF b c = true -> H.fle ZF a c = true.
Proof.
  cbn [H.fle H.F ZF]. unfold xle. intros a b c. destruct (cls a), (cls b), (cls c); intros H1 H2; try discriminate; auto.
  apply Z.leb_le in H1, H2. apply Z.leb_le. lia.
Qed.

Lemma zsum_app a b : xsum (a ++ b) = xadd (xsum a) (xsum b).
Proof.
  unfold xsum. induction a as [|x a IH]; cbn [app fold_right]; [rewrite xadd_zero_l; reflexivity|].
  rewrite IH. apply xadd_assoc.
Qed.
Lemma fold_add_zsum l : forall a, fold_left xadd l a = xadd a (xsum l).
Proof.
  induction l as [|x l IH]; intros a; cbn [fold_left]; [unfold xsum; cbn [fold_right]; rewrite xadd_zero_r; reflexivity|].
  rewrite IH. unfold xsum. cbn [fold_right]. rewrite xadd_assoc. reflexivity.
Qed.
Lemma fold_summ bag : forall n s,
  fold_left (fun '(n, s) x => (n + 1, xadd s x)) bag (n, s) = (n + N.of_nat (List.length bag), xadd s (xsum bag)).
Proof.
  induction bag as [|x bag IH]; intros n s; cbn [fold_left List.length].
  - f_equal; [lia|unfold xsum; cbn [fold_right]; rewrite xadd_zero_r; reflexivity].
  - rewrite IH. f_equal; [lia|unfold xsum; cbn [fold_right]; rewrite xadd_assoc; reflexivity].
Qed.
Lemma map_combine_map {A B C} (f : A * B -> C) (g : A -> B) l :
  map f (combine l (map g l)) = map (fun x => f (x, g x)) l.
Proof. induction l; cbn; auto. f_equal. auto. Qed.

Section WithCfg.
Variable c : cfg.
Hypothesis wf : wf_names c = true.

Ltac snoc :=
  rewrite fold_left_app; cbn [fold_left];
  unfold registered; rewrite existsb_app; cbn [existsb]; rewrite orb_false_r.

(* ---- counters, gauges, raw gauges *)
Lemma fold_ctr i k pre : key_at c i = Some k -> k_kind k = KC ->
  fold_left (p_ctr c i) pre None = (if registered i k pre then Some (spec_counter i pre) else None)
  /\ (registered i k pre = false -> spec_counter i pre = 0).
Proof.
  intros Hi Hk. induction pre as [|o pre [IH1 IH2]] using rev_ind; [split; reflexivity|].
  snoc. fold (registered i k pre). rewrite IH1. unfold spec_counter. rewrite fold_left_app. cbn [fold_left].
  fold (spec_counter i pre). unfold mine. rewrite Hk.
  destruct o as [j|j v|j v|j v|j v|j v|j b|j v|dk n u t| |];
    cbn [p_ctr op_index counter_step op_kind_ok]; rewrite ?andb_false_r, ?andb_true_r, ?orb_false_r; auto;
    (destruct (N.eqb_spec j i) as [->|Hn]; cbn [andb];
     [unfold is_kind; rewrite Hi, Hk; cbn [mkind_eqb]|]; rewrite ?orb_false_r, ?orb_true_r; auto;
     destruct (registered i k pre) eqn:R; cbn; split; intros; try discriminate; try rewrite (IH2 eq_refl); auto).
Qed.

Lemma fold_gau i k pre : key_at c i = Some k -> k_kind k = KG ->
  fold_left (p_gau c i) pre None = (if registered i k pre then Some (spec_gauge i pre) else None)
  /\ (registered i k pre = false -> spec_gauge i pre = xzero).
Proof.
  intros Hi Hk. induction pre as [|o pre [IH1 IH2]] using rev_ind; [split; reflexivity|].
  snoc. fold (registered i k pre). rewrite IH1. unfold spec_gauge. rewrite fold_left_app. cbn [fold_left].
  fold (spec_gauge i pre). unfold mine. rewrite Hk.
  destruct o as [j|j v|j v|j v|j v|j v|j b|j v|dk n u t| |];
    cbn [p_gau op_index gauge_step op_kind_ok]; rewrite ?andb_false_r, ?andb_true_r, ?orb_false_r; auto;
    (destruct (N.eqb_spec j i) as [->|Hn]; cbn [andb];
     [unfold is_kind; rewrite Hi, Hk; cbn [mkind_eqb]|]; rewrite ?orb_false_r, ?orb_true_r; auto;
     destruct (registered i k pre) eqn:R; cbn; split; intros; try discriminate; try rewrite (IH2 eq_refl); auto).
Qed.

Lemma fold_raw i k pre : key_at c i = Some k -> k_kind k = KR ->
  fold_left (p_raw c i) pre None = (if registered i k pre then Some (spec_raw i pre) else None)
  /\ (registered i k pre = false -> spec_raw i pre = 0).
Proof.
  intros Hi Hk. induction pre as [|o pre [IH1 IH2]] using rev_ind; [split; reflexivity|].
  snoc. fold (registered i k pre). rewrite IH1. unfold spec_raw. rewrite fold_left_app. cbn [fold_left].
  fold (spec_raw i pre). unfold mine. rewrite Hk.
  destruct o as [j|j v|j v|j v|j v|j v|j b|j v|dk n u t| |];
    cbn [p_raw op_index raw_step op_kind_ok]; rewrite ?andb_false_r, ?andb_true_r, ?orb_false_r; auto;
    (destruct (N.eqb_spec j i) as [->|Hn]; cbn [andb];
     [unfold is_kind; rewrite Hi, Hk; cbn [mkind_eqb]|]; rewrite ?orb_false_r, ?orb_true_r; auto;
     destruct (registered i k pre) eqn:R; cbn; split; intros; try discriminate; try rewrite (IH2 eq_refl); auto).
Qed.

(* ---- descriptions: the first one wins *)
Lemma fold_descr n pre : forall acc,
  fold_left (p_descr n) pre acc = match acc with Some x => Some x | None => spec_desc n pre end.
Proof.
  induction pre as [|o pre IH]; intros acc; cbn [fold_left spec_desc]; [destruct acc; reflexivity|].
  rewrite IH. destruct o; cbn [p_descr]; auto.
  destruct (str_eqb (sanitize_metric_name name) n); destruct acc; auto.
Qed.

(* ---- histogram keys: drained ++ pending = recorded, and the distribution holds the drained ones *)
Definition dclosed (k : key) (dr : list xnum) (d : dist) : Prop :=
  match H.get_distribution ZF (dbuilder_of c) (sname k) with
  | Some b => exists h, d = DHist h /\ HP.hist_inv ZF b dr h /\ H.h_sum ZF h = xsum dr
  | None => d = DSumm (N.of_nat (List.length dr)) (xsum dr)
  end.
Definition dstate (k : key) (dr : list xnum) (e : option dist) : Prop :=
  match e with None => dr = [] | Some d => dclosed k dr d end.
Definition HR (i : N) (k : key) (pre : list op) (pe : option (list xnum) * option dist) : Prop :=
  if registered i k pre
  then exists dr bag, fst pe = Some bag /\ dr ++ bag = records i pre /\ dstate k dr (snd pe)
  else pe = (None, None) /\ records i pre = [].

Lemma new_closed k : k_kind k = KH -> bounds_ok c k = true -> dclosed k [] (new_dist c (sname k)).
Proof.
  intros Hk Hb. unfold dclosed, new_dist, bounds_ok in *. rewrite Hk in Hb.
  destruct (H.get_distribution ZF (dbuilder_of c) (sname k)) as [b|]; [|reflexivity].
  apply andb_prop in Hb as [Hne _]. destruct b as [|x b]; [discriminate|].
  cbn [H.hist_new]. eexists. split; [reflexivity|]. split; [apply HP.hist_new_inv; reflexivity|reflexivity].
Qed.

Lemma record_closed k dr d bag : k_kind k = KH -> bounds_ok c k = true ->
  dclosed k dr d -> dclosed k (dr ++ bag) (record_samples d bag).
Proof.
  intros Hk Hb. unfold dclosed, bounds_ok in *. rewrite Hk in Hb.
  destruct (H.get_distribution ZF (dbuilder_of c) (sname k)) as [b|].
  - apply andb_prop in Hb as [_ Hasc]. intros (h & -> & Hinv & Hsum).
    exists (H.record_many ZF h bag). split; [reflexivity|]. split.
    + apply HP.record_many_inv; auto. exact zle_trans.
    + unfold H.record_many. cbn [H.h_sum]. change (H.fadd ZF) with xadd. change (H.fzero ZF) with xzero.
      rewrite Hsum, fold_add_zsum, zsum_app, xadd_zero_l. reflexivity.
  - intros ->. cbn [record_samples]. rewrite fold_summ. rewrite app_length, Nat2N.inj_add, zsum_app. reflexivity.
Qed.

Lemma fold_hist i k pre : key_at c i = Some k -> k_kind k = KH ->
  HR i k pre (fold_left (p_hist c k i) pre (None, None)).
Proof.
  intros Hi Hk. assert (Hb := bounds_ok_at c wf i k Hi).
  induction pre as [|o pre IH] using rev_ind; [split; reflexivity|].
  unfold HR in *. snoc. fold (registered i k pre). unfold records in *. rewrite flat_map_app. cbn [flat_map].
  rewrite app_nil_r. fold (records i pre) in *.
  destruct (fold_left (p_hist c k i) pre (None, None)) as [p e]. unfold p_hist. cbn [fst snd] in *.
  unfold mine. rewrite Hk.
  destruct o as [j|j v|j v|j v|j v|j v|j b|j v|dk n u t| |];
    cbn [p_pend p_dist op_index rec_of op_kind_ok]; rewrite ?andb_false_r, ?andb_true_r, ?orb_false_r, ?app_nil_r; auto.
  - (* Register *)
    destruct (N.eqb_spec j i) as [->|Hn]; cbn [andb]; rewrite ?orb_false_r, ?orb_true_r; auto.
    unfold is_kind. rewrite Hi, Hk. cbn [mkind_eqb].
    destruct (registered i k pre).
    + destruct IH as (dr & bag & -> & Hrec & Hst). exists dr, bag. auto.
    + destruct IH as [[= -> ->] Hrec]. exists [], []. rewrite Hrec. cbn. auto.
  - (* Rec *)
    destruct (N.eqb_spec j i) as [->|Hn]; cbn [andb]; rewrite ?orb_false_r, ?orb_true_r, ?app_nil_r; auto.
    unfold is_kind. rewrite Hi, Hk. cbn [mkind_eqb].
    destruct (registered i k pre).
    + destruct IH as (dr & bag & -> & Hrec & Hst). exists dr, (bag ++ [v]). cbn. rewrite app_assoc, Hrec. auto.
    + destruct IH as [[= -> ->] Hrec]. exists [], [v]. rewrite Hrec. cbn. auto.
  - (* Upkeep *)
    destruct (registered i k pre).
    + destruct IH as (dr & bag & -> & Hrec & Hst). exists (dr ++ bag), []. cbn. rewrite app_nil_r. repeat split; auto.
      destruct e as [d|]; cbn in *.
      * apply record_closed; auto.
      * subst dr. apply (record_closed k [] _ bag Hk Hb). apply new_closed; auto.
    + destruct IH as [[= -> ->] Hrec]. auto.
  - (* Render *)
    destruct (registered i k pre).
    + destruct IH as (dr & bag & -> & Hrec & Hst). exists (dr ++ bag), []. cbn. rewrite app_nil_r. repeat split; auto.
      destruct e as [d|]; cbn in *.
      * apply record_closed; auto.
      * subst dr. apply (record_closed k [] _ bag Hk Hb). apply new_closed; auto.
    + destruct IH as [[= -> ->] Hrec]. auto.
Qed.

(* what a histogram key's slots are right after a drain *)
Lemma hist_after_drain i k pre o : key_at c i = Some k -> k_kind k = KH -> o = Render \/ o = Upkeep ->
  let pe := fold_left (p_hist c k i) (pre ++ [o]) (None, None) in
  if registered i k pre then fst pe = Some [] /\ exists d, snd pe = Some d /\ dclosed k (records i pre) d
  else pe = (None, None).
Proof.
  intros Hi Hk Ho. assert (Hb := bounds_ok_at c wf i k Hi).
  assert (IH := fold_hist i k pre Hi Hk). unfold HR in IH. cbn zeta.
  rewrite fold_left_app. cbn [fold_left].
  destruct (fold_left (p_hist c k i) pre (None, None)) as [p e]. unfold p_hist. cbn [fst snd] in *.
  destruct (registered i k pre).
  - destruct IH as (dr & bag & -> & Hrec & Hst). rewrite <- Hrec.
    destruct Ho as [-> | ->]; cbn; (split; [reflexivity|]); eexists; (split; [reflexivity|]);
      (destruct e as [d|]; cbn in *; [apply record_closed; auto|subst dr; apply (record_closed k [] _ bag Hk Hb); apply new_closed; auto]).
  - destruct IH as [[= -> ->] _]. destruct Ho as [-> | ->]; reflexivity.
Qed.

(* ---- the rendering of a state reached by a history ending with Render *)
Lemma indexed_ge {A} (l : list A) : forall n i a, In (i, a) (indexed n l) -> n <= i.
Proof.
  induction l as [|x l IH]; intros n i a; cbn; [tauto|]. intros [[= <- <-]|H]; [lia|].
  apply IH in H. lia.
Qed.
Lemma indexed_aget {A} (l : list A) : forall n i a, In (i, a) (indexed n l) -> aget N.eqb i (indexed n l) = Some a.
Proof.
  induction l as [|x l IH]; intros n i a; cbn; [tauto|]. intros [[= <- <-]|H].
  - rewrite N.eqb_refl. reflexivity.
  - assert (Hge := indexed_ge _ _ _ _ H). destruct (N.eqb_spec i n); [lia|]. apply IH. exact H.
Qed.

Lemma header_ok pre s n : Inv c (pre ++ [Render]) s -> help_unit c s n = spec_header c pre n.
Proof.
  intros (_ & _ & _ & _ & Hd & _). unfold help_unit, spec_header. rewrite Hd, fold_left_app. cbn [fold_left p_descr].
  rewrite fold_descr. reflexivity.
Qed.

Lemma render_key_ok pre s i k : Inv c (pre ++ [Render]) s -> key_at c i = Some k ->
  render_key c s i k = spec_key c pre i k.
Proof.
  intros HI Hi. unfold render_key, spec_key. rewrite (header_ok pre s _ HI).
  fold (sname k). destruct (spec_header c pre (sname k)) as [help u].
  assert (Hl : snd (parts c k) = map label_string (spec_labels (c_globals c) (k_labels k))) by apply key_labels_spec.
  rewrite Hl. clear Hl.
  destruct HI as (Hc & Hg & Hr & Hh & _ & _).
  destruct (k_kind k) eqn:Hk.
  - rewrite Hc, fold_left_app. cbn [fold_left p_ctr]. rewrite (proj1 (fold_ctr i k pre Hi Hk)).
    destruct (registered i k pre); reflexivity.
  - rewrite Hg, fold_left_app. cbn [fold_left p_gau]. rewrite (proj1 (fold_gau i k pre Hi Hk)).
    destruct (registered i k pre); reflexivity.
  - rewrite Hr, fold_left_app. cbn [fold_left p_raw]. rewrite (proj1 (fold_raw i k pre Hi Hk)).
    destruct (registered i k pre); reflexivity.
  - specialize (Hh i k Hi Hk). assert (Hd := hist_after_drain i k pre Render Hi Hk (or_introl eq_refl)).
    cbn zeta in Hd. rewrite <- Hh in Hd. cbn [fst snd] in Hd.
    destruct (registered i k pre); cbn [negb].
    + destruct Hd as (Hp & d & Hd & Hcl). rewrite Hp, Hd. unfold dclosed in Hcl.
      destruct (H.get_distribution ZF (dbuilder_of c) (sname k)) as [b|] eqn:Hg'.
      * assert (Hty : H.get_distribution_type ZF (dbuilder_of c) (sname k) = true).
        { apply MV.C15.ProofsDist.type_iff_histogram. rewrite Hg'. discriminate. }
        rewrite Hty. destruct Hcl as (h & -> & (Hb & Hcnt & Hbk) & Hsum). cbn [dist_samples].
        rewrite Hb, Hbk, Hcnt, Hsum, map_combine_map. reflexivity.
      * assert (Hty : H.get_distribution_type ZF (dbuilder_of c) (sname k) = false).
        { destruct (H.get_distribution_type ZF (dbuilder_of c) (sname k)) eqn:E; auto.
          apply MV.C15.ProofsDist.type_iff_histogram in E. congruence. }
        rewrite Hty, Hcl. reflexivity.
    + injection Hd as Hp _. rewrite Hp. reflexivity.
Qed.

Lemma render_all_ok pre s : Inv c (pre ++ [Render]) s -> render_all c s = spec_render c pre.
Proof.
  intros HI. unfold render_all, spec_render.
  assert (G : forall l, (forall i k, In (i, k) l -> key_at c i = Some k) ->
              flat_map (fun ik => render_key c s (fst ik) (snd ik)) l = flat_map (fun ik => spec_key c pre (fst ik) (snd ik)) l).
  { induction l as [|[i k] l IH]; intros Hl; cbn [flat_map fst snd]; [reflexivity|].
    rewrite (render_key_ok pre s i k HI (Hl i k (or_introl eq_refl))). f_equal. apply IH. intros; apply Hl; right; auto. }
  apply G. intros i k Hin. apply indexed_aget. exact Hin.
Qed.

(* ---- the refinement *)
Lemma run_spec h : forall pre s, Inv c pre s -> snd (run c s h) = spec_outs_from c pre h.
Proof.
  induction h as [|o h IH]; intros pre s HI; [reflexivity|].
  cbn [run]. destruct (step c s o) as [s1 x] eqn:Hst.
  assert (H1 : Inv c (pre ++ [o]) s1) by (replace s1 with (fst (step c s o)) by (rewrite Hst; reflexivity); apply Inv_step; auto).
  assert (Hx : x = snd (step c s o)) by (rewrite Hst; reflexivity). rewrite step_out in Hx.
  specialize (IH (pre ++ [o]) s1 H1). destruct (run c s1 h) as [s2 xs]. cbn [snd] in *.
  destruct o; subst x; cbn [spec_outs_from]; try exact IH.
  f_equal; [|exact IH].
  replace (drain c s) with s1 by (cbn in Hst; congruence).
  apply render_all_ok. exact H1.
Qed.

Theorem model_meets_spec h : snd (run c init h) = spec_outs c h.
Proof. apply run_spec. apply Inv_init. Qed.

(* ---- accounting: after any history, recorded = counted in the distribution + pending *)
Definition dist_count (e : option dist) : N :=
  match e with Some (DHist h) => H.h_count ZF h | Some (DSumm n _) => n | None => 0 end.
Definition dist_sum (e : option dist) : xnum :=
  match e with Some (DHist h) => H.h_sum ZF h | Some (DSumm _ s) => s | None => xzero end.

Lemma run_Inv h : forall pre s, Inv c pre s -> Inv c (pre ++ h) (fst (run c s h)).
Proof.
  induction h as [|o h IH]; intros pre s HI; cbn [run]; [rewrite app_nil_r; exact HI|].
  destruct (step c s o) as [s1 x] eqn:Hst.
  assert (H1 : Inv c (pre ++ [o]) s1) by (replace s1 with (fst (step c s o)) by (rewrite Hst; reflexivity); apply Inv_step; auto).
  specialize (IH _ _ H1). destruct (run c s1 h) as [s2 xs]. cbn [fst] in *. rewrite <- app_assoc in IH. exact IH.
Qed.

Lemma dclosed_count k dr d : dclosed k dr d ->
  dist_count (Some d) = N.of_nat (List.length dr) /\ dist_sum (Some d) = xsum dr.
Proof.
  unfold dclosed. destruct (H.get_distribution ZF (dbuilder_of c) (sname k)).
  - intros (h & -> & (_ & Hc & _) & Hs). cbn. auto.
  - intros ->. cbn. auto.
Qed.

Theorem every_sample_once h i k : key_at c i = Some k -> k_kind k = KH ->
  let s := fst (run c init h) in
  let e := aget parts_eqb (parts c k) (dists s) in
  N.of_nat (List.length (records i h))
    = dist_count e + N.of_nat (List.length (dflt (aget N.eqb i (pend s)) []))
  /\ xsum (records i h) = xadd (dist_sum e) (xsum (dflt (aget N.eqb i (pend s)) [])).
Proof.
  intros Hi Hk. cbn zeta. destruct (run_Inv h [] init (Inv_init c)) as (_ & _ & _ & Hh & _).
  cbn [app] in Hh. specialize (Hh i k Hi Hk). assert (HRr := fold_hist i k h Hi Hk). rewrite <- Hh in HRr.
  unfold HR in HRr. cbn [fst snd] in HRr. destruct (registered i k h).
  - destruct HRr as (dr & bag & -> & <- & Hst). cbn [dflt]. rewrite app_length, Nat2N.inj_add, zsum_app.
    destruct (aget parts_eqb (parts c k) (dists (fst (run c init h)))) as [d|]; cbn [dstate] in Hst.
    + destruct (dclosed_count k dr d Hst) as [-> ->]. split; reflexivity.
    + subst dr. cbn [app List.length dist_count dist_sum]. change (xsum []) with xzero. rewrite !xadd_zero_l. split; reflexivity.
  - destruct HRr as [[= -> ->] ->]. cbn. split; reflexivity.
Qed.

(* after a drain nothing is pending: the distribution holds every sample recorded, each once *)
Theorem drained_count h o i k : key_at c i = Some k -> k_kind k = KH -> o = Render \/ o = Upkeep ->
  registered i k h = true ->
  let s := fst (run c init (h ++ [o])) in
  let e := aget parts_eqb (parts c k) (dists s) in
  aget N.eqb i (pend s) = Some [] /\
  dist_count e = N.of_nat (List.length (records i h)) /\ dist_sum e = xsum (records i h).
Proof.
  intros Hi Hk Ho Hreg. cbn zeta. destruct (run_Inv (h ++ [o]) [] init (Inv_init c)) as (_ & _ & _ & Hh & _).
  cbn [app] in Hh. specialize (Hh i k Hi Hk). assert (Hd := hist_after_drain i k h o Hi Hk Ho).
  cbn zeta in Hd. rewrite <- Hh, Hreg in Hd. cbn [fst snd] in Hd.
  destruct Hd as (Hp & d & -> & Hcl). split; [exact Hp|]. apply (dclosed_count k _ d Hcl).
Qed.

End WithCfg.
