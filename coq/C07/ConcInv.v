(* C07 — the invariant of the interleaving model (a property of the SHARED state and its ghost
   history only), and its preservation by every atomic step of every thread. *)
From Coq Require Import List NArith ZArith Bool Lia.
Import ListNotations.
Require Import MV.Common.Interleave MV.C07.ConcModel.
Open Scope N_scope.

(* ---- lists *)
Lemma snoc_case {A} (l : list A) : l = [] \/ exists l' x, l = l' ++ [x].
Proof. destruct l using rev_ind; [left; reflexivity|right; eauto]. Qed.
Lemma app_snoc_split {A} (l : list A) e l1 l2 : l ++ [e] = l1 ++ l2 ->
  (l2 = [] /\ l1 = l ++ [e]) \/ exists l2', l2 = l2' ++ [e] /\ l = l1 ++ l2'.
Proof.
  intros H. destruct (snoc_case l2) as [->|(l2' & x & ->)].
  - left. rewrite app_nil_r in H. auto.
  - right. rewrite app_assoc in H. apply app_inj_tail in H as [H1 H2]. subst. eauto.
Qed.
Lemma app_snoc_split_ev {A} (l : list A) e l1 x l2 : l ++ [e] = l1 ++ x :: l2 ->
  (l2 = [] /\ x = e /\ l1 = l) \/ exists l2', l2 = l2' ++ [e] /\ l = l1 ++ x :: l2'.
Proof.
  intros H. destruct (snoc_case l2) as [->|(l2' & y & ->)].
  - left. change (l1 ++ [x]) with (l1 ++ [x]) in H. apply app_inj_tail in H as [H1 H2]. subst. auto.
  - right. rewrite app_comm_cons, app_assoc in H. apply app_inj_tail in H as [H1 H2]. subst. eauto.
Qed.
Lemma zsumc_app a b : zsumc (a ++ b) = (zsumc a + zsumc b)%Z.
Proof. unfold zsumc. induction a as [|x a IH]; simpl; [reflexivity|]. rewrite IH. lia. Qed.

Lemma fupd_same {V} (f : N -> V) k v : fupd f k v k = v.
Proof. unfold fupd. rewrite N.eqb_refl. reflexivity. Qed.
Lemma fupd_other {V} (f : N -> V) k v x : x <> k -> fupd f k v x = f x.
Proof. unfold fupd. intros H. destruct (N.eqb_spec x k); [contradiction|reflexivity]. Qed.

(* ---- the history functions under one more event *)
Definition ev_rec (k : N) (e : cev) : list Z := match e with ERec k' v => if k' =? k then [v] else [] | _ => [] end.
Definition ev_drain (k : N) (e : cev) : list Z := match e with EDrain k' xs => if k' =? k then xs else [] | _ => [] end.
Definition ev_agg (k : N) (e : cev) : list Z := match e with EAgg k' xs => if k' =? k then xs else [] | _ => [] end.
Definition ev_cupd (k : N) (e : cev) : list cupd := match e with EUpdC k' u => if k' =? k then [u] else [] | _ => [] end.
Definition ev_gupd (k : N) (e : cev) : list gupd := match e with EUpdG k' u => if k' =? k then [u] else [] | _ => [] end.

Lemma recorded_app k a b : recorded k (a ++ b) = recorded k a ++ recorded k b.
Proof. apply flat_map_app. Qed.
Lemma drained_app k a b : drained k (a ++ b) = drained k a ++ drained k b.
Proof. apply flat_map_app. Qed.
Lemma aggregated_app k a b : aggregated k (a ++ b) = aggregated k a ++ aggregated k b.
Proof. apply flat_map_app. Qed.
Lemma cupds_app k a b : cupds k (a ++ b) = cupds k a ++ cupds k b.
Proof. apply flat_map_app. Qed.
Lemma gupds_app k a b : gupds k (a ++ b) = gupds k a ++ gupds k b.
Proof. apply flat_map_app. Qed.
Lemma recorded_snoc k l e : recorded k (l ++ [e]) = recorded k l ++ ev_rec k e.
Proof. rewrite recorded_app. cbn. rewrite app_nil_r. reflexivity. Qed.
Lemma drained_snoc k l e : drained k (l ++ [e]) = drained k l ++ ev_drain k e.
Proof. rewrite drained_app. cbn. rewrite app_nil_r. reflexivity. Qed.
Lemma aggregated_snoc k l e : aggregated k (l ++ [e]) = aggregated k l ++ ev_agg k e.
Proof. rewrite aggregated_app. cbn. rewrite app_nil_r. reflexivity. Qed.
Lemma cvalue_snoc k l e : cvalue k (l ++ [e]) = fold_left capply (ev_cupd k e) (cvalue k l).
Proof. unfold cvalue. rewrite cupds_app, fold_left_app. cbn. rewrite app_nil_r. reflexivity. Qed.
Lemma gvalue_snoc k l e : gvalue k (l ++ [e]) = fold_left gapply (ev_gupd k e) (gvalue k l).
Proof. unfold gvalue. rewrite gupds_app, fold_left_app. cbn. rewrite app_nil_r. reflexivity. Qed.

(* ---- the invariant *)
(* what has been drained is an initial segment of what has been recorded *)
Definition PC (k : N) (l : list cev) : Prop := exists b, drained k l ++ b = recorded k l.

(* what an observing event must carry, given the history before it *)
Definition ev_ok (l : list cev) (e : cev) : Prop :=
  match e with
  | EDrain k xs => drained k l ++ xs = recorded k l
  | ESnap out => forall k c sm, In (k, (c, sm)) out ->
                 c = N.of_nat (length (drained k l)) /\ sm = zsumc (drained k l)
  | ELoadC k v => v = cvalue k l
  | ELoadG k z => z = gvalue k l
  | _ => True
  end.

Definition CUR (s : csh) : Prop :=
  (forall k, drained k (c_log s) ++ c_bkt s k = recorded k (c_log s)) /\
  (forall k, drained k (c_log s) = aggregated k (c_log s) ++ inflight k (c_lock s)) /\
  (forall k, c_agg s k = (N.of_nat (length (aggregated k (c_log s))), zsumc (aggregated k (c_log s)))) /\
  (forall k, c_ctr s k = cvalue k (c_log s)) /\
  (forall k, c_gau s k = gvalue k (c_log s)).

Definition SInv (s : csh) : Prop :=
  CUR s /\
  (forall l1 l2, c_log s = l1 ++ l2 -> forall k, PC k l1) /\
  (forall l1 e l2, c_log s = l1 ++ e :: l2 -> ev_ok l1 e).

Lemma SInv_init : SInv cinit.
Proof.
  split; [|split].
  - repeat split; intros k; reflexivity.
  - intros l1 l2 H k. cbn in H. symmetry in H. apply app_eq_nil in H as [-> _]. exists []. reflexivity.
  - intros l1 e l2 H. cbn in H. destruct l1; discriminate.
Qed.

Lemma SInv_snoc s s' e : SInv s -> c_log s' = c_log s ++ [e] -> CUR s' -> ev_ok (c_log s) e -> SInv s'.
Proof.
  intros (Hc & Hp & He) Hl Hc' Hok. split; [exact Hc'|split].
  - intros l1 l2 H k. rewrite Hl in H. destruct (app_snoc_split _ _ _ _ H) as [[-> ->]|(l2' & -> & H')].
    + exists (c_bkt s' k). rewrite <- Hl. apply Hc'.
    + eapply Hp; eauto.
  - intros l1 x l2 H. rewrite Hl in H. destruct (app_snoc_split_ev _ _ _ _ _ H) as [(-> & -> & ->)|(l2' & -> & H')].
    + exact Hok.
    + eapply He; eauto.
Qed.

Lemma SInv_same s s' : SInv s -> c_log s' = c_log s -> CUR s' -> SInv s'.
Proof.
  intros (Hc & Hp & He) Hl Hc'. split; [exact Hc'|split]; rewrite Hl; assumption.
Qed.

(* ---- each kind of step *)
Ltac cur_start :=
  let Ha := fresh "Ha" in let Hb := fresh "Hb" in let Hg := fresh "Hg" in let Hc := fresh "Hc" in let Hd := fresh "Hd" in
  intros (Ha & Hb & Hg & Hc & Hd); unfold CUR; cbn [c_log c_bkt c_lock c_agg c_ctr c_gau with_log do_reg do_updc do_updg do_rec set_lock do_clear do_agg];
  repeat split; intros k;
  rewrite ?recorded_snoc, ?drained_snoc, ?aggregated_snoc, ?cvalue_snoc, ?gvalue_snoc.

Lemma CUR_neutral s e :
  (forall k, ev_rec k e = [] /\ ev_drain k e = [] /\ ev_agg k e = [] /\ ev_cupd k e = [] /\ ev_gupd k e = []) ->
  CUR s -> CUR (with_log s e).
Proof.
  intros Hn. cur_start; destruct (Hn k) as (E1 & E2 & E3 & E4 & E5); rewrite ?E1, ?E2, ?E3, ?E4, ?E5, ?app_nil_r; cbn; auto.
Qed.

Lemma CUR_reg s kd k0 : CUR s -> CUR (do_reg s kd k0).
Proof. cur_start; cbn [ev_rec ev_drain ev_agg ev_cupd ev_gupd fold_left]; rewrite ?app_nil_r; auto. Qed.

Lemma CUR_updc s k0 u : CUR s -> CUR (do_updc s k0 u).
Proof.
  cur_start; cbn [ev_rec ev_drain ev_agg ev_cupd ev_gupd fold_left]; rewrite ?app_nil_r; auto.
  destruct (N.eqb_spec k0 k) as [->|Hn]; cbn [fold_left].
  - rewrite fupd_same, Hc. reflexivity.
  - rewrite fupd_other by congruence. apply Hc.
Qed.

Lemma CUR_updg s k0 u : CUR s -> CUR (do_updg s k0 u).
Proof.
  cur_start; cbn [ev_rec ev_drain ev_agg ev_cupd ev_gupd fold_left]; rewrite ?app_nil_r; auto.
  destruct (N.eqb_spec k0 k) as [->|Hn]; cbn [fold_left].
  - rewrite fupd_same, Hd. reflexivity.
  - rewrite fupd_other by congruence. apply Hd.
Qed.

Lemma CUR_rec s k0 v : CUR s -> CUR (do_rec s k0 v).
Proof.
  cur_start; cbn [ev_rec ev_drain ev_agg ev_cupd ev_gupd fold_left]; rewrite ?app_nil_r; auto.
  destruct (N.eqb_spec k0 k) as [->|Hn].
  - rewrite fupd_same, app_assoc, Ha. reflexivity.
  - rewrite fupd_other by congruence. rewrite app_nil_r. apply Ha.
Qed.

Lemma CUR_acquire s o k0 : c_lock s = Free -> CUR s -> CUR (set_lock s (Held o k0 None)).
Proof.
  intros Hf. cur_start; auto. rewrite Hb, Hf. reflexivity.
Qed.

Lemma CUR_clear s o k0 : c_lock s = Held o k0 None -> CUR s -> CUR (do_clear s o k0).
Proof.
  intros Hf. cur_start; cbn [ev_rec ev_drain ev_agg ev_cupd ev_gupd inflight fold_left]; rewrite ?app_nil_r; auto.
  - destruct (N.eqb_spec k0 k) as [->|Hn].
    + rewrite fupd_same, app_nil_r. apply Ha.
    + rewrite fupd_other by congruence. rewrite app_nil_r. apply Ha.
  - rewrite Hb, Hf. cbn [inflight]. rewrite app_nil_r. destruct (k0 =? k); rewrite ?app_nil_r; reflexivity.
Qed.

Lemma CUR_agg s o k0 xs : c_lock s = Held o k0 (Some xs) -> CUR s -> CUR (do_agg s k0 xs).
Proof.
  intros Hf. cur_start; cbn [ev_rec ev_drain ev_agg ev_cupd ev_gupd inflight fold_left]; rewrite ?app_nil_r; auto.
  - rewrite Hb, Hf. cbn [inflight]. reflexivity.
  - destruct (N.eqb_spec k0 k) as [->|Hn].
    + rewrite fupd_same, Hg. cbn [fst snd]. rewrite app_length, Nat2N.inj_add, zsumc_app. reflexivity.
    + rewrite fupd_other by congruence. rewrite app_nil_r. apply Hg.
Qed.

(* ---- every step of every thread *)
Definition CInv (c : csh * list clocal) : Prop := SInv (fst c).

Lemma snapshot_ok s : c_lock s = Free -> CUR s -> ev_ok (c_log s) (ESnap (snapshot s)).
Proof.
  intros Hf (Ha & Hb & Hg & _). cbn [ev_ok]. intros k c sm Hin. unfold snapshot in Hin.
  apply in_map_iff in Hin as (k' & E & _). inversion E; subst k'. rewrite Hg in H1.
  rewrite (Hb k), Hf. cbn [inflight]. rewrite app_nil_r. inversion H1. auto.
Qed.

Lemma cstep_preserves : step_preserves cstep CInv.
Proof.
  unfold step_preserves, CInv. cbn [fst]. intros s ls t l s' l' HI _ Hst.
  assert (Hcur := proj1 HI).
  unfold cstep in Hst. destruct (pc l) as [|w|w|rf|w rf|k w rf|k w rf|].
  - (* PIdle *)
    destruct (prog l) as [|[kd k|k u|k u|k v| |] r]; try discriminate; inversion Hst; subst; clear Hst; auto.
    + eapply SInv_snoc; [exact HI|reflexivity|apply CUR_reg; auto|exact I].
    + eapply SInv_snoc; [exact HI|reflexivity|apply CUR_updc; auto|exact I].
    + eapply SInv_snoc; [exact HI|reflexivity|apply CUR_updg; auto|exact I].
    + eapply SInv_snoc; [exact HI|reflexivity|apply CUR_rec; auto|exact I].
  - (* PLoadC *)
    destruct w as [|k w]; inversion Hst; subst; clear Hst; auto.
    eapply SInv_snoc; [exact HI|reflexivity|apply CUR_neutral; auto; intros; repeat split|].
    cbn [ev_ok]. apply Hcur.
  - (* PLoadG *)
    destruct w as [|k w]; inversion Hst; subst; clear Hst; auto.
    eapply SInv_snoc; [exact HI|reflexivity|apply CUR_neutral; auto; intros; repeat split|].
    cbn [ev_ok]. apply Hcur.
  - inversion Hst; subst; auto.
  - (* PDrain *)
    destruct w as [|k w]; [inversion Hst; subst; auto|].
    destruct (c_lock s) eqn:Hl; inversion Hst; subst; clear Hst; auto.
    eapply SInv_same; [exact HI|reflexivity|apply CUR_acquire; auto].
  - (* PHold *)
    destruct (c_lock s) as [|o k' [xs|]] eqn:Hl; try (inversion Hst; subst; auto; fail).
    destruct ((o =? tid l) && (k' =? k)) eqn:E; inversion Hst; subst; clear Hst; auto.
    apply andb_prop in E as [_ E]. apply N.eqb_eq in E. subst k'.
    eapply SInv_snoc; [exact HI|reflexivity|eapply CUR_clear; eauto|].
    cbn [ev_ok]. apply Hcur.
  - (* PTaken *)
    destruct (c_lock s) as [|o k' [xs|]] eqn:Hl; try (inversion Hst; subst; auto; fail).
    destruct ((o =? tid l) && (k' =? k)) eqn:E; inversion Hst; subst; clear Hst; auto.
    apply andb_prop in E as [_ E]. apply N.eqb_eq in E. subst k'.
    eapply SInv_snoc; [exact HI|reflexivity|eapply CUR_agg; eauto|exact I].
  - (* PSnap *)
    destruct (c_lock s) eqn:Hl; inversion Hst; subst; clear Hst; auto.
    eapply SInv_snoc; [exact HI|reflexivity|apply CUR_neutral; auto; intros; repeat split|].
    apply snapshot_ok; auto.
Qed.

Theorem SInv_final ps sched : SInv (fst (final ps sched)).
Proof.
  unfold final. apply (invariant_all_schedules cstep csite CInv cstep_preserves). exact SInv_init.
Qed.
