(* C07 — interleaving model of the Prometheus recorder under concurrent use (definitions only).

   Instantiates Common/Interleave.v.  Threads run programs of register / update / render / run_upkeep
   operations against ONE recorder; every numbered line is one atomic step of one thread; a schedule
   is any list of thread indices (a thread that waits for the lock spins: its step changes nothing).

     register_*(key)        1  Registry::get_or_create_*: the key joins the handles of its kind        [EReg]
     counter.increment/absolute, gauge.set/increment/decrement
                            2  ONE atomic read-modify-write of the handle's cell                        [EUpdC / EUpdG]
     histogram.record(v)    3  ONE atomic push into the key's bucket                                    [ERec]
     render()               4  get_counter_handles (the counter keys registered now)
                            5  per collected counter key: ONE atomic load                               [ELoadC]
                            6  get_gauge_handles;  7  per gauge key: ONE atomic load                    [ELoadG]
                            8  get_histogram_handles
                            9  per collected histogram key, as drain_histograms_to_distributions does:
                               9a  distributions.write(): acquire the lock (waits while it is held)
                               9b  clear_with: ONE atomic take of the bucket's whole content            [EDrain]
                               9c  record_samples into the key's entry (count += n, sum += S; the entry
                                   is created if absent) and release the lock                           [EAgg]
                           10  distributions.read().clone(): needs the lock free; every entry of the
                               map is read in this one step                                             [ESnap]
     run_upkeep()           8, 9 only.

   The lock is as the code has it: ONE RwLock around the distributions map; the drain of a key and the
   aggregation of what it took happen inside one critical section (9a-9c), two renders/upkeeps never
   overlap inside it, the snapshot (10) cannot be taken while a critical section is open, record()
   never takes it.  (The code takes and releases the lock once PER KEY of the drain loop, not once
   around the whole loop, and clones the map in a separate read-locked step after the loop; so other
   renders/upkeeps may drain between two keys and between the loop and the clone.  That is what is
   modelled.)  The values a clear has taken and not yet aggregated live in the lock cell ([Held]),
   which only the holder touches.

   ASSUMED here, proved elsewhere: C06 (get_or_create hands every caller the one storage of a key:
   step 1 is atomic, a handle is its key); C04 (each handle update is one atomic RMW: step 2);
   C05 (push / clear_with are linearizable OUTSIDE the open late-claim class, where one in-flight push
   per recording thread per clear may be lost: steps 3 and 9b atomic on a list); the per-kind handle
   collections (4, 6, 8) are one step each.  Numbers are exact (u64 counters mod 2^64; gauge and
   sample values integers, as in the sequential model).  [c_log] is a ghost history.
   This model is NOT tied to the code by schedule replay (the exporter has no yield points): the
   free-running engines of vlib/c07.py are its only link to /repo.                                  *)
From Coq Require Import List NArith ZArith Bool.
Import ListNotations.
Require Import MV.Common.Interleave.
Open Scope N_scope.

Definition two64c : N := 18446744073709551616.

Inductive ckind := CKC | CKG | CKH.
Inductive cupd := UInc (v : N) | UAbs (v : N).
Inductive gupd := USet (z : Z) | UGInc (z : Z) | UGDec (z : Z).
Definition capply (a : N) (u : cupd) : N := match u with UInc v => (a + v) mod two64c | UAbs v => N.max a v end.
Definition gapply (a : Z) (u : gupd) : Z := match u with USet z => z | UGInc z => (a + z)%Z | UGDec z => (a - z)%Z end.

Definition dentry := (N * (N * Z))%type.        (* key, _count, _sum *)

Inductive cev :=
| EReg (kd : ckind) (k : N)
| EUpdC (k : N) (u : cupd)
| EUpdG (k : N) (u : gupd)
| ERec (k : N) (v : Z)
| ELoadC (k : N) (v : N)
| ELoadG (k : N) (z : Z)
| EDrain (k : N) (xs : list Z)
| EAgg (k : N) (xs : list Z)
| ESnap (out : list dentry).

Inductive lockst := Free | Held (owner k : N) (taken : option (list Z)).

Record csh := {
  c_ctr : N -> N;  c_gau : N -> Z;  c_bkt : N -> list Z;       (* handle cells, buckets *)
  c_agg : N -> N * Z;  c_dom : list N;                          (* distributions: entries and their keys *)
  c_lock : lockst;
  c_regc : list N;  c_regg : list N;  c_regh : list N;          (* registry: keys per kind *)
  c_log : list cev }.                                           (* ghost *)
Definition cinit : csh :=
  {| c_ctr := fun _ => 0; c_gau := fun _ => 0%Z; c_bkt := fun _ => []; c_agg := fun _ => (0, 0%Z); c_dom := [];
     c_lock := Free; c_regc := []; c_regg := []; c_regh := []; c_log := [] |}.

Definition fupd {V} (f : N -> V) (k : N) (v : V) : N -> V := fun x => if x =? k then v else f x.
Definition addk (k : N) (l : list N) : list N := if existsb (N.eqb k) l then l else l ++ [k].
Definition zsumc (l : list Z) : Z := fold_right Z.add 0%Z l.

Inductive cop :=
| OReg (kd : ckind) (k : N)
| OUpdC (k : N) (u : cupd) | OUpdG (k : N) (u : gupd) | ORec (k : N) (v : Z)
| ORender | OUpkeep.

Record rout := { r_ctr : list (N * N); r_gau : list (N * Z); r_dist : list dentry }.

Inductive cpc :=
| PIdle
| PLoadC (work : list N)
| PLoadG (work : list N)
| PCollH (rf : bool)                          (* rf: part of a render (true) or of an upkeep *)
| PDrain (work : list N) (rf : bool)          (* about to acquire the lock for the head key *)
| PHold (k : N) (work : list N) (rf : bool)   (* lock held, before clear_with *)
| PTaken (k : N) (work : list N) (rf : bool)  (* after clear_with, before record_samples + release *)
| PSnap.

Record clocal := { tid : N; prog : list cop; pc : cpc; accc : list (N * N); accg : list (N * Z); outs : list rout }.
Definition init_local (tp : N * list cop) : clocal :=
  {| tid := fst tp; prog := snd tp; pc := PIdle; accc := []; accg := []; outs := [] |}.

(* ---- the shared-state effect of each kind of step *)
Definition with_log (s : csh) (e : cev) : csh :=
  {| c_ctr := c_ctr s; c_gau := c_gau s; c_bkt := c_bkt s; c_agg := c_agg s; c_dom := c_dom s; c_lock := c_lock s;
     c_regc := c_regc s; c_regg := c_regg s; c_regh := c_regh s; c_log := c_log s ++ [e] |}.
Definition do_reg (s : csh) (kd : ckind) (k : N) : csh :=
  {| c_ctr := c_ctr s; c_gau := c_gau s; c_bkt := c_bkt s; c_agg := c_agg s; c_dom := c_dom s; c_lock := c_lock s;
     c_regc := match kd with CKC => addk k (c_regc s) | _ => c_regc s end;
     c_regg := match kd with CKG => addk k (c_regg s) | _ => c_regg s end;
     c_regh := match kd with CKH => addk k (c_regh s) | _ => c_regh s end;
     c_log := c_log s ++ [EReg kd k] |}.
Definition do_updc (s : csh) (k : N) (u : cupd) : csh :=
  {| c_ctr := fupd (c_ctr s) k (capply (c_ctr s k) u); c_gau := c_gau s; c_bkt := c_bkt s; c_agg := c_agg s; c_dom := c_dom s;
     c_lock := c_lock s; c_regc := c_regc s; c_regg := c_regg s; c_regh := c_regh s; c_log := c_log s ++ [EUpdC k u] |}.
Definition do_updg (s : csh) (k : N) (u : gupd) : csh :=
  {| c_ctr := c_ctr s; c_gau := fupd (c_gau s) k (gapply (c_gau s k) u); c_bkt := c_bkt s; c_agg := c_agg s; c_dom := c_dom s;
     c_lock := c_lock s; c_regc := c_regc s; c_regg := c_regg s; c_regh := c_regh s; c_log := c_log s ++ [EUpdG k u] |}.
Definition do_rec (s : csh) (k : N) (v : Z) : csh :=
  {| c_ctr := c_ctr s; c_gau := c_gau s; c_bkt := fupd (c_bkt s) k (c_bkt s k ++ [v]); c_agg := c_agg s; c_dom := c_dom s;
     c_lock := c_lock s; c_regc := c_regc s; c_regg := c_regg s; c_regh := c_regh s; c_log := c_log s ++ [ERec k v] |}.
Definition set_lock (s : csh) (lk : lockst) : csh :=
  {| c_ctr := c_ctr s; c_gau := c_gau s; c_bkt := c_bkt s; c_agg := c_agg s; c_dom := c_dom s; c_lock := lk;
     c_regc := c_regc s; c_regg := c_regg s; c_regh := c_regh s; c_log := c_log s |}.
Definition do_clear (s : csh) (o k : N) : csh :=
  {| c_ctr := c_ctr s; c_gau := c_gau s; c_bkt := fupd (c_bkt s) k []; c_agg := c_agg s; c_dom := c_dom s;
     c_lock := Held o k (Some (c_bkt s k)); c_regc := c_regc s; c_regg := c_regg s; c_regh := c_regh s;
     c_log := c_log s ++ [EDrain k (c_bkt s k)] |}.
Definition do_agg (s : csh) (k : N) (xs : list Z) : csh :=
  {| c_ctr := c_ctr s; c_gau := c_gau s; c_bkt := c_bkt s;
     c_agg := fupd (c_agg s) k (fst (c_agg s k) + N.of_nat (length xs), (snd (c_agg s k) + zsumc xs)%Z);
     c_dom := addk k (c_dom s); c_lock := Free; c_regc := c_regc s; c_regg := c_regg s; c_regh := c_regh s;
     c_log := c_log s ++ [EAgg k xs] |}.
Definition snapshot (s : csh) : list dentry := map (fun k => (k, c_agg s k)) (c_dom s).

Definition set_pc (l : clocal) (p : cpc) : clocal :=
  {| tid := tid l; prog := prog l; pc := p; accc := accc l; accg := accg l; outs := outs l |}.
Definition next_op (l : clocal) (r : list cop) (p : cpc) : clocal :=
  {| tid := tid l; prog := r; pc := p; accc := accc l; accg := accg l; outs := outs l |}.

Definition cstep (s : csh) (l : clocal) : option (csh * clocal) :=
  match pc l with
  | PIdle =>
      match prog l with
      | [] => None
      | OReg kd k :: r => Some (do_reg s kd k, next_op l r PIdle)                                     (* 1 *)
      | OUpdC k u :: r => Some (do_updc s k u, next_op l r PIdle)                                     (* 2 *)
      | OUpdG k u :: r => Some (do_updg s k u, next_op l r PIdle)                                     (* 2 *)
      | ORec k v :: r => Some (do_rec s k v, next_op l r PIdle)                                       (* 3 *)
      | ORender :: r =>                                                                               (* 4 *)
          Some (s, {| tid := tid l; prog := r; pc := PLoadC (c_regc s); accc := []; accg := []; outs := outs l |})
      | OUpkeep :: r => Some (s, next_op l r (PCollH false))
      end
  | PLoadC [] => Some (s, set_pc l (PLoadG (c_regg s)))                                               (* 6 *)
  | PLoadC (k :: w) =>                                                                                (* 5 *)
      Some (with_log s (ELoadC k (c_ctr s k)),
            {| tid := tid l; prog := prog l; pc := PLoadC w; accc := accc l ++ [(k, c_ctr s k)]; accg := accg l; outs := outs l |})
  | PLoadG [] => Some (s, set_pc l (PCollH true))
  | PLoadG (k :: w) =>                                                                                (* 7 *)
      Some (with_log s (ELoadG k (c_gau s k)),
            {| tid := tid l; prog := prog l; pc := PLoadG w; accc := accc l; accg := accg l ++ [(k, c_gau s k)]; outs := outs l |})
  | PCollH rf => Some (s, set_pc l (PDrain (c_regh s) rf))                                            (* 8 *)
  | PDrain [] rf => Some (s, set_pc l (if rf then PSnap else PIdle))
  | PDrain (k :: w) rf =>                                                                             (* 9a *)
      match c_lock s with
      | Free => Some (set_lock s (Held (tid l) k None), set_pc l (PHold k w rf))
      | Held _ _ _ => Some (s, l)
      end
  | PHold k w rf =>                                                                                   (* 9b *)
      match c_lock s with
      | Held o k' None => if (o =? tid l) && (k' =? k) then Some (do_clear s o k, set_pc l (PTaken k w rf)) else Some (s, l)
      | _ => Some (s, l)
      end
  | PTaken k w rf =>                                                                                  (* 9c *)
      match c_lock s with
      | Held o k' (Some xs) => if (o =? tid l) && (k' =? k) then Some (do_agg s k xs, set_pc l (PDrain w rf)) else Some (s, l)
      | _ => Some (s, l)
      end
  | PSnap =>                                                                                          (* 10 *)
      match c_lock s with
      | Free =>
          Some (with_log s (ESnap (snapshot s)),
                {| tid := tid l; prog := prog l; pc := PIdle; accc := []; accg := [];
                   outs := outs l ++ [{| r_ctr := accc l; r_gau := accg l; r_dist := snapshot s |}] |})
      | Held _ _ _ => Some (s, l)
      end
  end.

Definition csite (l : clocal) : N := 0.

(* ---- functions of the history used by the statements *)
Definition recorded (k : N) (log : list cev) : list Z :=
  flat_map (fun e => match e with ERec k' v => if k' =? k then [v] else [] | _ => [] end) log.
Definition drained (k : N) (log : list cev) : list Z :=
  flat_map (fun e => match e with EDrain k' xs => if k' =? k then xs else [] | _ => [] end) log.
Definition aggregated (k : N) (log : list cev) : list Z :=
  flat_map (fun e => match e with EAgg k' xs => if k' =? k then xs else [] | _ => [] end) log.
Definition cupds (k : N) (log : list cev) : list cupd :=
  flat_map (fun e => match e with EUpdC k' u => if k' =? k then [u] else [] | _ => [] end) log.
Definition gupds (k : N) (log : list cev) : list gupd :=
  flat_map (fun e => match e with EUpdG k' u => if k' =? k then [u] else [] | _ => [] end) log.
(* what the sequential model's fold says after these updates *)
Definition cvalue (k : N) (log : list cev) : N := fold_left capply (cupds k log) 0.
Definition gvalue (k : N) (log : list cev) : Z := fold_left gapply (gupds k log) 0%Z.
(* the non-wrapping total (an upper bound of every intermediate value) *)
Definition cbound (us : list cupd) : N :=
  fold_left (fun a u => match u with UInc v => a + v | UAbs v => N.max a v end) us 0.

(* values taken by a clear and not yet aggregated (they sit in the lock cell) *)
Definition inflight (k : N) (lk : lockst) : list Z :=
  match lk with Held _ k' (Some xs) => if k' =? k then xs else [] | _ => [] end.

Fixpoint indexed_from {A} (n : N) (l : list A) : list (N * A) :=
  match l with [] => [] | x :: r => (n, x) :: indexed_from (n + 1) r end.

(* the configuration reached by threads running the programs [ps] (thread i has tid i) from the empty
   recorder under the schedule [sched] (Common/Interleave.v: any list of thread indices) *)
Definition final (ps : list (list cop)) (sched : list nat) : csh * list clocal :=
  fst (exec cstep csite (cinit, map init_local (indexed_from 0 ps)) sched).
