(* C07 — basic lemmas: decidable equalities, association lists, and the closed form of the
   IndexMap built by key_to_parts (global labels overridden by the key's). *)
From Coq Require Import List NArith ZArith Bool Lia.
Import ListNotations.
Require Import MV.C08.Model MV.C07.Model MV.C07.Spec.
Open Scope N_scope.

Lemma str_eqb_eq a : forall b, str_eqb a b = true <-> a = b.
Proof.
  induction a as [|x a IH]; intros [|y b]; simpl; split; intros H; try discriminate; auto.
  - apply andb_prop in H as [H1 H2]. apply N.eqb_eq in H1. apply IH in H2. congruence.
  - inversion H; subst. rewrite N.eqb_refl. simpl. apply IH. reflexivity.
Qed.
Lemma str_eqb_refl a : str_eqb a a = true.
Proof. apply str_eqb_eq. reflexivity. Qed.
Lemma str_eqb_neq a b : a <> b -> str_eqb a b = false.
Proof. intros H. destruct (str_eqb a b) eqn:E; auto. apply str_eqb_eq in E. contradiction. Qed.
Lemma str_eqb_sym a b : str_eqb a b = str_eqb b a.
Proof.
  destruct (str_eqb a b) eqn:E.
  - apply str_eqb_eq in E. subst. symmetry. apply str_eqb_refl.
  - destruct (str_eqb b a) eqn:E2; auto. apply str_eqb_eq in E2. subst. rewrite str_eqb_refl in E. discriminate.
Qed.

Lemma strs_eqb_eq a : forall b, strs_eqb a b = true <-> a = b.
Proof.
  induction a as [|x a IH]; intros [|y b]; simpl; split; intros H; try discriminate; auto.
  - apply andb_prop in H as [H1 H2]. apply str_eqb_eq in H1. apply IH in H2. congruence.
  - inversion H; subst. rewrite str_eqb_refl. simpl. apply IH. reflexivity.
Qed.
Lemma parts_eqb_eq a b : parts_eqb a b = true <-> a = b.
Proof.
  destruct a as [a1 a2], b as [b1 b2]. unfold parts_eqb. simpl. split; intros H.
  - apply andb_prop in H as [H1 H2]. apply str_eqb_eq in H1. apply strs_eqb_eq in H2. congruence.
  - inversion H; subst. rewrite str_eqb_refl. simpl. apply strs_eqb_eq. reflexivity.
Qed.
Lemma N_eqb_eq' (a b : N) : N.eqb a b = true <-> a = b.
Proof. apply N.eqb_eq. Qed.

(* ---- association lists *)
Section AssocLemmas.
Context {K V : Type} (eqb : K -> K -> bool).
Hypothesis eqb_eq : forall a b, eqb a b = true <-> a = b.

Lemma eqb_refl' a : eqb a a = true.
Proof. apply eqb_eq. reflexivity. Qed.
Lemma eqb_neq' a b : a <> b -> eqb a b = false.
Proof. intros H. destruct (eqb a b) eqn:E; auto. apply eqb_eq in E. contradiction. Qed.

Lemma aget_aset_same k (v : V) l : aget eqb k (aset eqb k v l) = Some v.
Proof.
  induction l as [|[k' v'] l IH]; simpl.
  - rewrite eqb_refl'. reflexivity.
  - destruct (eqb k k') eqn:E; simpl; rewrite E; auto.
Qed.
Lemma aget_aset_other k k' (v : V) l : k <> k' -> aget eqb k (aset eqb k' v l) = aget eqb k l.
Proof.
  intros Hn. induction l as [|[k2 v2] l IH]; simpl.
  - rewrite eqb_neq'; auto.
  - destruct (eqb k' k2) eqn:E; simpl.
    + apply eqb_eq in E. subst. rewrite (eqb_neq' _ _ Hn). reflexivity.
    + rewrite IH. reflexivity.
Qed.
Lemma aget_In k (v : V) l : aget eqb k l = Some v -> In k (map fst l).
Proof.
  induction l as [|[k' v'] l IH]; simpl; [discriminate|].
  destruct (eqb k k') eqn:E; [apply eqb_eq in E; auto|auto].
Qed.
Lemma aget_None k (l : list (K * V)) : ~ In k (map fst l) -> aget eqb k l = None.
Proof.
  induction l as [|[k' v'] l IH]; simpl; auto. intros H.
  rewrite eqb_neq' by (intros ->; auto). apply IH. auto.
Qed.
Lemma aset_keys_in k (v : V) l : In k (map fst l) -> map fst (aset eqb k v l) = map fst l.
Proof.
  induction l as [|[k' v'] l IH]; simpl; [tauto|]. intros H.
  destruct (eqb k k') eqn:E; simpl; auto. f_equal. apply IH. destruct H as [->|H]; auto.
  rewrite eqb_refl' in E. discriminate.
Qed.
Lemma aset_keys_notin k (v : V) l : ~ In k (map fst l) -> map fst (aset eqb k v l) = map fst l ++ [k].
Proof.
  induction l as [|[k' v'] l IH]; simpl; auto. intros H.
  rewrite eqb_neq' by (intros ->; auto). simpl. f_equal. apply IH. auto.
Qed.
Lemma aset_keys k (v : V) l : forall x, In x (map fst (aset eqb k v l)) <-> x = k \/ In x (map fst l).
Proof.
  intros x. induction l as [|[k' v'] l IH]; simpl.
  - intuition.
  - destruct (eqb k k') eqn:E; simpl.
    + apply eqb_eq in E. subst. intuition.
    + rewrite IH. intuition.
Qed.
Lemma aset_nodup k (v : V) l : NoDup (map fst l) -> NoDup (map fst (aset eqb k v l)).
Proof.
  induction l as [|[k' v'] l IH]; simpl; intros H.
  - repeat constructor; auto.
  - destruct (eqb k k') eqn:E; simpl; auto.
    inversion H; subst. constructor; auto. rewrite aset_keys. intros [->|H']; auto.
    rewrite eqb_refl' in E. discriminate.
Qed.
End AssocLemmas.

(* ---- key_to_parts: the IndexMap of global labels overwritten by the key's labels *)
Definition lv (l : list (str * str)) (n : str) : str := match last_val n l with Some v => v | None => [] end.

Lemma last_val_fold n l : forall acc,
  fold_left (fun acc kv => if str_eqb n (fst kv) then Some (snd kv) else acc) l acc
  = match last_val n l with Some v => Some v | None => acc end.
Proof.
  unfold last_val. induction l as [|[k v] l IH]; intros acc; simpl; auto.
  rewrite IH. rewrite (IH (if str_eqb n k then Some v else None)).
  destruct (fold_left _ l None); auto. destruct (str_eqb n k); auto.
Qed.
Lemma last_val_cons n k v l :
  last_val n ((k, v) :: l) = match last_val n l with Some x => Some x | None => if str_eqb n k then Some v else None end.
Proof. unfold last_val at 1. simpl. rewrite last_val_fold. reflexivity. Qed.
Lemma last_val_app n a b :
  last_val n (a ++ b) = match last_val n b with Some x => Some x | None => last_val n a end.
Proof. unfold last_val at 1. rewrite fold_left_app. rewrite last_val_fold. reflexivity. Qed.

Lemma first_occ_notin seen l : forall x, In x (first_occ seen l) -> ~ In x seen.
Proof.
  revert seen. induction l as [|y l IH]; intros seen x; simpl; [tauto|].
  destruct (existsb (str_eqb y) seen) eqn:E.
  - apply IH.
  - intros [->|H].
    + intros Hin. assert (existsb (str_eqb x) seen = true) by (apply existsb_exists; exists x; split; auto; apply str_eqb_refl).
      congruence.
    + intros Hin. apply IH in H. apply H. apply in_or_app. auto.
Qed.

Lemma imap_insert_in k v m : In k (map fst m) -> NoDup (map fst m) ->
  imap_insert k v m = map (fun nv => (fst nv, if str_eqb (fst nv) k then v else snd nv)) m.
Proof.
  induction m as [|[k' v'] m IH]; simpl; [tauto|]. intros Hin Hnd. inversion Hnd; subst.
  destruct (str_eqb k k') eqn:E.
  - apply str_eqb_eq in E. subst. rewrite str_eqb_refl. f_equal.
    rewrite <- (map_id m) at 1. apply map_ext_in. intros [n x] Hx. simpl.
    rewrite str_eqb_neq; auto. intros ->. apply H1. apply in_map_iff. exists (k', x); auto.
  - rewrite str_eqb_sym, E. f_equal. apply IH; auto. destruct Hin as [->|]; auto.
    rewrite str_eqb_refl in E. discriminate.
Qed.
Lemma imap_insert_notin k v m : ~ In k (map fst m) -> imap_insert k v m = m ++ [(k, v)].
Proof.
  induction m as [|[k' v'] m IH]; simpl; auto. intros H.
  rewrite str_eqb_neq by (intros ->; auto). f_equal. apply IH. auto.
Qed.

Lemma existsb_str_in x seen : existsb (str_eqb x) seen = true <-> In x seen.
Proof.
  rewrite existsb_exists. split.
  - intros (y & Hy & E). apply str_eqb_eq in E. subst. auto.
  - intros H. exists x. split; auto. apply str_eqb_refl.
Qed.

Lemma nodup_snoc {A} (l : list A) k : NoDup l -> ~ In k l -> NoDup (l ++ [k]).
Proof.
  induction l as [|x l IH]; simpl; intros Hnd Hk.
  - repeat constructor; auto.
  - inversion Hnd; subst. constructor.
    + rewrite in_app_iff. simpl. intros [H|[H|[]]]; auto.
    + apply IH; auto.
Qed.

Lemma imap_fold l : forall m, NoDup (map fst m) ->
  fold_left (fun m kv => imap_insert (fst kv) (snd kv) m) l m
  = map (fun nv => (fst nv, match last_val (fst nv) l with Some v => v | None => snd nv end)) m
    ++ map (fun n => (n, lv l n)) (first_occ (map fst m) (map fst l)).
Proof.
  induction l as [|[k v] l IH]; intros m Hnd.
  - simpl. rewrite app_nil_r. rewrite <- (map_id m) at 1. apply map_ext. intros [n x]. reflexivity.
  - cbn [fold_left fst snd map first_occ].
    destruct (existsb (str_eqb k) (map fst m)) eqn:E.
    + apply existsb_str_in in E. rewrite imap_insert_in by auto.
      set (m' := map (fun nv : str * str => (fst nv, if str_eqb (fst nv) k then v else snd nv)) m).
      assert (Hk : map fst m' = map fst m).
      { unfold m'. rewrite map_map. apply map_ext. intros [? ?]. reflexivity. }
      rewrite IH by (rewrite Hk; exact Hnd).
      rewrite Hk. unfold m'. rewrite map_map. cbn [fst snd]. f_equal.
      * apply map_ext. intros [n x]. cbn [fst snd]. rewrite last_val_cons.
        destruct (last_val n l); auto. destruct (str_eqb n k); auto.
      * apply map_ext_in. intros n Hn. apply first_occ_notin in Hn.
        unfold lv. rewrite last_val_cons. destruct (last_val n l); auto.
        rewrite str_eqb_neq; auto. intros ->. apply Hn. exact E.
    + assert (Hk : ~ In k (map fst m)).
      { intros H. apply existsb_str_in in H. congruence. }
      rewrite imap_insert_notin by auto. rewrite IH.
      2:{ rewrite map_app. simpl. apply nodup_snoc; auto. }
      rewrite !map_app. cbn [map fst snd]. rewrite <- app_assoc. cbn [app]. f_equal.
      * apply map_ext_in. intros [n x] Hx. cbn [fst snd]. rewrite last_val_cons.
        destruct (last_val n l); auto. rewrite str_eqb_neq; auto.
        intros ->. apply Hk. apply in_map_iff. exists (k, x); auto.
      * f_equal.
        -- unfold lv. rewrite last_val_cons. destruct (last_val k l); auto. rewrite str_eqb_refl. reflexivity.
        -- apply map_ext_in. intros n Hn. apply first_occ_notin in Hn.
           unfold lv. rewrite last_val_cons. destruct (last_val n l); auto.
           rewrite str_eqb_neq; auto. intros ->. apply Hn. apply in_or_app. right. left. reflexivity.
Qed.

Theorem imap_of_closed l : imap_of l = map (fun n => (n, lv l n)) (first_occ [] (map fst l)).
Proof. unfold imap_of. rewrite imap_fold by constructor. reflexivity. Qed.

Theorem labels_global_overridden_by_key g kl : imap_of (g ++ kl) = spec_labels g kl.
Proof.
  rewrite imap_of_closed. unfold spec_labels. apply map_ext. intros n.
  unfold lv, label_value. rewrite last_val_app. destruct (last_val n kl); reflexivity.
Qed.

Lemma key_labels_spec g kl : key_labels g kl = map label_string (spec_labels g kl).
Proof. unfold key_labels. rewrite labels_global_overridden_by_key. reflexivity. Qed.
