(* C07 — the state of the model after a history, slot by slot: what one operation does to the slot
   of one key ([p_ctr], [p_gau], [p_raw], [p_hist], [p_descr]), and the invariant that every slot of
   the state is the fold of these per-slot transitions over the history. *)
From Coq Require Import List NArith ZArith Bool Lia.
Import ListNotations.
Require Import MV.C08.Model MV.C07.Model MV.C07.Spec MV.C07.ProofsBase.
Open Scope N_scope.

Section WithCfg.
Variable c : cfg.

Definition is_kind (j : N) (kd : mkind) : bool :=
  match key_at c j with Some k => mkind_eqb (k_kind k) kd | None => false end.
Definition dflt {V} (o : option V) (d : V) : V := match o with Some v => v | None => d end.

Definition p_ctr (i : N) (cur : option N) (o : op) : option N :=
  match o with
  | Register j => if (j =? i) && is_kind j KC then Some (dflt cur 0) else cur
  | Inc j v => if (j =? i) && is_kind j KC then Some ((dflt cur 0 + v) mod two64) else cur
  | Abs j v => if (j =? i) && is_kind j KC then Some (N.max (dflt cur 0) v) else cur
  | _ => cur
  end.
Definition p_gau (i : N) (cur : option xnum) (o : op) : option xnum :=
  match o with
  | Register j => if (j =? i) && is_kind j KG then Some (dflt cur xzero) else cur
  | GSet j v => if (j =? i) && is_kind j KG then Some v else cur
  | GInc j v => if (j =? i) && is_kind j KG then Some (xadd (dflt cur xzero) v) else cur
  | GDec j v => if (j =? i) && is_kind j KG then Some (xadd (dflt cur xzero) (xneg v)) else cur
  | _ => cur
  end.
Definition p_raw (i : N) (cur : option N) (o : op) : option N :=
  match o with
  | Register j => if (j =? i) && is_kind j KR then Some (dflt cur 0) else cur
  | GBits j b => if (j =? i) && is_kind j KR then Some b else cur
  | _ => cur
  end.
Definition p_pend (i : N) (cur : option (list xnum)) (o : op) : option (list xnum) :=
  match o with
  | Register j => if (j =? i) && is_kind j KH then Some (dflt cur []) else cur
  | Rec j v => if (j =? i) && is_kind j KH then Some (dflt cur [] ++ [v]) else cur
  | Upkeep | Render => option_map (fun _ => []) cur
  | _ => cur
  end.
Definition p_dist (k : key) (pcur : option (list xnum)) (cur : option dist) (o : op) : option dist :=
  match o with
  | Upkeep | Render =>
      match pcur with
      | Some bag => Some (record_samples (dflt cur (new_dist c (sname k))) bag)
      | None => cur
      end
  | _ => cur
  end.
Definition p_hist (k : key) (i : N) (cur : option (list xnum) * option dist) (o : op) :=
  (p_pend i (fst cur) o, p_dist k (fst cur) (snd cur) o).
Definition p_descr (n : str) (cur : option (str * option unit_t)) (o : op) :=
  match o with
  | Describe _ nm u t =>
      if str_eqb (sanitize_metric_name nm) n then (match cur with Some x => Some x | None => Some (t, u) end) else cur
  | _ => cur
  end.

Notation ngs := (@aget_aset_same N _ N.eqb N_eqb_eq').
Notation ngo := (@aget_aset_other N _ N.eqb N_eqb_eq').

Ltac kinds j :=
  unfold is_kind;
  let Hk := fresh "Hk" in let Hd := fresh "Hd" in let kk := fresh "kk" in
  destruct (key_at c j) as [kk|] eqn:Hk; [destruct (k_kind kk) eqn:Hd|]; cbn.
Ltac slot j i :=
  destruct (N.eqb_spec j i) as [->|?]; cbn;
  unfold touch, getd, dflt; rewrite ?N.eqb_refl; cbn;
  rewrite ?ngs; try (rewrite ?ngo by congruence); auto.

Lemma step_ctr s o i : aget N.eqb i (ctr (fst (step c s o))) = p_ctr i (aget N.eqb i (ctr s)) o.
Proof.
  destruct o as [j|j v|j v|j v|j v|j v|j b|j v|dk n u t| |]; cbn [step op_index p_ctr];
    try (kinds j; try slot j i; rewrite ?andb_false_r; auto); auto.
  destruct (aget str_eqb _ (descr s)); reflexivity.
Qed.
Lemma step_gau s o i : aget N.eqb i (gau (fst (step c s o))) = p_gau i (aget N.eqb i (gau s)) o.
Proof.
  destruct o as [j|j v|j v|j v|j v|j v|j b|j v|dk n u t| |]; cbn [step op_index p_gau];
    try (kinds j; try slot j i; rewrite ?andb_false_r; auto); auto.
  destruct (aget str_eqb _ (descr s)); reflexivity.
Qed.
Lemma step_raw s o i : aget N.eqb i (raw (fst (step c s o))) = p_raw i (aget N.eqb i (raw s)) o.
Proof.
  destruct o as [j|j v|j v|j v|j v|j v|j b|j v|dk n u t| |]; cbn [step op_index p_raw];
    try (kinds j; try slot j i; rewrite ?andb_false_r; auto); auto.
  destruct (aget str_eqb _ (descr s)); reflexivity.
Qed.

Lemma aget_cleared i (l : list (N * list xnum)) :
  aget N.eqb i (map (fun ib => (fst ib, @nil xnum)) l) = option_map (fun _ => []) (aget N.eqb i l).
Proof. induction l as [|[j b] l IH]; simpl; auto. destruct (i =? j); auto. Qed.

Lemma step_pend s o i : aget N.eqb i (pend (fst (step c s o))) = p_pend i (aget N.eqb i (pend s)) o.
Proof.
  destruct o as [j|j v|j v|j v|j v|j v|j b|j v|dk n u t| |]; cbn [step op_index p_pend];
    try (kinds j; try slot j i; rewrite ?andb_false_r; auto); auto.
  - destruct (aget str_eqb _ (descr s)); reflexivity.
  - apply aget_cleared.
  - apply aget_cleared.
Qed.

Lemma step_descr s o n : aget str_eqb n (descr (fst (step c s o))) = p_descr n (aget str_eqb n (descr s)) o.
Proof.
  destruct o as [j|j v|j v|j v|j v|j v|j b|j v|dk nm u t| |]; cbn [step op_index p_descr];
    try (kinds j; auto); auto.
  destruct (str_eqb (sanitize_metric_name nm) n) eqn:E.
  - apply str_eqb_eq in E. subst n.
    destruct (aget str_eqb (sanitize_metric_name nm) (descr s)) eqn:G; cbn; [exact G|].
    apply (aget_aset_same str_eqb str_eqb_eq).
  - destruct (aget str_eqb (sanitize_metric_name nm) (descr s)) eqn:G; cbn; auto.
    apply (aget_aset_other str_eqb str_eqb_eq). intros ->. rewrite str_eqb_refl in E. discriminate.
Qed.

Lemma step_out s o : snd (step c s o) = match o with Render => Some (render_all c (drain c s)) | _ => None end.
Proof.
  destruct o as [j|j v|j v|j v|j v|j v|j b|j v|dk n u t| |]; cbn [step op_index]; auto;
    try (destruct (key_at c j) as [k|]; auto; destruct (negb _); auto).
Qed.

(* ---- the distributions map under a drain *)
Definition SI (s : st) : Prop :=
  NoDup (map fst (pend s)) /\ forall j, In j (map fst (pend s)) -> is_kind j KH = true.

Hypothesis wf : wf_names c = true.

Lemma aget_indexed_in {A} (l : list A) : forall n i a, aget N.eqb i (indexed n l) = Some a -> In a l.
Proof.
  induction l as [|x l IH]; intros n i a; simpl; [discriminate|].
  destruct (i =? n); [intros [= <-]; auto|]. intros H. right. eapply IH; eauto.
Qed.
Lemma pairwise_indexed {A} (f : A -> A -> bool) (l : list A) : pairwise f l = true ->
  forall n i j a b, aget N.eqb i (indexed n l) = Some a -> aget N.eqb j (indexed n l) = Some b -> i <> j ->
  f a b = true \/ f b a = true.
Proof.
  induction l as [|x l IH]; intros Hp n i j a b; simpl; [discriminate|].
  simpl in Hp. apply andb_prop in Hp as [Hx Hr]. rewrite forallb_forall in Hx.
  destruct (N.eqb_spec i n), (N.eqb_spec j n); subst.
  - congruence.
  - intros [= <-] Hb _. left. apply Hx. eapply aget_indexed_in; eauto.
  - intros Ha [= <-] _. right. apply Hx. eapply aget_indexed_in; eauto.
  - intros Ha Hb Hn. eapply IH; eauto.
Qed.

Lemma parts_apart i j ki kj : key_at c i = Some ki -> key_at c j = Some kj -> i <> j ->
  k_kind ki = KH -> k_kind kj = KH -> parts c ki <> parts c kj.
Proof.
  intros Hi Hj Hn Hki Hkj. unfold wf_names in wf. apply andb_prop in wf as [_ Hp].
  destruct (pairwise_indexed _ _ Hp 0 i j ki kj Hi Hj Hn) as [H|H];
    unfold keys_apart in H; rewrite Hki, Hkj in H; cbn [fclass N.eqb Pos.eqb] in H; apply andb_prop in H as [H _]; apply negb_true_iff in H; intros E;
    rewrite E in H || rewrite <- E in H; rewrite (proj2 (parts_eqb_eq _ _) eq_refl) in H; discriminate.
Qed.

Lemma bounds_ok_at i k : key_at c i = Some k -> bounds_ok c k = true.
Proof.
  intros Hi. unfold wf_names in wf. apply andb_prop in wf as [Hf _]. rewrite forallb_forall in Hf.
  specialize (Hf k (aget_indexed_in _ _ _ _ Hi)). apply andb_prop in Hf as [_ H]. exact H.
Qed.

Notation pgs := (@aget_aset_same parts_t _ parts_eqb parts_eqb_eq).
Notation pgo := (@aget_aset_other parts_t _ parts_eqb parts_eqb_eq).

Lemma drain_all_get l : NoDup (map fst l) -> (forall j, In j (map fst l) -> is_kind j KH = true) ->
  forall d i k, key_at c i = Some k -> k_kind k = KH ->
  aget parts_eqb (parts c k) (drain_all c l d)
  = match aget N.eqb i l with
    | Some bag => Some (record_samples (dflt (aget parts_eqb (parts c k) d) (new_dist c (sname k))) bag)
    | None => aget parts_eqb (parts c k) d
    end.
Proof.
  induction l as [|[j bag] l IH]; intros Hnd Hkh d i k Hi Hk; [reflexivity|].
  cbn [map fst] in Hnd, Hkh. inversion Hnd as [|? ? Hnotin Hnd']; subst.
  assert (Hj := Hkh j (or_introl eq_refl)). unfold is_kind in Hj.
  destruct (key_at c j) as [kj|] eqn:Hkj; [|discriminate].
  assert (Hkjd : k_kind kj = KH) by (destruct (k_kind kj); auto; discriminate).
  unfold drain_all. cbn [fold_left fst snd]. rewrite Hkj. fold (drain_all c l (record_into c d kj bag)).
  rewrite (IH Hnd' (fun x Hx => Hkh x (or_intror Hx)) _ i k Hi Hk).
  cbn [aget]. destruct (N.eqb_spec i j) as [->|Hne].
  - assert (kj = k) by congruence. subst kj.
    rewrite (aget_None N.eqb N_eqb_eq') by exact Hnotin.
    unfold record_into. rewrite pgs. reflexivity.
  - assert (Hp : parts c k <> parts c kj) by (eapply parts_apart; eauto).
    unfold record_into. rewrite (pgo _ _ _ _ Hp). reflexivity.
Qed.

Lemma step_dist s o i k : SI s -> key_at c i = Some k -> k_kind k = KH ->
  aget parts_eqb (parts c k) (dists (fst (step c s o)))
  = p_dist k (aget N.eqb i (pend s)) (aget parts_eqb (parts c k) (dists s)) o.
Proof.
  intros [Hnd Hkh] Hi Hk.
  destruct o as [j|j v|j v|j v|j v|j v|j b|j v|dk n u t| |]; cbn [step op_index p_dist];
    try (kinds j; auto); auto.
  - destruct (aget str_eqb _ (descr s)); reflexivity.
  - cbn. apply drain_all_get; auto.
  - cbn. apply drain_all_get; auto.
Qed.

Lemma cleared_keys (l : list (N * list xnum)) : map fst (map (fun ib => (fst ib, @nil xnum)) l) = map fst l.
Proof. rewrite map_map. reflexivity. Qed.

Lemma step_SI s o : SI s -> SI (fst (step c s o)).
Proof.
  intros [Hnd Hkh].
  destruct o as [j|j v|j v|j v|j v|j v|j b|j v|dk n u t| |]; cbn [step op_index];
    try (destruct (key_at c j) as [k|] eqn:Hkj; [destruct (k_kind k) eqn:Hkd|]; cbn); try (split; assumption).
  - (* Register on a histogram key *)
    split; cbn; unfold touch.
    + apply (aset_nodup N.eqb N_eqb_eq'); auto.
    + intros x Hx. apply (aset_keys N.eqb N_eqb_eq') in Hx. destruct Hx as [->|Hx]; auto.
      unfold is_kind. rewrite Hkj, Hkd. reflexivity.
  - (* Rec *)
    split; cbn.
    + apply (aset_nodup N.eqb N_eqb_eq'); auto.
    + intros x Hx. apply (aset_keys N.eqb N_eqb_eq') in Hx. destruct Hx as [->|Hx]; auto.
      unfold is_kind. rewrite Hkj, Hkd. reflexivity.
  - destruct (aget str_eqb _ (descr s)); split; assumption.
  - split; cbn; rewrite cleared_keys; assumption.
  - split; cbn; rewrite cleared_keys; assumption.
Qed.

(* ---- the invariant: every slot is the fold of its transitions over the history *)
Definition Inv (pre : list op) (s : st) : Prop :=
  (forall i, aget N.eqb i (ctr s) = fold_left (p_ctr i) pre None) /\
  (forall i, aget N.eqb i (gau s) = fold_left (p_gau i) pre None) /\
  (forall i, aget N.eqb i (raw s) = fold_left (p_raw i) pre None) /\
  (forall i k, key_at c i = Some k -> k_kind k = KH ->
     (aget N.eqb i (pend s), aget parts_eqb (parts c k) (dists s)) = fold_left (p_hist k i) pre (None, None)) /\
  (forall n, aget str_eqb n (descr s) = fold_left (p_descr n) pre None) /\
  SI s.

Lemma Inv_init : Inv [] init.
Proof. repeat split; try reflexivity; cbn; [constructor|tauto]. Qed.

Lemma Inv_step pre s o : Inv pre s -> Inv (pre ++ [o]) (fst (step c s o)).
Proof.
  intros (Hc & Hg & Hr & Hh & Hd & Hs). repeat split.
  - intros i. rewrite fold_left_app. cbn. rewrite <- Hc. apply step_ctr.
  - intros i. rewrite fold_left_app. cbn. rewrite <- Hg. apply step_gau.
  - intros i. rewrite fold_left_app. cbn. rewrite <- Hr. apply step_raw.
  - intros i k Hi Hk. rewrite fold_left_app. cbn. rewrite <- (Hh i k Hi Hk). unfold p_hist. cbn [fst snd].
    f_equal; [apply step_pend|apply step_dist; auto].
  - intros n. rewrite fold_left_app. cbn. rewrite <- Hd. apply step_descr.
  - apply step_SI; auto.
  - apply step_SI; auto.
Qed.

End WithCfg.
