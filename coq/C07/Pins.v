From Coq Require Import List NArith ZArith Bool.
Import ListNotations.
Require Import MV.C07.Exec MV.C07.ProofsBase MV.C07.ProofsInv MV.C07.ProofsSpec MV.C07.ProofsClauses MV.C07.ProofsWalk.
Open Scope N_scope.
Require Import MV.C07.Properties.

Check (C07_model_meets_spec : forall c h, wf_names c = true -> snd (run c init h) = spec_outs c h).
Print Assumptions C07_model_meets_spec.
Check (C07_counter_value : forall i pre,
  (abss i pre = [] -> spec_counter i pre = nsum (incs i pre) mod two64)
  /\ (incs i pre = [] -> spec_counter i pre = nmax (abss i pre))).
Print Assumptions C07_counter_value.
Check (C07_gauge_value : forall i pre v post, forallb (gauge_quiet i) post = true ->
  spec_gauge i (pre ++ GSet i v :: post) = v
  /\ spec_gauge i (pre ++ GInc i v :: post) = (spec_gauge i pre + v)%Z
  /\ spec_gauge i (pre ++ GDec i v :: post) = (spec_gauge i pre - v)%Z
  /\ spec_gauge i (pre ++ post) = spec_gauge i pre).
Print Assumptions C07_gauge_value.
Check (C07_every_sample_once : forall c, wf_names c = true ->
  forall h i k, key_at c i = Some k -> k_kind k = KH ->
  (let s := fst (run c init h) in
   let e := aget parts_eqb (parts c k) (dists s) in
   N.of_nat (List.length (records i h)) = dist_count e + N.of_nat (List.length (dflt (aget N.eqb i (pend s)) []))
   /\ zsum (records i h) = (dist_sum e + zsum (dflt (aget N.eqb i (pend s)) []))%Z)
  /\ (forall o, o = Render \/ o = Upkeep -> registered i k h = true ->
      let s := fst (run c init (h ++ [o])) in
      let e := aget parts_eqb (parts c k) (dists s) in
      aget N.eqb i (pend s) = Some [] /\
      dist_count e = N.of_nat (List.length (records i h)) /\ dist_sum e = zsum (records i h))).
Print Assumptions C07_every_sample_once.
Check (C07_sum_once : forall (F : Type) (fadd : F -> F -> F) (fzero : F),
  (forall a b c, fadd a (fadd b c) = fadd (fadd a b) c) -> (forall a b, fadd a b = fadd b a) -> (forall a, fadd fzero a = a) ->
  forall ops, let st := fold_left (astep F fadd fzero) ops ([], fzero) in
  fadd (snd st) (fsum F fadd fzero (fst st)) = fsum F fadd fzero (arecorded F ops)).
Print Assumptions C07_sum_once.
Check (C07_labels_global_overridden_by_key : forall g kl,
  imap_of (g ++ kl) = spec_labels g kl /\ key_labels g kl = map label_string (spec_labels g kl)).
Print Assumptions C07_labels_global_overridden_by_key.
Check (C07_help_is_first_description : (forall c h n, aget str_eqb n (descr (fst (run c init h))) = spec_desc n h)
  /\ (forall n pre dk nm u t post, existsb (describes n) pre = false -> sanitize_metric_name nm = n ->
      spec_desc n (pre ++ Describe dk nm u t :: post) = Some (t, u))).
Print Assumptions C07_help_is_first_description.
Check (C07_render_idempotent : forall c h, wf_names c = true ->
  (exists outs r, snd (run c init (h ++ [Render; Render])) = outs ++ [r; r])
  /\ (forall pre o, o = Render \/ o = Upkeep -> spec_render c (pre ++ [o]) = spec_render c pre)).
Print Assumptions C07_render_idempotent.
Check (C07_distributions_belong_to_registered_keys : forall c h,
  let s := fst (run c init h) in
  NoDup (map fst (dists s)) /\
  forall p, In p (map fst (dists s)) ->
  exists j kj, In j (map fst (pend s)) /\ key_at c j = Some kj /\ k_kind kj = KH /\ parts c kj = p).
Print Assumptions C07_distributions_belong_to_registered_keys.
Check (C07_spec_ok_on_model : forall c, spec_ok c (run_case c) = true).
Print Assumptions C07_spec_ok_on_model.
Check (C07_spec_ok_iff : forall c o,
  spec_ok c o = true <-> (wf_names (fst c) = true -> all2 render_eqb (spec_outs (fst c) (snd c)) o = true)).
Print Assumptions C07_spec_ok_iff.
Check (C07_example_nontrivial : wf_names (fst ex_case) = true
  /\ List.length (run_case ex_case) = 3%nat
  /\ In {| a_fam := [108; 95; 95; 115; 101; 99; 111; 110; 100; 115]; a_type := 2; a_help := Some [104];
           a_name := [108; 95; 95; 115; 101; 99; 111; 110; 100; 115; 95; 99; 111; 117; 110; 116];
           a_labels := [[103; 61; 34; 49; 34]]; a_extra := XNone; a_val := VInt 3 |} (last (run_case ex_case) [])
  /\ In {| a_fam := [99]; a_type := 0; a_help := None; a_name := [99]; a_labels := [[103; 61; 34; 49; 34]];
           a_extra := XNone; a_val := VInt 1 |} (last (run_case ex_case) [])).
Print Assumptions C07_example_nontrivial.
