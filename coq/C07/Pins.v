From Coq Require Import List NArith ZArith Bool.
Import ListNotations.
Require Import MV.C07.Exec MV.C07.ProofsBase MV.C07.ProofsInv MV.C07.ProofsSpec MV.C07.ProofsClauses MV.C07.ProofsWalk.
Require Import MV.Common.Interleave MV.C07.ConcModel MV.C07.ConcInv MV.C07.ConcProofs.
Open Scope N_scope.
Require Import MV.C07.Properties.

Check (C07_model_meets_spec : forall c h, wf_names c = true -> snd (run c init h) = spec_outs c h).
Print Assumptions C07_model_meets_spec.
Check (C07_counter_value : forall i pre,
  (abss i pre = [] -> spec_counter i pre = nsum (incs i pre) mod two64)
  /\ (incs i pre = [] -> spec_counter i pre = nmax (abss i pre))).
Print Assumptions C07_counter_value.
Check (C07_gauge_value : forall i pre v post, forallb (gauge_quiet i) post = true ->
  spec_gauge i (pre ++ GSet i v :: post) = v
  /\ spec_gauge i (pre ++ GInc i v :: post) = xadd (spec_gauge i pre) v
  /\ spec_gauge i (pre ++ GDec i v :: post) = xadd (spec_gauge i pre) (xneg v)
  /\ spec_gauge i (pre ++ post) = spec_gauge i pre).
Print Assumptions C07_gauge_value.
Check (C07_every_sample_once : forall c, wf_names c = true ->
  forall h i k, key_at c i = Some k -> k_kind k = KH ->
  (let s := fst (run c init h) in
   let e := aget parts_eqb (parts c k) (dists s) in
   N.of_nat (List.length (records i h)) = dist_count e + N.of_nat (List.length (dflt (aget N.eqb i (pend s)) []))
   /\ xsum (records i h) = xadd (dist_sum e) (xsum (dflt (aget N.eqb i (pend s)) [])))
  /\ (forall o, o = Render \/ o = Upkeep -> registered i k h = true ->
      let s := fst (run c init (h ++ [o])) in
      let e := aget parts_eqb (parts c k) (dists s) in
      aget N.eqb i (pend s) = Some [] /\
      dist_count e = N.of_nat (List.length (records i h)) /\ dist_sum e = xsum (records i h))).
Print Assumptions C07_every_sample_once.
Check (C07_sum_once : forall (F : Type) (fadd : F -> F -> F) (fzero : F),
  (forall a b c, fadd a (fadd b c) = fadd (fadd a b) c) -> (forall a b, fadd a b = fadd b a) -> (forall a, fadd fzero a = a) ->
  forall ops, let st := fold_left (astep F fadd fzero) ops ([], fzero) in
  fadd (snd st) (fsum F fadd fzero (fst st)) = fsum F fadd fzero (arecorded F ops)).
Print Assumptions C07_sum_once.
Check (C07_sum_once_with_special_values : (forall a b c, xadd a (xadd b c) = xadd (xadd a b) c) /\ (forall a b, xadd a b = xadd b a) /\ (forall a, xadd xzero a = a)
  /\ (forall a b, cls (xadd a b) = cadd (cls a) (cls b))
  /\ (forall a, cls (xneg a) = match cls a with CNaN => CNaN | CPInf => CNInf | CNInf => CPInf | CFin z => CFin (- z) end)
  /\ (forall ops, let st := fold_left (astep xnum xadd xzero) ops ([], xzero) in
      xadd (snd st) (fsum xnum xadd xzero (fst st)) = fsum xnum xadd xzero (arecorded xnum ops))).
Print Assumptions C07_sum_once_with_special_values.
Check (C07_labels_global_overridden_by_key : forall g kl,
  imap_of (g ++ kl) = spec_labels g kl /\ key_labels g kl = map label_string (spec_labels g kl)).
Print Assumptions C07_labels_global_overridden_by_key.
Check (C07_help_is_first_description : (forall c h n, aget str_eqb n (descr (fst (run c init h))) = spec_desc n h)
  /\ (forall n pre dk nm u t post, existsb (describes n) pre = false -> sanitize_metric_name nm = n ->
      spec_desc n (pre ++ Describe dk nm u t :: post) = Some (t, u))).
Print Assumptions C07_help_is_first_description.
Check (C07_render_idempotent : forall c h, wf_names c = true ->
  (exists outs r, snd (run c init (h ++ [Render; Render])) = outs ++ [r; r])
  /\ (forall pre o, o = Render \/ o = Upkeep -> spec_render c (pre ++ [o]) = spec_render c pre)).
Print Assumptions C07_render_idempotent.
Check (C07_distributions_belong_to_registered_keys : forall c h,
  let s := fst (run c init h) in
  NoDup (map fst (dists s)) /\
  forall p, In p (map fst (dists s)) ->
  exists j kj, In j (map fst (pend s)) /\ key_at c j = Some kj /\ k_kind kj = KH /\ parts c kj = p).
Print Assumptions C07_distributions_belong_to_registered_keys.
Check (C07_spec_ok_on_model : forall c, spec_ok c (run_case c) = true).
Print Assumptions C07_spec_ok_on_model.
Check (C07_spec_ok_iff : forall c o,
  spec_ok c o = true <-> (wf_names (fst c) = true -> all2 render_eqb (spec_outs (fst c) (snd c)) o = true)).
Print Assumptions C07_spec_ok_iff.
Check (C07_example_nontrivial : wf_names (fst ex_case) = true
  /\ List.length (run_case ex_case) = 3%nat
  /\ In {| a_fam := [108; 95; 95; 115; 101; 99; 111; 110; 100; 115]; a_type := 2; a_help := Some [104];
           a_name := [108; 95; 95; 115; 101; 99; 111; 110; 100; 115; 95; 99; 111; 117; 110; 116];
           a_labels := [[103; 61; 34; 49; 34]]; a_extra := XNone; a_val := VInt 3 |} (last (run_case ex_case) [])
  /\ In {| a_fam := [99]; a_type := 0; a_help := None; a_name := [99]; a_labels := [[103; 61; 34; 49; 34]];
           a_extra := XNone; a_val := VInt 1 |} (last (run_case ex_case) [])).
Print Assumptions C07_example_nontrivial.
Check (C07_example_special_values : wf_names (fst ex_special) = true
  /\ map (map (fun a => (a_extra a, a_val a))) (run_case ex_special)
     = [ [(XLe 4, VInt 1); (XLe 8, VInt 2); (XInf, VInt 3); (XNone, VPInf); (XNone, VInt 3); (XNone, VPInf)];
         [(XLe 4, VInt 2); (XLe 8, VInt 3); (XInf, VInt 5); (XNone, VNaN); (XNone, VInt 5); (XNone, VNaN)] ]).
Print Assumptions C07_example_special_values.
Check (C07_conc_every_sample_once : forall ps sched k,
  let s := fst (final ps sched) in
  drained k (c_log s) ++ c_bkt s k = recorded k (c_log s)
  /\ drained k (c_log s) = aggregated k (c_log s) ++ inflight k (c_lock s)
  /\ c_agg s k = (N.of_nat (List.length (aggregated k (c_log s))), zsumc (aggregated k (c_log s)))
  /\ fst (c_agg s k) + N.of_nat (List.length (inflight k (c_lock s))) + N.of_nat (List.length (c_bkt s k))
     = N.of_nat (List.length (recorded k (c_log s)))
  /\ (snd (c_agg s k) + zsumc (inflight k (c_lock s)) + zsumc (c_bkt s k))%Z = zsumc (recorded k (c_log s))).
Print Assumptions C07_conc_every_sample_once.
Check (C07_conc_drain_takes_all_pushed_before : forall ps sched l1 k xs l2,
  c_log (fst (final ps sched)) = l1 ++ EDrain k xs :: l2 -> drained k l1 ++ xs = recorded k l1).
Print Assumptions C07_conc_drain_takes_all_pushed_before.
Check (C07_conc_render_shows_drained : forall ps sched l1 out l2 k c sm,
  c_log (fst (final ps sched)) = l1 ++ ESnap out :: l2 -> In (k, (c, sm)) out ->
  c = N.of_nat (List.length (drained k l1)) /\ sm = zsumc (drained k l1)
  /\ exists rest, drained k l1 ++ rest = recorded k l1).
Print Assumptions C07_conc_render_shows_drained.
Check (C07_conc_visibility : forall ps sched l1 k xs l2 out l3 c sm,
  c_log (fst (final ps sched)) = l1 ++ EDrain k xs :: l2 ++ ESnap out :: l3 -> In (k, (c, sm)) out ->
  N.of_nat (List.length (recorded k l1)) <= c
  /\ exists more, drained k (l1 ++ EDrain k xs :: l2) = recorded k l1 ++ more).
Print Assumptions C07_conc_visibility.
Check (C07_conc_count_monotone : forall ps sched l1 o1 l2 o2 l3 k c1 s1 c2 s2,
  c_log (fst (final ps sched)) = l1 ++ ESnap o1 :: l2 ++ ESnap o2 :: l3 ->
  In (k, (c1, s1)) o1 -> In (k, (c2, s2)) o2 -> c1 <= c2).
Print Assumptions C07_conc_count_monotone.
Check (C07_conc_counter_gauge_reading : forall ps sched,
  (forall l1 k v l2, c_log (fst (final ps sched)) = l1 ++ ELoadC k v :: l2 -> v = fold_left capply (cupds k l1) 0)
  /\ (forall l1 k z l2, c_log (fst (final ps sched)) = l1 ++ ELoadG k z :: l2 -> z = fold_left gapply (gupds k l1) 0%Z)
  /\ (forall l1 k v1 l2 v2 l3, c_log (fst (final ps sched)) = l1 ++ ELoadC k v1 :: l2 ++ ELoadC k v2 :: l3 ->
      cbound (cupds k (l1 ++ ELoadC k v1 :: l2)) < two64c -> v1 <= v2)).
Print Assumptions C07_conc_counter_gauge_reading.
Check (C07_conc_render_twice : forall ps sched l0 k xs m o1 l2 o2 l3 c1 s1 c2 s2,
  c_log (fst (final ps sched)) = l0 ++ EDrain k xs :: m ++ ESnap o1 :: l2 ++ ESnap o2 :: l3 ->
  recorded k (m ++ ESnap o1 :: l2) = [] ->
  In (k, (c1, s1)) o1 -> In (k, (c2, s2)) o2 ->
  c1 = c2 /\ s1 = s2 /\ c1 = N.of_nat (List.length (recorded k l0)) /\ s1 = zsumc (recorded k l0)).
Print Assumptions C07_conc_render_twice.
Check (C07_conc_outputs_are_steps : forall ps sched l r,
  In l (snd (final ps sched)) -> In r (outs l) ->
  let log := c_log (fst (final ps sched)) in
  In (ESnap (r_dist r)) log /\
  (forall k v, In (k, v) (r_ctr r) -> In (ELoadC k v) log) /\
  (forall k z, In (k, z) (r_gau r) -> In (ELoadG k z) log)).
Print Assumptions C07_conc_outputs_are_steps.
Check (C07_conc_example : outs (nth 2 (snd (final ex_progs ex_sched)) (init_local (0, [])))
  = [ {| r_ctr := []; r_gau := []; r_dist := [(7, (4, 10%Z))] |};
      {| r_ctr := [(3, 9)]; r_gau := [(9, 4%Z)]; r_dist := [(7, (5, 15%Z))] |} ]
  /\ c_lock (fst (final ex_progs ex_sched)) = Free
  /\ c_bkt (fst (final ex_progs ex_sched)) 7 = []).
Print Assumptions C07_conc_example.
