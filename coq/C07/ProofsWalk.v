(* C07 — every entry of the model's [dists] map belongs to a registered histogram key of the table
   (so rendering the registered keys' entries, as render_all does, leaves no entry out), and the
   entries' keys are pairwise different. *)
From Coq Require Import List NArith ZArith Bool Lia.
Import ListNotations.
Require Import MV.C08.Model MV.C07.Model MV.C07.Spec MV.C07.ProofsBase MV.C07.ProofsInv.
Open Scope N_scope.

Section WithCfg.
Variable c : cfg.

Definition DI (s : st) : Prop :=
  NoDup (map fst (dists s)) /\
  forall p, In p (map fst (dists s)) ->
  exists j kj, In j (map fst (pend s)) /\ key_at c j = Some kj /\ k_kind kj = KH /\ parts c kj = p.

Lemma drain_all_keys l : (forall j, In j (map fst l) -> is_kind c j KH = true) ->
  forall d, NoDup (map fst d) ->
  NoDup (map fst (drain_all c l d)) /\
  forall p, In p (map fst (drain_all c l d)) ->
  In p (map fst d) \/ exists j kj, In j (map fst l) /\ key_at c j = Some kj /\ k_kind kj = KH /\ parts c kj = p.
Proof.
  induction l as [|[j bag] l IH]; intros Hkh d Hnd; [split; auto|].
  unfold drain_all. cbn [fold_left fst snd].
  assert (Hj := Hkh j (or_introl eq_refl)). unfold is_kind in Hj.
  destruct (key_at c j) as [kj|] eqn:Hkj; [|discriminate].
  assert (Hkjd : k_kind kj = KH) by (destruct (k_kind kj); auto; discriminate).
  fold (drain_all c l (record_into c d kj bag)).
  assert (Hnd1 : NoDup (map fst (record_into c d kj bag))) by (unfold record_into; apply (aset_nodup parts_eqb parts_eqb_eq); auto).
  destruct (IH (fun x Hx => Hkh x (or_intror Hx)) _ Hnd1) as [H1 H2]. split; [exact H1|].
  intros p Hp. destruct (H2 p Hp) as [Hin|(j' & kj' & Hin & Hk' & Hd' & Hpp)].
  - unfold record_into in Hin. apply (aset_keys parts_eqb parts_eqb_eq) in Hin. destruct Hin as [->|Hin]; auto.
    right. exists j, kj. cbn. auto.
  - right. exists j', kj'. cbn. auto.
Qed.

Lemma step_DI s o : SI c s -> DI s -> DI (fst (step c s o)).
Proof.
  intros [_ Hkh] [Hnd Hd].
  assert (Grow : forall (f : list (N * list xnum) -> list (N * list xnum)),
            (forall x, In x (map fst (pend s)) -> In x (map fst (f (pend s)))) -> DI (upd_pend s f)).
  { intros f Hf. split; [exact Hnd|]. intros p Hp. destruct (Hd p Hp) as (j' & kj' & Hin & Hrest). exists j', kj'. cbn. split; [apply Hf; exact Hin|exact Hrest]. }
  destruct o as [j|j v|j v|j v|j v|j v|j b|j v|dk n u t| |]; cbn [step op_index];
    try (destruct (key_at c j) as [k|] eqn:Hkj; [destruct (k_kind k) eqn:Hkd|]; cbn); try (split; assumption).
  - apply Grow. intros x Hx. unfold touch. apply (aset_keys N.eqb N_eqb_eq'). auto.
  - apply Grow. intros x Hx. apply (aset_keys N.eqb N_eqb_eq'). auto.
  - destruct (aget str_eqb _ (descr s)); split; assumption.
  - destruct (drain_all_keys (pend s) Hkh (dists s) Hnd) as [H1 H2]. split; cbn; [exact H1|].
    intros p Hp. rewrite cleared_keys. destruct (H2 p Hp) as [Hin|Hex]; auto.
  - destruct (drain_all_keys (pend s) Hkh (dists s) Hnd) as [H1 H2]. split; cbn; [exact H1|].
    intros p Hp. rewrite cleared_keys. destruct (H2 p Hp) as [Hin|Hex]; auto.
Qed.

Theorem dists_belong_to_registered_keys h : forall s, SI c s -> DI s -> DI (fst (run c s h)).
Proof.
  induction h as [|o h IH]; intros s Hs Hd; cbn [run]; [exact Hd|].
  destruct (step c s o) as [s1 x] eqn:Hst.
  assert (H1 : SI c s1 /\ DI s1).
  { replace s1 with (fst (step c s o)) by (rewrite Hst; reflexivity). split; [apply step_SI|apply step_DI]; auto. }
  specialize (IH s1 (proj1 H1) (proj2 H1)). destruct (run c s1 h) as [s2 xs]. exact IH.
Qed.

Lemma DI_init : SI c init /\ DI init.
Proof. repeat split; cbn; try constructor; tauto. Qed.

End WithCfg.
