(* C07 — model of the aggregation done by metrics-exporter-prometheus/src/recorder.rs:
     PrometheusRecorder::{register_*, describe_* -> add_description_if_missing},
     the handle updates of registry.rs / metrics::atomics (fetch_add, fetch_max, swap, fetch_update),
     Inner::drain_histograms_to_distributions, Inner::get_recent_metrics, Inner::render (as a
     STRUCTURED rendering: one record per sample line, carrying its family's TYPE/HELP header),
     Inner::run_upkeep, Distribution::record_samples, formatting::key_to_parts.
   Built on C08's model of formatting.rs (sanitisers, IndexMap semantics [imap_of], [key_labels],
   [unit_suffix], [type_suffix]) and C15's model of metrics_util::storage::Histogram
   ([record_many]) and DistributionBuilder ([db_new], [get_distribution], [get_distribution_type]).

   Abstractions (each stated in the MANIFEST):
   * the Registry is one storage per (kind, key) (C06): state is keyed by the INDEX of the key in
     the case's key table (the table holds pairwise different keys);
   * an AtomicBucket is its bag of pending samples in push order, clear_with takes all (C05);
   * HashMap iteration order is unspecified: a rendering lists series in key-table order, and is
     compared with the real one as a multiset;
   * the persistent [distributions] map IS modelled as the code has it: keyed by
     (sanitised name, rendered label strings), entry created on first drain with
     DistributionBuilder::get_distribution, samples folded in by record_samples;
   * doubles are exact dyadic numbers in quarter units (the integer 4x stands for the double x;
     |x| < 2^50), so that float addition is integer addition; a "raw" gauge holds an arbitrary
     64-bit pattern that is only ever set and rendered (the Display/parse round trip);
   * idle timeout = None (C12 covers Recency); summary quantile VALUES are not modelled.        *)
From Coq Require Import List NArith ZArith Bool SpecFloat String.
Import ListNotations.
Require Import MV.C08.Model.
Require MV.C15.Model.
Open Scope N_scope.

Module H := MV.C15.Model.

Definition s_bucket : str := lit "bucket".
Definition s_sum : str := lit "sum".
Definition s_count : str := lit "count".

(* ---- the number domain of samples, sums and gauge values: exact quarter-unit numbers extended with the
   IEEE special values.  A number is the SUM it stands for, kept as (exact finite part, how many +inf,
   -inf, NaN terms went into it); the double it denotes is its class [cls]:
     NaN  if a NaN went in, or both a +inf and a -inf (inf + -inf = NaN);
     +inf / -inf  if only that infinity went in (inf + finite = inf);
     else the exact finite part.
   Addition is componentwise, hence a commutative monoid, and [cls_xadd] (ProofsSpec.v) shows that it is
   IEEE addition on the classes, finite + finite being exact on the quarter-unit domain (assumption). *)
Record xnum := { x_fin : Z; x_pinf : N; x_ninf : N; x_nan : N }.
Definition xfin (z : Z) : xnum := {| x_fin := z; x_pinf := 0; x_ninf := 0; x_nan := 0 |}.
Definition xzero : xnum := xfin 0.
Definition xpinf : xnum := {| x_fin := 0; x_pinf := 1; x_ninf := 0; x_nan := 0 |}.
Definition xninf : xnum := {| x_fin := 0; x_pinf := 0; x_ninf := 1; x_nan := 0 |}.
Definition xnan : xnum := {| x_fin := 0; x_pinf := 0; x_ninf := 0; x_nan := 1 |}.
Definition xadd (a b : xnum) : xnum :=
  {| x_fin := (x_fin a + x_fin b)%Z; x_pinf := x_pinf a + x_pinf b; x_ninf := x_ninf a + x_ninf b; x_nan := x_nan a + x_nan b |}.
Definition xneg (a : xnum) : xnum :=
  {| x_fin := (- x_fin a)%Z; x_pinf := x_ninf a; x_ninf := x_pinf a; x_nan := x_nan a |}.
Inductive xclass := CNaN | CNInf | CFin (z : Z) | CPInf.
Definition cls (a : xnum) : xclass :=
  if negb (x_nan a =? 0) || (negb (x_pinf a =? 0) && negb (x_ninf a =? 0)) then CNaN
  else if negb (x_pinf a =? 0) then CPInf
  else if negb (x_ninf a =? 0) then CNInf
  else CFin (x_fin a).
(* f64 <= *)
Definition xle (a b : xnum) : bool :=
  match cls a, cls b with
  | CNaN, _ | _, CNaN => false
  | CNInf, _ => true
  | _, CPInf => true
  | CFin x, CFin y => (x <=? y)%Z
  | _, _ => false
  end.
Definition xsame (a b : xnum) : bool :=
  match cls a, cls b with
  | CNaN, CNaN | CNInf, CNInf | CPInf, CPInf => true
  | CFin x, CFin y => (x =? y)%Z
  | _, _ => false
  end.

Definition ZF : H.FloatOps :=
  {| H.F := xnum; H.fle := xle; H.fadd := xadd; H.fzero := xzero; H.fone := xfin 4; H.fpinf := xpinf; H.fninf := xninf;
     H.fisinf := fun a => match cls a with CPInf | CNInf => true | _ => false end;
     H.fwithin := fun _ _ _ => true; H.fsame := xsame; H.fclamp01 := fun x => x |}.

Inductive mkind := KC | KG | KR | KH.      (* counter, gauge, raw-bits gauge, histogram *)
Definition mkind_eqb (a b : mkind) : bool :=
  match a, b with KC, KC | KG, KG | KR, KR | KH, KH => true | _, _ => false end.

Record key := { k_kind : mkind; k_name : str; k_labels : list (str * str) }.

Record cfg := {
  c_globals : list (str * str);                 (* add_global_label calls, in order *)
  c_unit_on : bool;                             (* set_enable_unit_suffix *)
  c_quantiles : list N;                         (* set_quantiles: bit patterns of values in [0,1] *)
  c_buckets : option (list Z);                  (* set_buckets *)
  c_overrides : list (H.matcher * list Z);      (* set_buckets_for_metric calls, in order *)
  c_keys : list key }.                          (* the key table; operations name keys by index *)

Inductive op :=
| Register (i : N)
| Inc (i : N) (v : N) | Abs (i : N) (v : N)
| GSet (i : N) (v : xnum) | GInc (i : N) (v : xnum) | GDec (i : N) (v : xnum)
| GBits (i : N) (b : N)                         (* gauge.set(f64::from_bits(b)) on a raw gauge *)
| Rec (i : N) (v : xnum)                           (* histogram.record *)
| Describe (k : mkind) (name : str) (unit : option unit_t) (text : str)
| Upkeep
| Render.

(* which key an operation addresses, and the key kinds it is meaningful for (an operation whose
   kind does not fit its key is skipped by the driver and by the model) *)
Definition op_index (o : op) : option N :=
  match o with
  | Register i | Inc i _ | Abs i _ | GSet i _ | GInc i _ | GDec i _ | GBits i _ | Rec i _ => Some i
  | _ => None
  end.
Definition op_kind_ok (k : mkind) (o : op) : bool :=
  match o, k with
  | Register _, _ => true
  | (Inc _ _ | Abs _ _), KC => true
  | (GSet _ _ | GInc _ _ | GDec _ _), KG => true
  | GBits _ _, KR => true
  | Rec _ _, KH => true
  | _, _ => false
  end.

(* ---- association lists with HashMap/IndexMap insert semantics *)
Section Assoc.
Context {K V : Type} (eqb : K -> K -> bool).
Fixpoint aget (k : K) (l : list (K * V)) : option V :=
  match l with [] => None | (k', v) :: r => if eqb k k' then Some v else aget k r end.
Fixpoint aset (k : K) (v : V) (l : list (K * V)) : list (K * V) :=
  match l with
  | [] => [(k, v)]
  | (k', v') :: r => if eqb k k' then (k', v) :: r else (k', v') :: aset k v r
  end.
End Assoc.

Fixpoint indexed {A} (n : N) (l : list A) : list (N * A) :=
  match l with [] => [] | x :: r => (n, x) :: indexed (n + 1) r end.
Definition key_at (c : cfg) (i : N) : option key := aget N.eqb i (indexed 0 (c_keys c)).

(* ---- key_to_parts *)
Fixpoint strs_eqb (a b : list str) : bool :=
  match a, b with
  | [], [] => true
  | x :: r, y :: r' => str_eqb x y && strs_eqb r r'
  | _, _ => false
  end.
Definition parts_t := (str * list str)%type.
Definition parts_eqb (a b : parts_t) : bool := str_eqb (fst a) (fst b) && strs_eqb (snd a) (snd b).
Definition sname (k : key) : str := sanitize_metric_name (k_name k).
Definition parts (c : cfg) (k : key) : parts_t := (sname k, key_labels (c_globals c) (k_labels k)).

(* ---- distributions *)
Inductive dist := DHist (h : H.hist ZF) | DSumm (n : N) (s : xnum).

Definition dbuilder_of (c : cfg) : H.dbuilder ZF :=
  H.db_new ZF true true (option_map (map xfin) (c_buckets c)) (map (fun mb => (fst mb, map xfin (snd mb))) (c_overrides c)).
(* DistributionBuilder::get_distribution (the builder rejects empty bound lists, so hist_new succeeds) *)
Definition new_dist (c : cfg) (name : str) : dist :=
  match H.get_distribution ZF (dbuilder_of c) name with
  | Some b => match H.hist_new ZF b with Some h => DHist h | None => DSumm 0 xzero end
  | None => DSumm 0 xzero
  end.
(* Distribution::record_samples *)
Definition record_samples (d : dist) (bag : list xnum) : dist :=
  match d with
  | DHist h => DHist (H.record_many ZF h bag)
  | DSumm n s => let '(n', s') := fold_left (fun '(n, s) x => (n + 1, xadd s x)) bag (n, s) in DSumm n' s'
  end.

Definition two64 : N := 18446744073709551616.

Record st := {
  ctr : list (N * N);                            (* counter handles: key index -> value *)
  gau : list (N * xnum);                            (* gauge handles *)
  raw : list (N * N);                            (* raw gauges: bit pattern *)
  pend : list (N * list xnum);                      (* histogram handles: pending samples, push order *)
  dists : list (parts_t * dist);                 (* Inner.distributions *)
  descr : list (str * (str * option unit_t)) }.  (* Inner.descriptions *)
Definition init : st := {| ctr := []; gau := []; raw := []; pend := []; dists := []; descr := [] |}.

Definition upd_ctr s f := {| ctr := f (ctr s); gau := gau s; raw := raw s; pend := pend s; dists := dists s; descr := descr s |}.
Definition upd_gau s f := {| ctr := ctr s; gau := f (gau s); raw := raw s; pend := pend s; dists := dists s; descr := descr s |}.
Definition upd_raw s f := {| ctr := ctr s; gau := gau s; raw := f (raw s); pend := pend s; dists := dists s; descr := descr s |}.
Definition upd_pend s f := {| ctr := ctr s; gau := gau s; raw := raw s; pend := f (pend s); dists := dists s; descr := descr s |}.

(* get_or_create_*: the storage starts at 0 / empty *)
Definition getd {V} (i : N) (l : list (N * V)) (d : V) : V := match aget N.eqb i l with Some v => v | None => d end.
Definition touch {V} (i : N) (d : V) (l : list (N * V)) : list (N * V) := aset N.eqb i (getd i l d) l.

(* the loop body of drain_histograms_to_distributions for one handle *)
Definition record_into (c : cfg) (d : list (parts_t * dist)) (k : key) (bag : list xnum) : list (parts_t * dist) :=
  let p := parts c k in
  let e := match aget parts_eqb p d with Some e => e | None => new_dist c (fst p) end in
  aset parts_eqb p (record_samples e bag) d.

Definition drain_all (c : cfg) (l : list (N * list xnum)) (d : list (parts_t * dist)) : list (parts_t * dist) :=
  fold_left (fun d ib => match key_at c (fst ib) with Some k => record_into c d k (snd ib) | None => d end) l d.

Definition drain (c : cfg) (s : st) : st :=
  {| ctr := ctr s; gau := gau s; raw := raw s;
     pend := map (fun ib => (fst ib, [])) (pend s);
     dists := drain_all c (pend s) (dists s); descr := descr s |}.

(* ---- structured rendering *)
Inductive sval := VInt (n : N) | VZ (z : Z) | VB (bits : N) | VQ | VPInf | VNInf | VNaN.
(* how a number is shown: the double it denotes *)
Definition xval (a : xnum) : sval :=
  match cls a with CFin z => VZ z | CPInf => VPInf | CNInf => VNInf | CNaN => VNaN end.
Inductive extra := XNone | XLe (b : Z) | XInf | XQuant (bits : N).
Record asample := {
  a_fam : str;               (* name on the family's TYPE line *)
  a_type : N;                (* 0 counter, 1 gauge, 2 histogram, 3 summary *)
  a_help : option str;       (* text of the family's HELP line, as rendered *)
  a_name : str;              (* sample name *)
  a_labels : list str;       (* rendered label strings  name="value", in order *)
  a_extra : extra;           (* le / quantile *)
  a_val : sval }.

Definition mk_sample (name : str) (help : option str) (u : option unit_t) (ty : N) (labels : list str)
           (suffix : option str) (x : extra) (v : sval) : asample :=
  {| a_fam := name ++ unit_suffix u; a_type := ty; a_help := help;
     a_name := name ++ unit_suffix u ++ type_suffix suffix; a_labels := labels; a_extra := x; a_val := v |}.

(* IEEE-754 binary64 decoding of a bit pattern (same as C15/F64.v [sf_of_bits]; copied so that this
   development does not load the primitive-float library) *)
Definition sf_of_bits (z : Z) : spec_float :=
  let s := Z.testbit z 63 in
  let e := Z.land (Z.shiftr z 52) 2047 in
  let m := Z.land z (2^52 - 1) in
  if (e =? 0)%Z then (match m with Zpos p => S754_finite s p (-1074) | _ => S754_zero s end)
  else if (e =? 2047)%Z then (if (m =? 0)%Z then S754_infinity s else S754_nan)
  else match (m + 2^52)%Z with Zpos p => S754_finite s p (e - 1075) | _ => S754_nan end.

(* a double given by its bit pattern, as the exact quarter-unit integer when it is one *)
Definition canon (b : N) : sval :=
  match sf_of_bits (Z.of_N b) with
  | S754_zero false => VZ 0
  | S754_infinity false => VPInf
  | S754_infinity true => VNInf
  | S754_nan => VNaN
  | S754_finite s m e =>
      let e2 := (e + 2)%Z in
      let q := if (0 <=? e2)%Z then (if (e2 <=? 60)%Z then Some (Zpos m * 2 ^ e2)%Z else None)
               else if (Zpos m mod 2 ^ (- e2) =? 0)%Z then Some (Zpos m / 2 ^ (- e2))%Z else None in
      match q with
      | Some q => if (q <? 2 ^ 52)%Z then VZ (if s then (- q)%Z else q) else VB b
      | None => VB b
      end
  | _ => VB b
  end.

(* write_family_help: description lookup by sanitised name; unit filtered by enable_unit_suffix *)
Definition help_unit (c : cfg) (s : st) (name : str) : option str * option unit_t :=
  match aget str_eqb name (descr s) with
  | Some (t, u) => (Some (sanitize_description t), if c_unit_on c then u else None)
  | None => (None, None)
  end.

Definition dist_samples (c : cfg) (mk : option str -> extra -> sval -> asample) (d : dist) : list asample :=
  match d with
  | DHist h =>
      map (fun bc => mk (Some s_bucket) (XLe (x_fin (fst bc))) (VInt (snd bc))) (combine (H.h_bounds ZF h) (H.h_buckets ZF h))
      ++ [mk (Some s_bucket) XInf (VInt (H.h_count ZF h));
          mk (Some s_sum) XNone (xval (H.h_sum ZF h));
          mk (Some s_count) XNone (VInt (H.h_count ZF h))]
  | DSumm n sm =>
      map (fun q => mk None (XQuant q) VQ) (c_quantiles c)
      ++ [mk (Some s_sum) XNone (xval sm); mk (Some s_count) XNone (VInt n)]
  end.

Definition render_key (c : cfg) (s : st) (i : N) (k : key) : list asample :=
  let name := sname k in
  let '(help, u) := help_unit c s name in
  let labels := snd (parts c k) in
  match k_kind k with
  | KC => match aget N.eqb i (ctr s) with
          | Some v => [mk_sample name help u 0 labels None XNone (VInt v)] | None => [] end
  | KG => match aget N.eqb i (gau s) with
          | Some v => [mk_sample name help u 1 labels None XNone (xval v)] | None => [] end
  | KR => match aget N.eqb i (raw s) with
          | Some b => [mk_sample name help u 1 labels None XNone (canon b)] | None => [] end
  | KH => match aget N.eqb i (pend s) with
          | None => []
          | Some _ =>
              match aget parts_eqb (parts c k) (dists s) with
              | None => []
              | Some d =>
                  let ty := if H.get_distribution_type ZF (dbuilder_of c) name then 2 else 3 in
                  dist_samples c (mk_sample name help u ty labels) d
              end
          end
  end.

Definition render_all (c : cfg) (s : st) : list asample :=
  flat_map (fun ik => render_key c s (fst ik) (snd ik)) (indexed 0 (c_keys c)).

(* ---- one operation.
   ATOMICITY ASSUMPTION (Upkeep, Render).  [drain] is ONE step of the model: for every handle the
   pending samples leave the bucket and enter the distribution entry together, and a Render reads
   the distributions only after its own drain.  The code fact this rests on:
   drain_histograms_to_distributions takes the `distributions` write lock FIRST and calls
   `clear_with(|samples| entry.record_samples(samples))` while holding it, so another thread's
   render()/run_upkeep() can never find a bucket already emptied whose samples are not yet in the
   map: its own drain of that key blocks on the lock, and its snapshot (`distributions.read()`) comes
   after its drains.  Were the samples taken out before the lock (a local Vec), a concurrent
   render would under-report completed records although every sequential history behaves the same.
   The theorems are about sequential histories and do not prove this; the visibility stress engine
   of vlib/c07.py tests it on the real code. *)
Definition step (c : cfg) (s : st) (o : op) : st * option (list asample) :=
  match o with
  | Upkeep => (drain c s, None)
  | Render => let s' := drain c s in (s', Some (render_all c s'))
  | Describe _ name unit text =>
      let n := sanitize_metric_name name in
      (match aget str_eqb n (descr s) with
       | Some _ => s
       | None => {| ctr := ctr s; gau := gau s; raw := raw s; pend := pend s; dists := dists s;
                    descr := aset str_eqb n (text, unit) (descr s) |}
       end, None)
  | _ =>
      match op_index o with
      | None => (s, None)
      | Some i =>
          match key_at c i with
          | None => (s, None)
          | Some k =>
              if negb (op_kind_ok (k_kind k) o) then (s, None) else
              (match o, k_kind k with
               | Register _, KC => upd_ctr s (touch i 0)
               | Register _, KG => upd_gau s (touch i xzero)
               | Register _, KR => upd_raw s (touch i 0)
               | Register _, KH => upd_pend s (touch i [])
               | Inc _ v, _ => upd_ctr s (fun l => aset N.eqb i ((getd i l 0 + v) mod two64) l)
               | Abs _ v, _ => upd_ctr s (fun l => aset N.eqb i (N.max (getd i l 0) v) l)
               | GSet _ v, _ => upd_gau s (aset N.eqb i v)
               | GInc _ v, _ => upd_gau s (fun l => aset N.eqb i (xadd (getd i l xzero) v) l)
               | GDec _ v, _ => upd_gau s (fun l => aset N.eqb i (xadd (getd i l xzero) (xneg v)) l)
               | GBits _ b, _ => upd_raw s (aset N.eqb i b)
               | Rec _ v, _ => upd_pend s (fun l => aset N.eqb i (getd i l [] ++ [v]) l)
               | _, _ => s
               end, None)
          end
      end
  end.

Fixpoint run (c : cfg) (s : st) (h : list op) : st * list (list asample) :=
  match h with
  | [] => (s, [])
  | o :: r =>
      let '(s1, x) := step c s o in
      let '(s2, xs) := run c s1 r in
      (s2, match x with Some y => y :: xs | None => xs end)
  end.
