(* C12 — the property's clauses stated over histories, proved of the specification machine
   (Spec.trun); together with Proofs.model_meets_spec they hold of the implementation model. *)
From Coq Require Import List NArith Bool Lia.
Import ListNotations.
Require Import MV.C12.Model MV.C12.Spec MV.C12.Proofs.
Open Scope N_scope.

Fixpoint elapsed (h : list op) : N :=
  match h with [] => 0 | Advance d :: r => d + elapsed r | _ :: r => elapsed r end.

(* no update of target t in h *)
Fixpoint no_update (t : target) (h : list op) : bool :=
  match h with
  | [] => true
  | Update k key _ :: r => negb (target_eqb t (k, key)) && no_update t r
  | Register k key :: r => negb (target_eqb t (k, key)) && no_update t r
  | Complete k key _ :: r => negb (target_eqb t (k, key)) && no_update t r
  | _ :: r => no_update t r
  end.
(* neither update nor observation of t in h *)
Fixpoint quiet (t : target) (h : list op) : bool :=
  match h with
  | [] => true
  | Update k key _ :: r => negb (target_eqb t (k, key)) && quiet t r
  | Observe k key :: r => negb (target_eqb t (k, key)) && quiet t r
  | Register k key :: r => negb (target_eqb t (k, key)) && quiet t r
  | Complete k key _ :: r => negb (target_eqb t (k, key)) && quiet t r
  | Advance _ :: r => quiet t r
  end.

Definition obs (t : target) : op := Observe (fst t) (snd t).
Definition upd (t : target) (v : N) : op := Update (fst t) (snd t) v.

Lemma target_eta (t : target) : (fst t, snd t) = t.
Proof. destruct t; reflexivity. Qed.

Lemma tfinal_quiet c t h : forall tnow s, quiet t h = true ->
  tfinal c t tnow s h = (tnow + elapsed h, s) /\ trun c t tnow s h = [].
Proof.
  induction h as [|o r IH]; intros tnow s Hq.
  - cbn. split; [f_equal; lia|reflexivity].
  - rewrite trun_cons. cbn [tfinal]. destruct o as [k key v|d|k key|k key|k key v]; cbn [quiet] in Hq.
    + apply andb_prop in Hq as [H1 H2]. apply negb_true_iff in H1.
      cbn [tview_step op_now elapsed]. rewrite H1. apply IH. exact H2.
    + cbn [tview_step op_now elapsed]. destruct (IH (tnow + d) s Hq) as [E1 E2].
      rewrite E1, E2. split; [f_equal; lia|reflexivity].
    + apply andb_prop in Hq as [H1 H2]. apply negb_true_iff in H1.
      cbn [tview_step op_now elapsed]. rewrite H1. apply IH. exact H2.
    + apply andb_prop in Hq as [H1 H2]. apply negb_true_iff in H1.
      cbn [tview_step op_now elapsed]. rewrite H1. apply IH. exact H2.
    + apply andb_prop in Hq as [H1 H2]. apply negb_true_iff in H1.
      cbn [tview_step op_now elapsed]. rewrite H1. apply IH. exact H2.
Qed.

(* the last output of  pre ++ mid ++ [obs t]  is one tstep from the state after pre ++ mid *)
Lemma last_obs c t h :
  last (trun c t 0 tinit (h ++ [obs t])) OUnit =
  snd (tstep c (fst t) (fst (tfinal c t 0 tinit h)) (snd (tfinal c t 0 tinit h)) None).
Proof.
  rewrite trun_app. unfold obs. cbn [trun]. rewrite target_eta, target_eqb_refl.
  destruct (tstep c (fst t) _ _ None) as [s' x]. cbn [snd]. apply last_app_singleton.
Qed.

Lemma tfinal_upd c t v h :
  tfinal c t 0 tinit (h ++ [upd t v]) =
  (fst (tfinal c t 0 tinit h),
   {| present := true;
      vals := v :: (if present (snd (tfinal c t 0 tinit h)) then vals (snd (tfinal c t 0 tinit h)) else []);
      anchor := None |}).
Proof.
  rewrite tfinal_app. unfold upd. cbn [tfinal op_now tview_step]. rewrite target_eta, target_eqb_refl.
  reflexivity.
Qed.

(* A. updated since the previous observation => kept, with its full value, whatever time passed *)
Theorem updated_since_last_observation_kept c t pre v mid :
  quiet t mid = true ->
  exists vs, last (trun c t 0 tinit ((pre ++ [upd t v]) ++ mid ++ [obs t])) OUnit
             = OKept (N.of_nat (length (v :: vs))) (view (fst t) (v :: vs)).
Proof.
  intros Hq. rewrite app_assoc, last_obs, tfinal_app, tfinal_upd. cbn [fst snd].
  destruct (tfinal_quiet c t mid (fst (tfinal c t 0 tinit pre))
              {| present := true;
                 vals := v :: (if present (snd (tfinal c t 0 tinit pre)) then vals (snd (tfinal c t 0 tinit pre)) else []);
                 anchor := None |} Hq) as [E _].
  rewrite E. cbn [fst snd]. unfold tstep. cbn [present negb vals anchor].
  eexists. destruct (covered c (fst t)); reflexivity.
Qed.

(* state after an anchored, present metric sees only observations (no update) within the timeout *)
Lemma tfinal_no_update_within c t T a vs h : forall tnow,
  covered c (fst t) = Some T -> no_update t h = true -> tnow + elapsed h - a <= T ->
  tfinal c t tnow {| present := true; vals := vs; anchor := Some a |} h
  = (tnow + elapsed h, {| present := true; vals := vs; anchor := Some a |}).
Proof.
  intros tnow Hc. revert tnow. induction h as [|o r IH]; intros tnow Hn Hle.
  - cbn. f_equal. lia.
  - cbn [tfinal]. destruct o as [k key v|d|k key|k key|k key v]; cbn [no_update elapsed] in *.
    + apply andb_prop in Hn as [H1 H2]. apply negb_true_iff in H1.
      cbn [tview_step op_now]. rewrite H1. apply IH; assumption.
    + cbn [tview_step op_now]. rewrite IH; [f_equal; lia|exact Hn|lia].
    + cbn [tview_step op_now]. destruct (target_eqb t (k, key)); [|apply IH; assumption].
      unfold tstep. cbn [present negb anchor vals]. rewrite Hc.
      destruct (N.ltb_spec T (tnow - a)); [lia|]. cbn [fst]. apply IH; assumption.
    + apply andb_prop in Hn as [H1 H2]. apply negb_true_iff in H1.
      cbn [tview_step op_now]. rewrite H1. apply IH; assumption.
    + apply andb_prop in Hn as [H1 H2]. apply negb_true_iff in H1.
      cbn [tview_step op_now]. rewrite H1. apply IH; assumption.
Qed.

Definition vals_before c t pre :=
  if present (snd (tfinal c t 0 tinit pre)) then vals (snd (tfinal c t 0 tinit pre)) else [].

Lemma after_update_quiet c t pre v m1 :
  quiet t m1 = true ->
  tfinal c t 0 tinit ((pre ++ [upd t v]) ++ m1)
  = (fst (tfinal c t 0 tinit pre) + elapsed m1,
     {| present := true; vals := v :: vals_before c t pre; anchor := None |}).
Proof.
  intros Hq. rewrite tfinal_app, tfinal_upd. cbn [fst snd].
  match goal with |- tfinal c t ?n ?s m1 = _ => destruct (tfinal_quiet c t m1 n s Hq) as [E _] end.
  exact E.
Qed.

Lemma after_first_observation c t T pre v m1 :
  covered c (fst t) = Some T -> quiet t m1 = true ->
  tfinal c t 0 tinit (((pre ++ [upd t v]) ++ m1) ++ [obs t])
  = (fst (tfinal c t 0 tinit pre) + elapsed m1,
     {| present := true; vals := v :: vals_before c t pre;
        anchor := Some (fst (tfinal c t 0 tinit pre) + elapsed m1) |}).
Proof.
  intros Hc Hq. rewrite tfinal_app, after_update_quiet by exact Hq. cbn [fst snd].
  unfold obs. cbn [tfinal op_now tview_step]. rewrite target_eta, target_eqb_refl.
  unfold tstep. cbn [present negb anchor vals]. rewrite Hc. reflexivity.
Qed.

(* B. idle for no longer than the timeout since the first observation after its last update
      => kept with its full value (boundary: exactly the timeout is kept) *)
Theorem idle_at_most_timeout_kept c t T pre v m1 m2 :
  covered c (fst t) = Some T ->
  quiet t m1 = true -> no_update t m2 = true -> elapsed m2 <= T ->
  exists vs, last (trun c t 0 tinit ((pre ++ [upd t v]) ++ m1 ++ [obs t] ++ m2 ++ [obs t])) OUnit
             = OKept (N.of_nat (length (v :: vs))) (view (fst t) (v :: vs)).
Proof.
  intros Hc Hq Hn Hle.
  replace ((pre ++ [upd t v]) ++ m1 ++ [obs t] ++ m2 ++ [obs t])
    with (((((pre ++ [upd t v]) ++ m1) ++ [obs t]) ++ m2) ++ [obs t]) by (rewrite <- !app_assoc; reflexivity).
  rewrite last_obs, tfinal_app, (after_first_observation c t T) by assumption. cbn [fst snd].
  rewrite (tfinal_no_update_within c t T) by (try assumption; lia).
  cbn [fst snd]. unfold tstep. cbn [present negb anchor vals]. rewrite Hc.
  match goal with |- context [T <? ?x] => destruct (N.ltb_spec T x); [lia|] end.
  eexists. reflexivity.
Qed.

(* C. unchanged since an earlier observation made more than the timeout ago => deleted *)
Theorem idle_longer_than_timeout_deleted c t T pre v m1 m2 :
  covered c (fst t) = Some T ->
  quiet t m1 = true -> quiet t m2 = true -> T < elapsed m2 ->
  last (trun c t 0 tinit ((pre ++ [upd t v]) ++ m1 ++ [obs t] ++ m2 ++ [obs t])) OUnit = ODeleted.
Proof.
  intros Hc Hq Hq2 Hlt.
  replace ((pre ++ [upd t v]) ++ m1 ++ [obs t] ++ m2 ++ [obs t])
    with (((((pre ++ [upd t v]) ++ m1) ++ [obs t]) ++ m2) ++ [obs t]) by (rewrite <- !app_assoc; reflexivity).
  rewrite last_obs, tfinal_app, (after_first_observation c t T) by assumption. cbn [fst snd].
  match goal with |- context [tfinal c t ?n ?s m2] => destruct (tfinal_quiet c t m2 n s Hq2) as [E2 _] end.
  rewrite E2. cbn [fst snd]. unfold tstep. cbn [present negb anchor vals]. rewrite Hc.
  match goal with |- context [T <? ?x] => destruct (N.ltb_spec T x); [reflexivity|lia] end.
Qed.

(* D. kinds outside the mask, or no timeout at all: never deleted *)
Theorem uncovered_never_deleted c t h : forall tnow s,
  covered c (fst t) = None -> ~ In ODeleted (trun c t tnow s h).
Proof.
  induction h as [|o r IH]; intros tnow s Hc; [intros []|].
  rewrite trun_cons. intros Hin. apply in_app_or in Hin as [Hin|Hin]; [|eapply IH; eauto].
  destruct o as [k key v|d|k key|k key|k key v]; try solve [destruct Hin].
  destruct (target_eqb t (k, key)); [|destruct Hin].
  destruct Hin as [Hin|[]]. unfold tstep in Hin. rewrite Hc in Hin.
  destruct (negb (present s)); discriminate.
Qed.

(* E. a deleted metric that is registered again starts from scratch: generation 1, only the new value *)
Theorem fresh_after_reregistration c t pre m v m' :
  last (trun c t 0 tinit (pre ++ [obs t])) OUnit = ODeleted ->
  quiet t m = true -> quiet t m' = true ->
  last (trun c t 0 tinit ((((pre ++ [obs t]) ++ m) ++ [upd t v]) ++ m' ++ [obs t])) OUnit
  = OKept 1 (view (fst t) [v]).
Proof.
  intros Hdel Hq Hq'. rewrite app_assoc, last_obs, tfinal_app, tfinal_upd. cbn [fst snd].
  rewrite (tfinal_app c t (pre ++ [obs t])).
  assert (Hs : snd (tfinal c t 0 tinit (pre ++ [obs t])) = tinit).
  { rewrite last_obs in Hdel. rewrite tfinal_app. unfold obs. cbn [tfinal op_now tview_step snd].
    rewrite target_eta, target_eqb_refl. revert Hdel. unfold tstep.
    destruct (negb (present _)); [discriminate|]. destruct (covered c (fst t)); [|discriminate].
    destruct (anchor _); [|discriminate]. destruct (_ <? _); [reflexivity|discriminate]. }
  destruct (tfinal_quiet c t m (fst (tfinal c t 0 tinit (pre ++ [obs t]))) (snd (tfinal c t 0 tinit (pre ++ [obs t]))) Hq) as [E _].
  rewrite E, Hs. cbn [fst snd present].
  match goal with |- context [tfinal c t ?n ?s m'] => destruct (tfinal_quiet c t m' n s Hq') as [E' _] end.
  rewrite E'. cbn [fst snd]. unfold tstep. cbn [present negb vals anchor length].
  destruct (covered c (fst t)); reflexivity.
Qed.

(* F. the verdict for a target does not depend on operations on any other target *)
Fixpoint only (t : target) (h : list op) : list op :=
  match h with
  | [] => []
  | Advance d :: r => Advance d :: only t r
  | Update k key v :: r => if target_eqb t (k, key) then Update k key v :: only t r else only t r
  | Observe k key :: r => if target_eqb t (k, key) then Observe k key :: only t r else only t r
  | Register k key :: r => if target_eqb t (k, key) then Register k key :: only t r else only t r
  | Complete k key v :: r => if target_eqb t (k, key) then Complete k key v :: only t r else only t r
  end.

Theorem kinds_and_keys_independent c t h : forall tnow s, trun c t tnow s h = trun c t tnow s (only t h).
Proof.
  induction h as [|o r IH]; intros tnow s; [reflexivity|].
  destruct o as [k key v|d|k key|k key|k key v]; cbn [only].
  - destruct (target_eqb t (k, key)) eqn:E; cbn [trun]; rewrite E; [destruct (tstep _ _ _ _ _)|]; apply IH.
  - cbn [trun]. apply IH.
  - destruct (target_eqb t (k, key)) eqn:E; cbn [trun]; rewrite E; [destruct (tstep _ _ _ _ _); f_equal|]; apply IH.
  - destruct (target_eqb t (k, key)) eqn:E; cbn [trun]; rewrite E; apply IH.
  - destruct (target_eqb t (k, key)) eqn:E; cbn [trun]; rewrite E; apply IH.
Qed.

(* G. an update in flight: an observation that lands between the get_or_create that yields the
   handle and the moment the update is applied does not hide the update from the NEXT observation:
   once the update completes the metric counts as updated (the anchor is forgotten), so it is kept,
   whatever time passed -- provided the in-flight observations did not delete it (then the handle
   is detached and the update is lost, which the statement excludes by [present]). *)
Theorem inflight_update_then_observed_kept c t pre mid v mid2 :
  present (snd (tfinal c t 0 tinit (pre ++ [Register (fst t) (snd t)] ++ mid))) = true ->
  quiet t mid2 = true ->
  exists vs, last (trun c t 0 tinit (((pre ++ [Register (fst t) (snd t)] ++ mid) ++ [Complete (fst t) (snd t) v]) ++ mid2 ++ [obs t])) OUnit
             = OKept (N.of_nat (length (v :: vs))) (view (fst t) (v :: vs)).
Proof.
  intros Hp Hq. rewrite app_assoc, last_obs, tfinal_app.
  rewrite (tfinal_app c t (pre ++ [Register (fst t) (snd t)] ++ mid)).
  set (st := tfinal c t 0 tinit (pre ++ [Register (fst t) (snd t)] ++ mid)) in *.
  cbn [tfinal op_now tview_step fst snd]. rewrite target_eta, target_eqb_refl.
  unfold tcomp. rewrite Hp.
  match goal with |- context [tfinal c t ?n ?s mid2] => destruct (tfinal_quiet c t mid2 n s Hq) as [E _] end.
  rewrite E. cbn [fst snd]. unfold tstep. cbn [present negb vals anchor].
  eexists. destruct (covered c (fst t)); reflexivity.
Qed.

(* non-vacuity: a concrete history exercising keep / boundary / delete / re-registration, with
   the same key under two kinds, run through the implementation model *)
Example nonvacuous :
  snd (run {| mask_c := true; mask_g := true; mask_h := false; timeout := Some 10; by_kind := true |} init
        [Update Counter 0 5; Observe Counter 0; Advance 10; Observe Counter 0; Update Gauge 0 7; Observe Gauge 0;
         Advance 1; Observe Counter 0; Observe Counter 0; Update Counter 0 2; Observe Counter 0; Observe Gauge 0])
  = [OUnit; OKept 1 [5]; OUnit; OKept 1 [5]; OUnit; OKept 1 [7]; OUnit; ODeleted; OAbsent; OUnit; OKept 1 [2]; OKept 1 [7]].
Proof. vm_compute. reflexivity. Qed.

(* the defect that was found and fixed: with the entry map keyed by key alone the model (and the
   code before the fix) does not meet the specification *)
Lemma by_key_only_refuted :
  exists c h, by_kind c = false /\ snd (run c init h) <> spec_outs c h.
Proof.
  exists {| mask_c := true; mask_g := true; mask_h := true; timeout := Some 10; by_kind := false |}.
  exists [Update Counter 0 1; Observe Counter 0; Advance 11; Update Gauge 0 1; Observe Gauge 0].
  split; [reflexivity|]. vm_compute. discriminate.
Qed.
