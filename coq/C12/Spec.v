(* C12 — the property as a specification written per metric, with no maps and no generations.

   For one target (kind, key) the only things that matter are: is it registered, which updates
   it received since it was (re-)registered, and the time of the FIRST observation made since its
   most recent update ("anchor").  An observation deletes the metric exactly when an anchor
   exists and lies more than the timeout in the past.  The history of every other target is
   irrelevant (independence), which is what [spec_outs] expresses by construction: it runs one
   such machine per observed target over the projection of the history.                          *)
From Coq Require Import List NArith Bool.
Import ListNotations.
Require Import MV.C12.Model.
Open Scope N_scope.

Record tstate := { present : bool; vals : list N; anchor : option N }.
Definition tinit : tstate := {| present := false; vals := []; anchor := None |}.

Definition covered (c : cfg) (k : kind) : option N :=
  match timeout c with Some T => if mask_matches c k then Some T else None | None => None end.

(* one event of the target's own history; [tnow] is the current time *)
Definition tstep (c : cfg) (k : kind) (tnow : N) (s : tstate) (upd : option N) : tstate * out :=
  match upd with
  | Some v => ({| present := true; vals := v :: (if present s then vals s else []); anchor := None |}, OUnit)
  | None =>
      if negb (present s) then (s, OAbsent) else
      let g := N.of_nat (length (vals s)) in
      match covered c k with
      | None => (s, OKept g (view k (vals s)))
      | Some T =>
          match anchor s with
          | Some a => if T <? (tnow - a) then (tinit, ODeleted) else (s, OKept g (view k (vals s)))
          | None => ({| present := true; vals := vals s; anchor := Some tnow |}, OKept g (view k (vals s)))
          end
      end
  end.

(* the two halves of an update in flight (see Model.op) *)
Definition treg (s : tstate) : tstate :=
  if present s then s else {| present := true; vals := []; anchor := None |}.
Definition tcomp (s : tstate) (v : N) : tstate :=
  if present s then {| present := true; vals := v :: vals s; anchor := None |} else s.

(* run the machine of target [t] over a whole history; returns the outputs of t's observations
   in order *)
Fixpoint trun (c : cfg) (t : target) (tnow : N) (s : tstate) (h : list op) : list out :=
  match h with
  | [] => []
  | Advance d :: r => trun c t (tnow + d) s r
  | Update k key v :: r =>
      if target_eqb t (k, key) then let '(s', _) := tstep c (fst t) tnow s (Some v) in trun c t tnow s' r
      else trun c t tnow s r
  | Observe k key :: r =>
      if target_eqb t (k, key) then let '(s', x) := tstep c (fst t) tnow s None in x :: trun c t tnow s' r
      else trun c t tnow s r
  | Register k key :: r =>
      if target_eqb t (k, key) then trun c t tnow (treg s) r else trun c t tnow s r
  | Complete k key v :: r =>
      if target_eqb t (k, key) then trun c t tnow (tcomp s v) r else trun c t tnow s r
  end.

(* the specified output of the i-th operation of a history: for an observation, what the
   per-target machine says, computed from the prefix of the history up to and including it *)
Fixpoint spec_outs_from (c : cfg) (pre : list op) (h : list op) : list out :=
  match h with
  | [] => []
  | o :: r =>
      (match o with
       | Observe k key => last (trun c (k, key) 0 tinit (pre ++ [o])) OUnit
       | _ => OUnit
       end) :: spec_outs_from c (pre ++ [o]) r
  end.
Definition spec_outs (c : cfg) (h : list op) : list out := spec_outs_from c [] h.
