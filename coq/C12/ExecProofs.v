From Coq Require Import List NArith Bool.
Import ListNotations.
Require Import MV.C12.Model MV.C12.Spec MV.C12.Proofs MV.C12.Exec.
Open Scope N_scope.

Lemma out_eqb1_refl x : out_eqb1 x x = true.
Proof. destruct x; simpl; auto. rewrite N.eqb_refl. destruct (list_eq_dec N.eq_dec view view); [reflexivity|exfalso; auto]. Qed.

Lemma outs_eqb_refl l : outs_eqb l l = true.
Proof. induction l; simpl; auto. rewrite out_eqb1_refl. exact IHl. Qed.

Lemma outs_eqb_eq a : forall b, outs_eqb a b = true -> a = b.
Proof.
  induction a as [|x a IH]; intros [|y b] H; simpl in H; try discriminate; auto.
  apply andb_prop in H as [H1 H2]. f_equal; [|apply IH; exact H2].
  destruct x, y; simpl in H1; try discriminate; auto.
  apply andb_prop in H1 as [H3 H4]. apply N.eqb_eq in H3. subst.
  destruct (list_eq_dec N.eq_dec view view0); [subst; reflexivity|discriminate].
Qed.

(* the executable check used on implementation outputs is exactly "equals the specified outputs" *)
Lemma spec_ok_iff c o : spec_ok c o = true <-> o = spec_outs (fst c) (snd c).
Proof.
  unfold spec_ok. split; intros H.
  - symmetry. apply outs_eqb_eq. exact H.
  - subst. apply outs_eqb_refl.
Qed.

Theorem spec_ok_on_model c : by_kind (fst c) = true -> spec_ok c (run_case c) = true.
Proof. intros H. apply spec_ok_iff. unfold run_case. apply model_meets_spec. exact H. Qed.
