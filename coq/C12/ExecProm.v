(* C12 — the same model observed through the Prometheus exporter: an observation is a whole
   render() (python expands it into one Observe per target, counters then gauges then histograms,
   which is the order of get_recent_metrics); what is visible is whether the series is present and
   its value, not the generation, and "absent" and "just deleted" look the same. *)
From Coq Require Import List NArith Bool.
Import ListNotations.
Require Export MV.C12.Model MV.C12.Spec.
Require Import MV.C12.Proofs.
Open Scope N_scope.

Inductive pout := PUnit | PGone | PKept (view : list N).
Definition proj (o : out) : pout :=
  match o with OUnit => PUnit | OAbsent | ODeleted => PGone | OKept _ v => PKept v end.

Definition case := (cfg * list op)%type.
Definition OUT := list pout.
Definition run_case (c : case) : OUT := map proj (snd (run (fst c) init (snd c))).

Definition pout_eqb (a b : pout) : bool :=
  match a, b with
  | PUnit, PUnit | PGone, PGone => true
  | PKept v, PKept v' => if list_eq_dec N.eq_dec v v' then true else false
  | _, _ => false
  end.
Fixpoint pouts_eqb (a b : list pout) : bool :=
  match a, b with
  | [], [] => true
  | x :: r, y :: r' => pout_eqb x y && pouts_eqb r r'
  | _, _ => false
  end.

Definition spec_ok (c : case) (o : OUT) : bool := pouts_eqb (map proj (spec_outs (fst c) (snd c))) o.
Definition known_class (c : case) : option N := None.
Definition verdicts (l : list (N * case * OUT)) : list (N * bool * bool * option N) :=
  map (fun '(i, c, o) => (i, pouts_eqb (run_case c) o, spec_ok c o, known_class c)) l.

Lemma pouts_eqb_refl l : pouts_eqb l l = true.
Proof.
  induction l as [|x l IH]; [reflexivity|]. cbn. rewrite IH.
  destruct x; cbn; auto. destruct (list_eq_dec N.eq_dec view view); [reflexivity|exfalso; auto].
Qed.

Theorem prom_spec_ok_on_model c : by_kind (fst c) = true -> spec_ok c (run_case c) = true.
Proof.
  intros H. unfold spec_ok, run_case. rewrite (model_meets_spec (fst c) (snd c) H). apply pouts_eqb_refl.
Qed.
