(* C12 — proofs.  Main result: the map-and-generation implementation model refines the
   per-target specification machine (Spec.v) for every history, mask and timeout. *)
From Coq Require Import List NArith Bool Lia.
Import ListNotations.
Require Import MV.C12.Model MV.C12.Spec.
Open Scope N_scope.

Lemma kind_eqb_spec a b : reflect (a = b) (kind_eqb a b).
Proof. destruct a, b; simpl; constructor; congruence. Qed.

Lemma target_eqb_spec a b : reflect (a = b) (target_eqb a b).
Proof.
  destruct a as [k n], b as [k' n']; unfold target_eqb; simpl.
  destruct (kind_eqb_spec k k'); simpl.
  - destruct (N.eqb_spec n n'); constructor; congruence.
  - constructor; congruence.
Qed.

Lemma target_eqb_refl t : target_eqb t t = true.
Proof. destruct (target_eqb_spec t t); congruence. Qed.

Lemma target_eqb_sym a b : target_eqb a b = target_eqb b a.
Proof. destruct (target_eqb_spec a b), (target_eqb_spec b a); congruence. Qed.

Section Maps.
  Context {A : Type}.
  Implicit Types (l : list (target * A)).

  Lemma lookup_remove_same t l : lookup t (remove t l) = None.
  Proof.
    induction l as [|[t' a] l IH]; simpl; [reflexivity|].
    destruct (target_eqb t t') eqn:E; [exact IH|]. simpl. rewrite E. exact IH.
  Qed.

  Lemma lookup_remove_other t u l : target_eqb t u = false -> lookup t (remove u l) = lookup t l.
  Proof.
    intros H. induction l as [|[t' a] l IH]; simpl; [reflexivity|].
    destruct (target_eqb u t') eqn:E.
    - destruct (target_eqb_spec u t'); [subst|discriminate]. rewrite H. exact IH.
    - simpl. rewrite IH. reflexivity.
  Qed.

  Lemma lookup_insert_same t a l : lookup t (insert t a l) = Some a.
  Proof. unfold insert; simpl. rewrite target_eqb_refl. reflexivity. Qed.

  Lemma lookup_insert_other t u a l : target_eqb t u = false -> lookup t (insert u a l) = lookup t l.
  Proof. intros H. unfold insert; simpl. rewrite H. apply lookup_remove_other. exact H. Qed.
End Maps.

(* ---------------------------------------------------------------- abstraction and invariant *)
Definition anchor_of (s : st) (t : target) (g : N) : option N :=
  match lookup t (ents s) with
  | Some (lg, lt) => if lg =? g then Some lt else None
  | None => None
  end.

Definition tstate_of (s : st) (t : target) : tstate :=
  match lookup t (reg s) with
  | None => tinit
  | Some (g, vs) => {| present := true; vals := vs; anchor := anchor_of s t g |}
  end.

Definition inv (s : st) : Prop :=
  forall t, match lookup t (reg s) with
            | None => lookup t (ents s) = None
            | Some (g, vs) => g = N.of_nat (length vs) /\
                              forall lg lt, lookup t (ents s) = Some (lg, lt) -> lg <= g
            end.

Lemma inv_init : inv init.
Proof. intros t; reflexivity. Qed.

Definition op_now (o : op) (n : N) : N := match o with Advance d => n + d | _ => n end.

(* what one operation does to the per-target view of an arbitrary target t *)
Definition tview_step (c : cfg) (o : op) (tnow : N) (t : target) (ts : tstate) : tstate :=
  match o with
  | Advance _ => ts
  | Update k key v => if target_eqb t (k, key) then fst (tstep c (fst t) tnow ts (Some v)) else ts
  | Observe k key => if target_eqb t (k, key) then fst (tstep c (fst t) tnow ts None) else ts
  | Register k key => if target_eqb t (k, key) then treg ts else ts
  | Complete k key v => if target_eqb t (k, key) then tcomp ts v else ts
  end.

Definition op_out (c : cfg) (o : op) (tnow : N) (s : st) : out :=
  match o with
  | Advance _ => OUnit
  | Update _ _ _ => OUnit
  | Observe k key => snd (tstep c k tnow (tstate_of s (k, key)) None)
  | Register _ _ => OUnit
  | Complete _ _ _ => OUnit
  end.

Lemma of_nat_S_length {A} (l : list A) x : N.of_nat (length (x :: l)) = N.of_nat (length l) + 1.
Proof. simpl length. lia. Qed.

Lemma step_update c s k key v :
  inv s ->
  let s' := fst (step c s (Update k key v)) in
  inv s' /\ now s' = now s /\ snd (step c s (Update k key v)) = OUnit /\
  forall t, tstate_of s' t = tview_step c (Update k key v) (now s) t (tstate_of s t).
Proof.
  intros Hinv. cbn [step]. set (t0 := (k, key)).
  pose proof (Hinv t0) as Ht0.
  destruct (lookup t0 (reg s)) as [[g vs]|] eqn:Hl; cbn [fst snd now reg ents].
  - destruct Ht0 as [Hg Hle]. repeat split.
    + intros t. cbn [reg ents]. destruct (target_eqb t t0) eqn:E.
      * destruct (target_eqb_spec t t0); [subst t|discriminate].
        rewrite lookup_insert_same. split; [rewrite of_nat_S_length; lia|].
        intros lg lt H. specialize (Hle _ _ H). lia.
      * rewrite lookup_insert_other by exact E. apply Hinv.
    + intros t. unfold tview_step. fold t0. unfold tstate_of at 1. cbn [reg ents].
      destruct (target_eqb t t0) eqn:E.
      * destruct (target_eqb_spec t t0); [subst t|discriminate].
        rewrite lookup_insert_same. unfold tstate_of. rewrite Hl. cbn.
        unfold anchor_of. cbn [ents].
        destruct (lookup t0 (ents s)) as [[lg lt]|] eqn:He; [|reflexivity].
        specialize (Hle _ _ eq_refl).
        destruct (N.eqb_spec lg (g + 1)); [lia|reflexivity].
      * rewrite lookup_insert_other by exact E. reflexivity.
  - repeat split.
    + intros t. cbn [reg ents]. destruct (target_eqb t t0) eqn:E.
      * destruct (target_eqb_spec t t0); [subst t|discriminate].
        rewrite lookup_insert_same. split; [reflexivity|].
        intros lg lt H. rewrite Ht0 in H. discriminate.
      * rewrite lookup_insert_other by exact E. apply Hinv.
    + intros t. unfold tview_step. fold t0. unfold tstate_of at 1. cbn [reg ents].
      destruct (target_eqb t t0) eqn:E.
      * destruct (target_eqb_spec t t0); [subst t|discriminate].
        rewrite lookup_insert_same. unfold tstate_of. rewrite Hl. cbn.
        unfold anchor_of. cbn [ents]. rewrite Ht0. reflexivity.
      * rewrite lookup_insert_other by exact E. reflexivity.
Qed.

Lemma step_register c s k key :
  inv s ->
  let s' := fst (step c s (Register k key)) in
  inv s' /\ now s' = now s /\ snd (step c s (Register k key)) = OUnit /\
  forall t, tstate_of s' t = tview_step c (Register k key) (now s) t (tstate_of s t).
Proof.
  intros Hinv. cbn [step]. set (t0 := (k, key)).
  pose proof (Hinv t0) as Ht0.
  destruct (lookup t0 (reg s)) as [[g vs]|] eqn:Hl; cbn [fst snd now reg ents].
  - repeat split; auto. intros t. unfold tview_step. fold t0.
    destruct (target_eqb t t0) eqn:E; [|reflexivity].
    destruct (target_eqb_spec t t0); [subst t|discriminate].
    unfold tstate_of. rewrite Hl. reflexivity.
  - repeat split.
    + intros t. cbn [reg ents]. destruct (target_eqb t t0) eqn:E.
      * destruct (target_eqb_spec t t0); [subst t|discriminate].
        rewrite lookup_insert_same. split; [reflexivity|].
        intros lg lt H. rewrite Ht0 in H. discriminate.
      * rewrite lookup_insert_other by exact E. apply Hinv.
    + intros t. unfold tview_step. fold t0. unfold tstate_of at 1. cbn [reg ents].
      destruct (target_eqb t t0) eqn:E.
      * destruct (target_eqb_spec t t0); [subst t|discriminate].
        rewrite lookup_insert_same. unfold tstate_of. rewrite Hl. cbn.
        unfold anchor_of. cbn [ents]. rewrite Ht0. reflexivity.
      * rewrite lookup_insert_other by exact E. reflexivity.
Qed.

Lemma step_complete c s k key v :
  inv s ->
  let s' := fst (step c s (Complete k key v)) in
  inv s' /\ now s' = now s /\ snd (step c s (Complete k key v)) = OUnit /\
  forall t, tstate_of s' t = tview_step c (Complete k key v) (now s) t (tstate_of s t).
Proof.
  intros Hinv. cbn [step]. set (t0 := (k, key)).
  pose proof (Hinv t0) as Ht0.
  destruct (lookup t0 (reg s)) as [[g vs]|] eqn:Hl; cbn [fst snd now reg ents].
  - destruct Ht0 as [Hg Hle]. repeat split.
    + intros t. cbn [reg ents]. destruct (target_eqb t t0) eqn:E.
      * destruct (target_eqb_spec t t0); [subst t|discriminate].
        rewrite lookup_insert_same. split; [rewrite of_nat_S_length; lia|].
        intros lg lt H. specialize (Hle _ _ H). lia.
      * rewrite lookup_insert_other by exact E. apply Hinv.
    + intros t. unfold tview_step. fold t0. unfold tstate_of at 1. cbn [reg ents].
      destruct (target_eqb t t0) eqn:E.
      * destruct (target_eqb_spec t t0); [subst t|discriminate].
        rewrite lookup_insert_same. unfold tstate_of. rewrite Hl. cbn.
        unfold anchor_of. cbn [ents].
        destruct (lookup t0 (ents s)) as [[lg lt]|] eqn:He; [|reflexivity].
        specialize (Hle _ _ eq_refl).
        destruct (N.eqb_spec lg (g + 1)); [lia|reflexivity].
      * rewrite lookup_insert_other by exact E. reflexivity.
  - repeat split; auto. intros t. unfold tview_step. fold t0.
    destruct (target_eqb t t0) eqn:E; [|reflexivity].
    destruct (target_eqb_spec t t0); [subst t|discriminate].
    unfold tstate_of. rewrite Hl. reflexivity.
Qed.

Lemma step_advance c s d :
  inv s ->
  let s' := fst (step c s (Advance d)) in
  inv s' /\ now s' = now s + d /\ snd (step c s (Advance d)) = OUnit /\
  forall t, tstate_of s' t = tstate_of s t.
Proof. intros H. cbn. repeat split; auto. Qed.

Lemma covered_some c k T : timeout c = Some T -> mask_matches c k = true -> covered c k = Some T.
Proof. intros H1 H2. unfold covered. rewrite H1, H2. reflexivity. Qed.

Lemma step_observe_core c s k key :
  by_kind c = true -> inv s ->
  let t0 := (k, key) in
  let s' := fst (step c s (Observe k key)) in
  let r := tstep c k (now s) (tstate_of s t0) None in
  inv s' /\ now s' = now s /\ snd (step c s (Observe k key)) = snd r /\
  tstate_of s' t0 = fst r /\
  forall t, target_eqb t t0 = false -> tstate_of s' t = tstate_of s t.
Proof.
  intros Hbk Hinv t0. cbn [step]. fold t0.
  assert (Hek : ekey c t0 = t0) by (unfold ekey; rewrite Hbk; reflexivity).
  rewrite Hek.
  pose proof (Hinv t0) as Ht0.
  assert (Hother : forall s', (forall u, target_eqb u t0 = false -> lookup u (reg s') = lookup u (reg s)) ->
                       (forall u, target_eqb u t0 = false -> lookup u (ents s') = lookup u (ents s)) ->
                       forall t, target_eqb t t0 = false -> tstate_of s' t = tstate_of s t).
  { intros s' Hr He t E. unfold tstate_of, anchor_of. rewrite Hr, He by exact E. reflexivity. }
  destruct (lookup t0 (reg s)) as [[g vs]|] eqn:Hl.
  2:{ (* absent *)
      cbn [fst snd]. unfold tstate_of. rewrite Hl. cbn. repeat split; auto. }
  destruct Ht0 as [Hg Hle].
  assert (Hts : tstate_of s t0 = {| present := true; vals := vs; anchor := anchor_of s t0 g |})
    by (unfold tstate_of; rewrite Hl; reflexivity).
  rewrite Hts. unfold tstep. cbn [present negb vals anchor fst]. rewrite <- Hg.
  destruct (timeout c) as [T|] eqn:HT.
  2:{ unfold covered. rewrite HT. cbn [fst snd]. repeat split; auto. }
  destruct (mask_matches c k) eqn:HM; cbn [negb].
  2:{ unfold covered. rewrite HT, HM. cbn [fst snd]. repeat split; auto. }
  rewrite (covered_some c k T HT HM).
  unfold anchor_of at 1 2 3.
  destruct (lookup t0 (ents s)) as [[lg lt]|] eqn:He.
  - destruct (N.eqb_spec lg g) as [->|Hne].
    + destruct (T <? now s - lt) eqn:Hlt; cbn [fst snd].
      * (* delete *)
        repeat split.
        -- intros t. cbn [reg ents]. destruct (target_eqb t t0) eqn:E.
           ++ destruct (target_eqb_spec t t0); [subst t|discriminate].
              rewrite !lookup_remove_same. reflexivity.
           ++ rewrite !lookup_remove_other by exact E. apply Hinv.
        -- unfold tstate_of. cbn [reg]. rewrite lookup_remove_same. reflexivity.
        -- apply Hother; intros u Eu; cbn [reg ents]; apply lookup_remove_other; exact Eu.
      * repeat split; auto; try (rewrite Hts; unfold anchor_of; rewrite He, N.eqb_refl; reflexivity).
    + (* generation changed: re-anchor *)
      cbn [fst snd]. repeat split.
      * intros t. cbn [reg ents]. destruct (target_eqb t t0) eqn:E.
        -- destruct (target_eqb_spec t t0); [subst t|discriminate].
           rewrite Hl. split; [exact Hg|]. rewrite lookup_insert_same. intros lg' lt' H; inversion H; lia.
        -- rewrite lookup_insert_other by exact E. apply Hinv.
      * unfold tstate_of, anchor_of. cbn [reg ents]. rewrite Hl, lookup_insert_same, N.eqb_refl. reflexivity.
      * apply Hother; intros u Eu; cbn [reg ents]; [reflexivity|apply lookup_insert_other; exact Eu].
  - cbn [fst snd]. repeat split.
    * intros t. cbn [reg ents]. destruct (target_eqb t t0) eqn:E.
      -- destruct (target_eqb_spec t t0); [subst t|discriminate].
         rewrite Hl. split; [exact Hg|]. rewrite lookup_insert_same. intros lg' lt' H; inversion H; lia.
      -- rewrite lookup_insert_other by exact E. apply Hinv.
    * unfold tstate_of, anchor_of. cbn [reg ents]. rewrite Hl, lookup_insert_same, N.eqb_refl. reflexivity.
    * apply Hother; intros u Eu; cbn [reg ents]; [reflexivity|apply lookup_insert_other; exact Eu].
Qed.

Lemma step_observe c s k key :
  by_kind c = true -> inv s ->
  let s' := fst (step c s (Observe k key)) in
  inv s' /\ now s' = now s /\
  snd (step c s (Observe k key)) = snd (tstep c k (now s) (tstate_of s (k, key)) None) /\
  forall t, tstate_of s' t = tview_step c (Observe k key) (now s) t (tstate_of s t).
Proof.
  intros Hbk Hinv. destruct (step_observe_core c s k key Hbk Hinv) as (H1 & H2 & H3 & H4 & H5).
  repeat split; auto. intros t. unfold tview_step.
  destruct (target_eqb t (k, key)) eqn:E.
  - destruct (target_eqb_spec t (k, key)); [subst t|discriminate]. exact H4.
  - apply H5. exact E.
Qed.

(* ------------------------------------------------------------------ lifting to whole histories *)
(* time and per-target state after a history *)
Fixpoint tfinal (c : cfg) (t : target) (tnow : N) (s : tstate) (h : list op) : N * tstate :=
  match h with
  | [] => (tnow, s)
  | o :: r => tfinal c t (op_now o tnow) (tview_step c o tnow t s) r
  end.

Lemma trun_cons c t tnow s o r :
  trun c t tnow s (o :: r) =
  (match o with
   | Observe k key => if target_eqb t (k, key) then [snd (tstep c (fst t) tnow s None)] else []
   | _ => []
   end) ++ trun c t (op_now o tnow) (tview_step c o tnow t s) r.
Proof.
  destruct o as [k key v|d|k key|k key|k key v]; cbn [trun op_now tview_step].
  - destruct (target_eqb t (k, key)); [destruct (tstep c (fst t) tnow s (Some v))|]; reflexivity.
  - reflexivity.
  - destruct (target_eqb t (k, key)); [destruct (tstep c (fst t) tnow s None)|]; reflexivity.
  - destruct (target_eqb t (k, key)); reflexivity.
  - destruct (target_eqb t (k, key)); reflexivity.
Qed.

Lemma trun_app c t h1 : forall tnow s h2,
  trun c t tnow s (h1 ++ h2) =
  trun c t tnow s h1 ++ trun c t (fst (tfinal c t tnow s h1)) (snd (tfinal c t tnow s h1)) h2.
Proof.
  induction h1 as [|o r IH]; intros tnow s h2; [reflexivity|].
  rewrite <- app_comm_cons, !trun_cons, IH, app_assoc. reflexivity.
Qed.

Lemma tfinal_app c t h1 : forall tnow s h2,
  tfinal c t tnow s (h1 ++ h2) = tfinal c t (fst (tfinal c t tnow s h1)) (snd (tfinal c t tnow s h1)) h2.
Proof. induction h1 as [|o r IH]; intros; [reflexivity|]. cbn [app tfinal]. apply IH. Qed.

Lemma run_app c h1 : forall s h2,
  run c s (h1 ++ h2) =
  let '(s1, x1) := run c s h1 in let '(s2, x2) := run c s1 h2 in (s2, x1 ++ x2).
Proof.
  induction h1 as [|o r IH]; intros s h2; cbn [app run].
  - destruct (run c s h2); reflexivity.
  - destruct (step c s o) as [s1 x]. rewrite IH. destruct (run c s1 r) as [s2 xs].
    destruct (run c s2 h2). reflexivity.
Qed.

(* the relation between a reachable implementation state and the per-target machines *)
Definition R (c : cfg) (pre : list op) (s : st) : Prop :=
  inv s /\ forall t, tfinal c t 0 tinit pre = (now s, tstate_of s t).

Lemma R_init c : R c [] init.
Proof. split; [apply inv_init|]. intros t. reflexivity. Qed.

Lemma step_all c s o :
  by_kind c = true -> inv s ->
  let s' := fst (step c s o) in
  inv s' /\ now s' = op_now o (now s) /\ snd (step c s o) = op_out c o (now s) s /\
  forall t, tstate_of s' t = tview_step c o (now s) t (tstate_of s t).
Proof.
  intros Hbk Hinv. destruct o as [k key v|d|k key|k key|k key v].
  - apply step_update. exact Hinv.
  - destruct (step_advance c s d Hinv) as (H1 & H2 & H3 & H4). repeat split; auto.
  - apply step_observe; assumption.
  - apply step_register. exact Hinv.
  - apply step_complete. exact Hinv.
Qed.

Lemma R_step c pre s o : by_kind c = true -> R c pre s -> R c (pre ++ [o]) (fst (step c s o)).
Proof.
  intros Hbk [Hinv Hf]. destruct (step_all c s o Hbk Hinv) as (H1 & H2 & _ & H4).
  split; [exact H1|]. intros t. rewrite tfinal_app, Hf. cbn [fst snd tfinal]. rewrite H2, H4. reflexivity.
Qed.

Lemma last_app_singleton {A} (l : list A) x d : last (l ++ [x]) d = x.
Proof. induction l as [|y l IH]; [reflexivity|]. cbn [app]. destruct (l ++ [x]) eqn:E; [destruct l; discriminate|]. exact IH. Qed.

Lemma run_spec c : by_kind c = true ->
  forall h pre s, R c pre s -> snd (run c s h) = spec_outs_from c pre h.
Proof.
  intros Hbk. induction h as [|o r IH]; intros pre s HR; [reflexivity|].
  cbn [run spec_outs_from].
  pose proof (R_step c pre s o Hbk HR) as HR'.
  destruct HR as [Hinv Hf].
  destruct (step_all c s o Hbk Hinv) as (_ & _ & Hout & _).
  destruct (step c s o) as [s1 x] eqn:Hs. cbn [fst snd] in *.
  specialize (IH (pre ++ [o]) s1 HR').
  destruct (run c s1 r) as [s2 xs]. cbn [snd] in *. f_equal; [|exact IH].
  rewrite Hout. destruct o as [k key v|d|k key|k key|k key v]; try reflexivity.
  cbn [op_out]. rewrite trun_app, Hf. cbn [fst snd trun]. rewrite target_eqb_refl.
  destruct (tstep c (fst (k, key)) (now s) (tstate_of s (k, key)) None) as [ts' x'] eqn:Ht.
  cbn [fst] in Ht. rewrite Ht. cbn [snd]. rewrite last_app_singleton. reflexivity.
Qed.

Theorem model_meets_spec c h : by_kind c = true -> snd (run c init h) = spec_outs c h.
Proof. intros Hbk. apply run_spec; [exact Hbk|apply R_init]. Qed.
