(* C12 — property theorems (statements only; proofs are in Proofs.v / History.v / ExecProofs.v).

   Reading guide.  [run c init h] is the model of the code (Recency + generational registry);
   [spec_outs c h] / [trun c t ..] is the per-metric specification machine of Spec.v.
   Theorem 1 ties the two for every history and configuration; theorems 3-8 state the clauses of
   the property over histories, in terms of the specification machine.                          *)
From Coq Require Import List NArith Bool.
Import ListNotations.
Require Import MV.C12.Model MV.C12.Spec MV.C12.Exec MV.C12.Proofs MV.C12.History MV.C12.ExecProofs.
Require MV.C12.ExecProm.
Open Scope N_scope.

Theorem C12_model_meets_spec : forall c h, by_kind c = true -> snd (run c init h) = spec_outs c h.
Proof. exact model_meets_spec. Qed.

Theorem C12_spec_ok_on_model : forall c, by_kind (fst c) = true -> spec_ok c (run_case c) = true.
Proof. exact spec_ok_on_model. Qed.

Theorem C12_spec_ok_iff : forall c o, spec_ok c o = true <-> o = spec_outs (fst c) (snd c).
Proof. exact spec_ok_iff. Qed.

Theorem C12_updated_since_last_observation_kept : forall c t pre v mid,
  quiet t mid = true ->
  exists vs, last (trun c t 0 tinit ((pre ++ [upd t v]) ++ mid ++ [obs t])) OUnit
             = OKept (N.of_nat (length (v :: vs))) (view (fst t) (v :: vs)).
Proof. exact updated_since_last_observation_kept. Qed.

Theorem C12_idle_at_most_timeout_kept : forall c t T pre v m1 m2,
  covered c (fst t) = Some T ->
  quiet t m1 = true -> no_update t m2 = true -> elapsed m2 <= T ->
  exists vs, last (trun c t 0 tinit ((pre ++ [upd t v]) ++ m1 ++ [obs t] ++ m2 ++ [obs t])) OUnit
             = OKept (N.of_nat (length (v :: vs))) (view (fst t) (v :: vs)).
Proof. exact idle_at_most_timeout_kept. Qed.

Theorem C12_idle_longer_than_timeout_deleted : forall c t T pre v m1 m2,
  covered c (fst t) = Some T ->
  quiet t m1 = true -> quiet t m2 = true -> T < elapsed m2 ->
  last (trun c t 0 tinit ((pre ++ [upd t v]) ++ m1 ++ [obs t] ++ m2 ++ [obs t])) OUnit = ODeleted.
Proof. exact idle_longer_than_timeout_deleted. Qed.

Theorem C12_masked_or_disabled_never_dropped : forall c t h tnow s,
  covered c (fst t) = None -> ~ In ODeleted (trun c t tnow s h).
Proof. exact uncovered_never_deleted. Qed.

Theorem C12_fresh_after_reregistration : forall c t pre m v m',
  last (trun c t 0 tinit (pre ++ [obs t])) OUnit = ODeleted ->
  quiet t m = true -> quiet t m' = true ->
  last (trun c t 0 tinit ((((pre ++ [obs t]) ++ m) ++ [upd t v]) ++ m' ++ [obs t])) OUnit
  = OKept 1 (view (fst t) [v]).
Proof. exact fresh_after_reregistration. Qed.

Theorem C12_kinds_and_keys_independent : forall c t h tnow s,
  trun c t tnow s h = trun c t tnow s (only t h).
Proof. exact kinds_and_keys_independent. Qed.

Theorem C12_by_key_only_refuted :
  exists c h, by_kind c = false /\ snd (run c init h) <> spec_outs c h.
Proof. exact by_key_only_refuted. Qed.

(* an update in flight: an observation landing between obtaining the handle and the update being
   applied does not hide the update from the next observation (unless it deleted the metric) *)
Theorem C12_inflight_update_then_observed_kept : forall c t pre mid v mid2,
  present (snd (tfinal c t 0 tinit (pre ++ [Register (fst t) (snd t)] ++ mid))) = true ->
  quiet t mid2 = true ->
  exists vs, last (trun c t 0 tinit (((pre ++ [Register (fst t) (snd t)] ++ mid) ++ [Complete (fst t) (snd t) v]) ++ mid2 ++ [obs t])) OUnit
             = OKept (N.of_nat (length (v :: vs))) (view (fst t) (v :: vs)).
Proof. exact inflight_update_then_observed_kept. Qed.

(* the same model observed through the Prometheus exporter (whole renders; presence and value only) *)
Theorem C12_prom_spec_ok_on_model : forall c, by_kind (fst c) = true ->
  ExecProm.spec_ok c (ExecProm.run_case c) = true.
Proof. exact ExecProm.prom_spec_ok_on_model. Qed.
