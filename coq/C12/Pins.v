From Coq Require Import List NArith Bool.
Import ListNotations.
Require Import MV.C12.Model MV.C12.Spec MV.C12.Exec MV.C12.Proofs MV.C12.History MV.C12.ExecProofs.
Require MV.C12.ExecProm.
Open Scope N_scope.
Require Import MV.C12.Properties.

Check (C12_model_meets_spec : forall c h, by_kind c = true -> snd (run c init h) = spec_outs c h).
Print Assumptions C12_model_meets_spec.
Check (C12_spec_ok_on_model : forall c, by_kind (fst c) = true -> spec_ok c (run_case c) = true).
Print Assumptions C12_spec_ok_on_model.
Check (C12_spec_ok_iff : forall c o, spec_ok c o = true <-> o = spec_outs (fst c) (snd c)).
Print Assumptions C12_spec_ok_iff.
Check (C12_updated_since_last_observation_kept : forall c t pre v mid,
  quiet t mid = true ->
  exists vs, last (trun c t 0 tinit ((pre ++ [upd t v]) ++ mid ++ [obs t])) OUnit
             = OKept (N.of_nat (length (v :: vs))) (view (fst t) (v :: vs))).
Print Assumptions C12_updated_since_last_observation_kept.
Check (C12_idle_at_most_timeout_kept : forall c t T pre v m1 m2,
  covered c (fst t) = Some T ->
  quiet t m1 = true -> no_update t m2 = true -> elapsed m2 <= T ->
  exists vs, last (trun c t 0 tinit ((pre ++ [upd t v]) ++ m1 ++ [obs t] ++ m2 ++ [obs t])) OUnit
             = OKept (N.of_nat (length (v :: vs))) (view (fst t) (v :: vs))).
Print Assumptions C12_idle_at_most_timeout_kept.
Check (C12_idle_longer_than_timeout_deleted : forall c t T pre v m1 m2,
  covered c (fst t) = Some T ->
  quiet t m1 = true -> quiet t m2 = true -> T < elapsed m2 ->
  last (trun c t 0 tinit ((pre ++ [upd t v]) ++ m1 ++ [obs t] ++ m2 ++ [obs t])) OUnit = ODeleted).
Print Assumptions C12_idle_longer_than_timeout_deleted.
Check (C12_masked_or_disabled_never_dropped : forall c t h tnow s,
  covered c (fst t) = None -> ~ In ODeleted (trun c t tnow s h)).
Print Assumptions C12_masked_or_disabled_never_dropped.
Check (C12_fresh_after_reregistration : forall c t pre m v m',
  last (trun c t 0 tinit (pre ++ [obs t])) OUnit = ODeleted ->
  quiet t m = true -> quiet t m' = true ->
  last (trun c t 0 tinit ((((pre ++ [obs t]) ++ m) ++ [upd t v]) ++ m' ++ [obs t])) OUnit
  = OKept 1 (view (fst t) [v])).
Print Assumptions C12_fresh_after_reregistration.
Check (C12_kinds_and_keys_independent : forall c t h tnow s,
  trun c t tnow s h = trun c t tnow s (only t h)).
Print Assumptions C12_kinds_and_keys_independent.
Check (C12_by_key_only_refuted : exists c h, by_kind c = false /\ snd (run c init h) <> spec_outs c h).
Print Assumptions C12_by_key_only_refuted.
Check (C12_inflight_update_then_observed_kept : forall c t pre mid v mid2,
  present (snd (tfinal c t 0 tinit (pre ++ [Register (fst t) (snd t)] ++ mid))) = true ->
  quiet t mid2 = true ->
  exists vs, last (trun c t 0 tinit (((pre ++ [Register (fst t) (snd t)] ++ mid) ++ [Complete (fst t) (snd t) v]) ++ mid2 ++ [obs t])) OUnit
             = OKept (N.of_nat (length (v :: vs))) (view (fst t) (v :: vs))).
Print Assumptions C12_inflight_update_then_observed_kept.
Check (C12_prom_spec_ok_on_model : forall c, by_kind (fst c) = true ->
  ExecProm.spec_ok c (ExecProm.run_case c) = true).
Print Assumptions C12_prom_spec_ok_on_model.
