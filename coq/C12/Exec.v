(* C12 — executable entry points used by the correspondence check (cases.v). *)
From Coq Require Import List NArith Bool.
Import ListNotations.
Require Export MV.C12.Model MV.C12.Spec.
Open Scope N_scope.

Definition case := (cfg * list op)%type.
Definition run_case (c : case) : list out := snd (run (fst c) init (snd c)).

Definition out_eqb1 (a b : out) : bool :=
  match a, b with
  | OUnit, OUnit | OAbsent, OAbsent | ODeleted, ODeleted => true
  | OKept g v, OKept g' v' => (g =? g') && (if list_eq_dec N.eq_dec v v' then true else false)
  | _, _ => false
  end.
Fixpoint outs_eqb (a b : list out) : bool :=
  match a, b with
  | [], [] => true
  | x :: r, y :: r' => out_eqb1 x y && outs_eqb r r'
  | _, _ => false
  end.

(* the property in executable form, evaluated on an output list (the implementation's) *)
Definition spec_ok (c : case) (o : list out) : bool := outs_eqb (spec_outs (fst c) (snd c)) o.
Definition known_class (c : case) : option N := None.

Definition verdicts (l : list (N * case * list out)) : list (N * bool * bool * option N) :=
  map (fun '(i, c, o) => (i, outs_eqb (run_case c) o, spec_ok c o, known_class c)) l.
