(* C12 — idle-timeout ("recency") logic of metrics-util/src/registry/recency.rs on top of a
   registry abstraction (one association map per kind, C06) with generational storage.

   Modelled: Generational::with_increment (apply the update, then bump the generation),
   Recency::should_store (the nested if of recency.rs:302-347, including `&& delete_op(..)` and
   `entries.remove`), Registry::{get_or_create_*, delete_*, get_*} as an association list.
   The recency entry map is keyed by (kind, key) when [by_kind] is true (the code after the fix
   commit) and by key alone when false (the code as found; kept for the refutation lemma).       *)
From Coq Require Import List NArith Bool.
Import ListNotations.
Open Scope N_scope.

Inductive kind := Counter | Gauge | Histogram.
Definition kind_eqb (a b : kind) : bool :=
  match a, b with Counter, Counter | Gauge, Gauge | Histogram, Histogram => true | _, _ => false end.

Definition target := (kind * N)%type.                 (* metric kind, key id *)
Definition target_eqb (a b : target) : bool := kind_eqb (fst a) (fst b) && (snd a =? snd b).

Inductive op :=
| Update (k : kind) (key : N) (v : N)    (* get_or_create + one update through the handle *)
| Advance (d : N)                        (* the clock moves d ticks *)
| Observe (k : kind) (key : N)           (* what an exporter does per handle: generation, should_store, read *)
(* an update IN FLIGHT through a handle: [Register] is the get_or_create that yields the handle
   (creates generation 0 / no value if absent), [Complete] is the moment the update through that
   handle is applied and the generation bumped (Generational::with_increment: f(&inner) then
   gen.fetch_add) -- lost if the entry was deleted in between, because the handle then points at a
   detached storage.  Histories used for correspondence put only Observe/Advance between the two. *)
| Register (k : kind) (key : N)
| Complete (k : kind) (key : N) (v : N).

Inductive out :=
| OUnit
| OAbsent                                 (* not registered under that kind *)
| OKept (gen : N) (view : list N)         (* should_store = true; generation and value read *)
| ODeleted.                               (* should_store = false: removed from registry and entry map *)

Record cfg := { mask_c : bool; mask_g : bool; mask_h : bool; timeout : option N; by_kind : bool }.

Definition mask_matches (c : cfg) (k : kind) : bool :=
  match k with Counter => mask_c c | Gauge => mask_g c | Histogram => mask_h c end.

(* registry value: generation and the update arguments since creation, newest first *)
Definition rval := (N * list N)%type.
Record st := { now : N; reg : list (target * rval); ents : list (target * (N * N)) }.
Definition init : st := {| now := 0; reg := []; ents := [] |}.

Fixpoint lookup {A} (t : target) (l : list (target * A)) : option A :=
  match l with
  | [] => None
  | (t', a) :: r => if target_eqb t t' then Some a else lookup t r
  end.
Fixpoint remove {A} (t : target) (l : list (target * A)) : list (target * A) :=
  match l with
  | [] => []
  | (t', a) :: r => if target_eqb t t' then remove t r else (t', a) :: remove t r
  end.
Definition insert {A} (t : target) (a : A) (l : list (target * A)) : list (target * A) :=
  (t, a) :: remove t l.

Definition two64 : N := 18446744073709551616.
Fixpoint sum (l : list N) : N := match l with [] => 0 | x :: r => x + sum r end.
(* what a reader sees: counter = sum of increments mod 2^64; gauge = last value set;
   histogram = number of samples and their sum *)
Definition view (k : kind) (vals : list N) : list N :=
  match k with
  | Counter => [sum vals mod two64]
  | Gauge => [hd 0 vals]
  | Histogram => [N.of_nat (length vals); sum vals]
  end.

(* the key of the recency entry map *)
Definition ekey (c : cfg) (t : target) : target := if by_kind c then t else (Counter, snd t).

Definition step (c : cfg) (s : st) (o : op) : st * out :=
  match o with
  | Update k key v =>
      let t := (k, key) in
      let '(g, vals) := match lookup t (reg s) with Some x => x | None => (0, []) end in
      ({| now := now s; reg := insert t (g + 1, v :: vals) (reg s); ents := ents s |}, OUnit)
  | Advance d => ({| now := now s + d; reg := reg s; ents := ents s |}, OUnit)
  | Register k key =>
      let t := (k, key) in
      match lookup t (reg s) with
      | Some _ => (s, OUnit)
      | None => ({| now := now s; reg := insert t (0, []) (reg s); ents := ents s |}, OUnit)
      end
  | Complete k key v =>
      let t := (k, key) in
      match lookup t (reg s) with
      | Some (g, vals) => ({| now := now s; reg := insert t (g + 1, v :: vals) (reg s); ents := ents s |}, OUnit)
      | None => (s, OUnit)
      end
  | Observe k key =>
      let t := (k, key) in
      match lookup t (reg s) with
      | None => (s, OAbsent)
      | Some (g, vals) =>
          let keep := (s, OKept g (view k vals)) in
          match timeout c with
          | None => keep
          | Some T =>
              if negb (mask_matches c k) then keep else
              match lookup (ekey c t) (ents s) with
              | Some (lg, lt) =>
                  if lg =? g then
                    if T <? (now s - lt)           (* (now - last_update) > idle_timeout; && delete_op: present *)
                    then ({| now := now s; reg := remove t (reg s); ents := remove (ekey c t) (ents s) |}, ODeleted)
                    else keep
                  else ({| now := now s; reg := reg s; ents := insert (ekey c t) (g, now s) (ents s) |},
                        OKept g (view k vals))
              | None => ({| now := now s; reg := reg s; ents := insert (ekey c t) (g, now s) (ents s) |},
                         OKept g (view k vals))
              end
          end
      end
  end.

Fixpoint run (c : cfg) (s : st) (h : list op) : st * list out :=
  match h with
  | [] => (s, [])
  | o :: r => let '(s1, x) := step c s o in let '(s2, xs) := run c s1 r in (s2, x :: xs)
  end.
