(* C19 — executable entry points used by the correspondence check (cases.v). *)
From Coq Require Import List NArith ZArith Bool Permutation.
Import ListNotations.
Require Export MV.C19.Model MV.C19.Spec.
Open Scope N_scope.

Definition case := list (bool * op).
Definition OUT := list (bool * list entry).
Definition run_case (c : case) : OUT := run2 rinit rinit c.

(* equality of observations: histogram values as a bag (the order in which clear_with hands the
   blocks over is not part of the property); how the key object was built is not observable *)
Fixpoint remove1 (z : Z) (l : list Z) : option (list Z) :=
  match l with
  | [] => None
  | y :: r => if Z.eqb z y then Some r else option_map (cons y) (remove1 z r)
  end.
Fixpoint bag_eqb (a b : list Z) : bool :=
  match a with
  | [] => match b with [] => true | _ => false end
  | x :: r => match remove1 x b with Some b' => bag_eqb r b' | None => false end
  end.
Definition value_eqb (a b : value) : bool :=
  match a, b with
  | VC x, VC y => x =? y
  | VG x, VG y => Z.eqb x y
  | VH x, VH y => bag_eqb x y
  | _, _ => false
  end.
Definition optN_eqb (a b : option N) : bool :=
  match a, b with Some x, Some y => x =? y | None, None => true | _, _ => false end.
Definition optstr_eqb (a b : option str) : bool :=
  match a, b with Some x, Some y => str_eqb x y | None, None => true | _, _ => false end.
Definition entry_eqb (a b : entry) : bool :=
  kind_eqb (e_kind a) (e_kind b)
  && str_eqb (kname (e_key a)) (kname (e_key b))
  && labels_eqb (klabels (e_key a)) (klabels (e_key b))        (* same labels in the same order *)
  && optN_eqb (e_unit a) (e_unit b) && optstr_eqb (e_desc a) (e_desc b)
  && value_eqb (e_val a) (e_val b).
Fixpoint entries_eqb (a b : list entry) : bool :=
  match a, b with
  | [], [] => true
  | x :: r, y :: r' => entry_eqb x y && entries_eqb r r'
  | _, _ => false
  end.
Fixpoint out_eqb (a b : OUT) : bool :=
  match a, b with
  | [], [] => true
  | (x, es) :: r, (y, es') :: r' => Bool.eqb x y && entries_eqb es es' && out_eqb r r'
  | _, _ => false
  end.

(* observational equality at the Prop level: everything equal, histogram values up to order, the
   key's construction style not compared *)
Definition value_equiv (a b : value) : Prop :=
  match a, b with
  | VC x, VC y => x = y
  | VG x, VG y => x = y
  | VH x, VH y => Permutation x y
  | _, _ => False
  end.
Definition entry_equiv (a b : entry) : Prop :=
  e_kind a = e_kind b /\ kname (e_key a) = kname (e_key b) /\ klabels (e_key a) = klabels (e_key b)
  /\ e_unit a = e_unit b /\ e_desc a = e_desc b /\ value_equiv (e_val a) (e_val b).
Definition snap_equiv (a b : bool * list entry) : Prop := fst a = fst b /\ Forall2 entry_equiv (snd a) (snd b).
Definition out_equiv (a b : OUT) : Prop := Forall2 snap_equiv a b.

(* the property in executable form, evaluated on an observed output *)
Definition spec_ok (c : case) (o : OUT) : bool := out_eqb (spec2 c) o.
Definition known_class (c : case) : option N := None.

Definition verdicts (l : list (N * case * OUT)) : list (N * bool * bool * option N) :=
  map (fun '(i, c, o) => (i, out_eqb (run_case c) o, spec_ok c o, known_class c)) l.
