(* C19 — key / target equality are equivalences (kernels of [canon] / [tcls]); association lists. *)
From Coq Require Import List NArith ZArith Bool Lia.
Import ListNotations.
Require Import MV.C19.Model.
Open Scope N_scope.

Lemma str_eqb_eq a : forall b, str_eqb a b = true <-> a = b.
Proof.
  induction a as [|x a IH]; intros [|y b]; simpl; split; intros H; try discriminate; auto.
  - apply andb_prop in H as [H1 H2]. apply N.eqb_eq in H1. apply IH in H2. congruence.
  - inversion H; subst. rewrite N.eqb_refl. simpl. apply IH. reflexivity.
Qed.

Lemma label_eqb_eq a b : label_eqb a b = true <-> a = b.
Proof.
  destruct a as [a1 a2], b as [b1 b2]. unfold label_eqb. simpl. rewrite andb_true_iff, !str_eqb_eq.
  split; [intros [-> ->]; reflexivity | intros H; inversion H; auto].
Qed.

Lemma labels_eqb_eq a : forall b, labels_eqb a b = true <-> a = b.
Proof.
  induction a as [|x a IH]; intros [|y b]; simpl; split; intros H; try discriminate; auto.
  - apply andb_prop in H as [H1 H2]. apply label_eqb_eq in H1. apply IH in H2. congruence.
  - inversion H; subst. apply andb_true_intro. split; [apply label_eqb_eq | apply IH]; reflexivity.
Qed.

Lemma key_eqb_canon a b : key_eqb a b = true <-> canon a = canon b.
Proof.
  unfold key_eqb, canon. rewrite andb_true_iff, str_eqb_eq, labels_eqb_eq.
  split; [intros [-> ->]; reflexivity | intros H; inversion H; auto].
Qed.

Lemma kind_eqb_eq a b : kind_eqb a b = true <-> a = b.
Proof. destruct a, b; simpl; split; intros H; try discriminate; auto. Qed.

Definition tcls (t : target) : kind * (str * list label) := (fst t, canon (snd t)).

Lemma teqb_tcls a b : teqb a b = true <-> tcls a = tcls b.
Proof.
  destruct a as [a1 a2], b as [b1 b2].
  unfold teqb, tcls. simpl. rewrite andb_true_iff, kind_eqb_eq, key_eqb_canon.
  split; [intros [-> ->]; reflexivity | intros H; split; congruence].
Qed.

Lemma kn_eqb_eq a b : kn_eqb a b = true <-> a = b.
Proof.
  destruct a as [a1 a2], b as [b1 b2]. unfold kn_eqb. simpl. rewrite andb_true_iff, kind_eqb_eq, str_eqb_eq.
  split; [intros [-> ->]; reflexivity | intros H; inversion H; auto].
Qed.

Lemma key_eqb_refl a : key_eqb a a = true.
Proof. apply key_eqb_canon. reflexivity. Qed.
Lemma key_eqb_sym a b : key_eqb a b = key_eqb b a.
Proof.
  destruct (key_eqb a b) eqn:E, (key_eqb b a) eqn:F; auto.
  - apply key_eqb_canon in E. symmetry in E. apply key_eqb_canon in E. congruence.
  - apply key_eqb_canon in F. symmetry in F. apply key_eqb_canon in F. congruence.
Qed.
Lemma key_eqb_trans a b c : key_eqb a b = true -> key_eqb b c = true -> key_eqb a c = true.
Proof. rewrite !key_eqb_canon. congruence. Qed.
(* equal keys have the same name (what the metadata lookup uses) *)
Lemma key_eqb_name a b : key_eqb a b = true -> kname a = kname b.
Proof. intros H. apply key_eqb_canon in H. unfold canon in H. congruence. Qed.
(* how a key was built, and the order of its labels when no two compare equal under sorting, do
   not matter; the first is immediate: *)
Lemma key_eqb_style n ls s1 s2 :
  key_eqb {| kname := n; klabels := ls; kstyle := s1 |} {| kname := n; klabels := ls; kstyle := s2 |} = true.
Proof. apply key_eqb_canon. reflexivity. Qed.

Lemma teqb_refl a : teqb a a = true.
Proof. apply teqb_tcls. reflexivity. Qed.
Lemma teqb_sym a b : teqb a b = teqb b a.
Proof.
  destruct (teqb a b) eqn:E, (teqb b a) eqn:F; auto.
  - apply teqb_tcls in E. symmetry in E. apply teqb_tcls in E. congruence.
  - apply teqb_tcls in F. symmetry in F. apply teqb_tcls in F. congruence.
Qed.
Lemma teqb_trans a b c : teqb a b = true -> teqb b c = true -> teqb a c = true.
Proof. rewrite !teqb_tcls. congruence. Qed.
(* rewriting under an equal target *)
Lemma teqb_congr_l a b c : teqb a b = true -> teqb a c = teqb b c.
Proof.
  intros H. destruct (teqb a c) eqn:E, (teqb b c) eqn:F; auto.
  - rewrite teqb_sym in H. rewrite (teqb_trans _ _ _ H E) in F. discriminate.
  - rewrite (teqb_trans _ _ _ H F) in E. discriminate.
Qed.
Lemma teqb_congr_r a b c : teqb a b = true -> teqb c a = teqb c b.
Proof. intros H. rewrite (teqb_sym c a), (teqb_sym c b). apply teqb_congr_l. exact H. Qed.
Lemma teqb_kind a b : teqb a b = true -> fst a = fst b.
Proof. intros H. apply teqb_tcls in H. unfold tcls in H. congruence. Qed.
Lemma teqb_same_kind kd a b : teqb (kd, a) (kd, b) = key_eqb a b.
Proof. unfold teqb. simpl. destruct kd; reflexivity. Qed.
Lemma teqb_diff_kind k1 k2 a b : k1 <> k2 -> teqb (k1, a) (k2, b) = false.
Proof. intros H. unfold teqb. simpl. destruct k1, k2; simpl; auto; congruence. Qed.

(* ---- association lists keyed up to an equivalence that is the kernel of [cls] ---- *)
Section AssocLemmas.
  Context {K V C : Type} (eqb : K -> K -> bool) (cls : K -> C).
  Hypothesis Hcls : forall a b, eqb a b = true <-> cls a = cls b.

  Lemma eqb_false a b : eqb a b = false <-> cls a <> cls b.
  Proof.
    split.
    - intros H E. apply Hcls in E. congruence.
    - intros H. destruct (eqb a b) eqn:E; auto. apply Hcls in E. contradiction.
  Qed.

  Lemma eqb_cls_r a b c : cls b = cls c -> eqb a b = eqb a c.
  Proof.
    intros H. destruct (eqb a b) eqn:E, (eqb a c) eqn:F; auto.
    - apply Hcls in E. apply eqb_false in F. congruence.
    - apply Hcls in F. apply eqb_false in E. congruence.
  Qed.
  Lemma eqb_cls_l a b c : cls a = cls b -> eqb a c = eqb b c.
  Proof.
    intros H. destruct (eqb a c) eqn:E, (eqb b c) eqn:F; auto.
    - apply Hcls in E. apply eqb_false in F. congruence.
    - apply Hcls in F. apply eqb_false in E. congruence.
  Qed.

  Lemma lookup_cls (a b : K) (m : list (K * V)) : cls a = cls b -> lookup eqb a m = lookup eqb b m.
  Proof.
    intros H. induction m as [|[k v] m IH]; simpl; auto.
    rewrite (eqb_cls_l a b k H). rewrite IH. reflexivity.
  Qed.

  Lemma lookup_put (k' k : K) (v : V) (m : list (K * V)) :
    lookup eqb k' (put eqb k v m) = if eqb k' k then Some v else lookup eqb k' m.
  Proof.
    induction m as [|[k0 v0] m IH]; simpl.
    - reflexivity.
    - destruct (eqb k k0) eqn:E; simpl.
      + apply Hcls in E. rewrite (eqb_cls_r k' k k0 E). destruct (eqb k' k0); reflexivity.
      + rewrite IH. destruct (eqb k' k0) eqn:F; auto.
        destruct (eqb k' k) eqn:G; auto.
        apply Hcls in F. apply Hcls in G. apply eqb_false in E. congruence.
  Qed.

  Lemma lookup_get_or_create (k' k : K) (i : V) (m : list (K * V)) :
    lookup eqb k' (get_or_create eqb k i m)
    = if eqb k' k then (match lookup eqb k' m with Some v => Some v | None => Some i end) else lookup eqb k' m.
  Proof.
    unfold get_or_create. destruct (eqb k' k) eqn:E.
    - apply Hcls in E. rewrite <- (lookup_cls k' k m E).
      destruct (lookup eqb k' m) eqn:L; auto.
      rewrite lookup_put. assert (eqb k' k = true) as -> by (apply Hcls; exact E). reflexivity.
    - destruct (lookup eqb k m) eqn:L; auto. rewrite lookup_put, E. reflexivity.
  Qed.

  Lemma lookup_modify (k' k : K) (f : V -> V) (m : list (K * V)) :
    lookup eqb k' (modify eqb k f m)
    = if eqb k' k then option_map f (lookup eqb k' m) else lookup eqb k' m.
  Proof.
    unfold modify. destruct (eqb k' k) eqn:E.
    - apply Hcls in E. rewrite <- (lookup_cls k' k m E).
      destruct (lookup eqb k' m) eqn:L; simpl; auto.
      rewrite lookup_put. assert (eqb k' k = true) as -> by (apply Hcls; exact E). reflexivity.
    - destruct (lookup eqb k m) eqn:L; auto. rewrite lookup_put, E. reflexivity.
  Qed.
End AssocLemmas.

Definition lookup_key_put {V} := @lookup_put key V _ key_eqb canon key_eqb_canon.
Definition lookup_key_goc {V} := @lookup_get_or_create key V _ key_eqb canon key_eqb_canon.
Definition lookup_key_modify {V} := @lookup_modify key V _ key_eqb canon key_eqb_canon.
Definition lookup_key_cls {V} := @lookup_cls key V _ key_eqb canon key_eqb_canon.
Definition lookup_kn_put {V} := @lookup_put kname_t V _ kn_eqb (fun x => x) kn_eqb_eq.
