(* C19 — every atomic step of the interleaving model preserves the invariant; hence every schedule. *)
From Coq Require Import List NArith ZArith Bool Lia.
Import ListNotations.
Require Import MV.Common.Interleave.
Require Import MV.C19.Model MV.C19.Spec MV.C19.ProofsKey MV.C19.ProofsSpec MV.C19.ConcModel MV.C19.ConcLog MV.C19.ConcInv.
Open Scope N_scope.

Definition StepOk (s : cshared) (l : clocal) (s' : cshared) (l' : clocal) : Prop :=
  GInv s' /\ Ext s s' /\ TInv s' l'.

(* ---- 1: track *)
Lemma step_track s l t r :
  GInv s -> TInv s l ->
  StepOk s l {| sseen := track t (sseen s); sreg := sreg s; slog := slog s ++ [LTrack t] |}
             {| prog := r; pc := PReg t; hnd := hnd l; outs := outs l |}.
Proof.
  intros [A B C D E F] T.
  assert (X : Ext s {| sseen := track t (sseen s); sreg := sreg s; slog := slog s ++ [LTrack t] |}).
  { constructor; simpl; auto. apply track_prefix. exists [LTrack t]. reflexivity. }
  split; [|split; [exact X|]].
  - constructor; simpl.
    + rewrite tracked_snoc, keep_first_snoc. simpl. unfold track. rewrite A at 1. rewrite existsb_listed.
      rewrite <- A. destruct (existsb _ (tracked (slog s))); [rewrite app_nil_r|]; reflexivity.
    + intros t0 H. apply in_snoc_inv in H as [H|H]; [auto|discriminate].
    + intros t0 H. eapply existsb_prefix; [apply track_prefix|]. auto.
    + intros t0 st H. rewrite stor_of_snoc_other by exact I. auto.
    + intros t0 H. rewrite lupds_snoc, app_nil_r. auto.
    + apply wf_from_snoc. split; [exact F|exact I].
  - destruct (TInv_ext _ _ _ X T) as (T1 & T2 & _). split; [exact T1|]. split; [exact T2|].
    simpl. apply track_has.
Qed.

(* ---- 2: get_or_create *)
Lemma step_goc s l t :
  GInv s -> TInv s l -> pc l = PReg t ->
  StepOk s l {| sseen := sseen s; sreg := get_or_create teqb t (sinit (fst t)) (sreg s); slog := slog s ++ [LGoc t] |}
             {| prog := prog l; pc := PIdle; hnd := hnd l ++ [t]; outs := outs l |}.
Proof.
  intros [A B C D E F] T P.
  assert (Hseen : existsb (fun y => teqb t y) (sseen s) = true).
  { destruct T as (_ & _ & T3). rewrite P in T3. exact T3. }
  assert (Hmono : forall t0, lookup teqb t0 (sreg s) <> None ->
                             lookup teqb t0 (get_or_create teqb t (sinit (fst t)) (sreg s)) <> None).
  { intros t0 H. rewrite lookup_t_goc. destruct (teqb t0 t); auto.
    destruct (lookup teqb t0 (sreg s)); [discriminate|contradiction]. }
  assert (Hnew : lookup teqb t (get_or_create teqb t (sinit (fst t)) (sreg s)) <> None).
  { rewrite lookup_t_goc, teqb_refl. destruct (lookup teqb t (sreg s)); discriminate. }
  assert (X : Ext s {| sseen := sseen s; sreg := get_or_create teqb t (sinit (fst t)) (sreg s); slog := slog s ++ [LGoc t] |}).
  { constructor; simpl; auto. apply Prefix_refl. exists [LGoc t]. reflexivity. }
  split; [|split; [exact X|]].
  - constructor; simpl.
    + rewrite tracked_snoc, app_nil_r. exact A.
    + intros t0 H. apply in_snoc_inv in H as [H|H]; [auto|]. inversion H; subst. exact Hnew.
    + intros t0 H. rewrite lookup_t_goc in H. destruct (teqb t0 t) eqn:Q.
      * rewrite (existsb_teqb_congr t0 t _ Q). exact Hseen.
      * auto.
    + intros t0 st H. rewrite stor_of_snoc_other by exact I. rewrite lookup_t_goc in H.
      destruct (teqb t0 t) eqn:Q; [|auto].
      destruct (lookup teqb t0 (sreg s)) as [v|] eqn:L.
      * inversion H; subst. auto.
      * inversion H; subst. rewrite (stor_of_none t0 (slog s) (E t0 L)). rewrite (teqb_kind t0 t Q). reflexivity.
    + intros t0 H. rewrite lupds_snoc, app_nil_r. rewrite lookup_t_goc in H.
      destruct (teqb t0 t); [destruct (lookup teqb t0 (sreg s)); discriminate|auto].
    + apply wf_from_snoc. split; [exact F|exact I].
  - destruct (TInv_ext _ _ _ X T) as (T1 & T2 & _). split; [|split; [exact T2|exact I]].
    intros t0 H. simpl in H. apply in_snoc_inv in H as [H|H]; [apply T1; exact H|]. subst. exact Hnew.
Qed.

(* ---- 3: update through a handle *)
Lemma put_dom {V} (t t0 : target) (v st : V) m : lookup teqb t m = Some st ->
  (lookup teqb t0 (put teqb t v m) <> None <-> lookup teqb t0 m <> None).
Proof.
  intros H. rewrite lookup_t_put. destruct (teqb t0 t) eqn:Q; [|tauto].
  rewrite (lookup_t_cls t0 t m) by (apply teqb_tcls; exact Q). rewrite H. split; discriminate.
Qed.

Lemma step_upd s l t u st r :
  GInv s -> TInv s l -> pc l = PIdle ->
  kind_eqb (fst t) (ukind u) = true -> lookup teqb t (sreg s) = Some st ->
  StepOk s l {| sseen := sseen s; sreg := put teqb t (sapply u st) (sreg s); slog := slog s ++ [LUpd t u] |}
             {| prog := r; pc := PIdle; hnd := hnd l; outs := outs l |}.
Proof.
  intros [A B C D E F] T P K L.
  assert (X : Ext s {| sseen := sseen s; sreg := put teqb t (sapply u st) (sreg s); slog := slog s ++ [LUpd t u] |}).
  { constructor; simpl. apply Prefix_refl. exists [LUpd t u]. reflexivity.
    intros t0 H. apply (put_dom t t0 _ st); auto. }
  split; [|split; [exact X|]].
  - constructor; simpl.
    + rewrite tracked_snoc, app_nil_r. exact A.
    + intros t0 H. apply in_snoc_inv in H as [H|H]; [|discriminate]. apply (put_dom t t0 _ st); auto.
    + intros t0 H. apply C. apply (proj1 (put_dom t t0 (sapply u st) st _ L)). exact H.
    + intros t0 st0 H. rewrite lookup_t_put in H. destruct (teqb t0 t) eqn:Q.
      * inversion H; subst. rewrite teqb_sym in Q. rewrite (stor_of_snoc_upd t0 _ t u Q K).
        rewrite (D t st L). f_equal. apply stor_of_congr. exact Q.
      * rewrite teqb_sym in Q. rewrite (stor_of_snoc_upd_other t0 _ t u Q). auto.
    + intros t0 H. rewrite lookup_t_put in H. destruct (teqb t0 t) eqn:Q; [discriminate|].
      rewrite lupds_snoc. rewrite teqb_sym in Q. rewrite Q, app_nil_r. auto.
    + apply wf_from_snoc. split; [exact F|exact I].
  - destruct (TInv_ext _ _ _ X T) as (T1 & T2 & _). split; [exact T1|]. split; [exact T2|exact I].
Qed.

Lemma step_local_idle s l r : TInv s l -> TInv s {| prog := r; pc := PIdle; hnd := hnd l; outs := outs l |}.
Proof. intros (T1 & T2 & _). split; [exact T1|]. split; [exact T2|exact I]. Qed.

(* ---- 4: collect the handles *)
Lemma step_collect s l r :
  GInv s -> TInv s l ->
  StepOk s l (logev s LCollect)
             {| prog := r; pc := PClone (slog s) (map fst (sreg s)); hnd := hnd l; outs := outs l |}.
Proof.
  intros G T.
  assert (X : Ext s (logev s LCollect)).
  { constructor; simpl; auto. apply Prefix_refl. exists [LCollect]. reflexivity. }
  split; [apply GInv_logev; [exact I|exact G]|]. split; [exact X|].
  destruct (TInv_ext _ _ _ X T) as (T1 & T2 & _). split; [exact T1|]. split; [exact T2|].
  simpl. split; [exists [LCollect]; reflexivity|]. split.
  - intros t H. unfold in_coll. apply lookup_in_keys. apply (G_goc s G). exact H.
  - intros t H. unfold in_coll in H. apply lookup_in_keys in H. exact H.
Qed.

(* ---- 5: clone seen *)
Lemma step_clone s l lp coll :
  GInv s -> TInv s l -> pc l = PClone lp coll ->
  TInv s {| prog := prog l; pc := PVisit lp coll [] (sseen s) []; hnd := hnd l; outs := outs l |}.
Proof.
  intros G (T1 & T2 & T3) P. rewrite P in T3. simpl in T3.
  split; [exact T1|]. split; [exact T2|]. simpl.
  split; [exact T3|]. split; [apply Prefix_refl|]. split; [reflexivity|]. split; [|constructor].
  intros t H. destruct T3 as (_ & _ & T33). apply (G_tracked s G). apply T33. exact H.
Qed.

(* ---- 6: visit one key *)
Lemma visited_assoc {A} (v : list A) t w : (v ++ [t]) ++ w = v ++ t :: w.
Proof. rewrite <- app_assoc. reflexivity. Qed.

Lemma step_visit_skip s l lp coll visited t work acc :
  TInv s l -> pc l = PVisit lp coll visited (t :: work) acc ->
  (in_coll coll t = true -> False) ->
  TInv s {| prog := prog l; pc := PVisit lp coll (visited ++ [t]) work acc; hnd := hnd l; outs := outs l |}.
Proof.
  intros (T1 & T2 & T3) P N. rewrite P in T3. simpl in T3. destruct T3 as (C1 & C2 & C3 & C4 & C5).
  split; [exact T1|]. split; [exact T2|]. simpl. rewrite visited_assoc.
  split; [exact C1|]. split; [exact C2|]. split; [|split; [exact C4|exact C5]].
  rewrite filter_snoc. destruct (in_coll coll t); [exfalso; auto|]. rewrite app_nil_r. exact C3.
Qed.

Lemma step_visit_load s l lp coll visited t work acc v :
  GInv s -> TInv s l -> pc l = PVisit lp coll visited (t :: work) acc ->
  in_coll coll t = true ->
  (exists st, lookup teqb t (sreg s) = Some st /\
              match st with SC n => v = VC n | SG z => v = VG z | SH _ => False end) ->
  StepOk s l (logev s (LLoad t v))
             {| prog := prog l; pc := PVisit lp coll (visited ++ [t]) work (acc ++ [(t, v)]); hnd := hnd l; outs := outs l |}.
Proof.
  intros G T P IC (st & L & Hv). pose proof G as [A B C D E F].
  assert (X : Ext s (logev s (LLoad t v))).
  { constructor; simpl; auto. apply Prefix_refl. exists [LLoad t v]. reflexivity. }
  assert (Ok : ok_event (slog s) (LLoad t v)).
  { simpl. pose proof (D t st L) as S. unfold stor_of in S. unfold lvalue.
    destruct (fst t); destruct st; try discriminate; try contradiction; inversion S; subst; split; try discriminate; reflexivity. }
  split; [|split; [exact X|]].
  - constructor; simpl; auto.
    + rewrite tracked_snoc, app_nil_r. exact A.
    + intros t0 H. apply in_snoc_inv in H as [H|H]; [auto|discriminate].
    + intros t0 st0 H. rewrite stor_of_snoc_other by exact I. auto.
    + intros t0 H. rewrite lupds_snoc, app_nil_r. auto.
    + apply wf_from_snoc. split; [exact F|exact Ok].
  - destruct (TInv_ext _ _ _ X T) as (T1 & T2 & T3). rewrite P in T3. simpl in T3.
    destruct T3 as (C1 & C2 & C3 & C4 & C5).
    split; [exact T1|]. split; [exact T2|]. simpl. rewrite visited_assoc.
    split; [exact C1|]. split; [exact C2|]. split; [|split; [exact C4|]].
    + rewrite filter_snoc, map_app, IC. f_equal. exact C3.
    + apply Forall_app. split; [exact C5|]. constructor; [|constructor].
      unfold entry_logged. simpl. destruct st; try contradiction; subst v; apply in_or_app; right; left; reflexivity.
Qed.

Lemma step_visit_drain s l lp coll visited t work acc xs :
  GInv s -> TInv s l -> pc l = PVisit lp coll visited (t :: work) acc ->
  in_coll coll t = true -> lookup teqb t (sreg s) = Some (SH xs) ->
  StepOk s l {| sseen := sseen s; sreg := put teqb t (SH []) (sreg s); slog := slog s ++ [LDrain t xs] |}
             {| prog := prog l; pc := PVisit lp coll (visited ++ [t]) work (acc ++ [(t, VH xs)]); hnd := hnd l; outs := outs l |}.
Proof.
  intros G T P IC L. pose proof G as [A B C D E F].
  assert (X : Ext s {| sseen := sseen s; sreg := put teqb t (SH []) (sreg s); slog := slog s ++ [LDrain t xs] |}).
  { constructor; simpl. apply Prefix_refl. exists [LDrain t xs]. reflexivity.
    intros t0 H. apply (put_dom t t0 _ (SH xs)); auto. }
  assert (Hk : fst t = Histogram /\ xs = lpending t (slog s)).
  { pose proof (D t _ L) as S. unfold stor_of in S. destruct (fst t); try discriminate. inversion S. auto. }
  destruct Hk as [Hk Hxs].
  split; [|split; [exact X|]].
  - constructor; simpl.
    + rewrite tracked_snoc, app_nil_r. exact A.
    + intros t0 H. apply in_snoc_inv in H as [H|H]; [|discriminate]. apply (put_dom t t0 _ (SH xs)); auto.
    + intros t0 H. apply C. apply (proj1 (put_dom t t0 (SH []) (SH xs) _ L)). exact H.
    + intros t0 st0 H. rewrite lookup_t_put in H. destruct (teqb t0 t) eqn:Q.
      * inversion H; subst st0. rewrite teqb_sym in Q. symmetry. apply stor_of_snoc_drain; [exact Q|].
        rewrite <- (teqb_kind t t0 Q). exact Hk.
      * rewrite teqb_sym in Q. rewrite (stor_of_snoc_drain_other t0 _ t xs Q). auto.
    + intros t0 H. rewrite lookup_t_put in H. destruct (teqb t0 t) eqn:Q; [discriminate|].
      rewrite lupds_snoc, app_nil_r. auto.
    + apply wf_from_snoc. split; [exact F|]. simpl. auto.
  - destruct (TInv_ext _ _ _ X T) as (T1 & T2 & T3). rewrite P in T3. simpl in T3.
    destruct T3 as (C1 & C2 & C3 & C4 & C5).
    split; [exact T1|]. split; [exact T2|]. simpl. rewrite visited_assoc.
    split; [exact C1|]. split; [exact C2|]. split; [|split; [exact C4|]].
    + rewrite filter_snoc, map_app, IC. f_equal. exact C3.
    + apply Forall_app. split; [exact C5|]. constructor; [|constructor].
      unfold entry_logged. simpl. apply in_or_app. right. left. reflexivity.
Qed.

(* ---- 7: return *)
Lemma step_finish s l lp coll visited acc :
  TInv s l -> pc l = PVisit lp coll visited [] acc ->
  TInv s {| prog := prog l; pc := PIdle; hnd := hnd l;
            outs := outs l ++ [{| sr_lp := lp; sr_coll := coll; sr_visited := visited; sr_out := acc |}] |}.
Proof.
  intros (T1 & T2 & T3) P. rewrite P in T3. simpl in T3. destruct T3 as ((S1 & S2 & S3) & C2 & C3 & C4 & C5).
  rewrite app_nil_r in C2, C4.
  split; [exact T1|]. split; [|exact I]. simpl. apply Forall_app. split; [exact T2|]. constructor; [|constructor].
  unfold rec_ok. simpl. auto 10.
Qed.

(* ---------------------------------------------------------------- any step *)
Lemma step_one s l s' l' : GInv s -> TInv s l -> cstep s l = Some (s', l') -> StepOk s l s' l'.
Proof.
  intros G T H. unfold cstep in H.
  destruct (pc l) as [|t|lp coll|lp coll visited work acc] eqn:P.
  - destruct (prog l) as [|[t|h u|] r] eqn:Pr; [discriminate| | |].
    + inversion H; subst. apply step_track; assumption.
    + destruct (nth_error (hnd l) h) as [t|] eqn:N.
      * destruct (kind_eqb (fst t) (ukind u)) eqn:K.
        -- destruct (lookup teqb t (sreg s)) as [st|] eqn:L; inversion H; subst.
           ++ eapply step_upd; eauto.
           ++ split; [exact G|]. split; [apply Ext_refl|apply step_local_idle; exact T].
        -- inversion H; subst. split; [exact G|]. split; [apply Ext_refl|apply step_local_idle; exact T].
      * inversion H; subst. split; [exact G|]. split; [apply Ext_refl|apply step_local_idle; exact T].
    + inversion H; subst. apply step_collect; assumption.
  - inversion H; subst. apply step_goc; assumption.
  - inversion H; subst. split; [exact G|]. split; [apply Ext_refl|]. eapply step_clone; eauto.
  - destruct work as [|t work].
    + inversion H; subst. split; [exact G|]. split; [apply Ext_refl|]. eapply step_finish; eauto.
    + destruct (in_coll coll t) eqn:IC.
      * destruct (lookup teqb t (sreg s)) as [[n|z|xs]|] eqn:L; inversion H; subst.
        -- eapply step_visit_load; eauto. exists (SC n). auto.
        -- eapply step_visit_load; eauto. exists (SG z). auto.
        -- eapply step_visit_drain; eauto.
        -- exfalso. destruct T as (_ & _ & T3). rewrite P in T3. simpl in T3.
           destruct T3 as ((_ & _ & S3) & _). apply (S3 t IC). exact L.
      * inversion H; subst. split; [exact G|]. split; [apply Ext_refl|].
        eapply step_visit_skip; eauto. intros Q. congruence.
Qed.

Lemma cinv_step_preserves : step_preserves cstep CInv.
Proof.
  intros s ls t l s' l' [G Ts] N St. simpl in G, Ts.
  pose proof (Forall_nth_error _ _ _ _ Ts N) as T.
  destruct (step_one s l s' l' G T St) as (G' & X & T').
  split; simpl; [exact G'|].
  apply Forall_upd; [|exact T'].
  eapply Forall_impl; [|exact Ts]. intros a. apply TInv_ext. exact X.
Qed.

Lemma TInv_init s p : TInv s (init_local p).
Proof. split; [intros t []|]. split; [constructor|exact I]. Qed.

Lemma CInv_init ps : CInv (cinit, map init_local ps).
Proof.
  split; simpl.
  - constructor; simpl; auto; try discriminate; try contradiction.
  - apply Forall_forall. intros l H. apply in_map_iff in H as [p [<- _]]. apply TInv_init.
Qed.

(* the invariant holds after every schedule of any number of threads running any programs *)
Theorem cinv_all_schedules ps sched :
  CInv (fst (exec cstep csite (cinit, map init_local ps) sched)).
Proof. apply invariant_all_schedules; [exact cinv_step_preserves|apply CInv_init]. Qed.
