(* C19 — facts about histories (lists of [cev]) alone: how the functions of ConcModel.v evolve when
   an event is appended, well-formed histories (every drain / load event carries what the history
   before it determines), and conservation as a property of well-formed histories. *)
From Coq Require Import List NArith ZArith Bool Lia.
Import ListNotations.
Require Import MV.C19.Model MV.C19.Spec MV.C19.ProofsKey MV.C19.ProofsSpec MV.C19.ConcModel.
Open Scope N_scope.

Lemma tracked_snoc l e : tracked (l ++ [e]) = tracked l ++ match e with LTrack t => [t] | _ => [] end.
Proof. unfold tracked. apply flat_map_snoc. Qed.
Lemma lupds_snoc t l e :
  lupds t (l ++ [e]) = lupds t l ++ match e with LUpd t' u => if teqb t' t then [u] else [] | _ => [] end.
Proof. unfold lupds. apply flat_map_snoc. Qed.
Lemma lupds_app t a b : lupds t (a ++ b) = lupds t a ++ lupds t b.
Proof. unfold lupds. apply flat_map_app. Qed.
Lemma ldrained_snoc t l e :
  ldrained t (l ++ [e]) = ldrained t l ++ match e with LDrain t' vs => if teqb t' t then [vs] else [] | _ => [] end.
Proof. unfold ldrained. apply flat_map_snoc. Qed.
Lemma lrecorded_app t a b : lrecorded t (a ++ b) = lrecorded t a ++ lrecorded t b.
Proof. unfold lrecorded. rewrite lupds_app, flat_map_app. reflexivity. Qed.
Lemma lrecorded_snoc t l e :
  lrecorded t (l ++ [e])
  = lrecorded t l ++ match e with LUpd t' (HRec z) => if teqb t' t then [z] else [] | _ => [] end.
Proof.
  rewrite lrecorded_app. f_equal. unfold lrecorded, lupds. simpl.
  destruct e; simpl; auto. destruct (teqb t0 t); simpl; destruct u; reflexivity.
Qed.

Lemma since_last_drain_snoc t l e :
  since_last_drain t (l ++ [e]) = if is_drain_of t e then [] else since_last_drain t l ++ [e].
Proof. unfold since_last_drain. rewrite rev_unit. simpl. destruct (is_drain_of t e); reflexivity. Qed.

Lemma take_until_prefix {A} (p : A -> bool) l : exists q, l = take_until p l ++ q.
Proof.
  induction l as [|e l [q IH]]; simpl; [exists []; reflexivity|].
  destruct (p e); [exists (e :: l); reflexivity | exists q; simpl; f_equal; exact IH].
Qed.
Lemma since_last_drain_suffix t l : exists p, l = p ++ since_last_drain t l.
Proof.
  unfold since_last_drain. destruct (take_until_prefix (is_drain_of t) (rev l)) as [q H].
  exists (rev q). rewrite <- rev_app_distr, <- H, rev_involutive. reflexivity.
Qed.

Lemma lpending_snoc t l e :
  lpending t (l ++ [e])
  = if is_drain_of t e then []
    else lpending t l ++ match e with LUpd t' (HRec z) => if teqb t' t then [z] else [] | _ => [] end.
Proof.
  unfold lpending. rewrite since_last_drain_snoc. destruct (is_drain_of t e); [reflexivity|].
  apply lrecorded_snoc.
Qed.

Lemma lupds_nil_pending t l : lupds t l = [] -> lpending t l = [].
Proof.
  intros H. destruct (since_last_drain_suffix t l) as [p Hp]. rewrite Hp in H.
  rewrite lupds_app in H. apply app_eq_nil in H as [_ H]. unfold lpending, lrecorded. rewrite H. reflexivity.
Qed.

(* ---- the functions depend on the target only through its equality class ---- *)
Lemma lupds_congr a b l : teqb a b = true -> lupds a l = lupds b l.
Proof.
  intros H. unfold lupds. apply flat_map_ext. intros e. destruct e; auto.
  rewrite (teqb_congr_r a b t H). reflexivity.
Qed.
Lemma is_drain_of_congr a b e : teqb a b = true -> is_drain_of a e = is_drain_of b e.
Proof. intros H. destruct e; simpl; auto. apply teqb_congr_r. exact H. Qed.
Lemma take_until_ext {A} (p q : A -> bool) l : (forall x, p x = q x) -> take_until p l = take_until q l.
Proof. intros H. induction l as [|e l IH]; simpl; auto. rewrite H, IH. reflexivity. Qed.
Lemma lpending_congr a b l : teqb a b = true -> lpending a l = lpending b l.
Proof.
  intros H. unfold lpending, since_last_drain, lrecorded.
  rewrite (take_until_ext (is_drain_of a) (is_drain_of b)) by (intros x; apply is_drain_of_congr; exact H).
  rewrite (lupds_congr a b _ H). reflexivity.
Qed.
Lemma lvalue_congr a b l : teqb a b = true -> lvalue a l = lvalue b l.
Proof.
  intros H. unfold lvalue. rewrite (teqb_kind a b H), (lupds_congr a b l H), (lpending_congr a b l H). reflexivity.
Qed.
Lemma ldrained_congr a b l : teqb a b = true -> ldrained a l = ldrained b l.
Proof.
  intros H. unfold ldrained. apply flat_map_ext. intros e. destruct e; auto.
  rewrite (teqb_congr_r a b t H). reflexivity.
Qed.

(* ---- well-formed histories ---- *)
Definition ok_event (pre : list cev) (e : cev) : Prop :=
  match e with
  | LDrain t vs => fst t = Histogram /\ vs = lpending t pre
  | LLoad t v => fst t <> Histogram /\ v = lvalue t pre
  | _ => True
  end.
Fixpoint wf_from (pre l : list cev) : Prop :=
  match l with [] => True | e :: r => ok_event pre e /\ wf_from (pre ++ [e]) r end.

Lemma wf_from_snoc : forall l pre e, wf_from pre (l ++ [e]) <-> wf_from pre l /\ ok_event (pre ++ l) e.
Proof.
  induction l as [|x l IH]; intros pre e; simpl.
  - rewrite app_nil_r. tauto.
  - rewrite IH. rewrite <- app_assoc. simpl. tauto.
Qed.

Lemma wf_from_at : forall l1 pre e l2, wf_from pre (l1 ++ e :: l2) -> ok_event (pre ++ l1) e.
Proof.
  induction l1 as [|x l1 IH]; intros pre e l2 H; simpl in H.
  - rewrite app_nil_r. tauto.
  - destruct H as [_ H]. apply IH in H. rewrite <- app_assoc in H. exact H.
Qed.

(* conservation is a property of every well-formed history *)
Lemma wf_conservation t : forall l, wf_from [] l ->
  concat (ldrained t l) ++ lpending t l = lrecorded t l.
Proof.
  induction l as [|e l IH] using rev_ind; intros W; [reflexivity|].
  apply wf_from_snoc in W as [W Oe]. specialize (IH W). simpl in Oe.
  rewrite ldrained_snoc, lpending_snoc, lrecorded_snoc, concat_app.
  destruct e; simpl; rewrite ?app_nil_r; auto.
  - (* LUpd *) rewrite app_assoc, IH. reflexivity.
  - (* LDrain *) destruct Oe as [_ ->]. destruct (teqb t0 t) eqn:E; simpl.
    + rewrite !app_nil_r. rewrite (lpending_congr t0 t l E). exact IH.
    + rewrite app_nil_r. exact IH.
Qed.

(* a value is recorded at most as often as it is shown or resident -- i.e. never invented, never
   duplicated: immediate from the equation, stated for counting *)
Lemma wf_count t l z : wf_from [] l ->
  (count_occ Z.eq_dec (concat (ldrained t l)) z + count_occ Z.eq_dec (lpending t l) z
   = count_occ Z.eq_dec (lrecorded t l) z)%nat.
Proof. intros W. rewrite <- (wf_conservation t l W), count_occ_app. reflexivity. Qed.

(* ---- prefixes ---- *)
Lemma Prefix_refl {A} (l : list A) : Prefix l l.
Proof. exists []. rewrite app_nil_r. reflexivity. Qed.
Lemma Prefix_app {A} (a b c : list A) : Prefix a b -> Prefix a (b ++ c).
Proof. intros [r ->]. exists (r ++ c). rewrite app_assoc. reflexivity. Qed.
Lemma Prefix_trans {A} (a b c : list A) : Prefix a b -> Prefix b c -> Prefix a c.
Proof. intros [r ->] [r' ->]. exists (r ++ r'). rewrite app_assoc. reflexivity. Qed.
Lemma Prefix_In {A} (a b : list A) x : Prefix a b -> In x a -> In x b.
Proof. intros [r ->] H. apply in_or_app. auto. Qed.

Lemma Subseq_refl {A} (l : list A) : Subseq l l.
Proof. induction l; constructor; auto. Qed.
Lemma Subseq_filter {A} (p : A -> bool) l : Subseq (filter p l) l.
Proof. induction l as [|x l IH]; simpl; [constructor|]. destruct (p x); constructor; auto. Qed.
Lemma Subseq_app_r {A} (a b c : list A) : Subseq a b -> Subseq a (b ++ c).
Proof.
  induction 1; simpl; try constructor; auto.
Qed.
Lemma Subseq_trans {A} (a b c : list A) : Subseq a b -> Subseq b c -> Subseq a c.
Proof.
  intros H1 H2. revert a H1. induction H2; intros a' H1.
  - inversion H1; subst; constructor.
  - inversion H1; subst; constructor; auto.
  - constructor. auto.
Qed.
Lemma Prefix_Subseq {A} (a b : list A) : Prefix a b -> Subseq a b.
Proof. intros [r ->]. apply Subseq_app_r. apply Subseq_refl. Qed.
