(* C19 — the clauses of the property, proved about the declarative functions of Spec.v (which the
   model equals, ProofsInv.model_meets_spec), and isolation of the two recorder instances. *)
From Coq Require Import List NArith ZArith Bool Lia.
Import ListNotations.
Require Import MV.C19.Model MV.C19.Spec MV.C19.ProofsKey MV.C19.ProofsSpec MV.C19.ProofsInv.
Open Scope N_scope.

(* ---- every snapshot of a history is [snap_spec] of its own recorder's past ---- *)
Lemma spec2_from_In b es : forall h pre,
  In (b, es) (spec2_from pre h) ->
  exists h1 h2, h = h1 ++ (b, ESnap) :: h2 /\ es = snap_spec (projev b (pre ++ h1)).
Proof.
  induction h as [|[b' e] h IH]; intros pre H; simpl in H; [contradiction|].
  apply in_app_or in H as [H|H].
  - destruct e; simpl in H; try contradiction. destruct H as [H|[]]. inversion H; subst.
    exists [], h. rewrite app_nil_r. split; reflexivity.
  - destruct (IH _ H) as [h1 [h2 [E1 E2]]]. exists ((b', e) :: h1), h2. split.
    + simpl. rewrite E1. reflexivity.
    + rewrite E2. rewrite <- app_assoc. reflexivity.
Qed.

Lemma snapshots_are_functions_of_own_past h b es :
  In (b, es) (run2 rinit rinit h) ->
  exists h1 h2, resolve2 [] [] h = h1 ++ (b, ESnap) :: h2 /\ es = snap_spec (projev b h1).
Proof. rewrite model_meets_spec. unfold spec2. intros H. apply spec2_from_In in H. exact H. Qed.

(* ---- which metrics a snapshot lists, and in which order ---- *)

Lemma snap_spec_targets pre : map etarget (snap_spec pre) = listed pre.
Proof.
  unfold snap_spec. rewrite map_map. rewrite <- (map_id (listed pre)) at 2.
  apply map_ext. intros [kd k]. reflexivity.
Qed.

Lemma listed_sound pre t : In t (listed pre) -> In t (registered pre).
Proof. unfold listed. apply keep_first_In. Qed.

Lemma listed_complete pre t : In t (registered pre) -> exists t', In t' (listed pre) /\ teqb t t' = true.
Proof.
  intros H. apply In_existsb_teqb in H. unfold listed. rewrite <- existsb_listed in H.
  apply existsb_exists in H. exact H.
Qed.

Lemma distinct_pairs l : distinct l = true -> ForallOrdPairs (fun a b => teqb a b = false) l.
Proof.
  induction l as [|x l IH]; intros H; [constructor|].
  simpl in H. apply andb_prop in H as [H1 H2]. apply negb_true_iff in H1. constructor.
  - apply Forall_forall. intros y Hy. eapply (existsb_false_In _ _ _ H1 Hy).
  - apply IH. exact H2.
Qed.

Lemma listed_distinct pre : ForallOrdPairs (fun a b => teqb a b = false) (listed pre).
Proof. apply distinct_pairs. apply keep_first_distinct. Qed.

(* a metric that was only described is never listed *)
Lemma described_only_absent pre e : In e (snap_spec pre) -> In (etarget e) (registered pre).
Proof.
  intros H. apply listed_sound. rewrite <- snap_spec_targets. apply in_map. exact H.
Qed.

(* ---- values, metadata ---- *)
Lemma snap_spec_entry pre e : In e (snap_spec pre) ->
  e_val e = value_of (etarget e) pre /\
  e_unit e = last_unit (e_kind e, kname (e_key e)) pre /\
  e_desc e = last_desc (e_kind e, kname (e_key e)) pre.
Proof.
  unfold snap_spec. intros H. apply in_map_iff in H as [[kd k] [E _]]. subst e. simpl. auto.
Qed.

Lemma kn_eqb_refl kn : kn_eqb kn kn = true.
Proof. apply kn_eqb_eq. reflexivity. Qed.

Lemma last_unit_given kn pre x d : last_unit kn (pre ++ [EDesc kn (Some x) d]) = Some x.
Proof. unfold last_unit. rewrite descs_snoc, kn_eqb_refl, given_units_snoc. simpl. apply last_opt_snoc. Qed.
Lemma last_unit_sticky kn pre d : last_unit kn (pre ++ [EDesc kn None d]) = last_unit kn pre.
Proof. unfold last_unit. rewrite descs_snoc, kn_eqb_refl, given_units_snoc. simpl. rewrite app_nil_r. reflexivity. Qed.
Lemma last_desc_latest kn pre u d : last_desc kn (pre ++ [EDesc kn u d]) = Some d.
Proof. unfold last_desc. rewrite descs_snoc, kn_eqb_refl, last_opt_snoc. reflexivity. Qed.
Lemma metadata_other kn pre e :
  (forall u d, e <> EDesc kn u d) ->
  last_unit kn (pre ++ [e]) = last_unit kn pre /\ last_desc kn (pre ++ [e]) = last_desc kn pre.
Proof.
  intros H. unfold last_unit, last_desc. rewrite descs_snoc.
  destruct e; rewrite ?app_nil_r; auto.
  destruct (kn_eqb kn0 kn) eqn:E; rewrite ?app_nil_r; auto.
  apply kn_eqb_eq in E. subst. exfalso. eapply H. reflexivity.
Qed.
Lemma metadata_never_described kn pre :
  descs kn pre = [] -> last_unit kn pre = None /\ last_desc kn pre = None.
Proof. intros H. unfold last_unit, last_desc. rewrite H. auto. Qed.

(* ---- histograms: every recorded value is shown exactly once, by the next snapshot ---- *)
Lemma hist_exactly_once_gen t : forall evs pre,
  concat (hist_snaps_from t pre evs) ++ recorded t (since_last_snap (pre ++ evs))
  = recorded t (since_last_snap pre) ++ recorded t evs.
Proof.
  induction evs as [|e r IH]; intros pre.
  - simpl. rewrite !app_nil_r. reflexivity.
  - cbn [hist_snaps_from]. rewrite concat_app, <- app_assoc.
    replace (pre ++ e :: r) with ((pre ++ [e]) ++ r) by (rewrite <- app_assoc; reflexivity).
    rewrite IH. rewrite since_last_snap_snoc.
    change (e :: r) with ([e] ++ r). rewrite (recorded_app t [e] r).
    destruct (is_snap e) eqn:S.
    + destruct e; try discriminate. simpl. rewrite app_nil_r. reflexivity.
    + simpl. rewrite recorded_app, <- app_assoc. reflexivity.
Qed.

Lemma hist_exactly_once t evs :
  concat (hist_snaps_from t [] evs) ++ recorded t (since_last_snap evs) = recorded t evs.
Proof. exact (hist_exactly_once_gen t evs []). Qed.

(* the values shown by a snapshot are those recorded after the previous snapshot *)
Lemma since_last_snap_after pre mid :
  existsb is_snap mid = false -> since_last_snap (pre ++ ESnap :: mid) = mid.
Proof.
  revert pre. induction mid as [|e mid IH] using rev_ind; intros pre H.
  - rewrite since_last_snap_snoc. reflexivity.
  - rewrite existsb_app in H. apply orb_false_elim in H as [H1 H2]. simpl in H2. rewrite orb_false_r in H2.
    replace (pre ++ ESnap :: mid ++ [e]) with ((pre ++ ESnap :: mid) ++ [e]) by (rewrite <- app_assoc; reflexivity).
    rewrite since_last_snap_snoc, H2, IH; auto.
Qed.
Lemma since_last_snap_first mid : existsb is_snap mid = false -> since_last_snap mid = mid.
Proof.
  induction mid as [|e mid IH] using rev_ind; intros H; [reflexivity|].
  rewrite existsb_app in H. apply orb_false_elim in H as [H1 H2]. simpl in H2. rewrite orb_false_r in H2.
  rewrite since_last_snap_snoc, H2, IH; auto.
Qed.

(* the per-snapshot histogram values of [hist_snaps_from] are what the snapshot entries carry *)
Lemma hist_entry pre e : In e (snap_spec pre) -> e_kind e = Histogram ->
  e_val e = VH (recorded (etarget e) (since_last_snap pre)).
Proof.
  intros H K. destruct (snap_spec_entry pre e H) as [V _]. rewrite V. unfold value_of, etarget. simpl.
  rewrite K. reflexivity.
Qed.

(* values can only have been recorded into a registered histogram (so it is listed) *)
Lemma registered_listed_entry pre t : In t (registered pre) ->
  exists e, In e (snap_spec pre) /\ teqb t (etarget e) = true.
Proof.
  intros H. destruct (listed_complete pre t H) as [t' [H1 H2]].
  rewrite <- snap_spec_targets in H1. apply in_map_iff in H1 as [e [E1 E2]].
  exists e. split; auto. rewrite E1. exact H2.
Qed.

(* ---- two recorder instances share no state ---- *)
Lemma isolated_gen b : forall h s0 s1,
  proj b (run2 s0 s1 h) = run1 (if b then s1 else s0) (proj b h).
Proof.
  induction h as [|[b' o] h IH]; intros s0 s1; [reflexivity|].
  cbn [run2]. unfold proj at 2. cbn [filter fst].
  destruct b, b'; cbn [Bool.eqb map snd run1].
  - destruct (step_rec s1 o) as [s' [es|]]; [unfold proj; cbn [filter fst Bool.eqb map snd]; f_equal|]; apply (IH s0 s').
  - destruct (step_rec s0 o) as [s' [es|]]; [unfold proj; cbn [filter fst Bool.eqb map snd]|]; apply (IH s' s1).
  - destruct (step_rec s1 o) as [s' [es|]]; [unfold proj; cbn [filter fst Bool.eqb map snd]|]; apply (IH s0 s').
  - destruct (step_rec s0 o) as [s' [es|]]; [unfold proj; cbn [filter fst Bool.eqb map snd]; f_equal|]; apply (IH s' s1).
Qed.

Lemma isolated_per_recorder b h : proj b (run2 rinit rinit h) = run1 rinit (proj b h).
Proof. rewrite isolated_gen. destruct b; reflexivity. Qed.

(* ---- registering a key equal to one registered before changes nothing in the listing ---- *)
Lemma equal_keys_one_entry pre t t' :
  In t (registered pre) -> teqb t' t = true -> listed (pre ++ [EReg t']) = listed pre.
Proof.
  intros H E. rewrite listed_snoc.
  assert (existsb (fun y => teqb t' y) (registered pre) = true) as ->.
  { apply existsb_exists. exists t. auto. }
  apply app_nil_r.
Qed.

Lemma teqb_style kd n ls s1 s2 :
  teqb (kd, {| kname := n; klabels := ls; kstyle := s1 |}) (kd, {| kname := n; klabels := ls; kstyle := s2 |}) = true.
Proof. rewrite teqb_same_kind. apply key_eqb_style. Qed.

Lemma listed_snoc_full pre e :
  listed (pre ++ [e])
  = listed pre ++ match e with
                  | EReg t => if existsb (fun y => teqb t y) (registered pre) then [] else [t]
                  | _ => []
                  end.
Proof. apply listed_snoc. Qed.
