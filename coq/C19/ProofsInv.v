(* C19 — the recorder state after a past [pre] is determined by the declarative functions of [pre];
   every step of the model preserves this, and a Snapshot outputs exactly [snap_spec pre]. *)
From Coq Require Import List NArith ZArith Bool Lia.
Import ListNotations.
Require Import MV.C19.Model MV.C19.Spec MV.C19.ProofsKey MV.C19.ProofsSpec.
Open Scope N_scope.

Definition reg_in (t : target) (pre : list ev) : bool := existsb (fun y => teqb t y) (registered pre).

Record Inv (pre : list ev) (s : rst) : Prop := {
  I_handles : handles s = registered pre;
  I_seen : seen s = listed pre;
  I_meta : forall kn, lookup kn_eqb kn (meta s)
                      = match last_opt (descs kn pre) with
                        | None => None
                        | Some (_, d) => Some (last_unit kn pre, d)
                        end;
  I_ctrs : forall k, lookup key_eqb k (ctrs s)
                     = if reg_in (Counter, k) pre then Some (fold_left capply (upds (Counter, k) pre) 0) else None;
  I_gags : forall k, lookup key_eqb k (gags s)
                     = if reg_in (Gauge, k) pre then Some (fold_left gapply (upds (Gauge, k) pre) 0%Z) else None;
  I_hsts : forall k, lookup key_eqb k (hsts s)
                     = if reg_in (Histogram, k) pre then Some (recorded (Histogram, k) (since_last_snap pre)) else None;
  (* updates only ever reach registered metrics (handles come from register calls) *)
  I_wf : forall t, reg_in t pre = false -> upds t pre = []
}.

Lemma Inv_init : Inv [] rinit.
Proof. constructor; simpl; auto. Qed.

Lemma reg_in_snoc t pre e :
  reg_in t (pre ++ [e]) = reg_in t pre || match e with EReg t' => teqb t t' | _ => false end.
Proof.
  unfold reg_in. rewrite registered_snoc, existsb_app. f_equal.
  destruct e; simpl; auto. apply orb_false_r.
Qed.

Lemma wf_recorded t pre : upds t pre = [] -> recorded t (since_last_snap pre) = [].
Proof.
  intros H. destruct (since_last_snap_suffix pre) as [p Hp].
  rewrite Hp in H. rewrite upds_app in H. apply app_eq_nil in H as [_ H].
  unfold recorded. rewrite H. reflexivity.
Qed.

(* ---------------------------------------------------------------- Describe *)
Lemma step_describe pre s k n u d :
  Inv pre s -> Inv (pre ++ [EDesc (k, n) u d]) (fst (step_rec s (Describe k n u d))).
Proof.
  intros [Hh Hs Hm Hc Hg Hhs Hwf]. simpl.
  constructor; simpl.
  - rewrite registered_snoc, app_nil_r. exact Hh.
  - rewrite listed_snoc, app_nil_r. exact Hs.
  - intros kn. unfold describe.
    destruct (lookup kn_eqb (k, n) (meta s)) as [[u0 d0]|] eqn:L.
    + rewrite lookup_kn_put. rewrite descs_snoc.
      destruct (kn_eqb kn (k, n)) eqn:E.
      * apply kn_eqb_eq in E. subst kn.
        assert (kn_eqb (k, n) (k, n) = true) as -> by (apply kn_eqb_eq; reflexivity).
        rewrite last_opt_snoc. unfold last_unit. rewrite descs_snoc.
        assert (kn_eqb (k, n) (k, n) = true) as -> by (apply kn_eqb_eq; reflexivity).
        rewrite given_units_snoc. simpl. destruct u as [x|].
        -- rewrite last_opt_snoc. reflexivity.
        -- rewrite app_nil_r. rewrite Hm in L.
           destruct (last_opt (descs (k, n) pre)) as [[u' d']|]; [|discriminate].
           inversion L; subst. reflexivity.
      * assert (kn_eqb (k, n) kn = false) as F.
        { destruct (kn_eqb (k, n) kn) eqn:F; auto. apply kn_eqb_eq in F. subst kn.
          assert (kn_eqb (k, n) (k, n) = true) by (apply kn_eqb_eq; reflexivity). congruence. }
        rewrite F, app_nil_r. rewrite Hm. unfold last_unit. rewrite descs_snoc, F, app_nil_r. reflexivity.
    + rewrite lookup_kn_put. rewrite descs_snoc.
      destruct (kn_eqb kn (k, n)) eqn:E.
      * apply kn_eqb_eq in E. subst kn.
        assert (kn_eqb (k, n) (k, n) = true) as -> by (apply kn_eqb_eq; reflexivity).
        rewrite last_opt_snoc. unfold last_unit. rewrite descs_snoc.
        assert (kn_eqb (k, n) (k, n) = true) as -> by (apply kn_eqb_eq; reflexivity).
        rewrite given_units_snoc. simpl. destruct u as [x|].
        -- rewrite last_opt_snoc. reflexivity.
        -- rewrite app_nil_r. rewrite Hm in L.
           destruct (last_opt (descs (k, n) pre)) as [[u' d']|] eqn:L2; [discriminate|].
           apply last_opt_none in L2. rewrite L2. reflexivity.
      * assert (kn_eqb (k, n) kn = false) as F.
        { destruct (kn_eqb (k, n) kn) eqn:F; auto. apply kn_eqb_eq in F. subst kn.
          assert (kn_eqb (k, n) (k, n) = true) by (apply kn_eqb_eq; reflexivity). congruence. }
        rewrite F, app_nil_r. rewrite Hm. unfold last_unit. rewrite descs_snoc, F, app_nil_r. reflexivity.
  - intros k0. rewrite reg_in_snoc, orb_false_r, upds_snoc, app_nil_r. apply Hc.
  - intros k0. rewrite reg_in_snoc, orb_false_r, upds_snoc, app_nil_r. apply Hg.
  - intros k0. rewrite reg_in_snoc, orb_false_r, since_last_snap_snoc. simpl.
    rewrite recorded_snoc, app_nil_r. apply Hhs.
  - intros t. rewrite reg_in_snoc, orb_false_r, upds_snoc, app_nil_r. apply Hwf.
Qed.

(* ---------------------------------------------------------------- Register *)
Lemma goc_case {V} (m : list (key * V)) (i : V) pre kd (ky : key) (f : key -> V) :
  (forall k, lookup key_eqb k m = if reg_in (kd, k) pre then Some (f k) else None) ->
  (forall k, reg_in (kd, k) pre = false -> f k = i) ->
  forall k, lookup key_eqb k (get_or_create key_eqb ky i m)
            = if reg_in (kd, k) pre || teqb (kd, k) (kd, ky) then Some (f k) else None.
Proof.
  intros H Hi k. rewrite lookup_key_goc, teqb_same_kind, H.
  destruct (key_eqb k ky); destruct (reg_in (kd, k) pre) eqn:R; simpl; auto.
  rewrite (Hi k R). reflexivity.
Qed.

Lemma step_register pre s k key :
  Inv pre s -> Inv (pre ++ [EReg (k, key)]) (fst (step_rec s (Register k key))).
Proof.
  intros [Hh Hs Hm Hc Hg Hhs Hwf].
  assert (Hseen : track (k, key) (seen s) = listed (pre ++ [EReg (k, key)])).
  { rewrite listed_snoc. unfold track. rewrite Hs. unfold listed at 1. rewrite existsb_listed.
    destruct (existsb _ (registered pre)); [rewrite app_nil_r|]; reflexivity. }
  assert (Hhd : handles s ++ [(k, key)] = registered (pre ++ [EReg (k, key)])).
  { rewrite registered_snoc, Hh. reflexivity. }
  assert (Hmeta : forall kn, lookup kn_eqb kn (meta s)
                     = match last_opt (descs kn (pre ++ [EReg (k, key)])) with
                       | None => None | Some (_, d) => Some (last_unit kn (pre ++ [EReg (k, key)]), d) end).
  { intros kn. unfold last_unit. rewrite descs_snoc, app_nil_r. apply Hm. }
  assert (Hwf' : forall t, reg_in t (pre ++ [EReg (k, key)]) = false -> upds t (pre ++ [EReg (k, key)]) = []).
  { intros t. rewrite reg_in_snoc, upds_snoc, app_nil_r. intros H. apply orb_false_elim in H as [H _]. apply Hwf. exact H. }
  assert (Hc0 : forall k0, reg_in (Counter, k0) pre = false -> fold_left capply (upds (Counter, k0) pre) 0 = 0).
  { intros k0 R. rewrite (Hwf _ R). reflexivity. }
  assert (Hg0 : forall k0, reg_in (Gauge, k0) pre = false -> fold_left gapply (upds (Gauge, k0) pre) 0%Z = 0%Z).
  { intros k0 R. rewrite (Hwf _ R). reflexivity. }
  assert (Hh0 : forall k0, reg_in (Histogram, k0) pre = false -> recorded (Histogram, k0) (since_last_snap pre) = []).
  { intros k0 R. apply wf_recorded. apply Hwf. exact R. }
  destruct k; simpl; constructor; simpl; auto.
  - intros k0. rewrite reg_in_snoc, upds_snoc, app_nil_r.
    apply (goc_case (ctrs s) 0 pre Counter key (fun k => fold_left capply (upds (Counter, k) pre) 0)); auto.
  - intros k0. rewrite reg_in_snoc, upds_snoc, app_nil_r, teqb_diff_kind, orb_false_r by discriminate. apply Hg.
  - intros k0. rewrite reg_in_snoc, since_last_snap_snoc. simpl. rewrite recorded_snoc, app_nil_r.
    rewrite teqb_diff_kind, orb_false_r by discriminate. apply Hhs.
  - intros k0. rewrite reg_in_snoc, upds_snoc, app_nil_r, teqb_diff_kind, orb_false_r by discriminate. apply Hc.
  - intros k0. rewrite reg_in_snoc, upds_snoc, app_nil_r.
    apply (goc_case (gags s) 0%Z pre Gauge key (fun k => fold_left gapply (upds (Gauge, k) pre) 0%Z)); auto.
  - intros k0. rewrite reg_in_snoc, since_last_snap_snoc. simpl. rewrite recorded_snoc, app_nil_r.
    rewrite teqb_diff_kind, orb_false_r by discriminate. apply Hhs.
  - intros k0. rewrite reg_in_snoc, upds_snoc, app_nil_r, teqb_diff_kind, orb_false_r by discriminate. apply Hc.
  - intros k0. rewrite reg_in_snoc, upds_snoc, app_nil_r, teqb_diff_kind, orb_false_r by discriminate. apply Hg.
  - intros k0. rewrite reg_in_snoc, since_last_snap_snoc. simpl. rewrite recorded_snoc, app_nil_r.
    apply (goc_case (hsts s) [] pre Histogram key (fun k => recorded (Histogram, k) (since_last_snap pre))); auto.
Qed.

(* ---------------------------------------------------------------- no-op events *)
Lemma step_nop pre s : Inv pre s -> Inv (pre ++ [ENop]) s.
Proof.
  intros [Hh Hs Hm Hc Hg Hhs Hwf]. constructor.
  - rewrite registered_snoc, app_nil_r. exact Hh.
  - rewrite listed_snoc, app_nil_r. exact Hs.
  - intros kn. unfold last_unit. rewrite descs_snoc, app_nil_r. apply Hm.
  - intros k0. rewrite reg_in_snoc, orb_false_r, upds_snoc, app_nil_r. apply Hc.
  - intros k0. rewrite reg_in_snoc, orb_false_r, upds_snoc, app_nil_r. apply Hg.
  - intros k0. rewrite reg_in_snoc, orb_false_r, since_last_snap_snoc. simpl.
    rewrite recorded_snoc, app_nil_r. apply Hhs.
  - intros t. rewrite reg_in_snoc, orb_false_r, upds_snoc, app_nil_r. apply Hwf.
Qed.

(* ---------------------------------------------------------------- Upd *)
Lemma modify_case {V} (m : list (key * V)) pre kd (ky : key) (f : key -> V) (g : V -> V) :
  (forall k, lookup key_eqb k m = if reg_in (kd, k) pre then Some (f k) else None) ->
  forall k, lookup key_eqb k (modify key_eqb ky g m)
            = if reg_in (kd, k) pre then Some (if teqb (kd, ky) (kd, k) then g (f k) else f k) else None.
Proof.
  intros H k. rewrite lookup_key_modify, teqb_same_kind, H, (key_eqb_sym ky k).
  destruct (key_eqb k ky); destruct (reg_in (kd, k) pre); reflexivity.
Qed.

Lemma fold_snoc_if {A} (f : A -> upd -> A) (l : list upd) (b : bool) (u : upd) (a : A) :
  fold_left f (l ++ (if b then [u] else [])) a = if b then f (fold_left f l a) u else fold_left f l a.
Proof. destruct b; [rewrite fold_left_app|rewrite app_nil_r]; reflexivity. Qed.

Lemma step_upd pre s kd key u :
  Inv pre s -> In (kd, key) (registered pre) -> kd = ukind u ->
  Inv (pre ++ [EUpd (kd, key) u])
      (match kd with
       | Counter => {| seen := seen s; meta := meta s; ctrs := modify key_eqb key (fun c => capply c u) (ctrs s);
                       gags := gags s; hsts := hsts s; handles := handles s |}
       | Gauge => {| seen := seen s; meta := meta s; ctrs := ctrs s;
                     gags := modify key_eqb key (fun g => gapply g u) (gags s); hsts := hsts s; handles := handles s |}
       | Histogram => {| seen := seen s; meta := meta s; ctrs := ctrs s; gags := gags s;
                         hsts := modify key_eqb key (fun h => happly h u) (hsts s); handles := handles s |}
       end).
Proof.
  intros [Hh Hs Hm Hc Hg Hhs Hwf] Hin Hk.
  assert (Hmeta : forall kn, lookup kn_eqb kn (meta s)
                     = match last_opt (descs kn (pre ++ [EUpd (kd, key) u])) with
                       | None => None | Some (_, d) => Some (last_unit kn (pre ++ [EUpd (kd, key) u]), d) end).
  { intros kn. unfold last_unit. rewrite descs_snoc, app_nil_r. apply Hm. }
  assert (Hwf' : forall t, reg_in t (pre ++ [EUpd (kd, key) u]) = false -> upds t (pre ++ [EUpd (kd, key) u]) = []).
  { intros t. rewrite reg_in_snoc, orb_false_r, upds_snoc. intros R. rewrite (Hwf _ R). simpl.
    destruct (teqb (kd, key) t) eqn:E; auto.
    unfold reg_in in R. rewrite teqb_sym in E. rewrite (existsb_teqb_congr _ _ _ E) in R.
    rewrite (In_existsb_teqb _ _ Hin) in R. discriminate. }
  assert (Hreg : registered (pre ++ [EUpd (kd, key) u]) = registered pre) by (rewrite registered_snoc, app_nil_r; reflexivity).
  assert (Hlst : listed (pre ++ [EUpd (kd, key) u]) = listed pre) by (rewrite listed_snoc, app_nil_r; reflexivity).
  assert (Hsls : forall t, recorded t (since_last_snap (pre ++ [EUpd (kd, key) u]))
                           = recorded t (since_last_snap pre)
                             ++ match u with HRec z => if teqb (kd, key) t then [z] else [] | _ => [] end).
  { intros t. rewrite since_last_snap_snoc. simpl. rewrite recorded_snoc. reflexivity. }
  destruct kd; constructor; simpl; try (rewrite ?Hreg, ?Hlst; assumption); auto.
  - (* counter map, counter update *)
    intros k0. rewrite reg_in_snoc, orb_false_r, upds_snoc.
    rewrite (modify_case (ctrs s) pre Counter key (fun k => fold_left capply (upds (Counter, k) pre) 0)); auto.
    rewrite fold_snoc_if. reflexivity.
  - intros k0. rewrite reg_in_snoc, orb_false_r, upds_snoc, teqb_diff_kind, app_nil_r by discriminate. apply Hg.
  - intros k0. rewrite reg_in_snoc, orb_false_r, Hsls, teqb_diff_kind by discriminate.
    rewrite Hhs. destruct u; rewrite ?app_nil_r; reflexivity.
  - intros k0. rewrite reg_in_snoc, orb_false_r, upds_snoc, teqb_diff_kind, app_nil_r by discriminate. apply Hc.
  - intros k0. rewrite reg_in_snoc, orb_false_r, upds_snoc.
    rewrite (modify_case (gags s) pre Gauge key (fun k => fold_left gapply (upds (Gauge, k) pre) 0%Z)); auto.
    rewrite fold_snoc_if. reflexivity.
  - intros k0. rewrite reg_in_snoc, orb_false_r, Hsls, teqb_diff_kind by discriminate.
    rewrite Hhs. destruct u; rewrite ?app_nil_r; reflexivity.
  - intros k0. rewrite reg_in_snoc, orb_false_r, upds_snoc, teqb_diff_kind, app_nil_r by discriminate. apply Hc.
  - intros k0. rewrite reg_in_snoc, orb_false_r, upds_snoc, teqb_diff_kind, app_nil_r by discriminate. apply Hg.
  - intros k0. rewrite reg_in_snoc, orb_false_r, Hsls.
    rewrite (modify_case (hsts s) pre Histogram key (fun k => recorded (Histogram, k) (since_last_snap pre))); auto.
    destruct u; try discriminate. simpl. destruct (teqb (Histogram, key) (Histogram, k0)); rewrite ?app_nil_r; reflexivity.
Qed.

(* ---------------------------------------------------------------- Snapshot *)
Definition entry_of (md : list (kname_t * (option N * str))) (cs : list (key * N)) (gs : list (key * Z))
           (hs : list (key * list Z)) (t : target) : list entry :=
  let '(kd, k) := t in
  let v := match kd with
           | Counter => option_map VC (lookup key_eqb k cs)
           | Gauge => option_map VG (lookup key_eqb k gs)
           | Histogram => option_map VH (lookup key_eqb k hs)
           end in
  let '(unit, desc) := match lookup kn_eqb (kd, kname k) md with
                       | Some (u, d) => (u, Some d)
                       | None => (None, None)
                       end in
  match v with
  | Some v => [{| e_kind := kd; e_key := k; e_unit := unit; e_desc := desc; e_val := v |}]
  | None => []
  end.

Lemma flat_map_ext_In {A B} (f g : A -> list B) l : (forall x, In x l -> f x = g x) -> flat_map f l = flat_map g l.
Proof.
  induction l as [|a l IH]; intros H; simpl; auto.
  rewrite (H a (or_introl eq_refl)), IH; auto. intros x Hx. apply H. right. exact Hx.
Qed.

Lemma existsb_false_In {A} (p : A -> bool) l x : existsb p l = false -> In x l -> p x = false.
Proof.
  intros H Hin. destruct (p x) eqn:E; auto.
  assert (existsb p l = true) by (apply existsb_exists; exists x; auto). congruence.
Qed.

Lemma snap_loop_spec md cs gs : forall l hs, distinct l = true ->
  snd (snap_loop md cs gs l hs) = flat_map (entry_of md cs gs hs) l /\
  forall k, lookup key_eqb k (fst (snap_loop md cs gs l hs))
            = if existsb (fun y => teqb (Histogram, k) y) l
              then option_map (fun _ => []) (lookup key_eqb k hs)
              else lookup key_eqb k hs.
Proof.
  induction l as [|[kd k0] r IH]; intros hs Hd.
  - simpl. split; auto.
  - simpl in Hd. apply andb_prop in Hd as [Hfresh Hd]. apply negb_true_iff in Hfresh.
    cbn [snap_loop].
    destruct kd.
    + (* counter *)
      destruct (IH hs Hd) as [IH1 IH2].
      destruct (snap_loop md cs gs r hs) as [hs2 es] eqn:SL. simpl in IH1, IH2.
      destruct (lookup kn_eqb (Counter, kname k0) md) as [[u d]|] eqn:LM;
        (split; [ cbn [flat_map entry_of]; rewrite LM; destruct (lookup key_eqb k0 cs); simpl; rewrite IH1; reflexivity
                | intros k; cbn [fst existsb]; rewrite teqb_diff_kind by discriminate; cbn [orb]; apply IH2 ]).
    + (* gauge *)
      destruct (IH hs Hd) as [IH1 IH2].
      destruct (snap_loop md cs gs r hs) as [hs2 es] eqn:SL. simpl in IH1, IH2.
      destruct (lookup kn_eqb (Gauge, kname k0) md) as [[u d]|] eqn:LM;
        (split; [ cbn [flat_map entry_of]; rewrite LM; destruct (lookup key_eqb k0 gs); simpl; rewrite IH1; reflexivity
                | intros k; cbn [fst existsb]; rewrite teqb_diff_kind by discriminate; cbn [orb]; apply IH2 ]).
    + (* histogram *)
      destruct (lookup key_eqb k0 hs) as [xs|] eqn:LH.
      * destruct (IH (put key_eqb k0 [] hs) Hd) as [IH1 IH2].
        destruct (snap_loop md cs gs r (put key_eqb k0 [] hs)) as [hs2 es] eqn:SL. simpl in IH1, IH2.
        assert (Hsame : flat_map (entry_of md cs gs (put key_eqb k0 [] hs)) r = flat_map (entry_of md cs gs hs) r).
        { apply flat_map_ext_In. intros [kd k] Hin. unfold entry_of.
          destruct kd; auto. rewrite lookup_key_put.
          pose proof (existsb_false_In _ _ _ Hfresh Hin) as F. cbn beta in F.
          rewrite teqb_same_kind in F. rewrite key_eqb_sym, F. reflexivity. }
        destruct (lookup kn_eqb (Histogram, kname k0) md) as [[u d]|] eqn:LM;
          (split; [ cbn [flat_map entry_of]; rewrite LM, LH; simpl; rewrite IH1, Hsame; reflexivity
                  | intros k; cbn [fst existsb]; rewrite IH2, lookup_key_put, teqb_same_kind;
                    destruct (key_eqb k k0) eqn:E;
                    [ rewrite (lookup_key_cls k k0 hs) by (apply key_eqb_canon; exact E); rewrite LH; simpl;
                      destruct (existsb (fun y => teqb (Histogram, k) y) r); reflexivity
                    | simpl; reflexivity ] ]).
      * destruct (IH hs Hd) as [IH1 IH2].
        destruct (snap_loop md cs gs r hs) as [hs2 es] eqn:SL. simpl in IH1, IH2.
        destruct (lookup kn_eqb (Histogram, kname k0) md) as [[u d]|] eqn:LM;
          (split; [ cbn [flat_map entry_of]; rewrite LM, LH; simpl; rewrite IH1; reflexivity
                  | intros k; cbn [fst existsb]; rewrite IH2, teqb_same_kind;
                    destruct (key_eqb k k0) eqn:E;
                    [ rewrite (lookup_key_cls k k0 hs) by (apply key_eqb_canon; exact E); rewrite LH; simpl;
                      destruct (existsb (fun y => teqb (Histogram, k) y) r); reflexivity
                    | simpl; reflexivity ] ]).
Qed.

Lemma flat_map_singleton {A B} (f : A -> list B) (g : A -> B) l :
  (forall x, In x l -> f x = [g x]) -> flat_map f l = map g l.
Proof.
  induction l as [|a l IH]; intros H; simpl; auto.
  rewrite (H a (or_introl eq_refl)), IH; auto. intros x Hx. apply H. right. exact Hx.
Qed.

Lemma entry_of_spec pre s t : Inv pre s -> In t (listed pre) ->
  entry_of (meta s) (ctrs s) (gags s) (hsts s) t = [entry_spec pre t].
Proof.
  intros [Hh Hs Hm Hc Hg Hhs Hwf] Hin.
  assert (R : reg_in t pre = true).
  { unfold reg_in. apply In_existsb_teqb. unfold listed in Hin. eapply keep_first_In. exact Hin. }
  destruct t as [kd k]. unfold entry_of, entry_spec. cbn [fst snd].
  rewrite Hm. unfold last_desc, value_of. cbn [fst snd].
  assert (Hu : last_opt (descs (kd, kname k) pre) = None -> last_unit (kd, kname k) pre = None).
  { intros E. apply last_opt_none in E. unfold last_unit. rewrite E. reflexivity. }
  destruct kd.
  - rewrite Hc, R. simpl. destruct (last_opt (descs (Counter, kname k) pre)) as [[u d]|]; simpl; [reflexivity|].
    rewrite Hu; reflexivity.
  - rewrite Hg, R. simpl. destruct (last_opt (descs (Gauge, kname k) pre)) as [[u d]|]; simpl; [reflexivity|].
    rewrite Hu; reflexivity.
  - rewrite Hhs, R. simpl. destruct (last_opt (descs (Histogram, kname k) pre)) as [[u d]|]; simpl; [reflexivity|].
    rewrite Hu; reflexivity.
Qed.

Lemma step_snapshot pre s :
  Inv pre s ->
  Inv (pre ++ [ESnap]) (fst (step_rec s Snapshot)) /\ snd (step_rec s Snapshot) = Some (snap_spec pre).
Proof.
  intros I. pose proof I as [Hh Hs Hm Hc Hg Hhs Hwf].
  assert (Hd : distinct (seen s) = true) by (rewrite Hs; apply keep_first_distinct).
  destruct (snap_loop_spec (meta s) (ctrs s) (gags s) (seen s) (hsts s) Hd) as [L1 L2].
  cbn [step_rec]. destruct (snap_loop (meta s) (ctrs s) (gags s) (seen s) (hsts s)) as [hs es] eqn:SL.
  cbn [fst snd] in *. split.
  - constructor; cbn [seen meta ctrs gags hsts handles].
    + rewrite registered_snoc, app_nil_r. exact Hh.
    + rewrite listed_snoc, app_nil_r. exact Hs.
    + intros kn. unfold last_unit. rewrite descs_snoc, app_nil_r. apply Hm.
    + intros k0. rewrite reg_in_snoc, orb_false_r, upds_snoc, app_nil_r. apply Hc.
    + intros k0. rewrite reg_in_snoc, orb_false_r, upds_snoc, app_nil_r. apply Hg.
    + intros k0. rewrite reg_in_snoc, orb_false_r, since_last_snap_snoc. simpl.
      rewrite L2, Hs. unfold listed. rewrite existsb_listed. fold (reg_in (Histogram, k0) pre).
      rewrite Hhs. destruct (reg_in (Histogram, k0) pre); reflexivity.
    + intros t. rewrite reg_in_snoc, orb_false_r, upds_snoc, app_nil_r. apply Hwf.
  - f_equal. rewrite L1. unfold snap_spec. rewrite Hs.
    apply flat_map_singleton. intros t Hin. apply entry_of_spec; assumption.
Qed.

(* ---------------------------------------------------------------- one step, any operation *)
Lemma step_inv pre s o :
  Inv pre s ->
  let e := res1 (handles s) o in
  Inv (pre ++ [e]) (fst (step_rec s o)) /\
  snd (step_rec s o) = (if is_snap e then Some (snap_spec pre) else None) /\
  handles (fst (step_rec s o)) = acc1 (handles s) o.
Proof.
  intros I. destruct o as [k n u d|k key|h u|].
  - cbn [res1 is_snap]. split; [apply step_describe; exact I|]. split; reflexivity.
  - cbn [res1 is_snap]. split; [apply step_register; exact I|]. split; [reflexivity|].
    destruct k; reflexivity.
  - cbn [res1 step_rec acc1].
    destruct (nth_error (handles s) (N.to_nat h)) as [[kd key]|] eqn:E.
    + cbn [fst]. destruct (kind_eqb kd (ukind u)) eqn:K.
      * cbn [is_snap fst snd]. split; [|split; [reflexivity|destruct kd; reflexivity]].
        apply step_upd; auto.
        -- rewrite <- (I_handles _ _ I). eapply nth_error_In. exact E.
        -- apply kind_eqb_eq. exact K.
      * cbn [is_snap fst snd]. split; [apply step_nop; exact I|]. split; reflexivity.
    + cbn [is_snap fst snd]. split; [apply step_nop; exact I|]. split; reflexivity.
  - cbn [res1 is_snap]. destruct (step_snapshot pre s I) as [A B]. split; [exact A|]. split; [exact B|].
    cbn [step_rec]. destruct (snap_loop _ _ _ _ _). reflexivity.
Qed.

(* ---------------------------------------------------------------- whole histories, two recorders *)
Lemma filter_snoc {A} (p : A -> bool) l x : filter p (l ++ [x]) = filter p l ++ (if p x then [x] else []).
Proof. rewrite filter_app. reflexivity. Qed.

Lemma projev_snoc b pre b' e :
  projev b (pre ++ [(b', e)]) = projev b pre ++ (if Bool.eqb b' b then [e] else []).
Proof.
  unfold projev. rewrite filter_snoc, map_app. cbn [fst]. destruct (Bool.eqb b' b); reflexivity.
Qed.

Lemma run2_meets_spec : forall h s0 s1 pre,
  Inv (projev false pre) s0 -> Inv (projev true pre) s1 ->
  run2 s0 s1 h = spec2_from pre (resolve2 (handles s0) (handles s1) h).
Proof.
  induction h as [|[b o] h IH]; intros s0 s1 pre I0 I1; [reflexivity|].
  cbn [run2 resolve2 spec2_from].
  destruct b.
  - destruct (step_inv _ _ o I1) as [A [B C]].
    destruct (step_rec s1 o) as [s' x] eqn:S. cbn [fst snd] in *.
    assert (IHa : run2 s0 s' h = spec2_from (pre ++ [(true, res1 (handles s1) o)]) (resolve2 (handles s0) (acc1 (handles s1) o) h)).
    { rewrite <- C. apply IH.
      - rewrite projev_snoc. simpl. rewrite app_nil_r. exact I0.
      - rewrite projev_snoc. simpl. exact A. }
    rewrite B. destruct (is_snap (res1 (handles s1) o)); simpl; rewrite IHa; reflexivity.
  - destruct (step_inv _ _ o I0) as [A [B C]].
    destruct (step_rec s0 o) as [s' x] eqn:S. cbn [fst snd] in *.
    assert (IHa : run2 s' s1 h = spec2_from (pre ++ [(false, res1 (handles s0) o)]) (resolve2 (acc1 (handles s0) o) (handles s1) h)).
    { rewrite <- C. apply IH.
      - rewrite projev_snoc. simpl. exact A.
      - rewrite projev_snoc. simpl. rewrite app_nil_r. exact I1. }
    rewrite B. destruct (is_snap (res1 (handles s0) o)); simpl; rewrite IHa; reflexivity.
Qed.

Theorem model_meets_spec : forall h, run2 rinit rinit h = spec2 h.
Proof.
  intros h. unfold spec2. apply (run2_meets_spec h rinit rinit []); apply Inv_init.
Qed.
