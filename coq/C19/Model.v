(* C19 — DebuggingRecorder / Snapshotter of metrics-util/src/debugging.rs.

   Modelled statement by statement:
     describe_metric   (debugging.rs:159-166)  -> [describe]
     track_metric      (debugging.rs:168-171)  -> [track]      (IndexMap::insert keeps the first key)
     register_*        (debugging.rs:195-214)  -> [step_rec] Register: track, then get_or_create
     Snapshotter::snapshot (debugging.rs:96-136) -> [snap_loop] over a copy of `seen`, reading the
        counter / gauge atomics and draining histogram buckets with clear_with
   on top of these abstractions:
     * Registry<Key, AtomicStorage> = one association map per kind, keyed by the Key equality class
       (C06's abstraction); it never deletes here, so a handle returned by register_* designates
       the map entry of its key for ever ([handles] maps handle number -> (kind, key));
     * AtomicBucket = a bag (C05's abstraction): sequential push / clear_with; the model keeps the
       values in record order, the comparison with the implementation is up to permutation
       (clear_with visits blocks newest-first, so the real order differs across block boundaries);
     * atomics (metrics/src/atomics.rs): counter increment = fetch_add (wrapping, mod 2^64),
       absolute = fetch_max; gauge set / increment / decrement on an f64 whose values are integers
       of magnitude < 2^53 in all cases considered, hence [Z];
     * IndexMap `seen` = insertion-ordered list without duplicates up to key equality; IndexMap
       `metadata` = association list keyed by (kind, name);
     * Key equality `==` (metrics/src/key.rs): same name and the same labels up to order (label
       names distinct within a key: C03's hypothesis) = equality of [canon]; how the key was built
       ([kstyle]: owned / static / cloned ...) is ignored.
   Two recorder instances are two independent states ([run2]); which one an operation reaches is
   its tag (the thread it is issued on: the recorder installed locally on that thread).        *)
From Coq Require Import List NArith ZArith Bool.
Import ListNotations.
Open Scope N_scope.

Definition str := list N.

Fixpoint str_eqb (a b : str) : bool :=
  match a, b with
  | [], [] => true
  | x :: r, y :: r' => (x =? y) && str_eqb r r'
  | _, _ => false
  end.
(* lexicographic a <= b *)
Fixpoint str_leb (a b : str) : bool :=
  match a, b with
  | [], _ => true
  | _ :: _, [] => false
  | x :: r, y :: r' => if x <? y then true else if y <? x then false else str_leb r r'
  end.

Definition label := (str * str)%type.
Definition label_eqb (a b : label) : bool := str_eqb (fst a) (fst b) && str_eqb (snd a) (snd b).
Definition label_leb (a b : label) : bool :=
  if str_eqb (fst a) (fst b) then str_leb (snd a) (snd b) else str_leb (fst a) (fst b).
Fixpoint linsert (x : label) (l : list label) : list label :=
  match l with
  | [] => [x]
  | y :: r => if label_leb x y then x :: l else y :: linsert x r
  end.
Fixpoint lsort (l : list label) : list label :=
  match l with [] => [] | x :: r => linsert x (lsort r) end.
Fixpoint labels_eqb (a b : list label) : bool :=
  match a, b with
  | [], [] => true
  | x :: r, y :: r' => label_eqb x y && labels_eqb r r'
  | _, _ => false
  end.

Record key := { kname : str; klabels : list label; kstyle : N }.
Definition canon (k : key) : str * list label := (kname k, lsort (klabels k)).
Definition key_eqb (a b : key) : bool :=
  str_eqb (kname a) (kname b) && labels_eqb (lsort (klabels a)) (lsort (klabels b)).

Inductive kind := Counter | Gauge | Histogram.
Definition kind_eqb (a b : kind) : bool :=
  match a, b with Counter, Counter | Gauge, Gauge | Histogram, Histogram => true | _, _ => false end.

Definition target := (kind * key)%type.                  (* CompositeKey *)
Definition teqb (a b : target) : bool := kind_eqb (fst a) (fst b) && key_eqb (snd a) (snd b).
Definition kname_t := (kind * str)%type.                 (* CompositeKeyName *)
Definition kn_eqb (a b : kname_t) : bool := kind_eqb (fst a) (fst b) && str_eqb (snd a) (snd b).

(* ---- association lists (first match wins; [put] replaces the first match or appends) ---- *)
Section Assoc.
  Context {K V : Type} (eqb : K -> K -> bool).
  Fixpoint lookup (k : K) (m : list (K * V)) : option V :=
    match m with
    | [] => None
    | (k', v) :: r => if eqb k k' then Some v else lookup k r
    end.
  Fixpoint put (k : K) (v : V) (m : list (K * V)) : list (K * V) :=
    match m with
    | [] => [(k, v)]
    | (k', v') :: r => if eqb k k' then (k', v) :: r else (k', v') :: put k v r
    end.
  (* Registry::get_or_create_*: the existing storage, or a fresh one *)
  Definition get_or_create (k : K) (init : V) (m : list (K * V)) : list (K * V) :=
    match lookup k m with Some _ => m | None => put k init m end.
  (* an update through a handle: the storage exists (the registry never deletes) *)
  Definition modify (k : K) (f : V -> V) (m : list (K * V)) : list (K * V) :=
    match lookup k m with Some v => put k (f v) m | None => m end.
End Assoc.

(* ---- updates ---- *)
Inductive upd :=
| CInc (v : N) | CAbs (v : N)
| GSet (z : Z) | GInc (z : Z) | GDec (z : Z)
| HRec (z : Z).
Definition ukind (u : upd) : kind :=
  match u with CInc _ | CAbs _ => Counter | GSet _ | GInc _ | GDec _ => Gauge | HRec _ => Histogram end.

Definition two64 : N := 18446744073709551616.
(* AtomicU64 as CounterFn: fetch_add wraps, fetch_max *)
Definition capply (c : N) (u : upd) : N :=
  match u with CInc v => (c + v) mod two64 | CAbs v => N.max c v | _ => c end.
(* AtomicU64 as GaugeFn on integer-valued doubles *)
Definition gapply (g : Z) (u : upd) : Z :=
  match u with GSet z => z | GInc z => (g + z)%Z | GDec z => (g - z)%Z | _ => g end.
(* AtomicBucket::push *)
Definition happly (h : list Z) (u : upd) : list Z :=
  match u with HRec z => h ++ [z] | _ => h end.

Inductive op :=
| Describe (k : kind) (name : str) (unit : option N) (desc : str)
| Register (k : kind) (key : key)        (* returns handle number = count of earlier Registers *)
| Upd (h : N) (u : upd)                  (* through the handle returned by the h-th Register *)
| Snapshot.

Inductive value := VC (n : N) | VG (z : Z) | VH (l : list Z).
Record entry := { e_kind : kind; e_key : key; e_unit : option N; e_desc : option str; e_val : value }.

Record rst := {
  seen : list target;
  meta : list (kname_t * (option N * str));
  ctrs : list (key * N);
  gags : list (key * Z);
  hsts : list (key * list Z);
  handles : list target
}.
Definition rinit : rst := {| seen := []; meta := []; ctrs := []; gags := []; hsts := []; handles := [] |}.

(* describe_metric: entry(rkey).or_insert((None, desc)); unit overwritten only when given; desc always *)
Definition describe (kn : kname_t) (unit : option N) (desc : str) (m : list (kname_t * (option N * str))) :=
  let '(u0, _) := match lookup kn_eqb kn m with Some x => x | None => (None, desc) end in
  let u1 := match unit with Some _ => unit | None => u0 end in
  put kn_eqb kn (u1, desc) m.

(* track_metric: IndexMap::insert(ckey, ()) — an equal key already present keeps its slot and its
   original key object *)
Definition track (t : target) (l : list target) : list target :=
  if existsb (fun y => teqb t y) l then l else l ++ [t].

(* the snapshot loop over (a clone of) seen; only the histogram map changes (clear_with) *)
Fixpoint snap_loop (md : list (kname_t * (option N * str))) (cs : list (key * N)) (gs : list (key * Z))
         (l : list target) (hs : list (key * list Z)) : list (key * list Z) * list entry :=
  match l with
  | [] => (hs, [])
  | (kd, k) :: r =>
      let '(hs1, v) :=
        match kd with
        | Counter => (hs, option_map VC (lookup key_eqb k cs))
        | Gauge => (hs, option_map VG (lookup key_eqb k gs))
        | Histogram =>
            match lookup key_eqb k hs with
            | Some xs => (put key_eqb k [] hs, Some (VH xs))
            | None => (hs, None)
            end
        end in
      let '(unit, desc) :=
        match lookup kn_eqb (kd, kname k) md with
        | Some (u, d) => (u, Some d)
        | None => (None, None)
        end in
      let '(hs2, es) := snap_loop md cs gs r hs1 in
      (hs2, match v with
            | Some v => {| e_kind := kd; e_key := k; e_unit := unit; e_desc := desc; e_val := v |} :: es
            | None => es
            end)
  end.

Definition step_rec (s : rst) (o : op) : rst * option (list entry) :=
  match o with
  | Describe k name unit desc =>
      ({| seen := seen s; meta := describe (k, name) unit desc (meta s); ctrs := ctrs s; gags := gags s;
          hsts := hsts s; handles := handles s |}, None)
  | Register k key =>
      let sn := track (k, key) (seen s) in
      let hd := handles s ++ [(k, key)] in
      (match k with
       | Counter => {| seen := sn; meta := meta s; ctrs := get_or_create key_eqb key 0 (ctrs s); gags := gags s;
                       hsts := hsts s; handles := hd |}
       | Gauge => {| seen := sn; meta := meta s; ctrs := ctrs s; gags := get_or_create key_eqb key 0%Z (gags s);
                     hsts := hsts s; handles := hd |}
       | Histogram => {| seen := sn; meta := meta s; ctrs := ctrs s; gags := gags s;
                         hsts := get_or_create key_eqb key [] (hsts s); handles := hd |}
       end, None)
  | Upd h u =>
      (match nth_error (handles s) (N.to_nat h) with
       | Some (kd, key) =>
           if kind_eqb kd (ukind u) then
             match kd with
             | Counter => {| seen := seen s; meta := meta s; ctrs := modify key_eqb key (fun c => capply c u) (ctrs s);
                             gags := gags s; hsts := hsts s; handles := handles s |}
             | Gauge => {| seen := seen s; meta := meta s; ctrs := ctrs s;
                           gags := modify key_eqb key (fun g => gapply g u) (gags s); hsts := hsts s; handles := handles s |}
             | Histogram => {| seen := seen s; meta := meta s; ctrs := ctrs s; gags := gags s;
                               hsts := modify key_eqb key (fun h => happly h u) (hsts s); handles := handles s |}
             end
           else s
       | None => s
       end, None)
  | Snapshot =>
      let '(hs, es) := snap_loop (meta s) (ctrs s) (gags s) (seen s) (hsts s) in
      ({| seen := seen s; meta := meta s; ctrs := ctrs s; gags := gags s; hsts := hs; handles := handles s |}, Some es)
  end.

(* one recorder *)
Fixpoint run1 (s : rst) (h : list op) : list (list entry) :=
  match h with
  | [] => []
  | o :: r => let '(s', x) := step_rec s o in
              match x with Some es => es :: run1 s' r | None => run1 s' r end
  end.

(* two recorder instances; an operation tagged [b] is issued on the thread where recorder [b] is
   installed locally; a snapshot is tagged with the recorder it was taken from *)
Fixpoint run2 (s0 s1 : rst) (h : list (bool * op)) : list (bool * list entry) :=
  match h with
  | [] => []
  | (b, o) :: r =>
      let '(s', x) := step_rec (if b then s1 else s0) o in
      let s0' := if b then s0 else s' in
      let s1' := if b then s' else s1 in
      match x with Some es => (b, es) :: run2 s0' s1' r | None => run2 s0' s1' r end
  end.
