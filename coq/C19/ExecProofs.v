(* C19 — what the executable check [spec_ok] means, and that the model passes it for all cases. *)
From Coq Require Import List NArith ZArith Bool Lia Permutation.
Import ListNotations.
Require Import MV.C19.Model MV.C19.Spec MV.C19.Exec MV.C19.ProofsKey MV.C19.ProofsInv.
Open Scope N_scope.

Lemma remove1_perm z : forall l l', remove1 z l = Some l' -> Permutation l (z :: l').
Proof.
  induction l as [|y l IH]; intros l' H; simpl in H; [discriminate|].
  destruct (Z.eqb z y) eqn:E.
  - apply Z.eqb_eq in E. inversion H; subst. apply Permutation_refl.
  - destruct (remove1 z l) as [r|] eqn:R; [|discriminate]. simpl in H. inversion H; subst.
    eapply perm_trans; [apply perm_skip; apply IH; reflexivity | apply perm_swap].
Qed.

Lemma remove1_in z : forall l, In z l -> exists l', remove1 z l = Some l'.
Proof.
  induction l as [|y l IH]; intros H; [contradiction|]. simpl.
  destruct (Z.eqb z y) eqn:E; [eexists; reflexivity|].
  destruct H as [H|H]; [subst; rewrite Z.eqb_refl in E; discriminate|].
  destruct (IH H) as [l' ->]. eexists. reflexivity.
Qed.

Lemma bag_eqb_perm a : forall b, bag_eqb a b = true <-> Permutation a b.
Proof.
  induction a as [|x a IH]; intros b; simpl.
  - destruct b; split; intros H; auto; try discriminate.
    apply Permutation_nil in H. discriminate.
  - split; intros H.
    + destruct (remove1 x b) as [b'|] eqn:R; [|discriminate].
      apply IH in H. apply remove1_perm in R.
      eapply perm_trans; [apply perm_skip; exact H | apply Permutation_sym; exact R].
    + assert (Hin : In x b) by (eapply Permutation_in; [exact H | left; reflexivity]).
      destruct (remove1_in x b Hin) as [b' R]. rewrite R. apply IH.
      apply remove1_perm in R. eapply Permutation_cons_inv. eapply perm_trans; [exact H | exact R].
Qed.

Lemma value_eqb_iff a b : value_eqb a b = true <-> value_equiv a b.
Proof.
  destruct a, b; simpl; try (split; [discriminate | contradiction]).
  - apply N.eqb_eq.
  - apply Z.eqb_eq.
  - apply bag_eqb_perm.
Qed.

Lemma optN_eqb_iff a b : optN_eqb a b = true <-> a = b.
Proof.
  destruct a, b; simpl; split; intros H; try discriminate; auto.
  - apply N.eqb_eq in H. congruence.
  - inversion H. apply N.eqb_refl.
Qed.
Lemma optstr_eqb_iff a b : optstr_eqb a b = true <-> a = b.
Proof.
  destruct a, b; simpl; split; intros H; try discriminate; auto.
  - apply str_eqb_eq in H. congruence.
  - inversion H. apply str_eqb_eq. reflexivity.
Qed.

Lemma entry_eqb_iff a b : entry_eqb a b = true <-> entry_equiv a b.
Proof.
  unfold entry_eqb, entry_equiv.
  rewrite !andb_true_iff, kind_eqb_eq, str_eqb_eq, labels_eqb_eq, optN_eqb_iff, optstr_eqb_iff, value_eqb_iff.
  tauto.
Qed.

Lemma entries_eqb_iff a : forall b, entries_eqb a b = true <-> Forall2 entry_equiv a b.
Proof.
  induction a as [|x a IH]; intros [|y b]; simpl; split; intros H; try discriminate; auto; try (inversion H; fail).
  - apply andb_prop in H as [H1 H2]. constructor; [apply entry_eqb_iff; exact H1 | apply IH; exact H2].
  - inversion H; subst. apply andb_true_intro. split; [apply entry_eqb_iff | apply IH]; assumption.
Qed.

Lemma out_eqb_iff a : forall b, out_eqb a b = true <-> out_equiv a b.
Proof.
  unfold out_equiv.
  induction a as [|[x es] a IH]; intros [|[y es'] b]; simpl; split; intros H; try discriminate; auto; try (inversion H; fail).
  - apply andb_prop in H as [H1 H3]. apply andb_prop in H1 as [H1 H2].
    constructor; [split; simpl; [apply eqb_prop; exact H1 | apply entries_eqb_iff; exact H2] | apply IH; exact H3].
  - inversion H as [|? ? ? ? [E1 E2] E3]; subst. simpl in E1, E2. subst.
    rewrite eqb_reflx. simpl. apply andb_true_intro. split; [apply entries_eqb_iff; exact E2 | apply IH; exact E3].
Qed.

Lemma value_equiv_refl v : value_equiv v v.
Proof. destruct v; simpl; auto. Qed.
Lemma entry_equiv_refl e : entry_equiv e e.
Proof. unfold entry_equiv. repeat split; auto. apply value_equiv_refl. Qed.
Lemma out_equiv_refl o : out_equiv o o.
Proof.
  unfold out_equiv. induction o as [|[b es] o IH]; constructor; auto.
  split; auto. simpl. induction es; constructor; auto. apply entry_equiv_refl.
Qed.

(* the executable check used on implementation outputs is "observationally equal to the specified
   snapshots" *)
Lemma spec_ok_iff c o : spec_ok c o = true <-> out_equiv (spec2 c) o.
Proof. unfold spec_ok. apply out_eqb_iff. Qed.

Theorem spec_ok_on_model c : spec_ok c (run_case c) = true.
Proof. apply spec_ok_iff. unfold run_case. rewrite model_meets_spec. apply out_equiv_refl. Qed.
