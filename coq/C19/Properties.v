(* C19 — property theorems (statements only; proofs are in Proofs*.v / ExecProofs.v).

   Reading guide.  [run2 rinit rinit h] is the model of two DebuggingRecorder instances executing
   the history [h] (Model.v); [spec2 h] / [snap_spec pre] are the declarative functions of the
   history of Spec.v ([pre] = the events that preceded a snapshot on its own recorder, handles
   resolved to the (kind, key) they were returned for).  Theorem 1 ties the two for every history;
   theorems 4-13 state the clauses of the property about those functions.  Histogram values are
   kept in record order in the model, so the equalities below are stronger than the "same values
   up to order" which is what the comparison with the implementation uses ([out_equiv]).         *)
From Coq Require Import List NArith ZArith Bool Permutation.
Import ListNotations.
Require Import MV.C19.Model MV.C19.Spec MV.C19.Exec MV.C19.ProofsKey MV.C19.ProofsSpec MV.C19.ProofsInv
               MV.C19.ProofsClauses MV.C19.ExecProofs.
Require Import MV.Common.Interleave MV.C19.ConcModel MV.C19.ConcLog MV.C19.ConcInv MV.C19.ConcStep MV.C19.ConcProofs.
Open Scope N_scope.

Theorem C19_model_meets_spec : forall h, run2 rinit rinit h = spec2 h.
Proof. exact model_meets_spec. Qed.

Theorem C19_spec_ok_on_model : forall c, spec_ok c (run_case c) = true.
Proof. exact spec_ok_on_model. Qed.

Theorem C19_spec_ok_iff : forall c o, spec_ok c o = true <-> out_equiv (spec2 c) o.
Proof. exact spec_ok_iff. Qed.

(* every snapshot in the output of a history is [snap_spec] of the events that preceded it on the
   recorder it was taken from *)
Theorem C19_snapshots_are_functions_of_own_past : forall h b es,
  In (b, es) (run2 rinit rinit h) ->
  exists h1 h2, resolve2 [] [] h = h1 ++ (b, ESnap) :: h2 /\ es = snap_spec (projev b h1).
Proof. exact snapshots_are_functions_of_own_past. Qed.

(* the entries of a snapshot are, in order, the [listed] metrics; every registered (kind, key) is
   listed up to key equality; only registered ones are; no two listed ones are equal; and the
   listing only ever grows at its end, by the key object of a registration that equals no
   earlier registration (so: first-registration order, first registration's key object) *)
Theorem C19_lists_exactly_registered_in_first_registration_order : forall pre,
  map etarget (snap_spec pre) = listed pre /\
  (forall t, In t (registered pre) -> exists t', In t' (listed pre) /\ teqb t t' = true) /\
  (forall t, In t (listed pre) -> In t (registered pre)) /\
  ForallOrdPairs (fun a b => teqb a b = false) (listed pre) /\
  (forall e, listed (pre ++ [e])
             = listed pre ++ match e with
                             | EReg t => if existsb (fun y => teqb t y) (registered pre) then [] else [t]
                             | _ => []
                             end).
Proof.
  intros pre. split; [apply snap_spec_targets|]. split; [apply listed_complete|].
  split; [apply listed_sound|]. split; [apply listed_distinct|]. intros e. apply listed_snoc_full.
Qed.

Theorem C19_described_only_absent : forall pre e,
  In e (snap_spec pre) -> In (etarget e) (registered pre).
Proof. exact described_only_absent. Qed.

Theorem C19_equal_keys_one_entry : forall pre t t',
  In t (registered pre) -> teqb t' t = true -> listed (pre ++ [EReg t']) = listed pre.
Proof. exact equal_keys_one_entry. Qed.

Theorem C19_key_equality_ignores_construction : forall kd n ls s1 s2,
  teqb (kd, {| kname := n; klabels := ls; kstyle := s1 |}) (kd, {| kname := n; klabels := ls; kstyle := s2 |}) = true.
Proof. exact teqb_style. Qed.

(* counter = fold from 0 of the increments (mod 2^64) / absolutes (max) addressed to the metric's
   class, gauge = fold of set/increment/decrement, histogram = values recorded since the previous
   snapshot: [value_of] *)
Theorem C19_values_current : forall pre e,
  In e (snap_spec pre) ->
  e_val e = match e_kind e with
            | Counter => VC (fold_left capply (upds (etarget e) pre) 0)
            | Gauge => VG (fold_left gapply (upds (etarget e) pre) 0%Z)
            | Histogram => VH (recorded (etarget e) (since_last_snap pre))
            end.
Proof. intros pre e H. destruct (snap_spec_entry pre e H) as [V _]. exact V. Qed.

(* over a whole history, the values a histogram showed in its successive snapshots, followed by
   those still pending, are exactly the values recorded into it, each once, in order *)
Theorem C19_histogram_values_exactly_once : forall t evs,
  concat (hist_snaps_from t [] evs) ++ recorded t (since_last_snap evs) = recorded t evs.
Proof. exact hist_exactly_once. Qed.

(* ... and a snapshot shows exactly what was recorded after the snapshot before it *)
Theorem C19_histogram_values_in_next_snapshot : forall t pre mid,
  existsb is_snap mid = false ->
  recorded t (since_last_snap (pre ++ ESnap :: mid)) = recorded t mid /\
  recorded t (since_last_snap mid) = recorded t mid.
Proof.
  intros t pre mid H. rewrite since_last_snap_after, since_last_snap_first by exact H. auto.
Qed.

Theorem C19_registered_metric_has_entry : forall pre t,
  In t (registered pre) -> exists e, In e (snap_spec pre) /\ teqb t (etarget e) = true.
Proof. exact registered_listed_entry. Qed.

(* unit and description shown are [last_unit] / [last_desc] of the entry's (kind, name); these
   are characterised by: nothing before any describe; a describe sets the description; it sets
   the unit only when it gives one; no other event (other kind or name included) changes them *)
Theorem C19_metadata_latest_unit_sticky : forall pre kn,
  (forall e, In e (snap_spec pre) ->
     e_unit e = last_unit (e_kind e, kname (e_key e)) pre /\
     e_desc e = last_desc (e_kind e, kname (e_key e)) pre) /\
  last_unit kn [] = None /\ last_desc kn [] = None /\
  (forall x d, last_unit kn (pre ++ [EDesc kn (Some x) d]) = Some x) /\
  (forall d, last_unit kn (pre ++ [EDesc kn None d]) = last_unit kn pre) /\
  (forall u d, last_desc kn (pre ++ [EDesc kn u d]) = Some d) /\
  (forall e, (forall u d, e <> EDesc kn u d) ->
     last_unit kn (pre ++ [e]) = last_unit kn pre /\ last_desc kn (pre ++ [e]) = last_desc kn pre).
Proof.
  intros pre kn. split.
  { intros e H. destruct (snap_spec_entry pre e H) as [_ [U D]]. auto. }
  split; [reflexivity|]. split; [reflexivity|].
  split; [intros; apply last_unit_given|]. split; [intros; apply last_unit_sticky|].
  split; [intros; apply last_desc_latest|]. intros e H. apply metadata_other. exact H.
Qed.

(* the snapshots of recorder b in a two-recorder history are those of a lone recorder executing
   only the operations issued to b *)
Theorem C19_isolated_per_recorder : forall b h,
  proj b (run2 rinit rinit h) = run1 rinit (proj b h).
Proof. exact isolated_per_recorder. Qed.

(* a concrete non-trivial history: same name across kinds, an equal key built differently with
   permuted labels, describe before / after / without registration, unit kept by a later
   describe without unit, histogram drained once, second recorder untouched *)
Definition ex_key (s : N) (ls : list label) : key := {| kname := [97]; klabels := ls; kstyle := s |}.
Definition ex_history : list (bool * op) :=
  [ (false, Describe Counter [97] (Some 2) [100]);
    (false, Describe Gauge [98] (Some 1) [101]);
    (false, Register Histogram (ex_key 0 []));
    (false, Register Counter (ex_key 0 [([107], [118]); ([108], [119])]));
    (false, Register Counter (ex_key 1 [([108], [119]); ([107], [118])]));
    (false, Upd 1 (CInc 5)); (false, Upd 2 (CInc 18446744073709551615)); (false, Upd 2 (CAbs 3));
    (false, Upd 0 (HRec 7)); (false, Upd 0 (HRec (-2)%Z));
    (false, Snapshot);
    (false, Describe Counter [97] None [102]);
    (false, Upd 0 (HRec 9));
    (false, Snapshot); (true, Snapshot) ].
Theorem C19_example : run_case ex_history =
  [ (false, [ {| e_kind := Histogram; e_key := ex_key 0 []; e_unit := None; e_desc := None; e_val := VH [7; -2]%Z |};
              {| e_kind := Counter; e_key := ex_key 0 [([107], [118]); ([108], [119])]; e_unit := Some 2;
                 e_desc := Some [100]; e_val := VC 4 |} ]);
    (false, [ {| e_kind := Histogram; e_key := ex_key 0 []; e_unit := None; e_desc := None; e_val := VH [9]%Z |};
              {| e_kind := Counter; e_key := ex_key 0 [([107], [118]); ([108], [119])]; e_unit := Some 2;
                 e_desc := Some [102]; e_val := VC 4 |} ]);
    (true, []) ].
Proof. vm_compute. reflexivity. Qed.

(* ------------------------------------------------------------------------------------------------
   Concurrent use: the interleaving model of ConcModel.v (threads of Register / Upd / Snapshot
   operations on one recorder; atomic steps: track, get_or_create, one update, collect handles,
   clone seen, one load / drain per visited key, return).  [final ps sched] is the configuration
   reached from the empty recorder by the threads running the programs [ps] under the schedule
   [sched]; the theorems hold for EVERY schedule, any number of threads and operations.  [slog] is
   the history of the steps performed.  Assumed, not proved here: C06 (one storage per (kind, key),
   get_or_create atomic) and C05 (push / clear_with atomic, outside its open late-claim class).    *)

(* (a) per histogram: the lists shown by its successive drains, then what is still in the bucket, are
   exactly the values whose record step happened, each once, in step order *)
Theorem C19_conc_conservation : forall ps sched t, fst t = Histogram ->
  let s := fst (final ps sched) in
  concat (ldrained t (slog s)) ++ resident t (sreg s) = lrecorded t (slog s).
Proof. exact conc_conservation. Qed.

Theorem C19_conc_no_invention_no_duplicate : forall ps sched t z, fst t = Histogram ->
  let s := fst (final ps sched) in
  (count_occ Z.eq_dec (concat (ldrained t (slog s))) z + count_occ Z.eq_dec (resident t (sreg s)) z
   = count_occ Z.eq_dec (lrecorded t (slog s)) z)%nat.
Proof. exact conc_no_invention_no_duplicate. Qed.

(* (b) a drain shows the values recorded before it and after the previous drain of that key *)
Theorem C19_conc_drain_shows_since_previous : forall ps sched l1 t vs l2,
  slog (fst (final ps sched)) = l1 ++ LDrain t vs :: l2 ->
  fst t = Histogram /\ vs = lrecorded t (since_last_drain t l1).
Proof. exact conc_drain_shows_since_previous. Qed.

(* (c) a counter / gauge reading is the fold of the updates whose step preceded the load *)
Theorem C19_conc_load_is_fold : forall ps sched l1 t v l2,
  slog (fst (final ps sched)) = l1 ++ LLoad t v :: l2 ->
  fst t <> Histogram /\
  v = match fst t with
      | Counter => VC (fold_left capply (lupds t l1) 0)
      | Gauge => VG (fold_left gapply (lupds t l1) 0%Z)
      | Histogram => v
      end.
Proof. exact conc_load_is_fold. Qed.

(* every entry of every finished snapshot is the value of one load / drain step of the history *)
Theorem C19_conc_entries_are_steps : forall ps sched l r e,
  In l (snd (final ps sched)) -> In r (outs l) -> In e (sr_out r) ->
  entry_logged (slog (fst (final ps sched))) e.
Proof. exact conc_entries_are_steps. Qed.

(* (d) a finished snapshot [r] ([sr_lp r] = the history at its first step): every key whose
   get_or_create step precedes the snapshot's first step is listed; no two entries are equal keys;
   the entries are in first-registration order (a subsequence of keep_first of the track steps) *)
Theorem C19_conc_listing : forall ps sched l r,
  In l (snd (final ps sched)) -> In r (outs l) ->
  let s := fst (final ps sched) in
  Prefix (sr_lp r) (slog s) /\
  (forall t, In (LGoc t) (sr_lp r) -> existsb (fun y => teqb t y) (map fst (sr_out r)) = true) /\
  ForallOrdPairs (fun a b => teqb a b = false) (map fst (sr_out r)) /\
  Subseq (map fst (sr_out r)) (keep_first [] (tracked (slog s))).
Proof. exact conc_listing. Qed.

Theorem C19_conc_seen_is_first_registration_order : forall ps sched,
  sseen (fst (final ps sched)) = keep_first [] (tracked (slog (fst (final ps sched)))).
Proof. exact conc_seen_is_first_registration_order. Qed.

(* a racing schedule evaluated: two threads first-register the same histogram key (one tracks first,
   the other creates the storage first), records race the first snapshot's collect / clone / drain, a
   counter is tracked before but created after the second snapshot collected the handles (skipped) *)
Theorem C19_conc_example :
  map sr_out (outs (nth 2 (snd (final ex_progs ex_sched)) (init_local [])))
  = [ [(exk_h 0, VH [1; 3; 2]%Z)]; [(exk_h 0, VH [4]%Z)] ] /\
  sreg (fst (final ex_progs ex_sched)) = [(exk_h 1, SH []); (exk_c, SC 5)] /\
  sseen (fst (final ex_progs ex_sched)) = [exk_h 0; exk_c].
Proof. exact conc_example. Qed.
