(* C19 — the property as declarative functions of the HISTORY (no maps, no recorder state).

   A history of operations is first turned into events by resolving every handle to the
   (kind, key) of the Register call that returned it ([resolve2]).  Everything a snapshot shows is
   then a function of the events that preceded it ON THE SAME RECORDER ([projev]):

     listed      : the registered (kind, key), each equality class once, represented by and in the
                   order of its FIRST registration ([keep_first]: a registration is listed iff no
                   earlier registration is equal to it);
     counter     : the fold, from 0, of the increments (wrapping) / absolutes (max) addressed to it;
     gauge       : the fold, from 0, of the set / increment / decrement addressed to it;
     histogram   : the values recorded into it since the previous snapshot;
     description : that of the most recent describe of its (kind, name), None if never described;
     unit        : the most recent unit GIVEN by a describe of its (kind, name).
   Metrics that were only described never appear, by construction.                                *)
From Coq Require Import List NArith ZArith Bool.
Import ListNotations.
Require Import MV.C19.Model.
Open Scope N_scope.

Inductive ev :=
| EDesc (kn : kname_t) (unit : option N) (desc : str)
| EReg (t : target)
| EUpd (t : target) (u : upd)
| ESnap
| ENop.                                   (* an update through a handle that does not exist (yet) *)

Definition res1 (acc : list target) (o : op) : ev :=
  match o with
  | Describe k n u d => EDesc (k, n) u d
  | Register k key => EReg (k, key)
  | Upd i u => match nth_error acc (N.to_nat i) with
               | Some t => if kind_eqb (fst t) (ukind u) then EUpd t u else ENop
               | None => ENop
               end
  | Snapshot => ESnap
  end.
Definition acc1 (acc : list target) (o : op) : list target :=
  match o with Register k key => acc ++ [(k, key)] | _ => acc end.

(* acc0/acc1: the targets of the Register calls made so far on recorder 0 / 1 *)
Fixpoint resolve2 (a0 a1 : list target) (h : list (bool * op)) : list (bool * ev) :=
  match h with
  | [] => []
  | (b, o) :: r =>
      (b, res1 (if b then a1 else a0) o)
        :: resolve2 (if b then a0 else acc1 a0 o) (if b then acc1 a1 o else a1) r
  end.

Definition projev (b : bool) (l : list (bool * ev)) : list ev :=
  map snd (filter (fun x => Bool.eqb (fst x) b) l).

(* ---- per-metric functions of the past events of one recorder ---- *)
Definition registered (pre : list ev) : list target :=
  flat_map (fun e => match e with EReg t => [t] | _ => [] end) pre.

Fixpoint keep_first (earlier l : list target) : list target :=
  match l with
  | [] => []
  | x :: r => if existsb (fun y => teqb x y) earlier
              then keep_first (earlier ++ [x]) r
              else x :: keep_first (earlier ++ [x]) r
  end.
Definition listed (pre : list ev) : list target := keep_first [] (registered pre).

Definition upds (t : target) (pre : list ev) : list upd :=
  flat_map (fun e => match e with EUpd t' u => if teqb t' t then [u] else [] | _ => [] end) pre.

Definition is_snap (e : ev) : bool := match e with ESnap => true | _ => false end.
Fixpoint take_until_snap (l : list ev) : list ev :=
  match l with [] => [] | e :: r => if is_snap e then [] else e :: take_until_snap r end.
Definition since_last_snap (pre : list ev) : list ev := rev (take_until_snap (rev pre)).

Definition recorded (t : target) (l : list ev) : list Z :=
  flat_map (fun u => match u with HRec z => [z] | _ => [] end) (upds t l).

Definition value_of (t : target) (pre : list ev) : value :=
  match fst t with
  | Counter => VC (fold_left capply (upds t pre) 0)
  | Gauge => VG (fold_left gapply (upds t pre) 0%Z)
  | Histogram => VH (recorded t (since_last_snap pre))
  end.

Definition descs (kn : kname_t) (pre : list ev) : list (option N * str) :=
  flat_map (fun e => match e with EDesc kn' u d => if kn_eqb kn' kn then [(u, d)] else [] | _ => [] end) pre.
Definition last_opt {A} (l : list A) : option A := match rev l with x :: _ => Some x | [] => None end.
Definition given_units (l : list (option N * str)) : list N :=
  flat_map (fun x => match fst x with Some u => [u] | None => [] end) l.
Definition last_desc (kn : kname_t) (pre : list ev) : option str := option_map snd (last_opt (descs kn pre)).
Definition last_unit (kn : kname_t) (pre : list ev) : option N := last_opt (given_units (descs kn pre)).

Definition entry_spec (pre : list ev) (t : target) : entry :=
  let kn := (fst t, kname (snd t)) in
  {| e_kind := fst t; e_key := snd t; e_unit := last_unit kn pre; e_desc := last_desc kn pre;
     e_val := value_of t pre |}.

(* what a snapshot taken after the events [pre] of its recorder must be *)
Definition snap_spec (pre : list ev) : list entry := map (entry_spec pre) (listed pre).

(* the specified snapshots of a (resolved) two-recorder history *)
Fixpoint spec2_from (pre h : list (bool * ev)) : list (bool * list entry) :=
  match h with
  | [] => []
  | (b, e) :: r =>
      (if is_snap e then [(b, snap_spec (projev b pre))] else []) ++ spec2_from (pre ++ [(b, e)]) r
  end.
Definition spec2 (h : list (bool * op)) : list (bool * list entry) := spec2_from [] (resolve2 [] [] h).

(* ---- vocabulary of the clause theorems ---- *)
(* the (kind, key) an entry is about *)
Definition etarget (e : entry) : target := (e_kind e, e_key e).

(* the values a histogram [t] shows in each successive snapshot of the events [evs] (after [pre]) *)
Fixpoint hist_snaps_from (t : target) (pre evs : list ev) : list (list Z) :=
  match evs with
  | [] => []
  | e :: r => (if is_snap e then [recorded t (since_last_snap pre)] else []) ++ hist_snaps_from t (pre ++ [e]) r
  end.

(* the part of a two-recorder history / output that belongs to recorder [b] *)
Definition proj {A} (b : bool) (l : list (bool * A)) : list A :=
  map snd (filter (fun x => Bool.eqb (fst x) b) l).

