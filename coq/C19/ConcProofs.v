(* C19 — the clauses of the property for EVERY schedule of the interleaving model, read off the
   invariant of ConcInv.v / ConcStep.v. *)
From Coq Require Import List NArith ZArith Bool Lia.
Import ListNotations.
Require Import MV.Common.Interleave.
Require Import MV.C19.Model MV.C19.Spec MV.C19.ProofsKey MV.C19.ProofsSpec MV.C19.ProofsInv MV.C19.ProofsClauses
               MV.C19.ConcModel MV.C19.ConcLog MV.C19.ConcInv MV.C19.ConcStep.
Open Scope N_scope.


(* (a) conservation: per histogram, the lists shown by its successive drains, followed by what is
   still in the bucket, are exactly the values whose record step happened, in step order *)
Lemma conc_conservation ps sched t : fst t = Histogram ->
  let s := fst (final ps sched) in
  concat (ldrained t (slog s)) ++ resident t (sreg s) = lrecorded t (slog s).
Proof.
  intros K s. destruct (cinv_all_schedules ps sched) as [G _]. fold (final ps sched) in G. fold s in G.
  rewrite <- (wf_conservation t (slog s) (G_wf s G)). f_equal.
  unfold resident. destruct (lookup teqb t (sreg s)) as [st|] eqn:L.
  - rewrite (G_val s G t st L). unfold stor_of. rewrite K. reflexivity.
  - symmetry. apply lupds_nil_pending. apply (G_none s G). exact L.
Qed.

Lemma conc_no_invention_no_duplicate ps sched t z : fst t = Histogram ->
  let s := fst (final ps sched) in
  (count_occ Z.eq_dec (concat (ldrained t (slog s))) z + count_occ Z.eq_dec (resident t (sreg s)) z
   = count_occ Z.eq_dec (lrecorded t (slog s)) z)%nat.
Proof.
  intros K s. pose proof (conc_conservation ps sched t K) as H. cbv zeta in H. fold s in H.
  rewrite <- H, count_occ_app. reflexivity.
Qed.

(* (b) what a drain shows was recorded before it and after the previous drain of that key *)
Lemma conc_drain_shows_since_previous ps sched l1 t vs l2 :
  slog (fst (final ps sched)) = l1 ++ LDrain t vs :: l2 ->
  fst t = Histogram /\ vs = lrecorded t (since_last_drain t l1).
Proof.
  intros H. destruct (cinv_all_schedules ps sched) as [G _]. fold (final ps sched) in G.
  pose proof (G_wf _ G) as W. rewrite H in W. apply wf_from_at in W. exact W.
Qed.

(* (c) a counter / gauge reading is the fold of the updates whose step preceded the load *)
Lemma conc_load_is_fold ps sched l1 t v l2 :
  slog (fst (final ps sched)) = l1 ++ LLoad t v :: l2 ->
  fst t <> Histogram /\
  v = match fst t with
      | Counter => VC (fold_left capply (lupds t l1) 0)
      | Gauge => VG (fold_left gapply (lupds t l1) 0%Z)
      | Histogram => v
      end.
Proof.
  intros H. destruct (cinv_all_schedules ps sched) as [G _]. fold (final ps sched) in G.
  pose proof (G_wf _ G) as W. rewrite H in W. apply wf_from_at in W. simpl in W. destruct W as [W1 W2].
  split; [exact W1|]. unfold lvalue in W2. destruct (fst t); auto.
Qed.

(* every entry of every finished snapshot is the value of a load / drain step of the history *)
Lemma conc_entries_are_steps ps sched l r e :
  In l (snd (final ps sched)) -> In r (outs l) -> In e (sr_out r) ->
  entry_logged (slog (fst (final ps sched))) e.
Proof.
  intros Hl Hr He. destruct (cinv_all_schedules ps sched) as [_ Ts]. fold (final ps sched) in Ts.
  rewrite Forall_forall in Ts. destruct (Ts l Hl) as (_ & T2 & _).
  rewrite Forall_forall in T2. destruct (T2 r Hr) as (_ & _ & _ & _ & _ & F).
  rewrite Forall_forall in F. apply F. exact He.
Qed.

(* (d) listing *)
Lemma distinct_app_l : forall a b, distinct (a ++ b) = true -> distinct a = true.
Proof.
  induction a as [|x a IH]; intros b H; simpl in *; auto.
  apply andb_prop in H as [H1 H2]. rewrite existsb_app in H1. apply negb_true_iff in H1.
  apply orb_false_elim in H1 as [H1 _]. rewrite H1. simpl. eapply IH. exact H2.
Qed.

Lemma existsb_filter_le {A} (p q : A -> bool) l : existsb p (filter q l) = true -> existsb p l = true.
Proof.
  induction l as [|x l IH]; simpl; auto. destruct (q x); simpl; intros H.
  - apply orb_prop in H as [H|H]; [rewrite H; reflexivity|rewrite (IH H); apply orb_true_r].
  - rewrite (IH H). apply orb_true_r.
Qed.

Lemma distinct_filter (q : target -> bool) : forall l, distinct l = true -> distinct (filter q l) = true.
Proof.
  induction l as [|x l IH]; intros H; simpl in *; auto.
  apply andb_prop in H as [H1 H2]. destruct (q x); simpl; [|auto].
  rewrite (IH H2), andb_true_r. apply negb_true_iff. apply negb_true_iff in H1.
  destruct (existsb (fun y => teqb x y) (filter q l)) eqn:E; auto.
  apply existsb_filter_le in E. congruence.
Qed.

Lemma conc_listing ps sched l r :
  In l (snd (final ps sched)) -> In r (outs l) ->
  let s := fst (final ps sched) in
  Prefix (sr_lp r) (slog s) /\
  (forall t, In (LGoc t) (sr_lp r) -> existsb (fun y => teqb t y) (map fst (sr_out r)) = true) /\
  ForallOrdPairs (fun a b => teqb a b = false) (map fst (sr_out r)) /\
  Subseq (map fst (sr_out r)) (keep_first [] (tracked (slog s))).
Proof.
  intros Hl Hr s. destruct (cinv_all_schedules ps sched) as [G Ts]. fold (final ps sched) in G, Ts. fold s in G, Ts.
  rewrite Forall_forall in Ts. destruct (Ts l Hl) as (_ & T2 & _).
  rewrite Forall_forall in T2. destruct (T2 r Hr) as (R1 & R2 & R3 & R4 & R5 & _).
  pose proof (G_seen s G) as Hs.
  split; [exact R1|]. split; [|split].
  - intros t H. pose proof (R4 t H) as IC. pose proof (R5 t IC) as EV.
    apply existsb_exists in EV as [y [Hy Ty]]. rewrite R3. apply existsb_exists. exists y. split; [|exact Ty].
    apply filter_In. split; [exact Hy|]. unfold in_coll in *. rewrite <- (existsb_teqb_congr t y _ Ty). exact IC.
  - apply distinct_pairs. rewrite R3. apply distinct_filter.
    destruct R2 as [rest E]. apply (distinct_app_l _ rest). rewrite <- E, Hs. apply keep_first_distinct.
  - rewrite R3, <- Hs. eapply Subseq_trans; [apply Subseq_filter|apply Prefix_Subseq; exact R2].
Qed.

(* the shared `seen` list is, at any time, the first-registration order of the track steps *)
Lemma conc_seen_is_first_registration_order ps sched :
  sseen (fst (final ps sched)) = keep_first [] (tracked (slog (fst (final ps sched)))).
Proof. destruct (cinv_all_schedules ps sched) as [G _]. apply (G_seen _ G). Qed.

(* ---- a racing schedule, evaluated ----
   T0 and T1 both perform the first registration of the same histogram key (built differently): T0
   tracks first, T1 creates the storage first; three records race the first snapshot's collect /
   clone / drain (all three are shown by it, in step order), a fourth lands after the drain (shown by
   the second snapshot); T0's counter is tracked before but created after the second snapshot
   collected the handles, so that snapshot skips it.                                             *)
Definition exk_h (s : N) : target := (Histogram, {| kname := [104]; klabels := []; kstyle := s |}).
Definition exk_c : target := (Counter, {| kname := [99]; klabels := []; kstyle := 0 |}).
Definition ex_progs : list (list cop) :=
  [ [ORegister (exk_h 0); OUpd 0 (HRec 1); OUpd 0 (HRec 2); ORegister exk_c; OUpd 1 (CInc 5)];
    [ORegister (exk_h 1); OUpd 0 (HRec 3); OUpd 0 (HRec 4)];
    [OSnapshot; OSnapshot] ].
Definition ex_sched : list nat := [0;1;1;0;0;2;1;2;0;2;1;2;0;2;0;0;2;2;2;2]%nat.

Lemma conc_example :
  map sr_out (outs (nth 2 (snd (final ex_progs ex_sched)) (init_local [])))
  = [ [(exk_h 0, VH [1; 3; 2]%Z)]; [(exk_h 0, VH [4]%Z)] ] /\
  sreg (fst (final ex_progs ex_sched)) = [(exk_h 1, SH []); (exk_c, SC 5)] /\
  sseen (fst (final ex_progs ex_sched)) = [exk_h 0; exk_c].
Proof. vm_compute. repeat split. Qed.
