(* C19 — how the declarative functions of Spec.v evolve when one event is appended to the past. *)
From Coq Require Import List NArith ZArith Bool Lia.
Import ListNotations.
Require Import MV.C19.Model MV.C19.Spec MV.C19.ProofsKey.
Open Scope N_scope.

Lemma flat_map_snoc {A B} (f : A -> list B) l x : flat_map f (l ++ [x]) = flat_map f l ++ f x.
Proof. rewrite flat_map_app. simpl. rewrite app_nil_r. reflexivity. Qed.

Lemma registered_snoc pre e :
  registered (pre ++ [e]) = registered pre ++ match e with EReg t => [t] | _ => [] end.
Proof. unfold registered. apply flat_map_snoc. Qed.

Lemma upds_snoc t pre e :
  upds t (pre ++ [e]) = upds t pre ++ match e with EUpd t' u => if teqb t' t then [u] else [] | _ => [] end.
Proof. unfold upds. apply flat_map_snoc. Qed.

Lemma upds_app t a b : upds t (a ++ b) = upds t a ++ upds t b.
Proof. unfold upds. apply flat_map_app. Qed.

Lemma descs_snoc kn pre e :
  descs kn (pre ++ [e]) = descs kn pre ++ match e with EDesc kn' u d => if kn_eqb kn' kn then [(u, d)] else [] | _ => [] end.
Proof. unfold descs. apply flat_map_snoc. Qed.

Lemma since_last_snap_snoc pre e :
  since_last_snap (pre ++ [e]) = if is_snap e then [] else since_last_snap pre ++ [e].
Proof.
  unfold since_last_snap. rewrite rev_unit. simpl. destruct (is_snap e); reflexivity.
Qed.

Lemma take_until_snap_prefix l : exists q, l = take_until_snap l ++ q.
Proof.
  induction l as [|e l [q IH]]; simpl.
  - exists []. reflexivity.
  - destruct (is_snap e).
    + exists (e :: l). reflexivity.
    + exists q. simpl. f_equal. exact IH.
Qed.

Lemma since_last_snap_suffix pre : exists p, pre = p ++ since_last_snap pre.
Proof.
  unfold since_last_snap. destruct (take_until_snap_prefix (rev pre)) as [q H].
  exists (rev q). rewrite <- rev_app_distr, <- H, rev_involutive. reflexivity.
Qed.

Lemma recorded_snoc t l e :
  recorded t (l ++ [e])
  = recorded t l ++ match e with EUpd t' (HRec z) => if teqb t' t then [z] else [] | _ => [] end.
Proof.
  unfold recorded. rewrite upds_snoc, flat_map_app. f_equal.
  destruct e; simpl; auto. destruct (teqb t0 t); simpl; [|destruct u; reflexivity].
  destruct u; reflexivity.
Qed.

Lemma recorded_app t a b : recorded t (a ++ b) = recorded t a ++ recorded t b.
Proof. unfold recorded. rewrite upds_app, flat_map_app. reflexivity. Qed.

Lemma last_opt_snoc {A} (l : list A) x : last_opt (l ++ [x]) = Some x.
Proof. unfold last_opt. rewrite rev_unit. reflexivity. Qed.
Lemma last_opt_none {A} (l : list A) : last_opt l = None -> l = [].
Proof.
  unfold last_opt. intros H. destruct (rev l) eqn:E; [|discriminate].
  rewrite <- (rev_involutive l), E. reflexivity.
Qed.

Lemma given_units_snoc l x :
  given_units (l ++ [x]) = given_units l ++ match fst x with Some u => [u] | None => [] end.
Proof. unfold given_units. apply flat_map_snoc. Qed.

(* ---- keep_first ---- *)
Lemma keep_first_snoc x : forall l e,
  keep_first e (l ++ [x]) = keep_first e l ++ (if existsb (fun y => teqb x y) (e ++ l) then [] else [x]).
Proof.
  induction l as [|a l IH]; intros e; simpl.
  - rewrite app_nil_r. destruct (existsb _ e); reflexivity.
  - rewrite IH. rewrite <- app_assoc. simpl. destruct (existsb (fun y => teqb a y) e); reflexivity.
Qed.

Lemma existsb_teqb_congr a b l : teqb a b = true ->
  existsb (fun y => teqb a y) l = existsb (fun y => teqb b y) l.
Proof.
  intros H. induction l as [|y l IH]; simpl; auto. rewrite IH, (teqb_congr_l a b y H). reflexivity.
Qed.

(* membership up to equality is the same in the listed metrics as in all registrations *)
Lemma existsb_keep_first x : forall l e,
  existsb (fun y => teqb x y) e || existsb (fun y => teqb x y) (keep_first e l)
  = existsb (fun y => teqb x y) e || existsb (fun y => teqb x y) l.
Proof.
  induction l as [|a l IH]; intros e; simpl; auto.
  destruct (existsb (fun y => teqb a y) e) eqn:E.
  - specialize (IH (e ++ [a])). rewrite !existsb_app in IH. simpl in IH. rewrite !orb_false_r in IH.
    destruct (teqb x a) eqn:F.
    + rewrite (existsb_teqb_congr x a e F), E. reflexivity.
    + rewrite !orb_false_r in IH. simpl. exact IH.
  - simpl. specialize (IH (e ++ [a])). rewrite !existsb_app in IH. simpl in IH. rewrite !orb_false_r in IH.
    rewrite <- !orb_assoc in IH. rewrite <- IH. reflexivity.
Qed.

Lemma existsb_listed x l : existsb (fun y => teqb x y) (keep_first [] l) = existsb (fun y => teqb x y) l.
Proof. exact (existsb_keep_first x l []). Qed.

Lemma listed_snoc pre e :
  listed (pre ++ [e])
  = listed pre ++ match e with
                  | EReg t => if existsb (fun y => teqb t y) (registered pre) then [] else [t]
                  | _ => []
                  end.
Proof.
  unfold listed. rewrite registered_snoc. destruct e; try (rewrite !app_nil_r; reflexivity).
  rewrite keep_first_snoc. reflexivity.
Qed.

Lemma keep_first_In x : forall l e, In x (keep_first e l) -> In x l.
Proof.
  induction l as [|a l IH]; intros e H; simpl in *; auto.
  destruct (existsb _ e).
  - right. eapply IH. exact H.
  - destruct H as [H|H]; [left; exact H | right; eapply IH; exact H].
Qed.

(* no two listed metrics are equal, and none equals an earlier one *)
Fixpoint distinct (l : list target) : bool :=
  match l with [] => true | x :: r => negb (existsb (fun y => teqb x y) r) && distinct r end.

Lemma keep_first_fresh x : forall l e, existsb (fun y => teqb x y) e = true ->
  existsb (fun y => teqb x y) (keep_first e l) = false.
Proof.
  induction l as [|a l IH]; intros e H; simpl; auto.
  assert (H' : existsb (fun y => teqb x y) (e ++ [a]) = true) by (rewrite existsb_app, H; reflexivity).
  destruct (existsb (fun y => teqb a y) e) eqn:E.
  - apply IH. exact H'.
  - simpl. rewrite (IH _ H'). rewrite orb_false_r.
    destruct (teqb x a) eqn:F; auto.
    rewrite (existsb_teqb_congr x a e F) in H. congruence.
Qed.

Lemma keep_first_distinct : forall l e, distinct (keep_first e l) = true.
Proof.
  induction l as [|a l IH]; intros e; simpl; auto.
  destruct (existsb (fun y => teqb a y) e) eqn:E.
  - apply IH.
  - simpl. rewrite IH. rewrite keep_first_fresh; auto.
    rewrite existsb_app. simpl. rewrite teqb_refl. rewrite orb_true_r. reflexivity.
Qed.

Lemma In_existsb_teqb x l : In x l -> existsb (fun y => teqb x y) l = true.
Proof. intros H. apply existsb_exists. exists x. split; auto. apply teqb_refl. Qed.
