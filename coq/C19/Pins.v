From Coq Require Import List NArith ZArith Bool Permutation.
Import ListNotations.
Require Import MV.C19.Model MV.C19.Spec MV.C19.Exec MV.C19.ProofsKey MV.C19.ProofsSpec MV.C19.ProofsInv
               MV.C19.ProofsClauses MV.C19.ExecProofs.
Require Import MV.Common.Interleave MV.C19.ConcModel MV.C19.ConcLog MV.C19.ConcInv MV.C19.ConcStep MV.C19.ConcProofs.
Open Scope N_scope.
Require Import MV.C19.Properties.

Check (C19_model_meets_spec : forall h, run2 rinit rinit h = spec2 h).
Print Assumptions C19_model_meets_spec.
Check (C19_spec_ok_on_model : forall c, spec_ok c (run_case c) = true).
Print Assumptions C19_spec_ok_on_model.
Check (C19_spec_ok_iff : forall c o, spec_ok c o = true <-> out_equiv (spec2 c) o).
Print Assumptions C19_spec_ok_iff.
Check (C19_snapshots_are_functions_of_own_past : forall h b es,
  In (b, es) (run2 rinit rinit h) ->
  exists h1 h2, resolve2 [] [] h = h1 ++ (b, ESnap) :: h2 /\ es = snap_spec (projev b h1)).
Print Assumptions C19_snapshots_are_functions_of_own_past.
Check (C19_lists_exactly_registered_in_first_registration_order : forall pre,
  map etarget (snap_spec pre) = listed pre /\
  (forall t, In t (registered pre) -> exists t', In t' (listed pre) /\ teqb t t' = true) /\
  (forall t, In t (listed pre) -> In t (registered pre)) /\
  ForallOrdPairs (fun a b => teqb a b = false) (listed pre) /\
  (forall e, listed (pre ++ [e])
             = listed pre ++ match e with
                             | EReg t => if existsb (fun y => teqb t y) (registered pre) then [] else [t]
                             | _ => []
                             end)).
Print Assumptions C19_lists_exactly_registered_in_first_registration_order.
Check (C19_described_only_absent : forall pre e,
  In e (snap_spec pre) -> In (etarget e) (registered pre)).
Print Assumptions C19_described_only_absent.
Check (C19_equal_keys_one_entry : forall pre t t',
  In t (registered pre) -> teqb t' t = true -> listed (pre ++ [EReg t']) = listed pre).
Print Assumptions C19_equal_keys_one_entry.
Check (C19_key_equality_ignores_construction : forall kd n ls s1 s2,
  teqb (kd, {| kname := n; klabels := ls; kstyle := s1 |}) (kd, {| kname := n; klabels := ls; kstyle := s2 |}) = true).
Print Assumptions C19_key_equality_ignores_construction.
Check (C19_values_current : forall pre e,
  In e (snap_spec pre) ->
  e_val e = match e_kind e with
            | Counter => VC (fold_left capply (upds (etarget e) pre) 0)
            | Gauge => VG (fold_left gapply (upds (etarget e) pre) 0%Z)
            | Histogram => VH (recorded (etarget e) (since_last_snap pre))
            end).
Print Assumptions C19_values_current.
Check (C19_histogram_values_exactly_once : forall t evs,
  concat (hist_snaps_from t [] evs) ++ recorded t (since_last_snap evs) = recorded t evs).
Print Assumptions C19_histogram_values_exactly_once.
Check (C19_histogram_values_in_next_snapshot : forall t pre mid,
  existsb is_snap mid = false ->
  recorded t (since_last_snap (pre ++ ESnap :: mid)) = recorded t mid /\
  recorded t (since_last_snap mid) = recorded t mid).
Print Assumptions C19_histogram_values_in_next_snapshot.
Check (C19_registered_metric_has_entry : forall pre t,
  In t (registered pre) -> exists e, In e (snap_spec pre) /\ teqb t (etarget e) = true).
Print Assumptions C19_registered_metric_has_entry.
Check (C19_metadata_latest_unit_sticky : forall pre kn,
  (forall e, In e (snap_spec pre) ->
     e_unit e = last_unit (e_kind e, kname (e_key e)) pre /\
     e_desc e = last_desc (e_kind e, kname (e_key e)) pre) /\
  last_unit kn [] = None /\ last_desc kn [] = None /\
  (forall x d, last_unit kn (pre ++ [EDesc kn (Some x) d]) = Some x) /\
  (forall d, last_unit kn (pre ++ [EDesc kn None d]) = last_unit kn pre) /\
  (forall u d, last_desc kn (pre ++ [EDesc kn u d]) = Some d) /\
  (forall e, (forall u d, e <> EDesc kn u d) ->
     last_unit kn (pre ++ [e]) = last_unit kn pre /\ last_desc kn (pre ++ [e]) = last_desc kn pre)).
Print Assumptions C19_metadata_latest_unit_sticky.
Check (C19_isolated_per_recorder : forall b h,
  proj b (run2 rinit rinit h) = run1 rinit (proj b h)).
Print Assumptions C19_isolated_per_recorder.
Check (C19_example : run_case ex_history =
  [ (false, [ {| e_kind := Histogram; e_key := ex_key 0 []; e_unit := None; e_desc := None; e_val := VH [7; -2]%Z |};
              {| e_kind := Counter; e_key := ex_key 0 [([107], [118]); ([108], [119])]; e_unit := Some 2;
                 e_desc := Some [100]; e_val := VC 4 |} ]);
    (false, [ {| e_kind := Histogram; e_key := ex_key 0 []; e_unit := None; e_desc := None; e_val := VH [9]%Z |};
              {| e_kind := Counter; e_key := ex_key 0 [([107], [118]); ([108], [119])]; e_unit := Some 2;
                 e_desc := Some [102]; e_val := VC 4 |} ]);
    (true, []) ]).
Print Assumptions C19_example.
Check (C19_conc_conservation : forall ps sched t, fst t = Histogram ->
  let s := fst (final ps sched) in
  concat (ldrained t (slog s)) ++ resident t (sreg s) = lrecorded t (slog s)).
Print Assumptions C19_conc_conservation.
Check (C19_conc_no_invention_no_duplicate : forall ps sched t z, fst t = Histogram ->
  let s := fst (final ps sched) in
  (count_occ Z.eq_dec (concat (ldrained t (slog s))) z + count_occ Z.eq_dec (resident t (sreg s)) z
   = count_occ Z.eq_dec (lrecorded t (slog s)) z)%nat).
Print Assumptions C19_conc_no_invention_no_duplicate.
Check (C19_conc_drain_shows_since_previous : forall ps sched l1 t vs l2,
  slog (fst (final ps sched)) = l1 ++ LDrain t vs :: l2 ->
  fst t = Histogram /\ vs = lrecorded t (since_last_drain t l1)).
Print Assumptions C19_conc_drain_shows_since_previous.
Check (C19_conc_load_is_fold : forall ps sched l1 t v l2,
  slog (fst (final ps sched)) = l1 ++ LLoad t v :: l2 ->
  fst t <> Histogram /\
  v = match fst t with
      | Counter => VC (fold_left capply (lupds t l1) 0)
      | Gauge => VG (fold_left gapply (lupds t l1) 0%Z)
      | Histogram => v
      end).
Print Assumptions C19_conc_load_is_fold.
Check (C19_conc_entries_are_steps : forall ps sched l r e,
  In l (snd (final ps sched)) -> In r (outs l) -> In e (sr_out r) ->
  entry_logged (slog (fst (final ps sched))) e).
Print Assumptions C19_conc_entries_are_steps.
Check (C19_conc_listing : forall ps sched l r,
  In l (snd (final ps sched)) -> In r (outs l) ->
  let s := fst (final ps sched) in
  Prefix (sr_lp r) (slog s) /\
  (forall t, In (LGoc t) (sr_lp r) -> existsb (fun y => teqb t y) (map fst (sr_out r)) = true) /\
  ForallOrdPairs (fun a b => teqb a b = false) (map fst (sr_out r)) /\
  Subseq (map fst (sr_out r)) (keep_first [] (tracked (slog s)))).
Print Assumptions C19_conc_listing.
Check (C19_conc_seen_is_first_registration_order : forall ps sched,
  sseen (fst (final ps sched)) = keep_first [] (tracked (slog (fst (final ps sched))))).
Print Assumptions C19_conc_seen_is_first_registration_order.
Check (C19_conc_example : map sr_out (outs (nth 2 (snd (final ex_progs ex_sched)) (init_local [])))
  = [ [(exk_h 0, VH [1; 3; 2]%Z)]; [(exk_h 0, VH [4]%Z)] ] /\
  sreg (fst (final ex_progs ex_sched)) = [(exk_h 1, SH []); (exk_c, SC 5)] /\
  sseen (fst (final ex_progs ex_sched)) = [exk_h 0; exk_c]).
Print Assumptions C19_conc_example.
