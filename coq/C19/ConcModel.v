(* C19 — interleaving model of DebuggingRecorder under concurrent use (definitions only).

   Instantiates Common/Interleave.v.  Threads run programs of Register / Upd / Snapshot operations
   against ONE recorder; every numbered line below is one atomic step of one thread, a schedule is
   any list of thread indices.

     register_*(key)      1  track_metric: seen.insert(ckey) under the `seen` mutex          [LTrack]
                          2  Registry::get_or_create_*: the storage of (kind, key), created if
                             absent, under the shard lock; the handle designates it          [LGoc]
     handle.update(u)     3  one atomic RMW on the counter / gauge, or one push into the
                             histogram's bucket                                               [LUpd]
     snapshot()           4  get_{counter,gauge,histogram}_handles: the set of keys that have
                             a storage now                                                    [LCollect]
                          5  seen.lock().clone()
                          6  per cloned key, in order: skipped if it was not collected in 4;
                             else ONE atomic load (counter, gauge) or ONE atomic clear_with
                             (histogram) and the entry is appended to the result     [LLoad / LDrain]
                          7  return the result

   What is ASSUMED here and proved elsewhere (not re-proved in this file):
     * C06: get_or_create hands every caller the one storage per (kind, key), for every schedule
       of the sharded, read-then-write-locked implementation -> step 2 is atomic, a storage is never
       replaced, a handle is identified with its (kind, key);
     * C05: push and clear_with are linearizable (outside the open late-claim class, where one
       in-flight push per thread per drain may be lost) -> steps 3 and 6 are atomic on a list;
     * the three per-kind handle collections of step 4 are taken as one step (a key is collected or
       not; which of the three calls saw it does not matter to any statement below).
   [slog] is a ghost history of the steps performed; it is what the theorems talk about.
   Describe / metadata are not in this model (they do not interact with values or listing).      *)
From Coq Require Import List NArith ZArith Bool.
Import ListNotations.
Require Import MV.Common.Interleave MV.C19.Model MV.C19.Spec.
Open Scope N_scope.

Inductive cstor := SC (n : N) | SG (z : Z) | SH (l : list Z).
Definition sinit (k : kind) : cstor := match k with Counter => SC 0 | Gauge => SG 0%Z | Histogram => SH [] end.
Definition sapply (u : upd) (s : cstor) : cstor :=
  match s with SC n => SC (capply n u) | SG z => SG (gapply z u) | SH l => SH (happly l u) end.

Inductive cev :=
| LTrack (t : target)
| LGoc (t : target)
| LUpd (t : target) (u : upd)
| LCollect
| LLoad (t : target) (v : value)
| LDrain (t : target) (vals : list Z).

Record cshared := {
  sseen : list target;                 (* IndexMap `seen` *)
  sreg : list (target * cstor);        (* the registry: storages keyed by (kind, key) class *)
  slog : list cev                      (* ghost *)
}.
Definition cinit : cshared := {| sseen := []; sreg := []; slog := [] |}.

Inductive cop := ORegister (t : target) | OUpd (h : nat) (u : upd) | OSnapshot.

Definition centry := (target * value)%type.
(* a finished snapshot, with ghosts: the history at its first step, what it collected and cloned *)
Record snaprec := { sr_lp : list cev; sr_coll : list target; sr_visited : list target; sr_out : list centry }.

Inductive cpc :=
| PIdle
| PReg (t : target)                                                   (* between steps 1 and 2 *)
| PClone (lp : list cev) (coll : list target)                         (* between 4 and 5 *)
| PVisit (lp : list cev) (coll visited work : list target) (acc : list centry).   (* in 6 *)

Record clocal := { prog : list cop; pc : cpc; hnd : list target; outs : list snaprec }.
Definition init_local (p : list cop) : clocal := {| prog := p; pc := PIdle; hnd := []; outs := [] |}.

Definition in_coll (coll : list target) (t : target) : bool := existsb (fun y => teqb t y) coll.

Definition logev (s : cshared) (e : cev) : cshared :=
  {| sseen := sseen s; sreg := sreg s; slog := slog s ++ [e] |}.

Definition cstep (s : cshared) (l : clocal) : option (cshared * clocal) :=
  match pc l with
  | PIdle =>
      match prog l with
      | [] => None
      | ORegister t :: r =>                                            (* 1 *)
          Some ({| sseen := track t (sseen s); sreg := sreg s; slog := slog s ++ [LTrack t] |},
                {| prog := r; pc := PReg t; hnd := hnd l; outs := outs l |})
      | OUpd h u :: r =>                                               (* 3 *)
          let l' := {| prog := r; pc := PIdle; hnd := hnd l; outs := outs l |} in
          match nth_error (hnd l) h with
          | Some t =>
              if kind_eqb (fst t) (ukind u) then
                match lookup teqb t (sreg s) with
                | Some st => Some ({| sseen := sseen s; sreg := put teqb t (sapply u st) (sreg s);
                                      slog := slog s ++ [LUpd t u] |}, l')
                | None => Some (s, l')
                end
              else Some (s, l')
          | None => Some (s, l')
          end
      | OSnapshot :: r =>                                              (* 4 *)
          Some (logev s LCollect,
                {| prog := r; pc := PClone (slog s) (map fst (sreg s)); hnd := hnd l; outs := outs l |})
      end
  | PReg t =>                                                          (* 2 *)
      Some ({| sseen := sseen s; sreg := get_or_create teqb t (sinit (fst t)) (sreg s); slog := slog s ++ [LGoc t] |},
            {| prog := prog l; pc := PIdle; hnd := hnd l ++ [t]; outs := outs l |})
  | PClone lp coll =>                                                  (* 5 *)
      Some (s, {| prog := prog l; pc := PVisit lp coll [] (sseen s) []; hnd := hnd l; outs := outs l |})
  | PVisit lp coll visited [] acc =>                                   (* 7 *)
      Some (s, {| prog := prog l; pc := PIdle; hnd := hnd l;
                  outs := outs l ++ [{| sr_lp := lp; sr_coll := coll; sr_visited := visited; sr_out := acc |}] |})
  | PVisit lp coll visited (t :: work) acc =>                          (* 6 *)
      let next acc' := {| prog := prog l; pc := PVisit lp coll (visited ++ [t]) work acc'; hnd := hnd l; outs := outs l |} in
      if in_coll coll t then
        match lookup teqb t (sreg s) with
        | Some (SC n) => Some (logev s (LLoad t (VC n)), next (acc ++ [(t, VC n)]))
        | Some (SG z) => Some (logev s (LLoad t (VG z)), next (acc ++ [(t, VG z)]))
        | Some (SH xs) => Some ({| sseen := sseen s; sreg := put teqb t (SH []) (sreg s); slog := slog s ++ [LDrain t xs] |},
                                next (acc ++ [(t, VH xs)]))
        | None => Some (s, next acc)
        end
      else Some (s, next acc)
  end.

Definition csite (l : clocal) : N := 0.

(* ---- functions of the history used by the statements ---- *)
Definition tracked (log : list cev) : list target :=
  flat_map (fun e => match e with LTrack t => [t] | _ => [] end) log.
Definition lupds (t : target) (log : list cev) : list upd :=
  flat_map (fun e => match e with LUpd t' u => if teqb t' t then [u] else [] | _ => [] end) log.
Definition lrecorded (t : target) (log : list cev) : list Z :=
  flat_map (fun u => match u with HRec z => [z] | _ => [] end) (lupds t log).
Definition ldrained (t : target) (log : list cev) : list (list Z) :=
  flat_map (fun e => match e with LDrain t' vs => if teqb t' t then [vs] else [] | _ => [] end) log.
Definition is_drain_of (t : target) (e : cev) : bool :=
  match e with LDrain t' _ => teqb t' t | _ => false end.
Fixpoint take_until {A} (p : A -> bool) (l : list A) : list A :=
  match l with [] => [] | e :: r => if p e then [] else e :: take_until p r end.
(* the part of the history after the last drain of t *)
Definition since_last_drain (t : target) (log : list cev) : list cev := rev (take_until (is_drain_of t) (rev log)).
Definition lpending (t : target) (log : list cev) : list Z := lrecorded t (since_last_drain t log).
(* what a load of t must return after the history [log] *)
Definition lvalue (t : target) (log : list cev) : value :=
  match fst t with
  | Counter => VC (fold_left capply (lupds t log) 0)
  | Gauge => VG (fold_left gapply (lupds t log) 0%Z)
  | Histogram => VH (lpending t log)
  end.

Definition resident (t : target) (reg : list (target * cstor)) : list Z :=
  match lookup teqb t reg with Some (SH xs) => xs | _ => [] end.

Inductive Prefix {A} (a b : list A) : Prop := prefix_intro (r : list A) (E : b = a ++ r).
Inductive Subseq {A} : list A -> list A -> Prop :=
| sub_nil l : Subseq [] l
| sub_keep x a b : Subseq a b -> Subseq (x :: a) (x :: b)
| sub_skip x a b : Subseq a b -> Subseq a (x :: b).

(* an entry of a snapshot is the value of a load / drain step of the history *)
Definition entry_logged (log : list cev) (e : centry) : Prop :=
  match snd e with
  | VH vs => In (LDrain (fst e) vs) log
  | v => In (LLoad (fst e) v) log
  end.

(* the configuration (shared state, threads) reached by the threads running the programs [ps] from
   the empty recorder under the schedule [sched] (Common/Interleave.v: any list of thread indices) *)
Definition final (ps : list (list cop)) (sched : list nat) : cshared * list clocal :=
  fst (exec cstep csite (cinit, map init_local ps) sched).
