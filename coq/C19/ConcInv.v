(* C19 — the invariant of the interleaving model: the shared state is a function of the history,
   the history is well-formed, and every thread's local view (handles, snapshot in progress,
   finished snapshots) is consistent with it.  Every atomic step of every thread preserves it. *)
From Coq Require Import List NArith ZArith Bool Lia.
Import ListNotations.
Require Import MV.Common.Interleave.
Require Import MV.C19.Model MV.C19.Spec MV.C19.ProofsKey MV.C19.ProofsSpec MV.C19.ConcModel MV.C19.ConcLog.
Open Scope N_scope.

Definition lookup_t {V} := @lookup target V teqb.
Definition lookup_t_put {V} := @lookup_put target V _ teqb tcls teqb_tcls.
Definition lookup_t_goc {V} := @lookup_get_or_create target V _ teqb tcls teqb_tcls.
Definition lookup_t_cls {V} := @lookup_cls target V _ teqb tcls teqb_tcls.

Definition stor_of (t : target) (log : list cev) : cstor :=
  match fst t with
  | Counter => SC (fold_left capply (lupds t log) 0)
  | Gauge => SG (fold_left gapply (lupds t log) 0%Z)
  | Histogram => SH (lpending t log)
  end.

Record GInv (s : cshared) : Prop := {
  G_seen : sseen s = keep_first [] (tracked (slog s));
  G_goc : forall t, In (LGoc t) (slog s) -> lookup teqb t (sreg s) <> None;
  G_tracked : forall t, lookup teqb t (sreg s) <> None -> existsb (fun y => teqb t y) (sseen s) = true;
  G_val : forall t st, lookup teqb t (sreg s) = Some st -> st = stor_of t (slog s);
  G_none : forall t, lookup teqb t (sreg s) = None -> lupds t (slog s) = [];
  G_wf : wf_from [] (slog s)
}.

Record Ext (s s' : cshared) : Prop := {
  E_seen : Prefix (sseen s) (sseen s');
  E_log : Prefix (slog s) (slog s');
  E_reg : forall t, lookup teqb t (sreg s) <> None -> lookup teqb t (sreg s') <> None
}.


Definition snap_ok (s : cshared) (lp : list cev) (coll : list target) : Prop :=
  Prefix lp (slog s) /\
  (forall t, In (LGoc t) lp -> in_coll coll t = true) /\
  (forall t, in_coll coll t = true -> lookup teqb t (sreg s) <> None).

Definition rec_ok (s : cshared) (r : snaprec) : Prop :=
  Prefix (sr_lp r) (slog s) /\
  Prefix (sr_visited r) (sseen s) /\
  map fst (sr_out r) = filter (in_coll (sr_coll r)) (sr_visited r) /\
  (forall t, In (LGoc t) (sr_lp r) -> in_coll (sr_coll r) t = true) /\
  (forall t, in_coll (sr_coll r) t = true -> existsb (fun y => teqb t y) (sr_visited r) = true) /\
  Forall (entry_logged (slog s)) (sr_out r).

Definition pc_ok (s : cshared) (p : cpc) : Prop :=
  match p with
  | PIdle => True
  | PReg t => existsb (fun y => teqb t y) (sseen s) = true
  | PClone lp coll => snap_ok s lp coll
  | PVisit lp coll visited work acc =>
      snap_ok s lp coll /\
      Prefix (visited ++ work) (sseen s) /\
      map fst acc = filter (in_coll coll) visited /\
      (forall t, in_coll coll t = true -> existsb (fun y => teqb t y) (visited ++ work) = true) /\
      Forall (entry_logged (slog s)) acc
  end.

Definition TInv (s : cshared) (l : clocal) : Prop :=
  (forall t, In t (hnd l) -> lookup teqb t (sreg s) <> None) /\
  Forall (rec_ok s) (outs l) /\
  pc_ok s (pc l).

Definition CInv (c : cshared * list clocal) : Prop := GInv (fst c) /\ Forall (TInv (fst c)) (snd c).

(* ---------------------------------------------------------------- stability under extension *)
Lemma Ext_refl s : Ext s s.
Proof. constructor; auto using Prefix_refl. Qed.

Lemma existsb_prefix {A} (p : A -> bool) a b : Prefix a b -> existsb p a = true -> existsb p b = true.
Proof. intros [r ->] H. rewrite existsb_app, H. reflexivity. Qed.

Lemma entry_logged_ext log log' e : Prefix log log' -> entry_logged log e -> entry_logged log' e.
Proof.
  intros P H. unfold entry_logged in *. destruct (snd e); eapply Prefix_In; eauto.
Qed.

Lemma snap_ok_ext s s' lp coll : Ext s s' -> snap_ok s lp coll -> snap_ok s' lp coll.
Proof.
  intros [E1 E2 E3] (A & B & C). split; [eapply Prefix_trans; eauto|]. split; [exact B|].
  intros t H. apply E3, C, H.
Qed.

Lemma rec_ok_ext s s' r : Ext s s' -> rec_ok s r -> rec_ok s' r.
Proof.
  intros [E1 E2 E3] (A & B & C & D & E & F).
  split; [eapply Prefix_trans; eauto|]. split; [eapply Prefix_trans; eauto|].
  split; [exact C|]. split; [exact D|]. split; [exact E|].
  eapply Forall_impl; [|exact F]. intros e. apply entry_logged_ext. exact E2.
Qed.

Lemma TInv_ext s s' l : Ext s s' -> TInv s l -> TInv s' l.
Proof.
  intros X (A & B & C). pose proof X as [E1 E2 E3]. split; [|split].
  - intros t H. apply E3, A, H.
  - eapply Forall_impl; [|exact B]. intros r. apply rec_ok_ext. exact X.
  - destruct (pc l) as [|t|lp coll|lp coll visited work acc]; simpl in *; auto.
    + eapply existsb_prefix; eauto.
    + eapply snap_ok_ext; eauto.
    + destruct C as (C1 & C2 & C3 & C4 & C5).
      split; [eapply snap_ok_ext; eauto|]. split; [eapply Prefix_trans; eauto|].
      split; [exact C3|]. split; [exact C4|].
      eapply Forall_impl; [|exact C5]. intros e. apply entry_logged_ext. exact E2.
Qed.

(* ---------------------------------------------------------------- stor_of when an event is appended *)
Lemma stor_of_snoc_other t l e :
  match e with LUpd _ _ | LDrain _ _ => False | _ => True end -> stor_of t (l ++ [e]) = stor_of t l.
Proof.
  intros H. unfold stor_of. rewrite lupds_snoc, lpending_snoc.
  destruct e; try contradiction; simpl; rewrite !app_nil_r; reflexivity.
Qed.

Lemma stor_of_snoc_upd_other t l t0 u : teqb t0 t = false -> stor_of t (l ++ [LUpd t0 u]) = stor_of t l.
Proof.
  intros H. unfold stor_of. rewrite lupds_snoc, lpending_snoc. simpl. rewrite H.
  destruct u; rewrite !app_nil_r; reflexivity.
Qed.

Lemma stor_of_snoc_upd t l t0 u : teqb t0 t = true -> kind_eqb (fst t0) (ukind u) = true ->
  stor_of t (l ++ [LUpd t0 u]) = sapply u (stor_of t l).
Proof.
  intros H K. unfold stor_of. rewrite lupds_snoc, lpending_snoc. simpl. rewrite H.
  rewrite <- (teqb_kind t0 t H). apply kind_eqb_eq in K.
  destruct (fst t0); destruct u; simpl in K; try discriminate; simpl; rewrite ?fold_left_app; reflexivity.
Qed.

Lemma stor_of_snoc_drain_other t l t0 vs : teqb t0 t = false -> stor_of t (l ++ [LDrain t0 vs]) = stor_of t l.
Proof.
  intros H. unfold stor_of. rewrite lupds_snoc, lpending_snoc. simpl. rewrite H, !app_nil_r. reflexivity.
Qed.

Lemma stor_of_snoc_drain t l t0 vs : teqb t0 t = true -> fst t = Histogram ->
  stor_of t (l ++ [LDrain t0 vs]) = SH [].
Proof.
  intros H K. unfold stor_of. rewrite K, lpending_snoc. simpl. rewrite H. reflexivity.
Qed.

Lemma stor_of_congr a b l : teqb a b = true -> stor_of a l = stor_of b l.
Proof.
  intros H. unfold stor_of. rewrite (teqb_kind a b H), (lupds_congr a b l H), (lpending_congr a b l H). reflexivity.
Qed.

Lemma stor_of_none t l : lupds t l = [] -> stor_of t l = sinit (fst t).
Proof.
  intros H. unfold stor_of. rewrite H, (lupds_nil_pending t l H). destruct (fst t); reflexivity.
Qed.

(* ---------------------------------------------------------------- small list facts *)
Lemma track_cases t l : track t l = l \/ (track t l = l ++ [t] /\ existsb (fun y => teqb t y) l = false).
Proof. unfold track. destruct (existsb _ l); auto. Qed.

Lemma track_prefix t l : Prefix l (track t l).
Proof. destruct (track_cases t l) as [->|[-> _]]; [apply Prefix_refl | exists [t]; reflexivity]. Qed.

Lemma track_has t l : existsb (fun y => teqb t y) (track t l) = true.
Proof.
  unfold track. destruct (existsb (fun y => teqb t y) l) eqn:E; auto.
  rewrite existsb_app. simpl. rewrite teqb_refl. rewrite orb_true_r. reflexivity.
Qed.

Lemma lookup_in_keys {V} (t : target) (m : list (target * V)) :
  lookup teqb t m <> None <-> existsb (fun y => teqb t y) (map fst m) = true.
Proof.
  induction m as [|[k v] m IH]; simpl.
  - split; [intros H; contradiction | discriminate].
  - destruct (teqb t k); simpl; [split; [reflexivity|discriminate]|exact IH].
Qed.

Lemma filter_snoc {A} (p : A -> bool) l x : filter p (l ++ [x]) = filter p l ++ (if p x then [x] else []).
Proof. rewrite filter_app. reflexivity. Qed.

Lemma in_snoc_inv {A} (x e : A) l : In x (l ++ [e]) -> In x l \/ x = e.
Proof. intros H. apply in_app_or in H as [H|[H|[]]]; auto. Qed.

(* ---------------------------------------------------------------- GInv when only the history grows by an inert event *)
Lemma GInv_logev s e :
  match e with LTrack _ | LGoc _ | LUpd _ _ | LDrain _ _ => False | LLoad _ _ => False | LCollect => True end ->
  GInv s -> GInv (logev s e).
Proof.
  intros He [A B C D E F]. destruct e; try contradiction.
  constructor; simpl.
  - rewrite tracked_snoc, app_nil_r. exact A.
  - intros t H. apply in_snoc_inv in H as [H|H]; [auto|discriminate].
  - exact C.
  - intros t st H. rewrite stor_of_snoc_other by exact I. auto.
  - intros t H. rewrite lupds_snoc, app_nil_r. auto.
  - apply wf_from_snoc. split; [exact F|exact I].
Qed.
