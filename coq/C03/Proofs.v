(* C03 — proofs about key_eq / key_cmp / hash_feed.  Everything is reduced to one canonical form:
   [ckey k] = (name, (number of labels, labels in canonical order)).  key_eq is equality of canonical
   forms, key_cmp is the lexicographic order on them, hash_feed is a function of them. *)
From Coq Require Import List NArith Bool Permutation Sorted Lia.
Import ListNotations.
Require Import MV.C03.Model MV.C03.Spec MV.C03.Order MV.C03.StableSort.
Open Scope N_scope.

Definition canon (ls : list label) : list label :=
  match ls with
  | [] => []
  | [a] => [a]
  | [a; b] => order2 a b
  | _ => sort_by_name ls
  end.
Definition ckey (k : key) : bytes * (N * list label) := (fst k, (nlen (snd k), canon (snd k))).
Definition ccmp := pcmp bcmp (pcmp N.compare (lexc label_cmp)).

Lemma label_cmp_ok : cmp_ok label_cmp.
Proof. exact (pcmp_ok bcmp bcmp bcmp_ok bcmp_ok). Qed.

Lemma ccmp_ok : cmp_ok ccmp.
Proof.
  apply pcmp_ok; [exact bcmp_ok|]. apply pcmp_ok; [exact Ncompare_ok|].
  apply lexc_ok. exact label_cmp_ok.
Qed.

Lemma label_eqb_eq a b : label_eqb a b = true <-> a = b.
Proof.
  destruct a as [k v], b as [k' v']. unfold label_eqb. cbn [fst snd].
  rewrite andb_true_iff, !beqb_eq. split; [intros [-> ->]; reflexivity|intros H; inversion H; auto].
Qed.

Lemma label_eqb_neq a b : label_eqb a b = false <-> a <> b.
Proof.
  split; intros H.
  - intros E. apply label_eqb_eq in E. congruence.
  - destruct (label_eqb a b) eqn:E; auto. apply label_eqb_eq in E. contradiction.
Qed.

Lemma label_ltb_lt a b : label_ltb a b = true <-> label_cmp a b = Lt.
Proof. unfold label_ltb. destruct (label_cmp a b); split; congruence. Qed.

Lemma nlen_eq l1 l2 : nlen l1 = nlen l2 <-> length l1 = length l2.
Proof. unfold nlen. split; [apply Nnat.Nat2N.inj|congruence]. Qed.

Lemma cmp_zip_lexc s1 : forall s2, length s1 = length s2 -> cmp_zip s1 s2 = lexc label_cmp s1 s2.
Proof.
  induction s1 as [|x r IH]; intros [|y r'] L; try discriminate; auto.
  cbn [cmp_zip lexc]. rewrite IH by (simpl in L; congruence). reflexivity.
Qed.

Lemma all_eq_zip_eq s1 : forall s2, length s1 = length s2 -> (all_eq_zip s1 s2 = true <-> s1 = s2).
Proof.
  induction s1 as [|x r IH]; intros [|y r'] L; try discriminate.
  - split; auto.
  - cbn [all_eq_zip]. destruct (label_eqb x y) eqn:E.
    + apply label_eqb_eq in E. subst. rewrite IH by (simpl in L; congruence).
      split; [intros ->; reflexivity|intros H; inversion H; reflexivity].
    + apply label_eqb_neq in E. split; [discriminate|intros H; inversion H; contradiction].
Qed.

(* ---- two labels *)
Lemma order2_length a b : length (order2 a b) = 2%nat.
Proof. unfold order2. destruct (label_ltb a b); reflexivity. Qed.

Lemma order2_perm a b : Permutation (order2 a b) [a; b].
Proof. unfold order2. destruct (label_ltb a b); [apply Permutation_refl|apply perm_swap]. Qed.

Lemma order2_comm a b : order2 a b = order2 b a.
Proof.
  unfold order2. destruct (label_ltb a b) eqn:E1, (label_ltb b a) eqn:E2; auto.
  - apply label_ltb_lt in E1, E2. rewrite (c_anti _ label_cmp_ok), E1 in E2. discriminate.
  - assert (a = b) as ->; auto.
    apply (c_eq _ label_cmp_ok). destruct (label_cmp a b) eqn:E; auto.
    + apply label_ltb_lt in E. congruence.
    + apply (c_gt_lt _ label_cmp_ok), label_ltb_lt in E. congruence.
Qed.

Lemma order2_inj a0 a1 b0 b1 :
  order2 a0 a1 = order2 b0 b1 -> (a0 = b0 /\ a1 = b1) \/ (a0 = b1 /\ a1 = b0).
Proof.
  unfold order2. destruct (label_ltb a0 a1), (label_ltb b0 b1); intros H; inversion H; auto.
Qed.

Lemma eq2_iff a0 a1 b0 b1 :
  (if label_eqb a0 b0 then label_eqb a1 b1
   else if label_eqb a0 b1 then label_eqb a1 b0 else false) = true
  <-> order2 a0 a1 = order2 b0 b1.
Proof.
  split.
  - destruct (label_eqb a0 b0) eqn:E0.
    + intros E1. apply label_eqb_eq in E0, E1. subst. reflexivity.
    + destruct (label_eqb a0 b1) eqn:E1; [|discriminate].
      intros E2. apply label_eqb_eq in E1, E2. subst. apply order2_comm.
  - intros H. apply order2_inj in H.
    destruct (label_eqb a0 b0) eqn:E0.
    + apply label_eqb_eq in E0. apply label_eqb_eq. destruct H as [[_ H]|[H1 H2]]; congruence.
    + apply label_eqb_neq in E0. destruct H as [[H _]|[H1 H2]]; [contradiction|].
      subst. assert (R : forall x, label_eqb x x = true) by (intros; apply label_eqb_eq; reflexivity).
      rewrite !R. reflexivity.
Qed.

(* ---- canonical form *)
Lemma canon_length ls : length (canon ls) = length ls.
Proof.
  destruct ls as [|a [|b [|c r]]]; auto.
  - apply order2_length.
  - cbn [canon]. apply sort_length.
Qed.

Lemma canon_perm ls : Permutation (canon ls) ls.
Proof.
  destruct ls as [|a [|b [|c r]]]; auto.
  - apply order2_perm.
  - cbn [canon]. apply sort_perm.
Qed.

Lemma key_cmp_ckey a b : key_cmp a b = ccmp (ckey a) (ckey b).
Proof.
  destruct a as [n1 l1], b as [n2 l2].
  unfold key_cmp, key_cmp_gen, ccmp, ckey, pcmp. cbn [fst snd].
  destruct (bcmp n1 n2); auto.
  destruct (nlen l1 ?= nlen l2) eqn:E; auto.
  apply N.compare_eq_iff, nlen_eq in E.
  destruct l1 as [|a0 [|a1 [|a2 r1]]]; destruct l2 as [|b0 [|b1 [|b2 r2]]]; try discriminate E.
  - reflexivity.
  - cbn. destruct (label_cmp a0 b0); reflexivity.
  - cbn [lab nth canon]. apply cmp_zip_lexc. rewrite !order2_length. reflexivity.
  - cbv beta iota. unfold sort_small, sort_big. cbn [canon].
    destruct (_ <? 8); apply cmp_zip_lexc; rewrite !sort_length; exact E.
Qed.

Lemma key_eq_ckey a b : key_eq a b = true <-> ckey a = ckey b.
Proof.
  destruct a as [n1 l1], b as [n2 l2]. unfold key_eq, ckey. cbn [fst snd].
  destruct (beqb n1 n2) eqn:B; cbn [negb].
  2:{ split; [discriminate|]. intros H. inversion H. subst.
      assert (beqb n2 n2 = true) by (apply beqb_eq; reflexivity). congruence. }
  apply beqb_eq in B. subst n2.
  destruct (nlen l1 =? nlen l2) eqn:E; cbn [negb].
  2:{ split; [discriminate|]. intros H. inversion H. apply N.eqb_neq in E. contradiction. }
  apply N.eqb_eq in E. rewrite E. apply nlen_eq in E.
  destruct l1 as [|a0 [|a1 [|a2 r1]]]; destruct l2 as [|b0 [|b1 [|b2 r2]]]; try discriminate E.
  - split; reflexivity.
  - cbn [lab nth canon]. rewrite label_eqb_eq. split; [intros ->; reflexivity|intros H; inversion H; reflexivity].
  - cbn [lab nth canon]. rewrite eq2_iff. split; [intros ->; reflexivity|intros H; inversion H; reflexivity].
  - cbv beta iota. unfold sort_small, sort_big. cbn [canon].
    assert (L : length (sort_by_name (a0 :: a1 :: a2 :: r1)) = length (sort_by_name (b0 :: b1 :: b2 :: r2)))
      by (rewrite !sort_length; exact E).
    destruct (_ <? 8); rewrite (all_eq_zip_eq _ _ L);
      (split; [intros ->; reflexivity|intros H; congruence]).
Qed.

Lemma hash_feed_ckey a :
  hash_feed a = hash_str (fst a) ++ [HU (nlen (snd a))] ++ hash_labels (canon (snd a)).
Proof.
  destruct a as [n ls]. unfold hash_feed. cbn [fst snd]. do 2 f_equal.
  destruct ls as [|a0 [|a1 [|a2 r]]].
  - reflexivity.
  - cbn [lab nth canon hash_labels flat_map]. rewrite app_nil_r. reflexivity.
  - cbn [lab nth canon]. unfold order2. destruct (label_ltb a0 a1);
      cbn [hash_labels flat_map]; rewrite app_nil_r; reflexivity.
  - cbv beta iota. unfold sort_small, sort_big. cbn [canon]. destruct (_ <? 8); reflexivity.
Qed.

(* ---- the clauses *)
Lemma key_eq_refl a : key_eq a a = true.
Proof. apply key_eq_ckey. reflexivity. Qed.

Lemma key_eq_sym a b : key_eq a b = key_eq b a.
Proof. apply eq_iff_eq_true. rewrite !key_eq_ckey. split; congruence. Qed.

Lemma key_eq_trans a b c : key_eq a b = true -> key_eq b c = true -> key_eq a c = true.
Proof. rewrite !key_eq_ckey. congruence. Qed.

Lemma key_eq_iff_cmp a b : key_eq a b = true <-> key_cmp a b = Eq.
Proof. rewrite key_eq_ckey, key_cmp_ckey. symmetry. apply (c_eq _ ccmp_ok). Qed.

Lemma key_cmp_refl a : key_cmp a a = Eq.
Proof. rewrite key_cmp_ckey. apply (c_refl _ ccmp_ok). Qed.

Lemma key_cmp_antisym a b : key_cmp b a = CompOpp (key_cmp a b).
Proof. rewrite !key_cmp_ckey. apply (c_anti _ ccmp_ok). Qed.

Lemma key_cmp_trans a b c : key_cmp a b = Lt -> key_cmp b c = Lt -> key_cmp a c = Lt.
Proof. rewrite !key_cmp_ckey. apply (c_trans _ ccmp_ok). Qed.

Lemma key_cmp_cong a b c : key_cmp a b = Eq -> key_cmp a c = key_cmp b c.
Proof. rewrite !key_cmp_ckey. apply (c_cong _ ccmp_ok). Qed.

Lemma ckey_same_feed a b : ckey a = ckey b -> hash_feed a = hash_feed b.
Proof. intros H. rewrite !hash_feed_ckey. unfold ckey in H. inversion H. congruence. Qed.

Lemma key_eq_same_feed a b : key_eq a b = true -> hash_feed a = hash_feed b.
Proof. rewrite key_eq_ckey. apply ckey_same_feed. Qed.

Lemma key_coherent : coherent key_eq key_cmp hash_feed.
Proof.
  split.
  - exact key_eq_refl.
  - exact key_eq_sym.
  - exact key_eq_trans.
  - exact key_eq_iff_cmp.
  - exact key_cmp_refl.
  - exact key_cmp_antisym.
  - exact key_cmp_trans.
  - exact key_cmp_cong.
  - exact key_eq_same_feed.
Qed.

(* the feed determines the key up to equality: different series never feed a hasher identically *)
Lemma hash_labels_inj c1 : forall c2, hash_labels c1 = hash_labels c2 -> c1 = c2.
Proof.
  induction c1 as [|[k v] r IH]; intros [|[k' v'] r'] H; try discriminate; auto.
  cbn in H. inversion H. subst. f_equal. apply IH. assumption.
Qed.

Lemma same_feed_key_eq a b : hash_feed a = hash_feed b -> key_eq a b = true.
Proof.
  rewrite !hash_feed_ckey. intros H. apply key_eq_ckey. unfold ckey.
  cbn in H. inversion H as [[Hn Hl Hc]]. apply hash_labels_inj in Hc. congruence.
Qed.

Lemma key_eq_sound : eq_sound key_eq.
Proof.
  intros a b H. apply key_eq_ckey in H. unfold ckey in H. inversion H as [[Hn Hl Hc]].
  split; auto.
  eapply perm_trans; [apply Permutation_sym, canon_perm|]. rewrite Hc. apply canon_perm.
Qed.

(* ---- label order is irrelevant when label names are pairwise distinct *)
Lemma relabelled_ckey a b : relabelled a b -> ckey a = ckey b.
Proof.
  destruct a as [n1 l1], b as [n2 l2]. unfold relabelled, ckey. cbn [fst snd].
  intros (-> & ND & P).
  assert (L : length l1 = length l2) by (apply Permutation_length; exact P).
  f_equal. f_equal; [apply nlen_eq; exact L|].
  destruct l1 as [|a0 [|a1 [|a2 r1]]]; destruct l2 as [|b0 [|b1 [|b2 r2]]]; try discriminate L.
  - reflexivity.
  - apply Permutation_length_1_inv in P. congruence.
  - apply Permutation_length_2_inv in P. destruct P as [P|P]; inversion P; subst; cbn [canon]; auto.
    apply order2_comm.
  - cbn [canon]. apply sort_perm_nodup_eq; auto.
Qed.

Lemma key_order_irrelevant : order_irrelevant key_eq key_cmp hash_feed.
Proof.
  intros a b R. apply relabelled_ckey in R. split; [|split].
  - apply key_eq_ckey. exact R.
  - apply key_eq_iff_cmp, key_eq_ckey. exact R.
  - apply ckey_same_feed. exact R.
Qed.

(* ---- the code as found: Ord without the two-label arm *)
Lemma cmp_before_fix_refuted :
  exists a b, key_eq a b = true /\ hash_feed a = hash_feed b /\ key_cmp_before_fix a b = Lt
              /\ key_cmp_before_fix b a = Gt.
Proof.
  exists ([107], [([97], [49]); ([97], [50])]), ([107], [([97], [50]); ([97], [49])]).
  vm_compute. auto.
Qed.

Lemma cmp_before_fix_same_unless_two a b :
  length (snd a) <> 2%nat -> key_cmp_before_fix a b = key_cmp a b.
Proof.
  destruct a as [n1 l1], b as [n2 l2]. cbn [snd]. intros L.
  unfold key_cmp_before_fix, key_cmp, key_cmp_gen.
  destruct l1 as [|a0 [|a1 [|a2 r1]]]; auto. contradiction L. reflexivity.
Qed.

(* the defect class exactly: two labels sharing a name.  With two labels of different names the
   stable sort by name and the order by full label coincide. *)
Lemma order2_sort_distinct a0 a1 : fst a0 <> fst a1 -> order2 a0 a1 = sort_by_name [a0; a1].
Proof.
  intros D. unfold order2, label_ltb, label_cmp. cbn [sort_by_name fold_right insert_by_name].
  rewrite (c_anti _ bcmp_ok (fst a0) (fst a1)).
  destruct (bcmp (fst a0) (fst a1)) eqn:E; cbn [CompOpp]; auto.
  apply (c_eq _ bcmp_ok) in E. contradiction.
Qed.

Lemma cmp_before_fix_same_when_names_differ n1 n2 a0 a1 b0 b1 :
  fst a0 <> fst a1 -> fst b0 <> fst b1 ->
  key_cmp_before_fix (n1, [a0; a1]) (n2, [b0; b1]) = key_cmp (n1, [a0; a1]) (n2, [b0; b1]).
Proof.
  intros Da Db. unfold key_cmp_before_fix, key_cmp, key_cmp_gen. cbn [lab nth]. unfold sort_small.
  rewrite <- !order2_sort_distinct by assumption. reflexivity.
Qed.
