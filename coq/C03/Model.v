(* C03 — model of metrics/src/key.rs: PartialEq, Ord::cmp, Hash (key_hasher_impl), the constructors
   and the get_hash memo, with Label (label.rs, derived PartialEq/Ord/PartialOrd/Hash over two
   SharedStrings) and Cow<str> (cow.rs: ==, cmp, hash all delegate to the str behind the Cow,
   whatever its flavour: borrowed, owned or Arc).

   Strings are [list N] (the UTF-8 bytes; str ==/cmp are bytewise).  A key is (name, labels in the
   order supplied).  Every arm of the three `match labels.len()` is modelled as a separate arm:
     0, 1          : trivial
     2             : PartialEq = multiset of two; Hash = ordered by the full label (labels[0] < labels[1]);
                     Ord = NO such arm in the code as found ([key_cmp_gen false]); the arm added by the
                     fix commit orders both pairs by the full label, as Hash does ([key_cmp_gen true])
     3..7 (n < 8)  : index map [u8; 8], slice::sort_by_key(|i| labels[i].key())  -- stable sort by label NAME
     >= 8          : index map Vec<usize>, the same sort_by_key
   Rust's sort_by_key is a stable sort; it is modelled by [sort_by_name], an insertion sort on the
   labels themselves (StableSort.v proves it sorted, a permutation, stable, and that a list with
   these three properties is unique, so it stands for any stable sorting algorithm).
   Definitions only; no proofs.                                                                  *)
From Coq Require Import List NArith Bool.
Import ListNotations.
Open Scope N_scope.

Definition bytes := list N.
Definition label := (bytes * bytes)%type.            (* Label(key, value) *)
Definition key := (bytes * list label)%type.         (* Key { name, labels } without the memo *)

(* ---- str: == (length and bytes), cmp (lexicographic on bytes, a proper prefix is Less) *)
Fixpoint beqb (a b : bytes) : bool :=
  match a, b with
  | [], [] => true
  | x :: a', y :: b' => (x =? y) && beqb a' b'
  | _, _ => false
  end.
Fixpoint bcmp (a b : bytes) : comparison :=
  match a, b with
  | [], [] => Eq
  | [], _ :: _ => Lt
  | _ :: _, [] => Gt
  | x :: a', y :: b' => match x ?= y with Eq => bcmp a' b' | c => c end
  end.

(* ---- Label: #[derive(PartialEq, Eq, Hash, PartialOrd, Ord)] on a 2-field tuple struct *)
Definition label_eqb (a b : label) : bool := beqb (fst a) (fst b) && beqb (snd a) (snd b).
Definition label_cmp (a b : label) : comparison :=
  match bcmp (fst a) (fst b) with Eq => bcmp (snd a) (snd b) | c => c end.
Definition label_ltb (a b : label) : bool :=        (* `a < b`: partial_cmp == Some(Less) *)
  match label_cmp a b with Lt => true | _ => false end.

(* ---- slice::sort_by_key(|l| l.key()): stable sort by label name.  [insert_by_name l s] puts l in
   front of the first element whose name is not smaller, i.e. before its equals: with fold_right
   (elements are inserted last to first) earlier elements stay in front of later equal ones. *)
Fixpoint insert_by_name (l : label) (s : list label) : list label :=
  match s with
  | [] => [l]
  | x :: r => match bcmp (fst x) (fst l) with
              | Lt => x :: insert_by_name l r
              | _ => l :: x :: r
              end
  end.
Definition sort_by_name (ls : list label) : list label := fold_right insert_by_name [] ls.
Definition sort_small := sort_by_name.   (* arm `n if n < 8`: [u8; 8] index map, [..n].sort_by_key *)
Definition sort_big := sort_by_name.     (* arm `n`: Vec<usize> index map, sort_by_key *)

Definition nlen (ls : list label) : N := N.of_nat (length ls).
Definition lab (ls : list label) (i : nat) : label := nth i ls ([], []).   (* labels[i] *)
Definition order2 (a0 a1 : label) : list label :=    (* the order used by Hash for two labels *)
  if label_ltb a0 a1 then [a0; a1] else [a1; a0].

(* ---- Hash: the exact sequence of Hasher method calls *)
Inductive hev :=
| HW (bs : bytes)      (* Hasher::write(bytes) *)
| HB (b : N)           (* Hasher::write_u8 *)
| HU (n : N).          (* Hasher::write_usize *)
Definition hash_str (s : bytes) : list hev := [HW s; HB 255].   (* str::hash -> write_str -> write; write_u8(0xff) *)
Definition hash_label (l : label) : list hev := hash_str (fst l) ++ hash_str (snd l).
Definition hash_labels (ls : list label) : list hev := flat_map hash_label ls.

Definition hash_feed (k : key) : list hev :=          (* key_hasher_impl *)
  let '(name, ls) := k in
  hash_str name ++ [HU (nlen ls)] ++
  match ls with
  | [] => []
  | [_] => hash_label (lab ls 0)
  | [_; _] => if label_ltb (lab ls 0) (lab ls 1)
              then hash_label (lab ls 0) ++ hash_label (lab ls 1)
              else hash_label (lab ls 1) ++ hash_label (lab ls 0)
  | _ => if nlen ls <? 8 then hash_labels (sort_small ls) else hash_labels (sort_big ls)
  end.

(* ---- PartialEq *)
Fixpoint all_eq_zip (s1 s2 : list label) : bool :=    (* for i in 0..n { if a[i] != b[i] { return false } } true *)
  match s1, s2 with
  | x :: r1, y :: r2 => if label_eqb x y then all_eq_zip r1 r2 else false
  | _, _ => true
  end.

Definition key_eq (a b : key) : bool :=
  let '(n1, l1) := a in
  let '(n2, l2) := b in
  if negb (beqb n1 n2) then false
  else if negb (nlen l1 =? nlen l2) then false
  else match l1 with
       | [] => true
       | [_] => label_eqb (lab l1 0) (lab l2 0)
       | [_; _] => if label_eqb (lab l1 0) (lab l2 0) then label_eqb (lab l1 1) (lab l2 1)
                   else if label_eqb (lab l1 0) (lab l2 1) then label_eqb (lab l1 1) (lab l2 0)
                   else false
       | _ => if nlen l1 <? 8 then all_eq_zip (sort_small l1) (sort_small l2)
              else all_eq_zip (sort_big l1) (sort_big l2)
       end.

(* ---- Ord *)
Fixpoint cmp_zip (s1 s2 : list label) : comparison :=  (* for i in 0..n { match a[i].cmp(b[i]) { Equal => {}, c => return c } } Equal *)
  match s1, s2 with
  | x :: r1, y :: r2 => match label_cmp x y with Eq => cmp_zip r1 r2 | c => c end
  | _, _ => Eq
  end.

Definition key_cmp_gen (two_label_arm : bool) (a b : key) : comparison :=
  let '(n1, l1) := a in
  let '(n2, l2) := b in
  match (match bcmp n1 n2 with Eq => nlen l1 ?= nlen l2 | c => c end) with   (* (&name, len).cmp(..) *)
  | Lt => Lt
  | Gt => Gt
  | Eq =>
    match l1 with
    | [] => Eq
    | [_] => label_cmp (lab l1 0) (lab l2 0)
    | [_; _] =>
        if two_label_arm
        then cmp_zip (order2 (lab l1 0) (lab l1 1)) (order2 (lab l2 0) (lab l2 1))
        else cmp_zip (sort_small l1) (sort_small l2)       (* as found: falls into `n if n < 8` *)
    | _ => if nlen l1 <? 8 then cmp_zip (sort_small l1) (sort_small l2)
           else cmp_zip (sort_big l1) (sort_big l2)
    end
  end.
Definition key_cmp := key_cmp_gen true.               (* the code after the fix commit *)
Definition key_cmp_before_fix := key_cmp_gen false.   (* the code as found *)

(* ---- KeyHasher (common.rs) forwards only `write`; write_u8 / write_usize reach it through the
   Hasher defaults as write(&[b]) / write(&n.to_ne_bytes()) (8 bytes, little endian, on the 64-bit
   little-endian target).  [chunks] is the sequence of byte slices KeyHasher::write receives. *)
Definition le64 (n : N) : bytes :=
  map (fun i => (n / 2 ^ (8 * i)) mod 256) [0; 1; 2; 3; 4; 5; 6; 7].
Definition chunk (e : hev) : bytes :=
  match e with HW bs => bs | HB b => [b] | HU n => le64 n end.
Definition chunks (f : list hev) : list bytes := map chunk f.

(* ---- the Key value with its memo, constructors, clone, get_hash (sequential state machine).
   [H] stands for AHash with its fixed default keys: KeyHasher::default() fed the chunks, finish(). *)
Record mkey := { m_key : key; m_hashed : bool; m_hash : N }.

Section Memo.
  Variable H : list bytes -> N.

  Definition generate_key_hash (k : key) : N := H (chunks (hash_feed k)).
  Definition builder (k : key) : mkey :=
    {| m_key := k; m_hashed := true; m_hash := generate_key_hash k |}.
  Definition from_name (name : bytes) : mkey := builder (name, []).
  Definition from_parts (name : bytes) (ls : list label) : mkey := builder (name, ls).
  Definition from_static_parts (name : bytes) (ls : list label) : mkey :=
    {| m_key := (name, ls); m_hashed := false; m_hash := 0 |}.
  Definition from_static_labels := from_static_parts.
  Definition from_static_name (name : bytes) : mkey := from_static_parts name [].
  Definition clone (m : mkey) : mkey :=
    {| m_key := m_key m; m_hashed := m_hashed m; m_hash := m_hash m |}.
  Definition with_extra_labels (m : mkey) (extra : list label) : mkey :=
    match extra with
    | [] => clone m
    | _ => builder (fst (m_key m), snd (m_key m) ++ extra)
    end.
  (* get_hash: returns the value and the key's state afterwards *)
  Definition get_hash (m : mkey) : N * mkey :=
    if m_hashed m then (m_hash m, m)
    else let h := generate_key_hash (m_key m) in
         (h, {| m_key := m_key m; m_hashed := true; m_hash := h |}).
End Memo.

(* ---- how a key of a case is built: constructor, then with_extra_labels calls, then clone / get_hash calls *)
Inductive ctor :=
| CBuilder     (* from_name, from_parts, From<..>: go through Key::builder, hash computed eagerly *)
| CStatic.     (* from_static_name / from_static_parts / from_static_labels: hashed = false *)
Inductive postop := PClone | PHash.
Record build := {
  b_ctor : ctor; b_name : bytes; b_first : list label;
  b_extra : list (list label);       (* one with_extra_labels call per element *)
  b_ops : list postop }.

Section Construct.
  Variable H : list bytes -> N.
  Definition construct0 (b : build) : mkey :=
    match b_ctor b with
    | CBuilder => from_parts H (b_name b) (b_first b)
    | CStatic => from_static_parts (b_name b) (b_first b)
    end.
  Definition post (m : mkey) (o : postop) : mkey :=
    match o with PClone => clone m | PHash => snd (get_hash H m) end.
  Definition construct (b : build) : mkey :=
    fold_left post (b_ops b) (fold_left (with_extra_labels H) (b_extra b) (construct0 b)).
End Construct.
