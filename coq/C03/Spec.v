(* C03 — the property, stated without reference to how key.rs computes anything.

   [coherent eq cmp feed] collects the clauses "equality is an equivalence, cmp a total order,
   a == b exactly when cmp is Equal, equal keys feed a hasher identically"; [eq_sound] says that
   equal keys really have the same name and the same labels up to order; [order_irrelevant] is the
   label-order clause; [logical_key] is what a key built through any path must behave as.
   The boolean functions at the end are the deciders used by Exec.spec_ok on observed outputs.  *)
From Coq Require Import List NArith Bool Permutation.
Import ListNotations.
Require Import MV.C03.Model.
Open Scope N_scope.

Record coherent {K F : Type} (eq : K -> K -> bool) (cmp : K -> K -> comparison) (feed : K -> F) : Prop := {
  co_refl : forall a, eq a a = true;
  co_sym : forall a b, eq a b = eq b a;
  co_trans : forall a b c, eq a b = true -> eq b c = true -> eq a c = true;
  co_eq_iff_cmp : forall a b, eq a b = true <-> cmp a b = Eq;
  co_cmp_refl : forall a, cmp a a = Eq;
  co_cmp_antisym : forall a b, cmp b a = CompOpp (cmp a b);
  co_cmp_trans : forall a b c, cmp a b = Lt -> cmp b c = Lt -> cmp a c = Lt;
  co_cmp_cong : forall a b c, cmp a b = Eq -> cmp a c = cmp b c;
  co_feed : forall a b, eq a b = true -> feed a = feed b }.

(* equal keys denote the same series: same name, same labels up to order *)
Definition eq_sound (eq : key -> key -> bool) : Prop :=
  forall a b, eq a b = true -> fst a = fst b /\ Permutation (snd a) (snd b).

(* the label-order clause: with pairwise distinct label names the supplied order is irrelevant *)
Definition relabelled (a b : key) : Prop :=
  fst a = fst b /\ NoDup (map fst (snd a)) /\ Permutation (snd a) (snd b).
Definition order_irrelevant {F} (eq : key -> key -> bool) (cmp : key -> key -> comparison) (feed : key -> F) : Prop :=
  forall a b, relabelled a b -> eq a b = true /\ cmp a b = Eq /\ feed a = feed b.

(* construction-path independence: whatever the constructor, the string flavours, the split between
   constructor labels and with_extra_labels calls, and the clone/get_hash calls made in between,
   the key is the name with all the labels in the order supplied *)
Definition logical_key (b : build) : key := (b_name b, b_first b ++ concat (b_extra b)).

(* ---- deciders *)
Fixpoint bytes_eqb (a b : bytes) : bool :=
  match a, b with
  | [], [] => true
  | x :: a', y :: b' => (x =? y) && bytes_eqb a' b'
  | _, _ => false
  end.
Definition lab_eqb (a b : label) : bool := bytes_eqb (fst a) (fst b) && bytes_eqb (snd a) (snd b).
Fixpoint labs_eqb (a b : list label) : bool :=
  match a, b with
  | [], [] => true
  | x :: a', y :: b' => lab_eqb x y && labs_eqb a' b'
  | _, _ => false
  end.
Definition same_keyb (a b : key) : bool := bytes_eqb (fst a) (fst b) && labs_eqb (snd a) (snd b).
Fixpoint memb (x : bytes) (l : list bytes) : bool :=
  match l with [] => false | y :: r => bytes_eqb x y || memb x r end.
Fixpoint nodupb (l : list bytes) : bool :=
  match l with [] => true | x :: r => negb (memb x r) && nodupb r end.
Fixpoint countb (x : label) (l : list label) : nat :=
  match l with [] => O | y :: r => if lab_eqb x y then S (countb x r) else countb x r end.
(* same name, same length, every label of a occurs as often in b *)
Definition same_seriesb (a b : key) : bool :=
  bytes_eqb (fst a) (fst b) && Nat.eqb (length (snd a)) (length (snd b)) &&
  forallb (fun l => Nat.eqb (countb l (snd a)) (countb l (snd b))) (snd a).
Definition relabelledb (a b : key) : bool := nodupb (map fst (snd a)) && same_seriesb a b.
