(* C03 — executable entry points used by the correspondence check (cases.v).

   A case is a list of key constructions (three, usually).  The output is, per key: the `hashed`
   flag after construction, whether get_hash() is consistent (equal to KeyHasher over the recorded
   feed, stable over repeated calls, clones made before/after, Hashable::hashable), the hash class
   (index of the first key of the case with the same get_hash() value) and the recorded sequence of
   Hasher calls; then the matrices of `==` and `cmp` over all ordered pairs of keys.               *)
From Coq Require Import List NArith Bool.
Import ListNotations.
Require Export MV.C03.Model MV.C03.Spec.
Open Scope N_scope.

Definition case := list build.
Record kout := { o_hashed0 : bool; o_ghok : bool; o_class : N; o_feed : list hev }.
(* [e], [c]: == and cmp over all ordered pairs of the keys AS BUILT (a static/const-built key that was never
   asked for its hash is still un-hashed, a from_parts key carries its hash from birth).
   [xe], [xc]: the same matrices observed [n_extra] more times with operands whose content is the same but whose
   construction / memo state differs:
     0  twin_i   vs twin_j      twin = the same name and labels rebuilt the OTHER way (un-hashed
                                from_static_parts on fresh static storage if the key carries a hash, else
                                from_parts on owned strings, hashed at birth)
     1  key_i    vs twin_j
     2  clone of key_i taken as built  vs  key_j after get_hash() was forced on it
     3  key_i    vs key_j       both after get_hash() was forced
   The model's == and cmp read the name and the labels only, so all of these are the same matrix. *)
Definition n_extra : nat := 4.
Inductive OUT :=
| OPanic
| OOk (ks : list kout) (e : list (list bool)) (c : list (list comparison)) (aux : bool)
      (xe : list (list (list bool))) (xc : list (list (list comparison))).

(* any function will do for running the memo state machine; the theorems hold for every H *)
Definition toyH (cs : list bytes) : N :=
  fold_left (fun acc ch => fold_left (fun a b => (a * 31 + b + 1) mod 18446744073709551616) ch (acc * 7 + 3)) cs 0.

Definition hev_eqb (a b : hev) : bool :=
  match a, b with
  | HW x, HW y => bytes_eqb x y
  | HB x, HB y => x =? y
  | HU x, HU y => x =? y
  | _, _ => false
  end.
Fixpoint feed_eqb (a b : list hev) : bool :=
  match a, b with
  | [], [] => true
  | x :: a', y :: b' => hev_eqb x y && feed_eqb a' b'
  | _, _ => false
  end.
Definition cmp_eqb (a b : comparison) : bool :=
  match a, b with Eq, Eq | Lt, Lt | Gt, Gt => true | _, _ => false end.

(* index of the first feed equal to f (get_hash = H(chunks feed), so equal feeds <=> equal class,
   up to a 64-bit collision of AHash between different feeds of one case) *)
Fixpoint class_of (f : list hev) (fs : list (list hev)) : N :=
  match fs with
  | [] => 0
  | g :: r => if feed_eqb f g then 0 else 1 + class_of f r
  end.

Definition memo_ok (m : mkey) : bool :=
  let '(h1, m1) := get_hash toyH m in
  let '(h2, _) := get_hash toyH m1 in
  let '(h5, _) := get_hash toyH (clone m) in
  let '(h6, _) := get_hash toyH (clone m1) in
  (h1 =? generate_key_hash toyH (m_key m)) && m_hashed m1 && m_hashed (clone m1)
  && (h1 =? h2) && (h1 =? h5) && (h1 =? h6).

Definition run_case (c : case) : OUT :=
  let ms := map (construct toyH) c in
  let ks := map m_key ms in
  let fs := map hash_feed ks in
  OOk (map (fun m => {| o_hashed0 := m_hashed m; o_ghok := memo_ok m;
                        o_class := class_of (hash_feed (m_key m)) fs; o_feed := hash_feed (m_key m) |}) ms)
      (map (fun a => map (key_eq a) ks) ks)
      (map (fun a => map (key_cmp a) ks) ks)
      true
      (repeat (map (fun a => map (key_eq a) ks) ks) n_extra)
      (repeat (map (fun a => map (key_cmp a) ks) ks) n_extra).

(* ---- equality on outputs *)
Definition kout_eqb (a b : kout) : bool :=
  eqb (o_hashed0 a) (o_hashed0 b) && eqb (o_ghok a) (o_ghok b) && (o_class a =? o_class b)
  && feed_eqb (o_feed a) (o_feed b).
Fixpoint list_eqb {A} (f : A -> A -> bool) (a b : list A) : bool :=
  match a, b with
  | [], [] => true
  | x :: a', y :: b' => f x y && list_eqb f a' b'
  | _, _ => false
  end.
Definition out_eqb (a b : OUT) : bool :=
  match a, b with
  | OPanic, OPanic => true
  | OOk k1 e1 c1 x1 xe1 xc1, OOk k2 e2 c2 x2 xe2 xc2 =>
      list_eqb kout_eqb k1 k2 && list_eqb (list_eqb eqb) e1 e2 && list_eqb (list_eqb cmp_eqb) c1 c2 && eqb x1 x2
      && list_eqb (list_eqb (list_eqb eqb)) xe1 xe2 && list_eqb (list_eqb (list_eqb cmp_eqb)) xc1 xc2
  | _, _ => false
  end.

(* ---- the property in executable form, evaluated on an OBSERVED output: the clauses of
   Spec.coherent / eq_sound / order_irrelevant / construction-path independence restricted to the
   keys of the case (keys taken as Spec.logical_key of their constructions) *)
Definition getb (m : list (list bool)) (i j : nat) : bool := nth j (nth i m []) false.
Definition getc (m : list (list comparison)) (i j : nat) : comparison := nth j (nth i m []) Eq.
Definition dkout : kout := {| o_hashed0 := false; o_ghok := false; o_class := 0; o_feed := [] |}.
Definition is_lt (c : comparison) := cmp_eqb c Lt.
Definition is_eq (c : comparison) := cmp_eqb c Eq.

Definition pair_ok (keys : list key) (ks : list kout) e cm (i j : nat) : bool :=
  let a := nth i keys ([], []) in
  let b := nth j keys ([], []) in
  let eij := getb e i j in
  eqb eij (is_eq (getc cm i j))                                   (* a == b  <->  cmp = Equal *)
  && cmp_eqb (getc cm j i) (CompOpp (getc cm i j))                (* antisymmetry *)
  && eqb eij (getb e j i)                                         (* symmetry *)
  && implb eij (feed_eqb (o_feed (nth i ks dkout)) (o_feed (nth j ks dkout))    (* same Hash feed *)
                && (o_class (nth i ks dkout) =? o_class (nth j ks dkout))       (* same get_hash() *)
                && same_seriesb a b)                                            (* really the same series *)
  && implb (same_keyb a b || relabelledb a b) eij.                (* construction path / label order irrelevant *)

Definition triple_ok e cm (i j k : nat) : bool :=
  implb (getb e i j && getb e j k) (getb e i k)
  && implb (is_lt (getc cm i j) && is_lt (getc cm j k)) (is_lt (getc cm i k))
  && implb (is_eq (getc cm i j)) (cmp_eqb (getc cm i k) (getc cm j k)).

Definition spec_ok (c : case) (o : OUT) : bool :=
  match o with
  | OPanic => false
  | OOk ks e cm aux xe xc =>
      let keys := map logical_key c in
      let n := length c in
      let idx := seq 0 n in
      aux
      && Nat.eqb (length ks) n && Nat.eqb (length e) n && Nat.eqb (length cm) n
      && forallb (fun r => Nat.eqb (length r) n) e && forallb (fun r => Nat.eqb (length r) n) cm
      && forallb (fun i => o_ghok (nth i ks dkout) && getb e i i && is_eq (getc cm i i)) idx
      && forallb (fun i => forallb (fun j => pair_ok keys ks e cm i j) idx) idx
      && forallb (fun i => forallb (fun j => forallb (fun k => triple_ok e cm i j k) idx) idx) idx
      (* == and cmp are functions of the content: unchanged by get_hash()/clone on either operand and by
         replacing operands by differently built twins (so the order clauses above hold for those too) *)
      && Nat.eqb (length xe) n_extra && Nat.eqb (length xc) n_extra
      && forallb (fun m => list_eqb (list_eqb eqb) m e) xe
      && forallb (fun m => list_eqb (list_eqb cmp_eqb) m cm) xc
  end.

Definition known_class (c : case) : option N := None.

Definition verdicts (l : list (N * case * OUT)) : list (N * bool * bool * option N) :=
  map (fun '(i, c, o) => (i, out_eqb (run_case c) o, spec_ok c o, known_class c)) l.
