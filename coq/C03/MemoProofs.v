(* C03 — the get_hash memo as a sequential state machine, for an arbitrary hash function H:
   every key reachable through the constructors, with_extra_labels, clone and get_hash has a memo
   that is either empty or holds H of its own feed; get_hash always returns H (chunks (hash_feed k));
   and the key content depends only on the name and the labels in the order supplied. *)
From Coq Require Import List NArith Bool.
Import ListNotations.
Require Import MV.C03.Model MV.C03.Spec MV.C03.Proofs.
Open Scope N_scope.

Section Memo.
  Variable H : list bytes -> N.

  Definition wf (m : mkey) : Prop := m_hashed m = true -> m_hash m = generate_key_hash H (m_key m).

  Lemma wf_builder k : wf (builder H k).
  Proof. intros _. reflexivity. Qed.
  Lemma wf_static n ls : wf (from_static_parts n ls).
  Proof. intros E. discriminate. Qed.
  Lemma wf_clone m : wf m -> wf (clone m).
  Proof. intros W E. apply W. exact E. Qed.
  Lemma wf_extra m x : wf m -> wf (with_extra_labels H m x).
  Proof. intros W. destruct x; [apply wf_clone; exact W|apply wf_builder]. Qed.
  Lemma wf_get_hash m : wf m -> wf (snd (get_hash H m)).
  Proof. intros W. unfold get_hash. destruct (m_hashed m) eqn:E; cbn [snd]; auto. intros _. reflexivity. Qed.

  Lemma get_hash_value m : wf m -> fst (get_hash H m) = generate_key_hash H (m_key m).
  Proof. intros W. unfold get_hash. destruct (m_hashed m) eqn:E; cbn [fst]; auto. Qed.
  Lemma get_hash_key m : m_key (snd (get_hash H m)) = m_key m.
  Proof. unfold get_hash. destruct (m_hashed m); reflexivity. Qed.
  Lemma get_hash_hashed m : m_hashed (snd (get_hash H m)) = true.
  Proof. unfold get_hash. destruct (m_hashed m) eqn:E; cbn [snd]; auto. Qed.

  Lemma extra_key m x : m_key (with_extra_labels H m x) = (fst (m_key m), snd (m_key m) ++ x).
  Proof. destruct x; cbn; [rewrite app_nil_r; destruct (m_key m); reflexivity|reflexivity]. Qed.

  Lemma extras_key xs : forall m,
    m_key (fold_left (with_extra_labels H) xs m) = (fst (m_key m), snd (m_key m) ++ concat xs).
  Proof.
    induction xs as [|x r IH]; intros m; cbn [fold_left concat].
    - rewrite app_nil_r. destruct (m_key m); reflexivity.
    - rewrite IH, extra_key. cbn [fst snd]. rewrite app_assoc. reflexivity.
  Qed.
  Lemma extras_wf xs : forall m, wf m -> wf (fold_left (with_extra_labels H) xs m).
  Proof. induction xs; intros m W; cbn [fold_left]; auto using wf_extra. Qed.

  Lemma post_key m o : m_key (post H m o) = m_key m.
  Proof. destruct o; [reflexivity|apply get_hash_key]. Qed.
  Lemma post_wf m o : wf m -> wf (post H m o).
  Proof. destruct o; [apply wf_clone|apply wf_get_hash]. Qed.
  Lemma posts_key os : forall m, m_key (fold_left (post H) os m) = m_key m.
  Proof. induction os; intros m; cbn [fold_left]; auto. rewrite IHos. apply post_key. Qed.
  Lemma posts_wf os : forall m, wf m -> wf (fold_left (post H) os m).
  Proof. induction os; intros m W; cbn [fold_left]; auto using post_wf. Qed.

  Lemma construct0_key b : m_key (construct0 H b) = (b_name b, b_first b).
  Proof. unfold construct0. destruct (b_ctor b); reflexivity. Qed.
  Lemma construct0_wf b : wf (construct0 H b).
  Proof. unfold construct0. destruct (b_ctor b); [apply wf_builder|apply wf_static]. Qed.

  Lemma construct_key b : m_key (construct H b) = logical_key b.
  Proof. unfold construct. rewrite posts_key, extras_key, construct0_key. reflexivity. Qed.
  Lemma construct_wf b : wf (construct H b).
  Proof. unfold construct. apply posts_wf, extras_wf, construct0_wf. Qed.

  Lemma get_hash_construct b :
    fst (get_hash H (construct H b)) = H (chunks (hash_feed (logical_key b))).
  Proof. rewrite get_hash_value by apply construct_wf. rewrite construct_key. reflexivity. Qed.

  (* any further clone / get_hash calls: still the same value *)
  Lemma get_hash_after_ops b os :
    fst (get_hash H (fold_left (post H) os (construct H b))) = H (chunks (hash_feed (logical_key b))).
  Proof.
    rewrite get_hash_value by (apply posts_wf, construct_wf).
    rewrite posts_key, construct_key. reflexivity.
  Qed.

  (* ==, cmp and the Hash feed of built keys do not depend on the memo state (hashed at birth, never hashed,
     hashed later, cloned) nor on the construction path: they are those of the logical keys *)
  Definition built (b : build) (os : list postop) : mkey := fold_left (post H) os (construct H b).

  Lemma built_key b os : m_key (built b os) = logical_key b.
  Proof. unfold built. rewrite posts_key. apply construct_key. Qed.

  Lemma built_observations b1 b2 os1 os2 :
    key_cmp (m_key (built b1 os1)) (m_key (built b2 os2)) = key_cmp (logical_key b1) (logical_key b2)
    /\ key_eq (m_key (built b1 os1)) (m_key (built b2 os2)) = key_eq (logical_key b1) (logical_key b2)
    /\ hash_feed (m_key (built b1 os1)) = hash_feed (logical_key b1).
  Proof. rewrite !built_key. auto. Qed.

  Lemma twins_observations b1 b1' b2 b2' os1 os1' os2 os2' :
    logical_key b1 = logical_key b1' -> logical_key b2 = logical_key b2' ->
    key_cmp (m_key (built b1 os1)) (m_key (built b2 os2)) = key_cmp (m_key (built b1' os1')) (m_key (built b2' os2'))
    /\ key_eq (m_key (built b1 os1)) (m_key (built b2 os2)) = key_eq (m_key (built b1' os1')) (m_key (built b2' os2')).
  Proof. intros E1 E2. rewrite !built_key, E1, E2. auto. Qed.

  Lemma get_hash_equal_keys b1 b2 :
    key_eq (logical_key b1) (logical_key b2) = true ->
    fst (get_hash H (construct H b1)) = fst (get_hash H (construct H b2)).
  Proof.
    intros E. rewrite !get_hash_construct. apply key_eq_same_feed in E. rewrite E. reflexivity.
  Qed.
End Memo.
