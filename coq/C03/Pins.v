From Coq Require Import List NArith Bool Permutation Sorted.
Require Import MV.Common.Interleave MV.C03.MemoRace MV.C03.MemoRaceProofs.
Import ListNotations.
Require Import MV.C03.Model MV.C03.Spec MV.C03.Exec MV.C03.Order MV.C03.StableSort MV.C03.Proofs MV.C03.MemoProofs MV.C03.ExecProofs.
Open Scope N_scope.
Require Import MV.C03.Properties.

Check (C03_eq_equivalence : (forall a, key_eq a a = true) /\
  (forall a b, key_eq a b = key_eq b a) /\
  (forall a b c, key_eq a b = true -> key_eq b c = true -> key_eq a c = true)).
Print Assumptions C03_eq_equivalence.
Check (C03_cmp_total_order : (forall a, key_cmp a a = Eq) /\
  (forall a b, key_cmp b a = CompOpp (key_cmp a b)) /\
  (forall a b c, key_cmp a b = Lt -> key_cmp b c = Lt -> key_cmp a c = Lt) /\
  (forall a b c, key_cmp a b = Eq -> key_cmp a c = key_cmp b c)).
Print Assumptions C03_cmp_total_order.
Check (C03_eq_iff_cmp_Eq : forall a b, key_eq a b = true <-> key_cmp a b = Eq).
Print Assumptions C03_eq_iff_cmp_Eq.
Check (C03_eq_implies_same_feed : forall a b, key_eq a b = true -> hash_feed a = hash_feed b).
Print Assumptions C03_eq_implies_same_feed.
Check (C03_eq_implies_same_hash_for_every_hasher : forall (S : Type) (step : S -> hev -> S) (s0 : S) a b,
    key_eq a b = true -> fold_left step (hash_feed a) s0 = fold_left step (hash_feed b) s0).
Print Assumptions C03_eq_implies_same_hash_for_every_hasher.
Check (C03_same_feed_implies_eq : forall a b, hash_feed a = hash_feed b -> key_eq a b = true).
Print Assumptions C03_same_feed_implies_eq.
Check (C03_eq_sound : forall a b, key_eq a b = true -> fst a = fst b /\ Permutation (snd a) (snd b)).
Print Assumptions C03_eq_sound.
Check (C03_coherent : coherent key_eq key_cmp hash_feed).
Print Assumptions C03_coherent.
Check (C03_label_order_irrelevant : forall a b,
  fst a = fst b /\ NoDup (map fst (snd a)) /\ Permutation (snd a) (snd b) ->
  key_eq a b = true /\ key_cmp a b = Eq /\ hash_feed a = hash_feed b).
Print Assumptions C03_label_order_irrelevant.
Check (C03_construction_path_irrelevant : forall H b,
  m_key (construct H b) = (b_name b, b_first b ++ concat (b_extra b))).
Print Assumptions C03_construction_path_irrelevant.
Check (C03_get_hash_is_hash_of_feed : forall H b os,
  fst (get_hash H (fold_left (post H) os (construct H b)))
  = H (chunks (hash_feed (b_name b, b_first b ++ concat (b_extra b))))).
Print Assumptions C03_get_hash_is_hash_of_feed.
Check (C03_eq_implies_same_get_hash : forall H b1 b2,
  key_eq (m_key (construct H b1)) (m_key (construct H b2)) = true ->
  fst (get_hash H (construct H b1)) = fst (get_hash H (construct H b2))).
Print Assumptions C03_eq_implies_same_get_hash.
Check (C03_observations_ignore_memo_and_construction : forall H b1 b2 os1 os2,
  key_cmp (m_key (built H b1 os1)) (m_key (built H b2 os2)) = key_cmp (logical_key b1) (logical_key b2)
  /\ key_eq (m_key (built H b1 os1)) (m_key (built H b2 os2)) = key_eq (logical_key b1) (logical_key b2)
  /\ hash_feed (m_key (built H b1 os1)) = hash_feed (logical_key b1)).
Print Assumptions C03_observations_ignore_memo_and_construction.
Check (C03_twins_compare_alike : forall H b1 b1' b2 b2' os1 os1' os2 os2',
  logical_key b1 = logical_key b1' -> logical_key b2 = logical_key b2' ->
  key_cmp (m_key (built H b1 os1)) (m_key (built H b2 os2)) = key_cmp (m_key (built H b1' os1')) (m_key (built H b2' os2'))
  /\ key_eq (m_key (built H b1 os1)) (m_key (built H b2 os2)) = key_eq (m_key (built H b1' os1')) (m_key (built H b2' os2'))).
Print Assumptions C03_twins_compare_alike.
Check (C03_sort_is_the_stable_sort : forall ls,
  StronglySorted le_name (sort_by_name ls) /\
  Permutation (sort_by_name ls) ls /\
  (forall n, filter (has_name n) (sort_by_name ls) = filter (has_name n) ls) /\
  (forall s, StronglySorted le_name s -> (forall n, filter (has_name n) s = filter (has_name n) ls) ->
             s = sort_by_name ls)).
Print Assumptions C03_sort_is_the_stable_sort.
Check (C03_spec_ok_on_model : forall c, spec_ok c (run_case c) = true).
Print Assumptions C03_spec_ok_on_model.
Check (C03_spec_ok_sound : forall c o, spec_ok c o = true ->
  exists ks e cm xe xc, o = OOk ks e cm true xe xc /\
  length xe = n_extra /\ length xc = n_extra /\
  Forall (fun m => m = e) xe /\ Forall (fun m => m = cm) xc /\
  let keys := map logical_key c in
  forall i j, (i < length c)%nat -> (j < length c)%nat ->
    let a := nth i keys dkey in
    let b := nth j keys dkey in
    o_ghok (nth i ks dkout) = true
    /\ getb e i i = true /\ getc cm i i = Eq
    /\ (getb e i j = true <-> getc cm i j = Eq)
    /\ getc cm j i = CompOpp (getc cm i j)
    /\ getb e i j = getb e j i
    /\ (getb e i j = true ->
          o_feed (nth i ks dkout) = o_feed (nth j ks dkout)
          /\ o_class (nth i ks dkout) = o_class (nth j ks dkout)
          /\ fst a = fst b /\ length (snd a) = length (snd b)
          /\ forall l, In l (snd a) -> countb l (snd a) = countb l (snd b))
    /\ (a = b \/ relabelledb a b = true -> getb e i j = true)
    /\ forall k, (k < length c)%nat ->
         (getb e i j = true -> getb e j k = true -> getb e i k = true)
         /\ (getc cm i j = Lt -> getc cm j k = Lt -> getc cm i k = Lt)
         /\ (getc cm i j = Eq -> getc cm i k = getc cm j k)).
Print Assumptions C03_spec_ok_sound.
Check (C03_eq_iff_cmp_Eq_refuted_before_fix : exists a b, key_eq a b = true /\ hash_feed a = hash_feed b /\ key_cmp_before_fix a b = Lt
              /\ key_cmp_before_fix b a = Gt).
Print Assumptions C03_eq_iff_cmp_Eq_refuted_before_fix.
Check (C03_before_fix_differs_only_on_two_labels : forall a b,
  length (snd a) <> 2%nat -> key_cmp_before_fix a b = key_cmp a b).
Print Assumptions C03_before_fix_differs_only_on_two_labels.
Check (C03_before_fix_differs_only_when_two_labels_share_a_name : forall n1 n2 a0 a1 b0 b1,
  fst a0 <> fst a1 -> fst b0 <> fst b1 ->
  key_cmp_before_fix (n1, [a0; a1]) (n2, [b0; b1]) = key_cmp (n1, [a0; a1]) (n2, [b0; b1])).
Print Assumptions C03_before_fix_differs_only_when_two_labels_share_a_name.
Check (C03_label_order_matters_with_repeated_names : exists a b, fst a = fst b /\ Permutation (snd a) (snd b) /\ key_eq a b = false /\ key_cmp a b = Lt).
Print Assumptions C03_label_order_matters_with_repeated_names.
Check (C03_get_hash_stable_under_races : forall (h : N) ps sched,
  Forall (fun l => Forall (fun r => r = h) (MemoRace.results l))
         (snd (fst (exec (MemoRace.step h) MemoRace.site (MemoRace.init_config ps) sched)))).
Print Assumptions C03_get_hash_stable_under_races.
