(* C03 — the memoised hash of a shared key under races (metrics/src/key.rs get_hash / Clone).

   Atomic steps = yield sites: 301 hashed.load · 302 hash.load · 303 hash.store · 304 hashed.store
   (get_hash) and 305 hashed.load · 306 hash.load (Clone).  One key is shared by all threads; a
   clone is private to the thread that made it (its own get_hash runs the same code on private
   cells and still passes the yield points).  [h] is the true hash H(hash_feed k) of the key.   *)
From Coq Require Import List NArith Bool.
Import ListNotations.
Require Import MV.Common.Interleave.
Open Scope N_scope.

Inductive call := CGet | CCloneGet.          (* get_hash on the shared key | clone it, get_hash on the clone *)

Inductive pc :=
| Start
| G0 | G1 | G2 | G3                          (* shared key: 301, 302, 303, 304 *)
| K0 | K1 (b : bool)                         (* clone: 305, 306 (b = hashed value read) *)
| C0 (b : bool) (v : N) | C1 (v : N) | C2 | C3   (* clone's own get_hash: 301, 302, 303, 304 *)
| Done.

Record local := { pcl : pc; todo : list call; results : list N (* newest first *) }.
Record shared := { hashed : bool; hsh : N }.

Definition enter (td : list call) (rs : list N) : local :=
  match td with
  | [] => {| pcl := Done; todo := []; results := rs |}
  | CGet :: r => {| pcl := G0; todo := r; results := rs |}
  | CCloneGet :: r => {| pcl := K0; todo := r; results := rs |}
  end.

Section Memo.
  Variable h : N.

  Definition step (s : shared) (l : local) : option (shared * local) :=
    let mk p := {| pcl := p; todo := todo l; results := results l |} in
    match pcl l with
    | Start => Some (s, enter (todo l) (results l))
    | G0 => Some (s, mk (if hashed s then G1 else G2))
    | G1 => Some (s, enter (todo l) (hsh s :: results l))
    | G2 => Some ({| hashed := hashed s; hsh := h |}, mk G3)
    | G3 => Some ({| hashed := true; hsh := hsh s |}, enter (todo l) (h :: results l))
    | K0 => Some (s, mk (K1 (hashed s)))
    | K1 b => Some (s, mk (C0 b (hsh s)))
    | C0 b v => Some (s, mk (if b then C1 v else C2))
    | C1 v => Some (s, enter (todo l) (v :: results l))
    | C2 => Some (s, mk C3)
    | C3 => Some (s, enter (todo l) (h :: results l))
    | Done => None
    end.
End Memo.

Definition site (l : local) : N :=
  match pcl l with
  | Start | Done => 0
  | G0 | C0 _ _ => 301 | G1 | C1 _ => 302 | G2 | C2 => 303 | G3 | C3 => 304
  | K0 => 305 | K1 _ => 306
  end.

Definition init_shared : shared := {| hashed := false; hsh := 0 |}.
Definition init_local (p : list call) : local := {| pcl := Start; todo := p; results := [] |}.
Definition init_config (ps : list (list call)) : config := (init_shared, map init_local ps).
