(* C03 — property theorems (statements only; proofs are in Order.v, StableSort.v, Proofs.v,
   MemoProofs.v, ExecProofs.v).

   Reading guide.  A key is (name, labels in the order supplied); strings are byte lists.
   [key_eq], [key_cmp], [hash_feed] are the arm-by-arm models of PartialEq, Ord::cmp (after the fix
   commit; [key_cmp_before_fix] is the code as found) and Hash for Key (the exact sequence of Hasher
   calls).  [construct H b] builds a key through a constructor, with_extra_labels calls and
   clone/get_hash calls; [get_hash H m] is the memoised hash for an arbitrary hash function H (AHash).
   All statements are over all names and all label lists of any length.                           *)
From Coq Require Import List NArith Bool Permutation Sorted.
Require Import MV.Common.Interleave MV.C03.MemoRace MV.C03.MemoRaceProofs.
Import ListNotations.
Require Import MV.C03.Model MV.C03.Spec MV.C03.Exec MV.C03.Order MV.C03.StableSort MV.C03.Proofs MV.C03.MemoProofs MV.C03.ExecProofs.
Open Scope N_scope.

Theorem C03_eq_equivalence :
  (forall a, key_eq a a = true) /\
  (forall a b, key_eq a b = key_eq b a) /\
  (forall a b c, key_eq a b = true -> key_eq b c = true -> key_eq a c = true).
Proof. exact (conj key_eq_refl (conj key_eq_sym key_eq_trans)). Qed.

Theorem C03_cmp_total_order :
  (forall a, key_cmp a a = Eq) /\
  (forall a b, key_cmp b a = CompOpp (key_cmp a b)) /\
  (forall a b c, key_cmp a b = Lt -> key_cmp b c = Lt -> key_cmp a c = Lt) /\
  (forall a b c, key_cmp a b = Eq -> key_cmp a c = key_cmp b c).
Proof. exact (conj key_cmp_refl (conj key_cmp_antisym (conj key_cmp_trans key_cmp_cong))). Qed.

Theorem C03_eq_iff_cmp_Eq : forall a b, key_eq a b = true <-> key_cmp a b = Eq.
Proof. exact key_eq_iff_cmp. Qed.

Theorem C03_eq_implies_same_feed : forall a b, key_eq a b = true -> hash_feed a = hash_feed b.
Proof. exact key_eq_same_feed. Qed.

(* hence the same std Hash result for every hasher (any state type, any step function) *)
Theorem C03_eq_implies_same_hash_for_every_hasher :
  forall (S : Type) (step : S -> hev -> S) (s0 : S) a b,
    key_eq a b = true -> fold_left step (hash_feed a) s0 = fold_left step (hash_feed b) s0.
Proof. intros S step s0 a b E. rewrite (key_eq_same_feed a b E). reflexivity. Qed.

Theorem C03_same_feed_implies_eq : forall a b, hash_feed a = hash_feed b -> key_eq a b = true.
Proof. exact same_feed_key_eq. Qed.

Theorem C03_eq_sound : forall a b, key_eq a b = true -> fst a = fst b /\ Permutation (snd a) (snd b).
Proof. exact key_eq_sound. Qed.

Theorem C03_coherent : coherent key_eq key_cmp hash_feed.
Proof. exact key_coherent. Qed.

Theorem C03_label_order_irrelevant : forall a b,
  fst a = fst b /\ NoDup (map fst (snd a)) /\ Permutation (snd a) (snd b) ->
  key_eq a b = true /\ key_cmp a b = Eq /\ hash_feed a = hash_feed b.
Proof. exact key_order_irrelevant. Qed.

(* construction path: constructor kind, split into with_extra_labels calls, clones and earlier
   get_hash calls do not change the key content ... *)
Theorem C03_construction_path_irrelevant : forall H b,
  m_key (construct H b) = (b_name b, b_first b ++ concat (b_extra b)).
Proof. exact construct_key. Qed.

(* ... and get_hash, now or after any further clone/get_hash calls, is H of the key's own feed *)
Theorem C03_get_hash_is_hash_of_feed : forall H b os,
  fst (get_hash H (fold_left (post H) os (construct H b)))
  = H (chunks (hash_feed (b_name b, b_first b ++ concat (b_extra b)))).
Proof. exact get_hash_after_ops. Qed.

Theorem C03_eq_implies_same_get_hash : forall H b1 b2,
  key_eq (m_key (construct H b1)) (m_key (construct H b2)) = true ->
  fst (get_hash H (construct H b1)) = fst (get_hash H (construct H b2)).
Proof. intros H b1 b2. rewrite !construct_key. apply get_hash_equal_keys. Qed.

(* ==, cmp and the Hash feed are functions of the content only: whatever the memo state of the two operands
   (hashed at birth, never hashed, hashed by an earlier get_hash, cloned in any of these states) and however
   they were built, they are those of (name, labels in supplied order) ... *)
Theorem C03_observations_ignore_memo_and_construction : forall H b1 b2 os1 os2,
  key_cmp (m_key (built H b1 os1)) (m_key (built H b2 os2)) = key_cmp (logical_key b1) (logical_key b2)
  /\ key_eq (m_key (built H b1 os1)) (m_key (built H b2 os2)) = key_eq (logical_key b1) (logical_key b2)
  /\ hash_feed (m_key (built H b1 os1)) = hash_feed (logical_key b1).
Proof. exact built_observations. Qed.

(* ... so replacing both operands by differently built twins of the same content changes nothing *)
Theorem C03_twins_compare_alike : forall H b1 b1' b2 b2' os1 os1' os2 os2',
  logical_key b1 = logical_key b1' -> logical_key b2 = logical_key b2' ->
  key_cmp (m_key (built H b1 os1)) (m_key (built H b2 os2)) = key_cmp (m_key (built H b1' os1')) (m_key (built H b2' os2'))
  /\ key_eq (m_key (built H b1 os1)) (m_key (built H b2 os2)) = key_eq (m_key (built H b1' os1')) (m_key (built H b2' os2')).
Proof. exact twins_observations. Qed.

(* the model's sort is THE stable sort by label name *)
Theorem C03_sort_is_the_stable_sort : forall ls,
  StronglySorted le_name (sort_by_name ls) /\
  Permutation (sort_by_name ls) ls /\
  (forall n, filter (has_name n) (sort_by_name ls) = filter (has_name n) ls) /\
  (forall s, StronglySorted le_name s -> (forall n, filter (has_name n) s = filter (has_name n) ls) ->
             s = sort_by_name ls).
Proof.
  intros ls. split; [apply sort_sorted|]. split; [apply sort_perm|]. split; [intros n; apply sort_stable|].
  intros s. apply stable_sort_unique.
Qed.

Theorem C03_spec_ok_on_model : forall c, spec_ok c (run_case c) = true.
Proof. exact spec_ok_on_model. Qed.

Theorem C03_spec_ok_sound : forall c o, spec_ok c o = true ->
  exists ks e cm xe xc, o = OOk ks e cm true xe xc /\
  length xe = n_extra /\ length xc = n_extra /\
  Forall (fun m => m = e) xe /\ Forall (fun m => m = cm) xc /\
  let keys := map logical_key c in
  forall i j, (i < length c)%nat -> (j < length c)%nat ->
    let a := nth i keys dkey in
    let b := nth j keys dkey in
    o_ghok (nth i ks dkout) = true
    /\ getb e i i = true /\ getc cm i i = Eq
    /\ (getb e i j = true <-> getc cm i j = Eq)
    /\ getc cm j i = CompOpp (getc cm i j)
    /\ getb e i j = getb e j i
    /\ (getb e i j = true ->
          o_feed (nth i ks dkout) = o_feed (nth j ks dkout)
          /\ o_class (nth i ks dkout) = o_class (nth j ks dkout)
          /\ fst a = fst b /\ length (snd a) = length (snd b)
          /\ forall l, In l (snd a) -> countb l (snd a) = countb l (snd b))
    /\ (a = b \/ relabelledb a b = true -> getb e i j = true)
    /\ forall k, (k < length c)%nat ->
         (getb e i j = true -> getb e j k = true -> getb e i k = true)
         /\ (getc cm i j = Lt -> getc cm j k = Lt -> getc cm i k = Lt)
         /\ (getc cm i j = Eq -> getc cm i k = getc cm j k).
Proof. exact spec_ok_sound. Qed.

(* the code as found (Ord::cmp without a two-label arm) *)
Theorem C03_eq_iff_cmp_Eq_refuted_before_fix :
  exists a b, key_eq a b = true /\ hash_feed a = hash_feed b /\ key_cmp_before_fix a b = Lt
              /\ key_cmp_before_fix b a = Gt.
Proof. exact cmp_before_fix_refuted. Qed.

Theorem C03_before_fix_differs_only_on_two_labels : forall a b,
  length (snd a) <> 2%nat -> key_cmp_before_fix a b = key_cmp a b.
Proof. exact cmp_before_fix_same_unless_two. Qed.

Theorem C03_before_fix_differs_only_when_two_labels_share_a_name : forall n1 n2 a0 a1 b0 b1,
  fst a0 <> fst a1 -> fst b0 <> fst b1 ->
  key_cmp_before_fix (n1, [a0; a1]) (n2, [b0; b1]) = key_cmp (n1, [a0; a1]) (n2, [b0; b1]).
Proof. exact cmp_before_fix_same_when_names_differ. Qed.

(* the NoDup hypothesis of C03_label_order_irrelevant cannot be dropped for three or more labels:
   labels sharing a name keep their supplied order in the canonical form (stable sort by name only) *)
Theorem C03_label_order_matters_with_repeated_names :
  exists a b, fst a = fst b /\ Permutation (snd a) (snd b) /\ key_eq a b = false /\ key_cmp a b = Lt.
Proof.
  exists ([107], [([97], [49]); ([97], [50]); ([98], [48])]), ([107], [([97], [50]); ([97], [49]); ([98], [48])]).
  split; [reflexivity|]. split; [apply perm_swap|]. vm_compute. auto.
Qed.

(* non-vacuity: the hypotheses are satisfiable on non-trivial keys (9 labels rotated; 2 and 3 labels
   with repeated names; empty strings) and the check accepts the model's own output on them *)
Example C03_nonvacuous_order :
  let ls := map (fun i => ([110; i], [i])) [48; 49; 50; 51; 52; 53; 54; 55; 56] in
  let a : key := ([107], ls) in
  let b : key := ([107], tl ls ++ [hd ([], []) ls]) in
  a <> b /\ relabelled a b /\ key_eq a b = true /\ key_cmp a b = Eq /\ hash_feed a = hash_feed b.
Proof.
  cbv zeta. split; [discriminate|]. split.
  - apply relabelledb_relabelled. vm_compute. reflexivity.
  - vm_compute. auto.
Qed.

Example C03_nonvacuous_case :
  let l1 := ([], []) in let l2 := ([], [98]) in let l3 := ([97], []) in
  let c := [ {| b_ctor := CStatic; b_name := [98]; b_first := [l1; l2]; b_extra := []; b_ops := [] |};
             {| b_ctor := CBuilder; b_name := [98]; b_first := [l2]; b_extra := [[]; [l1]]; b_ops := [PClone; PHash] |};
             {| b_ctor := CStatic; b_name := [98]; b_first := [l1; l2; l3]; b_extra := []; b_ops := [PHash] |};
             {| b_ctor := CStatic; b_name := [98]; b_first := [l2; l1; l3]; b_extra := []; b_ops := [PClone] |} ] in
  match run_case c with
  | OOk ks e cm _ _ _ => map o_hashed0 ks = [false; true; true; false]
                     /\ e = [[true; true; false; false]; [true; true; false; false];
                             [false; false; true; false]; [false; false; false; true]]
  | OPanic => False
  end /\ spec_ok c (run_case c) = true.
Proof. vm_compute. auto. Qed.

(* the memoised hash under races: for every true hash value h, any number of threads, any lists of
   get_hash / clone-then-get_hash calls on one shared lazily hashed key and EVERY schedule of their
   atomic steps, every call returns h *)
Theorem C03_get_hash_stable_under_races : forall (h : N) ps sched,
  Forall (fun l => Forall (fun r => r = h) (MemoRace.results l))
         (snd (fst (exec (MemoRace.step h) MemoRace.site (MemoRace.init_config ps) sched))).
Proof. exact get_hash_stable_under_races. Qed.
