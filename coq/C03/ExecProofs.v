(* C03 — the executable check: the model passes it for every case (spec_ok_on_model), and what a
   passed check means for an observed output (spec_ok_sound). *)
From Coq Require Import List NArith Bool Permutation Lia PeanoNat.
Import ListNotations.
Require Import MV.C03.Model MV.C03.Spec MV.C03.Exec MV.C03.Order MV.C03.StableSort MV.C03.Proofs MV.C03.MemoProofs.
Open Scope N_scope.

(* ---- deciders of Spec.v *)
Lemma bytes_eqb_eq a b : bytes_eqb a b = true <-> a = b.
Proof.
  revert b. induction a as [|x a IH]; intros [|y b]; simpl; split; intros H; try discriminate; auto.
  - apply andb_prop in H as [H1 H2]. apply N.eqb_eq in H1. apply IH in H2. subst. reflexivity.
  - inversion H; subst. rewrite N.eqb_refl. apply IH. reflexivity.
Qed.
Lemma lab_eqb_eq a b : lab_eqb a b = true <-> a = b.
Proof.
  destruct a as [k v], b as [k' v']. unfold lab_eqb. cbn [fst snd].
  rewrite andb_true_iff, !bytes_eqb_eq. split; [intros [-> ->]; reflexivity|intros H; inversion H; auto].
Qed.
Lemma lab_eqb_refl a : lab_eqb a a = true.
Proof. apply lab_eqb_eq. reflexivity. Qed.
Lemma labs_eqb_eq a : forall b, labs_eqb a b = true <-> a = b.
Proof.
  induction a as [|x a IH]; intros [|y b]; simpl; split; intros H; try discriminate; auto.
  - apply andb_prop in H as [H1 H2]. apply lab_eqb_eq in H1. apply IH in H2. subst. reflexivity.
  - inversion H; subst. rewrite lab_eqb_refl. apply IH. reflexivity.
Qed.
Lemma same_keyb_eq a b : same_keyb a b = true <-> a = b.
Proof.
  destruct a as [n l], b as [n' l']. unfold same_keyb. cbn [fst snd].
  rewrite andb_true_iff, bytes_eqb_eq, labs_eqb_eq. split; [intros [-> ->]; reflexivity|intros H; inversion H; auto].
Qed.
Lemma memb_in x l : memb x l = true <-> In x l.
Proof.
  induction l as [|y r IH]; simpl; [split; [discriminate|tauto]|].
  rewrite orb_true_iff, bytes_eqb_eq, IH. split; intros [H|H]; auto.
Qed.
Lemma nodupb_NoDup l : nodupb l = true <-> NoDup l.
Proof.
  induction l as [|x r IH]; simpl; [split; [constructor|auto]|].
  rewrite andb_true_iff, negb_true_iff, NoDup_cons_iff, <- IH, <- memb_in.
  destruct (memb x r); split; intros [H1 H2]; split; auto; congruence.
Qed.
Lemma countb_perm x l1 l2 : Permutation l1 l2 -> countb x l1 = countb x l2.
Proof.
  induction 1; simpl; auto.
  - destruct (lab_eqb x x0); congruence.
  - destruct (lab_eqb x y), (lab_eqb x x0); reflexivity.
  - congruence.
Qed.
Lemma countb_in x l : In x l <-> countb x l <> O.
Proof.
  induction l as [|y r IH]; simpl; [tauto|].
  destruct (lab_eqb x y) eqn:E.
  - apply lab_eqb_eq in E. subst. split; auto.
  - rewrite <- IH. split; [intros [H|H]; auto; subst; rewrite lab_eqb_refl in E; discriminate|auto].
Qed.

Lemma same_seriesb_intro a b : fst a = fst b -> Permutation (snd a) (snd b) -> same_seriesb a b = true.
Proof.
  intros Hn P. unfold same_seriesb. rewrite !andb_true_iff. repeat split.
  - apply bytes_eqb_eq. exact Hn.
  - apply Nat.eqb_eq, Permutation_length. exact P.
  - apply forallb_forall. intros l _. apply Nat.eqb_eq, countb_perm. exact P.
Qed.

Lemma relabelledb_relabelled a b : relabelledb a b = true -> relabelled a b.
Proof.
  unfold relabelledb, same_seriesb, relabelled. rewrite !andb_true_iff.
  intros (ND & (Hn & L) & C).
  apply nodupb_NoDup in ND. apply bytes_eqb_eq in Hn. apply Nat.eqb_eq in L.
  rewrite forallb_forall in C.
  repeat split; auto.
  apply NoDup_Permutation_bis.
  - eapply NoDup_map_inv. exact ND.
  - rewrite L. apply le_n.
  - intros l Hl. apply countb_in. specialize (C l Hl). apply Nat.eqb_eq in C. rewrite <- C.
    apply countb_in. exact Hl.
Qed.

(* same series: same name and the labels are a permutation (all counts agree) *)
Lemma same_seriesb_sound a b : same_seriesb a b = true ->
  fst a = fst b /\ length (snd a) = length (snd b) /\ forall l, In l (snd a) -> countb l (snd a) = countb l (snd b).
Proof.
  unfold same_seriesb. rewrite !andb_true_iff. intros ((Hn & L) & C).
  apply bytes_eqb_eq in Hn. apply Nat.eqb_eq in L. rewrite forallb_forall in C.
  repeat split; auto. intros l Hl. apply Nat.eqb_eq. auto.
Qed.

(* ---- output equality *)
Lemma hev_eqb_eq a b : hev_eqb a b = true <-> a = b.
Proof.
  destruct a, b; simpl; try (split; [discriminate|intros H; inversion H]).
  - rewrite bytes_eqb_eq. split; [intros ->; reflexivity|intros H; inversion H; auto].
  - rewrite N.eqb_eq. split; [intros ->; reflexivity|intros H; inversion H; auto].
  - rewrite N.eqb_eq. split; [intros ->; reflexivity|intros H; inversion H; auto].
Qed.
Lemma feed_eqb_eq a : forall b, feed_eqb a b = true <-> a = b.
Proof.
  induction a as [|x a IH]; intros [|y b]; simpl; split; intros H; try discriminate; auto.
  - apply andb_prop in H as [H1 H2]. apply hev_eqb_eq in H1. apply IH in H2. subst. reflexivity.
  - inversion H; subst. apply andb_true_intro. split; [apply hev_eqb_eq|apply IH]; reflexivity.
Qed.
Lemma feed_eqb_refl a : feed_eqb a a = true.
Proof. apply feed_eqb_eq. reflexivity. Qed.
Lemma cmp_eqb_eq a b : cmp_eqb a b = true <-> a = b.
Proof. destruct a, b; simpl; split; congruence. Qed.

Lemma list_eqb_refl {A} (f : A -> A -> bool) : (forall x, f x x = true) -> forall l, list_eqb f l l = true.
Proof. intros R. induction l as [|x l IH]; cbn; auto. rewrite R, IH. reflexivity. Qed.
Lemma list_eqb_eq {A} (f : A -> A -> bool) : (forall x y, f x y = true -> x = y) ->
  forall a b, list_eqb f a b = true -> a = b.
Proof.
  intros S. induction a as [|x a IH]; intros [|y b] H; cbn in H; try discriminate; auto.
  apply andb_prop in H as [H1 H2]. f_equal; auto.
Qed.
Lemma bmat_eqb_eq (a b : list (list bool)) : list_eqb (list_eqb eqb) a b = true -> a = b.
Proof. apply list_eqb_eq. apply list_eqb_eq. apply eqb_prop. Qed.
Lemma cmat_eqb_eq (a b : list (list comparison)) : list_eqb (list_eqb cmp_eqb) a b = true -> a = b.
Proof. apply list_eqb_eq. apply list_eqb_eq. intros x y. apply cmp_eqb_eq. Qed.

(* ---- the clauses at key level, in the boolean shape used by pair_ok / triple_ok *)
Lemma pk_eq_cmp a b : eqb (key_eq a b) (is_eq (key_cmp a b)) = true.
Proof.
  destruct (key_eq a b) eqn:E.
  - apply key_eq_iff_cmp in E. rewrite E. reflexivity.
  - destruct (key_cmp a b) eqn:C; auto. apply key_eq_iff_cmp in C. congruence.
Qed.
Lemma pk_antisym a b : cmp_eqb (key_cmp b a) (CompOpp (key_cmp a b)) = true.
Proof. apply cmp_eqb_eq, key_cmp_antisym. Qed.
Lemma pk_sym a b : eqb (key_eq a b) (key_eq b a) = true.
Proof. rewrite key_eq_sym. apply eqb_reflx. Qed.
Lemma pk_path a b : implb (same_keyb a b || relabelledb a b) (key_eq a b) = true.
Proof.
  destruct (same_keyb a b) eqn:S.
  - apply same_keyb_eq in S. subst. rewrite key_eq_refl. reflexivity.
  - destruct (relabelledb a b) eqn:R; auto.
    apply relabelledb_relabelled, key_order_irrelevant in R. destruct R as [R _]. rewrite R. reflexivity.
Qed.
Lemma tk_ok a b c :
  implb (key_eq a b && key_eq b c) (key_eq a c)
  && implb (is_lt (key_cmp a b) && is_lt (key_cmp b c)) (is_lt (key_cmp a c))
  && implb (is_eq (key_cmp a b)) (cmp_eqb (key_cmp a c) (key_cmp b c)) = true.
Proof.
  rewrite !andb_true_iff. repeat split.
  - destruct (key_eq a b) eqn:E1, (key_eq b c) eqn:E2; auto.
    rewrite (key_eq_trans _ _ _ E1 E2). reflexivity.
  - destruct (key_cmp a b) eqn:E1, (key_cmp b c) eqn:E2; auto.
    rewrite (key_cmp_trans _ _ _ E1 E2). reflexivity.
  - destruct (key_cmp a b) eqn:E1; auto. cbn [is_eq cmp_eqb implb].
    apply cmp_eqb_eq, key_cmp_cong. exact E1.
Qed.

Lemma memo_ok_true m : wf toyH m -> memo_ok m = true.
Proof.
  intros W. unfold memo_ok.
  pose proof (get_hash_value toyH m W) as V1.
  pose proof (wf_get_hash toyH m W) as W1.
  pose proof (get_hash_key toyH m) as K1.
  pose proof (get_hash_hashed toyH m) as Hh.
  destruct (get_hash toyH m) as [h1 m1]. cbn [fst snd] in *.
  pose proof (get_hash_value toyH m1 W1) as V2.
  destruct (get_hash toyH m1) as [h2 m2]. cbn [fst] in V2.
  pose proof (get_hash_value toyH (clone m) (wf_clone _ _ W)) as V5.
  destruct (get_hash toyH (clone m)) as [h5 m5]. cbn [fst] in V5.
  pose proof (get_hash_value toyH (clone m1) (wf_clone _ _ W1)) as V6.
  destruct (get_hash toyH (clone m1)) as [h6 m6]. cbn [fst] in V6.
  cbn [clone m_key m_hashed] in *. rewrite K1 in *. subst.
  rewrite !N.eqb_refl, Hh. reflexivity.
Qed.

(* ---- index plumbing *)
Definition dbuild : build := {| b_ctor := CBuilder; b_name := []; b_first := []; b_extra := []; b_ops := [] |}.
Definition dkey : key := ([], []).

Lemma getm {B} (f : key -> key -> B) (l : list key) (i j : nat) (dflt : B) :
  (i < length l)%nat -> (j < length l)%nat ->
  nth j (nth i (map (fun a => map (f a) l) l) []) dflt = f (nth i l dkey) (nth j l dkey).
Proof.
  intros Hi Hj.
  rewrite (nth_indep _ [] (map (f dkey) l)) by (rewrite map_length; exact Hi).
  rewrite (map_nth (fun a => map (f a) l)).
  rewrite (nth_indep _ dflt (f (nth i l dkey) dkey)) by (rewrite map_length; exact Hj).
  rewrite (map_nth (f (nth i l dkey))). reflexivity.
Qed.

Lemma nth_map_in {A B} (g : A -> B) (l : list A) (i : nat) (db : B) (da : A) :
  (i < length l)%nat -> nth i (map g l) db = g (nth i l da).
Proof.
  intros Hi. rewrite (nth_indep _ db (g da)) by (rewrite map_length; exact Hi). apply map_nth.
Qed.

Theorem spec_ok_on_model c : spec_ok c (run_case c) = true.
Proof.
  unfold run_case, spec_ok.
  assert (K : map m_key (map (construct toyH) c) = map logical_key c).
  { rewrite map_map. apply map_ext. intros b. apply construct_key. }
  rewrite K. clear K.
  set (keys := map logical_key c).
  set (fs := map hash_feed keys).
  set (g := fun m => {| o_hashed0 := m_hashed m; o_ghok := memo_ok m;
                        o_class := class_of (hash_feed (m_key m)) fs; o_feed := hash_feed (m_key m) |}).
  assert (Ln : length keys = length c) by (unfold keys; apply map_length).
  assert (KS : forall i, (i < length c)%nat ->
             nth i (map g (map (construct toyH) c)) dkout = g (construct toyH (nth i c dbuild))).
  { intros i Hi. rewrite map_map. apply (nth_map_in (fun b => g (construct toyH b))). exact Hi. }
  assert (KK : forall i, (i < length c)%nat -> nth i keys dkey = logical_key (nth i c dbuild)).
  { intros i Hi. unfold keys. apply nth_map_in. exact Hi. }
  rewrite !andb_true_iff. repeat split.
  - rewrite !map_length. apply Nat.eqb_refl.
  - rewrite map_length, Ln. apply Nat.eqb_refl.
  - rewrite map_length, Ln. apply Nat.eqb_refl.
  - apply forallb_forall. intros r Hr. apply in_map_iff in Hr as (a & <- & _).
    rewrite map_length, Ln. apply Nat.eqb_refl.
  - apply forallb_forall. intros r Hr. apply in_map_iff in Hr as (a & <- & _).
    rewrite map_length, Ln. apply Nat.eqb_refl.
  - apply forallb_forall. intros i Hi. apply in_seq in Hi. assert (Hi' : (i < length c)%nat) by lia.
    rewrite KS by exact Hi'. unfold getb, getc. rewrite !getm by (rewrite Ln; exact Hi').
    cbn [g o_ghok]. rewrite memo_ok_true by apply construct_wf.
    rewrite key_eq_refl, key_cmp_refl. reflexivity.
  - apply forallb_forall. intros i Hi. apply in_seq in Hi. assert (Hi' : (i < length c)%nat) by lia.
    apply forallb_forall. intros j Hj. apply in_seq in Hj. assert (Hj' : (j < length c)%nat) by lia.
    unfold pair_ok, getb, getc. rewrite !getm by (rewrite Ln; assumption).
    rewrite !KS by assumption. cbn [g o_feed o_class]. rewrite !construct_key, <- !KK by assumption.
    fold dkey. set (a := nth i keys dkey). set (b := nth j keys dkey).
    rewrite pk_eq_cmp, pk_antisym, pk_sym, pk_path. cbn [andb].
    rewrite andb_true_r.
    destruct (key_eq a b) eqn:E; auto. cbn [implb].
    rewrite (key_eq_same_feed _ _ E), feed_eqb_refl, N.eqb_refl. cbn [andb].
    destruct (key_eq_sound _ _ E) as [Hn P]. apply same_seriesb_intro; assumption.
  - apply forallb_forall. intros i Hi. apply in_seq in Hi. assert (Hi' : (i < length c)%nat) by lia.
    apply forallb_forall. intros j Hj. apply in_seq in Hj. assert (Hj' : (j < length c)%nat) by lia.
    apply forallb_forall. intros k Hk. apply in_seq in Hk. assert (Hk' : (k < length c)%nat) by lia.
    unfold triple_ok, getb, getc. rewrite !getm by (rewrite Ln; assumption).
    apply tk_ok.
  - apply forallb_forall. intros m Hm. apply repeat_spec in Hm. subst m.
    apply list_eqb_refl. intros r. apply list_eqb_refl. intros b. apply eqb_reflx.
  - apply forallb_forall. intros m Hm. apply repeat_spec in Hm. subst m.
    apply list_eqb_refl. intros r. apply list_eqb_refl. intros b. apply cmp_eqb_eq. reflexivity.
Qed.

(* ---- what a passed check says about an observed output *)
Theorem spec_ok_sound c o : spec_ok c o = true ->
  exists ks e cm xe xc, o = OOk ks e cm true xe xc /\
  length xe = n_extra /\ length xc = n_extra /\
  Forall (fun m => m = e) xe /\ Forall (fun m => m = cm) xc /\
  let keys := map logical_key c in
  forall i j, (i < length c)%nat -> (j < length c)%nat ->
    let a := nth i keys dkey in
    let b := nth j keys dkey in
    o_ghok (nth i ks dkout) = true
    /\ getb e i i = true /\ getc cm i i = Eq
    /\ (getb e i j = true <-> getc cm i j = Eq)
    /\ getc cm j i = CompOpp (getc cm i j)
    /\ getb e i j = getb e j i
    /\ (getb e i j = true ->
          o_feed (nth i ks dkout) = o_feed (nth j ks dkout)
          /\ o_class (nth i ks dkout) = o_class (nth j ks dkout)
          /\ fst a = fst b /\ length (snd a) = length (snd b)
          /\ forall l, In l (snd a) -> countb l (snd a) = countb l (snd b))
    /\ (a = b \/ relabelledb a b = true -> getb e i j = true)
    /\ forall k, (k < length c)%nat ->
         (getb e i j = true -> getb e j k = true -> getb e i k = true)
         /\ (getc cm i j = Lt -> getc cm j k = Lt -> getc cm i k = Lt)
         /\ (getc cm i j = Eq -> getc cm i k = getc cm j k).
Proof.
  destruct o as [|ks e cm aux xe xc]; [discriminate|].
  unfold spec_ok. rewrite !andb_true_iff.
  intros ((((((((((((Ha & _) & _) & _) & _) & _) & D) & P) & T) & Le) & Lc) & Xe) & Xc).
  exists ks, e, cm, xe, xc. subst aux. split; [reflexivity|].
  split; [apply Nat.eqb_eq; exact Le|]. split; [apply Nat.eqb_eq; exact Lc|].
  split; [apply Forall_forall; intros m Hm; rewrite forallb_forall in Xe; apply bmat_eqb_eq, Xe, Hm|].
  split; [apply Forall_forall; intros m Hm; rewrite forallb_forall in Xc; apply cmat_eqb_eq, Xc, Hm|].
  cbv zeta. intros i j Hi Hj.
  set (keys := map logical_key c) in *.
  set (a := nth i keys dkey). set (b := nth j keys dkey).
  rewrite forallb_forall in D, P, T.
  assert (Ii : In i (seq 0 (length c))) by (apply in_seq; lia).
  assert (Ij : In j (seq 0 (length c))) by (apply in_seq; lia).
  pose proof (D i Ii) as Di. rewrite !andb_true_iff in Di. destruct Di as ((D1 & D2) & D3).
  apply cmp_eqb_eq in D3.
  pose proof (P i Ii) as Pi. rewrite forallb_forall in Pi. specialize (Pi j Ij).
  unfold pair_ok in Pi. fold keys in Pi. fold dkey in Pi. fold a in Pi. fold b in Pi.
  rewrite !andb_true_iff in Pi. destruct Pi as ((((P1 & P2) & P3) & P4) & P5).
  apply eqb_prop in P1, P3. apply cmp_eqb_eq in P2.
  repeat split; auto.
  - intros E. rewrite E in P1. symmetry in P1. apply cmp_eqb_eq in P1. exact P1.
  - intros E. rewrite E in P1. exact P1.
  - rewrite H in P4. cbn [implb] in P4. rewrite !andb_true_iff in P4. apply feed_eqb_eq. tauto.
  - rewrite H in P4. cbn [implb] in P4. rewrite !andb_true_iff in P4. apply N.eqb_eq. tauto.
  - rewrite H in P4. cbn [implb] in P4. rewrite !andb_true_iff in P4.
    destruct P4 as (_ & S). apply same_seriesb_sound in S. tauto.
  - rewrite H in P4. cbn [implb] in P4. rewrite !andb_true_iff in P4.
    destruct P4 as (_ & S). apply same_seriesb_sound in S. tauto.
  - rewrite H in P4. cbn [implb] in P4. rewrite !andb_true_iff in P4.
    destruct P4 as (_ & S). apply same_seriesb_sound in S. destruct S as (_ & _ & S). exact S.
  - intros [E|R].
    + assert (S : same_keyb a b = true) by (apply same_keyb_eq; exact E).
      rewrite S in P5. cbn [orb implb] in P5. exact P5.
    + rewrite R, orb_true_r in P5. exact P5.
  - intros E1 E2.
    assert (Ik : In k (seq 0 (length c))) by (apply in_seq; lia).
    pose proof (T i Ii) as Ti. rewrite forallb_forall in Ti. specialize (Ti j Ij).
    rewrite forallb_forall in Ti. specialize (Ti k Ik). unfold triple_ok in Ti.
    rewrite !andb_true_iff in Ti. destruct Ti as ((T1 & _) & _).
    rewrite E1, E2 in T1. exact T1.
  - intros E1 E2.
    assert (Ik : In k (seq 0 (length c))) by (apply in_seq; lia).
    pose proof (T i Ii) as Ti. rewrite forallb_forall in Ti. specialize (Ti j Ij).
    rewrite forallb_forall in Ti. specialize (Ti k Ik). unfold triple_ok in Ti.
    rewrite !andb_true_iff in Ti. destruct Ti as ((_ & T2) & _).
    rewrite E1, E2 in T2. cbn in T2. apply cmp_eqb_eq in T2. exact T2.
  - intros E1.
    assert (Ik : In k (seq 0 (length c))) by (apply in_seq; lia).
    pose proof (T i Ii) as Ti. rewrite forallb_forall in Ti. specialize (Ti j Ij).
    rewrite forallb_forall in Ti. specialize (Ti k Ik). unfold triple_ok in Ti.
    rewrite !andb_true_iff in Ti. destruct Ti as (_ & T3).
    rewrite E1 in T3. cbn in T3. apply cmp_eqb_eq in T3. exact T3.
Qed.
