(* C03 — three-valued comparisons that are total orders: lexicographic lists and pairs. *)
From Coq Require Import List NArith Bool Lia.
Import ListNotations.
Open Scope N_scope.

Record cmp_ok {A} (cmp : A -> A -> comparison) : Prop := {
  c_eq : forall a b, cmp a b = Eq <-> a = b;
  c_anti : forall a b, cmp b a = CompOpp (cmp a b);
  c_trans : forall a b c, cmp a b = Lt -> cmp b c = Lt -> cmp a c = Lt }.

Section Generic.
  Context {A : Type} (cmp : A -> A -> comparison) (OK : cmp_ok cmp).

  Lemma c_refl a : cmp a a = Eq.
  Proof. apply (c_eq _ OK). reflexivity. Qed.

  Lemma c_gt_lt a b : cmp a b = Gt -> cmp b a = Lt.
  Proof. intros H. rewrite (c_anti _ OK a b), H. reflexivity. Qed.

  Lemma c_lt_gt a b : cmp a b = Lt -> cmp b a = Gt.
  Proof. intros H. rewrite (c_anti _ OK a b), H. reflexivity. Qed.

  Lemma c_cong a b c : cmp a b = Eq -> cmp a c = cmp b c.
  Proof. intros H. apply (c_eq _ OK) in H. subst. reflexivity. Qed.

  Definition cle (a b : A) : Prop := cmp a b <> Gt.

  Lemma cle_trans a b c : cle a b -> cle b c -> cle a c.
  Proof.
    unfold cle. intros H1 H2.
    destruct (cmp a b) eqn:E1; [| |congruence].
    - apply (c_eq _ OK) in E1. subst. exact H2.
    - destruct (cmp b c) eqn:E2; [| |congruence].
      + apply (c_eq _ OK) in E2. subst. rewrite E1. discriminate.
      + rewrite (c_trans _ OK _ _ _ E1 E2). discriminate.
  Qed.

  Lemma cle_antisym a b : cle a b -> cle b a -> a = b.
  Proof.
    unfold cle. intros H1 H2. apply (c_eq _ OK).
    destruct (cmp a b) eqn:E; [reflexivity| |congruence].
    apply c_lt_gt in E. congruence.
  Qed.

  Lemma lt_cle a b : cmp a b = Lt -> cle a b.
  Proof. unfold cle. intros H. rewrite H. discriminate. Qed.

  Lemma not_lt_cle a b : cmp a b <> Lt -> cle b a.
  Proof.
    unfold cle. intros H E. apply c_gt_lt in E. congruence.
  Qed.

  (* lexicographic order on lists; a proper prefix is smaller *)
  Fixpoint lexc (a b : list A) : comparison :=
    match a, b with
    | [], [] => Eq
    | [], _ :: _ => Lt
    | _ :: _, [] => Gt
    | x :: a', y :: b' => match cmp x y with Eq => lexc a' b' | c => c end
    end.

  Lemma lexc_ok : cmp_ok lexc.
  Proof.
    split.
    - induction a as [|x a IH]; intros [|y b]; simpl; split; intros H; try discriminate; auto.
      + destruct (cmp x y) eqn:E; try discriminate.
        apply (c_eq _ OK) in E. apply IH in H. subst. reflexivity.
      + inversion H; subst. rewrite c_refl. apply IH. reflexivity.
    - induction a as [|x a IH]; intros [|y b]; simpl; auto.
      rewrite (c_anti _ OK x y). destruct (cmp x y); simpl; auto.
    - induction a as [|x a IH]; intros [|y b] [|z c]; simpl; intros H1 H2; try discriminate; auto.
      destruct (cmp x y) eqn:E1; try discriminate.
      + apply (c_eq _ OK) in E1. subst y.
        destruct (cmp x z) eqn:E2; try discriminate; auto. eapply IH; eauto.
      + destruct (cmp y z) eqn:E2; try discriminate.
        * apply (c_eq _ OK) in E2. subst z. rewrite E1. reflexivity.
        * rewrite (c_trans _ OK _ _ _ E1 E2). reflexivity.
  Qed.
End Generic.

Section Pair.
  Context {A B : Type} (ca : A -> A -> comparison) (cb : B -> B -> comparison).
  Context (OKa : cmp_ok ca) (OKb : cmp_ok cb).

  Definition pcmp (a b : A * B) : comparison :=
    match ca (fst a) (fst b) with Eq => cb (snd a) (snd b) | c => c end.

  Lemma pcmp_ok : cmp_ok pcmp.
  Proof.
    split.
    - intros [a1 a2] [b1 b2]. unfold pcmp. simpl. split; intros H.
      + destruct (ca a1 b1) eqn:E; try discriminate.
        apply (c_eq _ OKa) in E. apply (c_eq _ OKb) in H. subst. reflexivity.
      + inversion H; subst. rewrite (c_refl _ OKa). apply (c_refl _ OKb).
    - intros [a1 a2] [b1 b2]. unfold pcmp. simpl.
      rewrite (c_anti _ OKa a1 b1). destruct (ca a1 b1); simpl; auto. apply (c_anti _ OKb).
    - intros [a1 a2] [b1 b2] [c1 c2]. unfold pcmp. simpl. intros H1 H2.
      destruct (ca a1 b1) eqn:E1; try discriminate.
      + apply (c_eq _ OKa) in E1. subst b1.
        destruct (ca a1 c1) eqn:E2; try discriminate; auto. eapply (c_trans _ OKb); eauto.
      + destruct (ca b1 c1) eqn:E2; try discriminate.
        * apply (c_eq _ OKa) in E2. subst c1. rewrite E1. reflexivity.
        * rewrite (c_trans _ OKa _ _ _ E1 E2). reflexivity.
  Qed.
End Pair.

Lemma Ncompare_ok : cmp_ok N.compare.
Proof.
  split.
  - intros a b. apply N.compare_eq_iff.
  - intros a b. apply N.compare_antisym.
  - intros a b c. rewrite !N.compare_lt_iff. lia.
Qed.
