(* C03 — executable entry points for the schedule replay of the memoised hash. *)
From Coq Require Import List NArith Bool.
Import ListNotations.
Require Export MV.Common.Interleave MV.C03.MemoRace.
Open Scope N_scope.

Definition case := (list (list call) * list N)%type.
(* trace, per-thread results oldest first (the driver maps the key's true hash to [the_h] and any
   other returned value to itself, never equal to [the_h]), all finished *)
Definition OUT := (list (N * N) * list (list N) * bool)%type.
Definition the_h : N := 7.
Definition rr_fuel : nat := 200.

Definition run_case (c : case) : OUT :=
  let '(cf, tr) := exec_full (step the_h) site rr_fuel (init_config (fst c)) (map N.to_nat (snd c)) in
  (tr, map (fun l => rev (results l)) (snd cf), all_done (step the_h) cf).

Fixpoint list_eqb {A} (eqb : A -> A -> bool) (a b : list A) : bool :=
  match a, b with
  | [], [] => true
  | x :: r, y :: r' => eqb x y && list_eqb eqb r r'
  | _, _ => false
  end.
Definition pair_eqb (a b : N * N) : bool := (fst a =? fst b) && (snd a =? snd b).
Definition out_eqb (a b : OUT) : bool :=
  let '(t1, r1, d1) := a in let '(t2, r2, d2) := b in
  list_eqb pair_eqb t1 t2 && list_eqb (list_eqb N.eqb) r1 r2 && Bool.eqb d1 d2.

(* the property on an observed run: every get_hash result is the key's true hash *)
Definition spec_ok (c : case) (o : OUT) : bool :=
  let '(_, rs, _) := o in forallb (forallb (fun r => r =? the_h)) rs.
Definition known_class (c : case) : option N := None.

Definition verdicts (l : list (N * case * OUT)) : list (N * bool * bool * option N) :=
  map (fun '(i, c, o) => (i, out_eqb (run_case c) o, spec_ok c o, known_class c)) l.
