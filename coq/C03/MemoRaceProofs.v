(* C03 — every get_hash call (on the shared key or on a clone of it) returns the true hash, for
   every schedule, any number of threads and any call lists. *)
From Coq Require Import List NArith Bool Lia.
Import ListNotations.
Require Import MV.Common.Interleave MV.C03.MemoRace.
Open Scope N_scope.

Definition mcfg := @config shared local.

Section Memo.
  Variable h : N.

  Definition lok (s : shared) (l : local) : Prop :=
    Forall (fun r => r = h) (results l) /\
    match pcl l with
    | G1 => hashed s = true
    | G3 => hsh s = h
    | K1 true => hashed s = true
    | C0 true v => v = h
    | C1 v => v = h
    | _ => True
    end.

  Definition Inv (c : mcfg) : Prop :=
    (hashed (fst c) = true -> hsh (fst c) = h) /\ Forall (lok (fst c)) (snd c).

  Lemma lok_enter s td rs : Forall (fun r => r = h) rs -> lok s (enter td rs).
  Proof. intros H. destruct td as [|[|] td]; split; cbn; auto. Qed.

  (* facts of other threads survive a step: [hashed] only goes from false to true, and once the
     stored hash is h it stays h *)
  Lemma lok_mono s s' l :
    (hashed s = true -> hashed s' = true) -> (hsh s = h -> hsh s' = h) -> lok s l -> lok s' l.
  Proof.
    intros Hm Hv [H1 H2]. split; [exact H1|]. destruct (pcl l); auto. destruct b; auto.
  Qed.

  Lemma step_preserves_Inv : step_preserves (step h) Inv.
  Proof.
    intros s ls t l s' l' [Hh Hl] Hn Hs. unfold Inv. cbn [fst snd] in *.
    pose proof (Forall_nth_error _ _ _ _ Hl Hn) as [Hr Hp].
    assert (Hmono : forall sx, (hashed s = true -> hashed sx = true) -> (hsh s = h -> hsh sx = h) -> Forall (lok sx) ls)
      by (intros sx Hm Hv; eapply Forall_impl; [|exact Hl]; intros a; apply lok_mono; assumption).
    unfold step in Hs. destruct (pcl l) eqn:Hpc; inversion Hs; subst s' l'; clear Hs.
    - split; [exact Hh|]. apply Forall_upd; [exact Hl|apply lok_enter; exact Hr].
    - split; [exact Hh|]. apply Forall_upd; [exact Hl|]. split; [exact Hr|]. cbn [pcl].
      destruct (hashed s) eqn:E; cbn; auto.
    - split; [exact Hh|]. apply Forall_upd; [exact Hl|]. apply lok_enter. constructor; [auto|exact Hr].
    - split; [intros _; reflexivity|]. apply Forall_upd; [apply Hmono; auto|]. split; [exact Hr|reflexivity].
    - split; [intros _; exact Hp|]. apply Forall_upd; [apply Hmono; auto|]. apply lok_enter. constructor; [reflexivity|exact Hr].
    - split; [exact Hh|]. apply Forall_upd; [exact Hl|]. split; [exact Hr|]. cbn [pcl].
      destruct (hashed s) eqn:E; cbn; auto.
    - split; [exact Hh|]. apply Forall_upd; [exact Hl|]. split; [exact Hr|]. cbn [pcl].
      destruct b; auto.
    - split; [exact Hh|]. apply Forall_upd; [exact Hl|]. split; [exact Hr|]. cbn [pcl].
      destruct b; cbn; auto.
    - split; [exact Hh|]. apply Forall_upd; [exact Hl|]. apply lok_enter. constructor; [exact Hp|exact Hr].
    - split; [exact Hh|]. apply Forall_upd; [exact Hl|]. split; [exact Hr|exact I].
    - split; [exact Hh|]. apply Forall_upd; [exact Hl|]. apply lok_enter. constructor; [reflexivity|exact Hr].
  Qed.

  Lemma Inv_init ps : Inv (init_config ps).
  Proof.
    split; [discriminate|]. cbn [snd init_config]. rewrite Forall_forall. intros l Hin.
    apply in_map_iff in Hin as (p & <- & _). split; cbn; auto.
  Qed.

  (* every result of every get_hash call, on every thread, after every schedule, is the true hash *)
  Theorem get_hash_stable_under_races ps sched :
    Forall (fun l => Forall (fun r => r = h) (results l))
           (snd (fst (exec (step h) site (init_config ps) sched))).
  Proof.
    pose proof (invariant_all_schedules (step h) site Inv step_preserves_Inv sched (init_config ps) (Inv_init ps)) as [_ H].
    eapply Forall_impl; [|exact H]. intros l [Hr _]. exact Hr.
  Qed.

  Theorem get_hash_stable_under_races_full ps fuel sched :
    Forall (fun l => Forall (fun r => r = h) (results l))
           (snd (fst (exec_full (step h) site fuel (init_config ps) sched))).
  Proof.
    pose proof (invariant_exec_full (step h) site Inv step_preserves_Inv fuel sched (init_config ps) (Inv_init ps)) as [_ H].
    eapply Forall_impl; [|exact H]. intros l [Hr _]. exact Hr.
  Qed.
End Memo.

(* non-vacuity: three threads race the first use, one of them through a clone *)
Example memo_example :
  let c := fst (exec (step 7) site (init_config [[CGet; CGet]; [CCloneGet]; [CGet]])
                     [0; 1; 2; 0; 1; 2; 1; 0; 2; 1; 0; 2; 1; 0; 1; 0; 0; 0]%nat) in
  map (fun l => results l) (snd c) = [[7; 7]; [7]; [7]] /\ all_done (step 7) c = true.
Proof. vm_compute. split; reflexivity. Qed.
