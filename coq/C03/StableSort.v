(* C03 — [sort_by_name] (Model.v) is a stable sort by label name: its result is sorted, a permutation
   of the input, keeps the relative order of labels with the same name, and is the ONLY list with
   these properties.  Rust's slice::sort_by_key is documented stable, so whatever algorithm it uses
   it computes this list. *)
From Coq Require Import List NArith Bool Permutation Sorted.
Import ListNotations.
Require Import MV.C03.Model MV.C03.Order.
Open Scope N_scope.

Lemma bcmp_lexc a b : bcmp a b = lexc N.compare a b.
Proof. revert b. induction a as [|x a IH]; intros [|y b]; simpl; auto; try (rewrite IH; reflexivity). Qed.

Lemma bcmp_ok : cmp_ok bcmp.
Proof.
  destruct (lexc_ok N.compare Ncompare_ok) as [E An T].
  split; intros; rewrite ?bcmp_lexc in *; auto. eapply T; eauto.
Qed.

Lemma beqb_eq a b : beqb a b = true <-> a = b.
Proof.
  revert b. induction a as [|x a IH]; intros [|y b]; simpl; split; intros H; try discriminate; auto.
  - apply andb_prop in H as [H1 H2]. apply N.eqb_eq in H1. apply IH in H2. subst. reflexivity.
  - inversion H; subst. rewrite N.eqb_refl. apply IH. reflexivity.
Qed.

Definition le_name (x y : label) : Prop := cle bcmp (fst x) (fst y).
Definition has_name (n : bytes) (x : label) : bool := beqb (fst x) n.

Lemma insert_perm l s : Permutation (insert_by_name l s) (l :: s).
Proof.
  induction s as [|x r IH]; simpl; auto.
  destruct (bcmp (fst x) (fst l)); auto.
  eapply perm_trans; [apply perm_skip, IH|apply perm_swap].
Qed.

Lemma sort_perm ls : Permutation (sort_by_name ls) ls.
Proof.
  induction ls as [|l r IH]; simpl; auto.
  eapply perm_trans; [apply insert_perm|apply perm_skip, IH].
Qed.

Lemma sort_length ls : length (sort_by_name ls) = length ls.
Proof. apply Permutation_length, sort_perm. Qed.

Lemma insert_sorted l s : StronglySorted le_name s -> StronglySorted le_name (insert_by_name l s).
Proof.
  induction s as [|x r IH]; simpl; intros S.
  - constructor; constructor.
  - apply StronglySorted_inv in S as [Sr Fx].
    destruct (bcmp (fst x) (fst l)) eqn:E.
    + constructor; [constructor; auto|].
      assert (Hlx : le_name l x).
      { unfold le_name, cle. rewrite (c_anti _ bcmp_ok), E. discriminate. }
      constructor; auto.
      eapply Forall_impl; [|exact Fx]. intros y Hy. eapply (cle_trans _ bcmp_ok); eauto.
    + constructor; [apply IH; exact Sr|].
      eapply Permutation_Forall; [apply Permutation_sym, insert_perm|].
      constructor; auto. apply (lt_cle bcmp). exact E.
    + constructor; [constructor; auto|].
      assert (Hlx : le_name l x).
      { apply (not_lt_cle _ bcmp_ok). rewrite E. discriminate. }
      constructor; auto.
      eapply Forall_impl; [|exact Fx]. intros y Hy. eapply (cle_trans _ bcmp_ok); eauto.
Qed.

Lemma sort_sorted ls : StronglySorted le_name (sort_by_name ls).
Proof. induction ls; simpl; [constructor|apply insert_sorted; auto]. Qed.

(* stability: the labels of any one name appear in the same relative order as supplied *)
Lemma insert_stable n l s : filter (has_name n) (insert_by_name l s) = filter (has_name n) (l :: s).
Proof.
  induction s as [|x r IH]; auto.
  cbn [insert_by_name]. destruct (bcmp (fst x) (fst l)) eqn:E; auto.
  cbn [filter] in *. destruct (has_name n x) eqn:Px.
  - assert (Pl : has_name n l = false).
    { unfold has_name in *. apply beqb_eq in Px. destruct (beqb (fst l) n) eqn:B; auto.
      apply beqb_eq in B. rewrite <- B in Px. rewrite Px, (c_refl _ bcmp_ok) in E. discriminate. }
    rewrite Pl in *. rewrite IH. reflexivity.
  - rewrite IH. reflexivity.
Qed.

Lemma sort_stable n ls : filter (has_name n) (sort_by_name ls) = filter (has_name n) ls.
Proof.
  induction ls as [|l r IH]; auto.
  cbn [sort_by_name fold_right]. fold (sort_by_name r). rewrite insert_stable.
  cbn [filter]. rewrite IH. reflexivity.
Qed.

(* uniqueness: a sorted list with the same per-name subsequences is the same list *)
Lemma has_name_self x : has_name (fst x) x = true.
Proof. apply beqb_eq. reflexivity. Qed.

Lemma sorted_stable_unique s : forall s',
  StronglySorted le_name s -> StronglySorted le_name s' ->
  (forall n, filter (has_name n) s = filter (has_name n) s') -> s = s'.
Proof.
  induction s as [|x r IH]; intros [|y r'] S S' F; auto.
  - specialize (F (fst y)). cbn [filter] in F. rewrite has_name_self in F. discriminate.
  - specialize (F (fst x)). cbn [filter] in F. rewrite has_name_self in F. discriminate.
  - apply StronglySorted_inv in S as [Sr Fx]. apply StronglySorted_inv in S' as [Sr' Fy].
    assert (x = y) as ->.
    { pose proof (F (fst x)) as F1. pose proof (F (fst y)) as F2. cbn [filter] in F1, F2.
      rewrite has_name_self in F1, F2.
      destruct (has_name (fst x) y) eqn:Pxy; [congruence|].
      destruct (has_name (fst y) x) eqn:Pyx.
      { unfold has_name in *. apply beqb_eq in Pyx. rewrite Pyx in Pxy.
        assert (beqb (fst y) (fst y) = true) by (apply beqb_eq; reflexivity). congruence. }
      assert (Ix : In x r').
      { assert (In x (filter (has_name (fst x)) r')) by (rewrite <- F1; left; reflexivity).
        apply filter_In in H. tauto. }
      assert (Iy : In y r).
      { assert (In y (filter (has_name (fst y)) r)) by (rewrite F2; left; reflexivity).
        apply filter_In in H. tauto. }
      rewrite Forall_forall in Fx, Fy.
      pose proof (cle_antisym _ bcmp_ok _ _ (Fx _ Iy) (Fy _ Ix)) as Hn.
      unfold has_name in Pyx. rewrite Hn in Pyx.
      assert (beqb (fst y) (fst y) = true) by (apply beqb_eq; reflexivity). congruence. }
    f_equal. apply IH; auto.
    intros n. specialize (F n). cbn [filter] in F. destruct (has_name n y); congruence.
Qed.

Theorem stable_sort_unique ls s :
  StronglySorted le_name s -> (forall n, filter (has_name n) s = filter (has_name n) ls) ->
  s = sort_by_name ls.
Proof.
  intros S F. apply sorted_stable_unique; auto using sort_sorted.
  intros n. rewrite sort_stable. apply F.
Qed.

(* with pairwise distinct names, sorted permutations of each other are equal *)
Lemma sorted_perm_nodup_eq s : forall s',
  StronglySorted le_name s -> StronglySorted le_name s' -> Permutation s s' ->
  NoDup (map fst s) -> s = s'.
Proof.
  induction s as [|x r IH]; intros [|y r'] S S' P ND.
  - reflexivity.
  - apply Permutation_nil in P. discriminate.
  - apply Permutation_sym, Permutation_nil in P. discriminate.
  - apply StronglySorted_inv in S as [Sr Fx]. apply StronglySorted_inv in S' as [Sr' Fy].
    cbn [map] in ND. apply NoDup_cons_iff in ND as [Nx ND].
    assert (x = y) as ->.
    { assert (Ix : In x (y :: r')) by (eapply Permutation_in; [exact P|left; reflexivity]).
      assert (Iy : In y (x :: r)) by (eapply Permutation_in; [apply Permutation_sym; exact P|left; reflexivity]).
      destruct Ix as [->|Ix]; auto. destruct Iy as [->|Iy]; auto.
      rewrite Forall_forall in Fx, Fy.
      pose proof (cle_antisym _ bcmp_ok _ _ (Fx _ Iy) (Fy _ Ix)) as Hn.
      exfalso. apply Nx. rewrite Hn. apply in_map. exact Iy. }
    f_equal. apply IH; auto. eapply Permutation_cons_inv; eauto.
Qed.

Lemma sort_perm_nodup_eq l1 l2 :
  Permutation l1 l2 -> NoDup (map fst l1) -> sort_by_name l1 = sort_by_name l2.
Proof.
  intros P ND. apply sorted_perm_nodup_eq; auto using sort_sorted.
  - eapply perm_trans; [apply sort_perm|]. eapply perm_trans; [exact P|]. apply Permutation_sym, sort_perm.
  - eapply Permutation_NoDup; [|exact ND]. apply Permutation_map, Permutation_sym, sort_perm.
Qed.
