(* C10 — the scheduled-case checker on the model's run, composed; and the statement covering both
   case shapes. *)
From Coq Require Import List NArith ZArith Bool Lia.
Import ListNotations.
Require Import MV.Common.Interleave MV.C10.Model MV.C10.Spec MV.C10.Exec MV.C10.ProofsSched MV.C10.ProofsSched2
               MV.C10.ProofsCompose2.
Open Scope N_scope.

Lemma abs_max_zero ps : has_uabs ps = false -> abs_max ps = 0.
Proof.
  unfold has_uabs, abs_max. induction (all_ops ps) as [|o r IH]; [reflexivity|]. cbn [existsb fold_right].
  destruct o; cbn; try exact IH. discriminate.
Qed.
Lemma inc_sum_zero ps : incfree ps = true -> inc_sum ps = 0.
Proof.
  unfold incfree, inc_sum. induction (all_ops ps) as [|o r IH]; [reflexivity|]. cbn [forallb fold_right].
  destruct o; cbn; try exact IH. discriminate.
Qed.

(* well-formed scheduled case: at least one thread; the schedule plus the round-robin tail finishes every
   thread; counters are driven only by increments or only by absolutes (the bound clause is not
   proved for programs mixing both) *)
Definition sched_wf (ps : list (list uop)) (sched : list N) : Prop :=
  ps <> [] /\ all_done (step all_fixed) (final ps sched) = true /\ (has_uabs ps = false \/ incfree ps = true).

Theorem spec_ok_on_model_sched_partial ps sched :
  known_class (CSched ps sched) = None -> sched_wf ps sched ->
  spec_ok (CSched ps sched) (run_case (CSched ps sched)) = true.
Proof.
  intros Hk (Hne & Hd & Hpure). rewrite run_sched_eq. cbn [spec_ok sched_spec_ok]. rewrite Hd.
  rewrite (sched_follows ps sched). cbn [andb].
  assert (C2 : (if (inc_sum ps + abs_max ps <? two64) && MV.C10.Exec.one_flusher ps
                then forallb (fun d => d <=? inc_sum ps + abs_max ps)
                       (sub64 (cur (cnt (fst (final ps sched)))) (last (cnt (fst (final ps sched))))
                        :: deltas_of (map (fun l => rev (results l)) (snd (final ps sched)))) else true) = true).
  { destruct (inc_sum ps + abs_max ps <? two64) eqn:Eb; [|reflexivity]. destruct (MV.C10.Exec.one_flusher ps) eqn:Eo; [|reflexivity].
    cbn [andb]. apply N.ltb_lt in Eb. destruct Hpure as [Ha|Hi].
    - rewrite (abs_max_zero ps Ha) in *. rewrite N.add_0_r in *. apply sched_bound_inc; assumption.
    - rewrite (inc_sum_zero ps Hi) in *. rewrite N.add_0_l in *. apply sched_bound_abs; assumption. }
  rewrite C2. cbn [andb].
  assert (C3 : (if negb (has_uabs ps)
                then sumN (sub64 (cur (cnt (fst (final ps sched)))) (last (cnt (fst (final ps sched))))
                           :: deltas_of (map (fun l => rev (results l)) (snd (final ps sched)))) mod two64 =? inc_sum ps mod two64
                else true) = true).
  { destruct (has_uabs ps) eqn:Ea; [reflexivity|]. cbn [negb]. apply N.eqb_eq. apply sched_conservation; assumption. }
  rewrite C3. cbn [andb].
  destruct (only_sets ps) eqn:Es; [|reflexivity]. apply sched_gauge_sets. exact Es.
Qed.

(* both case shapes *)
Definition case_wf (c : case) : Prop :=
  match c with CSeq oc => seq_wf oc | CSched ps sched => sched_wf ps sched end.

Theorem spec_ok_on_model_partial c : known_class c = None -> case_wf c -> spec_ok c (run_case c) = true.
Proof.
  destruct c as [oc|ps sched]; intros Hk Hw.
  - apply spec_ok_on_model_seq. exact Hw.
  - apply spec_ok_on_model_sched_partial; assumption.
Qed.
