(* C10 — the property, written without reference to the storage cells or to State::flush:
   per key, a window-based reference semantics.  A "window" is the stretch of history between two
   consecutive flushes.

   Counter key (events: register, increment v, absolute v, flush):
     presence  three phases: Active (updated in this window) -> the flush sends the delta;
               Owed (registered, or sent a delta at the previous flush) -> the flush sends once more
               (the closing zero); Quiet -> nothing is sent until the next update.
     value     key driven only by increments: the sum of the window's increments (mod 2^64);
               key driven only by absolutes: running maximum minus the running maximum at the
               previous flush (the first absolute value seen is the base);
               any key: never more than everything ever added (sum of increments + largest absolute).
   Gauge key: once registered, every flush sends the value obtained by applying all writes so far.
   Histogram key: a flush sends exactly the window's values (as a multiset), nothing if there are none.
   Timestamp: counter and gauge messages carry `|T now` iff the mode is Aggressive (builder.rs:50-68:
   "Counters and gauges are aggregated and sent with a timestamp"); histogram messages never.
   Framing: on a stream socket every payload is LE32(len body) ++ body; a body is one line.        *)
From Coq Require Import List NArith ZArith Bool.
Import ListNotations.
Require Import MV.C10.Model.
Open Scope N_scope.

Inductive phase := Quiet | Owed | Active.

Definition has_abs (es : list cev) : bool := existsb (fun e => match e with CAbs _ => true | _ => false end) es.
Definition has_inc (es : list cev) : bool := existsb (fun e => match e with CInc _ => true | _ => false end) es.
Definition total_bound (es : list cev) : N :=
  fold_right (fun e a => match e with CInc v => a + v | _ => a end) 0 es
  + fold_right (fun e a => match e with CAbs v => N.max a v | _ => a end) 0 es.

(* reference state of a counter key *)
Record cref := { r_reg : bool; r_phase : phase;
                 r_sum : N;                 (* increments of the current window *)
                 r_base : option N;         (* running maximum of the absolutes at the last flush (or the first one seen) *)
                 r_max : option N }.        (* running maximum of the absolutes *)
Definition cref0 : cref := {| r_reg := false; r_phase := Quiet; r_sum := 0; r_base := None; r_max := None |}.

Definition omax (o : option N) (v : N) : option N := match o with None => Some v | Some x => Some (N.max x v) end.
Definition odiff (m b : option N) : N := match m, b with Some x, Some y => x - y | _, _ => 0 end.

(* [obs]: what was observed for this key at each flush (None = no message, Some d = delta d) *)
Fixpoint cref_walk (inc_only abs_only : bool) (bound : N) (r : cref) (es : list cev) (obs : list (option N)) : bool :=
  match es with
  | [] => match obs with [] => true | _ => false end
  | CReg :: es' =>
      cref_walk inc_only abs_only bound
        {| r_reg := true; r_phase := if r_reg r then r_phase r else Owed; r_sum := r_sum r; r_base := r_base r; r_max := r_max r |} es' obs
  | CInc v :: es' =>
      cref_walk inc_only abs_only bound
        {| r_reg := true; r_phase := Active; r_sum := (r_sum r + v) mod two64; r_base := r_base r; r_max := r_max r |} es' obs
  | CAbs v :: es' =>
      cref_walk inc_only abs_only bound
        {| r_reg := true; r_phase := Active; r_sum := r_sum r;
           r_base := match r_base r with None => Some v | b => b end; r_max := omax (r_max r) v |} es' obs
  | CFlush :: es' =>
      match obs with
      | [] => false
      | o :: obs' =>
          let expected_sent := r_reg r && match r_phase r with Quiet => false | _ => true end in
          let ok :=
            match o with
            | None => negb expected_sent
            | Some d =>
                expected_sent
                && (if inc_only then d =? r_sum r else true)
                && (if abs_only then d =? odiff (r_max r) (r_base r) else true)
                && (if bound <? two64 then d <=? bound else true)
            end in
          ok && cref_walk inc_only abs_only bound
                  {| r_reg := r_reg r;
                     r_phase := match r_phase r with Active => Owed | _ => Quiet end;
                     r_sum := 0; r_base := match r_max r with None => r_base r | m => m end; r_max := r_max r |} es' obs'
      end
  end.

Definition counter_ok (es : list cev) (obs : list (option N)) : bool :=
  cref_walk (negb (has_abs es)) (negb (has_inc es)) (total_bound es) cref0 es obs.

(* gauge key: registered flag and the value of all writes so far *)
Fixpoint gref_walk (reg : bool) (x : Z) (es : list gev) (obs : list (option Z)) : bool :=
  match es with
  | [] => match obs with [] => true | _ => false end
  | GReg :: es' => gref_walk true x es' obs
  | GWrite w :: es' => gref_walk true (gapply w x) es' obs
  | GFlush :: es' =>
      match obs with
      | [] => false
      | o :: obs' =>
          (match o with None => negb reg | Some z => reg && (z =? x)%Z end) && gref_walk reg x es' obs'
      end
  end.
Definition gauge_ok (es : list gev) (obs : list (option Z)) : bool := gref_walk false 0%Z es obs.

(* histogram key: the window's values; [obs] = the sorted values sent at each flush ([] = no message) *)
Fixpoint zlist_eqb (a b : list Z) : bool :=
  match a, b with
  | [], [] => true
  | x :: a', y :: b' => (x =? y)%Z && zlist_eqb a' b'
  | _, _ => false
  end.
Fixpoint href_walk (samp : bool) (rsv : N) (win : list Z) (es : list hev) (obs : list (list Z)) : bool :=
  match es with
  | [] => match obs with [] => true | _ => false end
  | HReg :: es' => href_walk samp rsv win es' obs
  | HRec z :: es' => href_walk samp rsv (z :: win) es' obs
  | HFlush :: es' =>
      match obs with
      | [] => false
      | o :: obs' =>
          (if samp && (rsv <? N.of_nat (length win)) then N.of_nat (length o) =? rsv
           else zlist_eqb o (sort_z win))
          && href_walk samp rsv [] es' obs'
      end
  end.
Definition histogram_ok (samp : bool) (rsv : N) (es : list hev) (obs : list (list Z)) : bool :=
  href_walk samp rsv [] es obs.

(* timestamp of one message, per the documentation of AggregationMode *)
Definition ts_ok (aggressive : bool) (now : N) (m : msg) : bool :=
  match m_ts m with
  | None => negb ((m_kind m <? 2) && aggressive)
  | Some t => (m_kind m <? 2) && aggressive && (t =? now)
  end.

(* framing of one payload *)
Definition le32 (n : N) : bytes := [n mod 256; (n / 256) mod 256; (n / 65536) mod 256; (n / 16777216) mod 256].
Fixpoint bytes_eqb (a b : bytes) : bool :=
  match a, b with
  | [], [] => true
  | x :: a', y :: b' => (x =? y) && bytes_eqb a' b'
  | _, _ => false
  end.
Definition one_line (body : bytes) : bool :=
  match rev body with
  | 10 :: r => forallb (fun x => negb (x =? 10)) r && negb (match r with [] => true | _ => false end)
  | _ => false
  end.
Definition frame_ok (lp : bool) (mx : N) (p : bytes) : bool :=
  if lp then
    let body := skipn 4 p in
    bytes_eqb (firstn 4 p) (le32 (N.of_nat (length body))) && (4 <=? N.of_nat (length p))
    && one_line body && (N.of_nat (length body) <=? mx)
  else one_line p && (N.of_nat (length p) <=? mx).
