(* C10 — the clauses of the scheduled-case checker [sched_spec_ok] on the model's own run:
   (1) results follow the programs, (3) increment conservation on the returned values, (4) gauge
   values of set-only programs.  All are facts about the final configuration of [exec_full]
   (every schedule, every fuel), obtained from step invariants. *)
From Coq Require Import List NArith ZArith Bool Lia.
Import ListNotations.
Require Import MV.Common.Interleave MV.C10.Model MV.C10.Spec MV.C10.Exec MV.C10.ProofsConc MV.C10.ProofsConc2.
Open Scope N_scope.

Notation lupd := (@MV.Common.Interleave.upd _).
Notation cfg := (@config shared local).
Ltac Zify.zify_post_hook ::= Z.to_euclidean_division_equations.

Definition final (ps : list (list uop)) (sched : list N) : cfg :=
  fst (exec_full (step all_fixed) site rr_fuel (init_config ps) (map N.to_nat sched)).

Lemma run_sched_eq ps sched :
  run_case (CSched ps sched) =
  OSched (snd (exec_full (step all_fixed) site rr_fuel (init_config ps) (map N.to_nat sched)))
         (map (fun l => rev (results l)) (snd (final ps sched)))
         (all_done (step all_fixed) (final ps sched))
         (sub64 (cur (cnt (fst (final ps sched)))) (last (cnt (fst (final ps sched)))), upd (cnt (fst (final ps sched))),
          gv (gau (fst (final ps sched))), gu (gau (fst (final ps sched)))).
Proof.
  unfold run_case, run_with, run_sched, impl_fixes, final.
  destruct (exec_full (step all_fixed) site rr_fuel (init_config ps) (map N.to_nat sched)) as [cf tr]. reflexivity.
Qed.

Lemma final_inv (P : cfg -> Prop) ps sched :
  step_preserves (step all_fixed) P -> P (init_config ps) -> P (final ps sched).
Proof. intros H H0. unfold final. apply invariant_exec_full; assumption. Qed.

(* ------------------------------------------------------------------ (1) results follow the programs *)
Inductive kd := KU | KC | KG | KS.
Definition opk (o : uop) : kd := match o with UInc _ | UAbs _ | USet _ => KU | FCnt => KC | FGau => KG | FState => KS end.
Definition resk (r : res) : kd := match r with RU => KU | RCnt _ _ => KC | RGau _ _ _ => KG | RState _ _ _ _ _ => KS end.
Definition pck (p : pc) : list kd :=
  match p with
  | Start | Done => []
  | PF1 st | PF2 st _ | PF3 st _ => [if st then KS else KC]
  | PH1 c | PH2 c _ _ => [match c with None => KG | Some _ => KS end]
  | _ => [KU]
  end.

Definition FInv (ps : list (list uop)) (c : cfg) : Prop :=
  length (snd c) = length ps /\
  forall u l p, nth_error (snd c) u = Some l -> nth_error ps u = Some p ->
    map opk p = map resk (rev (results l)) ++ pck (pcl l) ++ map opk (todo l).

Lemma enter_kinds td rs :
  pck (pcl (enter td rs)) ++ map opk (todo (enter td rs)) = map opk td /\ results (enter td rs) = rs.
Proof. destruct td as [|[] r]; split; reflexivity. Qed.

Lemma step_preserves_FInv ps : step_preserves (step all_fixed) (FInv ps).
Proof.
  intros s ls t l s' l' [Hlen HF] Hnth Hstep. unfold FInv in *. cbn [fst snd] in *.
  split; [rewrite upd_length; exact Hlen|].
  intros u x p Hu Hp. apply nth_error_upd_cases in Hu. destruct Hu as [[-> ->]|[_ Hu]]; [|eauto].
  specialize (HF t l p Hnth Hp). unfold step in Hstep. destruct l as [pc0 td rs]. cbn [pcl todo results] in *.
  assert (Hdone : forall r k, pck pc0 = [k] -> resk r = k ->
            map opk p = map resk (rev (results (enter td (r :: rs)))) ++ pck (pcl (enter td (r :: rs))) ++ map opk (todo (enter td (r :: rs)))).
  { intros r k Hk Hr. destruct (enter_kinds td (r :: rs)) as [E1 E2]. rewrite E2, E1. cbn [rev]. rewrite map_app, <- app_assoc.
    cbn [map app]. rewrite Hr. rewrite Hk in HF. exact HF. }
  destruct pc0; cbn in Hstep; try discriminate;
    try (inversion Hstep; subst; cbn [goto pcl todo results]; exact HF);
    try (inversion Hstep; subst; eapply Hdone; reflexivity).
  - (* Start *) inversion Hstep; subst. destruct (enter_kinds td rs) as [E1 E2]. rewrite E2, E1. exact HF.
  - (* PB1 *) destruct (is_abs (cnt s)); inversion Hstep; subst; exact HF.
  - (* PF3 *) destruct st.
    + destruct (decide all_fixed (idle s) d (upd (cnt s))). inversion Hstep; subst. exact HF.
    + inversion Hstep; subst. eapply Hdone; reflexivity.
  - (* PH2 *) inversion Hstep; subst. destruct carry as [[o cp]|]; eapply Hdone; reflexivity.
Qed.

Lemma FInv_init ps : FInv ps (init_config ps).
Proof.
  split; [cbn; apply map_length|]. intros u l p Hu Hp. cbn in Hu. rewrite nth_error_map, Hp in Hu.
  inversion Hu; subst. reflexivity.
Qed.

Lemma follows_kinds : forall rs p tail, map opk p = map resk rs ++ tail -> follows p rs = true.
Proof.
  induction rs as [|r rs IH]; intros p tail H; [destruct p; reflexivity|].
  destruct p as [|o p]; [discriminate|]. cbn [map app] in H. inversion H as [[Hk Hr]].
  destruct r, o; cbn in Hk; try discriminate; cbn [follows]; eapply IH; eauto.
Qed.

Lemma all2_nth {A B} (f : A -> B -> bool) : forall a b,
  length b = length a -> (forall u x y, nth_error a u = Some x -> nth_error b u = Some y -> f x y = true) ->
  all2 f a b = true.
Proof.
  induction a as [|x r IH]; intros [|y r'] Hl H; cbn in Hl; try discriminate; [reflexivity|].
  cbn [all2]. rewrite (H 0%nat x y eq_refl eq_refl). apply IH; [lia|]. intros u x' y' Hx Hy. apply (H (S u)); assumption.
Qed.

Theorem sched_follows ps sched :
  all2 follows ps (map (fun l => rev (results l)) (snd (final ps sched))) = true.
Proof.
  destruct (final_inv (FInv ps) ps sched (step_preserves_FInv ps) (FInv_init ps)) as [Hlen HF].
  apply all2_nth; [rewrite map_length; exact Hlen|].
  intros u p y Hp Hy. rewrite nth_error_map in Hy. destruct (nth_error (snd (final ps sched)) u) as [l|] eqn:El; [|discriminate].
  inversion Hy; subst. eapply follows_kinds. apply (HF u l p El Hp).
Qed.

(* ------------------------------------------------------------------ (4) gauges of set-only programs *)
Section Sets.
Variable S : list Z.
Definition setop (o : uop) : Prop := match o with USet (WSet z) => In z S | USet _ => False | _ => True end.
Definition zres (r : res) : Prop := match r with RGau z _ _ | RState _ z _ _ _ => In z S | _ => True end.
Definition slocal (l : local) : Prop :=
  Forall setop (todo l) /\ Forall zres (results l) /\
  match pcl l with PG1 w => setop (USet w) | PH2 _ z _ => In z S | _ => True end.
Definition SetInv (c : cfg) : Prop := In (gv (gau (fst c))) S /\ Forall slocal (snd c).

Lemma enter_slocal td rs : Forall setop td -> Forall zres rs -> slocal (enter td rs).
Proof.
  intros H1 H2. destruct td as [|o r]; [split; [constructor|split; [exact H2|exact I]]|].
  inversion H1 as [|? ? Ho Hr]; subst. destruct o; (split; [exact Hr|split; [exact H2|]]); cbn; auto.
Qed.

Lemma step_preserves_SetInv : step_preserves (step all_fixed) SetInv.
Proof.
  intros s ls t l s' l' [Hg Hl] Hnth Hstep. unfold SetInv in *. cbn [fst snd] in *.
  pose proof (Forall_nth_error _ _ _ _ Hl Hnth) as (Htd & Hrs & Hpc).
  unfold step in Hstep. destruct l as [p td rs]. cbn [pcl todo results] in *.
  assert (Hgo : forall p', match p' with PG1 _ | PH2 _ _ _ => False | _ => True end ->
            slocal (goto {| pcl := p; todo := td; results := rs |} p')).
  { intros p' Hp'. split; [exact Htd|split; [exact Hrs|]]. cbn. destruct p'; try contradiction; exact I. }
  destruct p; cbn in Hstep; try discriminate;
    try (inversion Hstep; subst; cbn; split; [exact Hg|apply Forall_upd; [exact Hl|first [apply Hgo; exact I|apply enter_slocal; [exact Htd|constructor; [exact I|exact Hrs]]]]]; fail).
  - (* Start *) inversion Hstep; subst. split; [exact Hg|apply Forall_upd; [exact Hl|apply enter_slocal; assumption]].
  - (* PB1 *) destruct (is_abs (cnt s)); inversion Hstep; subst; cbn; (split; [exact Hg|apply Forall_upd; [exact Hl|apply Hgo; exact I]]).
  - (* PG1 *) inversion Hstep; subst. cbn. split.
    + destruct w; cbn in Hpc; try contradiction. exact Hpc.
    + apply Forall_upd; [exact Hl|apply Hgo; exact I].
  - (* PF3 *) destruct st.
    + destruct (decide all_fixed (idle s) d (upd (cnt s))). inversion Hstep; subst. cbn. split; [exact Hg|apply Forall_upd; [exact Hl|apply Hgo; exact I]].
    + inversion Hstep; subst. cbn. split; [exact Hg|apply Forall_upd; [exact Hl|apply enter_slocal; [exact Htd|constructor; [exact I|exact Hrs]]]].
  - (* PH1 *) inversion Hstep; subst. cbn. split; [exact Hg|]. apply Forall_upd; [exact Hl|]. split; [exact Htd|split; [exact Hrs|exact Hg]].
  - (* PH2 *) inversion Hstep; subst. cbn. split; [exact Hg|]. apply Forall_upd; [exact Hl|]. apply enter_slocal; [exact Htd|].
    constructor; [|exact Hrs]. destruct carry as [[o cp]|]; exact Hpc.
Qed.
End Sets.

Lemma set_values_in ps z : In (USet (WSet z)) (all_ops ps) -> In z (set_values ps).
Proof. intros H. right. apply in_flat_map. exists (USet (WSet z)). split; [exact H|left; reflexivity]. Qed.

Lemma SetInv_init ps : only_sets ps = true -> SetInv (set_values ps) (init_config ps).
Proof.
  intros Ho. split; [left; reflexivity|]. cbn [snd init_config].
  unfold only_sets in Ho. rewrite forallb_forall in Ho.
  apply Forall_forall. intros l Hl. apply in_map_iff in Hl. destruct Hl as (p & <- & Hp).
  split; [|split; [constructor|exact I]]. cbn [todo init_local]. apply Forall_forall. intros o Hin.
  assert (Hall : In o (all_ops ps)) by (apply in_concat; exists p; auto).
  specialize (Ho o Hall). destruct o as [| |[z|z|z]| | |]; cbn in *; try exact I; try discriminate.
  apply set_values_in. exact Hall.
Qed.

Theorem sched_gauge_sets ps sched : only_sets ps = true ->
  forallb (fun z => existsb (fun z' => (z =? z')%Z) (set_values ps))
          (gv (gau (fst (final ps sched))) :: gvals_of (map (fun l => rev (results l)) (snd (final ps sched)))) = true.
Proof.
  intros Ho. destruct (final_inv (SetInv (set_values ps)) ps sched (step_preserves_SetInv _) (SetInv_init ps Ho)) as [Hg Hl].
  assert (Hex : forall z, In z (set_values ps) -> existsb (fun z' => (z =? z')%Z) (set_values ps) = true)
    by (intros z Hz; apply existsb_exists; exists z; split; [exact Hz|apply Z.eqb_refl]).
  apply forallb_forall. intros z [<-|Hz]; [apply Hex; exact Hg|]. apply Hex.
  unfold gvals_of in Hz. apply in_flat_map in Hz. destruct Hz as (r & Hr & Hz).
  apply in_concat in Hr. destruct Hr as (rl & Hrl & Hr). apply in_map_iff in Hrl. destruct Hrl as (l & <- & Hl').
  rewrite Forall_forall in Hl. destruct (Hl l Hl') as (_ & Hrs & _). rewrite Forall_forall in Hrs.
  specialize (Hrs r (proj2 (in_rev _ _) Hr)). destruct r; cbn in Hz; try contradiction; destruct Hz as [<-|[]]; exact Hrs.
Qed.

(* ------------------------------------------------------------------ (3) conservation on the returned values *)
Definition dres (r : res) : N := match r with RCnt d _ => d | RState (Some d) _ _ _ _ => d | _ => 0 end.
Fixpoint sld (rs : list res) : N := match rs with [] => 0 | r :: x => dres r + sld x end.
Definition carryd (p : pc) : N :=
  match p with PH1 (Some (Some d, _)) | PH2 (Some (Some d, _)) _ _ => d | _ => 0 end.
Definition rdel (l : local) : N := sld (results l) + carryd (pcl l).
Definition incop (o : uop) : N := match o with UInc v => v | _ => 0 end.
Fixpoint slo (os : list uop) : N := match os with [] => 0 | o :: r => incop o + slo r end.
Definition rest (l : local) : N := slo (todo l) + match pcl l with PA1 v | PA2 v => v | _ => 0 end.

Definition RInv (ps : list (list uop)) (c : cfg) : Prop :=
  sumL rdel (snd c) = sl (sent (fst c)) + sl (rawd (fst c)) /\
  added (fst c) + sumL rest (snd c) = sumL (fun l => slo (todo l)) (map init_local ps) /\
  Forall (fun l => pcl l = Done -> todo l = []) (snd c).

Lemma enter_rdel td rs : rdel (enter td rs) = sld rs.
Proof. unfold rdel. destruct td as [|[] r]; cbn; lia. Qed.
Lemma enter_rest td rs : rest (enter td rs) = slo td.
Proof. unfold rest. destruct td as [|[] r]; cbn; lia. Qed.
Lemma enter_done td rs : pcl (enter td rs) = Done -> todo (enter td rs) = [].
Proof. destruct td as [|[] r]; cbn; intros; congruence. Qed.

Lemma step_preserves_RInv ps : step_preserves (step all_fixed) (RInv ps).
Proof.
  intros s ls t l s' l' (H1 & H2 & H3) Hnth Hstep. unfold RInv in *. cbn [fst snd] in *.
  pose proof (sumL_upd rdel ls t l l' Hnth) as P1. pose proof (sumL_upd rest ls t l l' Hnth) as P2.
  set (SR := sumL rdel) in *. set (ST := sumL rest) in *.
  unfold step in Hstep. destruct l as [p td rs]. cbn [pcl todo results] in *.
  destruct p; cbn in Hstep; try discriminate.
  all: try (inversion Hstep; subst s' l'; clear Hstep;
            rewrite ?enter_rdel in P1; rewrite ?enter_rest in P2;
            unfold rdel, rest in P1, P2; cbn [goto pcl todo results carryd sld dres] in P1, P2;
            cbn [sent rawd added set_cnt set_gau];
            split; [lia|split; [lia|apply Forall_upd; [exact H3|first [apply enter_done|cbn; discriminate]]]]; fail).
  - (* PB1 *) destruct (is_abs (cnt s)); inversion Hstep; subst s' l'; clear Hstep;
      unfold rdel, rest in P1, P2; cbn [goto pcl todo results carryd] in P1, P2; cbn [sent rawd added set_cnt];
      (split; [lia|split; [lia|apply Forall_upd; [exact H3|cbn; discriminate]]]).
  - (* PF3 *) destruct st.
    + destruct (decide all_fixed (idle s) d (upd (cnt s))) as [i' o] eqn:Ed. inversion Hstep; subst s' l'; clear Hstep.
      assert (Ho : forall x, o = Some x -> x = d) by (intros x ->; unfold decide in Ed; destruct (_ && _), (idle s); inversion Ed; auto).
      unfold rdel, rest in P1, P2. cbn [goto pcl todo results carryd] in P1, P2. cbn [sent rawd added].
      split; [|split; [lia|apply Forall_upd; [exact H3|cbn; discriminate]]].
      destruct o as [x|]; [rewrite (Ho x eq_refl) in *; cbn [sl]; lia|lia].
    + inversion Hstep; subst s' l'; clear Hstep.
      rewrite enter_rdel in P1. rewrite enter_rest in P2. unfold rdel, rest in P1, P2. cbn [pcl todo results carryd sld dres] in P1, P2.
      cbn [sent rawd added sl]. split; [lia|split; [lia|apply Forall_upd; [exact H3|apply enter_done]]].
  - (* PH2 *) inversion Hstep; subst s' l'; clear Hstep.
    rewrite enter_rdel in P1. rewrite enter_rest in P2. unfold rdel, rest in P1, P2. cbn [pcl todo results carryd] in P1, P2.
    cbn [sent rawd added set_gau].
    split; [|split; [lia|apply Forall_upd; [exact H3|apply enter_done]]].
    destruct carry as [[[x|] cp]|]; cbn [sld dres] in P1; lia.
Qed.

Lemma RInv_init ps : RInv ps (init_config ps).
Proof.
  unfold RInv, init_config. cbn [fst snd init_shared sent rawd added sl].
  assert (A : sumL rdel (map init_local ps) = 0) by (induction ps; cbn; auto).
  assert (B : sumL rest (map init_local ps) = sumL (fun l => slo (todo l)) (map init_local ps)).
  { clear A. induction ps as [|p r IH]; [reflexivity|]. cbn [map sumL]. rewrite IH. f_equal. unfold rest. cbn [init_local pcl todo]. lia. }
  split; [rewrite A; reflexivity|]. split; [rewrite B; reflexivity|].
  clear A B. induction ps; cbn; constructor; auto. cbn. discriminate.
Qed.

Lemma slo_inc_sum ps : sumL (fun l => slo (todo l)) (map init_local ps) = inc_sum ps.
Proof.
  unfold inc_sum, all_ops. induction ps as [|p r IH]; [reflexivity|]. cbn [map sumL concat todo init_local].
  rewrite fold_right_app, IH. clear IH. generalize (fold_right (fun o a => match o with UInc v => a + v | _ => a end) 0 (concat r)).
  induction p as [|o p IHp]; intros acc; cbn [slo fold_right]; [lia|]. rewrite <- IHp. destruct o; cbn [incop]; lia.
Qed.

Lemma sumN_app a b : sumN (a ++ b) = sumN a + sumN b.
Proof. unfold sumN. induction a; cbn; lia. Qed.
Lemma sld_deltas rs : sumN (flat_map (fun r => match r with RCnt d _ => [d] | RState (Some d) _ _ _ _ => [d] | _ => [] end) (rev rs)) = sld rs.
Proof.
  induction rs as [|r x IH]; [reflexivity|]. cbn [rev sld]. rewrite flat_map_app, sumN_app, IH. cbn [flat_map].
  rewrite app_nil_r. destruct r as [| | |[d|]]; cbn; lia.
Qed.
Lemma deltas_sum ls : sumN (deltas_of (map (fun l => rev (results l)) ls)) = sumL (fun l => sld (results l)) ls.
Proof.
  unfold deltas_of. induction ls as [|l r IH]; [reflexivity|]. cbn [map concat sumL]. rewrite flat_map_app, sumN_app, IH, sld_deltas. reflexivity.
Qed.

Lemma noabs_of_has_uabs ps : has_uabs ps = false -> Forall noabs_prog ps.
Proof.
  unfold has_uabs. intros H. apply Forall_forall. intros p Hp. apply Forall_forall. intros o Ho.
  destruct o; try exact I. exfalso.
  assert (E : existsb (fun o => match o with UAbs _ => true | _ => false end) (all_ops ps) = true)
    by (apply existsb_exists; eexists; split; [apply in_concat; exists p; eauto|reflexivity]).
  congruence.
Qed.

Lemma step_none fx s l : step fx s l = None -> pcl l = Done.
Proof.
  unfold step. destruct (pcl l); intros H; try reflexivity; try discriminate.
  cbn in H. destruct st; [destruct (decide fx (idle s) d (upd (cnt s)))|]; discriminate.
Qed.

Lemma all_done_Done c l : all_done (step all_fixed) c = true -> In l (snd c) -> pcl l = Done.
Proof.
  intros Hd Hl. apply In_nth_error in Hl. destruct Hl as [u Hu]. unfold all_done in Hd. rewrite forallb_forall in Hd.
  assert (Hlt : (u < length (snd c))%nat) by (apply nth_error_Some; congruence).
  specialize (Hd u (proj2 (in_seq _ _ _) (conj (Nat.le_0_l _) Hlt))). unfold finished in Hd. rewrite Hu in Hd.
  destruct (step all_fixed (fst c) l) eqn:E; [discriminate|]. eapply step_none; eauto.
Qed.

Theorem sched_conservation ps sched :
  has_uabs ps = false -> all_done (step all_fixed) (final ps sched) = true ->
  (sumN (sub64 (cur (cnt (fst (final ps sched)))) (last (cnt (fst (final ps sched))))
         :: deltas_of (map (fun l => rev (results l)) (snd (final ps sched))))) mod two64 = (inc_sum ps) mod two64.
Proof.
  intros Ha Hd. pose proof (noabs_of_has_uabs ps Ha) as Hna.
  destruct (final_inv (Inv all_fixed) ps sched (step_preserves_Inv all_fixed) (Inv_init all_fixed ps Hna)) as (Hcur & Hsum & _ & _ & Hlost).
  destruct (final_inv (RInv ps) ps sched (step_preserves_RInv ps) (RInv_init ps)) as (R1 & R2 & R3).
  set (c := final ps sched) in *. specialize (Hlost eq_refl).
  (* every thread is Done *)
  assert (HD : forall l, In l (snd c) -> pcl l = Done) by (intros l Hl; eapply all_done_Done; eauto).
  assert (Z1 : sumL pend (snd c) = 0 /\ sumL rest (snd c) = 0 /\ sumL rdel (snd c) = sumL (fun l => sld (results l)) (snd c)).
  { rewrite Forall_forall in R3. clear - HD R3. induction (snd c) as [|l r IH]; [repeat split|].
    destruct IH as (I1 & I2 & I3); [intros x Hx Hp; apply R3; [right; exact Hx|exact Hp]|intros; apply HD; right; auto|].
    pose proof (HD l (or_introl eq_refl)) as E. pose proof (R3 l (or_introl eq_refl) E) as Et.
    cbn [sumL]. rewrite I1, I2, I3. unfold pend, rest, rdel. rewrite E, Et. cbn. repeat split; lia. }
  destruct Z1 as (Z1 & Z2 & Z3).
  cbn [sumN fold_right]. fold (sumN (deltas_of (map (fun l => rev (results l)) (snd c)))). rewrite deltas_sum, <- Z3, R1.
  rewrite slo_inc_sum, Z2 in R2. rewrite (sl_zero _ Hlost), Z1 in Hsum.
  rewrite <- R2, N.add_0_r. rewrite <- Hcur.
  replace (sub64 (cur (cnt (fst c))) (last (cnt (fst c))) + (sl (sent (fst c)) + sl (rawd (fst c))))
    with ((sl (sent (fst c)) + sl (rawd (fst c)) + 0 + 0) + sub64 (cur (cnt (fst c))) (last (cnt (fst c)))) by lia.
  apply sub64_spec; [exact Hsum|]. rewrite Hcur. apply N.mod_lt. discriminate.
Qed.
