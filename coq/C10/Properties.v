(* C10 — property theorems.  Concurrent clauses: [exec (step fx) site (init_config ps) sched] is the
   configuration reached from thread programs ps (any number of threads, any call lists) under an
   arbitrary schedule; one step per atomic access of storage.rs.  Sequential clauses: per-key
   machines built from the same access functions. *)
From Coq Require Import List NArith ZArith Bool Permutation.
Import ListNotations.
Require Import MV.Common.Interleave MV.C10.Model MV.C10.Spec MV.C10.Exec
               MV.C10.ProofsConc MV.C10.ProofsConc2 MV.C10.ProofsSeq MV.C10.ExecProofs
               MV.C10.ProofsBound MV.C10.ProofsRefine MV.C10.ProofsWire MV.C10.ProofsSound MV.C10.ProofsSuffix MV.C10.ProofsAbs MV.C10.ProofsCompose MV.C10.ProofsCompose2 MV.C10.ProofsAbs2 MV.C10.ProofsSched MV.C10.ProofsSched2 MV.C10.ProofsSched3 MV.C10.ProofsMix MV.C10.ProofsSched4.
Open Scope N_scope.

(* counters driven only by increments, any number of updating and flushing threads, every schedule,
   any flush cadence, at every configuration: deltas handed to the writer by State::flush + deltas
   returned by raw flushes + deltas computed by a flush still between its 1009 and 1010 steps
   + (current - last) = the increments whose fetch_add executed (mod 2^64); and every delta the idle
   logic dropped is zero *)
Theorem C10_increment_conservation : forall ps sched,
  Forall noabs_prog ps ->
  let c := fst (exec (step all_fixed) site (init_config ps) sched) in
  (sl (sent (fst c)) + sl (rawd (fst c)) + sumL pend (snd c)
   + sub64 (cur (cnt (fst c))) (last (cnt (fst c)))) mod two64 = added (fst c) mod two64
  /\ Forall (fun d => d = 0) (lost (fst c)).
Proof. exact increment_conservation_fixed. Qed.

Theorem C10_increment_conservation_refuted_before_fix :
  exists ps sched, Forall noabs_prog ps /\
    let c := fst (exec (step as_found) site (init_config ps) sched) in
    all_done (step as_found) c = true /\ added (fst c) = 5 /\ lost (fst c) = [5] /\
    sl (sent (fst c)) + sl (rawd (fst c)) + sumL pend (snd c) + sub64 (cur (cnt (fst c))) (last (cnt (fst c))) = 0.
Proof. exact increment_conservation_refuted_before_fix. Qed.

(* absolutes, sequential, after the first (re-basing) absolute: no delta wraps, `current` is the
   running maximum, deltas + unflushed remainder = running maximum - base *)
Theorem C10_absolute_conservation : forall es c,
  abs_only es -> is_abs c = true -> last c <= cur c -> cur c < two64 ->
  cur (snd (araw all_fixed c es)) = runmax (cur c) es /\
  last (snd (araw all_fixed c es)) <= cur (snd (araw all_fixed c es)) /\
  cur (snd (araw all_fixed c es)) < two64 /\
  sln (fst (araw all_fixed c es)) + (cur (snd (araw all_fixed c es)) - last (snd (araw all_fixed c es)))
    = runmax (cur c) es - last c.
Proof. exact absolute_conservation_seq. Qed.

Theorem C10_first_absolute_rebases : forall fx v c, is_abs c = false ->
  is_abs (seq_abs fx v c) = true /\ last (seq_abs fx v c) = v /\ cur (seq_abs fx v c) = v.
Proof. exact first_absolute_rebases. Qed.

Theorem C10_absolute_wrap_refuted_before_fix :
  crun as_found cst0 [CAbs 15; CFlush; CAbs 5; CFlush] = [Some (0, 1); Some (18446744073709551606, 1)].
Proof. exact absolute_wrap_refuted_before_fix. Qed.

(* open finding: a flush straddling the re-basing stores of a first absolute reports a wrapped delta *)
Theorem C10_rebase_straddle_refutes :
  known_class straddle_case = Some 1 /\ spec_ok straddle_case (run_case straddle_case) = false /\
  exists tr rs dn fin, run_case straddle_case = OSched tr rs dn fin /\
                       In (RCnt 18446744073709551521 0) (concat rs).
Proof. exact rebase_straddle_refutes. Qed.

(* idle-once, sequential: after its last update a counter is sent with its delta, once more as
   zero, then not at all; a registered, never updated counter is sent as zero once *)
Theorem C10_idle_once : forall fx st e n, is_update e ->
  exists d u, u <> 0 /\
    crun fx st (e :: CFlush :: CFlush :: repeat CFlush n) = Some (d, u) :: Some (0, 0) :: repeat None n.
Proof. exact idle_once_seq. Qed.

Theorem C10_idle_once_registered_only : forall fx n,
  crun fx cst0 (CReg :: CFlush :: repeat CFlush n) = Some (0, 0) :: repeat None n.
Proof. exact idle_once_registered_only. Qed.

(* idle-once, every schedule: from a quiescent configuration (no counter update left in any thread,
   updates = 0, last = current, in-flight flushes consistent) with sent list s0 and idle flag i0,
   whatever is scheduled, at most one more message (a zero) is sent, and none if already idle *)
Theorem C10_idle_once_all_schedules : forall fx c0 s0 i0 c sched,
  Qinv c0 s0 i0 c -> Qinv c0 s0 i0 (fst (exec (step fx) site c sched)).
Proof. exact idle_once_all_schedules. Qed.

(* gauges, every schedule: every flushed value is the fold of exactly the writes executed before
   the flush's load *)
Theorem C10_gauge_latest : forall fx ps sched,
  let c := fst (exec (step fx) site (init_config ps) sched) in
  gv (gau (fst c)) = replay (ghist (fst c)) /\
  forall u l r, nth_error (snd c) u = Some l -> In r (results l) ->
    match r with
    | RGau z _ h | RState _ z _ _ h => z = replay h /\ exists later, ghist (fst c) = later ++ h
    | _ => True
    end.
Proof. exact gauge_latest. Qed.

(* gauges, sequential exporter: once registered every flush sends the fold of all writes so far
   (the gauge clause of spec_ok holds on the model for every history) *)
Theorem C10_gauge_latest_seq : forall es, gauge_ok es (map (option_map fst) (grun gst0 es)) = true.
Proof. exact gauge_ok_on_model. Qed.

(* histograms (sampling off, or on within the reservoir), sequential bag: the values of all flushes
   plus the values still in the bag are a permutation of the values recorded *)
Theorem C10_histogram_each_value_once : forall samp es,
  exists bag', Permutation (concat (concat (hrun samp hst0 es)) ++ bag') (recorded es).
Proof. exact histogram_each_value_once. Qed.

Theorem C10_timestamp_iff_documented : forall c i now x,
  In x (flush_calls all_fixed c i now) ->
  match x with
  | WC _ _ _ ts | WG _ _ _ ts => ts = documented_ts (o_aggr c) now
  | WH _ _ => True
  end.
Proof. exact timestamp_iff_documented. Qed.

Theorem C10_timestamp_refuted_before_fix :
  agg_timestamp as_found false 7 = Some 7 /\ agg_timestamp as_found true 7 = None.
Proof. exact timestamp_refuted_before_fix. Qed.

(* stream framing (own small model; C09 owns the writer): the concatenation of LE32(len) ++ body
   frames decodes to exactly the bodies, in order *)
Theorem C10_wire_framing : forall ps,
  Forall (fun b => N.of_nat (length b) < 4294967296) ps ->
  split_frames (length ps) (concat (map frame ps)) = ps.
Proof. exact wire_framing. Qed.

(* the executable property: false on the old code's outputs for the corpus witnesses, true on the
   repaired model; satisfiable non-trivial examples *)
Theorem C10_refuted_before_fix :
  spec_ok witness_ts (run_with as_found witness_ts) = false /\
  spec_ok witness_abs (run_with as_found witness_abs) = false /\
  spec_ok witness_idle (run_with as_found witness_idle) = false /\
  spec_ok witness_ts (run_case witness_ts) = true /\
  spec_ok witness_abs (run_case witness_abs) = true /\
  spec_ok witness_idle (run_case witness_idle) = true.
Proof. exact refuted_before_fix. Qed.

Theorem C10_examples_ok :
  spec_ok example_seq (run_case example_seq) = true /\ known_class example_seq = None /\
  spec_ok example_sched (run_case example_sched) = true /\ known_class example_sched = None.
Proof. exact examples_ok. Qed.

(* ---------------------------------------------------------------- round 2 *)

(* ONE flushing thread f, increment-only counters, every schedule, every configuration: every
   delta sent / returned / dropped is logged (at its 1010 step) with a window w; the delta is w mod
   2^64; the windows are the consecutive differences of the values of [added] at the flusher's
   completed `current.load`s, which never decrease and never exceed [added]; hence all windows
   together (a fortiori each) do not exceed what was added *)
Theorem C10_delta_bounded : forall fx f ps sched,
  Forall (Forall noabs_op) ps -> one_flusher f ps ->
  let c := fst (exec (step fx) site (init_config ps) sched) in
  (forall d, In d (sent (fst c) ++ rawd (fst c) ++ lost (fst c)) -> exists w, In (d, w) (flog (fst c))) /\
  (forall d w, In (d, w) (flog (fst c)) -> d = w mod two64) /\
  (exists done_marks, (done_marks = marks (fst c) \/ done_marks = tl (marks (fst c))) /\
                      map snd (flog (fst c)) = diffs done_marks /\ desc (added (fst c) :: marks (fst c))) /\
  fold_right N.add 0 (map snd (flog (fst c))) <= added (fst c).
Proof. exact delta_bounded. Qed.

(* the counter clause of spec_ok holds on the model for EVERY sequential history of a key
   (increments, absolutes, registrations, flushes in any order; values below 2^64): presence
   phases, increment-only sums mod 2^64, absolute-only running-maximum differences, global bound *)
Theorem C10_counter_clause_on_model : forall es, Forall cev_wf es ->
  counter_ok es (map (option_map fst) (crun all_fixed cst0 es)) = true.
Proof. exact counter_ok_on_model. Qed.

(* the histogram clause of spec_ok holds on the model for every history (sampling on: windows
   within the reservoir) *)
Theorem C10_histogram_clause_on_model : forall samp rsv es,
  (samp = true -> hwin_ok rsv 0 es = true) ->
  histogram_ok samp rsv es (map (fun bl => sort_z (concat bl)) (hrun samp hst0 es)) = true.
Proof. exact histogram_ok_on_model. Qed.

(* what spec_ok = true means *)
Theorem C10_spec_ok_sound_seq : forall c fl, spec_ok (CSeq c) (OSeq fl) = true ->
  o_max c < two32 /\ flushes_ok c (nows (o_ops c)) fl = true /\
  forall k, In k (keyids c) ->
    counter_ok (flat_map (projC k) (o_ops c)) (obs_counter k fl) = true /\
    gauge_ok (flat_map (projG k) (o_ops c)) (obs_gauge k fl) = true /\
    histogram_ok (o_samp c) (o_rsv c) (flat_map (projH k) (o_ops c)) (obs_hist k fl) = true.
Proof. exact seq_spec_ok_sound. Qed.

Theorem C10_flushes_ok_sound : forall c ns fl, flushes_ok c ns fl = true ->
  length fl = length ns /\
  forall i n f, nth_error ns i = Some n -> nth_error fl i = Some f ->
    exists ms ps cp gp hp, f = FOut ms ps cp gp hp /\
      msgs_wf (N.of_nat (length (o_keys c))) ms = true /\
      (forall m, In m ms -> ts_ok (o_aggr c) n m = true) /\
      (forall p, In p ps -> frame_ok (o_lp c) (o_max c) p = true).
Proof. exact flushes_ok_sound. Qed.

Theorem C10_spec_ok_sound_sched : forall ps sched tr rs fd fu fz fg,
  spec_ok (CSched ps sched) (OSched tr rs true (fd, fu, fz, fg)) = true -> has_uabs ps = false ->
  (sumN (fd :: deltas_of rs)) mod two64 = (inc_sum ps) mod two64.
Proof. exact sched_spec_ok_sound. Qed.

(* wire, chained with C09 (MV.C09.Final.write_conservation, drain_yields_committed, Inv.new_ok): a
   whole sequential run of the exporter never panics, and in every forwarder iteration the payloads
   handed to the socket are the frames (LE32 len ++ body on a unix stream) of exactly the bodies the
   iteration's writer calls committed - per call the renderings of its message over a split of the
   values that fit - each within the payload limit *)
Theorem C10_wire_chain : forall c, o_max c < 4294967296 ->
  exists fl, run_seq all_fixed c = Some fl /\
    Forall2 (fun xs f => exists fs cp gp hp,
               f = FOut (msgs_of c xs) (map (MV.C09.Inv.frame (o_lp c)) fs) cp gp hp /\
               bodies_rel c xs fs /\ Forall (fun b => W.len b <= o_max c) fs)
            (all_calls all_fixed c) fl.
Proof. exact seq_wire. Qed.

(* and the stream decodes to exactly those bodies *)
Theorem C10_wire_stream_decodes : forall fs,
  Forall (fun b => W.len b < 4294967296) fs ->
  split_frames (length fs) (concat (map (MV.C09.Inv.frame true) fs)) = fs.
Proof. exact stream_decodes. Qed.

(* ---------------------------------------------------------------- round 3 *)

(* idle-once, suffix form, every schedule: from ANY configuration in which no thread updates the
   counter any more ([Pre]: every thread other than f only writes/flushes the gauge; the single
   flushing thread f has no counter update left and is between two counter flushes; `last`,
   `updates`, the idle flag arbitrary): either the first flush has not completed and nothing was
   sent, or the configuration became quiescent after at most one catch-up delta, and from there at
   most one zero was sent (none if idle) - and nothing afterwards *)
Theorem C10_idle_once_suffix : forall fx f c0 s0 c sched,
  Pre f c0 s0 c ->
  let c' := fst (exec (step fx) site c sched) in
  (Pre f c0 s0 c' /\ sent (fst c') = s0) \/
  exists s1 i1, (s1 = s0 \/ exists d, s1 = d :: s0) /\ Qinv c0 s1 i1 c' /\
                (sent (fst c') = s1 \/ (i1 = false /\ sent (fst c') = 0 :: s1)).
Proof. exact idle_once_suffix. Qed.

(* ---------------------------------------------------------------- round 4 *)

(* (a) absolutes under concurrency - strongest statement proved.  Programs without increments
   (absolute values <= A < 2^64), any number of updating threads, ONE counter-flushing thread f,
   repaired code, every schedule none of whose configurations is HAZARDOUS (a flush between its
   1008 load and 1009 swap coexisting with a thread between the 1005 and 1006 stores of a re-basing
   absolute, or two threads inside such a window - for a completed run exactly the step pattern of
   the open class C10-rebase-straddle): every delta sent / returned / dropped is exact and <= A (no
   wrapped delta), current <= A, last <= current whenever no re-basing window is open, and inside
   the window last is the re-basing value.
   NOT proved: the conservation identity (sum of deltas + current - last = running max - base) for
   concurrent schedules: with two updating threads it is false even outside the class (a non-first
   absolute's fetch_max can land before the re-basing stores and is then overwritten, or is flushed
   against last = 0); and the formal link "known_class c = None -> safe" (argued in ProofsAbs.v). *)
Theorem C10_absolute_no_wrap_hazard_free : forall A, A < two64 ->
  forall f ps sched, Forall (abs_prog A) ps -> one_flusher f ps -> safe (init_config ps) sched ->
  let c := fst (exec (step all_fixed) site (init_config ps) sched) in
  Forall (fun d => d <= A) (sent (fst c) ++ rawd (fst c) ++ lost (fst c)) /\
  cur (cnt (fst c)) <= A /\
  (~ W (snd c) -> last (cnt (fst c)) <= cur (cnt (fst c))) /\
  (forall u l v, nth_error (snd c) u = Some l -> pcl l = PB3 true v -> last (cnt (fst c)) = v).
Proof. exact absolute_no_wrap_hazard_free. Qed.

(* (c) idle-once suffix with a counter flush already in flight when the updates stop: at most ONE
   more delta (the in-flight one), then the behaviour of C10_idle_once_suffix *)
Theorem C10_idle_once_suffix_in_flight : forall fx f c0 s0 c sched,
  PreIn f c0 s0 c ->
  let c' := fst (exec (step fx) site c sched) in
  (PreIn f c0 s0 c' /\ sent (fst c') = s0) \/
  exists s0', (s0' = s0 \/ exists d, s0' = d :: s0) /\
    ((Pre f c0 s0' c' /\ sent (fst c') = s0') \/
     exists s1 i1, (s1 = s0' \/ exists d, s1 = d :: s0') /\ Qinv c0 s1 i1 c' /\
                   (sent (fst c') = s1 \/ (i1 = false /\ sent (fst c') = 0 :: s1))).
Proof. exact idle_once_suffix_in_flight. Qed.

(* (b) composition for sequential cases, per-key conjunct: the model's run of EVERY sequential case
   (max payload < 2^32, counter values < 2^64, sampling windows within the reservoir) is an OSeq
   (no panic) on which the counter, gauge and histogram walkers of spec_ok accept what obs_counter /
   obs_gauge / obs_hist read back from the assembled message lists, for every key.
   Full statement  forall c, wf c -> spec_ok c (run_case c) = true  still missing its other conjunct
   [flushes_ok] on the model: msgs_wf (no duplicate (kind,key), counter values < 2^64), ts_ok (from
   C10_timestamp_iff_documented), and frame_ok = C10_wire_chain + the one-line property of C09's
   rendered bodies; and the scheduled cases. *)
Theorem C10_spec_ok_on_model_keys : forall c, o_max c < 4294967296 -> ops_wf c -> hist_wf c ->
  exists fl, run_case (CSeq c) = OSeq fl /\
    forallb (fun k => counter_ok (flat_map (projC k) (o_ops c)) (obs_counter k fl)
                      && gauge_ok (flat_map (projG k) (o_ops c)) (obs_gauge k fl)
                      && histogram_ok (o_samp c) (o_rsv c) (flat_map (projH k) (o_ops c)) (obs_hist k fl))
            (keyids c) = true.
Proof. exact key_clauses_on_run. Qed.

(* ---------------------------------------------------------------- round 5 *)

(* the composed theorem for sequential cases: for EVERY sequential case with counter values < 2^64,
   sampling windows within the reservoir and no newline byte in prefix / global labels / key names /
   key labels ([seq_wf]; max payload length arbitrary: >= 2^32 gives the documented constructor panic),
   the executable property holds on the model's run: per flush well-formed messages (no duplicate
   (kind, key), counter values u64), timestamp iff Aggressive, every payload framed for the transport,
   one line, within the limit (C09's writer theorems + the structure of C09's render), and the counter,
   gauge and histogram walkers accept what is read back for every key *)
Theorem C10_spec_ok_on_model_seq : forall c, seq_wf c -> spec_ok (CSeq c) (run_case (CSeq c)) = true.
Proof. exact spec_ok_on_model_seq. Qed.

(* the executable class predicate vs the proof's hazard predicate: if known_class = None for a
   scheduled case, then the run the check evaluates (given schedule + round-robin tail, as one
   effective schedule [full]) is, whenever it completes, hazard-free at every configuration *)
Theorem C10_known_class_none_hazard_free : forall ps sched,
  known_class (CSched ps sched) = None ->
  exists full, exec_full (step all_fixed) site rr_fuel (init_config ps) (map N.to_nat sched)
               = exec (step all_fixed) site (init_config ps) full /\
    (all_done (step all_fixed) (fst (exec (step all_fixed) site (init_config ps) full)) = true ->
     safe (init_config ps) full).
Proof. exact known_class_none_hazard_free. Qed.

(* hence, on exactly the completed cases the check does not excuse: increment-free programs
   (absolute values <= A < 2^64), one counter-flushing thread: no wrapped delta, last <= current *)
Theorem C10_absolute_no_wrap_outside_class : forall A f ps sched,
  A < two64 -> Forall (abs_prog A) ps -> one_flusher f ps ->
  known_class (CSched ps sched) = None ->
  exists full, exec_full (step all_fixed) site rr_fuel (init_config ps) (map N.to_nat sched)
               = exec (step all_fixed) site (init_config ps) full /\
    let c := fst (exec (step all_fixed) site (init_config ps) full) in
    all_done (step all_fixed) c = true ->
    Forall (fun d => d <= A) (sent (fst c) ++ rawd (fst c) ++ lost (fst c)) /\
    cur (cnt (fst c)) <= A /\ last (cnt (fst c)) <= cur (cnt (fst c)).
Proof. exact absolute_no_wrap_outside_class. Qed.

(* ---------------------------------------------------------------- round 6: the scheduled-case checker on the model *)
(* [final ps sched] = the configuration the check's model run ends in (given schedule + round-robin tail) *)

(* clause (1): every thread's results follow its program, call by call *)
Theorem C10_sched_results_follow_programs : forall ps sched,
  all2 follows ps (map (fun l => rev (results l)) (snd (final ps sched))) = true.
Proof. exact sched_follows. Qed.

(* clause (4): gauges driven only by set: every flushed value (and the final one) is 0 or a value set *)
Theorem C10_sched_gauge_sets : forall ps sched, only_sets ps = true ->
  forallb (fun z => existsb (fun z' => (z =? z')%Z) (set_values ps))
          (gv (gau (fst (final ps sched))) :: gvals_of (map (fun l => rev (results l)) (snd (final ps sched)))) = true.
Proof. exact sched_gauge_sets. Qed.

(* clause (3): increment-only programs, run complete: the deltas RETURNED to the threads (raw flushes,
   State::flush messages) plus the final flush add up to the increments (mod 2^64) *)
Theorem C10_sched_conservation_on_results : forall ps sched,
  has_uabs ps = false -> all_done (step all_fixed) (final ps sched) = true ->
  (sumN (sub64 (cur (cnt (fst (final ps sched)))) (last (cnt (fst (final ps sched))))
         :: deltas_of (map (fun l => rev (results l)) (snd (final ps sched))))) mod two64 = (inc_sum ps) mod two64.
Proof. exact sched_conservation. Qed.

(* clause (2), increment-only programs, one counter-flushing thread: no returned delta (nor the final
   one) exceeds the sum of the increments - at every point, complete run or not *)
Theorem C10_sched_delta_bound_increment_only : forall ps sched,
  ps <> [] -> MV.C10.Exec.one_flusher ps = true -> has_uabs ps = false -> inc_sum ps < two64 ->
  forallb (fun d => d <=? inc_sum ps)
          (sub64 (cur (cnt (fst (final ps sched)))) (last (cnt (fst (final ps sched))))
           :: deltas_of (map (fun l => rev (results l)) (snd (final ps sched)))) = true.
Proof. exact sched_bound_inc. Qed.

(* clause (2), increment-free programs, one counter-flushing thread, completed run outside the open class *)
Theorem C10_sched_delta_bound_increment_free : forall ps sched,
  ps <> [] -> MV.C10.Exec.one_flusher ps = true -> incfree ps = true -> abs_max ps < two64 ->
  known_class (CSched ps sched) = None -> all_done (step all_fixed) (final ps sched) = true ->
  forallb (fun d => d <=? abs_max ps)
          (sub64 (cur (cnt (fst (final ps sched)))) (last (cnt (fst (final ps sched))))
           :: deltas_of (map (fun l => rev (results l)) (snd (final ps sched)))) = true.
Proof. exact sched_bound_abs. Qed.

(* the composed statement for scheduled cases.  PARTIAL: [sched_wf] requires, besides a non-empty
   thread list and a run that completes within the round-robin fuel, that the counter is driven only by
   increments or only by absolutes; for programs MIXING increments and absolutes clause (2) (the
   delta bound) is not proved on the model (full statement: the same without that disjunct) *)
Theorem C10_spec_ok_on_model_sched_partial : forall ps sched,
  known_class (CSched ps sched) = None -> sched_wf ps sched ->
  spec_ok (CSched ps sched) (run_case (CSched ps sched)) = true.
Proof. exact spec_ok_on_model_sched_partial. Qed.

(* both case shapes ([case_wf] = seq_wf for sequential cases, sched_wf for scheduled ones; partial
   only through sched_wf's increment-only-or-absolute-only disjunct) *)
Theorem C10_spec_ok_on_model_partial : forall c,
  known_class c = None -> case_wf c -> spec_ok c (run_case c) = true.
Proof. exact spec_ok_on_model_partial. Qed.

(* ---------------------------------------------------------------- round 7: programs mixing increments and absolutes *)

(* no wrapped delta along hazard-free schedules for ARBITRARY counter programs: increments (total I0),
   absolutes (values <= A), I0 + A < 2^64, any number of updating threads, one counter-flushing
   thread, repaired code: every delta sent / returned / dropped is exact and <= I0 + A,
   current <= added + A, added <= I0, last <= current whenever no re-basing window is open *)
Theorem C10_mixed_no_wrap_hazard_free : forall A I0, I0 + A < two64 ->
  forall f ps sched, Forall (mix_prog A) ps -> one_flusher f ps ->
  sumL (fun l => slo (todo l)) (map init_local ps) = I0 ->
  safe (init_config ps) sched ->
  let c := fst (exec (step all_fixed) site (init_config ps) sched) in
  Forall (fun d => d <= I0 + A) (sent (fst c) ++ rawd (fst c) ++ lost (fst c)) /\
  cur (cnt (fst c)) <= added (fst c) + A /\ added (fst c) <= I0 /\
  (~ W (snd c) -> last (cnt (fst c)) <= cur (cnt (fst c))).
Proof. exact mixed_no_wrap_hazard_free. Qed.

(* clause (2) of the scheduled checker for every program: one counter-flushing thread, completed run
   outside the open class: no returned delta (nor the final one) exceeds sum of increments + largest absolute *)
Theorem C10_sched_delta_bound : forall ps sched,
  ps <> [] -> MV.C10.Exec.one_flusher ps = true -> inc_sum ps + abs_max ps < two64 ->
  known_class (CSched ps sched) = None -> all_done (step all_fixed) (final ps sched) = true ->
  forallb (fun d => d <=? inc_sum ps + abs_max ps)
          (sub64 (cur (cnt (fst (final ps sched)))) (last (cnt (fst (final ps sched))))
           :: deltas_of (map (fun l => rev (results l)) (snd (final ps sched)))) = true.
Proof. exact sched_bound_mix. Qed.

(* the composed theorems in full.  sched_wf_full: non-empty thread list, the schedule plus the
   round-robin tail finishes every thread.  case_wf_full: seq_wf (sequential) / sched_wf_full (scheduled) *)
Theorem C10_spec_ok_on_model_sched : forall ps sched,
  known_class (CSched ps sched) = None -> sched_wf_full ps sched ->
  spec_ok (CSched ps sched) (run_case (CSched ps sched)) = true.
Proof. exact spec_ok_on_model_sched. Qed.

Theorem C10_spec_ok_on_model : forall c,
  known_class c = None -> case_wf_full c -> spec_ok c (run_case c) = true.
Proof. exact spec_ok_on_model. Qed.
