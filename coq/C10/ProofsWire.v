(* C10 — the forwarder iteration chained with C09's writer theorems: the payloads of a flush are
   the frames (LE32 length prefix on a stream socket) of exactly the bodies the flush's writer
   calls committed, each body the rendering of the call's message over the values that fit; no
   call and no drain panics. *)
From Coq Require Import List NArith ZArith Bool Lia.
Import ListNotations.
Require Import MV.C10.Model MV.C10.Spec MV.C10.Exec MV.C10.ExecProofs.
Require MV.C09.Spec MV.C09.Inv MV.C09.Abs MV.C09.Safety MV.C09.Render MV.C09.Final MV.C09.Properties.
Module WS := MV.C09.Spec.
Module WI := MV.C09.Inv.
Module WF := MV.C09.Final.
Module WA := MV.C09.Abs.
Open Scope N_scope.

(* the writer operation a call of State::flush amounts to, and the configuration it runs under *)
Definition op_of_call (c : ocase) (x : wcall) : W.op :=
  match x with
  | WC k d _ ts => let '(name, labels) := key_of c k in W.WScalar W.Counter name labels (dec d) (option_map dec ts)
  | WG k z _ ts => let '(name, labels) := key_of c k in W.WScalar W.Gauge name labels (fmt_z z) (option_map dec ts)
  | WH k block => let '(name, labels) := key_of c k in
                  W.WHist (if o_dist c then W.Dist else W.Hist) name labels (map fmt_z block)
                          (if o_samp c then Some [49; 46; 48] else None)
  end.
Definition cfg_of_call (c : ocase) (x : wcall) : W.cfg :=
  let name := fst (key_of c (match x with WC k _ _ _ | WG k _ _ _ | WH k _ => k end)) in
  {| W.c_max := o_max c; W.c_lp := o_lp c; W.c_env := env_of c name |}.

Lemma env_fixed c name : W.fx (env_of c name) = W.all_fixed.
Proof. reflexivity. Qed.

(* write_call is W.step on that operation *)
Lemma write_call_step c w pts x :
  match W.step (W.c_env (cfg_of_call c x)) w (op_of_call c x) with
  | W.Ok (w', W.OWrite _ _) => exists pts', write_call c (w, pts) x = W.Ok (w', pts')
  | W.Ok (_, _) => True
  | W.Panic => write_call c (w, pts) x = W.Panic
  end.
Proof.
  destruct pts as [[cp gp] hp]. unfold cfg_of_call, op_of_call, write_call.
  destruct x as [k d u ts|k z u ts|k b]; cbn [fst W.c_env]; destruct (key_of c k) as [name labels]; cbn [fst W.step W.sbyte W.hbyte].
  - destruct (W.write_scalar _ _ _ _ _ _ _) as [[w' [pw pd]]|]; eauto.
  - destruct (W.write_scalar _ _ _ _ _ _ _) as [[w' [pw pd]]|]; eauto.
  - destruct (o_dist c); cbn [W.hbyte];
      destruct (W.write_hist_dist_inner _ _ _ _ _ _ _) as [[w' [pw pd]]|]; eauto.
Qed.

(* the bodies a list of calls commits: per call, the renderings of its message over a split of
   exactly the values that fit *)
Inductive bodies_rel (c : ocase) : list wcall -> list bytes -> Prop :=
| br_nil : bodies_rel c [] []
| br_cons x xs chunks fs :
    Forall (fun ch => ch <> []) chunks ->
    concat chunks = WS.kept (cfg_of_call c x) (op_of_call c x) ->
    bodies_rel c xs fs ->
    bodies_rel c (x :: xs)
               (map (fun ch => MV.C09.Render.render (WS.expect (cfg_of_call c x) (op_of_call c x) ch)) chunks ++ fs).

Definition call_ok (c : ocase) (x : wcall) : Prop := WS.values_nonempty (op_of_call c x) = true.

Lemma write_calls_chain c : forall xs w pts fs0,
  WI.Rep w fs0 -> W.max w = o_max c -> W.lp w = o_lp c -> Forall (call_ok c) xs ->
  exists w1 pts1 fs,
    write_calls c (w, pts) xs = W.Ok (w1, pts1) /\ WI.Rep w1 (fs0 ++ fs) /\ bodies_rel c xs fs /\
    W.max w1 = o_max c /\ W.lp w1 = o_lp c.
Proof.
  induction xs as [|x r IH]; intros w pts fs0 HR Hm Hl Hok.
  - exists w, pts, []. cbn [write_calls]. rewrite app_nil_r. split; [reflexivity|]. split; [exact HR|]. split; [constructor|]. split; assumption.
  - inversion Hok as [|? ? Hx Hr]; subst.
    assert (Hw : WF.is_write (op_of_call c x)).
    { unfold op_of_call. destruct x; destruct (key_of c k); exact I. }
    destruct (WF.write_conservation (cfg_of_call c x) w fs0 (op_of_call c x) (env_fixed _ _) HR Hm Hw Hx)
      as (w' & pw & pd & chunks & Hs & HR' & Hne & Hcat & _ & _).
    destruct (WA.step_refines (W.c_env (cfg_of_call c x)) w fs0 (op_of_call c x) (env_fixed _ _) HR)
      as (w'' & Hs' & Hm' & Hl' & _).
    rewrite Hs in Hs'. injection Hs' as Ew _. subst w''.
    pose proof (write_call_step c w pts x) as Hc. rewrite Hs in Hc. destruct Hc as [pts' Hc].
    destruct (IH w' pts' _ HR' (eq_trans Hm' Hm) (eq_trans Hl' Hl) Hr) as (w1 & pts1 & fs & E & HR1 & Hb & Hm1 & Hl1).
    exists w1, pts1, (map (fun ch => MV.C09.Render.render (WS.expect (cfg_of_call c x) (op_of_call c x) ch)) chunks ++ fs).
    cbn [write_calls]. rewrite Hc. split; [exact E|]. rewrite app_assoc. split; [exact HR1|].
    split; [constructor; assumption|]. auto.
Qed.

(* one forwarder iteration from an empty writer: the payloads are the frames of the bodies *)
Theorem flush_wire c w xs :
  WI.Rep w [] -> W.max w = o_max c -> W.lp w = o_lp c -> Forall (call_ok c) xs ->
  exists fs cp gp hp w2,
    run_flushes c w [xs] = [FOut (msgs_of c xs) (map (WI.frame (o_lp c)) fs) cp gp hp] /\
    bodies_rel c xs fs /\ Forall (fun b => W.len b <= o_max c) fs /\
    WI.Rep w2 [] /\ W.max w2 = o_max c /\ W.lp w2 = o_lp c /\
    (forall r, run_flushes c w (xs :: r) = FOut (msgs_of c xs) (map (WI.frame (o_lp c)) fs) cp gp hp :: run_flushes c w2 r).
Proof.
  intros HR Hm Hl Hok.
  destruct (write_calls_chain c xs w (0, 0, 0) [] HR Hm Hl Hok) as (w1 & [[cp gp] hp] & fs & E & HR1 & Hb & Hm1 & Hl1).
  cbn [app] in HR1.
  destruct (WF.drain_yields_committed (env_of c []) w1 fs None (env_fixed _ _) HR1) as (w2 & Hd & HR2 & Hm2 & Hl2).
  cbn [W.step] in Hd. destruct (W.drain (W.fx (env_of c [])) w1 None) as [[w2' [a ps]]|] eqn:Ed; [|discriminate].
  injection Hd as -> -> ->. change (W.fx (env_of c [])) with W.all_fixed in Ed.
  unfold WA.drain_count in Ed. rewrite firstn_all2 in Ed by (rewrite map_length; lia). rewrite Hl1 in Ed.
  exists fs, cp, gp, hp, w2.
  assert (Hone : forall r, run_flushes c w (xs :: r) =
                           FOut (msgs_of c xs) (map (WI.frame (o_lp c)) fs) cp gp hp :: run_flushes c w2 r)
    by (intros r; cbn [run_flushes]; rewrite E, Ed; reflexivity).
  split; [rewrite Hone; reflexivity|]. split; [exact Hb|].
  split; [destruct HR1 as (_ & _ & _ & Hall); rewrite Hm1 in Hall; exact Hall|].
  split; [exact HR2|]. split; [congruence|]. split; [congruence|exact Hone].
Qed.

(* every iteration of a whole sequential run *)
Theorem run_flushes_wire c : forall fl w,
  WI.Rep w [] -> W.max w = o_max c -> W.lp w = o_lp c -> Forall (Forall (call_ok c)) fl ->
  Forall2 (fun xs f => exists fs cp gp hp,
             f = FOut (msgs_of c xs) (map (WI.frame (o_lp c)) fs) cp gp hp /\
             bodies_rel c xs fs /\ Forall (fun b => W.len b <= o_max c) fs)
          fl (run_flushes c w fl).
Proof.
  induction fl as [|xs r IH]; intros w HR Hm Hl Hok; [constructor|].
  inversion Hok as [|? ? Hx Hr]; subst.
  destruct (flush_wire c w xs HR Hm Hl Hx) as (fs & cp & gp & hp & w2 & _ & Hb & Hlen & HR2 & Hm2 & Hl2 & Hone).
  rewrite Hone. constructor; [eauto 10|]. apply IH; assumption.
Qed.

(* on a unix stream socket (length prefix on) the bytes received for a flush, the concatenation
   of its payloads, decode to exactly the bodies *)
Lemma frame_same b : WI.frame true b = frame b.
Proof. reflexivity. Qed.

Theorem stream_decodes fs :
  Forall (fun b => W.len b < 4294967296) fs ->
  split_frames (length fs) (concat (map (WI.frame true) fs)) = fs.
Proof.
  intros H. rewrite (map_ext _ _ frame_same). apply wire_framing. exact H.
Qed.

(* ------------------------------------------------------------------ every call's value strings are non-empty *)
Lemma dec_aux_nonempty f : forall n acc, acc <> [] -> dec_aux f n acc <> [].
Proof.
  induction f as [|f IH]; intros n acc H; cbn [dec_aux]; [exact H|].
  destruct (n <? 10); [discriminate|]. apply IH. discriminate.
Qed.
Lemma dec_aux_S f n acc :
  dec_aux (S f) n acc = (if n <? 10 then (48 + n mod 10) :: acc else dec_aux f (n / 10) ((48 + n mod 10) :: acc)).
Proof. reflexivity. Qed.
Lemma dec_nonempty n : W.is_empty (dec n) = false.
Proof.
  unfold dec. change 25%nat with (S 24). rewrite dec_aux_S. destruct (n <? 10); [reflexivity|].
  destruct (dec_aux 24 (n / 10) [48 + n mod 10]) eqn:E; [|reflexivity].
  exfalso. revert E. apply dec_aux_nonempty. discriminate.
Qed.
Lemma fmt_z_nonempty z : W.is_empty (fmt_z z) = false.
Proof.
  unfold fmt_z. destruct (z <? 0)%Z; cbn [app]; [reflexivity|].
  pose proof (dec_nonempty (Z.abs_N z)) as H. destruct (dec (Z.abs_N z)); [discriminate|reflexivity].
Qed.

Lemma call_ok_all c x : call_ok c x.
Proof.
  unfold call_ok, WS.values_nonempty, op_of_call.
  destruct x as [k d u ts|k z u ts|k b]; destruct (key_of c k) as [name labels]; cbn [WS.op_values forallb].
  - rewrite dec_nonempty. reflexivity.
  - rewrite fmt_z_nonempty. reflexivity.
  - induction b as [|y r IH]; cbn [map forallb]; [reflexivity|]. rewrite fmt_z_nonempty. exact IH.
Qed.

(* a whole sequential run of the exporter: no panic; per iteration, the payloads are the frames of
   exactly the bodies committed by that iteration's writer calls *)
Theorem seq_wire c : o_max c < 4294967296 ->
  exists fl, run_seq all_fixed c = Some fl /\
    Forall2 (fun xs f => exists fs cp gp hp,
               f = FOut (msgs_of c xs) (map (WI.frame (o_lp c)) fs) cp gp hp /\
               bodies_rel c xs fs /\ Forall (fun b => W.len b <= o_max c) fs)
            (all_calls all_fixed c) fl.
Proof.
  intros Hm. destruct (WI.new_ok (o_max c) (o_lp c) Hm) as (w & En & HR & Hmw & Hlw).
  unfold run_seq. rewrite En. eexists. split; [reflexivity|].
  apply run_flushes_wire; auto.
  apply Forall_forall. intros xs _. apply Forall_forall. intros x _. apply call_ok_all.
Qed.
