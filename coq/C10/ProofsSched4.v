(* C10 — clause (2) of the scheduled-case checker for arbitrary programs (increments and absolutes
   mixed), and the composed theorems in full. *)
From Coq Require Import List NArith ZArith Bool Lia.
Import ListNotations.
Require Import MV.Common.Interleave MV.C10.Model MV.C10.Spec MV.C10.Exec MV.C10.ProofsConc MV.C10.ProofsBound
               MV.C10.ProofsAbs MV.C10.ProofsAbs2 MV.C10.ProofsSched MV.C10.ProofsSched2 MV.C10.ProofsMix MV.C10.ProofsCompose2.
Open Scope N_scope.

Notation exc := (exec (step all_fixed) site).

Theorem sched_bound_mix ps sched :
  ps <> [] -> MV.C10.Exec.one_flusher ps = true -> inc_sum ps + abs_max ps < two64 ->
  known_class (CSched ps sched) = None -> all_done (step all_fixed) (final ps sched) = true ->
  forallb (fun d => d <=? inc_sum ps + abs_max ps)
          (sub64 (cur (cnt (fst (final ps sched)))) (last (cnt (fst (final ps sched))))
           :: deltas_of (map (fun l => rev (results l)) (snd (final ps sched)))) = true.
Proof.
  intros Hne Hof Hb Hk Hd. destruct (one_flusher_conv ps Hne Hof) as [f Hf].
  assert (Hp : Forall (mix_prog (abs_max ps)) ps).
  { apply Forall_forall. intros p Hp. apply Forall_forall. intros o Ho.
    assert (Hall : In o (all_ops ps)) by (apply in_concat; exists p; auto).
    destruct o; cbn; try exact I. apply abs_max_ge. exact Hall. }
  destruct (known_class_none_hazard_free ps sched Hk) as (full & Hl & Hs).
  assert (Ec : final ps sched = fst (exc (init_config ps) full)) by (unfold final; rewrite Hl; reflexivity).
  rewrite <- Ec in Hs. specialize (Hs Hd).
  destruct (mixed_no_wrap_hazard_free (abs_max ps) (inc_sum ps) Hb f ps full Hp Hf (slo_inc_sum ps) Hs) as (C1 & C2 & C3 & C4).
  rewrite <- Ec in C1, C2, C3, C4. set (c := final ps sched) in *.
  assert (HnW : ~ W (snd c)).
  { intros (u & l & Hu & Hx). pose proof (all_done_Done c l Hd (nth_error_In _ _ Hu)) as E. rewrite E in Hx. exact Hx. }
  specialize (C4 HnW).
  assert (Hghost : forall d, In d (G (fst c)) -> d <= inc_sum ps + abs_max ps).
  { intros d [<-|Hd']; [lia|]. rewrite Forall_forall in C1. apply C1.
    apply in_app_or in Hd'. apply in_or_app. destruct Hd'; [left|right; apply in_or_app; left]; assumption. }
  apply forallb_forall. intros d [<-|Hd']; apply N.leb_le; [|apply Hghost; apply deltas_in_ghost; exact Hd'].
  rewrite sub64_exact by lia. lia.
Qed.

(* well-formed scheduled case: at least one thread, and the schedule plus the round-robin tail
   finishes every thread *)
Definition sched_wf_full (ps : list (list uop)) (sched : list N) : Prop :=
  ps <> [] /\ all_done (step all_fixed) (final ps sched) = true.

Theorem spec_ok_on_model_sched ps sched :
  known_class (CSched ps sched) = None -> sched_wf_full ps sched ->
  spec_ok (CSched ps sched) (run_case (CSched ps sched)) = true.
Proof.
  intros Hk (Hne & Hd). rewrite run_sched_eq. cbn [spec_ok sched_spec_ok]. rewrite Hd.
  rewrite (sched_follows ps sched). cbn [andb].
  assert (C2 : (if (inc_sum ps + abs_max ps <? two64) && MV.C10.Exec.one_flusher ps
                then forallb (fun d => d <=? inc_sum ps + abs_max ps)
                       (sub64 (cur (cnt (fst (final ps sched)))) (last (cnt (fst (final ps sched))))
                        :: deltas_of (map (fun l => rev (results l)) (snd (final ps sched)))) else true) = true).
  { destruct (inc_sum ps + abs_max ps <? two64) eqn:Eb; [|reflexivity]. destruct (MV.C10.Exec.one_flusher ps) eqn:Eo; [|reflexivity].
    cbn [andb]. apply N.ltb_lt in Eb. apply sched_bound_mix; assumption. }
  rewrite C2. cbn [andb].
  assert (C3 : (if negb (has_uabs ps)
                then sumN (sub64 (cur (cnt (fst (final ps sched)))) (last (cnt (fst (final ps sched))))
                           :: deltas_of (map (fun l => rev (results l)) (snd (final ps sched)))) mod two64 =? inc_sum ps mod two64
                else true) = true).
  { destruct (has_uabs ps) eqn:Ea; [reflexivity|]. cbn [negb]. apply N.eqb_eq. apply sched_conservation; assumption. }
  rewrite C3. cbn [andb].
  destruct (only_sets ps) eqn:Es; [|reflexivity]. apply sched_gauge_sets. exact Es.
Qed.

Definition case_wf_full (c : case) : Prop :=
  match c with CSeq oc => seq_wf oc | CSched ps sched => sched_wf_full ps sched end.

Theorem spec_ok_on_model c : known_class c = None -> case_wf_full c -> spec_ok c (run_case c) = true.
Proof.
  destruct c as [oc|ps sched]; intros Hk Hw.
  - apply spec_ok_on_model_seq. exact Hw.
  - apply spec_ok_on_model_sched; assumption.
Qed.
