(* C10 — no wrapped delta for programs MIXING increments and absolutes, along hazard-free
   schedules (generalises ProofsAbs.v).  Programs: increments (total I), absolutes (values <= A),
   gauge writes, flushes; I + A < 2^64; any number of updating threads; ONE counter-flushing thread.
   Invariant: current <= added + A, added + (increments still to execute) = I, last <= current
   outside a re-basing window, last = re-basing value inside it, an open flush holds a snapshot with
   last <= snapshot <= current; hence every delta is exact and <= I + A. *)
From Coq Require Import List NArith ZArith Bool Lia.
Import ListNotations.
Require Import MV.Common.Interleave MV.C10.Model MV.C10.ProofsConc MV.C10.ProofsBound MV.C10.ProofsAbs MV.C10.ProofsSched.
Open Scope N_scope.

Notation lupd := (@MV.Common.Interleave.upd _).
Ltac Zify.zify_post_hook ::= Z.to_euclidean_division_equations.

Section Mix.
Variable A : N.
Variable I0 : N.
Hypothesis HB : I0 + A < two64.

Definition mop (o : uop) : Prop := match o with UAbs v => v <= A | _ => True end.
Definition mpc (p : pc) : Prop := match p with PB1 v | PB2 v | PB3 _ v => v <= A | _ => True end.
Definition mlocal (l : local) : Prop := Forall mop (todo l) /\ mpc (pcl l).

Definition MInv (f : nat) (c : config) : Prop :=
  added (fst c) + sumL rest (snd c) = I0 /\
  cur (cnt (fst c)) <= added (fst c) + A /\
  Forall (fun d => d <= I0 + A) (sent (fst c) ++ rawd (fst c) ++ lost (fst c)) /\
  Forall mlocal (snd c) /\
  (forall u l, nth_error (snd c) u = Some l -> u <> f -> noflush_local l) /\
  (forall u l v, nth_error (snd c) u = Some l -> pcl l = PB3 true v -> last (cnt (fst c)) = v) /\
  (~ W (snd c) -> last (cnt (fst c)) <= cur (cnt (fst c))) /\
  (exists lf, nth_error (snd c) f = Some lf /\
     match pcl lf with
     | PF2 _ sn => last (cnt (fst c)) <= sn /\ sn <= cur (cnt (fst c))
     | PF3 _ d => d <= I0 + A
     | _ => True
     end).

Lemma enter_mlocal td rs : Forall mop td -> mlocal (enter td rs).
Proof.
  intros H. destruct td as [|o r]; [split; [constructor|exact I]|].
  inversion H as [|? ? Ho Hr]; subst. destruct o; cbn in Ho; split; cbn; auto.
Qed.

Lemma rest_same ls t l l' a : nth_error ls t = Some l -> rest l' = rest l ->
  a + sumL rest ls = I0 -> a + sumL rest (lupd ls t l') = I0.
Proof. intros Hn E H. pose proof (sumL_upd rest ls t l l' Hn). lia. Qed.

Lemma mframe f s s' ls t l l' :
  MInv f (s, ls) -> nth_error ls t = Some l ->
  last (cnt s') = last (cnt s) -> cur (cnt s') = cur (cnt s) -> added s' = added s ->
  sent s' = sent s -> rawd s' = rawd s -> lost s' = lost s ->
  rest l' = rest l ->
  ~ is_win (pcl l) -> ~ is_win (pcl l') ->
  match pcl l with PF2 _ _ | PF3 _ _ => False | _ => True end ->
  match pcl l' with PF2 _ _ | PF3 _ _ => False | _ => True end ->
  mlocal l' -> (noflush_local l -> noflush_local l') ->
  MInv f (s', lupd ls t l').
Proof.
  intros (J0 & I1 & I2 & I3 & I4 & I5 & I6 & (lf & Ef & I7)) Hn El Ec Ea Es Er Elo Hr Hw Hw' Hp Hp' Hal Hnf.
  unfold MInv. cbn [fst snd] in *. rewrite El, Ec, Ea, Es, Er, Elo.
  split; [eapply rest_same; eauto|].
  split; [exact I1|]. split; [exact I2|]. split; [apply Forall_upd; assumption|].
  split.
  { intros u x Hu Hne. apply nth_error_upd_cases in Hu. destruct Hu as [[-> ->]|[_ Hu]]; [apply Hnf; eapply I4; eauto|eapply I4; eauto]. }
  split.
  { eapply win_last_upd; eauto. intros v E. rewrite E in Hw'. cbn in Hw'. tauto. }
  split.
  { intros HW. apply I6. intros HW'. apply HW. apply (W_upd_out ls t l l' Hn Hw Hw'). exact HW'. }
  destruct (Nat.eq_dec t f) as [->|Hne].
  - exists l'. split; [eapply nth_error_upd_same; eauto|]. destruct (pcl l'); try contradiction; exact I.
  - exists lf. split; [rewrite nth_error_upd_other by exact Hne; exact Ef|exact I7].
Qed.

Ltac mside Htd Hpc Hent Hnfe :=
  first [ reflexivity | apply enter_not_win | apply enter_not_pf | apply Hent | apply Hnfe
        | (cbn; exact I) | (cbn; tauto)
        | (rewrite ?enter_rest; unfold rest; cbn [goto pcl todo]; lia)
        | (split; [exact Htd | cbn; first [exact Hpc | exact I]])
        | (intros [?X _]; split; [exact X | exact I]) ].

Lemma step_MInv f s ls t l s' l' :
  MInv f (s, ls) -> nth_error ls t = Some l -> step all_fixed s l = Some (s', l') ->
  ~ hazard ls -> ~ hazard (lupd ls t l') ->
  MInv f (s', lupd ls t l').
Proof.
  intros HI Hnth Hstep Hz Hz'.
  pose proof HI as (J0 & I1 & I2 & I3 & I4 & I5 & I6 & (lf & Ef & I7)). cbn [fst snd] in *.
  pose proof (Forall_nth_error _ _ _ _ I3 Hnth) as [Htd Hpc].
  assert (Hadd : added s <= I0) by lia.
  unfold step in Hstep. destruct l as [p td rs]. cbn [pcl todo results] in *.
  assert (Hent : forall rs', mlocal (enter td rs')) by (intros; apply enter_mlocal; exact Htd).
  assert (Hnfe : forall rs', noflush_local {| pcl := p; todo := td; results := rs |} -> noflush_local (enter td rs'))
    by (intros rs' [X _]; apply enter_noflush; exact X).
  assert (Hupd_same : forall x, nth_error (lupd ls t x) t = Some x) by (intros; eapply nth_error_upd_same; eauto).
  assert (Hothers : forall x u y, nth_error (lupd ls t x) u = Some y -> u <> f -> (noflush_local {| pcl := p; todo := td; results := rs |} -> noflush_local x) -> noflush_local y).
  { intros x u y Hu Hne Himp. apply nth_error_upd_cases in Hu. destruct Hu as [[-> ->]|[_ Hu]]; [apply Himp; eapply I4; eauto|eapply I4; eauto]. }
  destruct p; cbn in Hpc; cbn in Hstep.
  - (* Start *) inversion Hstep; subst s' l'; clear Hstep. eapply mframe; [exact HI|exact Hnth|..]; mside Htd Hpc Hent Hnfe.
  - (* Done *) discriminate.
  - (* PA1 *) inversion Hstep; subst s' l'; clear Hstep. eapply mframe; [exact HI|exact Hnth|..]; mside Htd Hpc Hent Hnfe.
  - (* PA2: current += v *)
    inversion Hstep; subst s' l'; clear Hstep.
    pose proof (sumL_upd rest ls t _ (goto {| pcl := PA2 v; todo := td; results := rs |} PA3) Hnth) as Hr.
    set (SR := sumL rest) in *. unfold rest in Hr. cbn [goto pcl todo] in Hr.
    assert (Hv : added s + v <= I0) by lia.
    assert (Hc' : add64 (cur (cnt s)) v = cur (cnt s) + v) by (unfold add64; apply N.mod_small; lia).
    subst SR. unfold MInv. cbn [fst snd cnt a2 last cur added sent rawd lost]. rewrite Hc'.
    split; [lia|]. split; [lia|]. split; [exact I2|]. split; [apply Forall_upd; [exact I3|split; [exact Htd|exact I]]|].
    split; [intros u y Hu Hne; apply (Hothers _ u y Hu Hne); intros [X _]; split; [exact X|exact I]|].
    split; [eapply (win_last_upd (last (cnt s))); eauto; intros v0 E; discriminate E|].
    split.
    { intros HW. assert (last (cnt s) <= cur (cnt s)) by (apply I6; intros HW'; apply HW; apply (W_upd_out ls t _ _ Hnth); cbn; auto). lia. }
    destruct (Nat.eq_dec t f) as [->|Hne].
    + eexists. split; [apply Hupd_same|]. exact I.
    + exists lf. split; [rewrite nth_error_upd_other by exact Hne; exact Ef|]. destruct (pcl lf); auto. lia.
  - (* PA3 *) inversion Hstep; subst s' l'; clear Hstep. eapply mframe; [exact HI|exact Hnth|..]; mside Htd Hpc Hent Hnfe.
  - (* PB1 *) destruct (is_abs (cnt s)); inversion Hstep; subst s' l'; clear Hstep;
      (eapply mframe; [exact HI|exact Hnth|..]; mside Htd Hpc Hent Hnfe).
  - (* PB2: last := v, the window opens *)
    inversion Hstep; subst s' l'; clear Hstep.
    assert (Hno : forall u x, nth_error ls u = Some x -> u <> t -> ~ is_win (pcl x)).
    { intros u x Hu Hne Hx. apply Hz'. right. exists t, (goto {| pcl := PB2 v; todo := td; results := rs |} (PB3 true v)), u, x.
      split; [congruence|]. split; [apply Hupd_same|]. split; [rewrite nth_error_upd_other by congruence; exact Hu|]. split; [exact I|exact Hx]. }
    unfold MInv. cbn [fst snd cnt set_cnt b2 last cur added sent rawd lost].
    split; [apply (rest_same _ _ _ _ _ Hnth); [reflexivity|exact J0]|].
    split; [exact I1|]. split; [exact I2|]. split; [apply Forall_upd; [exact I3|split; [exact Htd|exact Hpc]]|].
    split; [intros u y Hu Hne; apply (Hothers _ u y Hu Hne); intros [X _]; split; [exact X|exact I]|].
    split.
    { intros u x v0 Hu Hp. apply nth_error_upd_cases in Hu. destruct Hu as [[-> ->]|[Hne Hu]].
      - cbn in Hp. inversion Hp. reflexivity.
      - exfalso. apply (Hno u x Hu Hne). rewrite Hp. exact I. }
    split; [intros HW; exfalso; apply HW; exists t; eexists; split; [apply Hupd_same|exact I]|].
    destruct (Nat.eq_dec t f) as [->|Hne].
    + eexists. split; [apply Hupd_same|]. exact I.
    + exists lf. split; [rewrite nth_error_upd_other by exact Hne; exact Ef|].
      destruct (pcl lf) eqn:Ep; auto.
      exfalso. apply Hz'. left. exists f, lf, t. eexists.
      split; [rewrite nth_error_upd_other by exact Hne; exact Ef|]. split; [apply Hupd_same|]. rewrite Ep. split; exact I.
  - (* PB3 *)
    inversion Hstep; subst s' l'; clear Hstep.
    destruct first.
    + assert (Hl : last (cnt s) = v) by (apply (I5 t _ v Hnth); reflexivity).
      unfold MInv. cbn [fst snd cnt set_cnt b3 last cur added sent rawd lost]. rewrite andb_false_r.
      split; [apply (rest_same _ _ _ _ _ Hnth); [reflexivity|exact J0]|].
      split; [lia|]. split; [exact I2|]. split; [apply Forall_upd; [exact I3|split; [exact Htd|exact I]]|].
      split; [intros u y Hu Hne; apply (Hothers _ u y Hu Hne); intros [X _]; split; [exact X|exact I]|].
      split.
      { intros u x v0 Hu Hp. apply nth_error_upd_cases in Hu. destruct Hu as [[-> ->]|[Hne Hu]]; [discriminate Hp|eauto]. }
      split; [intros _; rewrite Hl; lia|].
      destruct (Nat.eq_dec t f) as [->|Hne].
      * eexists. split; [apply Hupd_same|]. exact I.
      * exists lf. split; [rewrite nth_error_upd_other by exact Hne; exact Ef|].
        destruct (pcl lf) eqn:Ep; auto.
        exfalso. apply Hz. left. exists f, lf, t. eexists. split; [exact Ef|]. split; [exact Hnth|]. rewrite Ep. split; exact I.
    + unfold MInv. cbn [fst snd cnt set_cnt b3 last cur added sent rawd lost fix_absmax all_fixed negb andb].
      split; [apply (rest_same _ _ _ _ _ Hnth); [reflexivity|exact J0]|].
      split; [lia|]. split; [exact I2|]. split; [apply Forall_upd; [exact I3|split; [exact Htd|exact I]]|].
      split; [intros u y Hu Hne; apply (Hothers _ u y Hu Hne); intros [X _]; split; [exact X|exact I]|].
      split; [eapply (win_last_upd (last (cnt s))); eauto; intros v0 E; discriminate E|].
      split.
      { intros HW. assert (last (cnt s) <= cur (cnt s)) by (apply I6; intros HW'; apply HW; apply (W_upd_out ls t _ _ Hnth); cbn; auto). lia. }
      destruct (Nat.eq_dec t f) as [->|Hne].
      * eexists. split; [apply Hupd_same|]. exact I.
      * exists lf. split; [rewrite nth_error_upd_other by exact Hne; exact Ef|]. destruct (pcl lf); auto. lia.
  - (* PB4 *) inversion Hstep; subst s' l'; clear Hstep. eapply mframe; [exact HI|exact Hnth|..]; mside Htd Hpc Hent Hnfe.
  - (* PG1 *) inversion Hstep; subst s' l'; clear Hstep. eapply mframe; [exact HI|exact Hnth|..]; mside Htd Hpc Hent Hnfe.
  - (* PG2 *) inversion Hstep; subst s' l'; clear Hstep. eapply mframe; [exact HI|exact Hnth|..]; mside Htd Hpc Hent Hnfe.
  - (* PF1 *)
    inversion Hstep; subst s' l'; clear Hstep.
    destruct (Nat.eq_dec t f) as [->|Hne]; [|exfalso; destruct (I4 _ _ Hnth Hne) as [_ X]; exact X].
    assert (HnW : ~ W ls).
    { intros (u & x & Hu & Hx). apply Hz'. left. exists f. eexists. exists u, x.
      split; [apply Hupd_same|]. split; [|split; [exact I|exact Hx]].
      destruct (Nat.eq_dec u f) as [->|Hn]; [rewrite Hnth in Hu; inversion Hu; subst; contradiction|].
      rewrite nth_error_upd_other by congruence. exact Hu. }
    unfold MInv. cbn [fst snd cnt last cur added sent rawd lost].
    split; [apply (rest_same _ _ _ _ _ Hnth); [reflexivity|exact J0]|].
    split; [exact I1|]. split; [exact I2|]. split; [apply Forall_upd; [exact I3|split; [exact Htd|exact I]]|].
    split; [intros u y Hu Hne; apply nth_error_upd_cases in Hu; destruct Hu as [[-> ->]|[_ Hu]]; [congruence|eapply I4; eauto]|].
    split; [eapply (win_last_upd (last (cnt s))); eauto; intros v0 E; discriminate E|].
    split; [intros _; apply I6; exact HnW|].
    eexists. split; [apply Hupd_same|]. cbn. split; [apply I6; exact HnW|lia].
  - (* PF2 *)
    inversion Hstep; subst s' l'; clear Hstep.
    destruct (Nat.eq_dec t f) as [->|Hne]; [|exfalso; destruct (I4 _ _ Hnth Hne) as [_ X]; exact X].
    rewrite Hnth in Ef. inversion Ef; subst lf. cbn [pcl] in I7. destruct I7 as [L1 L2].
    assert (HnW : ~ W ls).
    { intros (u & x & Hu & Hx). apply Hz. left. exists f. eexists. exists u, x.
      split; [exact Hnth|]. split; [exact Hu|]. split; [exact I|exact Hx]. }
    unfold MInv. cbn [fst snd cnt set_cnt f2 last cur added sent rawd lost].
    split; [apply (rest_same _ _ _ _ _ Hnth); [reflexivity|exact J0]|].
    split; [exact I1|]. split; [exact I2|]. split; [apply Forall_upd; [exact I3|split; [exact Htd|exact I]]|].
    split; [intros u y Hu Hne; apply nth_error_upd_cases in Hu; destruct Hu as [[-> ->]|[_ Hu]]; [congruence|eapply I4; eauto]|].
    split.
    { intros u x v0 Hu Hp. exfalso. apply nth_error_upd_cases in Hu. destruct Hu as [[-> ->]|[Hne Hu]]; [discriminate Hp|].
      apply HnW. exists u, x. split; [exact Hu|]. rewrite Hp. exact I. }
    split; [intros _; exact L2|].
    eexists. split; [apply Hupd_same|]. cbn. unfold sub64, two64 in *. lia.
  - (* PF3 *)
    destruct (Nat.eq_dec t f) as [->|Hne]; [|exfalso; destruct (I4 _ _ Hnth Hne) as [_ X]; exact X].
    rewrite Hnth in Ef. inversion Ef; subst lf. cbn [pcl] in I7.
    assert (Hlists : forall o : option N, (forall x, o = Some x -> x = d) ->
              Forall (fun x => x <= I0 + A) (match o with Some x => x :: sent s | None => sent s end ++ rawd s ++
                                             match o with Some _ => lost s | None => d :: lost s end)).
    { intros o Ho. apply Forall_app in I2. destruct I2 as [Q1 Q2]. apply Forall_app in Q2. destruct Q2 as [Q2 Q3].
      apply Forall_app. split; [destruct o as [x|]; [constructor; [rewrite (Ho x eq_refl); exact I7|exact Q1]|exact Q1]|].
      apply Forall_app. split; [exact Q2|]. destruct o; [exact Q3|constructor; assumption]. }
    destruct st.
    + destruct (decide all_fixed (idle s) d (upd (cnt s))) as [i' o] eqn:Ed. inversion Hstep; subst s' l'; clear Hstep.
      assert (Ho : forall x, o = Some x -> x = d).
      { intros x ->. unfold decide in Ed. destruct (_ && _), (idle s); inversion Ed; auto. }
      unfold MInv. cbn [fst snd cnt f3 last cur added sent rawd lost].
      split; [apply (rest_same _ _ _ _ _ Hnth); [reflexivity|exact J0]|].
      split; [exact I1|]. split; [apply Hlists; exact Ho|]. split; [apply Forall_upd; [exact I3|split; [exact Htd|exact I]]|].
      split; [intros u y Hu Hne; apply nth_error_upd_cases in Hu; destruct Hu as [[-> ->]|[_ Hu]]; [congruence|eapply I4; eauto]|].
      split; [eapply (win_last_upd (last (cnt s))); eauto; intros v0 E; discriminate E|].
      split; [intros HW; apply I6; intros HW'; apply HW; apply (W_upd_out ls f _ _ Hnth); cbn; auto|].
      eexists. split; [apply Hupd_same|]. exact I.
    + inversion Hstep; subst s' l'; clear Hstep.
      unfold MInv. cbn [fst snd cnt f3 last cur added sent rawd lost].
      split; [apply (rest_same _ _ _ _ _ Hnth); [rewrite enter_rest; unfold rest; cbn [pcl todo]; lia|exact J0]|].
      split; [exact I1|].
      split.
      { apply Forall_app in I2. destruct I2 as [Q1 Q2]. apply Forall_app in Q2. destruct Q2 as [Q2 Q3].
        apply Forall_app. split; [exact Q1|]. apply Forall_app. split; [constructor; assumption|exact Q3]. }
      split; [apply Forall_upd; [exact I3|apply Hent]|].
      split; [intros u y Hu Hne; apply nth_error_upd_cases in Hu; destruct Hu as [[-> ->]|[_ Hu]]; [congruence|eapply I4; eauto]|].
      split.
      { eapply (win_last_upd (last (cnt s))); eauto. intros v0 E. exfalso. apply (enter_not_win td (RCnt d (upd (cnt s)) :: rs)). rewrite E. exact I. }
      split.
      { intros HW. apply I6. intros HW'. apply HW. apply (W_upd_out ls f _ _ Hnth); cbn; auto. apply enter_not_win. }
      eexists. split; [apply Hupd_same|].
      pose proof (enter_not_pf td (RCnt d (upd (cnt s)) :: rs)) as X. destruct (pcl (enter td (RCnt d (upd (cnt s)) :: rs))); try contradiction; exact I.
  - (* PH1 *) inversion Hstep; subst s' l'; clear Hstep. eapply mframe; [exact HI|exact Hnth|..]; mside Htd Hpc Hent Hnfe.
  - (* PH2 *) inversion Hstep; subst s' l'; clear Hstep. eapply mframe; [exact HI|exact Hnth|..]; mside Htd Hpc Hent Hnfe.
Qed.

Lemma MInv_safe f : forall sched c, MInv f c -> safe c sched -> MInv f (fst (exec (step all_fixed) site c sched)).
Proof.
  induction sched as [|t r IH]; intros c HI Hs; [exact HI|].
  cbn [exec]. destruct Hs as [Hz Hs].
  destruct (step_thread (step all_fixed) site c t) as [c1 e] eqn:E1. cbn [fst] in Hs.
  assert (H1 : MInv f c1).
  { unfold step_thread in E1. destruct c as [s ls]. cbn [fst snd] in *.
    destruct (nth_error ls t) as [l|] eqn:En; [|inversion E1; subst; exact HI].
    destruct (step all_fixed s l) as [[s' l']|] eqn:Es; inversion E1; subst; [|exact HI].
    eapply step_MInv; eauto. destruct r; cbn in Hs; tauto. }
  specialize (IH c1 H1 Hs). destruct (exec (step all_fixed) site c1 r) as [c2 es]. exact IH.
Qed.

Definition mix_prog (p : list uop) : Prop := Forall mop p.

Lemma MInv_init f ps : Forall mix_prog ps -> one_flusher f ps ->
  sumL (fun l => slo (todo l)) (map init_local ps) = I0 -> MInv f (init_config ps).
Proof.
  intros Hp [Hlt Hof] HI. unfold MInv, init_config. cbn [fst snd init_shared cnt cell0 cur last added sent rawd lost app].
  split.
  { rewrite <- HI. cbn. clear. induction ps as [|p r IH]; [reflexivity|]. cbn [map sumL]. rewrite IH. f_equal. unfold rest. cbn [init_local pcl todo]. lia. }
  split; [lia|]. split; [constructor|]. split.
  { clear Hlt Hof HI. induction Hp; cbn; constructor; auto. split; [assumption|exact I]. }
  split.
  { intros u l Hu Hne. rewrite nth_error_map in Hu. destruct (nth_error ps u) as [p|] eqn:E; [|discriminate].
    inversion Hu; subst. split; [exact (Hof u p E Hne)|exact I]. }
  split.
  { intros u l v Hu Hpc. rewrite nth_error_map in Hu. destruct (nth_error ps u); [|discriminate]. inversion Hu; subst. discriminate Hpc. }
  split; [intros _; lia|].
  destruct (nth_error ps f) as [p|] eqn:E; [|apply nth_error_None in E; lia].
  exists (init_local p). split; [rewrite nth_error_map, E; reflexivity|exact I].
Qed.

Theorem mixed_no_wrap_hazard_free f ps sched :
  Forall mix_prog ps -> one_flusher f ps -> sumL (fun l => slo (todo l)) (map init_local ps) = I0 ->
  safe (init_config ps) sched ->
  let c := fst (exec (step all_fixed) site (init_config ps) sched) in
  Forall (fun d => d <= I0 + A) (sent (fst c) ++ rawd (fst c) ++ lost (fst c)) /\
  cur (cnt (fst c)) <= added (fst c) + A /\ added (fst c) <= I0 /\
  (~ W (snd c) -> last (cnt (fst c)) <= cur (cnt (fst c))).
Proof.
  intros Hp Hof HI Hs c.
  pose proof (MInv_safe f sched _ (MInv_init f ps Hp Hof HI) Hs) as (J0 & I1 & I2 & _ & _ & _ & I6 & _). fold c in J0, I1, I2, I6.
  split; [exact I2|]. split; [exact I1|]. split; [lia|exact I6].
Qed.
End Mix.
