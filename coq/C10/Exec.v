(* C10 — executable entry points for the correspondence check: sequential histories through the
   exporter flush (CSeq) and schedule replay on one counter and one gauge cell (CSched). *)
From Coq Require Import List NArith ZArith Bool.
Import ListNotations.
Require Export MV.Common.Interleave MV.C10.Model MV.C10.Spec.
Open Scope N_scope.

Inductive case :=
| CSeq (c : ocase)
| CSched (ps : list (list uop)) (sched : list N).

Inductive OUT :=
| OSeq (fl : list fout)
| ONew                                   (* constructing the driver panicked (max payload length >= 2^32) *)
| OSched (tr : list (N * N)) (rs : list (list res)) (done : bool)
         (fin : N * N * Z * N).           (* final sequential raw flushes: counter (delta, updates), gauge (value, updates) *)

(* which of the repairs the code in /repo contains *)
Definition impl_fixes : fixes := all_fixed.

Definition rr_fuel : nat := 64.

Definition run_sched (fx : fixes) (ps : list (list uop)) (sched : list N) : OUT :=
  let '(cf, tr) := exec_full (step fx) site rr_fuel (init_config ps) (map N.to_nat sched) in
  let '(_, (d, u)) := seq_cflush (cnt (fst cf)) in
  let '(_, (z, gu')) := seq_gflush (gau (fst cf)) in
  OSched tr (map (fun l => rev (results l)) (snd cf)) (all_done (step fx) cf) (d, u, z, gu').

Definition run_with (fx : fixes) (c : case) : OUT :=
  match c with
  | CSeq oc => match run_seq fx oc with None => ONew | Some fl => OSeq fl end
  | CSched ps sched => run_sched fx ps sched
  end.
Definition run_case (c : case) : OUT := run_with impl_fixes c.

(* ---- equality of outputs (ghost fields ignored; per flush the messages and the payloads are
   compared as multisets: the registry's iteration order is not part of the model) *)
Fixpoint list_eqb {A} (eqb : A -> A -> bool) (a b : list A) : bool :=
  match a, b with
  | [], [] => true
  | x :: r, y :: r' => eqb x y && list_eqb eqb r r'
  | _, _ => false
  end.
Fixpoint remove_one {A} (eqb : A -> A -> bool) (x : A) (l : list A) : option (list A) :=
  match l with
  | [] => None
  | y :: r => if eqb x y then Some r
              else match remove_one eqb x r with Some r' => Some (y :: r') | None => None end
  end.
Fixpoint perm_eqb {A} (eqb : A -> A -> bool) (a b : list A) : bool :=
  match a with
  | [] => match b with [] => true | _ => false end
  | x :: r => match remove_one eqb x b with Some b' => perm_eqb eqb r b' | None => false end
  end.
Definition optN_eqb (a b : option N) : bool :=
  match a, b with None, None => true | Some x, Some y => x =? y | _, _ => false end.
Definition msg_eqb (a b : msg) : bool :=
  (m_kind a =? m_kind b) && (m_key a =? m_key b) && zlist_eqb (m_vals a) (m_vals b) && optN_eqb (m_ts a) (m_ts b).
Definition fout_eqb (a b : fout) : bool :=
  match a, b with
  | FPanic, FPanic => true
  | FOut ms ps cp gp hp, FOut ms' ps' cp' gp' hp' =>
      perm_eqb msg_eqb ms ms' && perm_eqb bytes_eqb ps ps' && (cp =? cp') && (gp =? gp') && (hp =? hp')
  | _, _ => false
  end.
Definition res_eqb (a b : res) : bool :=
  match a, b with
  | RU, RU => true
  | RCnt d u, RCnt d' u' => (d =? d') && (u =? u')
  | RGau z u _, RGau z' u' _ => (z =? z')%Z && (u =? u')
  | RState o z cp gp _, RState o' z' cp' gp' _ => optN_eqb o o' && (z =? z')%Z && (cp =? cp') && (gp =? gp')
  | _, _ => false
  end.
Definition pair_eqb (a b : N * N) : bool := (fst a =? fst b) && (snd a =? snd b).
Definition out_eqb (a b : OUT) : bool :=
  match a, b with
  | OSeq fl, OSeq fl' => list_eqb fout_eqb fl fl'
  | ONew, ONew => true
  | OSched tr rs dn (d, u, z, g), OSched tr' rs' dn' (d', u', z', g') =>
      list_eqb pair_eqb tr tr' && list_eqb (list_eqb res_eqb) rs rs' && Bool.eqb dn dn'
      && (d =? d') && (u =? u') && (z =? z')%Z && (g =? g')
  | _, _ => false
  end.

(* ---- the property on an observed sequential run *)
Definition obs_counter (k : N) (fl : list fout) : list (option N) :=
  map (fun f => match f with
                | FOut ms _ _ _ _ =>
                    match filter (fun m => (m_kind m =? 0) && (m_key m =? k)) ms with
                    | m :: _ => match m_vals m with [z] => Some (Z.to_N z) | _ => Some two64 end
                    | [] => None
                    end
                | FPanic => None
                end) fl.
Definition obs_gauge (k : N) (fl : list fout) : list (option Z) :=
  map (fun f => match f with
                | FOut ms _ _ _ _ =>
                    match filter (fun m => (m_kind m =? 1) && (m_key m =? k)) ms with
                    | m :: _ => match m_vals m with [z] => Some z | _ => None end
                    | [] => None
                    end
                | FPanic => None
                end) fl.
Definition obs_hist (k : N) (fl : list fout) : list (list Z) :=
  map (fun f => match f with
                | FOut ms _ _ _ _ =>
                    match filter (fun m => (m_kind m =? 2) && (m_key m =? k)) ms with
                    | m :: _ => m_vals m
                    | [] => []
                    end
                | FPanic => []
                end) fl.

(* well-formed message list of one flush: known kinds and keys, one message per (kind, key),
   counter values are u64, histogram messages are not empty *)
Fixpoint nodup_msgs (ms : list msg) : bool :=
  match ms with
  | [] => true
  | m :: r => negb (existsb (fun m' => (m_kind m =? m_kind m') && (m_key m =? m_key m')) r) && nodup_msgs r
  end.
Definition msgs_wf (nkeys : N) (ms : list msg) : bool :=
  forallb (fun m => (m_kind m <=? 2) && (m_key m <? nkeys)
                    && match m_vals m with
                       | [] => false
                       | [z] => if m_kind m =? 0 then (0 <=? z)%Z && (z <? Z.of_N two64)%Z else true
                       | _ => m_kind m =? 2
                       end) ms
  && nodup_msgs ms.

Fixpoint flushes_ok (c : ocase) (ns : list N) (fl : list fout) : bool :=
  match ns, fl with
  | [], [] => true
  | n :: ns', FOut ms ps _ _ _ :: fl' =>
      msgs_wf (N.of_nat (length (o_keys c))) ms
      && forallb (ts_ok (o_aggr c) n) ms
      && forallb (frame_ok (o_lp c) (o_max c)) ps
      && flushes_ok c ns' fl'
  | _, _ => false
  end.

Definition two32 : N := 4294967296.

Definition seq_spec_ok (c : ocase) (o : OUT) : bool :=
  match o with
  | ONew => two32 <=? o_max c
  | OSched _ _ _ _ => false
  | OSeq fl =>
      (o_max c <? two32)
      && flushes_ok c (nows (o_ops c)) fl
      && forallb (fun k => counter_ok (flat_map (projC k) (o_ops c)) (obs_counter k fl)
                           && gauge_ok (flat_map (projG k) (o_ops c)) (obs_gauge k fl)
                           && histogram_ok (o_samp c) (o_rsv c) (flat_map (projH k) (o_ops c)) (obs_hist k fl))
                 (keyids c)
  end.

(* ---- the property on an observed scheduled run: what can be decided from the returned values
   alone.  (1) every result has the kind of the call that produced it; (2) no delta exceeds
   everything ever added (sum of the increments + largest absolute value); (3) counters driven
   only by increments, all threads finished: the deltas returned by raw flushes, the deltas sent by
   State::flush and the final flush add up to the increments (mod 2^64) - a delta dropped by the
   idle logic breaks this; (4) gauges driven only by set: every flushed value is 0 or one of the
   values set. *)
Definition all_ops (ps : list (list uop)) : list uop := concat ps.
Definition inc_sum (ps : list (list uop)) : N :=
  fold_right (fun o a => match o with UInc v => a + v | _ => a end) 0 (all_ops ps).
Definition abs_max (ps : list (list uop)) : N :=
  fold_right (fun o a => match o with UAbs v => N.max a v | _ => a end) 0 (all_ops ps).
Definition has_uabs (ps : list (list uop)) : bool :=
  existsb (fun o => match o with UAbs _ => true | _ => false end) (all_ops ps).
Definition only_sets (ps : list (list uop)) : bool :=
  forallb (fun o => match o with USet (WAdd _) | USet (WSub _) => false | _ => true end) (all_ops ps).
Definition set_values (ps : list (list uop)) : list Z :=
  0%Z :: flat_map (fun o => match o with USet (WSet z) => [z] | _ => [] end) (all_ops ps).

Fixpoint follows (p : list uop) (rs : list res) : bool :=
  match rs, p with
  | [], _ => true
  | RU :: rs', (UInc _ | UAbs _ | USet _) :: p' => follows p' rs'
  | RCnt _ _ :: rs', FCnt :: p' => follows p' rs'
  | RGau _ _ _ :: rs', FGau :: p' => follows p' rs'
  | RState _ _ _ _ _ :: rs', FState :: p' => follows p' rs'
  | _, _ => false
  end.
Fixpoint all2 {A B} (f : A -> B -> bool) (a : list A) (b : list B) : bool :=
  match a, b with
  | [], [] => true
  | x :: r, y :: r' => f x y && all2 f r r'
  | _, _ => false
  end.
Definition deltas_of (rs : list (list res)) : list N :=
  flat_map (fun r => match r with RCnt d _ => [d] | RState (Some d) _ _ _ _ => [d] | _ => [] end) (concat rs).
Definition gvals_of (rs : list (list res)) : list Z :=
  flat_map (fun r => match r with RGau z _ _ => [z] | RState _ z _ _ _ => [z] | _ => [] end) (concat rs).
Definition sumN (l : list N) : N := fold_right N.add 0 l.

(* the exporter has one forwarder thread (State::flush needs &mut FlushState); with two concurrent
   flushes of the same cell the deltas still add up (mod 2^64) but a single delta can wrap, so the
   bound (2) is claimed for at most one counter-flushing thread *)
Definition one_flusher (ps : list (list uop)) : bool :=
  Nat.leb (length (filter (fun p => existsb (fun o => match o with FCnt | FState => true | _ => false end) p) ps)) 1.

Definition sched_spec_ok (ps : list (list uop)) (o : OUT) : bool :=
  match o with
  | OSched tr rs dn (fd, fu, fz, fg) =>
      let bound := inc_sum ps + abs_max ps in
      all2 follows ps rs
      && (if (bound <? two64) && one_flusher ps then forallb (fun d => d <=? bound) (fd :: deltas_of rs) else true)
      && (if dn && negb (has_uabs ps)
          then (sumN (fd :: deltas_of rs)) mod two64 =? (inc_sum ps) mod two64 else true)
      && (if only_sets ps
          then forallb (fun z => existsb (fun z' => (z =? z')%Z) (set_values ps)) (fz :: gvals_of rs) else true)
  | _ => false
  end.

Definition spec_ok (c : case) (o : OUT) : bool :=
  match c with
  | CSeq oc => seq_spec_ok oc o
  | CSched ps _ => sched_spec_ok ps o
  end.

(* ---- open known finding C10-rebase-straddle (class 1): the two stores of a re-basing (first)
   absolute, `last.store` (1005) and `current.store` (1006), are not atomic.  Class = (a) a flush
   whose load of `current` (1008) precedes that 1006 and whose swap of `last` (1009) follows that
   1005, or (b) another re-basing absolute executing its 1005 inside the window (two threads
   mixing increments and absolutes: last and current end up from different calls).  Either way
   last > current and the next delta wraps.  Decided on the case by walking the step trace of
   the model run: [reb] = threads between their 1005 and 1006 steps, [open] = flushing threads
   between their 1008 and 1009 steps with a taint flag. *)
Fixpoint mem_n (x : N) (l : list N) : bool := match l with [] => false | y :: r => (x =? y) || mem_n x r end.
Fixpoint del_n (x : N) (l : list N) : list N := match l with [] => [] | y :: r => if x =? y then del_n x r else y :: del_n x r end.
Fixpoint straddle_walk (tr : list (N * N)) (reb : list N) (opn : list (N * bool)) : bool :=
  match tr with
  | [] => false
  | (t, s) :: r =>
      if s =? 1005 then
        match reb with
        | [] => straddle_walk r (t :: reb) (map (fun x => (fst x, true)) opn)
        | _ => true                                  (* a second re-basing absolute inside the first one's window *)
        end
      else if s =? 1006 then straddle_walk r (del_n t reb) opn
      else if s =? 1008 then straddle_walk r reb ((t, match reb with [] => false | _ => true end) :: opn)
      else if s =? 1009 then
        if existsb (fun x => (fst x =? t) && snd x) opn then true
        else straddle_walk r reb (filter (fun x => negb (fst x =? t)) opn)
      else straddle_walk r reb opn
  end.
Definition known_class (c : case) : option N :=
  match c with
  | CSeq _ => None
  | CSched ps sched =>
      match run_sched impl_fixes ps sched with
      | OSched tr _ _ _ => if straddle_walk tr [] [] then Some 1 else None
      | _ => None
      end
  end.

Definition verdicts (l : list (N * case * OUT)) : list (N * bool * bool * option N) :=
  map (fun '(i, c, o) => (i, out_eqb (run_case c) o, spec_ok c o, known_class c)) l.
