(* C10 — composition for sequential cases: what [obs_counter] / [obs_gauge] read back from the
   assembled message lists of a model run are exactly the per-key outputs of the per-key machines,
   hence the counter and gauge walkers of spec_ok accept the model's run for every key. *)
From Coq Require Import List NArith ZArith Bool Lia.
Import ListNotations.
Require Import MV.C10.Model MV.C10.Spec MV.C10.Exec MV.C10.ExecProofs MV.C10.ProofsSeq MV.C10.ProofsRefine MV.C10.ProofsWire.
Open Scope N_scope.

(* ---- list lemmas *)

Lemma filter_all_false {B} (P : B -> bool) l : (forall m, In m l -> P m = false) -> filter P l = [].
Proof.
  induction l as [|m r IH]; intros H; [reflexivity|]. cbn. rewrite (H m (or_introl eq_refl)). apply IH. intros; apply H; right; auto.
Qed.
Lemma filter_all_true {B} (P : B -> bool) l : (forall m, In m l -> P m = true) -> filter P l = l.
Proof.
  induction l as [|m r IH]; intros H; [reflexivity|]. cbn. rewrite (H m (or_introl eq_refl)). f_equal. apply IH. intros; apply H; right; auto.
Qed.
Lemma filter_flat_map_none {A B} (P : B -> bool) (g : A -> list B) L :
  (forall a m, In a L -> In m (g a) -> P m = false) -> filter P (flat_map g L) = [].
Proof.
  intros H. apply filter_all_false. intros m Hm. apply in_flat_map in Hm. destruct Hm as (a & Ha & Hm). eauto.
Qed.
Lemma filter_flat_map_one {B} (P : B -> bool) (g : N -> list B) L k :
  NoDup L -> In k L ->
  (forall m, In m (g k) -> P m = true) ->
  (forall a m, In a L -> a <> k -> In m (g a) -> P m = false) ->
  filter P (flat_map g L) = g k.
Proof.
  induction L as [|a r IH]; intros Hnd Hin Ht Hf; [destruct Hin|].
  inversion Hnd as [|? ? Hna Hnd']; subst. cbn [flat_map]. rewrite filter_app.
  destruct (N.eq_dec a k) as [->|Hne].
  - rewrite filter_all_true by exact Ht. rewrite filter_flat_map_none; [apply app_nil_r|].
    intros a m Ha Hm. apply (Hf a m (or_intror Ha)); [intros ->; contradiction|exact Hm].
  - rewrite filter_all_false; [|intros m Hm; apply (Hf a m (or_introl eq_refl) Hne Hm)].
    cbn [app]. apply IH; auto.
    + destruct Hin as [->|Hin]; [contradiction|exact Hin].
    + intros a' m Ha'. apply Hf. right; exact Ha'.
Qed.

Lemma flat_map_flat_map {A B C} (f : B -> list C) (g : A -> list B) L :
  flat_map f (flat_map g L) = flat_map (fun a => flat_map f (g a)) L.
Proof. induction L; cbn; [reflexivity|]. rewrite flat_map_app. f_equal. assumption. Qed.

Lemma keyids_nodup c : NoDup (keyids c).
Proof.
  unfold keyids. apply FinFun.Injective_map_NoDup; [|apply seq_NoDup]. intros a b H. apply Nat2N.inj. exact H.
Qed.

(* ---- what the observers extract from one message list *)
Definition cobs (k : N) (ms : list msg) : option N :=
  match filter (fun m => (m_kind m =? 0) && (m_key m =? k)) ms with
  | m :: _ => match m_vals m with [z] => Some (Z.to_N z) | _ => Some two64 end
  | [] => None
  end.
Definition gobs (k : N) (ms : list msg) : option Z :=
  match filter (fun m => (m_kind m =? 1) && (m_key m =? k)) ms with
  | m :: _ => match m_vals m with [z] => Some z | _ => None end
  | [] => None
  end.

Definition cmsg (ts : option N) (k : N) (o : option (N * N)) : list wcall :=
  match o with Some (d, u) => [WC k d u ts] | None => [] end.
Definition gmsg (ts : option N) (k : N) (o : option (Z * N)) : list wcall :=
  match o with Some (z, u) => [WG k z u ts] | None => [] end.

Definition scalar_msgs (xs : list wcall) : list msg :=
  flat_map (fun x => match x with
                     | WC k d _ ts => [{| m_kind := 0; m_key := k; m_vals := [Z.of_N d]; m_ts := ts |}]
                     | WG k z _ ts => [{| m_kind := 1; m_key := k; m_vals := [z]; m_ts := ts |}]
                     | WH _ _ => []
                     end) xs.

Section Flush.
Variable c : ocase.
Variable i : nat.
Variable now : N.
Let ts := agg_timestamp all_fixed (o_aggr c) now.
Let co (k : N) := nth i (crun all_fixed cst0 (flat_map (projC k) (o_ops c))) None.
Let go (k : N) := nth i (grun gst0 (flat_map (projG k) (o_ops c))) None.

Lemma flush_calls_shape :
  flush_calls all_fixed c i now =
  flat_map (fun k => cmsg ts k (co k)) (keyids c) ++ flat_map (fun k => gmsg ts k (go k)) (keyids c)
  ++ flat_map (fun k => map (WH k) (nth i (hrun (o_samp c) hst0 (flat_map (projH k) (o_ops c))) [])) (keyids c).
Proof.
  reflexivity.
Qed.

Lemma msgs_of_split xs : msgs_of c xs = scalar_msgs xs ++
  flat_map (fun k => match flat_map (fun x => match x with WH k' b => if k' =? k then b else [] | _ => [] end) xs with
                     | [] => []
                     | vs => [{| m_kind := 2; m_key := k; m_vals := sort_z vs; m_ts := None |}]
                     end) (keyids c).
Proof. reflexivity. Qed.

Lemma cobs_flush k : In k (keyids c) ->
  cobs k (msgs_of c (flush_calls all_fixed c i now)) = option_map fst (co k).
Proof.
  intros Hk. unfold cobs. rewrite msgs_of_split, filter_app.
  rewrite (filter_flat_map_none _ _ (keyids c)).
  2:{ intros a m _ Hm. destruct (flat_map _ _); [destruct Hm|]. destruct Hm as [<-|[]]. reflexivity. }
  rewrite app_nil_r, flush_calls_shape. unfold scalar_msgs. rewrite !flat_map_app, !filter_app, !flat_map_flat_map.
  rewrite (filter_flat_map_one _ _ (keyids c) k (keyids_nodup c) Hk).
  - rewrite (filter_flat_map_none _ _ (keyids c)).
    2:{ intros a m _ Hm. unfold gmsg in Hm. destruct (go a) as [[z u]|]; [|destruct Hm]. destruct Hm as [<-|[]]. reflexivity. }
    rewrite (filter_flat_map_none _ _ (keyids c)).
    2:{ intros a m _ Hm. apply in_flat_map in Hm. destruct Hm as (x & Hx & Hm). apply in_map_iff in Hx. destruct Hx as (b & <- & _). destruct Hm. }
    rewrite !app_nil_r. unfold cmsg. destruct (co k) as [[d u]|]; cbn; [rewrite N2Z.id; reflexivity|reflexivity].
  - intros m Hm. unfold cmsg in Hm. destruct (co k) as [[d u]|]; [|destruct Hm]. destruct Hm as [<-|[]]. cbn. rewrite N.eqb_refl. reflexivity.
  - intros a m _ Hne Hm. unfold cmsg in Hm. destruct (co a) as [[d u]|]; [|destruct Hm]. destruct Hm as [<-|[]]. cbn.
    apply N.eqb_neq. exact Hne.
Qed.

Lemma gobs_flush k : In k (keyids c) ->
  gobs k (msgs_of c (flush_calls all_fixed c i now)) = option_map fst (go k).
Proof.
  intros Hk. unfold gobs. rewrite msgs_of_split, filter_app.
  rewrite (filter_flat_map_none _ _ (keyids c)).
  2:{ intros a m _ Hm. destruct (flat_map _ _); [destruct Hm|]. destruct Hm as [<-|[]]. reflexivity. }
  rewrite app_nil_r, flush_calls_shape. unfold scalar_msgs. rewrite !flat_map_app, !filter_app, !flat_map_flat_map.
  rewrite (filter_flat_map_none _ _ (keyids c)).
  2:{ intros a m _ Hm. unfold cmsg in Hm. destruct (co a) as [[d u]|]; [|destruct Hm]. destruct Hm as [<-|[]]. reflexivity. }
  rewrite (filter_flat_map_one _ _ (keyids c) k (keyids_nodup c) Hk).
  - rewrite (filter_flat_map_none _ _ (keyids c)).
    2:{ intros a m _ Hm. apply in_flat_map in Hm. destruct Hm as (x & Hx & Hm). apply in_map_iff in Hx. destruct Hx as (b & <- & _). destruct Hm. }
    rewrite app_nil_r. cbn [app]. unfold gmsg. destruct (go k) as [[z u]|]; reflexivity.
  - intros m Hm. unfold gmsg in Hm. destruct (go k) as [[z u]|]; [|destruct Hm]. destruct Hm as [<-|[]]. cbn. rewrite N.eqb_refl. reflexivity.
  - intros a m _ Hne Hm. unfold gmsg in Hm. destruct (go a) as [[z u]|]; [|destruct Hm]. destruct Hm as [<-|[]]. cbn.
    apply N.eqb_neq. exact Hne.
Qed.
End Flush.

(* ---- one output per flush *)
Lemma crun_app fx : forall a b st, crun fx st (a ++ b) = crun fx st a ++ crun fx (fold_left (fun s e => fst (cstep fx s e)) a st) b.
Proof.
  induction a as [|e r IH]; intros b st; [reflexivity|]. cbn [app crun fold_left].
  destruct (cstep fx st e) as [st' o]. cbn [fst]. rewrite IH, app_assoc. reflexivity.
Qed.
Lemma crun_length fx k : forall ops st, length (crun fx st (flat_map (projC k) ops)) = length (nows ops).
Proof.
  induction ops as [|o r IH]; intros st; [reflexivity|]. cbn [flat_map nows]. rewrite crun_app, !app_length, IH.
  f_equal. destruct o; cbn [projC]; try reflexivity; try (destruct (_ =? k); reflexivity).
  cbn. destruct (c_reg st); [destruct (decide _ _ _ _)|]; reflexivity.
Qed.
Lemma grun_app : forall a b st, grun st (a ++ b) = grun st a ++ grun (fold_left (fun s e => fst (gstep s e)) a st) b.
Proof.
  induction a as [|e r IH]; intros b st; [reflexivity|]. cbn [app grun fold_left].
  destruct (gstep st e) as [st' o]. cbn [fst]. rewrite IH, app_assoc. reflexivity.
Qed.
Lemma grun_length k : forall ops st, length (grun st (flat_map (projG k) ops)) = length (nows ops).
Proof.
  induction ops as [|o r IH]; intros st; [reflexivity|]. cbn [flat_map nows]. rewrite grun_app, !app_length, IH.
  f_equal. destruct o; cbn [projG]; try reflexivity; try (destruct (_ =? k); reflexivity).
  cbn. destruct (g_reg st); reflexivity.
Qed.

Lemma skipn_nth {A} (d : A) : forall i l, (i < length l)%nat -> skipn i l = nth i l d :: skipn (S i) l.
Proof.
  induction i as [|i IH]; intros [|x r] H; cbn in *; try lia; [reflexivity|]. apply IH. lia.
Qed.

(* ---- the observers on a whole model run *)
Definition fout_msgs (f : fout) : option (list msg) := match f with FOut ms _ _ _ _ => Some ms | FPanic => None end.

Lemma obs_of_run c : forall ns i fl,
  Forall2 (fun xs f => exists fs cp gp hp, f = FOut (msgs_of c xs) (map (MV.C09.Inv.frame (o_lp c)) fs) cp gp hp /\
                       bodies_rel c xs fs /\ Forall (fun b => W.len b <= o_max c) fs)
          (all_calls_from all_fixed c i ns) fl ->
  forall k, In k (keyids c) ->
  obs_counter k fl = map (fun j => option_map fst (nth j (crun all_fixed cst0 (flat_map (projC k) (o_ops c))) None)) (seq i (length ns)) /\
  obs_gauge k fl = map (fun j => option_map fst (nth j (grun gst0 (flat_map (projG k) (o_ops c))) None)) (seq i (length ns)).
Proof.
  induction ns as [|n r IH]; intros i fl H k Hk; cbn [all_calls_from] in H.
  - inversion H; subst. split; reflexivity.
  - inversion H as [|xs f l1 l2 (fs & cp & gp & hp & -> & _) Hr]; subst.
    destruct (IH (S i) l2 Hr k Hk) as [A B]. cbn [length seq map obs_counter obs_gauge].
    fold (obs_counter k l2). fold (obs_gauge k l2). rewrite A, B. split; f_equal.
    + apply (cobs_flush c i n k Hk).
    + apply (gobs_flush c i n k Hk).
Qed.

Lemma map_nth_seq {A B} (f : A -> B) (d : A) l : map (fun j => f (nth j l d)) (seq 0 (length l)) = map f l.
Proof.
  induction l as [|x r IH]; [reflexivity|]. cbn [length seq map nth]. f_equal.
  rewrite <- seq_shift, map_map. exact IH.
Qed.

Definition ops_wf (c : ocase) : Prop :=
  Forall (fun o => match o with OInc _ v | OAbs _ v => v < two64 | _ => True end) (o_ops c).

Lemma projC_wf c k : ops_wf c -> Forall cev_wf (flat_map (projC k) (o_ops c)).
Proof.
  unfold ops_wf. induction 1 as [|o r Ho Hr IH]; [constructor|]. cbn [flat_map]. apply Forall_app. split; [|exact IH].
  destruct o; cbn [projC]; try constructor; try (destruct (_ =? k); repeat constructor; assumption); constructor.
Qed.

(* the counter and gauge conjuncts of spec_ok hold on the model's run of every sequential case *)
Theorem counter_gauge_clauses_on_run c : o_max c < 4294967296 -> ops_wf c ->
  exists fl, run_case (CSeq c) = OSeq fl /\
    forall k, In k (keyids c) ->
      counter_ok (flat_map (projC k) (o_ops c)) (obs_counter k fl) = true /\
      gauge_ok (flat_map (projG k) (o_ops c)) (obs_gauge k fl) = true.
Proof.
  intros Hm Hwf. destruct (seq_wire c Hm) as (fl & Er & HF).
  exists fl. split; [unfold run_case, run_with, impl_fixes; rewrite Er; reflexivity|].
  intros k Hk. unfold all_calls in HF. destruct (obs_of_run c _ 0%nat fl HF k Hk) as [A B]. rewrite A, B.
  rewrite <- (crun_length all_fixed k (o_ops c) cst0) at 1. rewrite (map_nth_seq (option_map fst) None).
  rewrite <- (grun_length k (o_ops c) gst0). rewrite (map_nth_seq (option_map fst) None).
  split; [apply counter_ok_on_model; apply projC_wf; exact Hwf|apply gauge_ok_on_model].
Qed.

(* ------------------------------------------------------------------ histograms *)
Lemma flat_map_all_nil {A B} (g : A -> list B) L : (forall a, In a L -> g a = []) -> flat_map g L = [].
Proof. induction L as [|a r IH]; intros H; [reflexivity|]. cbn. rewrite (H a (or_introl eq_refl)), IH; auto. intros; apply H; right; auto. Qed.

Lemma flat_map_only {B} (g : N -> list B) L k :
  NoDup L -> In k L -> (forall a, In a L -> a <> k -> g a = []) -> flat_map g L = g k.
Proof.
  induction L as [|a r IH]; intros Hnd Hin H; [destruct Hin|].
  inversion Hnd as [|? ? Hna Hnd']; subst. cbn [flat_map].
  destruct (N.eq_dec a k) as [->|Hne].
  - rewrite (flat_map_all_nil g r); [apply app_nil_r|].
    intros x Hx. apply H; [right; exact Hx|intros ->; contradiction].
  - rewrite (H a (or_introl eq_refl) Hne). cbn [app]. apply IH; auto.
    + destruct Hin as [->|Hin]; [contradiction|exact Hin].
    + intros x Hx. apply H. right; exact Hx.
Qed.

Definition hobs (k : N) (ms : list msg) : list Z :=
  match filter (fun m => (m_kind m =? 2) && (m_key m =? k)) ms with
  | m :: _ => m_vals m
  | [] => []
  end.
Definition hsel (k : N) (x : wcall) : list Z := match x with WH k' b => if k' =? k then b else [] | _ => [] end.

Lemma hsel_blocks k k' bl : flat_map (hsel k) (map (WH k') bl) = if k' =? k then concat bl else [].
Proof.
  induction bl as [|b r IH]; cbn [map flat_map concat]; [destruct (k' =? k); reflexivity|].
  rewrite IH. unfold hsel at 1. destruct (k' =? k); reflexivity.
Qed.

Lemma hobs_flush c i now k : In k (keyids c) ->
  hobs k (msgs_of c (flush_calls all_fixed c i now)) =
  sort_z (concat (nth i (hrun (o_samp c) hst0 (flat_map (projH k) (o_ops c))) [])).
Proof.
  intros Hk. unfold hobs. rewrite msgs_of_split, filter_app.
  rewrite (filter_all_false _ (scalar_msgs _)).
  2:{ intros m Hm. unfold scalar_msgs in Hm. apply in_flat_map in Hm. destruct Hm as (x & _ & Hm).
      destruct x; [destruct Hm as [<-|[]]; reflexivity|destruct Hm as [<-|[]]; reflexivity|destruct Hm]. }
  cbn [app].
  fold (hsel k).
  rewrite (filter_flat_map_one _ _ (keyids c) k (keyids_nodup c) Hk).
  - assert (E : flat_map (hsel k) (flush_calls all_fixed c i now) =
                concat (nth i (hrun (o_samp c) hst0 (flat_map (projH k) (o_ops c))) [])).
    { rewrite flush_calls_shape, !flat_map_app, !flat_map_flat_map.
      rewrite (flat_map_all_nil _ (keyids c)).
      2:{ intros a _. unfold cmsg. destruct (nth i _ None) as [[d u]|]; reflexivity. }
      rewrite (flat_map_all_nil _ (keyids c)).
      2:{ intros a _. unfold gmsg. destruct (nth i _ None) as [[z u]|]; reflexivity. }
      cbn [app]. rewrite (flat_map_only _ (keyids c) k (keyids_nodup c) Hk).
      - rewrite hsel_blocks, N.eqb_refl. reflexivity.
      - intros a _ Hne. rewrite hsel_blocks. apply N.eqb_neq in Hne. rewrite Hne. reflexivity. }
    change (fun x : wcall => match x with WH k' b => if k' =? k then b else [] | _ => [] end) with (hsel k).
    rewrite E. destruct (concat _); reflexivity.
  - intros m Hm. destruct (flat_map _ _); [destruct Hm|]. destruct Hm as [<-|[]]. cbn. rewrite N.eqb_refl. reflexivity.
  - intros a m _ Hne Hm. destruct (flat_map _ _); [destruct Hm|]. destruct Hm as [<-|[]]. cbn. apply N.eqb_neq. exact Hne.
Qed.

Lemma hrun_app samp : forall a b st, hrun samp st (a ++ b) = hrun samp st a ++ hrun samp (fold_left (fun s e => fst (hstep samp s e)) a st) b.
Proof.
  induction a as [|e r IH]; intros b st; [reflexivity|]. cbn [app hrun fold_left].
  destruct (hstep samp st e) as [st' o]. cbn [fst]. rewrite IH, app_assoc. reflexivity.
Qed.
Lemma hrun_length samp k : forall ops st, length (hrun samp st (flat_map (projH k) ops)) = length (nows ops).
Proof.
  induction ops as [|o r IH]; intros st; [reflexivity|]. cbn [flat_map nows]. rewrite hrun_app, !app_length, IH.
  f_equal. destruct o; cbn [projH]; try reflexivity; destruct (_ =? k); reflexivity.
Qed.

Lemma obs_hist_of_run c : forall ns i fl,
  Forall2 (fun xs f => exists fs cp gp hp, f = FOut (msgs_of c xs) (map (MV.C09.Inv.frame (o_lp c)) fs) cp gp hp /\
                       bodies_rel c xs fs /\ Forall (fun b => W.len b <= o_max c) fs)
          (all_calls_from all_fixed c i ns) fl ->
  forall k, In k (keyids c) ->
  obs_hist k fl = map (fun j => sort_z (concat (nth j (hrun (o_samp c) hst0 (flat_map (projH k) (o_ops c))) []))) (seq i (length ns)).
Proof.
  induction ns as [|n r IH]; intros i fl H k Hk; cbn [all_calls_from] in H.
  - inversion H; subst. reflexivity.
  - inversion H as [|xs f l1 l2 (fs & cp & gp & hp & -> & _) Hr]; subst.
    cbn [length seq map obs_hist]. fold (obs_hist k l2). rewrite (IH (S i) l2 Hr k Hk). f_equal.
    apply (hobs_flush c i n k Hk).
Qed.

(* sampling on: every window of every key stays within the reservoir *)
Definition hist_wf (c : ocase) : Prop :=
  o_samp c = true -> forall k, hwin_ok (o_rsv c) 0 (flat_map (projH k) (o_ops c)) = true.

(* the whole per-key conjunct of spec_ok holds on the model's run of every sequential case *)
Theorem key_clauses_on_run c : o_max c < 4294967296 -> ops_wf c -> hist_wf c ->
  exists fl, run_case (CSeq c) = OSeq fl /\
    forallb (fun k => counter_ok (flat_map (projC k) (o_ops c)) (obs_counter k fl)
                      && gauge_ok (flat_map (projG k) (o_ops c)) (obs_gauge k fl)
                      && histogram_ok (o_samp c) (o_rsv c) (flat_map (projH k) (o_ops c)) (obs_hist k fl))
            (keyids c) = true.
Proof.
  intros Hm Hwf Hh. destruct (seq_wire c Hm) as (fl & Er & HF).
  exists fl. split; [unfold run_case, run_with, impl_fixes; rewrite Er; reflexivity|].
  apply forallb_forall. intros k Hk. unfold all_calls in HF.
  destruct (obs_of_run c _ 0%nat fl HF k Hk) as [A B]. rewrite A, B, (obs_hist_of_run c _ 0%nat fl HF k Hk).
  rewrite <- (crun_length all_fixed k (o_ops c) cst0) at 1. rewrite (map_nth_seq (option_map fst) None).
  rewrite <- (grun_length k (o_ops c) gst0) at 1. rewrite (map_nth_seq (option_map fst) None).
  rewrite <- (hrun_length (o_samp c) k (o_ops c) hst0). rewrite (map_nth_seq (fun bl => sort_z (concat bl)) []).
  rewrite counter_ok_on_model by (apply projC_wf; exact Hwf). rewrite gauge_ok_on_model.
  rewrite histogram_ok_on_model; [reflexivity|]. intros E. apply Hh. exact E.
Qed.
