(* C10 — what [spec_ok c o = true] means at the Prop level. *)
From Coq Require Import List NArith ZArith Bool Lia.
Import ListNotations.
Require Import MV.C10.Model MV.C10.Spec MV.C10.Exec.
Open Scope N_scope.

Lemma seq_spec_ok_sound c fl : spec_ok (CSeq c) (OSeq fl) = true ->
  o_max c < two32 /\ flushes_ok c (nows (o_ops c)) fl = true /\
  forall k, In k (keyids c) ->
    counter_ok (flat_map (projC k) (o_ops c)) (obs_counter k fl) = true /\
    gauge_ok (flat_map (projG k) (o_ops c)) (obs_gauge k fl) = true /\
    histogram_ok (o_samp c) (o_rsv c) (flat_map (projH k) (o_ops c)) (obs_hist k fl) = true.
Proof.
  cbn [spec_ok seq_spec_ok]. intros H. apply andb_true_iff in H. destruct H as [H H3].
  apply andb_true_iff in H. destruct H as [H1 H2]. split; [apply N.ltb_lt; exact H1|]. split; [exact H2|].
  intros k Hk. rewrite forallb_forall in H3. specialize (H3 k Hk).
  apply andb_true_iff in H3. destruct H3 as [H3 H5]. apply andb_true_iff in H3. tauto.
Qed.

Lemma flushes_ok_sound c : forall ns fl, flushes_ok c ns fl = true ->
  length fl = length ns /\
  forall i n f, nth_error ns i = Some n -> nth_error fl i = Some f ->
    exists ms ps cp gp hp, f = FOut ms ps cp gp hp /\
      msgs_wf (N.of_nat (length (o_keys c))) ms = true /\
      (forall m, In m ms -> ts_ok (o_aggr c) n m = true) /\
      (forall p, In p ps -> frame_ok (o_lp c) (o_max c) p = true).
Proof.
  induction ns as [|n ns IH]; intros fl H.
  - destruct fl; [|discriminate]. split; [reflexivity|]. intros [|i] ? ? X; discriminate.
  - destruct fl as [|[ms ps cp gp hp|] fl]; cbn [flushes_ok] in H; try discriminate.
    apply andb_true_iff in H. destruct H as [H H4]. apply andb_true_iff in H. destruct H as [H H3].
    apply andb_true_iff in H. destruct H as [H1 H2].
    destruct (IH fl H4) as [L R]. split; [cbn; congruence|].
    intros [|i] n' f Hn Hf; cbn in Hn, Hf.
    + inversion Hn; inversion Hf; subst. do 5 eexists. split; [reflexivity|]. split; [exact H1|].
      rewrite forallb_forall in H2, H3. auto.
    + eapply R; eauto.
Qed.

(* scheduled runs: with increment-only programs and all threads finished, the deltas returned by
   raw flushes, the deltas sent by State::flush and the final flush add up to the increments *)
Lemma sched_spec_ok_sound ps sched tr rs fd fu fz fg :
  spec_ok (CSched ps sched) (OSched tr rs true (fd, fu, fz, fg)) = true -> has_uabs ps = false ->
  (sumN (fd :: deltas_of rs)) mod two64 = (inc_sum ps) mod two64.
Proof.
  cbn [spec_ok sched_spec_ok]. intros H Ha. rewrite Ha in H. cbn [negb andb] in H.
  apply andb_true_iff in H. destruct H as [H _]. apply andb_true_iff in H. destruct H as [_ H].
  apply N.eqb_eq. exact H.
Qed.
