(* C10 — invariants of the interleaving machine, preserved by every atomic step, hence along
   every schedule (Interleave.invariant_all_schedules): conservation of increments. *)
From Coq Require Import List NArith ZArith Bool Lia.
Import ListNotations.
Require Import MV.Common.Interleave MV.C10.Model.
Open Scope N_scope.

Notation lupd := (@MV.Common.Interleave.upd _).
Ltac Zify.zify_post_hook ::= Z.to_euclidean_division_equations.

Fixpoint sl (l : list N) : N := match l with [] => 0 | x :: r => x + sl r end.
Fixpoint sumL (f : local -> N) (ls : list local) : N := match ls with [] => 0 | x :: r => f x + sumL f r end.

Lemma sumL_app f l1 l2 : sumL f (l1 ++ l2) = sumL f l1 + sumL f l2.
Proof. induction l1; cbn [sumL app]; lia. Qed.

Lemma sumL_upd f ls t l l' : nth_error ls t = Some l -> sumL f (lupd ls t l') + f l = sumL f ls + f l'.
Proof.
  intros H. destruct (upd_split ls t l l' H) as (l1 & l2 & E1 & E2 & _).
  rewrite E2, E1, !sumL_app. cbn [sumL]. lia.
Qed.

Definition pend (l : local) : N := match pcl l with PF3 _ d => d | _ => 0 end.
Definition noabs_op (o : uop) : Prop := match o with UAbs _ => False | _ => True end.
Definition noabs_pc (p : pc) : Prop := match p with PB1 _ | PB2 _ | PB3 _ _ | PB4 => False | _ => True end.
Definition noabs_local (l : local) : Prop := Forall noabs_op (todo l) /\ noabs_pc (pcl l).
Definition snap_ok (l : local) : Prop := match pcl l with PF2 _ s => s < two64 | _ => True end.

Definition Inv (fx : fixes) (c : config) : Prop :=
  cur (cnt (fst c)) = added (fst c) mod two64 /\
  (sl (sent (fst c)) + sl (rawd (fst c)) + sl (lost (fst c)) + sumL pend (snd c)) mod two64 = last (cnt (fst c)) /\
  Forall noabs_local (snd c) /\ Forall snap_ok (snd c) /\
  (fix_idle fx = true -> Forall (fun d => d = 0) (lost (fst c))).

Lemma enter_noabs td rs : Forall noabs_op td -> noabs_local (enter td rs).
Proof.
  intros H. destruct td as [|o r]; [split; [constructor|exact I]|].
  inversion H as [|? ? Ho Hr]; subst. destruct o; cbn in Ho; try contradiction; split; cbn; auto.
Qed.
Lemma enter_pend td rs : pend (enter td rs) = 0.
Proof. destruct td as [|[] r]; reflexivity. Qed.
Lemma enter_snap td rs : snap_ok (enter td rs).
Proof. destruct td as [|[] r]; exact I. Qed.

Lemma two64_pos : 0 < two64. Proof. reflexivity. Qed.

Lemma sub64_spec x s ol : x mod two64 = ol -> s < two64 -> (x + sub64 s ol) mod two64 = s.
Proof.
  intros H Hs. unfold sub64. subst ol. unfold two64 in *. lia.
Qed.

Lemma decide_cases fx i d u :
  (exists i', decide fx i d u = (i', Some d)) \/
  (decide fx i d u = (true, None) /\ u = 0 /\ (fix_idle fx = true -> d = 0)).
Proof.
  unfold decide. destruct (u =? 0) eqn:Eu; cbn [andb].
  - destruct (fix_idle fx) eqn:Ef.
    + destruct (d =? 0) eqn:Ed.
      * destruct i; [right|left; eauto]. apply N.eqb_eq in Eu, Ed. auto.
      * left; eauto.
    + destruct i; [right|left; eauto]. apply N.eqb_eq in Eu. split; [reflexivity|split; [exact Eu|discriminate]].
  - left; eauto.
Qed.

Ltac g1 Hcur := cbn; first [exact Hcur | assumption].
Ltac g2 Hsum Hp := cbn; rewrite <- Hsum; f_equal; lia.
Ltac g3 Hna Htd := apply Forall_upd; [exact Hna | first [apply enter_noabs; exact Htd | split; [exact Htd | exact I]]].
Ltac g4 Hsn := apply Forall_upd; [exact Hsn | first [apply enter_snap | exact I]].
Ltac g5 Hlost := cbn; exact Hlost.
Ltac five := split; [|split; [|split; [|split]]].

Lemma step_preserves_Inv fx : step_preserves (step fx) (Inv fx).
Proof.
  intros s ls t l s' l' (Hcur & Hsum & Hna & Hsn & Hlost) Hnth Hstep. unfold Inv in *. cbn [fst snd] in *.
  pose proof (Forall_nth_error _ _ _ _ Hna Hnth) as [Htd Hpc].
  pose proof (Forall_nth_error _ _ _ _ Hsn Hnth) as Hsnl.
  pose proof (sumL_upd pend ls t l l' Hnth) as Hp.
  unfold step in Hstep. destruct l as [p td rs]. cbn [pcl todo results] in *.
  destruct p; cbn in Hpc; try contradiction; try discriminate;
    cbn in Hstep; unfold snap_ok in Hsnl; cbn [pcl] in Hsnl.
  - (* Start *) inversion Hstep; subst; clear Hstep. rewrite enter_pend in Hp. cbn [pend pcl] in Hp.
    five; [g1 Hcur|g2 Hsum Hp|g3 Hna Htd|g4 Hsn|g5 Hlost].
  - (* PA1 *) inversion Hstep; subst; clear Hstep. cbn [pend pcl goto] in Hp.
    five; [g1 Hcur|g2 Hsum Hp|g3 Hna Htd|g4 Hsn|g5 Hlost].
  - (* PA2 *) inversion Hstep; subst; clear Hstep. cbn [pend pcl goto] in Hp.
    five; [|g2 Hsum Hp|g3 Hna Htd|g4 Hsn|g5 Hlost].
    cbn. unfold add64. rewrite Hcur. unfold two64. lia.
  - (* PA3 *) inversion Hstep; subst; clear Hstep. rewrite enter_pend in Hp. cbn [pend pcl] in Hp.
    five; [g1 Hcur|g2 Hsum Hp|g3 Hna Htd|g4 Hsn|g5 Hlost].
  - (* PG1 *) inversion Hstep; subst; clear Hstep. cbn [pend pcl goto] in Hp.
    five; [g1 Hcur|g2 Hsum Hp|g3 Hna Htd|g4 Hsn|g5 Hlost].
  - (* PG2 *) inversion Hstep; subst; clear Hstep. rewrite enter_pend in Hp. cbn [pend pcl] in Hp.
    five; [g1 Hcur|g2 Hsum Hp|g3 Hna Htd|g4 Hsn|g5 Hlost].
  - (* PF1 *) inversion Hstep; subst; clear Hstep. cbn [pend pcl goto] in Hp.
    five; [g1 Hcur|g2 Hsum Hp|g3 Hna Htd| |g5 Hlost].
    apply Forall_upd; [exact Hsn|]. unfold snap_ok. cbn. rewrite Hcur. apply N.mod_lt. discriminate.
  - (* PF2 *) inversion Hstep; subst; clear Hstep. cbn [pend pcl goto] in Hp.
    five; [g1 Hcur| |g3 Hna Htd|g4 Hsn|g5 Hlost].
    cbn.
    match goal with |- (?a + ?b + ?c + ?x) mod _ = _ =>
      replace (a + b + c + x) with ((a + b + c + sumL pend ls) + sub64 s0 (last (cnt s))) by lia end.
    apply sub64_spec; assumption.
  - (* PF3 *) destruct st.
    + destruct (decide_cases fx (idle s) d (upd (cnt s))) as [[i' Ed]|(Ed & Eu & Ez)]; rewrite Ed in Hstep;
        inversion Hstep; subst; clear Hstep; cbn [pend pcl goto] in Hp.
      * five; [g1 Hcur|g2 Hsum Hp|g3 Hna Htd|g4 Hsn|g5 Hlost].
      * five; [g1 Hcur|g2 Hsum Hp|g3 Hna Htd|g4 Hsn|].
        cbn. intros Hf. constructor; auto.
    + inversion Hstep; subst; clear Hstep. rewrite enter_pend in Hp. cbn [pend pcl] in Hp.
      five; [g1 Hcur|g2 Hsum Hp|g3 Hna Htd|g4 Hsn|g5 Hlost].
  - (* PH1 *) inversion Hstep; subst; clear Hstep. cbn [pend pcl goto] in Hp.
    five; [g1 Hcur|g2 Hsum Hp|g3 Hna Htd|g4 Hsn|g5 Hlost].
  - (* PH2 *) inversion Hstep; subst; clear Hstep. rewrite enter_pend in Hp. cbn [pend pcl] in Hp.
    five; [g1 Hcur|g2 Hsum Hp|g3 Hna Htd|g4 Hsn|g5 Hlost].
Qed.
