(* C10 — the executable class predicate vs the proof's hazard predicate.  For a scheduled case whose
   model run completes, [known_class] = None (straddle_walk finds no pattern on the run's step trace)
   implies that every configuration along the run - including the round-robin tail - is hazard-free,
   so C10_absolute_no_wrap_hazard_free applies to exactly the completed cases the check does not excuse. *)
From Coq Require Import List NArith ZArith Bool Lia.
Import ListNotations.
Require Import MV.Common.Interleave MV.C10.Model MV.C10.Spec MV.C10.Exec MV.C10.ProofsBound MV.C10.ProofsAbs.
Open Scope N_scope.

Notation lupd := (@MV.Common.Interleave.upd _).
Notation stp := (step_thread (step all_fixed) site).
Notation exc := (exec (step all_fixed) site).

(* one step of the walker: None = the pattern was found *)
Definition wstep (e : N * N) (reb : list N) (opn : list (N * bool)) : option (list N * list (N * bool)) :=
  let '(t, s) := e in
  if s =? 1005 then match reb with [] => Some (t :: reb, map (fun x => (fst x, true)) opn) | _ => None end
  else if s =? 1006 then Some (del_n t reb, opn)
  else if s =? 1008 then Some (reb, (t, match reb with [] => false | _ => true end) :: opn)
  else if s =? 1009 then
    if existsb (fun x => (fst x =? t) && snd x) opn then None
    else Some (reb, filter (fun x => negb (fst x =? t)) opn)
  else Some (reb, opn).

Lemma walk_cons e r reb opn :
  straddle_walk (e :: r) reb opn =
  match wstep e reb opn with None => true | Some (reb', opn') => straddle_walk r reb' opn' end.
Proof.
  destruct e as [t s]. cbn [straddle_walk wstep].
  destruct (s =? 1005); [destruct reb; reflexivity|].
  destruct (s =? 1006); [reflexivity|]. destruct (s =? 1008); [reflexivity|].
  destruct (s =? 1009); [destruct (existsb _ opn); reflexivity|reflexivity].
Qed.

Lemma in_del_n x t l : In x (del_n t l) <-> In x l /\ x <> t.
Proof.
  induction l as [|y r IH]; cbn; [tauto|]. destruct (t =? y) eqn:E.
  - apply N.eqb_eq in E. subst y. rewrite IH. split; [tauto|]. intros [[->|H] Hn]; [congruence|tauto].
  - apply N.eqb_neq in E. cbn. rewrite IH. split; [intros [->|[H Hn]]; [split; [auto|congruence]|tauto]|tauto].
Qed.

(* what one scheduled step does *)
Lemma stp_cases s ls t c1 e : stp (s, ls) t = (c1, e) ->
  (c1 = (s, ls) /\ snd e = noop_site) \/
  (exists l s' l', nth_error ls t = Some l /\ step all_fixed s l = Some (s', l') /\
                   c1 = (s', lupd ls t l') /\ e = (N.of_nat t, site l)).
Proof.
  unfold step_thread. cbn [fst snd]. destruct (nth_error ls t) as [l|] eqn:En; [|intros H; inversion H; left; auto].
  destruct (step all_fixed s l) as [[s' l']|] eqn:Es; intros H; inversion H; subst; [right; eauto 8|left; auto].
Qed.

Lemma wstep_noop t reb opn : wstep (t, noop_site) reb opn = Some (reb, opn).
Proof. reflexivity. Qed.

(* how the pcs relevant to the walker move *)
Definition site_class (l l' : local) : Prop :=
  match pcl l with
  | PB2 _ => site l = 1005 /\ is_win (pcl l') /\ ~ is_pf2 (pcl l')
  | PB3 _ _ => site l = 1006 /\ ~ is_win (pcl l') /\ ~ is_pf2 (pcl l')
  | PF1 _ => site l = 1008 /\ is_pf2 (pcl l') /\ ~ is_win (pcl l')
  | PF2 _ _ => site l = 1009 /\ ~ is_pf2 (pcl l') /\ ~ is_win (pcl l')
  | _ => site l <> 1005 /\ site l <> 1006 /\ site l <> 1008 /\ site l <> 1009 /\ ~ is_win (pcl l') /\ ~ is_pf2 (pcl l')
  end.

Lemma enter_plain td rs : ~ is_win (pcl (enter td rs)) /\ ~ is_pf2 (pcl (enter td rs)).
Proof. destruct td as [|[] r]; cbn; auto. Qed.

Lemma step_site_class s l s' l' : step all_fixed s l = Some (s', l') -> site_class l l'.
Proof.
  unfold step, site_class, site. destruct l as [p td rs]. cbn [pcl todo results].
  destruct p; cbn; intros H; try discriminate;
    try (inversion H; subst; cbn; repeat split; try discriminate; try apply enter_plain; auto; fail).
  - (* PB1 *) destruct (is_abs (cnt s)); inversion H; subst; cbn; repeat split; try discriminate; auto.
  - (* PF3 *) destruct st.
    + destruct (decide all_fixed (idle s) d (upd (cnt s))). inversion H; subst. cbn. repeat split; try discriminate; auto.
    + inversion H; subst. repeat split; try discriminate; apply enter_plain.
Qed.

(* ------------------------------------------------------------------ a tainted open flush never closes quietly *)
Lemma doomed : forall sched c reb opn u lu,
  nth_error (snd c) u = Some lu -> is_pf2 (pcl lu) -> In (N.of_nat u, true) opn ->
  straddle_walk (snd (exc c sched)) reb opn = false ->
  exists lu', nth_error (snd (fst (exc c sched))) u = Some lu' /\ is_pf2 (pcl lu').
Proof.
  induction sched as [|t r IH]; intros [s ls] reb opn u lu Hu Hp Hin Hw; [exists lu; auto|].
  cbn [exec] in *. destruct (stp (s, ls) t) as [c1 e] eqn:E1. destruct (exc c1 r) as [c2 es] eqn:E2.
  cbn [fst snd] in *. rewrite walk_cons in Hw.
  destruct (stp_cases _ _ _ _ _ E1) as [[-> En]|(l & s' & l' & Hn & Hs & -> & ->)].
  - destruct e as [te se]. cbn in En. subst se. rewrite wstep_noop in Hw.
    specialize (IH (s, ls) reb opn u lu Hu Hp Hin). rewrite E2 in IH. apply IH. exact Hw.
  - pose proof (step_site_class _ _ _ _ Hs) as Hc.
    destruct (Nat.eq_dec t u) as [->|Hne].
    + (* the doomed thread itself steps: its site is 1009 and the walker fires *)
      rewrite Hn in Hu. inversion Hu; subst lu. unfold site_class in Hc. destruct (pcl l) eqn:Ep; try contradiction.
      destruct Hc as (Hsite & _). exfalso. unfold wstep in Hw. rewrite Hsite in Hw. cbn in Hw.
      assert (Ex : existsb (fun x => (fst x =? N.of_nat u) && snd x) opn = true).
      { apply existsb_exists. exists (N.of_nat u, true). split; [exact Hin|]. cbn. rewrite N.eqb_refl. reflexivity. }
      rewrite Ex in Hw. discriminate.
    + destruct (wstep (N.of_nat t, site l) reb opn) as [[reb1 opn1]|] eqn:Ew; [|discriminate].
      assert (Hin1 : In (N.of_nat u, true) opn1).
      { unfold wstep in Ew.
        destruct (site l =? 1005); [destruct reb; inversion Ew; subst; apply in_map_iff; exists (N.of_nat u, true); auto|].
        destruct (site l =? 1006); [inversion Ew; subst; exact Hin|].
        destruct (site l =? 1008); [inversion Ew; subst; right; exact Hin|].
        destruct (site l =? 1009); [|inversion Ew; subst; exact Hin].
        destruct (existsb _ opn); inversion Ew; subst. apply filter_In. split; [exact Hin|]. cbn.
        apply negb_true_iff. apply N.eqb_neq. intros X. apply Nat2N.inj in X. congruence. }
      specialize (IH (s', lupd ls t l') reb1 opn1 u lu). rewrite E2 in IH. apply IH; auto.
      cbn [snd]. rewrite nth_error_upd_other by exact Hne. exact Hu.
Qed.

(* ------------------------------------------------------------------ the walker's state vs the configuration *)
Definition WInv (ls : list local) (reb : list N) (opn : list (N * bool)) : Prop :=
  (forall t l, nth_error ls t = Some l -> is_win (pcl l) -> In (N.of_nat t) reb) /\
  (forall t l, nth_error ls t = Some l -> is_pf2 (pcl l) ->
     exists b, In (N.of_nat t, b) opn /\ (reb <> [] -> b = true)) /\
  (forall t l t' l', nth_error ls t = Some l -> nth_error ls t' = Some l' -> is_win (pcl l) -> is_win (pcl l') -> t = t').

Lemma WInv_step s ls t l s' l' reb opn reb1 opn1 :
  WInv ls reb opn -> nth_error ls t = Some l -> step all_fixed s l = Some (s', l') ->
  wstep (N.of_nat t, site l) reb opn = Some (reb1, opn1) -> WInv (lupd ls t l') reb1 opn1.
Proof.
  intros (Ha & Hb & Hd) Hn Hs Hw. pose proof (step_site_class _ _ _ _ Hs) as Hc.
  assert (Hsame : nth_error (lupd ls t l') t = Some l') by (eapply nth_error_upd_same; eauto).
  assert (Hother : forall u x, nth_error (lupd ls t l') u = Some x -> (u = t /\ x = l') \/ (u <> t /\ nth_error ls u = Some x))
    by (intros; apply nth_error_upd_cases; assumption).
  assert (Hinj : forall u, u <> t -> N.of_nat u <> N.of_nat t) by (intros u Hu X; apply Nat2N.inj in X; congruence).
  unfold site_class in Hc. unfold wstep in Hw.
  destruct (pcl l) eqn:Ep;
    try (destruct Hc as (S5 & S6 & S8 & S9 & Nw & Nf);
         apply N.eqb_neq in S5, S6, S8, S9; rewrite S5, S6, S8, S9 in Hw; inversion Hw; subst reb1 opn1;
         split; [|split];
         [ intros u x Hu Hx; destruct (Hother u x Hu) as [[-> ->]|[Hne Hu']]; [contradiction|eauto]
         | intros u x Hu Hx; destruct (Hother u x Hu) as [[-> ->]|[Hne Hu']]; [contradiction|eauto]
         | intros u x u' x' Hu Hu' Hx Hx';
           destruct (Hother u x Hu) as [[-> ->]|[Hne Hu1]]; [contradiction|];
           destruct (Hother u' x' Hu') as [[-> ->]|[Hne' Hu1']]; [contradiction|eauto] ]; fail).
  - (* PB2 : 1005 *)
    destruct Hc as (Hsite & Hwin & Nf). rewrite Hsite in Hw. cbn in Hw. destruct reb as [|r0 rr]; [|discriminate].
    inversion Hw; subst reb1 opn1.
    assert (Hnone : forall u x, nth_error ls u = Some x -> ~ is_win (pcl x)) by (intros u x Hu Hx; destruct (Ha u x Hu Hx)).
    split; [|split].
    + intros u x Hu Hx. destruct (Hother u x Hu) as [[-> ->]|[Hne Hu']]; [left; reflexivity|exfalso; eapply Hnone; eauto].
    + intros u x Hu Hx. destruct (Hother u x Hu) as [[-> ->]|[Hne Hu']]; [contradiction|].
      destruct (Hb u x Hu' Hx) as (b & Hin & _). exists true. split; [|auto].
      apply in_map_iff. exists (N.of_nat u, b). auto.
    + intros u x u' x' Hu Hu' Hx Hx'.
      destruct (Hother u x Hu) as [[-> ->]|[Hne Hu1]]; destruct (Hother u' x' Hu') as [[-> ->]|[Hne' Hu1']]; auto;
        exfalso; eapply Hnone; eauto.
  - (* PB3 : 1006 *)
    destruct Hc as (Hsite & Nw & Nf). rewrite Hsite in Hw. cbn in Hw. inversion Hw; subst reb1 opn1.
    split; [|split].
    + intros u x Hu Hx. destruct (Hother u x Hu) as [[-> ->]|[Hne Hu']]; [contradiction|].
      apply in_del_n. split; [eauto|auto].
    + intros u x Hu Hx. destruct (Hother u x Hu) as [[-> ->]|[Hne Hu']]; [contradiction|].
      destruct (Hb u x Hu' Hx) as (b & Hin & Hbt). exists b. split; [exact Hin|]. intros Hr. apply Hbt.
      destruct reb; [cbn in Hr; congruence|discriminate].
    + intros u x u' x' Hu Hu' Hx Hx'.
      destruct (Hother u x Hu) as [[-> ->]|[Hne Hu1]]; [contradiction|].
      destruct (Hother u' x' Hu') as [[-> ->]|[Hne' Hu1']]; [contradiction|eauto].
  - (* PF1 : 1008 *)
    destruct Hc as (Hsite & Hf & Nw). rewrite Hsite in Hw. cbn in Hw. inversion Hw; subst reb1 opn1.
    split; [|split].
    + intros u x Hu Hx. destruct (Hother u x Hu) as [[-> ->]|[Hne Hu']]; [contradiction|eauto].
    + intros u x Hu Hx. destruct (Hother u x Hu) as [[-> ->]|[Hne Hu']].
      * eexists. split; [left; reflexivity|]. intros Hr. destruct reb; [congruence|reflexivity].
      * destruct (Hb u x Hu' Hx) as (b & Hin & Hbt). exists b. split; [right; exact Hin|exact Hbt].
    + intros u x u' x' Hu Hu' Hx Hx'.
      destruct (Hother u x Hu) as [[-> ->]|[Hne Hu1]]; [contradiction|].
      destruct (Hother u' x' Hu') as [[-> ->]|[Hne' Hu1']]; [contradiction|eauto].
  - (* PF2 : 1009 *)
    destruct Hc as (Hsite & Nf & Nw). rewrite Hsite in Hw. cbn in Hw.
    destruct (existsb _ opn); [discriminate|]. inversion Hw; subst reb1 opn1.
    split; [|split].
    + intros u x Hu Hx. destruct (Hother u x Hu) as [[-> ->]|[Hne Hu']]; [contradiction|eauto].
    + intros u x Hu Hx. destruct (Hother u x Hu) as [[-> ->]|[Hne Hu']]; [contradiction|].
      destruct (Hb u x Hu' Hx) as (b & Hin & Hbt). exists b. split; [|exact Hbt].
      apply filter_In. split; [exact Hin|]. cbn. apply negb_true_iff. apply N.eqb_neq. auto.
    + intros u x u' x' Hu Hu' Hx Hx'.
      destruct (Hother u x Hu) as [[-> ->]|[Hne Hu1]]; [contradiction|].
      destruct (Hother u' x' Hu') as [[-> ->]|[Hne' Hu1']]; [contradiction|eauto].
Qed.

Definition no_pf2 (ls : list local) : Prop := forall t l, nth_error ls t = Some l -> ~ is_pf2 (pcl l).

Lemma walk_safe : forall sched c reb opn,
  WInv (snd c) reb opn ->
  straddle_walk (snd (exc c sched)) reb opn = false ->
  no_pf2 (snd (fst (exc c sched))) ->
  safe c sched.
Proof.
  induction sched as [|t r IH]; intros [s ls] reb opn HI Hw Hfin.
  - cbn in *. split; [|exact I]. intros [(u & l & u' & l' & Hu & _ & Hf & _)|(u & l & u' & l' & Hne & Hu & Hu' & Hx & Hx')].
    + eapply Hfin; eauto.
    + destruct HI as (_ & _ & Hd). apply Hne. eapply Hd; eauto.
  - assert (Hz : ~ hazard ls).
    { intros [(u & l & u' & l' & Hu & Hu' & Hf & Hx)|(u & l & u' & l' & Hne & Hu & Hu' & Hx & Hx')].
      - destruct HI as (Ha & Hb & _). pose proof (Ha u' l' Hu' Hx) as Hreb.
        destruct (Hb u l Hu Hf) as (b & Hin & Hbt). assert (b = true) by (apply Hbt; intros E; rewrite E in Hreb; destruct Hreb). subst b.
        destruct (doomed (t :: r) (s, ls) reb opn u l Hu Hf Hin Hw) as (lu' & Hn' & Hp'). eapply Hfin; eauto.
      - destruct HI as (_ & _ & Hd). apply Hne. eapply Hd; eauto. }
    cbn [safe snd]. split; [exact Hz|].
    cbn [exec] in Hw, Hfin. destruct (stp (s, ls) t) as [c1 e] eqn:E1. destruct (exc c1 r) as [c2 es] eqn:E2.
    cbn [fst snd] in *. rewrite walk_cons in Hw.
    destruct (stp_cases _ _ _ _ _ E1) as [[-> En]|(l & s' & l' & Hn & Hs & -> & ->)].
    + destruct e as [te se]. cbn in En. subst se. rewrite wstep_noop in Hw.
      specialize (IH (s, ls) reb opn HI). rewrite E2 in IH. apply IH; assumption.
    + destruct (wstep (N.of_nat t, site l) reb opn) as [[reb1 opn1]|] eqn:Ew; [|discriminate].
      specialize (IH (s', lupd ls t l') reb1 opn1). rewrite E2 in IH. apply IH; auto.
      eapply WInv_step; eauto.
Qed.

(* ------------------------------------------------------------------ the round-robin tail is a schedule *)
Lemma exec_app : forall l1 c l2,
  exc c (l1 ++ l2) = (fst (exc (fst (exc c l1)) l2), snd (exc c l1) ++ snd (exc (fst (exc c l1)) l2)).
Proof.
  induction l1 as [|t r IH]; intros c l2; cbn [app exec].
  - cbn [fst snd app]. destruct (exc c l2); reflexivity.
  - destruct (stp c t) as [c1 e]. rewrite IH. destruct (exc c1 r) as [c2 es]. cbn [fst snd].
    destruct (exc c2 l2) as [c3 es']. reflexivity.
Qed.

Lemma rr_round_as_exec : forall ts c, exists l, rr_round (step all_fixed) site c ts = exc c l.
Proof.
  induction ts as [|t r IH]; intros c; [exists []; reflexivity|]. cbn [rr_round].
  destruct (finished (step all_fixed) c t); [apply IH|].
  destruct (stp c t) as [c1 e] eqn:E1. destruct (IH c1) as [l Hl]. exists (t :: l).
  cbn [exec]. rewrite E1, Hl. reflexivity.
Qed.

Lemma exec_rr_as_exec : forall fuel c, exists l, exec_rr (step all_fixed) site fuel c = exc c l.
Proof.
  induction fuel as [|f IH]; intros c; [exists []; reflexivity|]. cbn [exec_rr].
  destruct (all_done (step all_fixed) c); [exists []; reflexivity|].
  destruct (rr_round_as_exec (seq 0 (length (snd c))) c) as [l1 H1]. rewrite H1.
  destruct (exc c l1) as [c1 es] eqn:E1. destruct (IH c1) as [l2 H2]. rewrite H2.
  exists (l1 ++ l2). rewrite exec_app, E1. cbn [fst snd]. destruct (exc c1 l2); reflexivity.
Qed.

Lemma exec_full_as_exec fuel c sched : exists l, exec_full (step all_fixed) site fuel c sched = exc c (sched ++ l).
Proof.
  unfold exec_full. destruct (exc c sched) as [c1 es] eqn:E1. destruct (exec_rr_as_exec fuel c1) as [l Hl].
  exists l. rewrite Hl, exec_app, E1. cbn [fst snd]. destruct (exc c1 l); reflexivity.
Qed.

Lemma all_done_no_pf2 c : all_done (step all_fixed) c = true -> no_pf2 (snd c).
Proof.
  unfold all_done. rewrite forallb_forall. intros H t l Hn Hp.
  assert (Hlt : (t < length (snd c))%nat) by (apply nth_error_Some; congruence).
  specialize (H t (proj2 (in_seq _ _ _) (conj (Nat.le_0_l _) Hlt))). unfold finished in H. rewrite Hn in H.
  destruct l as [p td rs]. cbn in Hp. destruct p; try contradiction. cbn in H. discriminate.
Qed.

Lemma WInv_init ps : WInv (snd (init_config ps)) [] [].
Proof.
  assert (H : forall t l, nth_error (map init_local ps) t = Some l -> pcl l = Start).
  { intros t l Hn. rewrite nth_error_map in Hn. destruct (nth_error ps t); inversion Hn. reflexivity. }
  cbn. split; [|split].
  - intros t l Hn Hx. rewrite (H t l Hn) in Hx. destruct Hx.
  - intros t l Hn Hx. rewrite (H t l Hn) in Hx. destruct Hx.
  - intros t l t' l' Hn _ Hx. rewrite (H t l Hn) in Hx. destruct Hx.
Qed.

(* the run of a scheduled case as the check evaluates it: the effective schedule (given schedule +
   round-robin tail), the final configuration *)
Theorem known_class_none_hazard_free ps sched :
  known_class (CSched ps sched) = None ->
  exists full, exec_full (step all_fixed) site rr_fuel (init_config ps) (map N.to_nat sched) = exc (init_config ps) full /\
    (all_done (step all_fixed) (fst (exc (init_config ps) full)) = true -> safe (init_config ps) full).
Proof.
  intros Hk. destruct (exec_full_as_exec rr_fuel (init_config ps) (map N.to_nat sched)) as [l Hl].
  exists (map N.to_nat sched ++ l). split; [exact Hl|]. intros Hdone.
  apply (walk_safe _ _ [] []); [apply WInv_init| |apply all_done_no_pf2; exact Hdone].
  unfold known_class, run_sched, impl_fixes in Hk. rewrite Hl in Hk.
  destruct (exc (init_config ps) (map N.to_nat sched ++ l)) as [cf tr]. cbn [fst snd] in *.
  destruct (seq_cflush (cnt (fst cf))) as [? [d u]]. destruct (seq_gflush (gau (fst cf))) as [? [z gu']].
  destruct (straddle_walk tr [] []); [discriminate|reflexivity].
Qed.

(* corollary: on the completed runs the check does not excuse, absolutes never produce a wrapped delta *)
Theorem absolute_no_wrap_outside_class A f ps sched :
  A < two64 -> Forall (abs_prog A) ps -> one_flusher f ps ->
  known_class (CSched ps sched) = None ->
  exists full, exec_full (step all_fixed) site rr_fuel (init_config ps) (map N.to_nat sched) = exc (init_config ps) full /\
    let c := fst (exc (init_config ps) full) in
    all_done (step all_fixed) c = true ->
    Forall (fun d => d <= A) (sent (fst c) ++ rawd (fst c) ++ lost (fst c)) /\
    cur (cnt (fst c)) <= A /\ last (cnt (fst c)) <= cur (cnt (fst c)).
Proof.
  intros HA Hp Hof Hk. destruct (known_class_none_hazard_free ps sched Hk) as (full & Hl & Hs).
  exists full. split; [exact Hl|]. intros c Hd.
  destruct (absolute_no_wrap_hazard_free A HA f ps full Hp Hof (Hs Hd)) as (D1 & D2 & D3 & _). fold c in D1, D2, D3.
  split; [exact D1|]. split; [exact D2|]. apply D3.
  intros (u & l & Hu & Hx). pose proof (all_done_no_pf2 c Hd) as _.
  unfold all_done in Hd. rewrite forallb_forall in Hd.
  assert (Hlt : (u < length (snd c))%nat) by (apply nth_error_Some; congruence).
  specialize (Hd u (proj2 (in_seq _ _ _) (conj (Nat.le_0_l _) Hlt))). unfold finished in Hd. rewrite Hu in Hd.
  destruct l as [p td rs]. cbn in Hx. destruct p; try contradiction. cbn in Hd. discriminate.
Qed.
