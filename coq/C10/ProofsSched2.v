(* C10 — clause (2) of the scheduled-case checker on the model (every delta <= sum of increments +
   largest absolute, one counter-flushing thread) for increment-only and for increment-free
   programs, and the composed statement for scheduled cases. *)
From Coq Require Import List NArith ZArith Bool Lia.
Import ListNotations.
Require Import MV.Common.Interleave MV.C10.Model MV.C10.Spec MV.C10.Exec MV.C10.ProofsConc MV.C10.ProofsConc2
               MV.C10.ProofsBound MV.C10.ProofsAbs MV.C10.ProofsAbs2 MV.C10.ProofsSched.
Open Scope N_scope.

Notation lupd := (@MV.Common.Interleave.upd _).
Notation cfg := (@config shared local).
Notation exc := (exec (step all_fixed) site).
Ltac Zify.zify_post_hook ::= Z.to_euclidean_division_equations.

(* ------------------------------------------------------------------ returned deltas come from the ghost lists *)
Definition G (s : shared) : list N := 0 :: sent s ++ rawd s.
Definition DInv (c : cfg) : Prop :=
  Forall (fun l => Forall (fun r => In (dres r) (G (fst c))) (results l) /\ In (carryd (pcl l)) (G (fst c))) (snd c).

Lemma G_mono s s' : (forall x, In x (sent s) -> In x (sent s')) -> (forall x, In x (rawd s) -> In x (rawd s')) ->
  forall x, In x (G s) -> In x (G s').
Proof.
  intros H1 H2 x [<-|H]; [left; reflexivity|]. right. apply in_app_or in H. apply in_or_app. destruct H; auto.
Qed.

Lemma step_preserves_DInv : step_preserves (step all_fixed) DInv.
Proof.
  intros s ls t l s' l' HD Hnth Hstep. unfold DInv in *. cbn [fst snd] in *.
  pose proof (Forall_nth_error _ _ _ _ HD Hnth) as [Hrs Hc].
  assert (Hmono : (forall x, In x (G s) -> In x (G s')) ->
            (Forall (fun r => In (dres r) (G s')) (results l') /\ In (carryd (pcl l')) (G s')) ->
            Forall (fun l0 => Forall (fun r => In (dres r) (G s')) (results l0) /\ In (carryd (pcl l0)) (G s')) (lupd ls t l')).
  { intros Hm Hl'. apply Forall_upd; [|exact Hl']. eapply Forall_impl; [|exact HD]. intros a [A1 A2].
    split; [eapply Forall_impl; [|exact A1]; intros r Hr; apply Hm; exact Hr|apply Hm; exact A2]. }
  assert (Hent : forall rs', Forall (fun r => In (dres r) (G s')) rs' ->
            Forall (fun r => In (dres r) (G s')) (results (enter (todo l) rs')) /\ In (carryd (pcl (enter (todo l) rs'))) (G s')).
  { intros rs' H. destruct (todo l) as [|[] r]; cbn; (split; [exact H|left; reflexivity]). }
  unfold step in Hstep. destruct l as [p td rs]. cbn [pcl todo results] in *.
  destruct p; cbn in Hstep; try discriminate.
  all: try (inversion Hstep; subst s' l'; clear Hstep; apply Hmono; [intros x Hx; exact Hx|];
            first [ apply Hent; first [exact Hrs | constructor; [left; reflexivity|exact Hrs]]
                  | split; [exact Hrs|first [left; reflexivity|exact Hc]] ]; fail).
  - (* PB1 *) destruct (is_abs (cnt s)); inversion Hstep; subst s' l'; clear Hstep;
      (apply Hmono; [intros x Hx; exact Hx|split; [exact Hrs|left; reflexivity]]).
  - (* PF3 *) destruct st.
    + destruct (decide all_fixed (idle s) d (upd (cnt s))) as [i' o] eqn:Ed. inversion Hstep; subst s' l'; clear Hstep.
      apply Hmono.
      * apply G_mono; cbn [sent rawd]; [destruct o; [intros x Hx; right; exact Hx|auto]|auto].
      * split; [eapply Forall_impl; [|exact Hrs]; intros r Hr; revert Hr; apply G_mono; cbn [sent rawd]; [destruct o; [intros x Hx; right; exact Hx|auto]|auto]|].
        cbn [goto pcl carryd]. destruct o as [x|]; [|left; reflexivity]. right. cbn [sent]. left. reflexivity.
    + inversion Hstep; subst s' l'; clear Hstep. apply Hmono.
      * apply G_mono; cbn [sent rawd]; [auto|intros x Hx; right; exact Hx].
      * apply Hent. constructor.
        -- cbn [dres]. right. apply in_or_app. right. left. reflexivity.
        -- eapply Forall_impl; [|exact Hrs]. intros r Hr. revert Hr. apply G_mono; cbn [sent rawd]; [auto|intros x Hx; right; exact Hx].
  - (* PH2 *) inversion Hstep; subst s' l'; clear Hstep. apply Hmono; [intros x Hx; exact Hx|].
    apply Hent. constructor; [|exact Hrs]. cbn [pcl carryd] in Hc. destruct carry as [[[x|] cp]|]; cbn [dres]; first [exact Hc|left; reflexivity].
Qed.

Lemma DInv_init ps : DInv (init_config ps).
Proof.
  unfold DInv. cbn [snd init_config]. apply Forall_forall. intros l Hl. apply in_map_iff in Hl. destruct Hl as (p & <- & _).
  split; [constructor|left; reflexivity].
Qed.

(* every delta the run returned is 0 or in the ghost lists of the final configuration *)
Lemma deltas_in_ghost ps sched d :
  In d (deltas_of (map (fun l => rev (results l)) (snd (final ps sched)))) -> In d (G (fst (final ps sched))).
Proof.
  pose proof (final_inv DInv ps sched step_preserves_DInv (DInv_init ps)) as HD. unfold DInv in HD. rewrite Forall_forall in HD.
  unfold deltas_of. intros H. apply in_flat_map in H. destruct H as (r & Hr & Hd).
  apply in_concat in Hr. destruct Hr as (rl & Hrl & Hr). apply in_map_iff in Hrl. destruct Hrl as (l & <- & Hl).
  destruct (HD l Hl) as [Hrs _]. rewrite Forall_forall in Hrs. specialize (Hrs r (proj2 (in_rev _ _) Hr)).
  destruct r as [| | |[x|]]; cbn in Hd; try contradiction; destruct Hd as [<-|[]]; exact Hrs.
Qed.

(* ------------------------------------------------------------------ the two notions of "one flusher" *)
Definition hasfl (p : list uop) : bool := existsb (fun o => match o with FCnt | FState => true | _ => false end) p.

Lemma hasfl_false p : hasfl p = false -> noflush_prog p.
Proof.
  unfold hasfl, noflush_prog. intros H. apply Forall_forall. intros o Ho Hf.
  assert (E : existsb (fun o => match o with FCnt | FState => true | _ => false end) p = true)
    by (apply existsb_exists; exists o; split; [exact Ho|destruct o; cbn in Hf; try contradiction; reflexivity]).
  unfold hasfl in H. congruence.
Qed.

Lemma one_flusher_conv : forall ps, ps <> [] -> MV.C10.Exec.one_flusher ps = true ->
  exists f, MV.C10.ProofsBound.one_flusher f ps.
Proof.
  unfold MV.C10.Exec.one_flusher. fold hasfl.
  induction ps as [|p r IH]; intros Hne H; [congruence|]. cbn [filter] in H.
  destruct (hasfl p) eqn:Ep.
  - cbn [length] in H. apply Nat.leb_le in H. assert (Hr : filter hasfl r = []) by (destruct (filter hasfl r); [reflexivity|cbn in H; lia]).
    exists 0%nat. split; [cbn; lia|]. intros u q Hu Hn. destruct u; [congruence|]. cbn in Hu.
    apply hasfl_false. destruct (hasfl q) eqn:Eq; [|reflexivity]. exfalso.
    assert (In q (filter hasfl r)) by (apply filter_In; split; [eapply nth_error_In; eauto|exact Eq]). rewrite Hr in H0. destruct H0.
  - destruct r as [|p2 r2].
    + exists 0%nat. split; [cbn; lia|]. intros u q Hu Hn. destruct u; [congruence|]. destruct u; discriminate.
    + destruct (IH ltac:(discriminate) H) as (f & Hlt & Hof). exists (S f). split; [cbn in *; lia|].
      intros u q Hu Hn. destruct u; [cbn in Hu; inversion Hu; subst; apply hasfl_false; exact Ep|].
      cbn in Hu. apply (Hof u q Hu). congruence.
Qed.

(* ------------------------------------------------------------------ clause (2) *)
Lemma sub64_exact a b : b <= a -> a < two64 -> sub64 a b = a - b.
Proof. unfold sub64, two64. intros. lia. Qed.

Lemma final_as_exec ps sched : exists full, final ps sched = fst (exc (init_config ps) full).
Proof.
  destruct (exec_full_as_exec rr_fuel (init_config ps) (map N.to_nat sched)) as [l Hl].
  exists (map N.to_nat sched ++ l). unfold final. rewrite Hl. reflexivity.
Qed.

Lemma in_le_sum w l : In w l -> w <= fold_right N.add 0 l.
Proof. induction l as [|x r IH]; intros []; cbn; [subst; lia|specialize (IH H); lia]. Qed.

Lemma abs_max_ge ps v : In (UAbs v) (all_ops ps) -> v <= abs_max ps.
Proof.
  unfold abs_max. induction (all_ops ps) as [|o r IH]; intros []; cbn [fold_right].
  - subst. lia.
  - specialize (IH H). destruct o; lia.
Qed.

(* increment-only programs *)
Theorem sched_bound_inc ps sched :
  ps <> [] -> MV.C10.Exec.one_flusher ps = true -> has_uabs ps = false -> inc_sum ps < two64 ->
  forallb (fun d => d <=? inc_sum ps)
          (sub64 (cur (cnt (fst (final ps sched)))) (last (cnt (fst (final ps sched))))
           :: deltas_of (map (fun l => rev (results l)) (snd (final ps sched)))) = true.
Proof.
  intros Hne Hof Ha Hb. destruct (one_flusher_conv ps Hne Hof) as [f Hf].
  pose proof (noabs_of_has_uabs ps Ha) as Hna.
  destruct (final_as_exec ps sched) as [full Efull].
  pose proof (invariant_all_schedules (step all_fixed) site (BInv f) (step_preserves_BInv all_fixed f) full _ (BInv_init f ps Hna Hf)) as HB.
  destruct (delta_bounded all_fixed f ps full Hna Hf) as (D1 & D2 & _ & D4).
  rewrite <- Efull in HB, D1, D2, D4.
  destruct (final_inv (RInv ps) ps sched (step_preserves_RInv ps) (RInv_init ps)) as (_ & R2 & _).
  rewrite slo_inc_sum in R2. set (c := final ps sched) in *.
  assert (Hadd : added (fst c) <= inc_sum ps) by lia.
  assert (Hghost : forall d, In d (G (fst c)) -> d <= inc_sum ps).
  { intros d [<-|Hd]; [lia|]. destruct (D1 d) as [w Hw]; [apply in_app_or in Hd; apply in_or_app; destruct Hd; [left|right; apply in_or_app; left]; assumption|].
    pose proof (D2 d w Hw) as E. assert (w <= fold_right N.add 0 (map snd (flog (fst c)))) by (apply in_le_sum; apply in_map_iff; exists (d, w); auto).
    assert (w < two64) by lia. rewrite E. rewrite N.mod_small by assumption. lia. }
  apply forallb_forall. intros d [<-|Hd]; apply N.leb_le; [|apply Hghost; apply deltas_in_ghost; exact Hd].
  (* the final flush *)
  destruct HB as (A & B & _ & _ & (lf & Ef & Hfl) & _ & _).
  destruct (desc_m2_le_m1 (fst c) B) as [M21 M1].
  assert (Hl : exists m, last (cnt (fst c)) = m mod two64 /\ m <= added (fst c)).
  { unfold fl_ok in Hfl. destruct (pcl lf); try (destruct Hfl as [Hl _]; exists (m1 (fst c)); split; [exact Hl|exact M1]).
    destruct Hfl as (_ & Hl & _). exists (m2 (fst c)). split; [exact Hl|lia]. }
  destruct Hl as (m & Hl & Hm). rewrite A, Hl. rewrite !N.mod_small by lia.
  rewrite sub64_exact by lia. lia.
Qed.

(* increment-free programs: on the completed runs the check does not excuse *)
Definition incfree (ps : list (list uop)) : bool :=
  forallb (fun o => match o with UInc _ => false | _ => true end) (all_ops ps).

Theorem sched_bound_abs ps sched :
  ps <> [] -> MV.C10.Exec.one_flusher ps = true -> incfree ps = true -> abs_max ps < two64 ->
  known_class (CSched ps sched) = None -> all_done (step all_fixed) (final ps sched) = true ->
  forallb (fun d => d <=? abs_max ps)
          (sub64 (cur (cnt (fst (final ps sched)))) (last (cnt (fst (final ps sched))))
           :: deltas_of (map (fun l => rev (results l)) (snd (final ps sched)))) = true.
Proof.
  intros Hne Hof Hif Hb Hk Hd. destruct (one_flusher_conv ps Hne Hof) as [f Hf].
  assert (Hp : Forall (abs_prog (abs_max ps)) ps).
  { apply Forall_forall. intros p Hp. apply Forall_forall. intros o Ho.
    assert (Hall : In o (all_ops ps)) by (apply in_concat; exists p; auto).
    unfold incfree in Hif. rewrite forallb_forall in Hif. specialize (Hif o Hall).
    destruct o; cbn in *; try exact I; [discriminate|apply abs_max_ge; exact Hall]. }
  destruct (absolute_no_wrap_outside_class (abs_max ps) f ps sched Hb Hp Hf Hk) as (full & Hl & Hconc).
  assert (Ec : final ps sched = fst (exc (init_config ps) full)) by (unfold final; rewrite Hl; reflexivity).
  rewrite <- Ec in Hconc. cbn zeta in Hconc. destruct (Hconc Hd) as (C1 & C2 & C3).
  set (c := final ps sched) in *.
  assert (Hghost : forall d, In d (G (fst c)) -> d <= abs_max ps).
  { intros d [<-|Hd']; [lia|]. rewrite Forall_forall in C1. apply C1.
    apply in_app_or in Hd'. apply in_or_app. destruct Hd'; [left|right; apply in_or_app; left]; assumption. }
  apply forallb_forall. intros d [<-|Hd']; apply N.leb_le; [|apply Hghost; apply deltas_in_ghost; exact Hd'].
  rewrite sub64_exact by lia. lia.
Qed.
