(* C10 — delta bound: ONE flushing thread, increment-only counters, every schedule.  Every delta a
   counter flush computes equals (mod 2^64) the amount by which [added] grew between the two most
   recent `current.load`s (1008) of the flusher; these amounts are the consecutive differences of
   the (non-decreasing) values of [added] at the loads. *)
From Coq Require Import List NArith ZArith Bool Lia.
Import ListNotations.
Require Import MV.Common.Interleave MV.C10.Model MV.C10.ProofsConc.
Open Scope N_scope.

Notation lupd := (@MV.Common.Interleave.upd _).
Ltac Zify.zify_post_hook ::= Z.to_euclidean_division_equations.

Definition flushop (o : uop) : Prop := match o with FCnt | FState => True | _ => False end.
Definition noflush_pc (p : pc) : Prop := match p with PF1 _ | PF2 _ _ | PF3 _ _ => False | _ => True end.
Definition noflush_local (l : local) : Prop := Forall (fun o => ~ flushop o) (todo l) /\ noflush_pc (pcl l).
Definition default_pc (p : pc) : Prop := match p with PF2 _ _ | PF3 _ _ => False | _ => True end.

Fixpoint diffs (m : list N) : list N := match m with [] => [] | a :: r => (a - hd 0 r) :: diffs r end.
Fixpoint desc (m : list N) : Prop :=
  match m with
  | a :: r => match r with b :: _ => b <= a | [] => True end /\ desc r
  | [] => True
  end.
Definition m1 (s : shared) : N := hd 0 (marks s).
Definition m2 (s : shared) : N := hd 0 (tl (marks s)).

Lemma window_eq m : window m = hd 0 m - hd 0 (tl m).
Proof. destruct m; reflexivity. Qed.

Definition fl_ok (s : shared) (l : local) : Prop :=
  match pcl l with
  | PF2 _ sn => sn = m1 s mod two64 /\ last (cnt s) = m2 s mod two64 /\ marks s <> [] /\
                map snd (flog s) = diffs (tl (marks s))
  | PF3 _ d => last (cnt s) = m1 s mod two64 /\ d = window (marks s) mod two64 /\ marks s <> [] /\
               map snd (flog s) = diffs (tl (marks s))
  | _ => last (cnt s) = m1 s mod two64 /\ map snd (flog s) = diffs (marks s)
  end.

Definition BInv (f : nat) (c : config) : Prop :=
  cur (cnt (fst c)) = added (fst c) mod two64 /\
  desc (added (fst c) :: marks (fst c)) /\
  Forall (fun p => fst p = snd p mod two64) (flog (fst c)) /\
  (forall d, In d (sent (fst c) ++ rawd (fst c) ++ lost (fst c)) -> In d (map fst (flog (fst c)))) /\
  (exists lf, nth_error (snd c) f = Some lf /\ fl_ok (fst c) lf) /\
  (forall u l, nth_error (snd c) u = Some l -> u <> f -> noflush_local l) /\
  Forall noabs_local (snd c).

Lemma fl_ok_default s l : default_pc (pcl l) ->
  (fl_ok s l <-> last (cnt s) = m1 s mod two64 /\ map snd (flog s) = diffs (marks s)).
Proof. unfold fl_ok. destruct (pcl l); cbn; intros H; try contradiction; reflexivity. Qed.

Lemma fl_ok_ext s s' l : last (cnt s') = last (cnt s) -> marks s' = marks s -> flog s' = flog s ->
  fl_ok s l -> fl_ok s' l.
Proof. unfold fl_ok, m1, m2. intros -> -> ->. auto. Qed.

Lemma desc_grow a a' m : a <= a' -> desc (a :: m) -> desc (a' :: m).
Proof. cbn. destruct m; intros H [A B]; split; auto. lia. Qed.

(* a step that touches neither last, marks, flog nor the delta lists, from and to a pc outside the
   1009/1010 window *)
Lemma frame_step f s s' ls t l l' :
  BInv f (s, ls) -> nth_error ls t = Some l ->
  last (cnt s') = last (cnt s) -> marks s' = marks s -> flog s' = flog s ->
  sent s' = sent s -> rawd s' = rawd s -> lost s' = lost s ->
  cur (cnt s') = added s' mod two64 -> added s <= added s' ->
  default_pc (pcl l) -> default_pc (pcl l') ->
  (noflush_local l -> noflush_local l') -> noabs_local l' ->
  BInv f (s', lupd ls t l').
Proof.
  intros (A & B & C & D & (lf & Ef & Hf) & F & G) Hnth El Em Eg Es Er Elo Hc Ha Hd Hd' Hnf Hna.
  unfold BInv. cbn [fst snd] in *. rewrite Em, Eg, Es, Er, Elo.
  split; [exact Hc|]. split; [eapply desc_grow; eauto|]. split; [exact C|]. split; [exact D|].
  split; [|split].
  - destruct (Nat.eq_dec t f) as [->|Hne].
    + exists l'. split; [eapply nth_error_upd_same; eauto|].
      rewrite Hnth in Ef. inversion Ef; subst lf.
      apply (fl_ok_default s' l' Hd'). apply (fl_ok_default s l Hd) in Hf.
      unfold m1 in *. rewrite El, Em, Eg. exact Hf.
    + exists lf. split; [rewrite nth_error_upd_other by exact Hne; exact Ef|].
      eapply fl_ok_ext; eauto.
  - intros u x Hu Hne. apply nth_error_upd_cases in Hu. destruct Hu as [[-> ->]|[Hne' Hu]].
    + apply Hnf. eapply F; eauto.
    + eapply F; eauto.
  - apply Forall_upd; assumption.
Qed.

Lemma enter_default td rs : default_pc (pcl (enter td rs)).
Proof. destruct td as [|[] r]; exact I. Qed.
Lemma enter_noflush td rs : Forall (fun o => ~ flushop o) td -> noflush_local (enter td rs).
Proof.
  intros H. destruct td as [|o r]; [split; [constructor|exact I]|].
  inversion H as [|? ? Ho Hr]; subst. destruct o; cbn in Ho; try (exfalso; apply Ho; exact I); split; cbn; auto.
Qed.

Lemma sub64_marks a b : b <= a -> sub64 (a mod two64) (b mod two64) = (a - b) mod two64.
Proof. intros H. unfold sub64, two64. lia. Qed.

Lemma desc_m2_le_m1 s : desc (added s :: marks s) -> m2 s <= m1 s /\ m1 s <= added s.
Proof.
  unfold m1, m2. destruct (marks s) as [|a [|b r]]; cbn; intros H; lia.
Qed.

Ltac side Htd Hent Hnfe A :=
  first [ reflexivity | exact I | apply enter_default | exact A | (cbn; exact A) | (cbn; lia) | apply Hent | apply Hnfe
        | (intros [?X _]; split; [exact X | exact I]) | (split; [exact Htd | exact I])
        | (cbn; unfold add64; rewrite A; unfold two64; lia) ].

Lemma step_preserves_BInv fx f : step_preserves (step fx) (BInv f).
Proof.
  intros s ls t l s' l' HB Hnth Hstep.
  pose proof HB as (A & B & C & D & (lf & Ef & Hf) & F & G). cbn [fst snd] in *.
  pose proof (Forall_nth_error _ _ _ _ G Hnth) as [Htd Hpc].
  unfold step in Hstep. destruct l as [p td rs]. cbn [pcl todo results] in *.
  assert (Hent : forall rs', noabs_local (enter td rs')) by (intros; apply enter_noabs; exact Htd).
  assert (Hnfe : forall rs', noflush_local {| pcl := p; todo := td; results := rs |} -> noflush_local (enter td rs'))
    by (intros rs' [X _]; apply enter_noflush; exact X).
  destruct p; cbn in Hpc; try contradiction; try discriminate; cbn in Hstep.
  - (* Start *) inversion Hstep; subst; clear Hstep. eapply frame_step; [exact HB|exact Hnth|..]; side Htd Hent Hnfe A.
  - (* PA1 *) inversion Hstep; subst; clear Hstep. eapply frame_step; [exact HB|exact Hnth|..]; side Htd Hent Hnfe A.
  - (* PA2 *) inversion Hstep; subst; clear Hstep. eapply frame_step; [exact HB|exact Hnth|..]; side Htd Hent Hnfe A.
  - (* PA3 *) inversion Hstep; subst; clear Hstep. eapply frame_step; [exact HB|exact Hnth|..]; side Htd Hent Hnfe A.
  - (* PG1 *) inversion Hstep; subst; clear Hstep. eapply frame_step; [exact HB|exact Hnth|..]; side Htd Hent Hnfe A.
  - (* PG2 *) inversion Hstep; subst; clear Hstep. eapply frame_step; [exact HB|exact Hnth|..]; side Htd Hent Hnfe A.
  - (* PF1 *) inversion Hstep; subst; clear Hstep.
    destruct (Nat.eq_dec t f) as [->|Hne]; [|exfalso; destruct (F _ _ Hnth Hne) as [_ X]; exact X].
    rewrite Hnth in Ef. inversion Ef; subst lf. unfold fl_ok in Hf. cbn [pcl] in Hf. destruct Hf as [Hl Hg].
    unfold BInv. cbn [fst snd cnt added marks flog sent rawd lost].
    split; [exact A|]. split; [cbn; split; [lia|exact B]|]. split; [exact C|]. split; [exact D|]. split; [|split].
    + eexists. split; [eapply nth_error_upd_same; eauto|]. unfold fl_ok, m1, m2. cbn.
      split; [exact A|]. split; [exact Hl|]. split; [discriminate|exact Hg].
    + intros u x Hu Hne. apply nth_error_upd_cases in Hu. destruct Hu as [[-> ->]|[Hne' Hu]]; [congruence|eapply F; eauto].
    + apply Forall_upd; [exact G|split; [exact Htd|exact I]].
  - (* PF2 *) inversion Hstep; subst; clear Hstep.
    destruct (Nat.eq_dec t f) as [->|Hne]; [|exfalso; destruct (F _ _ Hnth Hne) as [_ X]; exact X].
    rewrite Hnth in Ef. inversion Ef; subst lf. unfold fl_ok in Hf. cbn [pcl] in Hf. destruct Hf as (Hs & Hl & Hm & Hg).
    destruct (desc_m2_le_m1 s B) as [Hle _].
    unfold BInv. cbn [fst snd cnt added marks flog sent rawd lost set_cnt cur f2].
    split; [exact A|]. split; [exact B|]. split; [exact C|]. split; [exact D|]. split; [|split].
    + eexists. split; [eapply nth_error_upd_same; eauto|]. unfold fl_ok, m1, m2. cbn.
      split; [exact Hs|]. split; [|split; [exact Hm|exact Hg]].
      rewrite Hs, Hl, window_eq. apply sub64_marks. exact Hle.
    + intros u x Hu Hne. apply nth_error_upd_cases in Hu. destruct Hu as [[-> ->]|[Hne' Hu]]; [congruence|eapply F; eauto].
    + apply Forall_upd; [exact G|split; [exact Htd|exact I]].
  - (* PF3 *)
    destruct (Nat.eq_dec t f) as [->|Hne]; [|exfalso; destruct (F _ _ Hnth Hne) as [_ X]; exact X].
    rewrite Hnth in Ef. inversion Ef; subst lf. unfold fl_ok in Hf. cbn [pcl] in Hf. destruct Hf as (Hl & Hd & Hm & Hg).
    assert (Hdiffs : window (marks s) :: diffs (tl (marks s)) = diffs (marks s))
      by (destruct (marks s); [congruence|reflexivity]).
    destruct st.
    + destruct (decide fx (idle s) d (upd (cnt s))) as [i' o] eqn:Ed. inversion Hstep; subst s' l'; clear Hstep.
      unfold BInv. cbn [fst snd cnt added marks flog sent rawd lost cur f3].
      split; [exact A|]. split; [exact B|]. split; [constructor; [exact Hd|exact C]|]. split; [|split; [|split]].
      * intros x Hx. cbn [map fst]. destruct o as [y|].
        -- assert (y = d) by (unfold decide in Ed; destruct (_ && _), (idle s); inversion Ed; auto). subst y.
           cbn [app] in Hx. destruct Hx as [->|Hx]; [left; reflexivity|right; apply D; exact Hx].
        -- apply in_app_or in Hx. destruct Hx as [Hx|Hx]; [right; apply D; apply in_or_app; auto|].
           apply in_app_or in Hx. destruct Hx as [Hx|Hx]; [right; apply D; apply in_or_app; right; apply in_or_app; auto|].
           destruct Hx as [->|Hx]; [left; reflexivity|right; apply D; apply in_or_app; right; apply in_or_app; auto].
      * eexists. split; [eapply nth_error_upd_same; eauto|]. unfold fl_ok, m1. cbn.
        split; [exact Hl|]. rewrite Hg. exact Hdiffs.
      * intros u x Hu Hne. apply nth_error_upd_cases in Hu. destruct Hu as [[-> ->]|[Hne' Hu]]; [congruence|eapply F; eauto].
      * apply Forall_upd; [exact G|split; [exact Htd|exact I]].
    + inversion Hstep; subst s' l'; clear Hstep.
      unfold BInv. cbn [fst snd cnt added marks flog sent rawd lost cur f3].
      split; [exact A|]. split; [exact B|]. split; [constructor; [exact Hd|exact C]|]. split; [|split; [|split]].
      * intros x Hx. cbn [map fst].
        apply in_app_or in Hx. destruct Hx as [Hx|Hx]; [right; apply D; apply in_or_app; auto|].
        cbn [app] in Hx. destruct Hx as [->|Hx]; [left; reflexivity|right; apply D; apply in_or_app; auto].
      * eexists. split; [eapply nth_error_upd_same; eauto|].
        apply fl_ok_default; [apply enter_default|]. unfold m1. cbn. split; [exact Hl|]. rewrite Hg. exact Hdiffs.
      * intros u x Hu Hne. apply nth_error_upd_cases in Hu. destruct Hu as [[-> ->]|[Hne' Hu]]; [congruence|eapply F; eauto].
      * apply Forall_upd; [exact G|apply Hent].
  - (* PH1 *) inversion Hstep; subst; clear Hstep. eapply frame_step; [exact HB|exact Hnth|..]; side Htd Hent Hnfe A.
  - (* PH2 *) inversion Hstep; subst; clear Hstep. eapply frame_step; [exact HB|exact Hnth|..]; side Htd Hent Hnfe A.
Qed.

Definition noflush_prog (p : list uop) : Prop := Forall (fun o => ~ flushop o) p.
(* thread f is the only one whose program contains counter flushes *)
Definition one_flusher (f : nat) (ps : list (list uop)) : Prop :=
  (f < length ps)%nat /\ forall u p, nth_error ps u = Some p -> u <> f -> noflush_prog p.

Lemma BInv_init f ps : Forall (Forall noabs_op) ps -> one_flusher f ps -> BInv f (init_config ps).
Proof.
  intros Hna [Hlt Hof]. unfold BInv, init_config. cbn [fst snd init_shared cnt added marks flog sent rawd lost cell0 cur app].
  split; [reflexivity|]. split; [cbn; auto|]. split; [constructor|]. split; [intros d []|]. split; [|split].
  - destruct (nth_error ps f) as [p|] eqn:E; [|apply nth_error_None in E; lia].
    exists (init_local p). split; [rewrite nth_error_map, E; reflexivity|]. unfold fl_ok. cbn. split; reflexivity.
  - intros u l Hu Hne. rewrite nth_error_map in Hu. destruct (nth_error ps u) as [p|] eqn:E; [|discriminate].
    inversion Hu; subst. split; [exact (Hof u p E Hne)|exact I].
  - clear Hlt Hof. induction Hna; cbn; constructor; auto. split; [assumption|exact I].
Qed.

(* sum of the windows = the value of [added] at the most recent completed load *)
Lemma diffs_sum m : desc m -> fold_right N.add 0 (diffs m) = hd 0 m.
Proof.
  induction m as [|a r IH]; [reflexivity|]. cbn [diffs fold_right hd desc]. intros [H1 H2].
  rewrite IH by exact H2. destruct r; cbn in *; lia.
Qed.

Theorem delta_bounded fx f ps sched :
  Forall (Forall noabs_op) ps -> one_flusher f ps ->
  let c := fst (exec (step fx) site (init_config ps) sched) in
  (* every delta ever sent, returned or dropped is logged with its window *)
  (forall d, In d (sent (fst c) ++ rawd (fst c) ++ lost (fst c)) -> exists w, In (d, w) (flog (fst c))) /\
  (* a logged delta is its window mod 2^64 *)
  (forall d w, In (d, w) (flog (fst c)) -> d = w mod two64) /\
  (* the windows are the consecutive differences of the values of [added] at the flusher's completed loads,
     which never decrease and never exceed [added] *)
  (exists done_marks, (done_marks = marks (fst c) \/ done_marks = tl (marks (fst c))) /\
                      map snd (flog (fst c)) = diffs done_marks /\ desc (added (fst c) :: marks (fst c))) /\
  (* hence no window, and all windows together, exceed what was added *)
  fold_right N.add 0 (map snd (flog (fst c))) <= added (fst c).
Proof.
  intros Hna Hof c.
  pose proof (invariant_all_schedules (step fx) site (BInv f) (step_preserves_BInv fx f) sched _ (BInv_init f ps Hna Hof)) as HI.
  fold c in HI. destruct HI as (A & B & C & D & (lf & Ef & Hf) & F & G).
  assert (Hmarks : exists dm, (dm = marks (fst c) \/ dm = tl (marks (fst c))) /\ map snd (flog (fst c)) = diffs dm).
  { unfold fl_ok in Hf. destruct (pcl lf); try (destruct Hf as [_ Hg]; eexists; split; [left; reflexivity|exact Hg]).
    - destruct Hf as (_ & _ & _ & Hg). eexists; split; [right; reflexivity|exact Hg].
    - destruct Hf as (_ & _ & _ & Hg). eexists; split; [right; reflexivity|exact Hg]. }
  split; [|split; [|split]].
  - intros d Hd. apply D in Hd. apply in_map_iff in Hd. destruct Hd as ([d' w] & E & Hin). cbn in E. subst d'. eauto.
  - intros d w Hin. rewrite Forall_forall in C. apply (C (d, w) Hin).
  - destruct Hmarks as (dm & Hdm & Hg). exists dm. auto.
  - destruct Hmarks as (dm & Hdm & Hg). rewrite Hg.
    assert (Hdesc : desc dm /\ hd 0 dm <= added (fst c)).
    { cbn [desc] in B. destruct B as [B1 B2]. destruct Hdm as [->| ->].
      - split; [exact B2|]. destruct (marks (fst c)); cbn in *; lia.
      - destruct (marks (fst c)) as [|a [|b r]]; cbn in *; (split; [tauto|lia]). }
    rewrite diffs_sum by tauto. tauto.
Qed.
