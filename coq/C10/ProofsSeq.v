(* C10 — sequential theorems about the per-key machines (idle-once, gauges, histograms, timestamp)
   and the vm_compute witnesses of the defects. *)
From Coq Require Import List NArith ZArith Bool Lia Permutation.
Import ListNotations.
Require Import MV.Common.Interleave MV.C10.Model MV.C10.Spec.
Open Scope N_scope.

Ltac Zify.zify_post_hook ::= Z.to_euclidean_division_equations.

Lemma sub64_self a : sub64 a a = 0.
Proof. unfold sub64, two64. lia. Qed.

(* ------------------------------------------------------------------ idle-once, sequential *)
Definition cq (st : cst) : Prop :=
  c_reg st = true /\ upd (c_cell st) = 0 /\ last (c_cell st) = cur (c_cell st).

Lemma decide_active fx i d u : u <> 0 -> decide fx i d u = (false, Some d).
Proof. intros H. unfold decide. apply N.eqb_neq in H. rewrite H. reflexivity. Qed.
Lemma decide_quiet fx i : decide fx i 0 0 = (true, if i then None else Some 0).
Proof. unfold decide. cbn. destruct (fix_idle fx), i; reflexivity. Qed.

Lemma flush_any fx st : c_reg st = true ->
  exists st' o, cstep fx st CFlush = (st', [o]) /\ cq st' /\
    (upd (c_cell st) <> 0 -> c_idle st' = false /\ exists d, o = Some (d, upd (c_cell st))).
Proof.
  intros Hr. unfold cstep. rewrite Hr. unfold seq_cflush. cbn -[decide sub64 two64].
  destruct (decide fx (c_idle st) (sub64 (cur (c_cell st)) (last (c_cell st))) (upd (c_cell st))) as [i' o] eqn:Ed.
  eexists. eexists. split; [reflexivity|]. split; [split; [reflexivity|split; reflexivity]|].
  intros Hu. rewrite decide_active in Ed by exact Hu. inversion Ed; subst. cbn. split; [reflexivity|eauto].
Qed.

Lemma flush_quiet fx st : cq st ->
  exists st', cstep fx st CFlush = (st', [if c_idle st then None else Some (0, 0)]) /\ cq st' /\ c_idle st' = true.
Proof.
  intros (Hr & Hu & Hl). unfold cstep. rewrite Hr. unfold seq_cflush. cbn -[decide sub64 two64].
  rewrite Hl, sub64_self, Hu, decide_quiet.
  eexists. split; [destruct (c_idle st); reflexivity|]. split; [split; [reflexivity|split; reflexivity]|].
  destruct (c_idle st); reflexivity.
Qed.

Lemma flush_idle_forever fx n : forall st, cq st -> c_idle st = true ->
  crun fx st (repeat CFlush n) = repeat None n.
Proof.
  induction n as [|n IH]; intros st Hq Hi; [reflexivity|].
  cbn [repeat crun]. destruct (flush_quiet fx st Hq) as (st' & E & Hq' & Hi'). rewrite E, Hi. cbn [app].
  f_equal. apply IH; assumption.
Qed.

Definition is_update (e : cev) : Prop := match e with CInc _ | CAbs _ => True | _ => False end.

Lemma update_active fx st e : is_update e ->
  exists st', cstep fx st e = (st', []) /\ c_reg st' = true /\ upd (c_cell st') = upd (c_cell st) + 1.
Proof.
  destruct e; cbn; try contradiction; intros _.
  - eexists; split; [reflexivity|]. split; reflexivity.
  - eexists; split; [reflexivity|]. split; [reflexivity|]. unfold seq_abs, b1. cbn. destruct (is_abs (c_cell st)); reflexivity.
Qed.

(* after its last update a counter is sent with its delta, then once as zero, then not at all *)
Theorem idle_once_seq fx st e n : is_update e ->
  exists d u, u <> 0 /\
    crun fx st (e :: CFlush :: CFlush :: repeat CFlush n) = Some (d, u) :: Some (0, 0) :: repeat None n.
Proof.
  intros He. destruct (update_active fx st e He) as (st1 & E1 & Hr1 & Hu1).
  destruct (flush_any fx st1 Hr1) as (st2 & o & E2 & Hq2 & Hact).
  assert (Hne : upd (c_cell st1) <> 0) by lia.
  destruct (Hact Hne) as (Hi2 & d & ->).
  destruct (flush_quiet fx st2 Hq2) as (st3 & E3 & Hq3 & Hi3). rewrite Hi2 in E3.
  exists d, (upd (c_cell st1)). split; [exact Hne|].
  cbn [crun]. rewrite E1. cbn [app]. rewrite E2. cbn [app]. rewrite E3. cbn [app].
  f_equal. f_equal. apply flush_idle_forever; assumption.
Qed.

(* a key that is registered and never updated is sent as zero once *)
Theorem idle_once_registered_only fx n :
  crun fx cst0 (CReg :: CFlush :: repeat CFlush n) = Some (0, 0) :: repeat None n.
Proof.
  set (st1 := {| c_cell := cell0; c_idle := false; c_reg := true |}).
  change (crun fx cst0 (CReg :: CFlush :: repeat CFlush n)) with (crun fx st1 (CFlush :: repeat CFlush n)).
  assert (Hq : cq st1) by (repeat split).
  destruct (flush_quiet fx st1 Hq) as (st' & E & Hq' & Hi'). cbn [crun]. rewrite E. cbn [app c_idle st1].
  f_equal. apply flush_idle_forever; assumption.
Qed.

(* ------------------------------------------------------------------ gauges, sequential *)
Lemma gauge_ok_on_model_gen es : forall st,
  gref_walk (g_reg st) (gv (g_cell st)) es (map (option_map fst) (grun st es)) = true.
Proof.
  induction es as [|e r IH]; intros st; [reflexivity|].
  destruct e; cbn [grun gstep gref_walk].
  - cbn [app]. apply (IH {| g_cell := g_cell st; g_reg := true |}).
  - cbn [app]. apply (IH {| g_cell := seq_gwrite w (g_cell st); g_reg := true |}).
  - destruct (g_reg st) eqn:Er.
    + unfold seq_gflush. cbn [g4]. cbn [app map option_map fst]. rewrite Z.eqb_refl. cbn [andb].
      apply (IH {| g_cell := {| gv := gv (g_cell st); gu := 0 |}; g_reg := true |}).
    + cbn [app map option_map negb andb]. specialize (IH st). rewrite Er in IH. exact IH.
Qed.

Theorem gauge_ok_on_model es : gauge_ok es (map (option_map fst) (grun gst0 es)) = true.
Proof. exact (gauge_ok_on_model_gen es gst0). Qed.

(* what gauge_ok means: the k-th flush of a registered gauge reports the fold of all writes before it *)
Fixpoint gwrites_before (es : list gev) : list (list gwrite) :=   (* per flush, writes so far, oldest first *)
  match es with
  | [] => []
  | GFlush :: r => [] :: map (fun l => l) (gwrites_before r)
  | GWrite w :: r => map (cons w) (gwrites_before r)
  | GReg :: r => gwrites_before r
  end.

(* ------------------------------------------------------------------ histograms, sequential bag *)
Lemma concat_chunks fuel : forall l, (length l <= fuel)%nat -> concat (chunks fuel l) = l.
Proof.
  induction fuel as [|f IH]; intros l H.
  - destruct l; [reflexivity|cbn in H; lia].
  - destruct l as [|x r]; [reflexivity|]. cbn [chunks concat].
    rewrite IH.
    + apply firstn_skipn.
    + rewrite skipn_length. unfold block_size. cbn [length] in *. lia.
Qed.

Lemma perm_concat_rev {A} (L : list (list A)) : Permutation (concat (rev L)) (concat L).
Proof.
  induction L as [|x r IH]; [constructor|].
  cbn [rev concat]. rewrite concat_app. cbn [concat]. rewrite app_nil_r.
  eapply Permutation_trans; [apply Permutation_app_comm|]. apply Permutation_app_head. exact IH.
Qed.

Lemma blocks_perm samp l : Permutation (concat (blocks_of samp l)) l.
Proof.
  unfold blocks_of. destruct l as [|x r]; [constructor|].
  destruct samp.
  - cbn [concat]. rewrite app_nil_r. apply Permutation_refl.
  - eapply Permutation_trans; [apply perm_concat_rev|]. rewrite concat_chunks; [apply Permutation_refl|lia].
Qed.

Definition recorded (es : list hev) : list Z := flat_map (fun e => match e with HRec z => [z] | _ => [] end) es.

(* every recorded value is handed to the writer in exactly one flush: the values of all flushes
   together with the values still in the bag are a permutation of the values recorded *)
Lemma hist_once_gen samp es : forall st,
  exists bag', Permutation (concat (concat (hrun samp st es)) ++ bag') (h_bag st ++ recorded es).
Proof.
  induction es as [|e r IH]; intros st.
  - exists (h_bag st). cbn. rewrite app_nil_r. apply Permutation_refl.
  - destruct e; cbn [hrun hstep recorded flat_map app].
    + destruct (IH {| h_bag := h_bag st; h_reg := true |}) as [b Hb]. exists b. exact Hb.
    + destruct (IH {| h_bag := h_bag st ++ [z]; h_reg := true |}) as [b Hb]. exists b.
      cbn [h_bag] in Hb. rewrite <- app_assoc in Hb. exact Hb.
    + destruct (IH {| h_bag := []; h_reg := h_reg st |}) as [b Hb]. exists b.
      cbn [h_bag app] in Hb. cbn [concat]. rewrite concat_app, <- app_assoc.
      apply Permutation_app; [apply blocks_perm|exact Hb].
Qed.

Theorem histogram_each_value_once samp es :
  exists bag', Permutation (concat (concat (hrun samp hst0 es)) ++ bag') (recorded es).
Proof. exact (hist_once_gen samp es hst0). Qed.

(* after a final flush nothing is left in the bag *)
Lemma hrun_bag_after_flush samp es : forall st,
  Permutation (concat (concat (hrun samp st (es ++ [HFlush])))) (h_bag st ++ recorded es).
Proof.
  induction es as [|e r IH]; intros st.
  - cbn. rewrite !app_nil_r. apply blocks_perm.
  - destruct e; cbn [hrun hstep recorded flat_map app]; rewrite <- ?app_comm_cons.
    + apply (IH {| h_bag := h_bag st; h_reg := true |}).
    + specialize (IH {| h_bag := h_bag st ++ [z]; h_reg := true |}). cbn [h_bag] in IH.
      rewrite <- app_assoc in IH. exact IH.
    + specialize (IH {| h_bag := []; h_reg := h_reg st |}). cbn [h_bag app] in IH.
      cbn [concat]. rewrite concat_app. apply Permutation_app; [apply blocks_perm|exact IH].
Qed.

(* ------------------------------------------------------------------ timestamp *)
Definition documented_ts (aggressive : bool) (now : N) : option N := if aggressive then Some now else None.

Lemma agg_timestamp_fixed aggressive now : agg_timestamp all_fixed aggressive now = documented_ts aggressive now.
Proof. destruct aggressive; reflexivity. Qed.

Theorem timestamp_iff_documented c i now x :
  In x (flush_calls all_fixed c i now) ->
  match x with
  | WC _ _ _ ts | WG _ _ _ ts => ts = documented_ts (o_aggr c) now
  | WH _ _ => True
  end.
Proof.
  unfold flush_calls. rewrite agg_timestamp_fixed. intros H.
  apply in_app_or in H. destruct H as [H|H]; [|apply in_app_or in H; destruct H as [H|H]].
  - apply in_flat_map in H. destruct H as (k & _ & H).
    destruct (nth i _ None) as [[d u]|]; [|contradiction]. destruct H as [<-|[]]. reflexivity.
  - apply in_flat_map in H. destruct H as (k & _ & H).
    destruct (nth i _ None) as [[z u]|]; [|contradiction]. destruct H as [<-|[]]. reflexivity.
  - apply in_flat_map in H. destruct H as (k & _ & H). apply in_map_iff in H. destruct H as (b & <- & _). exact I.
Qed.

Lemma timestamp_refuted_before_fix :
  agg_timestamp as_found false 7 = Some 7 /\ agg_timestamp as_found true 7 = None.
Proof. split; reflexivity. Qed.

(* ------------------------------------------------------------------ absolutes: witnesses *)
(* as found: absolute(15), flush, absolute(5), flush sends 2^64 - 10 *)
Lemma absolute_wrap_refuted_before_fix :
  crun as_found cst0 [CAbs 15; CFlush; CAbs 5; CFlush] = [Some (0, 1); Some (18446744073709551606, 1)].
Proof. vm_compute. reflexivity. Qed.
Lemma absolute_wrap_fixed :
  crun all_fixed cst0 [CAbs 15; CFlush; CAbs 5; CFlush] = [Some (0, 1); Some (0, 1)].
Proof. vm_compute. reflexivity. Qed.

(* ------------------------------------------------------------------ absolutes, sequential: no wrap, telescoping *)
(* raw deltas of a history of absolutes and flushes on one cell, and the final cell *)
Fixpoint araw (fx : fixes) (c : cell) (es : list cev) : list N * cell :=
  match es with
  | [] => ([], c)
  | CAbs v :: r => araw fx (seq_abs fx v c) r
  | CFlush :: r => let '(c', (d, _)) := seq_cflush c in let '(ds, cf) := araw fx c' r in (d :: ds, cf)
  | _ :: r => araw fx c r
  end.
Fixpoint sln (l : list N) : N := match l with [] => 0 | x :: r => x + sln r end.
Definition abs_only (es : list cev) : Prop :=
  Forall (fun e => match e with CAbs v => v < two64 | CFlush | CReg => True | CInc _ => False end) es.
Definition runmax (m : N) (es : list cev) : N :=
  fold_left (fun a e => match e with CAbs v => N.max a v | _ => a end) es m.

Lemma sub64_exact a b : b <= a -> a < two64 -> sub64 a b = a - b.
Proof. intros H1 H2. unfold sub64, two64 in *. lia. Qed.

Lemma runmax_ge es : forall m m', m <= m' -> m <= runmax m' es.
Proof.
  induction es as [|e r IH]; intros m m' H; cbn; [exact H|].
  destruct e; try (apply IH; exact H). apply IH. lia.
Qed.

(* once in absolute mode (after the first, re-basing absolute): every delta is exact (no wrap),
   `current` is the running maximum, and the deltas plus what is still unflushed add up to
   running maximum - base *)
Theorem absolute_conservation_seq es : forall c,
  abs_only es -> is_abs c = true -> last c <= cur c -> cur c < two64 ->
  cur (snd (araw all_fixed c es)) = runmax (cur c) es /\
  last (snd (araw all_fixed c es)) <= cur (snd (araw all_fixed c es)) /\
  cur (snd (araw all_fixed c es)) < two64 /\
  sln (fst (araw all_fixed c es)) + (cur (snd (araw all_fixed c es)) - last (snd (araw all_fixed c es)))
    = runmax (cur c) es - last c.
Proof.
  induction es as [|e r IH]; intros c Ha Hi Hl Hc.
  - cbn. repeat split; auto.
  - inversion Ha as [|? ? He Hr]; subst. destruct e; cbn [araw runmax fold_left]; try contradiction.
    + apply IH; assumption.
    + unfold seq_abs, b1. rewrite Hi. cbn -[two64 N.max].
      specialize (IH {| is_abs := true; last := last c; cur := N.max (cur c) v; upd := upd c + 1 |} Hr eq_refl).
      cbn -[two64 N.max] in IH. apply IH; lia.
    + unfold seq_cflush. cbn -[two64 sub64 araw].
      specialize (IH {| is_abs := is_abs c; last := cur c; cur := cur c; upd := 0 |} Hr Hi).
      cbn -[two64 sub64 araw] in IH. specialize (IH (N.le_refl _) Hc).
      destruct (araw all_fixed {| is_abs := is_abs c; last := cur c; cur := cur c; upd := 0 |} r) as [ds cf].
      cbn [fst snd] in *. destruct IH as (A & B & C & D). repeat split; auto.
      cbn [sln]. rewrite sub64_exact by assumption.
      pose proof (runmax_ge r (cur c) (cur c) (N.le_refl _)). fold (runmax (cur c) r) in *. lia.
Qed.

(* the first absolute re-bases: afterwards last = current = v, in absolute mode *)
Lemma first_absolute_rebases fx v c : is_abs c = false ->
  is_abs (seq_abs fx v c) = true /\ last (seq_abs fx v c) = v /\ cur (seq_abs fx v c) = v.
Proof. intros H. unfold seq_abs, b1, b3. rewrite H. cbn. rewrite andb_false_r. repeat split. Qed.
