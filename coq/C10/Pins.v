From Coq Require Import List NArith ZArith Bool Permutation.
Import ListNotations.
Require Import MV.Common.Interleave MV.C10.Model MV.C10.Spec MV.C10.Exec
               MV.C10.ProofsConc MV.C10.ProofsConc2 MV.C10.ProofsSeq MV.C10.ExecProofs.
Open Scope N_scope.
Require Import MV.C10.Properties.

Check (C10_increment_conservation : forall ps sched,
  Forall noabs_prog ps ->
  let c := fst (exec (step all_fixed) site (init_config ps) sched) in
  (sl (sent (fst c)) + sl (rawd (fst c)) + sumL pend (snd c)
   + sub64 (cur (cnt (fst c))) (last (cnt (fst c)))) mod two64 = added (fst c) mod two64
  /\ Forall (fun d => d = 0) (lost (fst c))).
Print Assumptions C10_increment_conservation.
Check (C10_increment_conservation_refuted_before_fix : exists ps sched, Forall noabs_prog ps /\
    let c := fst (exec (step as_found) site (init_config ps) sched) in
    all_done (step as_found) c = true /\ added (fst c) = 5 /\ lost (fst c) = [5] /\
    sl (sent (fst c)) + sl (rawd (fst c)) + sumL pend (snd c) + sub64 (cur (cnt (fst c))) (last (cnt (fst c))) = 0).
Print Assumptions C10_increment_conservation_refuted_before_fix.
Check (C10_absolute_conservation : forall es c,
  abs_only es -> is_abs c = true -> last c <= cur c -> cur c < two64 ->
  cur (snd (araw all_fixed c es)) = runmax (cur c) es /\
  last (snd (araw all_fixed c es)) <= cur (snd (araw all_fixed c es)) /\
  cur (snd (araw all_fixed c es)) < two64 /\
  sln (fst (araw all_fixed c es)) + (cur (snd (araw all_fixed c es)) - last (snd (araw all_fixed c es)))
    = runmax (cur c) es - last c).
Print Assumptions C10_absolute_conservation.
Check (C10_first_absolute_rebases : forall fx v c, is_abs c = false ->
  is_abs (seq_abs fx v c) = true /\ last (seq_abs fx v c) = v /\ cur (seq_abs fx v c) = v).
Print Assumptions C10_first_absolute_rebases.
Check (C10_absolute_wrap_refuted_before_fix : crun as_found cst0 [CAbs 15; CFlush; CAbs 5; CFlush] = [Some (0, 1); Some (18446744073709551606, 1)]).
Print Assumptions C10_absolute_wrap_refuted_before_fix.
Check (C10_rebase_straddle_refutes : known_class straddle_case = Some 1 /\ spec_ok straddle_case (run_case straddle_case) = false /\
  exists tr rs dn fin, run_case straddle_case = OSched tr rs dn fin /\
                       In (RCnt 18446744073709551521 0) (concat rs)).
Print Assumptions C10_rebase_straddle_refutes.
Check (C10_idle_once : forall fx st e n, is_update e ->
  exists d u, u <> 0 /\
    crun fx st (e :: CFlush :: CFlush :: repeat CFlush n) = Some (d, u) :: Some (0, 0) :: repeat None n).
Print Assumptions C10_idle_once.
Check (C10_idle_once_registered_only : forall fx n,
  crun fx cst0 (CReg :: CFlush :: repeat CFlush n) = Some (0, 0) :: repeat None n).
Print Assumptions C10_idle_once_registered_only.
Check (C10_idle_once_all_schedules : forall fx c0 s0 i0 c sched,
  Qinv c0 s0 i0 c -> Qinv c0 s0 i0 (fst (exec (step fx) site c sched))).
Print Assumptions C10_idle_once_all_schedules.
Check (C10_gauge_latest : forall fx ps sched,
  let c := fst (exec (step fx) site (init_config ps) sched) in
  gv (gau (fst c)) = replay (ghist (fst c)) /\
  forall u l r, nth_error (snd c) u = Some l -> In r (results l) ->
    match r with
    | RGau z _ h | RState _ z _ _ h => z = replay h /\ exists later, ghist (fst c) = later ++ h
    | _ => True
    end).
Print Assumptions C10_gauge_latest.
Check (C10_gauge_latest_seq : forall es, gauge_ok es (map (option_map fst) (grun gst0 es)) = true).
Print Assumptions C10_gauge_latest_seq.
Check (C10_histogram_each_value_once : forall samp es,
  exists bag', Permutation (concat (concat (hrun samp hst0 es)) ++ bag') (recorded es)).
Print Assumptions C10_histogram_each_value_once.
Check (C10_timestamp_iff_documented : forall c i now x,
  In x (flush_calls all_fixed c i now) ->
  match x with
  | WC _ _ _ ts | WG _ _ _ ts => ts = documented_ts (o_aggr c) now
  | WH _ _ => True
  end).
Print Assumptions C10_timestamp_iff_documented.
Check (C10_timestamp_refuted_before_fix : agg_timestamp as_found false 7 = Some 7 /\ agg_timestamp as_found true 7 = None).
Print Assumptions C10_timestamp_refuted_before_fix.
Check (C10_wire_framing : forall ps,
  Forall (fun b => N.of_nat (length b) < 4294967296) ps ->
  split_frames (length ps) (concat (map frame ps)) = ps).
Print Assumptions C10_wire_framing.
Check (C10_refuted_before_fix : spec_ok witness_ts (run_with as_found witness_ts) = false /\
  spec_ok witness_abs (run_with as_found witness_abs) = false /\
  spec_ok witness_idle (run_with as_found witness_idle) = false /\
  spec_ok witness_ts (run_case witness_ts) = true /\
  spec_ok witness_abs (run_case witness_abs) = true /\
  spec_ok witness_idle (run_case witness_idle) = true).
Print Assumptions C10_refuted_before_fix.
Check (C10_examples_ok : spec_ok example_seq (run_case example_seq) = true /\ known_class example_seq = None /\
  spec_ok example_sched (run_case example_sched) = true /\ known_class example_sched = None).
Print Assumptions C10_examples_ok.
