From Coq Require Import List NArith ZArith Bool Permutation.
Import ListNotations.
Require Import MV.Common.Interleave MV.C10.Model MV.C10.Spec MV.C10.Exec
               MV.C10.ProofsConc MV.C10.ProofsConc2 MV.C10.ProofsSeq MV.C10.ExecProofs
               MV.C10.ProofsBound MV.C10.ProofsRefine MV.C10.ProofsWire MV.C10.ProofsSound MV.C10.ProofsSuffix MV.C10.ProofsAbs MV.C10.ProofsCompose MV.C10.ProofsCompose2 MV.C10.ProofsAbs2 MV.C10.ProofsSched MV.C10.ProofsSched2 MV.C10.ProofsSched3 MV.C10.ProofsMix MV.C10.ProofsSched4.
Open Scope N_scope.
Require Import MV.C10.Properties.

Check (C10_increment_conservation : forall ps sched,
  Forall noabs_prog ps ->
  let c := fst (exec (step all_fixed) site (init_config ps) sched) in
  (sl (sent (fst c)) + sl (rawd (fst c)) + sumL pend (snd c)
   + sub64 (cur (cnt (fst c))) (last (cnt (fst c)))) mod two64 = added (fst c) mod two64
  /\ Forall (fun d => d = 0) (lost (fst c))).
Print Assumptions C10_increment_conservation.
Check (C10_increment_conservation_refuted_before_fix : exists ps sched, Forall noabs_prog ps /\
    let c := fst (exec (step as_found) site (init_config ps) sched) in
    all_done (step as_found) c = true /\ added (fst c) = 5 /\ lost (fst c) = [5] /\
    sl (sent (fst c)) + sl (rawd (fst c)) + sumL pend (snd c) + sub64 (cur (cnt (fst c))) (last (cnt (fst c))) = 0).
Print Assumptions C10_increment_conservation_refuted_before_fix.
Check (C10_absolute_conservation : forall es c,
  abs_only es -> is_abs c = true -> last c <= cur c -> cur c < two64 ->
  cur (snd (araw all_fixed c es)) = runmax (cur c) es /\
  last (snd (araw all_fixed c es)) <= cur (snd (araw all_fixed c es)) /\
  cur (snd (araw all_fixed c es)) < two64 /\
  sln (fst (araw all_fixed c es)) + (cur (snd (araw all_fixed c es)) - last (snd (araw all_fixed c es)))
    = runmax (cur c) es - last c).
Print Assumptions C10_absolute_conservation.
Check (C10_first_absolute_rebases : forall fx v c, is_abs c = false ->
  is_abs (seq_abs fx v c) = true /\ last (seq_abs fx v c) = v /\ cur (seq_abs fx v c) = v).
Print Assumptions C10_first_absolute_rebases.
Check (C10_absolute_wrap_refuted_before_fix : crun as_found cst0 [CAbs 15; CFlush; CAbs 5; CFlush] = [Some (0, 1); Some (18446744073709551606, 1)]).
Print Assumptions C10_absolute_wrap_refuted_before_fix.
Check (C10_rebase_straddle_refutes : known_class straddle_case = Some 1 /\ spec_ok straddle_case (run_case straddle_case) = false /\
  exists tr rs dn fin, run_case straddle_case = OSched tr rs dn fin /\
                       In (RCnt 18446744073709551521 0) (concat rs)).
Print Assumptions C10_rebase_straddle_refutes.
Check (C10_idle_once : forall fx st e n, is_update e ->
  exists d u, u <> 0 /\
    crun fx st (e :: CFlush :: CFlush :: repeat CFlush n) = Some (d, u) :: Some (0, 0) :: repeat None n).
Print Assumptions C10_idle_once.
Check (C10_idle_once_registered_only : forall fx n,
  crun fx cst0 (CReg :: CFlush :: repeat CFlush n) = Some (0, 0) :: repeat None n).
Print Assumptions C10_idle_once_registered_only.
Check (C10_idle_once_all_schedules : forall fx c0 s0 i0 c sched,
  Qinv c0 s0 i0 c -> Qinv c0 s0 i0 (fst (exec (step fx) site c sched))).
Print Assumptions C10_idle_once_all_schedules.
Check (C10_gauge_latest : forall fx ps sched,
  let c := fst (exec (step fx) site (init_config ps) sched) in
  gv (gau (fst c)) = replay (ghist (fst c)) /\
  forall u l r, nth_error (snd c) u = Some l -> In r (results l) ->
    match r with
    | RGau z _ h | RState _ z _ _ h => z = replay h /\ exists later, ghist (fst c) = later ++ h
    | _ => True
    end).
Print Assumptions C10_gauge_latest.
Check (C10_gauge_latest_seq : forall es, gauge_ok es (map (option_map fst) (grun gst0 es)) = true).
Print Assumptions C10_gauge_latest_seq.
Check (C10_histogram_each_value_once : forall samp es,
  exists bag', Permutation (concat (concat (hrun samp hst0 es)) ++ bag') (recorded es)).
Print Assumptions C10_histogram_each_value_once.
Check (C10_timestamp_iff_documented : forall c i now x,
  In x (flush_calls all_fixed c i now) ->
  match x with
  | WC _ _ _ ts | WG _ _ _ ts => ts = documented_ts (o_aggr c) now
  | WH _ _ => True
  end).
Print Assumptions C10_timestamp_iff_documented.
Check (C10_timestamp_refuted_before_fix : agg_timestamp as_found false 7 = Some 7 /\ agg_timestamp as_found true 7 = None).
Print Assumptions C10_timestamp_refuted_before_fix.
Check (C10_wire_framing : forall ps,
  Forall (fun b => N.of_nat (length b) < 4294967296) ps ->
  split_frames (length ps) (concat (map frame ps)) = ps).
Print Assumptions C10_wire_framing.
Check (C10_refuted_before_fix : spec_ok witness_ts (run_with as_found witness_ts) = false /\
  spec_ok witness_abs (run_with as_found witness_abs) = false /\
  spec_ok witness_idle (run_with as_found witness_idle) = false /\
  spec_ok witness_ts (run_case witness_ts) = true /\
  spec_ok witness_abs (run_case witness_abs) = true /\
  spec_ok witness_idle (run_case witness_idle) = true).
Print Assumptions C10_refuted_before_fix.
Check (C10_examples_ok : spec_ok example_seq (run_case example_seq) = true /\ known_class example_seq = None /\
  spec_ok example_sched (run_case example_sched) = true /\ known_class example_sched = None).
Print Assumptions C10_examples_ok.
Check (C10_delta_bounded : forall fx f ps sched,
  Forall (Forall noabs_op) ps -> one_flusher f ps ->
  let c := fst (exec (step fx) site (init_config ps) sched) in
  (forall d, In d (sent (fst c) ++ rawd (fst c) ++ lost (fst c)) -> exists w, In (d, w) (flog (fst c))) /\
  (forall d w, In (d, w) (flog (fst c)) -> d = w mod two64) /\
  (exists done_marks, (done_marks = marks (fst c) \/ done_marks = tl (marks (fst c))) /\
                      map snd (flog (fst c)) = diffs done_marks /\ desc (added (fst c) :: marks (fst c))) /\
  fold_right N.add 0 (map snd (flog (fst c))) <= added (fst c)).
Print Assumptions C10_delta_bounded.
Check (C10_counter_clause_on_model : forall es, Forall cev_wf es ->
  counter_ok es (map (option_map fst) (crun all_fixed cst0 es)) = true).
Print Assumptions C10_counter_clause_on_model.
Check (C10_histogram_clause_on_model : forall samp rsv es,
  (samp = true -> hwin_ok rsv 0 es = true) ->
  histogram_ok samp rsv es (map (fun bl => sort_z (concat bl)) (hrun samp hst0 es)) = true).
Print Assumptions C10_histogram_clause_on_model.
Check (C10_spec_ok_sound_seq : forall c fl, spec_ok (CSeq c) (OSeq fl) = true ->
  o_max c < two32 /\ flushes_ok c (nows (o_ops c)) fl = true /\
  forall k, In k (keyids c) ->
    counter_ok (flat_map (projC k) (o_ops c)) (obs_counter k fl) = true /\
    gauge_ok (flat_map (projG k) (o_ops c)) (obs_gauge k fl) = true /\
    histogram_ok (o_samp c) (o_rsv c) (flat_map (projH k) (o_ops c)) (obs_hist k fl) = true).
Print Assumptions C10_spec_ok_sound_seq.
Check (C10_flushes_ok_sound : forall c ns fl, flushes_ok c ns fl = true ->
  length fl = length ns /\
  forall i n f, nth_error ns i = Some n -> nth_error fl i = Some f ->
    exists ms ps cp gp hp, f = FOut ms ps cp gp hp /\
      msgs_wf (N.of_nat (length (o_keys c))) ms = true /\
      (forall m, In m ms -> ts_ok (o_aggr c) n m = true) /\
      (forall p, In p ps -> frame_ok (o_lp c) (o_max c) p = true)).
Print Assumptions C10_flushes_ok_sound.
Check (C10_spec_ok_sound_sched : forall ps sched tr rs fd fu fz fg,
  spec_ok (CSched ps sched) (OSched tr rs true (fd, fu, fz, fg)) = true -> has_uabs ps = false ->
  (sumN (fd :: deltas_of rs)) mod two64 = (inc_sum ps) mod two64).
Print Assumptions C10_spec_ok_sound_sched.
Check (C10_wire_chain : forall c, o_max c < 4294967296 ->
  exists fl, run_seq all_fixed c = Some fl /\
    Forall2 (fun xs f => exists fs cp gp hp,
               f = FOut (msgs_of c xs) (map (MV.C09.Inv.frame (o_lp c)) fs) cp gp hp /\
               bodies_rel c xs fs /\ Forall (fun b => W.len b <= o_max c) fs)
            (all_calls all_fixed c) fl).
Print Assumptions C10_wire_chain.
Check (C10_wire_stream_decodes : forall fs,
  Forall (fun b => W.len b < 4294967296) fs ->
  split_frames (length fs) (concat (map (MV.C09.Inv.frame true) fs)) = fs).
Print Assumptions C10_wire_stream_decodes.
Check (C10_idle_once_suffix : forall fx f c0 s0 c sched,
  Pre f c0 s0 c ->
  let c' := fst (exec (step fx) site c sched) in
  (Pre f c0 s0 c' /\ sent (fst c') = s0) \/
  exists s1 i1, (s1 = s0 \/ exists d, s1 = d :: s0) /\ Qinv c0 s1 i1 c' /\
                (sent (fst c') = s1 \/ (i1 = false /\ sent (fst c') = 0 :: s1))).
Print Assumptions C10_idle_once_suffix.
Check (C10_absolute_no_wrap_hazard_free : forall A, A < two64 ->
  forall f ps sched, Forall (abs_prog A) ps -> one_flusher f ps -> safe (init_config ps) sched ->
  let c := fst (exec (step all_fixed) site (init_config ps) sched) in
  Forall (fun d => d <= A) (sent (fst c) ++ rawd (fst c) ++ lost (fst c)) /\
  cur (cnt (fst c)) <= A /\
  (~ W (snd c) -> last (cnt (fst c)) <= cur (cnt (fst c))) /\
  (forall u l v, nth_error (snd c) u = Some l -> pcl l = PB3 true v -> last (cnt (fst c)) = v)).
Print Assumptions C10_absolute_no_wrap_hazard_free.
Check (C10_idle_once_suffix_in_flight : forall fx f c0 s0 c sched,
  PreIn f c0 s0 c ->
  let c' := fst (exec (step fx) site c sched) in
  (PreIn f c0 s0 c' /\ sent (fst c') = s0) \/
  exists s0', (s0' = s0 \/ exists d, s0' = d :: s0) /\
    ((Pre f c0 s0' c' /\ sent (fst c') = s0') \/
     exists s1 i1, (s1 = s0' \/ exists d, s1 = d :: s0') /\ Qinv c0 s1 i1 c' /\
                   (sent (fst c') = s1 \/ (i1 = false /\ sent (fst c') = 0 :: s1)))).
Print Assumptions C10_idle_once_suffix_in_flight.
Check (C10_spec_ok_on_model_keys : forall c, o_max c < 4294967296 -> ops_wf c -> hist_wf c ->
  exists fl, run_case (CSeq c) = OSeq fl /\
    forallb (fun k => counter_ok (flat_map (projC k) (o_ops c)) (obs_counter k fl)
                      && gauge_ok (flat_map (projG k) (o_ops c)) (obs_gauge k fl)
                      && histogram_ok (o_samp c) (o_rsv c) (flat_map (projH k) (o_ops c)) (obs_hist k fl))
            (keyids c) = true).
Print Assumptions C10_spec_ok_on_model_keys.
Check (C10_spec_ok_on_model_seq : forall c, seq_wf c -> spec_ok (CSeq c) (run_case (CSeq c)) = true).
Print Assumptions C10_spec_ok_on_model_seq.
Check (C10_known_class_none_hazard_free : forall ps sched,
  known_class (CSched ps sched) = None ->
  exists full, exec_full (step all_fixed) site rr_fuel (init_config ps) (map N.to_nat sched)
               = exec (step all_fixed) site (init_config ps) full /\
    (all_done (step all_fixed) (fst (exec (step all_fixed) site (init_config ps) full)) = true ->
     safe (init_config ps) full)).
Print Assumptions C10_known_class_none_hazard_free.
Check (C10_absolute_no_wrap_outside_class : forall A f ps sched,
  A < two64 -> Forall (abs_prog A) ps -> one_flusher f ps ->
  known_class (CSched ps sched) = None ->
  exists full, exec_full (step all_fixed) site rr_fuel (init_config ps) (map N.to_nat sched)
               = exec (step all_fixed) site (init_config ps) full /\
    let c := fst (exec (step all_fixed) site (init_config ps) full) in
    all_done (step all_fixed) c = true ->
    Forall (fun d => d <= A) (sent (fst c) ++ rawd (fst c) ++ lost (fst c)) /\
    cur (cnt (fst c)) <= A /\ last (cnt (fst c)) <= cur (cnt (fst c))).
Print Assumptions C10_absolute_no_wrap_outside_class.
Check (C10_sched_results_follow_programs : forall ps sched,
  all2 follows ps (map (fun l => rev (results l)) (snd (final ps sched))) = true).
Print Assumptions C10_sched_results_follow_programs.
Check (C10_sched_gauge_sets : forall ps sched, only_sets ps = true ->
  forallb (fun z => existsb (fun z' => (z =? z')%Z) (set_values ps))
          (gv (gau (fst (final ps sched))) :: gvals_of (map (fun l => rev (results l)) (snd (final ps sched)))) = true).
Print Assumptions C10_sched_gauge_sets.
Check (C10_sched_conservation_on_results : forall ps sched,
  has_uabs ps = false -> all_done (step all_fixed) (final ps sched) = true ->
  (sumN (sub64 (cur (cnt (fst (final ps sched)))) (last (cnt (fst (final ps sched))))
         :: deltas_of (map (fun l => rev (results l)) (snd (final ps sched))))) mod two64 = (inc_sum ps) mod two64).
Print Assumptions C10_sched_conservation_on_results.
Check (C10_sched_delta_bound_increment_only : forall ps sched,
  ps <> [] -> MV.C10.Exec.one_flusher ps = true -> has_uabs ps = false -> inc_sum ps < two64 ->
  forallb (fun d => d <=? inc_sum ps)
          (sub64 (cur (cnt (fst (final ps sched)))) (last (cnt (fst (final ps sched))))
           :: deltas_of (map (fun l => rev (results l)) (snd (final ps sched)))) = true).
Print Assumptions C10_sched_delta_bound_increment_only.
Check (C10_sched_delta_bound_increment_free : forall ps sched,
  ps <> [] -> MV.C10.Exec.one_flusher ps = true -> incfree ps = true -> abs_max ps < two64 ->
  known_class (CSched ps sched) = None -> all_done (step all_fixed) (final ps sched) = true ->
  forallb (fun d => d <=? abs_max ps)
          (sub64 (cur (cnt (fst (final ps sched)))) (last (cnt (fst (final ps sched))))
           :: deltas_of (map (fun l => rev (results l)) (snd (final ps sched)))) = true).
Print Assumptions C10_sched_delta_bound_increment_free.
Check (C10_spec_ok_on_model_sched_partial : forall ps sched,
  known_class (CSched ps sched) = None -> sched_wf ps sched ->
  spec_ok (CSched ps sched) (run_case (CSched ps sched)) = true).
Print Assumptions C10_spec_ok_on_model_sched_partial.
Check (C10_spec_ok_on_model_partial : forall c,
  known_class c = None -> case_wf c -> spec_ok c (run_case c) = true).
Print Assumptions C10_spec_ok_on_model_partial.
Check (C10_mixed_no_wrap_hazard_free : forall A I0, I0 + A < two64 ->
  forall f ps sched, Forall (mix_prog A) ps -> one_flusher f ps ->
  sumL (fun l => slo (todo l)) (map init_local ps) = I0 ->
  safe (init_config ps) sched ->
  let c := fst (exec (step all_fixed) site (init_config ps) sched) in
  Forall (fun d => d <= I0 + A) (sent (fst c) ++ rawd (fst c) ++ lost (fst c)) /\
  cur (cnt (fst c)) <= added (fst c) + A /\ added (fst c) <= I0 /\
  (~ W (snd c) -> last (cnt (fst c)) <= cur (cnt (fst c)))).
Print Assumptions C10_mixed_no_wrap_hazard_free.
Check (C10_sched_delta_bound : forall ps sched,
  ps <> [] -> MV.C10.Exec.one_flusher ps = true -> inc_sum ps + abs_max ps < two64 ->
  known_class (CSched ps sched) = None -> all_done (step all_fixed) (final ps sched) = true ->
  forallb (fun d => d <=? inc_sum ps + abs_max ps)
          (sub64 (cur (cnt (fst (final ps sched)))) (last (cnt (fst (final ps sched))))
           :: deltas_of (map (fun l => rev (results l)) (snd (final ps sched)))) = true).
Print Assumptions C10_sched_delta_bound.
Check (C10_spec_ok_on_model_sched : forall ps sched,
  known_class (CSched ps sched) = None -> sched_wf_full ps sched ->
  spec_ok (CSched ps sched) (run_case (CSched ps sched)) = true).
Print Assumptions C10_spec_ok_on_model_sched.
Check (C10_spec_ok_on_model : forall c,
  known_class c = None -> case_wf_full c -> spec_ok c (run_case c) = true).
Print Assumptions C10_spec_ok_on_model.
