(* C10 — idle-once in suffix form.  From ANY configuration in which no thread will update the
   counter any more, the (single) flushing thread f is between two counter flushes, and nobody
   else flushes the counter - whatever `last`, `updates` and the idle flag are - every schedule
   sends at most one more delta (the catch-up of the first flush) and then at most one zero, and
   after that nothing: once the first flush has completed its 1010 step the configuration is
   quiescent (Qinv) and C10_idle_once_all_schedules applies. *)
From Coq Require Import List NArith ZArith Bool Lia.
Import ListNotations.
Require Import MV.Common.Interleave MV.C10.Model MV.C10.ProofsConc MV.C10.ProofsConc2.
Open Scope N_scope.

Notation lupd := (@MV.Common.Interleave.upd _).

Definition quiet_op (o : uop) : Prop := match o with USet _ | FGau => True | _ => False end.
Definition other_pc (p : pc) : Prop :=
  match p with Start | Done | PG1 _ | PG2 | PH1 _ | PH2 _ _ _ => True | _ => False end.
(* a thread that neither updates nor flushes the counter *)
Definition oth (l : local) : Prop := Forall quiet_op (todo l) /\ other_pc (pcl l).

Lemma enter_oth td rs : Forall quiet_op td -> oth (enter td rs).
Proof.
  intros H. destruct td as [|o r]; [split; [constructor|exact I]|].
  inversion H as [|? ? Ho Hr]; subst. destruct o; cbn in Ho; try contradiction; split; cbn; auto.
Qed.

Lemma other_step fx s l s' l' : step fx s l = Some (s', l') -> oth l ->
  cnt s' = cnt s /\ sent s' = sent s /\ idle s' = idle s /\ oth l'.
Proof.
  intros Hs [Htd Hpc]. unfold step in Hs. destruct l as [p td rs]. cbn [pcl todo results] in *.
  destruct p; cbn in Hpc; try contradiction; cbn in Hs; inversion Hs; subst; clear Hs; cbn;
    repeat split; auto; try (apply enter_oth; exact Htd).
Qed.

Lemma oth_qlocal c0 l : oth l -> qlocal c0 l.
Proof.
  intros [Htd Hpc]. split.
  - eapply Forall_impl; [|exact Htd]. intros o Ho. destruct o; cbn in *; try contradiction; exact I.
  - destruct (pcl l); cbn in *; try contradiction; exact I.
Qed.

Definition Pre (f : nat) (c0 : N) (s0 : list N) (c : config) : Prop :=
  (forall u l, nth_error (snd c) u = Some l -> u <> f -> oth l) /\
  cur (cnt (fst c)) = c0 /\
  exists lf, nth_error (snd c) f = Some lf /\ Forall flush_op (todo lf) /\
    match pcl lf with
    | PA1 _ | PA2 _ | PA3 | PB1 _ | PB2 _ | PB3 _ _ | PB4 => False
    | PF2 _ sn => sn = c0 /\ sent (fst c) = s0
    | PF3 _ _ => last (cnt (fst c)) = c0 /\ sent (fst c) = s0
    | _ => sent (fst c) = s0
    end.
Definition Post (c0 : N) (s0 : list N) (c : config) : Prop :=
  exists s1 i1, (s1 = s0 \/ exists d, s1 = d :: s0) /\ Qinv c0 s1 i1 c.
Definition SInv (f : nat) (c0 : N) (s0 : list N) (c : config) : Prop := Pre f c0 s0 c \/ Post c0 s0 c.

Lemma Forall_of_nth {A} (P : A -> Prop) ls : (forall u l, nth_error ls u = Some l -> P l) -> Forall P ls.
Proof.
  intros H. apply Forall_forall. intros x Hx. apply In_nth_error in Hx. destruct Hx as [u Hu]. eauto.
Qed.

Lemma enter_flush_pc td rs : Forall flush_op td ->
  match pcl (enter td rs) with
  | PA1 _ | PA2 _ | PA3 | PB1 _ | PB2 _ | PB3 _ _ | PB4 | PF2 _ _ | PF3 _ _ => False
  | _ => True
  end /\ Forall flush_op (todo (enter td rs)).
Proof.
  intros H. destruct td as [|o r]; [split; [exact I|constructor]|].
  inversion H as [|? ? Ho Hr]; subst. destruct o; cbn in Ho; try contradiction; split; cbn; auto.
Qed.

Lemma step_preserves_SInv fx f c0 s0 : step_preserves (step fx) (SInv f c0 s0).
Proof.
  intros s ls t l s' l' [HP|HQ] Hnth Hstep.
  2:{ right. destruct HQ as (s1 & i1 & Hs1 & HQ). exists s1, i1. split; [exact Hs1|].
      eapply step_preserves_Qinv; eauto. }
  destruct HP as (Ho & Hc & lf & Ef & Htd & Hpc). cbn [fst snd] in *.
  destruct (Nat.eq_dec t f) as [->|Hne].
  - (* the flusher steps *)
    rewrite Hnth in Ef. inversion Ef; subst lf. clear Ef.
    assert (Hoth' : forall u x, nth_error (lupd ls f l') u = Some x -> u <> f -> oth x).
    { intros u x Hu Hn. rewrite nth_error_upd_other in Hu by congruence. eapply Ho; eauto. }
    unfold step in Hstep. destruct l as [p td rs]. cbn [pcl todo results] in *.
    destruct (enter_flush_pc td rs Htd) as [He1 He2].
    destruct p; try contradiction; cbn in Hstep.
    + (* Start *) inversion Hstep; subst s' l'; clear Hstep. left. split; [exact Hoth'|]. split; [exact Hc|].
      eexists. split; [eapply nth_error_upd_same; eauto|]. split; [exact He2|].
      cbn [fst]. destruct (pcl (enter td rs)); try contradiction; auto.
    + (* Done *) discriminate.
    + (* PG1 *) inversion Hstep; subst s' l'; clear Hstep. left. split; [exact Hoth'|]. split; [exact Hc|].
      eexists. split; [eapply nth_error_upd_same; eauto|]. split; [exact Htd|]. cbn. exact Hpc.
    + (* PG2 *) inversion Hstep; subst s' l'; clear Hstep. left. split; [exact Hoth'|]. split; [exact Hc|].
      eexists. split; [eapply nth_error_upd_same; eauto|].
      destruct (enter_flush_pc td (RU :: rs) Htd) as [X1 X2]. split; [exact X2|].
      cbn [fst set_gau sent]. destruct (pcl (enter td (RU :: rs))); try contradiction; auto.
    + (* PF1 *) inversion Hstep; subst s' l'; clear Hstep. left. split; [exact Hoth'|]. split; [exact Hc|].
      eexists. split; [eapply nth_error_upd_same; eauto|]. split; [exact Htd|]. cbn. auto.
    + (* PF2 *) inversion Hstep; subst s' l'; clear Hstep. destruct Hpc as [-> Hs]. left.
      split; [exact Hoth'|]. split; [exact Hc|].
      eexists. split; [eapply nth_error_upd_same; eauto|]. split; [exact Htd|]. cbn. auto.
    + (* PF3: the first flush completes -> quiescent *)
      destruct Hpc as [Hl Hs]. right. subst c0.
      assert (Hq : forall l2, qlocal (cur (cnt s)) l2 -> Forall (qlocal (cur (cnt s))) (lupd ls f l2)).
      { intros l2 H2. apply Forall_of_nth. intros u x Hu.
        apply nth_error_upd_cases in Hu. destruct Hu as [[-> ->]|[Hn Hu]]; [exact H2|].
        apply oth_qlocal. eapply Ho; eauto. }
      destruct st.
      * destruct (decide fx (idle s) d (upd (cnt s))) as [i' o] eqn:Ed. inversion Hstep; subst s' l'; clear Hstep.
        exists (match o with Some x => x :: sent s | None => sent s end), i'.
        split; [destruct o; [right; eexists; rewrite Hs; reflexivity|left; exact Hs]|].
        unfold Qinv. cbn [fst snd cnt upd cur last sent idle f3].
        split; [reflexivity|]. split; [reflexivity|]. split; [exact Hl|].
        split; [apply Hq; split; [exact Htd|exact I]|]. left. split; reflexivity.
      * inversion Hstep; subst s' l'; clear Hstep.
        exists (sent s), (idle s). split; [left; exact Hs|].
        unfold Qinv. cbn [fst snd cnt upd cur last sent idle f3].
        split; [reflexivity|]. split; [reflexivity|]. split; [exact Hl|].
        split; [apply Hq; apply enter_q; exact Htd|]. left. split; reflexivity.
    + (* PH1 *) inversion Hstep; subst s' l'; clear Hstep. left. split; [exact Hoth'|]. split; [exact Hc|].
      eexists. split; [eapply nth_error_upd_same; eauto|]. split; [exact Htd|]. cbn. exact Hpc.
    + (* PH2 *) inversion Hstep; subst s' l'; clear Hstep. left. split; [exact Hoth'|]. split; [exact Hc|].
      eexists. split; [eapply nth_error_upd_same; eauto|].
      match goal with |- context [enter td ?r] => destruct (enter_flush_pc td r Htd) as [X1 X2];
        split; [exact X2|]; cbn [fst set_gau sent]; destruct (pcl (enter td r)); try contradiction; auto end.
  - (* another thread steps: the counter, sent and idle are untouched *)
    destruct (other_step fx s l s' l' Hstep (Ho t l Hnth Hne)) as (Ec & Es & Ei & Hol').
    left. split; [|split].
    + intros u x Hu Hn. apply nth_error_upd_cases in Hu. destruct Hu as [[-> ->]|[_ Hu]]; [exact Hol'|eapply Ho; eauto].
    + cbn [fst]. rewrite Ec. exact Hc.
    + exists lf. split; [cbn [snd]; rewrite nth_error_upd_other by exact Hne; exact Ef|]. split; [exact Htd|].
      cbn [fst]. rewrite Ec, Es. exact Hpc.
Qed.

Theorem idle_once_suffix fx f c0 s0 c sched :
  Pre f c0 s0 c ->
  let c' := fst (exec (step fx) site c sched) in
  (* either the first flush has not completed and nothing was sent ... *)
  (Pre f c0 s0 c' /\ sent (fst c') = s0) \/
  (* ... or it has: the configuration was quiescent after at most one (catch-up) delta, and from
     there at most one zero was sent *)
  exists s1 i1, (s1 = s0 \/ exists d, s1 = d :: s0) /\ Qinv c0 s1 i1 c' /\
                (sent (fst c') = s1 \/ (i1 = false /\ sent (fst c') = 0 :: s1)).
Proof.
  intros HP c'.
  pose proof (invariant_all_schedules (step fx) site (SInv f c0 s0) (step_preserves_SInv fx f c0 s0) sched c (or_introl HP)) as H.
  fold c' in H. destruct H as [H|(s1 & i1 & Hs1 & HQ)].
  - left. split; [exact H|]. destruct H as (_ & _ & lf & _ & _ & Hpc).
    destruct (pcl lf); try contradiction; tauto.
  - right. exists s1, i1. split; [exact Hs1|]. split; [exact HQ|].
    destruct HQ as (_ & _ & _ & _ & [[A _]|(B & A & _)]); auto.
Qed.

(* ------------------------------------------------------------------ a counter flush already in flight *)
(* as [Pre], but the flusher is inside a counter flush (after its 1008 load or after its 1009 swap,
   with whatever stale snapshot / delta it holds) at the moment the updates stop *)
Definition PreIn (f : nat) (c0 : N) (s0 : list N) (c : config) : Prop :=
  (forall u l, nth_error (snd c) u = Some l -> u <> f -> oth l) /\
  cur (cnt (fst c)) = c0 /\
  exists lf, nth_error (snd c) f = Some lf /\ Forall flush_op (todo lf) /\
    match pcl lf with PF2 _ _ | PF3 _ _ => sent (fst c) = s0 | _ => False end.
Definition SIn (f : nat) (c0 : N) (s0 : list N) (c : config) : Prop :=
  PreIn f c0 s0 c \/ exists s0', (s0' = s0 \/ exists d, s0' = d :: s0) /\ SInv f c0 s0' c.

Lemma step_preserves_SIn fx f c0 s0 : step_preserves (step fx) (SIn f c0 s0).
Proof.
  intros s ls t l s' l' [HP|(s0' & Hs0 & HS)] Hnth Hstep.
  2:{ right. exists s0'. split; [exact Hs0|]. eapply step_preserves_SInv; eauto. }
  destruct HP as (Ho & Hc & lf & Ef & Htd & Hpc). cbn [fst snd] in *.
  destruct (Nat.eq_dec t f) as [->|Hne].
  - rewrite Hnth in Ef. inversion Ef; subst lf. clear Ef.
    assert (Hoth' : forall u x, nth_error (lupd ls f l') u = Some x -> u <> f -> oth x).
    { intros u x Hu Hn. rewrite nth_error_upd_other in Hu by congruence. eapply Ho; eauto. }
    unfold step in Hstep. destruct l as [p td rs]. cbn [pcl todo results] in *.
    destruct p; try contradiction; cbn in Hstep.
    + (* PF2 *) inversion Hstep; subst s' l'; clear Hstep. left. split; [exact Hoth'|]. split; [exact Hc|].
      eexists. split; [eapply nth_error_upd_same; eauto|]. split; [exact Htd|]. cbn. exact Hpc.
    + (* PF3: the in-flight flush completes; from here [Pre] holds *)
      right. destruct st.
      * destruct (decide fx (idle s) d (upd (cnt s))) as [i' o] eqn:Ed. inversion Hstep; subst s' l'; clear Hstep.
        exists (match o with Some x => x :: sent s | None => sent s end).
        split; [destruct o; [right; eexists; rewrite Hpc; reflexivity|left; exact Hpc]|].
        left. split; [exact Hoth'|]. split; [exact Hc|].
        eexists. split; [eapply nth_error_upd_same; eauto|]. split; [exact Htd|]. cbn. reflexivity.
      * inversion Hstep; subst s' l'; clear Hstep.
        exists (sent s). split; [left; exact Hpc|].
        left. split; [exact Hoth'|]. split; [exact Hc|].
        eexists. split; [eapply nth_error_upd_same; eauto|].
        destruct (enter_flush_pc td (RCnt d (upd (cnt s)) :: rs) Htd) as [X1 X2]. split; [exact X2|].
        cbn [fst sent]. destruct (pcl (enter td (RCnt d (upd (cnt s)) :: rs))); try contradiction; reflexivity.
  - destruct (other_step fx s l s' l' Hstep (Ho t l Hnth Hne)) as (Ec & Es & Ei & Hol').
    left. split; [|split].
    + intros u x Hu Hn. apply nth_error_upd_cases in Hu. destruct Hu as [[-> ->]|[_ Hu]]; [exact Hol'|eapply Ho; eauto].
    + cbn [fst]. rewrite Ec. exact Hc.
    + exists lf. split; [cbn [snd]; rewrite nth_error_upd_other by exact Hne; exact Ef|]. split; [exact Htd|].
      cbn [fst]. rewrite Es. exact Hpc.
Qed.

(* with a counter flush in flight when the updates stop: at most ONE more delta (the in-flight one),
   then the suffix behaviour of [idle_once_suffix] *)
Theorem idle_once_suffix_in_flight fx f c0 s0 c sched :
  PreIn f c0 s0 c ->
  let c' := fst (exec (step fx) site c sched) in
  (PreIn f c0 s0 c' /\ sent (fst c') = s0) \/
  exists s0', (s0' = s0 \/ exists d, s0' = d :: s0) /\
    ((Pre f c0 s0' c' /\ sent (fst c') = s0') \/
     exists s1 i1, (s1 = s0' \/ exists d, s1 = d :: s0') /\ Qinv c0 s1 i1 c' /\
                   (sent (fst c') = s1 \/ (i1 = false /\ sent (fst c') = 0 :: s1))).
Proof.
  intros HP c'.
  pose proof (invariant_all_schedules (step fx) site (SIn f c0 s0) (step_preserves_SIn fx f c0 s0) sched c (or_introl HP)) as H.
  fold c' in H. destruct H as [H|(s0' & Hs0 & [H|(s1 & i1 & Hs1 & HQ)])].
  - left. split; [exact H|]. destruct H as (_ & _ & lf & _ & _ & Hpc). destruct (pcl lf); try contradiction; exact Hpc.
  - right. exists s0'. split; [exact Hs0|]. left. split; [exact H|].
    destruct H as (_ & _ & lf & _ & _ & Hpc). destruct (pcl lf); try contradiction; tauto.
  - right. exists s0'. split; [exact Hs0|]. right. exists s1, i1. split; [exact Hs1|]. split; [exact HQ|].
    destruct HQ as (_ & _ & _ & _ & [[X _]|(B & X & _)]); auto.
Qed.
