(* C10 — model of the DogStatsD client-side aggregation:
     metrics-exporter-dogstatsd/src/storage.rs   AtomicCounter::{increment, absolute, flush},
                                                 AtomicGauge::{set, increment, decrement, flush},
                                                 AtomicHistogram::{record, is_empty, flush} (sequential bag)
     metrics-exporter-dogstatsd/src/state.rs     State::flush (per key), get_aggregation_timestamp,
                                                 FlushState (idle set)
     forwarder/sync.rs                           one loop iteration = flush + drain of the writer
   The payload bytes are produced by C09's model of writer.rs (MV.C09.Model).

   Part 1: the atomic accesses of the storage cells as functions (one per yield site 1001-1014).
   Part 2: the interleaving machine (instance of Common/Interleave) on ONE counter cell and ONE
           gauge cell: updater and flusher threads, one step per atomic access; the flusher's
           State-level decision (idle set) is taken inside the step of the last access (it touches
           only state private to the forwarder thread).
   Part 3: sequential per-key machines built from the same access functions, and the exporter
           flush over a key table (keys are independent: the registry is not modelled).

   [fixes] selects, defect by defect, between the code as found ([false]) and the code after the
   corresponding `fix:` commit ([true]); /repo is [impl_fixes] (Exec.v).
   u64 arithmetic is explicit (mod 2^64) for `current`/`last`/deltas; update counts are unbounded
   (fewer than 2^64 updates between two flushes).  Gauge and histogram values are integer-valued
   doubles, modelled as Z (exact below 2^53).                                                    *)
From Coq Require Import List NArith ZArith Bool.
Import ListNotations.
Require Import MV.Common.Interleave.
Require MV.C09.Model.
Module W := MV.C09.Model.
Open Scope N_scope.

Definition bytes := list N.
Definition label := (bytes * bytes)%type.

Record fixes := { fix_ts : bool;       (* timestamp arms of get_aggregation_timestamp follow the documentation *)
                  fix_idle : bool;     (* a counter is idle only if delta = 0 as well as updates = 0 *)
                  fix_absmax : bool }. (* a non-first absolute only raises `current` (fetch_max) *)
Definition as_found : fixes := {| fix_ts := false; fix_idle := false; fix_absmax := false |}.
Definition all_fixed : fixes := {| fix_ts := true; fix_idle := true; fix_absmax := true |}.

(* ------------------------------------------------------------------ Part 1: atomic accesses *)
Definition two64 : N := 18446744073709551616.
Definition add64 (a b : N) : N := (a + b) mod two64.                       (* wrapping fetch_add *)
Definition sub64 (a b : N) : N := (a + (two64 - b mod two64)) mod two64.   (* wrapping_sub *)

Record cell := { is_abs : bool; last : N; cur : N; upd : N }.
Definition cell0 : cell := {| is_abs := false; last := 0; cur := 0; upd := 0 |}.

(* increment: 1001 is_absolute.store(false) · 1002 current.fetch_add(v) · 1003 updates.fetch_add(1) *)
Definition a1 (c : cell) : cell := {| is_abs := false; last := last c; cur := cur c; upd := upd c |}.
Definition a2 (v : N) (c : cell) : cell := {| is_abs := is_abs c; last := last c; cur := add64 (cur c) v; upd := upd c |}.
Definition a3 (c : cell) : cell := {| is_abs := is_abs c; last := last c; cur := cur c; upd := upd c + 1 |}.
(* absolute: 1004 is_absolute.swap(true) · [was false: 1005 last.store(v)] · 1006 current write · 1007 = a3 *)
Definition b1 (c : cell) : bool * cell := (is_abs c, {| is_abs := true; last := last c; cur := cur c; upd := upd c |}).
Definition b2 (v : N) (c : cell) : cell := {| is_abs := is_abs c; last := v; cur := cur c; upd := upd c |}.
(* as found: current.store(v);  fixed: store on the re-basing (first) absolute, fetch_max otherwise *)
Definition b3 (fx : fixes) (first : bool) (v : N) (c : cell) : cell :=
  {| is_abs := is_abs c; last := last c;
     cur := if fix_absmax fx && negb first then N.max (cur c) v else v; upd := upd c |}.
(* flush: 1008 current.load · 1009 last.swap(current) · 1010 updates.swap(0) *)
Definition f2 (s : N) (c : cell) : N * cell := (last c, {| is_abs := is_abs c; last := s; cur := cur c; upd := upd c |}).
Definition f3 (c : cell) : N * cell := (upd c, {| is_abs := is_abs c; last := last c; cur := cur c; upd := 0 |}).

Record gcell := { gv : Z; gu : N }.
Definition gcell0 : gcell := {| gv := 0%Z; gu := 0 |}.
Inductive gwrite := WSet (z : Z) | WAdd (z : Z) | WSub (z : Z).
Definition gapply (w : gwrite) (x : Z) : Z :=
  match w with WSet z => z | WAdd z => (x + z)%Z | WSub z => (x - z)%Z end.
(* 1011 value write (store / fetch_update) · 1012 updates.fetch_add(1) · 1013 inner.load · 1014 updates.swap(0) *)
Definition g1 (w : gwrite) (g : gcell) : gcell := {| gv := gapply w (gv g); gu := gu g |}.
Definition g2 (g : gcell) : gcell := {| gv := gv g; gu := gu g + 1 |}.
Definition g4 (g : gcell) : N * gcell := (gu g, {| gv := gv g; gu := 0 |}).

(* state.rs:85-103: the decision of State::flush for one counter.  Result: new idle flag, what is
   handed to the writer (None = `continue`) *)
Definition decide (fx : fixes) (idle : bool) (delta updates : N) : bool * option N :=
  if (updates =? 0) && (if fix_idle fx then delta =? 0 else true)
  then (if idle then (true, None) else (true, Some delta))
  else (false, Some delta).

(* state.rs:66-73 *)
Definition agg_timestamp (fx : fixes) (aggressive : bool) (now : N) : option N :=
  if Bool.eqb aggressive (fix_ts fx) then Some now else None.

(* ------------------------------------------------------------------ Part 2: interleaving machine *)
Inductive uop :=
| UInc (v : N) | UAbs (v : N)                     (* Counter::increment / absolute *)
| USet (w : gwrite)                               (* Gauge::set / increment / decrement *)
| FCnt | FGau                                     (* AtomicCounter::flush / AtomicGauge::flush *)
| FState.                                         (* State::flush over the registry {counter c, gauge g} *)

Inductive res :=
| RU
| RCnt (d u : N)
| RGau (z : Z) (u : N) (h : list gwrite)          (* h: ghost, the gauge writes executed before the load *)
| RState (sent : option N) (z : Z) (cp gp : N) (h : list gwrite).

Inductive pc :=
| Start | Done
| PA1 (v : N) | PA2 (v : N) | PA3
| PB1 (v : N) | PB2 (v : N) | PB3 (first : bool) (v : N) | PB4
| PG1 (w : gwrite) | PG2
| PF1 (st : bool) | PF2 (st : bool) (s : N) | PF3 (st : bool) (d : N)
| PH1 (carry : option (option N * N)) | PH2 (carry : option (option N * N)) (z : Z) (h : list gwrite).

Record local := { pcl : pc; todo : list uop; results : list res (* newest first *) }.

Record shared := {
  cnt : cell; gau : gcell; idle : bool;
  (* ghost, never read by control flow *)
  added : N;                (* sum of the increments whose fetch_add executed (unbounded) *)
  sent : list N;            (* deltas handed to the writer by State::flush, newest first *)
  rawd : list N;            (* deltas returned by raw AtomicCounter::flush calls, newest first *)
  lost : list N;            (* deltas State::flush dropped with `continue`, newest first *)
  marks : list N;           (* value of [added] at each 1008 load, newest first *)
  flog : list (N * N);      (* per completed counter flush (1010 step), newest first: (delta, amount by which [added]
                               grew between the two most recent 1008 loads) *)
  ghist : list gwrite }.    (* gauge writes in execution order, newest first *)

Definition enter (td : list uop) (rs : list res) : local :=
  match td with
  | [] => {| pcl := Done; todo := []; results := rs |}
  | UInc v :: r => {| pcl := PA1 v; todo := r; results := rs |}
  | UAbs v :: r => {| pcl := PB1 v; todo := r; results := rs |}
  | USet w :: r => {| pcl := PG1 w; todo := r; results := rs |}
  | FCnt :: r => {| pcl := PF1 false; todo := r; results := rs |}
  | FGau :: r => {| pcl := PH1 None; todo := r; results := rs |}
  | FState :: r => {| pcl := PF1 true; todo := r; results := rs |}
  end.

Definition set_cnt (s : shared) (c : cell) : shared :=
  {| cnt := c; gau := gau s; idle := idle s; added := added s; sent := sent s; rawd := rawd s;
     lost := lost s; marks := marks s; flog := flog s; ghist := ghist s |}.
Definition set_gau (s : shared) (g : gcell) : shared :=
  {| cnt := cnt s; gau := g; idle := idle s; added := added s; sent := sent s; rawd := rawd s;
     lost := lost s; marks := marks s; flog := flog s; ghist := ghist s |}.
(* growth of [added] between the two most recent 1008 loads *)
Definition window (m : list N) : N := match m with [] => 0 | a :: r => a - hd 0 r end.
Definition goto (l : local) (p : pc) : local := {| pcl := p; todo := todo l; results := results l |}.

Section Machine.
Variable fx : fixes.

Definition step (s : shared) (l : local) : option (shared * local) :=
  match pcl l with
  | Start => Some (s, enter (todo l) (results l))
  | Done => None
  | PA1 v => Some (set_cnt s (a1 (cnt s)), goto l (PA2 v))
  | PA2 v => Some ({| cnt := a2 v (cnt s); gau := gau s; idle := idle s; added := added s + v; sent := sent s;
                      rawd := rawd s; lost := lost s; marks := marks s; flog := flog s; ghist := ghist s |}, goto l PA3)
  | PA3 => Some (set_cnt s (a3 (cnt s)), enter (todo l) (RU :: results l))
  | PB1 v => let '(was, c) := b1 (cnt s) in
             Some (set_cnt s c, goto l (if was then PB3 false v else PB2 v))
  | PB2 v => Some (set_cnt s (b2 v (cnt s)), goto l (PB3 true v))
  | PB3 first v => Some (set_cnt s (b3 fx first v (cnt s)), goto l PB4)
  | PB4 => Some (set_cnt s (a3 (cnt s)), enter (todo l) (RU :: results l))
  | PG1 w => Some ({| cnt := cnt s; gau := g1 w (gau s); idle := idle s; added := added s; sent := sent s;
                      rawd := rawd s; lost := lost s; marks := marks s; flog := flog s; ghist := w :: ghist s |}, goto l PG2)
  | PG2 => Some (set_gau s (g2 (gau s)), enter (todo l) (RU :: results l))
  | PF1 st => Some ({| cnt := cnt s; gau := gau s; idle := idle s; added := added s; sent := sent s;
                       rawd := rawd s; lost := lost s; marks := added s :: marks s; flog := flog s; ghist := ghist s |},
                    goto l (PF2 st (cur (cnt s))))
  | PF2 st sn => let '(ol, c) := f2 sn (cnt s) in Some (set_cnt s c, goto l (PF3 st (sub64 sn ol)))
  | PF3 st d =>
      let '(u, c) := f3 (cnt s) in
      if st then
        let '(idle', o) := decide fx (idle s) d u in
        Some ({| cnt := c; gau := gau s; idle := idle'; added := added s;
                 sent := match o with Some x => x :: sent s | None => sent s end;
                 rawd := rawd s;
                 lost := match o with Some _ => lost s | None => d :: lost s end;
                 marks := marks s; flog := (d, window (marks s)) :: flog s; ghist := ghist s |},
              goto l (PH1 (Some (o, match o with Some _ => u | None => 0 end))))
      else
        Some ({| cnt := c; gau := gau s; idle := idle s; added := added s; sent := sent s;
                 rawd := d :: rawd s; lost := lost s; marks := marks s;
                 flog := (d, window (marks s)) :: flog s; ghist := ghist s |},
              enter (todo l) (RCnt d u :: results l))
  | PH1 carry => Some (s, goto l (PH2 carry (gv (gau s)) (ghist s)))
  | PH2 carry z h =>
      let '(u, g) := g4 (gau s) in
      Some (set_gau s g,
            enter (todo l) (match carry with
                            | None => RGau z u h
                            | Some (o, cp) => RState o z cp u h
                            end :: results l))
  end.
End Machine.

Definition site (l : local) : N :=
  match pcl l with
  | Start => 0 | Done => 0
  | PA1 _ => 1001 | PA2 _ => 1002 | PA3 => 1003
  | PB1 _ => 1004 | PB2 _ => 1005 | PB3 _ _ => 1006 | PB4 => 1007
  | PG1 _ => 1011 | PG2 => 1012
  | PF1 _ => 1008 | PF2 _ _ => 1009 | PF3 _ _ => 1010
  | PH1 _ => 1013 | PH2 _ _ _ => 1014
  end.

Definition init_shared : shared :=
  {| cnt := cell0; gau := gcell0; idle := false; added := 0; sent := []; rawd := []; lost := [];
     marks := []; flog := []; ghist := [] |}.
Definition init_local (p : list uop) : local := {| pcl := Start; todo := p; results := [] |}.
Definition init_config (ps : list (list uop)) : config := (init_shared, map init_local ps).

(* ------------------------------------------------------------------ Part 3: sequential machines *)
(* the same accesses, executed without interleaving *)
Definition seq_inc (v : N) (c : cell) : cell := a3 (a2 v (a1 c)).
Definition seq_abs (fx : fixes) (v : N) (c : cell) : cell :=
  let '(was, c1) := b1 c in
  let c2 := if was then c1 else b2 v c1 in
  a3 (b3 fx (negb was) v c2).
Definition seq_cflush (c : cell) : cell * (N * N) :=
  let s := cur c in
  let '(ol, c1) := f2 s c in
  let '(u, c2) := f3 c1 in (c2, (sub64 s ol, u)).
Definition seq_gwrite (w : gwrite) (g : gcell) : gcell := g2 (g1 w g).
Definition seq_gflush (g : gcell) : gcell * (Z * N) :=
  let z := gv g in let '(u, g') := g4 g in (g', (z, u)).

(* one counter key of the registry: events and per-flush outputs *)
Inductive cev := CReg | CInc (v : N) | CAbs (v : N) | CFlush.
Record cst := { c_cell : cell; c_idle : bool; c_reg : bool }.
Definition cst0 : cst := {| c_cell := cell0; c_idle := false; c_reg := false |}.
(* output of a flush: Some (delta, points_flushed) if a message is written *)
Definition cstep (fx : fixes) (st : cst) (e : cev) : cst * list (option (N * N)) :=
  match e with
  | CReg => ({| c_cell := c_cell st; c_idle := c_idle st; c_reg := true |}, [])
  | CInc v => ({| c_cell := seq_inc v (c_cell st); c_idle := c_idle st; c_reg := true |}, [])
  | CAbs v => ({| c_cell := seq_abs fx v (c_cell st); c_idle := c_idle st; c_reg := true |}, [])
  | CFlush =>
      if c_reg st then
        let '(c', (d, u)) := seq_cflush (c_cell st) in
        let '(i', o) := decide fx (c_idle st) d u in
        ({| c_cell := c'; c_idle := i'; c_reg := true |},
         [match o with Some x => Some (x, u) | None => None end])
      else (st, [None])
  end.
Fixpoint crun (fx : fixes) (st : cst) (es : list cev) : list (option (N * N)) :=
  match es with
  | [] => []
  | e :: r => let '(st', o) := cstep fx st e in o ++ crun fx st' r
  end.

Inductive gev := GReg | GWrite (w : gwrite) | GFlush.
Record gst := { g_cell : gcell; g_reg : bool }.
Definition gst0 : gst := {| g_cell := gcell0; g_reg := false |}.
Definition gstep (st : gst) (e : gev) : gst * list (option (Z * N)) :=
  match e with
  | GReg => ({| g_cell := g_cell st; g_reg := true |}, [])
  | GWrite w => ({| g_cell := seq_gwrite w (g_cell st); g_reg := true |}, [])
  | GFlush =>
      if g_reg st then
        let '(g', zu) := seq_gflush (g_cell st) in ({| g_cell := g'; g_reg := true |}, [Some zu])
      else (st, [None])
  end.
Fixpoint grun (st : gst) (es : list gev) : list (option (Z * N)) :=
  match es with
  | [] => []
  | e :: r => let '(st', o) := gstep st e in o ++ grun st' r
  end.

(* histogram: the values recorded since the last flush (push order).  Sequential abstraction of
   AtomicBucket: clear_with hands over blocks of 64 values, newest block first, each in push order.
   With sampling on and at most [rsv] values per window the reservoir yields them all in push
   order, in one call, with sample rate 1.0 *)
Inductive hev := HReg | HRec (z : Z) | HFlush.
Record hst := { h_bag : list Z; h_reg : bool }.
Definition hst0 : hst := {| h_bag := []; h_reg := false |}.
Definition block_size : nat := 64.
Fixpoint chunks (fuel : nat) (l : list Z) : list (list Z) :=
  match fuel, l with
  | _, [] => []
  | O, _ => [l]
  | S f, _ => firstn block_size l :: chunks f (skipn block_size l)
  end.
Definition blocks_of (samp : bool) (l : list Z) : list (list Z) :=
  match l with
  | [] => []
  | _ => if samp then [l] else rev (chunks (length l) l)
  end.
Definition hstep (samp : bool) (st : hst) (e : hev) : hst * list (list (list Z)) :=
  match e with
  | HReg => ({| h_bag := h_bag st; h_reg := true |}, [])
  | HRec z => ({| h_bag := h_bag st ++ [z]; h_reg := true |}, [])
  | HFlush => ({| h_bag := []; h_reg := h_reg st |}, [blocks_of samp (h_bag st)])
  end.
Fixpoint hrun (samp : bool) (st : hst) (es : list hev) : list (list (list Z)) :=
  match es with
  | [] => []
  | e :: r => let '(st', o) := hstep samp st e in o ++ hrun samp st' r
  end.

(* ---- the exporter over a key table *)
Inductive oop :=
| ORegC (k : N) | ORegG (k : N) | ORegH (k : N)
| OInc (k v : N) | OAbs (k v : N)
| OGau (k : N) (w : gwrite)
| ORec (k : N) (z : Z)
| OFlush (now : N).

Definition projC (k : N) (o : oop) : list cev :=
  match o with
  | ORegC k' => if k' =? k then [CReg] else []
  | OInc k' v => if k' =? k then [CInc v] else []
  | OAbs k' v => if k' =? k then [CAbs v] else []
  | OFlush _ => [CFlush]
  | _ => []
  end.
Definition projG (k : N) (o : oop) : list gev :=
  match o with
  | ORegG k' => if k' =? k then [GReg] else []
  | OGau k' w => if k' =? k then [GWrite w] else []
  | OFlush _ => [GFlush]
  | _ => []
  end.
Definition projH (k : N) (o : oop) : list hev :=
  match o with
  | ORegH k' => if k' =? k then [HReg] else []
  | ORec k' z => if k' =? k then [HRec z] else []
  | OFlush _ => [HFlush]
  | _ => []
  end.
Definition nows (ops : list oop) : list N :=
  flat_map (fun o => match o with OFlush n => [n] | _ => [] end) ops.

Record ocase := {
  o_aggr : bool; o_dist : bool; o_samp : bool; o_rsv : N; o_max : N; o_lp : bool;
  o_prefix : option bytes; o_glabels : list label;
  o_keys : list (bytes * list label);
  o_ops : list oop }.

(* what State::flush hands to the writer, in the model's key order (counters, gauges, histograms) *)
Inductive wcall :=
| WC (k : N) (d : N) (points : N) (ts : option N)
| WG (k : N) (z : Z) (points : N) (ts : option N)
| WH (k : N) (block : list Z).

Definition keyids (c : ocase) : list N := map N.of_nat (seq 0 (length (o_keys c))).

Definition flush_calls (fx : fixes) (c : ocase) (i : nat) (now : N) : list wcall :=
  let ts := agg_timestamp fx (o_aggr c) now in
  flat_map (fun k => match nth i (crun fx cst0 (flat_map (projC k) (o_ops c))) None with
                     | Some (d, u) => [WC k d u ts] | None => [] end) (keyids c)
  ++ flat_map (fun k => match nth i (grun gst0 (flat_map (projG k) (o_ops c))) None with
                        | Some (z, u) => [WG k z u ts] | None => [] end) (keyids c)
  ++ flat_map (fun k => map (WH k) (nth i (hrun (o_samp c) hst0 (flat_map (projH k) (o_ops c))) [])) (keyids c).

Fixpoint all_calls_from (fx : fixes) (c : ocase) (i : nat) (ns : list N) : list (list wcall) :=
  match ns with
  | [] => []
  | n :: r => flush_calls fx c i n :: all_calls_from fx c (S i) r
  end.
Definition all_calls (fx : fixes) (c : ocase) : list (list wcall) := all_calls_from fx c 0 (nows (o_ops c)).

(* ---- rendering through C09's writer model *)
Fixpoint dec_aux (fuel : nat) (n : N) (acc : bytes) : bytes :=
  match fuel with
  | O => acc
  | S f => let acc' := (48 + n mod 10) :: acc in if n <? 10 then acc' else dec_aux f (n / 10) acc'
  end.
Definition dec (n : N) : bytes := dec_aux 25 n [].       (* itoa: decimal digits of a u64 *)
(* ryu on an integer-valued double below 1e16: digits ".0" *)
Definition fmt_z (z : Z) : bytes :=
  (if (z <? 0)%Z then [45] else []) ++ dec (Z.abs_N z) ++ [46; 48].

Fixpoint starts_with (p b : bytes) : bool :=
  match p, b with
  | [], _ => true
  | x :: p', y :: b' => (x =? y) && starts_with p' b'
  | _, [] => false
  end.
(* "datadog.dogstatsd.client" *)
Definition telemetry_prefix : bytes :=
  [100;97;116;97;100;111;103;46;100;111;103;115;116;97;116;115;100;46;99;108;105;101;110;116].

Definition key_of (c : ocase) (k : N) : bytes * list label := nth (N.to_nat k) (o_keys c) ([], []).
Definition env_of (c : ocase) (name : bytes) : W.env :=
  {| W.prefix := if starts_with telemetry_prefix name then None else o_prefix c;
     W.glabels := o_glabels c; W.fx := W.all_fixed |}.

(* one flush: writer state, telemetry points (counter, gauge, histogram) *)
Definition wstate := (W.writer * (N * N * N))%type.
Definition write_call (c : ocase) (ws : wstate) (x : wcall) : W.res wstate :=
  let '(w, (cp, gp, hp)) := ws in
  match x with
  | WC k d u ts =>
      let '(name, labels) := key_of c k in
      match W.write_scalar (env_of c name) w 99 name labels (dec d) (option_map dec ts) with
      | W.Panic => W.Panic
      | W.Ok (w', (_, pd)) => W.Ok (w', (if pd =? 0 then cp + u else cp, gp, hp))
      end
  | WG k z u ts =>
      let '(name, labels) := key_of c k in
      match W.write_scalar (env_of c name) w 103 name labels (fmt_z z) (option_map dec ts) with
      | W.Panic => W.Panic
      | W.Ok (w', (_, pd)) => W.Ok (w', (cp, if pd =? 0 then gp + u else gp, hp))
      end
  | WH k block =>
      let '(name, labels) := key_of c k in
      match W.write_hist_dist_inner (env_of c name) w (if o_dist c then 100 else 104) name labels
                                    (map fmt_z block) (if o_samp c then Some [49; 46; 48] else None) with
      | W.Panic => W.Panic
      | W.Ok (w', (_, pd)) => W.Ok (w', (cp, gp, hp + (W.len block - pd)))
      end
  end.
Fixpoint write_calls (c : ocase) (ws : wstate) (xs : list wcall) : W.res wstate :=
  match xs with
  | [] => W.Ok ws
  | x :: r => match write_call c ws x with W.Panic => W.Panic | W.Ok ws' => write_calls c ws' r end
  end.

(* messages, as the check's parser reports them: histogram messages of one key merged, values sorted *)
Record msg := { m_kind : N (* 0 counter, 1 gauge, 2 histogram/distribution *); m_key : N;
                m_vals : list Z; m_ts : option N }.
Fixpoint insert_z (x : Z) (l : list Z) : list Z :=
  match l with
  | [] => [x]
  | y :: r => if (x <=? y)%Z then x :: l else y :: insert_z x r
  end.
Definition sort_z (l : list Z) : list Z := fold_right insert_z [] l.
Definition msgs_of (c : ocase) (xs : list wcall) : list msg :=
  flat_map (fun x => match x with
                     | WC k d _ ts => [{| m_kind := 0; m_key := k; m_vals := [Z.of_N d]; m_ts := ts |}]
                     | WG k z _ ts => [{| m_kind := 1; m_key := k; m_vals := [z]; m_ts := ts |}]
                     | WH _ _ => []
                     end) xs
  ++ flat_map (fun k =>
                 match flat_map (fun x => match x with WH k' b => if k' =? k then b else [] | _ => [] end) xs with
                 | [] => []
                 | vs => [{| m_kind := 2; m_key := k; m_vals := sort_z vs; m_ts := None |}]
                 end) (keyids c).

Inductive fout :=
| FOut (ms : list msg) (payloads : list bytes) (cp gp hp : N)
| FPanic.

(* forwarder iteration: State::flush, then every payload of writer.payloads() *)
Fixpoint run_flushes (c : ocase) (w : W.writer) (fl : list (list wcall)) : list fout :=
  match fl with
  | [] => []
  | xs :: r =>
      match write_calls c (w, (0, 0, 0)) xs with
      | W.Panic => [FPanic]
      | W.Ok (w1, (cp, gp, hp)) =>
          match W.drain W.all_fixed w1 None with
          | W.Panic => [FPanic]
          | W.Ok (w2, (_, ps)) => FOut (msgs_of c xs) ps cp gp hp :: run_flushes c w2 r
          end
      end
  end.

Definition run_seq (fx : fixes) (c : ocase) : option (list fout) :=
  match W.new (o_max c) (o_lp c) with
  | W.Panic => None
  | W.Ok w => Some (run_flushes c w (all_calls fx c))
  end.
