(* C10 — consequences of the conservation invariant; the quiescent (idle) invariant; the gauge
   invariant.  All for every schedule and any number of threads. *)
From Coq Require Import List NArith ZArith Bool Lia.
Import ListNotations.
Require Import MV.Common.Interleave MV.C10.Model MV.C10.ProofsConc.
Open Scope N_scope.

Notation lupd := (@MV.Common.Interleave.upd _).
Ltac Zify.zify_post_hook ::= Z.to_euclidean_division_equations.

Definition noabs_prog (p : list uop) : Prop := Forall noabs_op p.

Lemma Inv_init fx ps : Forall noabs_prog ps -> Inv fx (init_config ps).
Proof.
  intros H. unfold Inv, init_config. cbn [fst snd].
  assert (P : sumL pend (map init_local ps) = 0) by (clear H; induction ps; cbn; auto).
  split; [reflexivity|]. split; [rewrite P; reflexivity|]. split; [|split].
  - induction H; cbn; constructor; auto. split; cbn; auto.
  - clear H P. induction ps; cbn; constructor; auto. exact I.
  - intros _. constructor.
Qed.

Theorem increment_conservation fx ps sched :
  Forall noabs_prog ps ->
  let c := fst (exec (step fx) site (init_config ps) sched) in
  (sl (sent (fst c)) + sl (rawd (fst c)) + sl (lost (fst c)) + sumL pend (snd c)
   + sub64 (cur (cnt (fst c))) (last (cnt (fst c)))) mod two64 = added (fst c) mod two64
  /\ (fix_idle fx = true -> Forall (fun d => d = 0) (lost (fst c))).
Proof.
  intros H c.
  pose proof (invariant_all_schedules (step fx) site (Inv fx) (step_preserves_Inv fx) sched _ (Inv_init fx ps H)) as HI.
  fold c in HI. destruct HI as (Hcur & Hsum & _ & _ & Hlost). split; [|exact Hlost].
  rewrite <- Hcur. apply sub64_spec; [exact Hsum|]. rewrite Hcur. apply N.mod_lt. discriminate.
Qed.

Lemma sl_zero l : Forall (fun d => d = 0) l -> sl l = 0.
Proof. induction 1; cbn; lia. Qed.

Theorem increment_conservation_fixed ps sched :
  Forall noabs_prog ps ->
  let c := fst (exec (step all_fixed) site (init_config ps) sched) in
  (sl (sent (fst c)) + sl (rawd (fst c)) + sumL pend (snd c)
   + sub64 (cur (cnt (fst c))) (last (cnt (fst c)))) mod two64 = added (fst c) mod two64
  /\ Forall (fun d => d = 0) (lost (fst c)).
Proof.
  intros H c. destruct (increment_conservation all_fixed ps sched H) as [A B]. fold c in A, B.
  specialize (B eq_refl). split; [|exact B]. rewrite (sl_zero _ B) in A. rewrite <- A. f_equal. lia.
Qed.

(* the code as found: an increment of 5 is dropped by the idle logic and never sent *)
Lemma increment_conservation_refuted_before_fix :
  exists ps sched, Forall noabs_prog ps /\
    let c := fst (exec (step as_found) site (init_config ps) sched) in
    all_done (step as_found) c = true /\ added (fst c) = 5 /\ lost (fst c) = [5] /\
    sl (sent (fst c)) + sl (rawd (fst c)) + sumL pend (snd c) + sub64 (cur (cnt (fst c))) (last (cnt (fst c))) = 0.
Proof.
  exists [[UInc 5]; [FState; FState; FState]], [1;1;1;1;1;1;0;0;0;1;1;1;1;1;0;1;1;1;1;1]%nat.
  split; [repeat constructor|]. vm_compute. repeat split.
Qed.

(* ------------------------------------------------------------------ quiescent configurations *)
Definition flush_op (o : uop) : Prop := match o with UInc _ | UAbs _ => False | _ => True end.
Definition qlocal (c0 : N) (l : local) : Prop :=
  Forall flush_op (todo l) /\
  match pcl l with
  | PA1 _ | PA2 _ | PA3 | PB1 _ | PB2 _ | PB3 _ _ | PB4 => False
  | PF2 _ s => s = c0
  | PF3 _ d => d = 0
  | _ => True
  end.
(* [s0], [i0]: the sent list and the idle flag at the start of the quiet period *)
Definition Qinv (c0 : N) (s0 : list N) (i0 : bool) (c : config) : Prop :=
  upd (cnt (fst c)) = 0 /\ cur (cnt (fst c)) = c0 /\ last (cnt (fst c)) = c0 /\
  Forall (qlocal c0) (snd c) /\
  ((sent (fst c) = s0 /\ idle (fst c) = i0) \/ (i0 = false /\ sent (fst c) = 0 :: s0 /\ idle (fst c) = true)).

Lemma enter_q c0 td rs : Forall flush_op td -> qlocal c0 (enter td rs).
Proof.
  intros H. destruct td as [|o r]; [split; [constructor|exact I]|].
  inversion H as [|? ? Ho Hr]; subst. destruct o; cbn in Ho; try contradiction; split; cbn; auto.
Qed.

Lemma sub64_self a : sub64 a a = 0.
Proof. unfold sub64, two64. lia. Qed.

Lemma decide_quiet fx i : decide fx i 0 0 = (true, if i then None else Some 0).
Proof. unfold decide. cbn. destruct (fix_idle fx), i; reflexivity. Qed.

Lemma step_preserves_Qinv fx c0 s0 i0 : step_preserves (step fx) (Qinv c0 s0 i0).
Proof.
  intros s ls t l s' l' (Hu & Hc & Hl & Hq & Hs) Hnth Hstep. unfold Qinv in *. cbn [fst snd] in *.
  pose proof (Forall_nth_error _ _ _ _ Hq Hnth) as [Htd Hpc].
  unfold step in Hstep. destruct l as [p td rs]. cbn [pcl todo results] in *.
  destruct p; cbn in Hpc; try contradiction; try discriminate; cbn in Hstep.
  all: try (inversion Hstep; subst; clear Hstep; cbn;
            repeat split; auto;
            apply Forall_upd; [exact Hq| first [apply enter_q; exact Htd | split; [exact Htd | cbn; auto]]]).
  - (* PF2 *) rewrite Hl. apply sub64_self.
  - (* PF3 *) subst d. rewrite Hu in Hstep. destruct st.
    + rewrite decide_quiet in Hstep. inversion Hstep; subst; clear Hstep. cbn.
      repeat split; auto.
      * apply Forall_upd; [exact Hq|]. split; [exact Htd|exact I].
      * destruct Hs as [[Hs Hi]|(Hi0 & Hs & Hi)]; rewrite Hi.
        -- destruct i0; [left; auto|right; repeat split; auto; f_equal; exact Hs].
        -- right; auto.
    + inversion Hstep; subst; clear Hstep. cbn.
      repeat split; auto. apply Forall_upd; [exact Hq|]. apply enter_q; exact Htd.
Qed.

Theorem idle_once_all_schedules fx c0 s0 i0 c sched :
  Qinv c0 s0 i0 c -> Qinv c0 s0 i0 (fst (exec (step fx) site c sched)).
Proof. apply invariant_all_schedules. apply step_preserves_Qinv. Qed.

(* ------------------------------------------------------------------ gauges *)
Definition replay (h : list gwrite) : Z := fold_right gapply 0%Z h.
Definition gsnap (g : list gwrite) (z : Z) (h : list gwrite) : Prop := z = replay h /\ exists pre, g = pre ++ h.
Definition gres_ok (g : list gwrite) (r : res) : Prop :=
  match r with RGau z _ h | RState _ z _ _ h => gsnap g z h | _ => True end.
Definition glocal_ok (g : list gwrite) (l : local) : Prop :=
  match pcl l with PH2 _ z h => gsnap g z h | _ => True end /\ Forall (gres_ok g) (results l).
Definition GInv (c : config) : Prop :=
  gv (gau (fst c)) = replay (ghist (fst c)) /\ Forall (glocal_ok (ghist (fst c))) (snd c).

Lemma gsnap_mono g w z h : gsnap g z h -> gsnap (w :: g) z h.
Proof. intros [A [pre B]]. split; [exact A|]. exists (w :: pre). rewrite B. reflexivity. Qed.
Lemma glocal_mono g w l : glocal_ok g l -> glocal_ok (w :: g) l.
Proof.
  intros [A B]. split.
  - destruct (pcl l); auto. apply gsnap_mono; exact A.
  - eapply Forall_impl; [|exact B]. intros r Hr. destruct r; cbn in *; auto; apply gsnap_mono; exact Hr.
Qed.
Lemma enter_g g td rs : Forall (gres_ok g) rs -> glocal_ok g (enter td rs).
Proof. intros H. destruct td as [|[] r]; split; cbn; auto. Qed.

Lemma step_preserves_GInv fx : step_preserves (step fx) GInv.
Proof.
  intros s ls t l s' l' (Hv & Hl) Hnth Hstep. unfold GInv in *. cbn [fst snd] in *.
  pose proof (Forall_nth_error _ _ _ _ Hl Hnth) as [Hpc Hrs].
  unfold step in Hstep. destruct l as [p td rs]. cbn [pcl todo results] in *.
  destruct p; cbn in Hstep; try discriminate.
  all: try (inversion Hstep; subst; clear Hstep; cbn; split; [exact Hv|];
            apply Forall_upd; [exact Hl| first [apply enter_g; first [exact Hrs | constructor; [exact I|exact Hrs]]
                                               | split; [exact I|exact Hrs]]]).
  - (* PB1 *) destruct (is_abs (cnt s)); inversion Hstep; subst; clear Hstep; cbn; (split; [exact Hv|]);
      (apply Forall_upd; [exact Hl|split; [exact I|exact Hrs]]).
  - (* PG1 *) inversion Hstep; subst; clear Hstep. cbn. split; [rewrite Hv; reflexivity|].
    apply Forall_upd; [|apply glocal_mono; split; [exact I|exact Hrs]].
    eapply Forall_impl; [|exact Hl]. intros a Ha. apply glocal_mono; exact Ha.
  - (* PF3 *) destruct st.
    + destruct (decide fx (idle s) d (upd (cnt s))) as [i' o]. inversion Hstep; subst; clear Hstep. cbn.
      split; [exact Hv|]. apply Forall_upd; [exact Hl|split; [exact I|exact Hrs]].
    + inversion Hstep; subst; clear Hstep. cbn. split; [exact Hv|].
      apply Forall_upd; [exact Hl|]. apply enter_g. constructor; [exact I|exact Hrs].
  - (* PH1 *) inversion Hstep; subst; clear Hstep. cbn. split; [exact Hv|].
    apply Forall_upd; [exact Hl|]. split; [|exact Hrs]. cbn. split; [exact Hv|exists []; reflexivity].
  - (* PH2 *) inversion Hstep; subst; clear Hstep. cbn. split; [exact Hv|].
    apply Forall_upd; [exact Hl|]. apply enter_g. constructor; [|exact Hrs].
    cbn in Hpc. destruct carry as [[o cp]|]; exact Hpc.
Qed.

Lemma GInv_init ps : GInv (init_config ps).
Proof.
  split; [reflexivity|]. cbn. induction ps; cbn; constructor; auto. split; [exact I|constructor].
Qed.

(* every value a gauge flush returned (raw or through State::flush) is the result of applying, in
   execution order, exactly the writes whose value access (1011) executed before its load (1013) *)
Theorem gauge_latest fx ps sched :
  let c := fst (exec (step fx) site (init_config ps) sched) in
  gv (gau (fst c)) = replay (ghist (fst c)) /\
  forall u l r, nth_error (snd c) u = Some l -> In r (results l) ->
    match r with
    | RGau z _ h | RState _ z _ _ h => z = replay h /\ exists later, ghist (fst c) = later ++ h
    | _ => True
    end.
Proof.
  intros c.
  pose proof (invariant_all_schedules (step fx) site GInv (step_preserves_GInv fx) sched _ (GInv_init ps)) as [Hv Hl].
  fold c in Hv, Hl. split; [exact Hv|]. intros u l r Hn Hin.
  pose proof (Forall_nth_error _ _ _ _ Hl Hn) as [_ Hrs]. rewrite Forall_forall in Hrs.
  specialize (Hrs r Hin). destruct r; cbn in *; auto.
Qed.
